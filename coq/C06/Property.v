(* C06/Property.v — property C06 (memory reads and writes are exact, complete and never wedge the
   subsystem), theorems only.  Model: C06/Model.v ([step true] = the code with fixes/F06.patch,
   [step false] = the original code).  Each theorem is closed by a lemma of Proofs / Order / Limits /
   InOrder / Exact / Refute and followed by Print Assumptions. *)
From CF Require Import Common.Bytes C06.Model C06.Proofs C06.Order C06.Limits C06.InOrder C06.Exact C06.Refute C06.DeckModel C06.DeckProofs C06.DeckRefute C06.InfoModel C06.InfoProofs C06.InfoEnum C06.InfoRefute C06.Wrapper C06.Reentrant C06.DeckSlot C06.Early.
Open Scope Z_scope.

(* ---------------------------------------------------------------- protocol limits *)
(* Every request packet of every history (reads, queued / flushing writes, arbitrary packets on the memory
   port, disconnects): read requests are 6 bytes and ask for 0..20 bytes, write packets carry at most
   25 data bytes (5..30 bytes in all), every byte is a byte, nothing is sent on another channel. *)
Theorem C06_packets_within_limits : forall evs, Forall pkt_ok (snd (run true c_init evs)).
Proof. exact (packets_within_limits true). Qed.
Print Assumptions C06_packets_within_limits.

(* ---------------------------------------------------------------- exactness, replies in order *)
(* A read of any memory, address and length n, each reply delivered once, in order: exactly
   max(1, ceil(n/20)) request packets, the last observation is the success notification carrying
   exactly the bytes the server holds in [a, a+n); nothing pending afterwards, image untouched. *)
Theorem C06_read_in_order_exact : forall plan s1 i a n s2 tr2,
  wf_event (ERead i a n) ->
  rd_get i (c_reads (s_cl s1)) = None ->
  (forall k, (s_n s1 <= k)%nat -> plan k = 0) ->
  (forall j x, 0 <= s_mem s1 j x < 256) ->
  sys_run true plan s1 (SOp (ERead i a n) :: InOrder.deliver_from (length (s_log s1)) (nchunks n 20)) = (s2, tr2) ->
  length (filter is_send tr2) = nchunks n 20 /\
  (exists tr', tr2 = tr' ++ [OReadOk (c_next (s_cl s1)) i a (mread (s_mem s1) i a (Z.to_nat n))]) /\
  Forall (fun o => match o with
                   | OSend _ ChRead p => length p = 6%nat /\ 0 <= nth 5 p 0 <= 20
                   | OSend _ _ _ => False
                   | _ => True end) tr2 /\
  rd_get i (c_reads (s_cl s2)) = None /\
  (forall j x, s_mem s2 j x = s_mem s1 j x).
Proof. exact read_in_order. Qed.
Print Assumptions C06_read_in_order_exact.

(* A write of any data d to any memory and address, started on an idle queue, each acknowledgement
   delivered once, in order: exactly max(1, ceil(|d|/25)) packets of at most 30 bytes, the last
   observation is the success notification, the image of that memory is the old one with d at [a, a+|d|)
   (mwrite), every other memory is unchanged, the queue is idle again. *)
Theorem C06_write_in_order_exact : forall plan s1 i a d fl s2 tr2,
  wf_event (EWrite i a d fl) ->
  c_leaked (s_cl s1) = false ->
  write_idle (s_cl s1) i ->
  (forall k, (s_n s1 <= k)%nat -> plan k = 0) ->
  sys_run true plan s1 (SOp (EWrite i a d fl) :: InOrder.deliver_from (length (s_log s1)) (nchunks (zlen d) 25)) = (s2, tr2) ->
  length (filter is_send tr2) = nchunks (zlen d) 25 /\
  (exists tr', tr2 = tr' ++ [OWriteOk (c_next (s_cl s1)) i a]) /\
  Forall (fun o => match o with
                   | OSend _ ChWrite p => (length p <= 30)%nat
                   | OSend _ _ _ => False
                   | _ => True end) tr2 /\
  (forall x, s_mem s2 i x = mwrite (s_mem s1) i a d i x) /\
  (forall j x, j <> i -> s_mem s2 j x = s_mem s1 j x) /\
  write_idle (s_cl s2) i.
Proof. exact write_in_order. Qed.
Print Assumptions C06_write_in_order_exact.

(* ---------------------------------------------------------------- exactness under any reply schedule *)
(* The property asks for exactness under duplicated, delayed and refused replies for all sequences of requests.
   At full strength (C06_read_exact_full / C06_write_exact_full: any delivery of any reply ever produced) this
   is FALSE for the code as it is and stays false with F06 repaired (finding F06b, theorems _refuted below):
   a reply that outlived its request is taken for the answer of a later request to the same memory and
   address.  What holds (the _partial theorems): every delivered reply may be late, duplicated, out of order
   or a refusal, as long as it answers a packet of the request that is still active ([all_fresh]). *)
Definition C06_read_exact_full : Prop := read_exact_full.
Definition C06_write_exact_full : Prop := write_exact_full.

(* After any history pre: a read of [a, a+n) of memory i that is accepted while no write to i is queued,
   followed by any history mid without writes to i (reads and writes on other memories, disconnects, any
   fresh deliveries): whenever it is notified as done, the data are exactly the bytes the server holds in
   [a, a+n), and that memory did not change. *)
Theorem C06_read_exact_partial : forall plan m0 pre s1 tr1 i a n mid s2 tr2,
  sys_run true plan (sys_init m0) pre = (s1, tr1) ->
  wf_event (ERead i a n) -> Forall wf_sevent mid ->
  rd_get i (c_reads (s_cl s1)) = None ->
  write_idle (s_cl s1) i ->
  Forall (no_write_to i) mid ->
  all_fresh true plan s1 (SOp (ERead i a n) :: mid) = true ->
  sys_run true plan s1 (SOp (ERead i a n) :: mid) = (s2, tr2) ->
  forall i' a' d, In (OReadOk (c_next (s_cl s1)) i' a' d) tr2 ->
    i' = i /\ a' = a /\ d = mread (s_mem s2) i a (Z.to_nat n) /\ (forall x, s_mem s2 i x = s_mem s1 i x).
Proof. exact read_exact. Qed.
Print Assumptions C06_read_exact_partial.

(* A write of d at a of memory i issued on an idle queue, followed by any history without further writes
   to i: whenever it is notified as done, the image of memory i is the old image with d over [a, a+|d|)
   and unchanged elsewhere (definition of mwrite). *)
Theorem C06_write_exact_partial : forall plan m0 pre s1 tr1 i a d fl mid s2 tr2,
  sys_run true plan (sys_init m0) pre = (s1, tr1) ->
  wf_event (EWrite i a d fl) -> Forall wf_sevent mid ->
  write_idle (s_cl s1) i ->
  Forall (no_write_to i) mid ->
  all_fresh true plan s1 (SOp (EWrite i a d fl) :: mid) = true ->
  sys_run true plan s1 (SOp (EWrite i a d fl) :: mid) = (s2, tr2) ->
  forall i' a', In (OWriteOk (c_next (s_cl s1)) i' a') tr2 ->
    i' = i /\ a' = a /\ (forall x, s_mem s2 i x = mwrite (s_mem s1) i a d i x).
Proof. exact write_exact. Qed.
Print Assumptions C06_write_exact_partial.

Theorem C06_read_exact_full_refuted : ~ C06_read_exact_full.
Proof. exact read_exact_full_refuted. Qed.
Print Assumptions C06_read_exact_full_refuted.

Theorem C06_write_exact_full_refuted : ~ C06_write_exact_full.
Proof. exact write_exact_full_refuted. Qed.
Print Assumptions C06_write_exact_full_refuted.

(* ---------------------------------------------------------------- exactly one notification *)
(* After every history, every request ever accepted (uid u below the counter) is exactly one of: still
   recorded as pending, or settled once (one success or failure notification, or dropped by
   flush_queue and then never notified).  So: no second notification, no notification of a
   superseded request, no record of a finished request. *)
Theorem C06_exactly_one_notification : forall evs u,
  let c := fst (run true c_init evs) in let tr := snd (run true c_init evs) in
  cnt u (settled tr) <= 1 /\
  (0 <= u < c_next c -> cnt u (pending c) + cnt u (settled tr) = 1) /\
  (In u (pending c) -> cnt u (settled tr) = 0 /\ cnt u (pending c) = 1).
Proof.
  intros evs u. cbv zeta. split; [apply settled_once|]. split; [apply issued_pending_or_settled|apply pending_not_settled].
Qed.
Print Assumptions C06_exactly_one_notification.

(* The link drops at any point: nothing stays pending, the lock is free and every request accepted so far
   is settled exactly once. *)
Theorem C06_disconnect_settles_all : forall evs,
  let r := run true c_init (evs ++ [EDisc]) in
  c_reads (fst r) = [] /\ c_writes (fst r) = [] /\ c_leaked (fst r) = false /\
  forall u, 0 <= u < c_next (fst r) -> cnt u (settled (snd r)) = 1.
Proof. exact disc_settles_all. Qed.
Print Assumptions C06_disconnect_settles_all.

(* ---------------------------------------------------------------- queued writes in order *)
(* For every memory i and every history: the uids of the write packets of memory i are non-decreasing
   along the trace (all packets of an earlier write come before any packet of a later one) and the uids of
   its write notifications are strictly increasing (uids are handed out in call order). *)
Theorem C06_queued_writes_in_order : forall evs i,
  let tr := snd (run true c_init evs) in nondecr (wsends i tr) /\ incr (wnotes i tr).
Proof. exact (writes_in_order true). Qed.
Print Assumptions C06_queued_writes_in_order.

(* ---------------------------------------------------------------- no residue *)
(* After every history the lock is free, and a read of a memory without a pending read / a write to a memory
   with an idle queue is served at once (first packet out, True returned). *)
Theorem C06_no_residue : forall evs,
  let c := fst (run true c_init evs) in
  c_leaked c = false /\
  (forall i a n, wf_event (ERead i a n) -> rd_get i (c_reads c) = None ->
     snd (step true c (ERead i a n)) = [OSend (c_next c) ChRead (i :: le_bytes 4 a ++ [Z.min n 20]); ORet true]) /\
  (forall i a d fl, wf_event (EWrite i a d fl) ->
     (wq_get i (c_writes c) = None \/ wq_get i (c_writes c) = Some []) ->
     snd (step true c (EWrite i a d fl)) =
       [OSend (c_next c) ChWrite (i :: le_bytes 4 a ++ firstn WCHUNK d); ORet true]).
Proof.
  intros evs. cbv zeta. pose proof (run_leaked_fixed evs c_init eq_refl) as L.
  split; [exact L|]. split.
  - intros i a n. apply next_read_served.
  - intros i a d fl WF. apply next_write_served; assumption.
Qed.
Print Assumptions C06_no_residue.

(* The original code (finding F06): after a write of 3 bytes, its acknowledgement delivered twice leaves
   the lock held; write() and the disconnect callback then block for ever.  The repaired step does not. *)
Theorem C06_original_code_wedges :
  let c := fst (run false c_init f06_history) in
  c_leaked c = true /\ snd (step false c (EWrite 2 0 [4] false)) = [OHang] /\ snd (step false c EDisc) = [OHang] /\
  c_leaked (fst (run true c_init f06_history)) = false.
Proof. exact original_code_wedges. Qed.
Print Assumptions C06_original_code_wedges.

(* ---------------------------------------------------------------- the deck-memory layer *)
(* DeckMemory(base).read / write map a deck-relative address a to base + a of the deck memory manager's memory
   [did]; one read and one write may be outstanding at the same time, on decks with different bases
   (model: C06/DeckModel.v, [drun true] = the code with fixes/F06d.patch).  For every history of deck reads and
   writes with any bases, arbitrary (late, duplicated, forged, refusing) packets, disconnects and requests on
   other memories: every callback of the deck layer reports exactly the deck-relative address that was asked in
   the request it belongs to. *)
Theorem C06_deck_notifications_attributed : forall did evs, Forall (wf_devent did) evs ->
  Forall dnote_ok (snd (drun true did (dm_init, c_init) evs)).
Proof. exact deck_notifications_attributed. Qed.
Print Assumptions C06_deck_notifications_attributed.

(* The bytes a deck read hands over are the bytes of a completed read of memory did at address asked + base,
   and a deck write reported done is a completed write at asked + base: with C06_read_exact_partial /
   C06_read_in_order_exact (resp. the write theorems) for that transfer, the deck-relative read returns
   device[base + addr, base + addr + len). *)
Theorem C06_deck_read_passes_through : forall did evs t asked b rep dat, Forall (wf_devent did) evs ->
  In (inr (DReadOk t asked b rep dat)) (snd (drun true did (dm_init, c_init) evs)) ->
  exists u, In (inl (OReadOk u did (asked + b) dat)) (snd (drun true did (dm_init, c_init) evs)).
Proof. exact deck_read_passes_through. Qed.
Print Assumptions C06_deck_read_passes_through.

Theorem C06_deck_write_passes_through : forall did evs t asked b rep, Forall (wf_devent did) evs ->
  In (inr (DWriteOk t asked b rep)) (snd (drun true did (dm_init, c_init) evs)) ->
  exists u, In (inl (OWriteOk u did (asked + b))) (snd (drun true did (dm_init, c_init) evs)).
Proof. exact deck_write_passes_through. Qed.
Print Assumptions C06_deck_write_passes_through.

(* After any such history, an event the manager does not refuse ('operation ongoing') never makes one of its
   listeners call a callback that is not there. *)
Theorem C06_deck_listeners_never_raise : forall did evs e, Forall (wf_devent did) evs -> wf_devent did e ->
  dev_event did (fst (fst (drun true did (dm_init, c_init) evs))) e <> None ->
  ~ In (inr DRaise) (snd (dstep true did (fst (drun true did (dm_init, c_init) evs)) e)).
Proof. exact deck_listeners_never_raise. Qed.
Print Assumptions C06_deck_listeners_never_raise.

(* The original deck layer (finding F06d): DeckMemory(0x20000000).write(8, ..) is reported done at
   0x20000008 instead of 8; the repaired one reports 8. *)
Theorem C06_original_deck_write_misattributed :
  Forall (wf_devent 6) f06d_history /\
  In (inr (DWriteOk 0 8 deckB (deckB + 8))) (snd (drun false 6 (dm_init, c_init) f06d_history)) /\
  In (inr (DWriteOk 0 8 deckB 8)) (snd (drun true 6 (dm_init, c_init) f06d_history)).
Proof. exact original_deck_write_misattributed. Qed.
Print Assumptions C06_original_deck_write_misattributed.

(* ---------------------------------------------------------------- memory enumeration and refresh *)
(* Model C06/InfoModel.v: Memory.refresh, the info-channel handlers, OWElement.update / new_data and
   _mem_update_done on top of [step true]; [irun true false false] = the code as it is (commit ae515bf / F02i in).
   For every history of refresh() calls (with or without failure callback, also while another one is in progress),
   arbitrary packets on the info channel (late, duplicated, forged), arbitrary events of the read / write layer and
   link drops: a refresh notification (done or failed) occurs only while a refresh() waits for one, and ends the
   waiting — no refresh is answered twice, none is answered that was not asked.  (Proved for every flag setting.) *)
Theorem C06_refresh_notified_at_most_once : forall evs,
  notif_ok false (snd (irun true false false (info_init, c_init) evs)) = true.
Proof. exact (refresh_notified_at_most_once true false false). Qed.
Print Assumptions C06_refresh_notified_at_most_once.

(* A link drop at any point of any history: the enumeration state is the initial one, no request record, lock free —
   the state differs from a fresh start only by the ghost request counter n ... *)
Theorem C06_disconnect_resets_session : forall evs,
  exists n, fst (irun true false false (info_init, c_init) (evs ++ [IEv EDisc])) = (info_init, mkC [] [] false n).
Proof. exact (disconnect_resets true false false). Qed.
Print Assumptions C06_disconnect_resets_session.

(* ... so nothing of the earlier session (pending reads, _ow_mems_left_to_update, callbacks, elements) influences
   what happens afterwards: it is what happens from the initial state. *)
Theorem C06_session_isolation : forall pre post,
  exists n, snd (irun true false false (info_init, c_init) (pre ++ IEv EDisc :: post)) =
            snd (irun true false false (info_init, c_init) (pre ++ [IEv EDisc]))
            ++ snd (irun true false false (info_init, mkC [] [] false n) post).
Proof. exact (session_isolation true false false). Qed.
Print Assumptions C06_session_isolation.

(* F02i's invariant: refresh() leaves no read record and no element behind, whatever the state. *)
Theorem C06_refresh_drops_every_read : forall sc fcb,
  c_reads (snd (fst (istep true false false sc (IRefresh fcb)))) = [] /\
  i_mems (fst (fst (istep true false false sc (IRefresh fcb)))) = [].
Proof. intros sc fcb. destruct (refresh_drops_every_read false false sc fcb) as (A & B & _). split; assumption. Qed.
Print Assumptions C06_refresh_drops_every_read.

(* Exact enumeration: a device with any number (<= 255) of memories of any type but 1-wire, any start state in which
   no 1-wire update of an interrupted enumeration is left over (i_left st = [], i.e. no refresh() was called while the
   1-wire memories of another one were being read; pending reads, old replies, a half-done enumeration are allowed):
   refresh() and the in-order delivery of the replies end with exactly one done, and the element list is the
   device's list (ids 0..n-1, types, sizes, addresses). *)
Theorem C06_enumeration_in_order : forall plan st c m dev lg n fcb s2 tr2,
  Forall wf_devmem dev -> (length dev <= 255)%nat ->
  i_left st = [] ->
  isys_run true false false plan (mkIS st c m dev lg n)
           (ISOp (IRefresh fcb) :: InfoEnum.deliver_from (length lg) (S (length dev))) = (s2, tr2) ->
  i_mems (is_st s2) = expected_mems dev /\
  i_cb (is_st s2) = false /\ i_fcb (is_st s2) = false /\ i_left (is_st s2) = [] /\
  (exists tr', tr2 = tr' ++ [IDone] /\ ~ In IDone tr' /\ ~ In IFailed tr').
Proof. exact enumeration_in_order. Qed.
Print Assumptions C06_enumeration_in_order.

(* The code before commit ae515bf, refuted on a device [type 0; 1-wire; deck memory]: a read registered after the
   disconnect clean-up blocks the next session's refresh (never answered); the code as it is completes. *)
Theorem C06_f02i_refuted_before_fix :
  count_done (snd (isys_run false false false zero_plan sys3 f02i_history)) = 1%nat /\
  i_cb (is_st (fst (isys_run false false false zero_plan sys3 f02i_history))) = true /\
  count_done (snd (isys_run true false false zero_plan sys3 f02i_history)) = 2%nat /\
  last (snd (isys_run true false false zero_plan sys3 f02i_history)) IRaise = IDone.
Proof. exact f02i_refuted_before_fix. Qed.
Print Assumptions C06_f02i_refuted_before_fix.

(* Observations OUTSIDE the property text (it speaks of read / write requests; the library calls refresh() once per
   connection).  A second refresh() while one is in progress: (1) during the 1-wire update it is never answered
   although every reply is delivered in order (no read record is left behind); (2) a late details reply of the
   interrupted enumeration ends it with a partial list. *)
Theorem C06_overlapping_refresh_observation_never_answered :
  count_done (snd (isys_run true false false zero_plan sys3 overlap_history_1)) = 0%nat /\
  i_cb (is_st (fst (isys_run true false false zero_plan sys3 overlap_history_1))) = true /\
  i_left (is_st (fst (isys_run true false false zero_plan sys3 overlap_history_1))) = [1] /\
  c_reads (is_cl (fst (isys_run true false false zero_plan sys3 overlap_history_1))) = [].
Proof. exact overlapping_refresh_observation_never_answered. Qed.
Print Assumptions C06_overlapping_refresh_observation_never_answered.

Theorem C06_overlapping_refresh_observation_partial_list :
  last (snd (isys_run true false false zero_plan sys3 overlap_history_2)) IRaise = IDone /\
  map m_id (i_mems (is_st (fst (isys_run true false false zero_plan sys3 overlap_history_2)))) = [0].
Proof. exact overlapping_refresh_observation_partial_list. Qed.
Print Assumptions C06_overlapping_refresh_observation_partial_list.

(* Observation, also outside the text: ONE refresh, the device refuses a 1-wire read.  The read itself is settled (its
   failure notification, no record left), but nobody ends the element's update: the refresh stays unanswered. *)
Definition C06_refresh_answered_full : Prop := refresh_answered_when_device_answers.
Theorem C06_refused_1wire_read_observation : ~ C06_refresh_answered_full.
Proof. exact refused_1wire_read_observation. Qed.
Print Assumptions C06_refused_1wire_read_observation.

(* ---------------------------------------------------------------- the element layer: completion bookkeeping *)
(* The memory element classes wrap Memory.read / write with one callback slot per kind of request (C06/Wrapper.v).
   The contract of that wrapper: in every history of requests and completed transfers, taken requests and callbacks
   alternate — exactly one callback per taken request, with the data of its transfer — ... *)
Theorem C06_wrapper_contract : forall data (evs : list (wev data)),
  exists p, bracket data None (snd (wrun data (fun _ => false) None evs)) = Some p.
Proof. exact wrapper_contract. Qed.
Print Assumptions C06_wrapper_contract.

(* ... and whatever the data a completion calls the callback and frees the slot: the next request is taken. *)
Theorem C06_wrapper_completion_whatever_the_data : forall data (t t' : Z) (d : data),
  wrun data (fun _ => false) (Some t) [WDone d; WReq t'] = (Some t', [WCall t d; WIssue t']).
Proof. exact wrapper_completion_whatever_the_data. Qed.
Print Assumptions C06_wrapper_completion_whatever_the_data.

(* A completion skipped on a data-dependent branch: the request is never answered, every later request is dropped. *)
Theorem C06_wrapper_skip_refuted : forall data (skip : data -> bool) (d0 : data) (later : list Z),
  skip d0 = true ->
  wrun data skip None (WReq 0 :: WDone d0 :: map WReq later) = (Some 0, WIssue 0 :: map WDropped later).
Proof. exact wrapper_skip_refuted. Qed.
Print Assumptions C06_wrapper_skip_refuted.

(* MemoryTester.new_data as repaired by fixes/F06j.patch (tied to the code on every run): for every start address and
   every data, the empty one too, a pending read is answered by exactly one callback, which sees the verdict on all the
   bytes, and the slot is free afterwards. *)
Theorem C06_tester_completion : forall start data valid,
  tester_new_data TFixed start data true valid = (false, valid && all_match start data, [valid && all_match start data]).
Proof. exact tester_fixed_contract. Qed.
Print Assumptions C06_tester_completion.

(* Before the repair (finding F06j): a zero-length read is never answered and the callback sees the verdict on the
   first byte only; with a `break` at the first mismatch a read whose first byte is wrong is never answered. *)
Theorem C06_tester_in_loop_refuted :
  tester_new_data TInLoop 7 [] true true = (true, true, []) /\
  tester_new_data TInLoop 7 [7; 8; 0] true true = (false, false, [true]).
Proof. exact tester_in_loop_refuted. Qed.
Print Assumptions C06_tester_in_loop_refuted.

Theorem C06_tester_break_refuted :
  tester_new_data TBreak 7 [0; 8; 9] true true = (true, false, []) /\
  tester_new_data TBreak 7 [7; 8; 0] true true = (false, false, [true]).
Proof. exact tester_break_refuted. Qed.
Print Assumptions C06_tester_break_refuted.

(* ---------------------------------------------------------------- re-entrant listeners *)
(* C06/Reentrant.v: from inside EVERY notification of the read / write layer (delivered by a reply, an error status
   or a link drop) the listener may issue a new read or write, as an arbitrary policy [pol n drop o] says (n-th
   notification delivered so far, drop = delivered by the link-drop handler, o the notification).  [rrun false false] =
   the code as it is: listeners are called after the write lock is released.  For every history and every policy: no
   nested call starts with the write lock held ([RNest true] never occurs), no call blocks ([OHang] never occurs), the
   lock is free at the end.  (Proved for both values of the flag fxl.) *)
Theorem C06_listeners_run_lock_free : forall pol evs,
  c_leaked (snd (fst (rrun false false pol (O, c_init) evs))) = false /\
  Forall calm (snd (rrun false false pol (O, c_init) evs)).
Proof. intros pol evs. apply listeners_run_lock_free. reflexivity. Qed.
Print Assumptions C06_listeners_run_lock_free.

(* With re-entrant listeners following any policy that makes no request on a dead link (no request from inside the
   notifications of a link drop: such a request, like one made a moment after the drop, is outside "every request" —
   nothing can answer it): after every history every request ever accepted is exactly one of pending / settled once. *)
Theorem C06_reentrant_exactly_one_notification : forall pol evs,
  no_request_on_dead_link pol ->
  Ledger (snd (fst (rrun false false pol (O, c_init) evs))) (strip (snd (rrun false false pol (O, c_init) evs))).
Proof. intros pol evs Q. apply (reentrant_exactly_one_notification false pol evs Q O c_init [] eq_refl ledger_init). Qed.
Print Assumptions C06_reentrant_exactly_one_notification.

(* Listeners called inside the locked region (the `with` block variant): a write retried from the write-failed
   notification of a link drop blocks for ever on the non-re-entrant lock; the lock stays held. *)
Theorem C06_listeners_inside_locked_region_refuted :
  let r := rrun false true retry_write (O, c_init) [EWrite 2 0 [1; 2; 3] false; EDisc] in
  In (RNest true) (snd r) /\ In (RO OHang) (snd r) /\ c_leaked (snd (fst r)) = true /\
  In (RNest true) (snd (rrun true true retry_write (O, c_init) [EWrite 2 0 [1; 2; 3] false; EDisc])).
Proof. exact listeners_inside_locked_region_refuted. Qed.
Print Assumptions C06_listeners_inside_locked_region_refuted.

(* Observation outside the property text: a read made from the read-failed notification of a link drop (a request on
   a link that is already gone) is accepted (uid 1), handed to the dead link and wiped by _clear_state: neither
   pending nor ever notified. *)
Theorem C06_request_on_dead_link_observation :
  let r := rrun false false retry_read (O, c_init) [ERead 1 0 5; EDisc] in
  c_next (snd (fst r)) = 2 /\ pending (snd (fst r)) = [] /\ cnt 1 (settled (strip (snd r))) = 0 /\
  c_next (snd (fst (rrun true false retry_read (O, c_init) [ERead 1 0 5; EDisc]))) = 1 /\
  In (RO (ORet false)) (snd (rrun true false retry_read (O, c_init) [ERead 1 0 5; EDisc])).
Proof. exact request_on_dead_link_observation. Qed.
Print Assumptions C06_request_on_dead_link_observation.

(* ---------------------------------------------------------------- Wave 13: the deck manager's callback records *)
(* DeckMemory.read / write take their failure callbacks as OPTIONAL arguments (ghost encoding: negative token = no
   failure callback).  Whatever the record holds, every completion or failure notification of the manager's memory
   clears it ... *)
Theorem C06_deck_record_cleared_by_every_notification : forall did d u a dat t asked b,
  a <> 0 ->
  (d_r d = Some (t, asked, b) ->
     d_r (fst (dnote true did d (OReadOk u did a dat))) = None /\
     d_r (fst (dnote true did d (OReadFail u did a dat))) = None) /\
  (d_w d = Some (t, asked, b) ->
     d_w (fst (dnote true did d (OWriteOk u did a))) = None /\
     d_w (fst (dnote true did d (OWriteFail u did a))) = None).
Proof. exact deck_record_cleared_by_every_notification. Qed.
Print Assumptions C06_deck_record_cleared_by_every_notification.

(* ... so after every history (deck reads / writes with and without failure callbacks, any packets, error statuses at any
   chunk, link drops): whenever the read / write layer holds no read (no queued write) of the manager's memory, the
   manager's record is clear and the next DeckMemory.read (write) is taken. *)
Theorem C06_deck_no_record_left_behind : forall did evs,
  Forall (wf_devent did) evs ->
  let dc := fst (drun true did (dm_init, c_init) evs) in
  (rd_get did (c_reads (snd dc)) = None ->
     d_r (fst dc) = None /\ forall base addr len tok, dev_event did (fst dc) (DRead base addr len tok) <> None) /\
  (match wq_get did (c_writes (snd dc)) with Some q => q | None => [] end = [] ->
     d_w (fst dc) = None /\ forall base addr data tok, dev_event did (fst dc) (DWrite base addr data tok) <> None).
Proof. exact deck_no_record_left_behind. Qed.
Print Assumptions C06_deck_no_record_left_behind.

(* The variant that returns early from _new_data_failed when there is no read_failed_cb: after a refused read the read
   layer holds nothing but the record is still set, and the next read is refused ('Read operation ongoing'). *)
Theorem C06_deck_early_return_refuted :
  Forall (wf_devent 6) early_history /\
  rd_get 6 (c_reads (snd (fst (drun_early 6 (dm_init, c_init) early_history)))) = None /\
  d_r (fst (fst (drun_early 6 (dm_init, c_init) (firstn 2 early_history)))) <> None /\
  last (snd (drun_early 6 (dm_init, c_init) early_history)) (inr DRaise) = inr DRaise /\
  d_r (fst (fst (drun true 6 (dm_init, c_init) (firstn 2 early_history)))) = None /\
  ~ In (inr DRaise) (snd (drun true 6 (dm_init, c_init) early_history)).
Proof. exact deck_early_return_refuted. Qed.
Print Assumptions C06_deck_early_return_refuted.

(* ---------------------------------------------------------------- Wave 14: early replies *)
(* Memory.read() is two steps: registration of the request, then sending of its first packet; the incoming-packet thread
   may handle packets (the reply to that very packet included) between the send and the next statement of the caller
   (C06/Early.v, [read_two_step true] = the code).  Whatever it handles there, the result is the one of the atomic read()
   followed by the same packets — so every theorem about [run] holds for early replies as well. *)
Theorem C06_early_read_is_read_then_packets : forall c i a n early,
  wf_event (ERead i a n) -> rd_get i (c_reads c) = None ->
  let r := new_rreq c i a n in
  fst (read_two_step true c i a n early) = fst (run true c (ERead i a n :: early)) /\
  snd (read_two_step true c i a n early) = read_pkt r :: snd (run true (register c r) early) ++ [ORet true] /\
  snd (run true c (ERead i a n :: early)) = [read_pkt r; ORet true] ++ snd (run true (register c r) early).
Proof. exact early_read_is_read_then_packets. Qed.
Print Assumptions C06_early_read_is_read_then_packets.

(* A reply exists only after the send, hence after the registration: it finds its record; the honest reply to the first
   packet is taken (next chunk requested or the read notified), for any data. *)
Theorem C06_early_reply_finds_its_record : forall c i a n dat,
  wf_event (ERead i a n) -> rd_get i (c_reads c) = None -> bytes dat ->
  let r := new_rreq c i a n in
  rd_get i (c_reads (register c r)) = Some r /\
  exists c' o, step true (register c r) (EPkt ChRead (i :: le_bytes 4 a ++ [0] ++ dat)) = (c', [o]) /\
               (o = OReadOk (c_next c) i a dat \/ exists r', o = read_pkt r' /\ r_uid r' = c_next c /\ r_data r' = dat).
Proof. exact early_reply_finds_its_record. Qed.
Print Assumptions C06_early_reply_finds_its_record.

(* Send before register: the early reply of the first packet (any payload p) is dropped; the request is registered
   afterwards with nothing on its way: no notification, and every later read of that memory is refused. *)
Theorem C06_send_before_register_refuted : forall c i a n p,
  wf_event (ERead i a n) -> rd_get i (c_reads c) = None ->
  let r := new_rreq c i a n in
  let res := read_two_step false c i a n [EPkt ChRead (i :: p)] in
  fst res = register c r /\
  (forall o, In o (snd res) -> o = read_pkt r \/ o = ORet true \/ o = ORaise \/ o = OOutOfDomain) /\
  rd_get i (c_reads (fst res)) = Some r /\
  forall a' n', wf_event (ERead i a' n') -> snd (step true (fst res) (ERead i a' n')) = [ORet false].
Proof. exact send_before_register_refuted. Qed.
Print Assumptions C06_send_before_register_refuted.

(* ---------------------------------------------------------------- Wave 16: requests made from inside deck callbacks *)
(* The manager clears its record before it calls the caller's callback, so the callback runs in [fst (dnote ...)]:
   inside any deck callback (completion or failure, read or write) the corresponding record is clear and a nested
   request of the same kind — the next block, a retry — is taken. *)
Theorem C06_deck_nested_request_taken : forall did d u a dat t asked b base addr len data tok,
  a <> 0 ->
  (d_r d = Some (t, asked, b) ->
     dev_event did (fst (dnote true did d (OReadOk u did a dat))) (DRead base addr len tok) <> None /\
     dev_event did (fst (dnote true did d (OReadFail u did a dat))) (DRead base addr len tok) <> None) /\
  (d_w d = Some (t, asked, b) ->
     dev_event did (fst (dnote true did d (OWriteOk u did a))) (DWrite base addr data tok) <> None /\
     dev_event did (fst (dnote true did d (OWriteFail u did a))) (DWrite base addr data tok) <> None).
Proof. exact deck_nested_request_taken. Qed.
Print Assumptions C06_deck_nested_request_taken.

(* Calling the callback first and clearing afterwards: the callback runs with the record still set, the nested write is
   refused. *)
Theorem C06_deck_clear_after_callback_refuted : forall did d t asked b base addr data tok,
  d_w d = Some (t, asked, b) -> dev_event did d (DWrite base addr data tok) = None.
Proof. exact deck_clear_after_callback_refuted. Qed.
Print Assumptions C06_deck_clear_after_callback_refuted.
