(* C13/QuatModel.v — executable integer model of cflib/utils/encoding.py
   compress_quaternion / decompress_quaternion (quaternion clause of C13).  Definitions only.

   Input of compress: a Python quaternion [x, y, z, w] of finite doubles.  Four doubles scaled by a common
   power of two are four integers m = [m0; m1; m2; m3]  (q_i = m_i * 2^k); normalisation makes the
   result independent of the positive scale.  The model is EXACT real arithmetic on that input (the
   float64 rounding of numpy is not modelled; it is validated numerically by the tie):

     quat_n[i]  = m_i / sqrt B                          B = sum m_j^2
     i_largest  = first index with maximal |m_i|        (loop "for i in 1..3: if abs(q[i]) > abs(q[il])")
     negate     = m_il < 0
     negbit_i   = (m_i < 0) xor negate
     mag_i      = int (511 * (|quat_n[i]| / (1/sqrt 2)) + 0.5)
                = floor (sqrt (A_i / B) + 1/2)           A_i = 2 * 511^2 * m_i^2
                = (Z.sqrt (4 * A_i * B) + B) / (2 * B)
     comp       = fold over i = 0..3, i <> il, of  (comp << 10) | (negbit << 9) | mag,  starting at il.

   B = 0 (the zero quaternion): numpy yields nan and int(nan) raises ValueError -> None. *)
From CF Require Export Common.Bytes.
Open Scope Z_scope.

Definition qnth (m : list Z) (i : Z) : Z := nth (Z.to_nat i) m 0.

Definition sumsq (m : list Z) : Z := fold_left (fun s x => s + x * x) m 0.

(* one step of the arg-max loop *)
Definition amax_step (m : list Z) (il i : Z) : Z :=
  if Z.abs (qnth m i) >? Z.abs (qnth m il) then i else il.

Definition i_largest (m : list Z) : Z := fold_left (amax_step m) [1; 2; 3] 0.

(* the indices that are packed, in packing order *)
Definition kept (il : Z) : list Z := filter (fun i => negb (i =? il)) [0; 1; 2; 3].

Definition qmag (B mi : Z) : Z :=
  let A := 2 * 511 * 511 * (mi * mi) in (Z.sqrt (4 * A * B) + B) / (2 * B).

Definition qnegbit (negate : bool) (mi : Z) : Z := if xorb (mi <? 0) negate then 1 else 0.

(* (negbit, mag) of component i *)
Definition qfield (m : list Z) (i : Z) : Z * Z :=
  let il := i_largest m in
  (qnegbit (qnth m il <? 0) (qnth m i), qmag (sumsq m) (qnth m i)).

Definition qfields (m : list Z) : list (Z * Z) := map (qfield m) (kept (i_largest m)).

Definition pack_step (comp : Z) (f : Z * Z) : Z :=
  Z.lor (Z.lor (Z.shiftl comp 10) (Z.shiftl (fst f) 9)) (snd f).

Definition pack (il : Z) (fs : list (Z * Z)) : Z := fold_left pack_step fs il.

Definition compress_quaternion (m : list Z) : option Z :=
  if sumsq m =? 0 then None else Some (pack (i_largest m) (qfields m)).

(* ---- decompress_quaternion: the bit unpacking.  The loop runs i = 3,2,1,0 skipping i_largest and
   consumes the low 10 bits each time; the result lists the (negbit, mag) pairs in INCREASING index
   order, aligned with [kept il]. *)
Definition unpack_step (st : Z * list (Z * Z)) (_ : Z) : Z * list (Z * Z) :=
  (Z.shiftr (fst st) 10, (Z.land (Z.shiftr (fst st) 9) 1, Z.land (fst st) 511) :: snd st).

Definition unpack (comp : Z) : Z * list (Z * Z) :=
  let il := Z.shiftr comp 30 in
  (il, snd (fold_left unpack_step (rev (kept il)) (comp, []))).

(* numerator of the reconstructed largest component squared:
     1 - sum (mag / 511 / sqrt 2)^2  =  dnum / (2 * 511^2);  negative => numpy sqrt gives nan *)
Definition dnum (comp : Z) : Z :=
  2 * 511 * 511 - fold_left (fun s f => s + snd f * snd f) (snd (unpack comp)) 0.

(* flat integer view used by the correspondence step: [il; nb; mag; nb; mag; nb; mag; dnum] *)
Definition unpack_flat (comp : Z) : list Z :=
  fst (unpack comp) :: concat (map (fun f => [fst f; snd f]) (snd (unpack comp))) ++ [dnum comp].

Definition compress_enc (m : list Z) : Z :=
  match compress_quaternion m with Some c => c | None => -1 end.
