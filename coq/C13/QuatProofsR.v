(* C13/QuatProofsR.v — real-number layer for the quaternion clause of C13 (Coq.Reals).
   Definitions of the real-valued meaning of decompress_quaternion and of normalisation, the link
   lemma between the integer magnitude and the real rounding, and the error analysis. *)
From Coq Require Import Reals Lra Psatz.
From CF Require Import Common.Bytes C13.QuatModel C13.QuatProofs.
From Coq Require Import ZifyBool.
Ltac Zify.zify_post_hook ::= Z.to_euclidean_division_equations.
Open Scope R_scope.

(* ------------------------------------------------------------------ definitions *)

(* 511 * sqrt 2 : the scale of the 9-bit magnitude;  one quantisation step = (1/511) * (1/sqrt 2) *)
Definition Kq : R := 511 * sqrt 2.
Definition qstep : R := 1 / 511 * (1 / sqrt 2).

(* decompress_quaternion, real-valued:  q[i] = mag / 511 / sqrt 2, negated when negbit = 1;
   q[i_largest] = sqrt (1 - sum of the squares) *)
Definition fval (f : Z * Z) : R := (if (fst f =? 1)%Z then -1 else 1) * (IZR (snd f) / 511 / sqrt 2).
Definition kpos (il i : Z) : nat := Z.to_nat (if (i <? il)%Z then i else (i - 1)%Z).
Definition sumsqR (l : list R) : R := fold_right (fun v s => v * v + s) 0 l.
Definition dq (comp : Z) (i : Z) : R :=
  let il := fst (unpack comp) in let fs := snd (unpack comp) in
  if (i =? il)%Z then sqrt (1 - sumsqR (map fval fs)) else fval (nth (kpos il i) fs (0, 0)%Z).

(* the normalised input:  n_i = q_i / |q|  for q_i = scale * m_i *)
Definition qnorm (m : list Z) : R := sqrt (IZR (sumsq m)).
Definition nrm (m : list Z) (i : Z) : R := IZR (qnth m i) / qnorm m.
(* sign convention of compress: the largest component is made non-negative *)
Definition qsign (m : list Z) : R := if (qnth m (i_largest m) <? 0)%Z then -1 else 1.

(* ------------------------------------------------------------------ basic facts *)

Lemma sqrt2_sq : sqrt 2 * sqrt 2 = 2. Proof. apply sqrt_sqrt. lra. Qed.
Lemma sqrt2_ge1 : 1 <= sqrt 2.
Proof. rewrite <- sqrt_1 at 1. apply sqrt_le_1; lra. Qed.
Lemma Kq_ge : 511 <= Kq. Proof. unfold Kq. pose proof sqrt2_ge1. lra. Qed.
Lemma Kq_sq : Kq * Kq = 2 * 511 * 511.
Proof. unfold Kq. pose proof sqrt2_sq. nra. Qed.
Lemma qstep_Kq : qstep = / Kq.
Proof. unfold qstep, Kq. pose proof sqrt2_ge1. field. lra. Qed.

Lemma Rabs_le_both a b : Rabs a <= b -> - b <= a <= b.
Proof. intros H. unfold Rabs in H. destruct (Rcase_abs a); lra. Qed.

Lemma Rabs_sq x : Rabs x * Rabs x = x * x.
Proof. unfold Rabs. destruct (Rcase_abs x); ring. Qed.

(* core inequality for the reconstructed largest component (DESIGN Appendix A.2) *)
Lemma largest_bound nL dL S S' d :
  1/2 <= nL <= 1 -> nL*nL = 1 - S -> 0 <= dL -> dL*dL = 1 - S' ->
  0 < d <= 1/1000 -> Rabs (S' - S) <= 6*d*nL + 3*d*d ->
  Rabs (dL - nL) <= 4*d.
Proof.
  intros HnL En HdL Ed Hd HS.
  apply Rabs_le. apply Rabs_le_both in HS. destruct HS as [HS1 HS2].
  assert (E : (dL - nL) * (dL + nL) = S - S') by nra.
  split.
  - destruct (Rle_dec (-(4*d)) (dL - nL)) as [H|H]; [lra|exfalso].
    apply Rnot_le_lt in H.
    set (f := nL - dL) in *.
    assert (Hf : 4*d < f <= nL) by (unfold f; lra).
    assert (Hg : f * (2*nL - f) = S' - S) by (unfold f; nra).
    assert (Hm : 4*d*(2*nL - 4*d) <= f*(2*nL - f)) by nra.
    nra.
  - destruct (Rle_dec (dL - nL) (4*d)) as [H|H]; [lra|exfalso].
    apply Rnot_le_lt in H. nra.
Qed.

(* ------------------------------------------------------------------ link: integer magnitude = real rounding *)

Definition rounds (mag : Z) (y : R) : Prop := IZR mag <= y + /2 < IZR mag + 1.

Lemma sq_le_le r t : 0 <= r -> 0 <= t -> r * r <= t * t -> r <= t.
Proof. intros. nra. Qed.
Lemma sq_lt_lt r t : 0 <= r -> 0 <= t -> r * r < t * t -> r < t.
Proof. intros. nra. Qed.

Lemma qmag_rounds B mi y : (0 < B)%Z -> 0 <= y ->
  y * y * IZR B = IZR (2 * 511 * 511 * (mi * mi)) -> rounds (qmag B mi) y.
Proof.
  intros HB Hy E. unfold rounds, qmag. cbv zeta.
  set (A := (2 * 511 * 511 * (mi * mi))%Z) in *.
  assert (HA : (0 <= A)%Z) by (unfold A; nia).
  assert (HAB : (0 <= 4 * A * B)%Z) by nia.
  pose proof (Z.sqrt_spec (4 * A * B) HAB) as R12. cbv zeta in R12.
  pose proof (Z.sqrt_nonneg (4 * A * B)) as Rn.
  set (r := Z.sqrt (4 * A * B)) in *. destruct R12 as [R1 R2].
  set (g := ((r + B) / (2 * B))%Z).
  assert (G : (2 * B * g <= r + B)%Z /\ (r + B + 1 <= 2 * B * g + 2 * B)%Z).
  { unfold g. pose proof (Z.div_mod (r + B) (2 * B)). pose proof (Z.mod_pos_bound (r + B) (2 * B)). lia. }
  destruct G as [G1 G2].
  assert (Hr : 0 <= IZR r) by (apply IZR_le; exact Rn).
  assert (B0 : 0 < IZR B) by (apply IZR_lt; lia).
  assert (T : (2 * IZR B * y) * (2 * IZR B * y) = IZR (4 * A * B)).
  { rewrite !mult_IZR. rewrite <- E. ring. }
  assert (Q1 : IZR r <= 2 * IZR B * y).
  { apply sq_le_le; [lra | nra |]. rewrite T, <- mult_IZR. apply IZR_le. exact R1. }
  assert (Q2 : 2 * IZR B * y < IZR r + 1).
  { apply sq_lt_lt; [nra | lra |]. rewrite T. replace (IZR r + 1) with (IZR (Z.succ r)).
    - rewrite <- mult_IZR. apply IZR_lt. exact R2.
    - rewrite succ_IZR. reflexivity. }
  apply IZR_le in G1. apply IZR_le in G2.
  repeat rewrite ?plus_IZR, ?mult_IZR in G1. repeat rewrite ?plus_IZR, ?mult_IZR in G2.
  split.
  - apply Rmult_le_reg_l with (2 * IZR B); [lra|]. nra.
  - apply Rmult_lt_reg_l with (2 * IZR B); [lra|]. nra.
Qed.

(* ------------------------------------------------------------------ a packed component is within half a step *)

Lemma kept_close x mag : rounds mag (Kq * Rabs x) -> Rabs (IZR mag / Kq - Rabs x) <= qstep / 2.
Proof.
  intros [H1 H2]. pose proof Kq_ge as HK. rewrite qstep_Kq.
  set (u := IZR mag / Kq). assert (Eu : Kq * u = IZR mag) by (unfold u; field; lra).
  set (dd := / Kq / 2). assert (Ed : 2 * Kq * dd = 1) by (unfold dd; field; lra).
  rewrite <- Eu in H1, H2. apply Rabs_le. split.
  - apply Rmult_le_reg_l with Kq; [lra|]. nra.
  - apply Rmult_le_reg_l with Kq; [lra|]. nra.
Qed.

Lemma fval_eq nb mag : fval (nb, mag) = (if (nb =? 1)%Z then -1 else 1) * (IZR mag / Kq).
Proof. unfold fval, Kq. cbn [fst snd]. pose proof sqrt2_ge1. field. lra. Qed.

(* x = mi / N, largest = ml / N: the decoded value is within half a step of s * x, s the sign convention *)
Lemma kept_signed N mi ml x mag : 0 < N -> x = IZR mi / N -> rounds mag (Kq * Rabs x) ->
  Rabs (fval (qnegbit (ml <? 0)%Z mi, mag) - (if (ml <? 0)%Z then -1 else 1) * x) <= qstep / 2.
Proof.
  intros HN Hx Hr. pose proof (kept_close x mag Hr) as C. rewrite fval_eq.
  assert (Sx : (mi < 0)%Z -> x < 0).
  { intros L. apply IZR_lt in L. rewrite Hx. unfold Rdiv.
    assert (0 < / N) by (apply Rinv_0_lt_compat; lra). nra. }
  assert (Sx' : (0 <= mi)%Z -> 0 <= x).
  { intros L. apply IZR_le in L. rewrite Hx. unfold Rdiv.
    assert (0 < / N) by (apply Rinv_0_lt_compat; lra). nra. }
  unfold qnegbit. destruct (mi <? 0)%Z eqn:E1; destruct (ml <? 0)%Z eqn:E2; cbn [xorb Z.eqb Pos.eqb].
  - assert (x < 0) by (apply Sx; lia). rewrite (Rabs_left x) in C by lra.
    replace (1 * (IZR mag / Kq) - -1 * x) with (IZR mag / Kq - - x) by ring. exact C.
  - assert (x < 0) by (apply Sx; lia). rewrite (Rabs_left x) in C by lra.
    replace (-1 * (IZR mag / Kq) - 1 * x) with (- (IZR mag / Kq - - x)) by ring.
    rewrite Rabs_Ropp. exact C.
  - assert (0 <= x) by (apply Sx'; lia). rewrite (Rabs_right x) in C by lra.
    replace (-1 * (IZR mag / Kq) - -1 * x) with (- (IZR mag / Kq - x)) by ring.
    rewrite Rabs_Ropp. exact C.
  - assert (0 <= x) by (apply Sx'; lia). rewrite (Rabs_right x) in C by lra.
    replace (1 * (IZR mag / Kq) - 1 * x) with (IZR mag / Kq - x) by ring. exact C.
Qed.

(* ------------------------------------------------------------------ the error analysis, abstractly *)

Lemma sq_close dd nL y e : 0 <= dd -> Rabs y <= nL -> Rabs e <= dd ->
  Rabs ((y + e) * (y + e) - y * y) <= 2 * nL * dd + dd * dd.
Proof.
  intros Hd Hy He.
  replace ((y + e) * (y + e) - y * y) with (e * (2 * y + e)) by ring.
  rewrite Rabs_mult.
  assert (Rabs (2 * y + e) <= 2 * nL + dd).
  { eapply Rle_trans; [apply Rabs_triang|]. rewrite Rabs_mult, (Rabs_right 2) by lra. lra. }
  pose proof (Rabs_pos e). pose proof (Rabs_pos (2 * y + e)). nra.
Qed.

(* l = the dropped (largest) normalised component, x1..x3 the others, d1..d3 their decoded values,
   s = +-1 with s*l = |l| *)
Lemma core l x1 x2 x3 d1 d2 d3 s dd :
  l * l + x1 * x1 + x2 * x2 + x3 * x3 = 1 ->
  Rabs x1 <= Rabs l -> Rabs x2 <= Rabs l -> Rabs x3 <= Rabs l ->
  s * s = 1 -> s * l = Rabs l -> 0 < dd <= 1 / 1000 ->
  Rabs (d1 - s * x1) <= dd -> Rabs (d2 - s * x2) <= dd -> Rabs (d3 - s * x3) <= dd ->
  0 < 1 - (d1 * d1 + d2 * d2 + d3 * d3) /\
  Rabs (sqrt (1 - (d1 * d1 + d2 * d2 + d3 * d3)) - s * l) <= 4 * dd.
Proof.
  intros Hn H1 H2 H3 Hs Hl Hd E1 E2 E3.
  set (nL := Rabs l) in *.
  assert (HnL0 : 0 <= nL) by apply Rabs_pos.
  assert (HnLsq : nL * nL = l * l) by apply Rabs_sq.
  assert (Hx : forall x, Rabs x <= nL -> x * x <= nL * nL).
  { intros x Hx. rewrite <- (Rabs_sq x). pose proof (Rabs_pos x). nra. }
  pose proof (Hx _ H1). pose proof (Hx _ H2). pose proof (Hx _ H3).
  assert (HnL : 1 / 2 <= nL <= 1) by (split; nra).
  assert (Sy : forall x, Rabs (s * x) = Rabs x).
  { intros x. rewrite Rabs_mult. assert (Rabs s = 1).
    { rewrite <- (Rabs_sq s) in Hs. pose proof (Rabs_pos s). nra. }
    nra. }
  assert (C : forall x d, Rabs x <= nL -> Rabs (d - s * x) <= dd ->
              Rabs (d * d - x * x) <= 2 * nL * dd + dd * dd).
  { intros x d Hxx Hdd. replace (x * x) with ((s * x) * (s * x)) by (ring_simplify; nra).
    replace d with (s * x + (d - s * x)) at 1 2 by ring.
    apply sq_close; [lra | rewrite Sy; exact Hxx | exact Hdd]. }
  pose proof (C _ _ H1 E1) as C1. pose proof (C _ _ H2 E2) as C2. pose proof (C _ _ H3 E3) as C3.
  apply Rabs_le_both in C1. apply Rabs_le_both in C2. apply Rabs_le_both in C3.
  set (S := x1 * x1 + x2 * x2 + x3 * x3) in *.
  set (S' := d1 * d1 + d2 * d2 + d3 * d3) in *.
  assert (HS : Rabs (S' - S) <= 6 * dd * nL + 3 * dd * dd).
  { apply Rabs_le. unfold S, S'. split; lra. }
  assert (HS1 : nL * nL = 1 - S) by (unfold S; lra).
  assert (Pos : 0 < 1 - S').
  { apply Rabs_le_both in HS.
    assert (dd * nL <= nL / 1000) by nra.
    assert (dd * dd <= 1 / 1000 * dd) by nra.
    assert (nL / 2 <= nL * nL) by nra. lra. }
  split; [exact Pos|]. rewrite Hl.
  apply largest_bound with (S := S) (S' := S').
  - exact HnL.
  - exact HS1.
  - apply sqrt_pos.
  - apply sqrt_sqrt. lra.
  - lra.
  - exact HS.
Qed.

(* ------------------------------------------------------------------ normalisation facts *)

Section Norm.
  Variables a b c d : Z.
  Let m := [a; b; c; d].
  Hypothesis HB : sumsq m <> 0%Z.

  Lemma sumsq_pos : (0 < sumsq m)%Z.
  Proof. unfold m in *. rewrite sumsq4 in *. nia. Qed.

  Lemma qnorm_pos : 0 < qnorm m.
  Proof. unfold qnorm. apply sqrt_lt_R0. apply IZR_lt. exact sumsq_pos. Qed.

  Lemma qnorm_sq : qnorm m * qnorm m = IZR (sumsq m).
  Proof. unfold qnorm. apply sqrt_sqrt. apply IZR_le. pose proof sumsq_pos. lia. Qed.

  Lemma nrm_sq i : nrm m i * nrm m i = IZR (qnth m i * qnth m i) / IZR (sumsq m).
  Proof.
    unfold nrm. rewrite <- qnorm_sq, mult_IZR. pose proof qnorm_pos. field. lra.
  Qed.

  Lemma nrm_unit : nrm m 0 * nrm m 0 + nrm m 1 * nrm m 1 + nrm m 2 * nrm m 2 + nrm m 3 * nrm m 3 = 1.
  Proof.
    rewrite !nrm_sq. change (qnth m 0) with a. change (qnth m 1) with b.
    change (qnth m 2) with c. change (qnth m 3) with d.
    assert (E : IZR (sumsq m) = IZR (a * a) + IZR (b * b) + IZR (c * c) + IZR (d * d)).
    { unfold m. rewrite sumsq4, !plus_IZR. reflexivity. }
    assert (0 < IZR (sumsq m)) by (apply IZR_lt; exact sumsq_pos).
    unfold Rdiv. rewrite <- !Rmult_plus_distr_r, <- E. field. lra.
  Qed.

  Lemma nrm_abs i : Rabs (nrm m i) = IZR (Z.abs (qnth m i)) / qnorm m.
  Proof.
    unfold nrm, Rdiv. rewrite Rabs_mult, abs_IZR. f_equal.
    apply Rabs_right. left. apply Rinv_0_lt_compat. exact qnorm_pos.
  Qed.

  Lemma nrm_largest i : (0 <= i <= 3)%Z -> Rabs (nrm m i) <= Rabs (nrm m (i_largest m)).
  Proof.
    intros Hi. rewrite !nrm_abs. destruct (i_largest_spec a b c d) as [_ S]. fold m in S.
    destruct (S i Hi) as [S1 _]. apply IZR_le in S1.
    unfold Rdiv. apply Rmult_le_compat_r; [|exact S1].
    left. apply Rinv_0_lt_compat. exact qnorm_pos.
  Qed.

  Lemma qsign_sq : qsign m * qsign m = 1.
  Proof. unfold qsign. destruct (_ <? _)%Z; ring. Qed.

  Lemma qsign_largest : qsign m * nrm m (i_largest m) = Rabs (nrm m (i_largest m)).
  Proof.
    rewrite nrm_abs. unfold qsign, nrm. destruct (qnth m (i_largest m) <? 0)%Z eqn:E.
    - rewrite Z.abs_neq by lia. rewrite opp_IZR. field. pose proof qnorm_pos. lra.
    - rewrite Z.abs_eq by lia. field. pose proof qnorm_pos. lra.
  Qed.

  Lemma nrm_rounds i : rounds (qmag (sumsq m) (qnth m i)) (Kq * Rabs (nrm m i)).
  Proof.
    apply qmag_rounds.
    - exact sumsq_pos.
    - pose proof Kq_ge. pose proof (Rabs_pos (nrm m i)). nra.
    - replace (Kq * Rabs (nrm m i) * (Kq * Rabs (nrm m i)) * IZR (sumsq m))
        with ((Kq * Kq) * (Rabs (nrm m i) * Rabs (nrm m i)) * IZR (sumsq m)) by ring.
      rewrite Kq_sq, Rabs_sq, nrm_sq. rewrite !mult_IZR.
      assert (0 < IZR (sumsq m)) by (apply IZR_lt; exact sumsq_pos). field. lra.
  Qed.

  (* the decoded value of a kept component *)
  Lemma kept_component i :
    Rabs (fval (qfield m i) - qsign m * nrm m i) <= qstep / 2.
  Proof.
    unfold qfield, qsign. cbv zeta.
    apply kept_signed with (N := qnorm m); [exact qnorm_pos | reflexivity | apply nrm_rounds].
  Qed.
End Norm.

(* ------------------------------------------------------------------ putting it together *)

Lemma kept_perm il : (0 <= il <= 3)%Z -> exists k1 k2 k3,
  kept il = [k1; k2; k3] /\
  (forall f : Z -> R, f 0%Z + f 1%Z + f 2%Z + f 3%Z = f il + f k1 + f k2 + f k3) /\
  (forall i, (0 <= i <= 3)%Z -> i <> il ->
     (i = k1 /\ kpos il i = 0%nat) \/ (i = k2 /\ kpos il i = 1%nat) \/ (i = k3 /\ kpos il i = 2%nat)) /\
  (0 <= k1 <= 3)%Z /\ (0 <= k2 <= 3)%Z /\ (0 <= k3 <= 3)%Z.
Proof.
  intros H. four il.
  - exists 1%Z, 2%Z, 3%Z. split; [reflexivity|]. split; [intros; ring|].
    split; [|lia]. intros i Hi Hne. four i; try lia; cbn; tauto.
  - exists 0%Z, 2%Z, 3%Z. split; [reflexivity|]. split; [intros; ring|].
    split; [|lia]. intros i Hi Hne. four i; try lia; cbn; tauto.
  - exists 0%Z, 1%Z, 3%Z. split; [reflexivity|]. split; [intros; ring|].
    split; [|lia]. intros i Hi Hne. four i; try lia; cbn; tauto.
  - exists 0%Z, 1%Z, 2%Z. split; [reflexivity|]. split; [intros; ring|].
    split; [|lia]. intros i Hi Hne. four i; try lia; cbn; tauto.
Qed.

Lemma quat_main a b c d comp : let m := [a; b; c; d] in
  compress_quaternion m = Some comp ->
  (forall i, (0 <= i <= 3)%Z -> i <> i_largest m ->
     dq comp i = fval (qfield m i) /\ Rabs (dq comp i - qsign m * nrm m i) <= qstep / 2) /\
  0 < 1 - sumsqR (map fval (snd (unpack comp))) /\
  dq comp (i_largest m) = sqrt (1 - sumsqR (map fval (snd (unpack comp)))) /\
  Rabs (dq comp (i_largest m) - qsign m * nrm m (i_largest m)) <= 2 * qstep /\
  dq comp 0 * dq comp 0 + dq comp 1 * dq comp 1 + dq comp 2 * dq comp 2 + dq comp 3 * dq comp 3 = 1.
Proof.
  intros m Hc.
  assert (HB : sumsq m <> 0%Z).
  { unfold compress_quaternion in Hc. destruct (sumsq m =? 0)%Z eqn:E; [discriminate | lia]. }
  destruct (compress_fields a b c d comp Hc) as (_ & HU & _). fold m in HU.
  destruct (i_largest_spec a b c d) as [Hil _]. fold m in Hil.
  destruct (kept_perm _ Hil) as (k1 & k2 & k3 & EK & PERM & POS & R1 & R2 & R3).
  set (il := i_largest m) in *.
  assert (DK : forall i, (0 <= i <= 3)%Z -> i <> il -> dq comp i = fval (qfield m i)).
  { intros i Hi Hne. unfold dq. rewrite HU. cbn [fst snd].
    destruct (i =? il)%Z eqn:E; [lia|]. unfold qfields. fold il. rewrite EK. cbn [map].
    destruct (POS i Hi Hne) as [[-> ->] | [[-> ->] | [-> ->]]]; reflexivity. }
  assert (DL : dq comp il = sqrt (1 - sumsqR (map fval (snd (unpack comp))))).
  { unfold dq. rewrite HU. cbn [fst snd]. rewrite Z.eqb_refl. reflexivity. }
  assert (KC : forall i, Rabs (fval (qfield m i) - qsign m * nrm m i) <= qstep / 2).
  { intros i. apply kept_component. exact HB. }
  assert (SS : sumsqR (map fval (snd (unpack comp))) =
               fval (qfield m k1) * fval (qfield m k1) + fval (qfield m k2) * fval (qfield m k2)
               + fval (qfield m k3) * fval (qfield m k3)).
  { rewrite HU. cbn [snd]. unfold qfields. fold il. rewrite EK. cbn [map sumsqR fold_right]. ring. }
  assert (NE : forall k, In k (kept il) -> k <> il).
  { intros k Hin. apply kept_spec in Hin; [tauto | exact Hil]. }
  rewrite EK in NE.
  pose proof (PERM (fun j => nrm m j * nrm m j)) as PN. cbv beta in PN.
  pose proof (nrm_unit a b c d HB) as NU. change [a; b; c; d] with m in NU. rewrite NU in PN.
  pose proof Kq_ge as HK.
  assert (Hdd : 0 < qstep / 2 <= 1 / 1000).
  { rewrite qstep_Kq. split.
    - apply Rdiv_lt_0_compat; [apply Rinv_0_lt_compat|]; lra.
    - assert (/ Kq <= / 511) by (apply Rinv_le_contravar; lra). lra. }
  destruct (core (nrm m il) (nrm m k1) (nrm m k2) (nrm m k3)
              (fval (qfield m k1)) (fval (qfield m k2)) (fval (qfield m k3)) (qsign m) (qstep / 2))
    as [C1 C2]; try (apply (nrm_largest a b c d HB); assumption); try apply KC; try exact Hdd.
  - symmetry. lra.
  - apply qsign_sq.
  - apply (qsign_largest a b c d HB).
  - rewrite <- SS in C1, C2.
    split; [|split; [exact C1 | split; [exact DL | split]]].
    + intros i Hi Hne. split; [apply DK; assumption|]. rewrite DK by assumption. apply KC.
    + rewrite DL. lra.
    + pose proof (PERM (fun j => dq comp j * dq comp j)) as PD. cbv beta in PD. rewrite PD.
      rewrite (DK k1), (DK k2), (DK k3) by (try assumption; apply NE; cbn; auto).
      rewrite DL, sqrt_sqrt by lra. rewrite SS. ring.
Qed.

(* ------------------------------------------------------------------ statements exported to QuatProperty.v *)

(* a real quaternion given as a function of the index, normalised *)
Definition nrmR (q : Z -> R) (i : Z) : R :=
  q i / sqrt (q 0%Z * q 0%Z + q 1%Z * q 1%Z + q 2%Z * q 2%Z + q 3%Z * q 3%Z).

(* q_i = scale * m_i with scale > 0 (a double is an integer times a power of two): same n_i *)
Lemma nrm_scale a b c d scale i : let m := [a; b; c; d] in
  sumsq m <> 0%Z -> 0 < scale -> nrmR (fun j => scale * IZR (qnth m j)) i = nrm m i.
Proof.
  intros m HB Hs. unfold nrmR, nrm.
  change (qnth m 0) with a. change (qnth m 1) with b. change (qnth m 2) with c. change (qnth m 3) with d.
  replace (scale * IZR a * (scale * IZR a) + scale * IZR b * (scale * IZR b) +
           scale * IZR c * (scale * IZR c) + scale * IZR d * (scale * IZR d))
    with ((scale * scale) * IZR (sumsq m)).
  2:{ unfold m. rewrite sumsq4, !plus_IZR, !mult_IZR. ring. }
  pose proof (sumsq_pos a b c d HB) as SP. change [a; b; c; d] with m in SP.
  pose proof (qnorm_pos a b c d HB) as QP. change [a; b; c; d] with m in QP.
  assert (0 <= IZR (sumsq m)) by (apply IZR_le; lia).
  rewrite sqrt_mult by nra. rewrite sqrt_square by lra. fold (qnorm m).
  field. split; lra.
Qed.

Lemma quat_mag_rounding a b c d i : let m := [a; b; c; d] in sumsq m <> 0%Z ->
  IZR (qmag (sumsq m) (qnth m i)) <= 511 * sqrt 2 * Rabs (nrm m i) + / 2 < IZR (qmag (sumsq m) (qnth m i)) + 1.
Proof. intros m HB. apply (nrm_rounds a b c d HB). Qed.

Lemma quat_small a b c d comp i : let m := [a; b; c; d] in
  compress_quaternion m = Some comp -> (0 <= i <= 3)%Z -> i <> i_largest m ->
  Rabs (dq comp i - qsign m * nrm m i) <= qstep / 2.
Proof. intros m Hc Hi Hne. destruct (quat_main a b c d comp Hc) as (H & _). apply H; assumption. Qed.

Lemma quat_largest a b c d comp : let m := [a; b; c; d] in
  compress_quaternion m = Some comp ->
  0 < 1 - sumsqR (map fval (snd (unpack comp))) /\
  dq comp (i_largest m) = sqrt (1 - sumsqR (map fval (snd (unpack comp)))) /\
  Rabs (dq comp (i_largest m) - qsign m * nrm m (i_largest m)) <= 2 * qstep.
Proof. intros m Hc. destruct (quat_main a b c d comp Hc) as (_ & H1 & H2 & H3 & _). tauto. Qed.

Lemma qstep_pos : 0 < qstep.
Proof. rewrite qstep_Kq. apply Rinv_0_lt_compat. pose proof Kq_ge. lra. Qed.

Lemma quat_same_rotation a b c d comp scale : let m := [a; b; c; d] in
  compress_quaternion m = Some comp -> 0 < scale ->
  let q := fun j => scale * IZR (qnth m j) in
  (exists s, (s = 1 \/ s = -1) /\
     forall i, (0 <= i <= 3)%Z -> Rabs (dq comp i - s * nrmR q i) <= 2 * qstep) /\
  dq comp 0 * dq comp 0 + dq comp 1 * dq comp 1 + dq comp 2 * dq comp 2 + dq comp 3 * dq comp 3 = 1.
Proof.
  intros m Hc Hs q.
  assert (HB : sumsq m <> 0%Z).
  { unfold compress_quaternion in Hc. destruct (sumsq m =? 0)%Z eqn:E; [discriminate | lia]. }
  destruct (quat_main a b c d comp Hc) as (K & _ & _ & L & U). fold m in K, L.
  split; [|exact U]. exists (qsign m). split.
  - unfold qsign. destruct (_ <? _)%Z; auto.
  - intros i Hi. pose proof (nrm_scale a b c d scale i HB Hs) as NS. cbv zeta in NS.
    change [a; b; c; d] with m in NS. fold q in NS. rewrite NS.
    destruct (Z.eq_dec i (i_largest m)) as [-> | Hne]; [exact L|].
    destruct (K i Hi Hne) as [_ K2]. pose proof qstep_pos. lra.
Qed.

(* the integer view of the reconstructed largest component used by the correspondence step *)
Lemma dq_largest_dnum comp :
  1 - sumsqR (map fval (snd (unpack comp))) = IZR (dnum comp) / (2 * 511 * 511).
Proof.
  unfold dnum. set (fs := snd (unpack comp)).
  assert (G : forall l z, IZR (fold_left (fun s f => (s + snd f * snd f)%Z) l z)
                          = IZR z + (2 * 511 * 511) * sumsqR (map fval l)).
  { induction l as [|[nb g] l IH]; intros z; cbn [fold_left map sumsqR fold_right].
    - ring.
    - rewrite IH, plus_IZR, mult_IZR. cbn [snd]. rewrite fval_eq.
      assert (E : forall t, ((if (nb =? 1)%Z then -1 else 1) * t) * ((if (nb =? 1)%Z then -1 else 1) * t) = t * t)
        by (intros; destruct (nb =? 1)%Z; ring).
      rewrite E. pose proof Kq_sq. pose proof Kq_ge.
      replace (IZR g / Kq * (IZR g / Kq)) with (IZR g * IZR g / (Kq * Kq)) by (field; lra).
      rewrite H. unfold sumsqR. set (T := fold_right _ 0 (map fval l)). field. }
  rewrite minus_IZR, G. rewrite !mult_IZR. field.
Qed.
