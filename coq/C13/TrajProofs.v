(* C13/TrajProofs.v — compressed trajectory layout and the millimetre / tenth-of-degree resolution *)
From Coq Require Import QArith Qround Qabs Lqa.
From CF Require Import Common.Struct C13.Traj.
From Coq Require Import ZifyBool.
Open Scope Z_scope.
Ltac Zify.zify_post_hook ::= Z.to_euclidean_division_equations.

(* ---------------------------------------------------------------- start element *)

Definition i16 (v : Z) : Prop := -32768 <= v < 32768.

Lemma i16_bounds v : fld_lo I16 <= v < fld_hi I16 <-> i16 v.
Proof. unfold fld_lo, fld_hi, i16. cbn [fld_signed fld_size]. change (256 ^ Z.of_nat 2 / 2) with 32768. lia. Qed.

Lemma pack_start_ints_roundtrip a b c d l :
  pack_start_ints a b c d = Some l ->
  unpack [I16; I16; I16; I16] l = Some [a; b; c; d] /\ length l = 8%nat /\ bytes l.
Proof.
  intros H. unfold pack_start_ints in H. split; [exact (unpack_pack _ _ _ H)|]. split.
  - exact (pack_length _ _ _ H).
  - exact (pack_bytes _ _ _ H).
Qed.

Lemma pack_start_ints_some_iff a b c d :
  (exists l, pack_start_ints a b c d = Some l) <-> (i16 a /\ i16 b /\ i16 c /\ i16 d).
Proof.
  unfold pack_start_ints. rewrite pack_Some_iff. split.
  - intros [_ F]. inversion F as [|? ? ? ? Ha F1]; subst. inversion F1 as [|? ? ? ? Hb F2]; subst.
    inversion F2 as [|? ? ? ? Hc F3]; subst. inversion F3 as [|? ? ? ? Hd F4]; subst.
    rewrite i16_bounds in Ha, Hb, Hc, Hd. tauto.
  - intros (Ha & Hb & Hc & Hd). split; [reflexivity|].
    repeat constructor; apply i16_bounds; assumption.
Qed.

(* ---------------------------------------------------------------- segment *)

Lemma pack_elem_ints_some_iff l : (exists b, pack_elem_ints l = Some b) <-> Forall i16 l.
Proof.
  unfold pack_elem_ints. rewrite pack_Some_iff. rewrite map_length. split.
  - intros [_ F]. induction l as [|v l IH]; [constructor|].
    cbn [map] in F. inversion F as [|? ? ? ? Hv F']; subst. constructor; [apply i16_bounds, Hv|apply IH, F'].
  - intros F. split; [reflexivity|]. induction F as [|v l Hv _ IH]; cbn [map]; constructor;
      [apply i16_bounds, Hv|exact IH].
Qed.

Lemma read_i16s_pack l : forall b rest,
  pack_elem_ints l = Some b -> read_i16s (length l) (b ++ rest) = (l, rest).
Proof.
  induction l as [|v l IH]; intros b rest H.
  - unfold pack_elem_ints in H. cbn in H. injection H as <-. reflexivity.
  - unfold pack_elem_ints in H. cbn [map pack] in H.
    destruct (pack1 I16 v) as [a|] eqn:E1; [|discriminate].
    destruct (pack (map (fun _ => I16) l) l) as [b'|] eqn:E2; [|discriminate].
    injection H as <-. cbn [length read_i16s].
    pose proof (pack1_length _ _ _ E1) as La. cbn [fld_size] in La.
    rewrite <- app_assoc. rewrite <- La, firstn_app_exact, skipn_app_exact.
    rewrite (IH b' rest E2).
    f_equal. f_equal. rewrite La. exact (unpack1_pack1 _ _ _ E1).
Qed.

Lemma seg_type_len n t : seg_type n = Some t -> 0 <= t < 4 /\ type_len t = n.
Proof.
  unfold seg_type. destruct n as [|[|[|[|[|[|[|[|n]]]]]]]]; try discriminate; intros [= <-]; split; try lia; reflexivity.
Qed.

Lemma types_fields a b c d : 0 <= a < 4 -> 0 <= b < 4 -> 0 <= c < 4 -> 0 <= d < 4 ->
  let t := Z.lor (Z.lor (Z.lor a (Z.shiftl b 2)) (Z.shiftl c 4)) (Z.shiftl d 6) in
  0 <= t < 256 /\ Z.land t 3 = a /\ Z.land (Z.shiftr t 2) 3 = b /\
  Z.land (Z.shiftr t 4) 3 = c /\ Z.land (Z.shiftr t 6) 3 = d.
Proof.
  intros Ha Hb Hc Hd.
  assert (A : a = 0 \/ a = 1 \/ a = 2 \/ a = 3) by lia.
  assert (B : b = 0 \/ b = 1 \/ b = 2 \/ b = 3) by lia.
  assert (C : c = 0 \/ c = 1 \/ c = 2 \/ c = 3) by lia.
  assert (D : d = 0 \/ d = 1 \/ d = 2 \/ d = 3) by lia.
  destruct A as [A|[A|[A|A]]]; destruct B as [B|[B|[B|B]]];
    destruct C as [C|[C|[C|C]]]; destruct D as [D|[D|[D|D]]]; subst a b c d;
    vm_compute; intuition discriminate.
Qed.

Lemma pack_U8_U16 t d l : pack [U8; U16] [t; d] = Some l ->
  0 <= t < 256 -> nth 0 l 0 = t /\ le_val (firstn 2 (skipn 1 l)) = d /\ exists b, l = [t] ++ b /\ length b = 2%nat.
Proof.
  intros H Ht. cbn [pack] in H.
  destruct (pack1 U8 t) as [a|] eqn:E1; [|discriminate].
  destruct (pack1 U16 d) as [b|] eqn:E2; [|discriminate]. injection H as <-.
  pose proof (pack1_length _ _ _ E1) as La. cbn [fld_size] in La.
  pose proof (pack1_length _ _ _ E2) as Lb. cbn [fld_size] in Lb.
  pose proof (unpack1_pack1 _ _ _ E1) as Ua. pose proof (unpack1_pack1 _ _ _ E2) as Ub.
  unfold unpack1 in Ua, Ub. cbn [fld_signed] in Ua, Ub.
  destruct a as [|a0 [|? ?]]; try discriminate. cbn [le_val] in Ua.
  destruct b as [|b0 [|b1 [|? ?]]]; try discriminate.
  cbn [app nth skipn firstn]. repeat split; try lia; try assumption.
  exists [b0; b1]. split; [cbn [app]; f_equal; lia|reflexivity].
Qed.

(* the firmware-side reader recovers the duration and the four coefficient lists, and consumes
   exactly the bytes of the segment *)
Lemma fw_read_pack_segment dur ex ey ez ew l rest :
  pack_segment_ints dur ex ey ez ew = Some l ->
  fw_read_segment (l ++ rest) = (dur, ex, ey, ez, ew, rest).
Proof.
  unfold pack_segment_ints. intros H.
  destruct (seg_type (length ex)) as [tx|] eqn:Tx; [|discriminate].
  destruct (seg_type (length ey)) as [ty|] eqn:Ty; [|discriminate].
  destruct (seg_type (length ez)) as [tz|] eqn:Tz; [|discriminate].
  destruct (seg_type (length ew)) as [tw|] eqn:Tw; [|discriminate].
  destruct (seg_type_len _ _ Tx) as [Rx Lx]. destruct (seg_type_len _ _ Ty) as [Ry Ly].
  destruct (seg_type_len _ _ Tz) as [Rz Lz]. destruct (seg_type_len _ _ Tw) as [Rw Lw].
  cbv zeta in H.
  pose proof (types_fields tx ty tz tw Rx Ry Rz Rw) as TF. cbv zeta in TF.
  set (t := Z.lor (Z.lor (Z.lor tx (Z.shiftl ty 2)) (Z.shiftl tz 4)) (Z.shiftl tw 6)) in *.
  destruct TF as (Rt & F0 & F2 & F4 & F6).
  destruct (pack [U8; U16] [t; dur]) as [h|] eqn:Eh; [|discriminate].
  destruct (pack_elem_ints ex) as [a|] eqn:Ea; [|discriminate].
  destruct (pack_elem_ints ey) as [b|] eqn:Eb; [|discriminate].
  destruct (pack_elem_ints ez) as [c|] eqn:Ec; [|discriminate].
  destruct (pack_elem_ints ew) as [d|] eqn:Ed; [|discriminate].
  injection H as <-.
  destruct (pack_U8_U16 _ _ _ Eh Rt) as (N0 & Dv & hb & -> & Lhb).
  unfold fw_read_segment.
  destruct hb as [|h0 [|h1 [|? ?]]]; try discriminate.
  cbn [app nth skipn firstn] in *.
  rewrite F0, F2, F4, F6, Lx, Ly, Lz, Lw.
  change (le_val [h0; h1]) with (le_val (firstn 2 (skipn 1 [t; h0; h1]))). 
  rewrite <- !app_assoc.
  rewrite (read_i16s_pack ex a _ Ea), (read_i16s_pack ey b _ Eb), (read_i16s_pack ez c _ Ec),
          (read_i16s_pack ew d _ Ed).
  cbn [skipn firstn] in Dv |- *. rewrite Dv. reflexivity.
Qed.

Lemma pack_segment_ints_some_iff dur ex ey ez ew :
  (exists l, pack_segment_ints dur ex ey ez ew = Some l) <->
  ((exists a b c d, seg_type (length ex) = Some a /\ seg_type (length ey) = Some b /\
                    seg_type (length ez) = Some c /\ seg_type (length ew) = Some d) /\
   0 <= dur < 65536 /\ Forall i16 ex /\ Forall i16 ey /\ Forall i16 ez /\ Forall i16 ew).
Proof.
  unfold pack_segment_ints. split.
  - intros [l H].
    destruct (seg_type (length ex)) as [tx|] eqn:Tx; [|discriminate].
    destruct (seg_type (length ey)) as [ty|] eqn:Ty; [|discriminate].
    destruct (seg_type (length ez)) as [tz|] eqn:Tz; [|discriminate].
    destruct (seg_type (length ew)) as [tw|] eqn:Tw; [|discriminate].
    cbv zeta in H.
    match type of H with match ?p with _ => _ end = _ => destruct p as [h|] eqn:Eh; [|discriminate] end.
    destruct (pack_elem_ints ex) as [a|] eqn:Ea; [|discriminate].
    destruct (pack_elem_ints ey) as [b|] eqn:Eb; [|discriminate].
    destruct (pack_elem_ints ez) as [c|] eqn:Ec; [|discriminate].
    destruct (pack_elem_ints ew) as [d|] eqn:Ed; [|discriminate].
    split; [exists tx, ty, tz, tw; tauto|].
    assert (Hd : 0 <= dur < 65536).
    { pose proof (proj1 (pack_Some_iff _ _) (ex_intro _ h Eh)) as [_ F].
      inversion F as [|? ? ? ? _ F1]; subst. inversion F1 as [|? ? ? ? Hdur _]; subst.
      unfold fld_lo, fld_hi in Hdur. cbn [fld_signed fld_size] in Hdur.
      change (256 ^ Z.of_nat 2) with 65536 in Hdur. exact Hdur. }
    split; [exact Hd|].
    repeat split; apply pack_elem_ints_some_iff; eexists; eassumption.
  - intros ((tx & ty & tz & tw & Tx & Ty & Tz & Tw) & Hd & Fx & Fy & Fz & Fw).
    rewrite Tx, Ty, Tz, Tw. cbv zeta.
    destruct (seg_type_len _ _ Tx) as [Rx _]. destruct (seg_type_len _ _ Ty) as [Ry _].
    destruct (seg_type_len _ _ Tz) as [Rz _]. destruct (seg_type_len _ _ Tw) as [Rw _].
    pose proof (types_fields tx ty tz tw Rx Ry Rz Rw) as TF. cbv zeta in TF. destruct TF as (Rt & _).
    set (t := Z.lor (Z.lor (Z.lor tx (Z.shiftl ty 2)) (Z.shiftl tz 4)) (Z.shiftl tw 6)) in *.
    assert (Eh : exists h, pack [U8; U16] [t; dur] = Some h).
    { apply pack_Some_iff. split; [reflexivity|].
      constructor; [|constructor; [|constructor]]; unfold fld_lo, fld_hi; cbn [fld_signed fld_size].
      - change (256 ^ Z.of_nat 1) with 256. lia.
      - change (256 ^ Z.of_nat 2) with 65536. lia. }
    destruct Eh as [h ->].
    destruct (proj2 (pack_elem_ints_some_iff ex) Fx) as [a ->].
    destruct (proj2 (pack_elem_ints_some_iff ey) Fy) as [b ->].
    destruct (proj2 (pack_elem_ints_some_iff ez) Fz) as [c ->].
    destruct (proj2 (pack_elem_ints_some_iff ew) Fw) as [d ->].
    eexists. reflexivity.
Qed.

(* ---------------------------------------------------------------- resolution
   int(fl(v)) for a rounding fl that is monotone and leaves the integers of the int16 range (and one
   beyond at each end) unchanged — true of IEEE-754 round-to-nearest on binary64, which represents every
   integer below 2^53 exactly.  v is the exact real product (1000*x, resp. 10*degrees). *)

Open Scope Q_scope.

Definition Qtrunc (q : Q) : Z := if Qle_bool 0 q then Qfloor q else Qceiling q.

Section Resolution.
  Variable fl : Q -> Q.
  Hypothesis fl_monotone : forall a b, a <= b -> fl a <= fl b.
  Hypothesis fl_integers : forall n : Z, (-32769 <= n <= 32768)%Z -> fl (inject_Z n) == inject_Z n.

  Lemma fl_between v : -32769 <= v <= 32768 ->
    inject_Z (Qfloor v) <= fl v <= inject_Z (Qceiling v).
  Proof.
    intros [Hlo Hhi].
    assert (F1 : (-32769 <= Qfloor v)%Z).
    { change (-32769)%Z with (Qfloor (inject_Z (-32769))). apply Qfloor_resp_le. exact Hlo. }
    assert (F2 : (Qfloor v <= 32768)%Z).
    { change 32768%Z with (Qfloor (inject_Z 32768)). apply Qfloor_resp_le. exact Hhi. }
    assert (C1 : (-32769 <= Qceiling v)%Z).
    { change (-32769)%Z with (Qceiling (inject_Z (-32769))). apply Qceiling_resp_le. exact Hlo. }
    assert (C2 : (Qceiling v <= 32768)%Z).
    { change 32768%Z with (Qceiling (inject_Z 32768)). apply Qceiling_resp_le. exact Hhi. }
    split.
    - rewrite <- (fl_integers (Qfloor v)) by lia. apply fl_monotone, Qfloor_le.
    - rewrite <- (fl_integers (Qceiling v)) by lia. apply fl_monotone, Qle_ceiling.
  Qed.

  Lemma trunc_between v : -32769 <= v <= 32768 ->
    (Qfloor v <= Qtrunc (fl v) <= Qceiling v)%Z.
  Proof.
    intros Hv. destruct (fl_between v Hv) as [H1 H2]. unfold Qtrunc.
    destruct (Qle_bool 0 (fl v)) eqn:E.
    - split.
      + change (Qfloor v) with (Qfloor v). rewrite <- (Qfloor_Z (Qfloor v)). apply Qfloor_resp_le, H1.
      + etransitivity; [|apply Z.le_refl]. rewrite <- (Qfloor_Z (Qceiling v)). apply Qfloor_resp_le, H2.
    - split.
      + rewrite <- (Qceiling_Z (Qfloor v)). apply Qceiling_resp_le, H1.
      + rewrite <- (Qceiling_Z (Qceiling v)). apply Qceiling_resp_le, H2.
  Qed.

  (* wherever the exact value lies in (or one unit around) the int16 span, the encoded integer is less
     than one unit away from it *)
  Theorem resolution_lt_one v : -32769 <= v <= 32768 ->
    Qabs (inject_Z (Qtrunc (fl v)) - v) < 1.
  Proof.
    intros Hv. destruct (trunc_between v Hv) as [T1 T2].
    pose proof (Qfloor_le v) as Fl. pose proof (Qlt_floor v) as Fu.
    pose proof (Qle_ceiling v) as Cu. pose proof (Qceiling_lt v) as Cl.
    rewrite inject_Z_plus in Fu. unfold Z.sub in Cl. rewrite inject_Z_plus, inject_Z_opp in Cl.
    change (inject_Z 1) with 1 in Fu, Cl.
    rewrite Zle_Qle in T1, T2.
    set (t := inject_Z (Qtrunc (fl v))) in *.
    set (f := inject_Z (Qfloor v)) in *. set (c := inject_Z (Qceiling v)) in *.
    apply Qabs_case; intros _; lra.
  Qed.

  (* beyond the span the encoded integer is beyond it too, so struct.pack('<h') raises: no wrap-around *)
  Theorem overflow_high v : 32768 <= v -> (32768 <= Qtrunc (fl v))%Z.
  Proof.
    intros Hv.
    assert (H : inject_Z 32768 <= fl v).
    { rewrite <- (fl_integers 32768) by lia. apply fl_monotone. exact Hv. }
    unfold Qtrunc. destruct (Qle_bool 0 (fl v)) eqn:E.
    - rewrite <- (Qfloor_Z 32768). apply Qfloor_resp_le, H.
    - rewrite <- (Qceiling_Z 32768). apply Qceiling_resp_le, H.
  Qed.

  Theorem overflow_low v : v <= -32769 -> (Qtrunc (fl v) <= -32769)%Z.
  Proof.
    intros Hv.
    assert (H : fl v <= inject_Z (-32769)).
    { rewrite <- (fl_integers (-32769)) by lia. apply fl_monotone. exact Hv. }
    unfold Qtrunc. destruct (Qle_bool 0 (fl v)) eqn:E.
    - rewrite <- (Qfloor_Z (-32769)). apply Qfloor_resp_le, H.
    - rewrite <- (Qceiling_Z (-32769)). apply Qceiling_resp_le, H.
  Qed.
End Resolution.

(* the hypotheses are satisfiable: exact arithmetic *)
Example resolution_instance : forall v, -32769 <= v <= 32768 -> Qabs (inject_Z (Qtrunc v) - v) < 1.
Proof.
  intros v Hv. apply (resolution_lt_one (fun q => q)); [intros a b H; exact H|intros n _; reflexivity|exact Hv].
Qed.
