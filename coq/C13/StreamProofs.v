(* C13/StreamProofs.v — range reports and lighthouse angle stream decode exactly what the device encoded *)
From CF Require Import Common.Struct C13.Model C13.Proofs C13.Stream.
From Coq Require Import ZifyBool.
Open Scope Z_scope.
Ltac Zify.zify_post_hook ::= Z.to_euclidean_division_equations.

Definition range_item_ok (p : Z * Z) : Prop := byte (fst p) /\ 0 <= snd p < 2 ^ 32.

Lemma encode_range_length l : length (encode_range l) = (5 * length l)%nat.
Proof.
  induction l as [|[i b] l IH]; [reflexivity|].
  unfold encode_range in *. cbn [map concat fst snd]. cbn [length app].
  rewrite app_length, le_bytes_length, IH. simpl. lia.
Qed.

Lemma range_items_encode l :
  Forall range_item_ok l -> range_items (length l) (encode_range l) = l.
Proof.
  induction 1 as [|[i b] l [Hi Hb] _ IH]; [reflexivity|].
  unfold encode_range in *. cbn [map concat fst snd length range_items] in *.
  cbn [app nth].
  change (skipn 1 (i :: le_bytes 4 b ++ concat (map (fun p => fst p :: le_bytes 4 (snd p)) l)))
    with (le_bytes 4 b ++ concat (map (fun p => fst p :: le_bytes 4 (snd p)) l)).
  change (skipn 5 (i :: le_bytes 4 b ++ concat (map (fun p => fst p :: le_bytes 4 (snd p)) l)))
    with (skipn 4 (le_bytes 4 b ++ concat (map (fun p => fst p :: le_bytes 4 (snd p)) l))).
  pose proof (le_bytes_length 4 b) as L4.
  rewrite <- L4 at 1. rewrite firstn_app_exact.
  rewrite <- L4 at 2. rewrite skipn_app_exact.
  rewrite le_val_le_bytes_id by (change (256 ^ Z.of_nat 4) with (2 ^ 32); exact Hb).
  rewrite IH. reflexivity.
Qed.

Lemma decode_range_encode l :
  Forall range_item_ok l -> decode_range (encode_range l) = Some l.
Proof.
  intros H. unfold decode_range. rewrite encode_range_length.
  assert (E : Z.of_nat (5 * length l) mod 5 =? 0 = true).
  { apply Z.eqb_eq. rewrite Nat2Z.inj_mul, Z.mul_comm. apply Z_mod_mult. }
  rewrite E.
  replace (Nat.div (5 * length l) 5) with (length l).
  - now rewrite range_items_encode.
  - rewrite Nat.mul_comm, Nat.div_mul; lia.
Qed.

Lemma decode_range_bad_length data :
  Z.of_nat (length data) mod 5 <> 0 -> decode_range data = None.
Proof. intros H. unfold decode_range. destruct (_ =? 0) eqn:E; [lia|reflexivity]. Qed.

Lemma dict_get_notin k l : ~ In k (map fst l) -> dict_get k l = None.
Proof.
  induction l as [|[k' v] l IH]; [reflexivity|]. cbn [map fst In dict_get]. intros H.
  rewrite IH by tauto. destruct (k =? k') eqn:E; [|reflexivity]. apply Z.eqb_eq in E. subst. tauto.
Qed.

Lemma dict_get_distinct k v l :
  NoDup (map fst l) -> In (k, v) l -> dict_get k l = Some v.
Proof.
  induction l as [|[k' v'] l IH]; [intros _ []|].
  cbn [map fst]. intros ND [E|Hin].
  - injection E as -> ->. inversion ND as [|? ? Hn _]; subst. cbn [dict_get].
    rewrite dict_get_notin by exact Hn. now rewrite Z.eqb_refl.
  - inversion ND as [|? ? Hn ND']; subst. cbn [dict_get]. rewrite (IH ND' Hin). reflexivity.
Qed.

(* ---- lighthouse angle stream ---- *)

Lemma s16_roundtrip h : 0 <= h < 65536 -> to_unsigned 2 (to_signed 2 h) = h.
Proof.
  intros Hh. unfold to_unsigned, to_signed. change (256 ^ Z.of_nat 2) with 65536.
  change (65536 / 2) with 32768. destruct (h <? 32768) eqn:E; lia.
Qed.

Lemma s16_range h : 0 <= h < 65536 -> -32768 <= to_signed 2 h < 32768.
Proof.
  intros Hh. unfold to_signed. change (256 ^ Z.of_nat 2) with 65536.
  change (65536 / 2) with 32768. destruct (h <? 32768) eqn:E; lia.
Qed.

Lemma pack1_I16_half h : 0 <= h < 65536 -> pack1 I16 (to_signed 2 h) = Some (le_bytes 2 h).
Proof.
  intros Hh. pose proof (s16_range h Hh) as R. unfold pack1, fld_ok, fld_lo, fld_hi.
  cbn [fld_signed fld_size]. change (256 ^ Z.of_nat 2 / 2) with 32768.
  replace ((- (32768) <=? to_signed 2 h) && (to_signed 2 h <? 32768)) with true by lia.
  now rewrite (s16_roundtrip h Hh).
Qed.

Lemma pack1_U8 b : byte b -> pack1 U8 b = Some [b].
Proof.
  intros Hb. unfold byte in Hb. unfold pack1, fld_ok, fld_lo, fld_hi. cbn [fld_signed fld_size].
  change (256 ^ Z.of_nat 1) with 256. replace ((0 <=? b) && (b <? 256)) with true by lia.
  unfold to_unsigned. change (256 ^ Z.of_nat 1) with 256. cbn [le_bytes].
  f_equal. f_equal. lia.
Qed.

Lemma pack1_F32 b : 0 <= b < 2 ^ 32 -> pack1 F32 b = Some (le_bytes 4 b).
Proof.
  intros Hb. unfold pack1, fld_ok, fld_lo, fld_hi. cbn [fld_signed fld_size].
  change (256 ^ Z.of_nat 4) with (2 ^ 32). replace ((0 <=? b) && (b <? 2 ^ 32)) with true by lia.
  unfold to_unsigned. change (256 ^ Z.of_nat 4) with (2 ^ 32). now rewrite Z.mod_small by lia.
Qed.

Definition half_ok (h : Z) : Prop := 0 <= h < 65536.

Lemma encode_lh_is_pack bs bx x1 x2 x3 by_ y1 y2 y3 :
  byte bs -> 0 <= bx < 2 ^ 32 -> 0 <= by_ < 2 ^ 32 ->
  half_ok x1 -> half_ok x2 -> half_ok x3 -> half_ok y1 -> half_ok y2 -> half_ok y3 ->
  pack lh_fmt [bs; bx; to_signed 2 x1; to_signed 2 x2; to_signed 2 x3;
               by_; to_signed 2 y1; to_signed 2 y2; to_signed 2 y3]
  = Some (encode_lh_angle bs bx [x1; x2; x3] by_ [y1; y2; y3]).
Proof.
  intros Hbs Hbx Hby H1 H2 H3 H4 H5 H6. unfold lh_fmt. cbn [pack].
  rewrite (pack1_U8 _ Hbs), (pack1_F32 _ Hbx), (pack1_F32 _ Hby).
  rewrite !pack1_I16_half by assumption.
  unfold encode_lh_angle. cbn [map concat]. rewrite !app_nil_r, <- !app_assoc. reflexivity.
Qed.

(* the signed int16 that struct code 'h' delivers decodes like the unsigned binary16 pattern *)
Lemma fp16_of_s16 h : half_ok h ->
  exists b, fp16_to_float (to_signed 2 h) = RF32 b /\ 0 <= b < 2 ^ 32 /\
            ieee_decode 8 23 b = ieee_decode 5 10 h.
Proof.
  intros Hh. unfold half_ok in Hh.
  destruct (fp16_correct h ltac:(lia)) as (b & E & Hb & D).
  exists b. split; [|split; assumption].
  unfold to_signed. change (256 ^ Z.of_nat 2) with 65536. change (65536 / 2) with 32768.
  destruct (h <? 32768) eqn:C; [exact E|].
  rewrite (fp16_signed_unsigned (h - 65536)) by lia.
  replace (h - 65536 + 65536) with h by lia. exact E.
Qed.

Lemma decode_lh_encode bs bx x1 x2 x3 by_ y1 y2 y3 :
  byte bs -> 0 <= bx < 2 ^ 32 -> 0 <= by_ < 2 ^ 32 ->
  half_ok x1 -> half_ok x2 -> half_ok x3 -> half_ok y1 -> half_ok y2 -> half_ok y3 ->
  exists a1 a2 a3 b1 b2 b3,
    decode_lh_angle (encode_lh_angle bs bx [x1; x2; x3] by_ [y1; y2; y3]) =
      Some {| lh_bs := bs;
              lh_x := [Base bx; BaseMinus bx (RF32 a1); BaseMinus bx (RF32 a2); BaseMinus bx (RF32 a3)];
              lh_y := [Base by_; BaseMinus by_ (RF32 b1); BaseMinus by_ (RF32 b2); BaseMinus by_ (RF32 b3)] |}
    /\ ieee_decode 8 23 a1 = ieee_decode 5 10 x1 /\ ieee_decode 8 23 a2 = ieee_decode 5 10 x2
    /\ ieee_decode 8 23 a3 = ieee_decode 5 10 x3 /\ ieee_decode 8 23 b1 = ieee_decode 5 10 y1
    /\ ieee_decode 8 23 b2 = ieee_decode 5 10 y2 /\ ieee_decode 8 23 b3 = ieee_decode 5 10 y3.
Proof.
  intros Hbs Hbx Hby H1 H2 H3 H4 H5 H6.
  destruct (fp16_of_s16 x1 H1) as (a1 & E1 & _ & D1). destruct (fp16_of_s16 x2 H2) as (a2 & E2 & _ & D2).
  destruct (fp16_of_s16 x3 H3) as (a3 & E3 & _ & D3). destruct (fp16_of_s16 y1 H4) as (b1 & E4 & _ & D4).
  destruct (fp16_of_s16 y2 H5) as (b2 & E5 & _ & D5). destruct (fp16_of_s16 y3 H6) as (b3 & E6 & _ & D6).
  exists a1, a2, a3, b1, b2, b3. repeat split; try assumption.
  unfold decode_lh_angle.
  rewrite (unpack_pack _ _ _ (encode_lh_is_pack _ _ _ _ _ _ _ _ _ Hbs Hbx Hby H1 H2 H3 H4 H5 H6)).
  rewrite E1, E2, E3, E4, E5, E6. reflexivity.
Qed.

Lemma decode_lh_wrong_length data : length data <> 21%nat -> decode_lh_angle data = None.
Proof.
  intros H. unfold decode_lh_angle, unpack. change (fmt_size lh_fmt) with 21%nat.
  destruct (Nat.eqb_spec (length data) 21); [contradiction|reflexivity].
Qed.
