(* C13/Stream.v — received range reports and lighthouse angle-stream packets
   (cflib/crazyflie/localization.py, Localization._incoming / _decode_lh_angle).
   `data` is the packet payload after the type byte.  Floats are bit patterns. *)
From CF Require Export Common.Struct C13.Model.
Open Scope Z_scope.

(* ---- RANGE_STREAM_REPORT: (anchor id : u8, distance : float32)* ---- *)

Fixpoint range_items (n : nat) (raw : list Z) : list (Z * Z) :=
  match n with
  | O => []
  | S k => (nth 0 raw 0, le_val (firstn 4 (skipn 1 raw))) :: range_items k (skipn 5 raw)
  end.

(* None: "Wrong range stream report data lenght" — logged, no packet delivered.
   Some l: the (id, distance) pairs in packet order; the Python dict is built by assigning them in
   this order (a repeated id keeps the last distance). *)
Definition decode_range (data : list Z) : option (list (Z * Z)) :=
  if Z.of_nat (length data) mod 5 =? 0
  then Some (range_items (Nat.div (length data) 5) data)
  else None.

(* device side *)
Definition encode_range (l : list (Z * Z)) : list Z :=
  concat (map (fun p => fst p :: le_bytes 4 (snd p)) l).

(* Python dict built by successive assignment: last assignment wins *)
Fixpoint dict_get (k : Z) (l : list (Z * Z)) : option Z :=
  match l with
  | [] => None
  | (k', v) :: l' => match dict_get k l' with Some w => Some w | None => if k =? k' then Some v else None end
  end.

(* ---- LH_ANGLE_STREAM: '<Bfhhhfhhh' ---- *)

Definition lh_fmt : list fld := [U8; F32; I16; I16; I16; F32; I16; I16; I16].

(* a decoded sweep angle: the base angle itself, or base - fp16_to_float(offset) computed in Python floats *)
Inductive angle := Base (bits : Z) | BaseMinus (bits : Z) (off : pyres).

Record lh_angles := { lh_bs : Z; lh_x : list angle; lh_y : list angle }.

Definition decode_lh_angle (data : list Z) : option lh_angles :=
  match unpack lh_fmt data with
  | Some [bs; bx; x1; x2; x3; by_; y1; y2; y3] =>
      Some {| lh_bs := bs;
              lh_x := [Base bx; BaseMinus bx (fp16_to_float x1); BaseMinus bx (fp16_to_float x2);
                       BaseMinus bx (fp16_to_float x3)];
              lh_y := [Base by_; BaseMinus by_ (fp16_to_float y1); BaseMinus by_ (fp16_to_float y2);
                       BaseMinus by_ (fp16_to_float y3)] |}
  | _ => None      (* struct.error: wrong length *)
  end.

(* device side: base angles as float32 patterns, the six offsets as binary16 patterns 0..65535 *)
Definition encode_lh_angle (bs bx : Z) (hx : list Z) (by_ : Z) (hy : list Z) : list Z :=
  [bs] ++ le_bytes 4 bx ++ concat (map (le_bytes 2) hx) ++ le_bytes 4 by_ ++ concat (map (le_bytes 2) hy).
