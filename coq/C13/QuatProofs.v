(* C13/QuatProofs.v — proofs for the quaternion clause of C13.
   Part 1: integer/bit-level facts (closed under the global context).
   Part 2: real-number layer (Coq.Reals; depends on the stdlib real axioms only). *)
From CF Require Import Common.Bytes C13.QuatModel.
From Coq Require Import ZifyBool.
Ltac Zify.zify_post_hook ::= Z.to_euclidean_division_equations.
Open Scope Z_scope.

(* ------------------------------------------------------------------ Part 1: integers and bits *)

Lemma qnth0 a b c d : qnth [a; b; c; d] 0 = a. Proof. reflexivity. Qed.
Lemma qnth1 a b c d : qnth [a; b; c; d] 1 = b. Proof. reflexivity. Qed.
Lemma qnth2 a b c d : qnth [a; b; c; d] 2 = c. Proof. reflexivity. Qed.
Lemma qnth3 a b c d : qnth [a; b; c; d] 3 = d. Proof. reflexivity. Qed.

Lemma sumsq4 a b c d : sumsq [a; b; c; d] = a * a + b * b + c * c + d * d.
Proof. unfold sumsq. cbn [fold_left]. ring. Qed.

Lemma sumsq4_zero a b c d : sumsq [a; b; c; d] = 0 <-> a = 0 /\ b = 0 /\ c = 0 /\ d = 0.
Proof. rewrite sumsq4. nia. Qed.

Ltac four j := let H := fresh in
  assert (H : j = 0 \/ j = 1 \/ j = 2 \/ j = 3) by lia;
  destruct H as [H | [H | [H | H]]]; subst j.

(* the arg-max loop returns the FIRST index of maximal absolute value *)
Lemma i_largest_spec a b c d : let m := [a; b; c; d] in
  0 <= i_largest m <= 3 /\
  forall j, 0 <= j <= 3 ->
    Z.abs (qnth m j) <= Z.abs (qnth m (i_largest m)) /\
    (j < i_largest m -> Z.abs (qnth m j) < Z.abs (qnth m (i_largest m))).
Proof.
  intros m. unfold m, i_largest. cbn [fold_left]. unfold amax_step.
  repeat (rewrite ?qnth0, ?qnth1, ?qnth2, ?qnth3;
          match goal with |- context [if ?c then _ else _] =>
            lazymatch c with context [if _ then _ else _] => fail | _ => destruct c eqn:? end end);
  rewrite ?qnth0, ?qnth1, ?qnth2, ?qnth3;
  (split; [lia|]); intros j Hj; four j; rewrite ?qnth0, ?qnth1, ?qnth2, ?qnth3; lia.
Qed.

Lemma kept0 : kept 0 = [1; 2; 3]. Proof. reflexivity. Qed.
Lemma kept1 : kept 1 = [0; 2; 3]. Proof. reflexivity. Qed.
Lemma kept2 : kept 2 = [0; 1; 3]. Proof. reflexivity. Qed.
Lemma kept3 : kept 3 = [0; 1; 2]. Proof. reflexivity. Qed.

Lemma kept_spec il i : 0 <= il <= 3 -> (In i (kept il) <-> 0 <= i <= 3 /\ i <> il).
Proof.
  intros H. four il; cbn [kept filter In Z.eqb negb]; cbn; lia.
Qed.

Lemma kept_length il : 0 <= il <= 3 -> length (kept il) = 3%nat.
Proof. intros H. four il; reflexivity. Qed.

(* (c << n) | x  =  c * 2^n + x   when x < 2^n *)
Lemma lor_shiftl_add c x n : 0 <= n -> 0 <= c -> 0 <= x < 2 ^ n ->
  Z.lor (Z.shiftl c n) x = c * 2 ^ n + x.
Proof.
  intros Hn Hc Hx. rewrite Z.shiftl_mul_pow2 by lia.
  assert (E : Z.land (c * 2 ^ n) x = 0).
  { apply Z.bits_inj'. intros k Hk. rewrite Z.land_spec, Z.bits_0.
    destruct (Z.ltb_spec k n) as [L | L].
    - rewrite Z.mul_pow2_bits_low by lia. reflexivity.
    - destruct (Z.eq_dec x 0) as [-> | Nz].
      + rewrite Z.bits_0. apply andb_false_r.
      + rewrite (Z.bits_above_log2 x k); [apply andb_false_r | lia |].
        assert (Z.log2 x < n) by (apply Z.log2_lt_pow2; lia). lia. }
  rewrite <- Z.lxor_lor by exact E. symmetry. apply Z.add_nocarry_lxor. exact E.
Qed.

Definition field_ok (f : Z * Z) : Prop := 0 <= fst f <= 1 /\ 0 <= snd f <= 511.

Lemma pack_step_arith comp f : 0 <= comp -> field_ok f ->
  pack_step comp f = comp * 1024 + fst f * 512 + snd f.
Proof.
  intros Hc [Hn Hm]. unfold pack_step.
  rewrite (Z.shiftl_mul_pow2 (fst f) 9) by lia.
  rewrite lor_shiftl_add by lia.
  replace (comp * 2 ^ 10 + fst f * 2 ^ 9) with ((comp * 2 + fst f) * 2 ^ 9) by lia.
  rewrite <- Z.shiftl_mul_pow2 by lia.
  rewrite lor_shiftl_add by lia. lia.
Qed.

Lemma pack3_arith il f1 f2 f3 : 0 <= il -> field_ok f1 -> field_ok f2 -> field_ok f3 ->
  pack il [f1; f2; f3] =
  ((il * 1024 + (fst f1 * 512 + snd f1)) * 1024 + (fst f2 * 512 + snd f2)) * 1024 + (fst f3 * 512 + snd f3).
Proof.
  intros Hi H1 H2 H3. unfold pack. cbn [fold_left].
  pose proof H1 as [? ?]. pose proof H2 as [? ?]. pose proof H3 as [? ?].
  rewrite (pack_step_arith il) by assumption.
  rewrite (pack_step_arith _ f2) by (assumption || lia).
  rewrite (pack_step_arith _ f3) by (assumption || lia). lia.
Qed.

Lemma land511 x : Z.land x 511 = x mod 512.
Proof. change 511 with (Z.ones 9). rewrite Z.land_ones by lia. reflexivity. Qed.
Lemma land1 x : Z.land x 1 = x mod 2.
Proof. change 1 with (Z.ones 1). rewrite Z.land_ones by lia. reflexivity. Qed.

(* unpack (pack ...) is the identity on the bit fields, and the packed word fits 32 bits *)
Lemma unpack_pack il f1 f2 f3 : 0 <= il <= 3 -> field_ok f1 -> field_ok f2 -> field_ok f3 ->
  0 <= pack il [f1; f2; f3] < 2 ^ 32 /\ unpack (pack il [f1; f2; f3]) = (il, [f1; f2; f3]).
Proof.
  intros Hi H1 H2 H3. rewrite pack3_arith by (assumption || lia).
  destruct f1 as [n1 g1], f2 as [n2 g2], f3 as [n3 g3]. unfold field_ok in *. cbn [fst snd] in *.
  set (comp := ((il * 1024 + (n1 * 512 + g1)) * 1024 + (n2 * 512 + g2)) * 1024 + (n3 * 512 + g3)).
  assert (Hil : Z.shiftr comp 30 = il).
  { rewrite Z.shiftr_div_pow2 by lia. change (2 ^ 30) with 1073741824. unfold comp. lia. }
  split. { change (2 ^ 32) with 4294967296. unfold comp. lia. }
  unfold unpack. rewrite Hil. f_equal.
  assert (L : exists x y z, rev (kept il) = [x; y; z]).
  { clear - Hi. four il; cbn; eauto. }
  destruct L as (x & y & z & ->). cbn [fold_left unpack_step fst snd].
  rewrite !land511, !land1, !Z.shiftr_div_pow2 by lia.
  change (2 ^ 10) with 1024. change (2 ^ 9) with 512.
  assert (comp mod 512 = g3) by (unfold comp; lia).
  assert (comp / 512 mod 2 = n3) by (unfold comp; lia).
  assert (E1 : comp / 1024 = (il * 1024 + (n1 * 512 + g1)) * 1024 + (n2 * 512 + g2)) by (unfold comp; lia).
  rewrite E1.
  set (c1 := (il * 1024 + (n1 * 512 + g1)) * 1024 + (n2 * 512 + g2)) in *.
  assert (c1 mod 512 = g2) by (unfold c1; lia).
  assert (c1 / 512 mod 2 = n2) by (unfold c1; lia).
  assert (E2 : c1 / 1024 = il * 1024 + (n1 * 512 + g1)) by (unfold c1; lia).
  rewrite E2.
  assert ((il * 1024 + (n1 * 512 + g1)) mod 512 = g1) by lia.
  assert ((il * 1024 + (n1 * 512 + g1)) / 512 mod 2 = n1) by lia.
  congruence.
Qed.

(* ---- magnitudes fit 9 bits: the non-largest components satisfy 2 m_i^2 <= B *)
Lemma qmag_range B mi : 0 < B -> 2 * (mi * mi) <= B -> 0 <= qmag B mi <= 511.
Proof.
  intros HB H. unfold qmag. set (A := 2 * 511 * 511 * (mi * mi)).
  assert (HA : 0 <= A) by (unfold A; nia).
  assert (Hr : 0 <= Z.sqrt (4 * A * B)) by apply Z.sqrt_nonneg.
  assert (Hs : Z.sqrt (4 * A * B) <= 1022 * B).
  { rewrite <- (Z.sqrt_square (1022 * B)) by lia. apply Z.sqrt_le_mono. unfold A. nia. }
  split.
  - apply Z.div_pos; lia.
  - assert ((Z.sqrt (4 * A * B) + B) / (2 * B) < 512); [|lia].
    apply Z.div_lt_upper_bound; lia.
Qed.

Lemma qnegbit_range n x : 0 <= qnegbit n x <= 1.
Proof. unfold qnegbit. destruct (xorb _ _); lia. Qed.

Lemma pair_le_sumsq a b c d i : let m := [a; b; c; d] in
  0 <= i <= 3 -> i <> i_largest m ->
  qnth m i * qnth m i + qnth m (i_largest m) * qnth m (i_largest m) <= sumsq m.
Proof.
  intros m Hi Hne. subst m. destruct (i_largest_spec a b c d) as [Hil _]. cbv zeta in Hil.
  rewrite sumsq4. revert Hne Hil. generalize (i_largest [a; b; c; d]). intros il Hne Hil.
  four il; four i; try lia; rewrite ?qnth0, ?qnth1, ?qnth2, ?qnth3; nia.
Qed.

Lemma qfield_ok a b c d i : let m := [a; b; c; d] in
  sumsq m <> 0 -> 0 <= i <= 3 -> i <> i_largest m -> field_ok (qfield m i).
Proof.
  intros m HB Hi Hne. unfold field_ok, qfield. cbn [fst snd]. split; [apply qnegbit_range|].
  pose proof (pair_le_sumsq a b c d i Hi Hne) as P. fold m in P.
  destruct (i_largest_spec a b c d) as [_ S]. fold m in S. destruct (S i Hi) as [S1 _].
  assert (0 <= sumsq m) by (subst m; rewrite sumsq4; nia).
  apply qmag_range; [lia|].
  rewrite <- (Z.abs_square (qnth m i)). rewrite <- (Z.abs_square (qnth m (i_largest m))) in P.
  rewrite <- (Z.abs_square (qnth m i)) in P. nia.
Qed.

Lemma kept_three il : 0 <= il <= 3 -> exists k1 k2 k3, kept il = [k1; k2; k3].
Proof. intros H. four il; cbn; eauto. Qed.

(* compress: the packed word fits 32 bits and unpacks to exactly the computed fields *)
Lemma compress_fields a b c d comp : let m := [a; b; c; d] in
  compress_quaternion m = Some comp ->
  0 <= comp < 2 ^ 32 /\ unpack comp = (i_largest m, qfields m) /\
  forall i, In i (kept (i_largest m)) -> field_ok (qfield m i).
Proof.
  intros m. unfold compress_quaternion. destruct (sumsq m =? 0) eqn:EB; [discriminate|].
  intros [= <-]. assert (HB : sumsq m <> 0) by lia.
  destruct (i_largest_spec a b c d) as [Hil _]. fold m in Hil.
  assert (F : forall i, In i (kept (i_largest m)) -> field_ok (qfield m i)).
  { intros i Hin. apply kept_spec in Hin; [|exact Hil]. apply qfield_ok; tauto. }
  unfold qfields. destruct (kept_three _ Hil) as (k1 & k2 & k3 & E). rewrite E in *. cbn [map].
  destruct (unpack_pack (i_largest m) (qfield m k1) (qfield m k2) (qfield m k3)) as [P1 P2];
    try (apply F; cbn; tauto); try exact Hil.
  split; [exact P1|]. split; [exact P2|exact F].
Qed.

Lemma compress_none a b c d :
  compress_quaternion [a; b; c; d] = None <-> a = 0 /\ b = 0 /\ c = 0 /\ d = 0.
Proof.
  unfold compress_quaternion. rewrite <- sumsq4_zero.
  destruct (sumsq [a; b; c; d] =? 0) eqn:E; split; intros; try discriminate; try reflexivity; lia.
Qed.

(* ---- non-vacuity: concrete instances of the hypotheses used by the theorems *)
Example quat_example_roundtrip :
  compress_quaternion [-1; 2; -3; 4] = Some 3896779660 /\
  unpack 3896779660 = (3, [(1, 132); (0, 264); (1, 396)]) /\ dnum 3896779660 = 278306.
Proof. vm_compute. repeat split; reflexivity. Qed.

(* ties resolve to the first maximum; a negative largest component flips every sign bit *)
Example quat_example_tie :
  i_largest [1; -1; 1; -1] = 0 /\ i_largest [0; -3; 3; 1] = 1 /\
  compress_quaternion [0; -3; 3; 1] = Some (pack 1 [(1, 0); (1, 497); (1, 166)]).
Proof. vm_compute. repeat split; reflexivity. Qed.

Example quat_example_zero : compress_quaternion [0; 0; 0; 0] = None.
Proof. reflexivity. Qed.
