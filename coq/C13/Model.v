(* C13/Model.v — executable models of the numeric wire codecs.
   fp16_to_float (cflib/utils/encoding.py) and the RGB565 packing of
   LEDDriverMemory.write_data (cflib/crazyflie/mem/led_driver_memory.py).
   Hand-written; tied to the code by exhaustive differential evaluation (harness/props/c13.py). *)
From CF Require Export Common.Bytes.
Open Scope Z_scope.

(* ---------------------------------------------------------------- fp16_to_float *)

(* What the Python function returns: a Python int (the defect F13 on the original tree) or a
   float obtained by reinterpreting a 32-bit pattern as binary32. *)
Inductive pyres := RInt (z : Z) | RF32 (bits : Z).

(* while not (f & 0x400): f <<= 1; e -= 1   — at most 10 iterations for 0 < f < 1024 *)
Fixpoint fp16_norm (fuel : nat) (e f : Z) : Z * Z :=
  match fuel with
  | O => (e, f)
  | S k => if Z.land f 1024 =? 0 then fp16_norm k (e - 1) (Z.shiftl f 1) else (e, f)
  end.

Definition fp16_to_float (h : Z) : pyres :=
  let s := Z.land (Z.shiftr h 15) 1 in
  let e := Z.land (Z.shiftr h 10) 31 in
  let f := Z.land h 1023 in
  let finish e f := RF32 (Z.lor (Z.lor (Z.shiftl s 31) (Z.shiftl (e + (127 - 15)) 23)) (Z.shiftl f 13)) in
  if e =? 0 then
    if f =? 0 then RF32 (Z.shiftl s 31)
    else let '(e1, f1) := fp16_norm 11 e f in
         finish (e1 + 1) (Z.land f1 (Z.lnot 1024))
  else if e =? 31 then
    if f =? 0 then RF32 (Z.lor (Z.shiftl s 31) 2139095040)
    else RF32 (Z.lor (Z.lor (Z.shiftl s 31) 2139095040) (Z.shiftl f 13))
  else finish e f.

(* ---- specification side: IEEE-754 binary interchange formats, decoded to exact values ---- *)

(* FFin s m e  denotes (-1)^s * m * 2^e with m odd and positive (canonical) *)
Inductive fval := FZero (s : Z) | FInf (s : Z) | FNaN | FFin (s : Z) (m e : Z).

Fixpoint canon_fin (fuel : nat) (m e : Z) : Z * Z :=
  match fuel with
  | O => (m, e)
  | S k => if Z.even m then canon_fin k (m / 2) (e + 1) else (m, e)
  end.

(* ew exponent bits, mw fraction bits *)
Definition ieee_decode (ew mw : Z) (bits : Z) : fval :=
  let s := Z.land (Z.shiftr bits (ew + mw)) 1 in
  let e := Z.land (Z.shiftr bits mw) (2 ^ ew - 1) in
  let f := Z.land bits (2 ^ mw - 1) in
  let bias := 2 ^ (ew - 1) - 1 in
  if e =? 2 ^ ew - 1 then (if f =? 0 then FInf s else FNaN)
  else if e =? 0 then
    (if f =? 0 then FZero s
     else let '(m, x) := canon_fin 64 f (1 - bias - mw) in FFin s m x)
  else let '(m, x) := canon_fin 64 (2 ^ mw + f) (e - bias - mw) in FFin s m x.

Definition fval_eqb (a b : fval) : bool :=
  match a, b with
  | FZero s, FZero t => s =? t
  | FInf s, FInf t => s =? t
  | FNaN, FNaN => true
  | FFin s m e, FFin t n x => (s =? t) && (m =? n) && (e =? x)
  | _, _ => false
  end.

Definition fp16_ok (h : Z) : bool :=
  match fp16_to_float h with
  | RF32 b => (0 <=? b) && (b <? 2 ^ 32) && fval_eqb (ieee_decode 8 23 b) (ieee_decode 5 10 h)
  | RInt _ => false
  end.

(* all integers a <= z < a + n *)
Fixpoint zrange (a : Z) (n : nat) : list Z :=
  match n with O => [] | S k => a :: zrange (a + 1) k end.

(* ---------------------------------------------------------------- LED ring RGB565 *)

(* int(x * intensity / 100) for non-negative integers: Python float division followed by int() *)
Definition scale100 (x i : Z) : Z := (x * i) / 100.

Definition led_r5 (r i : Z) : Z := scale100 (Z.land (Z.shiftr (Z.land r 255 * 249 + 1014) 11) 31) i.
Definition led_g6 (g i : Z) : Z := scale100 (Z.land (Z.shiftr (Z.land g 255 * 253 + 505) 10) 63) i.
Definition led_b5 (b i : Z) : Z := scale100 (Z.land (Z.shiftr (Z.land b 255 * 249 + 1014) 11) 31) i.

Definition led_565 (r g b i : Z) : Z :=
  Z.lor (Z.lor (Z.shiftl (led_r5 r i) 11) (Z.shiftl (led_g6 g i) 5)) (led_b5 b i).

(* the two bytes appended per LED: (tmp >> 8, tmp & 0xFF) *)
Definition led_bytes (r g b i : Z) : list Z :=
  let t := led_565 r g b i in [Z.shiftr t 8; Z.land t 255].

(* field extraction as the firmware does it *)
Definition f565_r (t : Z) := Z.land (Z.shiftr t 11) 31.
Definition f565_g (t : Z) := Z.land (Z.shiftr t 5) 63.
Definition f565_b (t : Z) := Z.land t 31.
