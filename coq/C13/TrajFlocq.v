(* C13/TrajFlocq.v — link between the EXECUTABLE primitive-float model of C13/Traj.v
   (float_trunc, enc_spatial, enc_yaw, enc_duration) and IEEE-754 binary64 as formalised by Flocq.

   TrajProofs.v proves the millimetre / tenth-of-degree resolution for an ABSTRACT rounding `fl`
   (monotone, identity on small integers).  Here the same facts are proved about the functions that
   are actually executed (and compared with CPython by harness/props/c13.py):
     - float_trunc f is Flocq's Ztrunc of the real value of f (None exactly for inf / nan);
     - Prim2B (x * k) = Bmult mode_NE .. (Flocq's mul_equiv) and Bmult_correct give
       B2R (x * k) = round radix2 (FLT_exp (-1074) 53) ZnearestE (B2R x * B2R k);
     - round is monotone and fixes every integer below 2^53, hence the result of int(x * k) lies
       between floor and ceil of the exact product: less than one unit away, and beyond the int16
       span whenever the exact product is (so struct.pack('<h') raises, it cannot wrap). *)
From Coq Require Import ZArith Reals Lia Lra Floats.PrimFloat Floats.SpecFloat Floats.FloatOps Floats.FloatAxioms.
From Flocq Require Import Core.Core IEEE754.BinarySingleNaN IEEE754.PrimFloat.
From CF Require Import Common.Struct C13.Traj C13.TrajProofs.
Open Scope Z_scope.

Local Notation pfloat := Coq.Floats.PrimFloat.float.
Local Notation B64 := (binary_float prec emax).
Local Notation rnd64 := (round radix2 (SpecFloat.fexp prec emax) ZnearestE).

(* ------------------------------------------------------------------ (1) float_trunc = Ztrunc *)

Lemma Ztrunc_pos_mant (m : positive) (e : Z) :
  Ztrunc (F2R (Float radix2 (Zpos m) e)) =
  (if 0 <=? e then Zpos m * 2 ^ e else Zpos m / 2 ^ (- e)).
Proof.
  destruct (Z.leb_spec 0 e) as [He|He].
  - unfold F2R; cbn [Fnum Fexp].
    rewrite <- IZR_Zpower by exact He. rewrite <- mult_IZR. rewrite Ztrunc_IZR. reflexivity.
  - unfold F2R; cbn [Fnum Fexp].
    rewrite Ztrunc_floor.
    + replace e with (- (- e)) at 1 by lia. rewrite bpow_opp.
      rewrite <- IZR_Zpower by lia. change (radix2 : Z) with 2.
      change (IZR (Z.pos m) * / IZR (2 ^ - e))%R with (IZR (Z.pos m) / IZR (2 ^ - e))%R.
      apply Zfloor_div. apply Z.pow_nonzero; lia.
    + apply Rmult_le_pos; [apply IZR_le; lia|apply bpow_ge_0].
Qed.

Lemma float_trunc_B (b : B64) :
  match B2SF b with
  | S754_zero _ => Some 0
  | S754_finite s m e =>
      let v := if 0 <=? e then Zpos m * 2 ^ e else Zpos m / 2 ^ (- e) in
      Some (if s then - v else v)
  | S754_infinity _ => None
  | S754_nan => None
  end = if is_finite b then Some (Ztrunc (B2R b)) else None.
Proof.
  destruct b as [s|s| |s m e H]; cbn [B2SF is_finite B2R]; try reflexivity.
  - rewrite Ztrunc_IZR. reflexivity.
  - cbv zeta. f_equal. destruct s; cbn [cond_Zopp].
    + change (Z.opp (Z.pos m)) with (- Z.pos m). rewrite F2R_Zopp, Ztrunc_opp, Ztrunc_pos_mant. reflexivity.
    + apply eq_sym, Ztrunc_pos_mant.
Qed.

Lemma float_trunc_Prim2B f :
  float_trunc f = if is_finite (Prim2B f) then Some (Ztrunc (B2R (Prim2B f))) else None.
Proof. unfold float_trunc. rewrite <- B2SF_Prim2B. apply float_trunc_B. Qed.

(* target (1) *)
Lemma float_trunc_finite f : is_finite (Prim2B f) = true ->
  float_trunc f = Some (Ztrunc (B2R (Prim2B f))).
Proof. intros H. rewrite float_trunc_Prim2B, H. reflexivity. Qed.

Lemma float_trunc_not_finite f : is_finite (Prim2B f) = false -> float_trunc f = None.
Proof. intros H. rewrite float_trunc_Prim2B, H. reflexivity. Qed.

(* the same, phrased on the SpecFloat view that Traj.v matches on *)
Lemma is_finite_Prim2B_SF f :
  is_finite (Prim2B f) = match Prim2SF f with S754_zero _ | S754_finite _ _ _ => true | _ => false end.
Proof. rewrite <- B2SF_Prim2B. destruct (Prim2B f); reflexivity. Qed.

Lemma float_trunc_correct f :
  match Prim2SF f with
  | S754_zero _ | S754_finite _ _ _ => float_trunc f = Some (Ztrunc (B2R (Prim2B f)))
  | S754_infinity _ | S754_nan => float_trunc f = None
  end.
Proof.
  pose proof (is_finite_Prim2B_SF f) as H. pose proof (float_trunc_Prim2B f) as T.
  destruct (Prim2SF f); rewrite H in T; exact T.
Qed.

(* ------------------------------------------------------------------ abstract real lemma
   A monotone rnd : R -> R that fixes the integers of magnitude <= N keeps every v of that span between
   its floor and its ceiling; truncating afterwards stays within that bracket. *)
Open Scope R_scope.

Section AbstractRounding.
  Variable rnd : R -> R.
  Variable N : Z.
  Hypothesis rnd_monotone : forall a b, a <= b -> rnd a <= rnd b.
  Hypothesis rnd_integers : forall n : Z, (- N <= n <= N)%Z -> rnd (IZR n) = IZR n.

  Lemma floor_ceil_in_span v : IZR (- N) <= v <= IZR N ->
    (- N <= Zfloor v <= N)%Z /\ (- N <= Zceil v <= N)%Z.
  Proof.
    intros [Hlo Hhi]. repeat split.
    - rewrite <- (Zfloor_IZR (- N)). apply Zfloor_le, Hlo.
    - rewrite <- (Zfloor_IZR N). apply Zfloor_le, Hhi.
    - rewrite <- (Zceil_IZR (- N)). apply Zceil_le, Hlo.
    - rewrite <- (Zceil_IZR N). apply Zceil_le, Hhi.
  Qed.

  Lemma rnd_between v : IZR (- N) <= v <= IZR N ->
    IZR (Zfloor v) <= rnd v <= IZR (Zceil v).
  Proof.
    intros Hv. destruct (floor_ceil_in_span v Hv) as [F C]. split.
    - rewrite <- (rnd_integers (Zfloor v) F). apply rnd_monotone, Zfloor_lb.
    - rewrite <- (rnd_integers (Zceil v) C). apply rnd_monotone, Zceil_ub.
  Qed.

  Lemma trunc_rnd_between v : IZR (- N) <= v <= IZR N ->
    (Zfloor v <= Ztrunc (rnd v) <= Zceil v)%Z.
  Proof.
    intros Hv. destruct (rnd_between v Hv) as [H1 H2]. split.
    - rewrite <- (Ztrunc_IZR (Zfloor v)). apply Ztrunc_le, H1.
    - rewrite <- (Ztrunc_IZR (Zceil v)). apply Ztrunc_le, H2.
  Qed.

  Lemma trunc_rnd_resolution v : IZR (- N) <= v <= IZR N ->
    Rabs (IZR (Ztrunc (rnd v)) - v) < 1.
  Proof.
    intros Hv. destruct (trunc_rnd_between v Hv) as [T1 T2].
    apply IZR_le in T1, T2.
    pose proof (Zfloor_ub v) as Fu. pose proof (Zceil_lb v) as Cl.
    apply Rabs_def1; lra.
  Qed.

  (* no upper bound on v is needed for the overflow direction *)
  Lemma trunc_rnd_ge n v : (- N <= n <= N)%Z -> IZR n <= v -> (n <= Ztrunc (rnd v))%Z.
  Proof.
    intros Hn Hv. rewrite <- (Ztrunc_IZR n). apply Ztrunc_le.
    rewrite <- (rnd_integers n Hn). apply rnd_monotone, Hv.
  Qed.

  Lemma trunc_rnd_le n v : (- N <= n <= N)%Z -> v <= IZR n -> (Ztrunc (rnd v) <= n)%Z.
  Proof.
    intros Hn Hv. apply Z.le_trans with (Ztrunc (IZR n)); [|rewrite Ztrunc_IZR; apply Z.le_refl].
    apply Ztrunc_le. rewrite <- (rnd_integers n Hn). apply rnd_monotone, Hv.
  Qed.

  Lemma rnd_abs_le v : (0 <= N)%Z -> IZR (- N) <= v <= IZR N -> Rabs (rnd v) <= IZR N.
  Proof.
    intros HN [Hlo Hhi].
    assert (A : rnd v <= IZR N) by (rewrite <- (rnd_integers N) by lia; apply rnd_monotone, Hhi).
    assert (B : IZR (- N) <= rnd v) by (rewrite <- (rnd_integers (- N)) by lia; apply rnd_monotone, Hlo).
    rewrite opp_IZR in B. apply Rabs_le. lra.
  Qed.
End AbstractRounding.

(* ------------------------------------------------------------------ binary64 round-to-nearest-even
   is such a rounding with N = 2^53 *)

Local Instance prec53_gt_0 : Prec_gt_0 prec := Hprec.
Local Instance prec53_lt_emax : Prec_lt_emax prec emax := Hmax.
Local Instance fexp64_valid : Valid_exp (SpecFloat.fexp prec emax) := fexp_correct prec emax prec53_gt_0.

Lemma rnd64_monotone a b : a <= b -> rnd64 a <= rnd64 b.
Proof. apply round_le; typeclasses eauto. Qed.

Lemma generic_format_small_int (n : Z) : (Z.abs n < 2 ^ 53)%Z ->
  generic_format radix2 (SpecFloat.fexp prec emax) (IZR n).
Proof.
  intros Hn. change (SpecFloat.fexp prec emax) with (FLT_exp (-1074) 53).
  apply generic_format_FLT. exists (Float radix2 n 0).
  - unfold F2R; cbn [Fnum Fexp bpow]. ring.
  - exact Hn.
  - cbn [Fexp]. lia.
Qed.

Lemma generic_format_int53 (n : Z) : (- 2 ^ 53 <= n <= 2 ^ 53)%Z ->
  generic_format radix2 (SpecFloat.fexp prec emax) (IZR n).
Proof.
  intros Hn.
  destruct (Z.eq_dec n (2 ^ 53)) as [->|N1].
  { change (IZR (2 ^ 53)) with (IZR (radix2 ^ 53)). rewrite IZR_Zpower by lia.
    apply generic_format_bpow. vm_compute. discriminate. }
  destruct (Z.eq_dec n (- 2 ^ 53)) as [->|N2].
  { rewrite opp_IZR. apply generic_format_opp.
    change (IZR (2 ^ 53)) with (IZR (radix2 ^ 53)). rewrite IZR_Zpower by lia.
    apply generic_format_bpow. vm_compute. discriminate. }
  apply generic_format_small_int. lia.
Qed.

Lemma rnd64_integers (n : Z) : (- 2 ^ 53 <= n <= 2 ^ 53)%Z -> rnd64 (IZR n) = IZR n.
Proof. intros Hn. apply round_generic; [typeclasses eauto|apply generic_format_int53, Hn]. Qed.

(* target "abstract lemma instantiated for Flocq's round" *)
Lemma rnd64_resolution v : IZR (- 2 ^ 53) <= v <= IZR (2 ^ 53) ->
  Rabs (IZR (Ztrunc (rnd64 v)) - v) < 1.
Proof. apply (trunc_rnd_resolution rnd64 (2 ^ 53) rnd64_monotone rnd64_integers). Qed.

(* ------------------------------------------------------------------ int(x * k) for a double constant k
   whose value is the integer K (1000.0, 10.0) *)

Definition fin (f : pfloat) : Prop := is_finite (Prim2B f) = true.
Definition val (f : pfloat) : R := B2R (Prim2B f).

Lemma trunc_mul_cases x k :
  fin x -> fin k ->
  let r := rnd64 (val x * val k) in
  (Rabs r < bpow radix2 emax -> float_trunc (x * k)%float = Some (Ztrunc r)) /\
  (bpow radix2 emax <= Rabs r -> float_trunc (x * k)%float = None).
Proof.
  intros Fx Fk r. unfold fin in Fx, Fk. unfold val in r.
  rewrite float_trunc_Prim2B, mul_equiv.
  pose proof (Bmult_correct prec emax Hprec Hmax mode_NE (Prim2B x) (Prim2B k)) as M.
  cbn [round_mode] in M. fold r in M.
  destruct (Rlt_bool_spec (Rabs r) (bpow radix2 emax)) as [Hlt|Hge].
  - destruct M as (Mv & Mf & _). rewrite Fx, Fk in Mf. cbn [andb] in Mf.
    split; [intros _; rewrite Mf, Mv; reflexivity|intros H; exfalso; lra].
  - split; [intros H; exfalso; lra|intros _].
    unfold binary_overflow in M. cbn [overflow_to_inf] in M.
    destruct (Bmult mode_NE (Prim2B x) (Prim2B k)); try discriminate M. reflexivity.
Qed.

Lemma bpow53_lt_emax : IZR (2 ^ 53) < bpow radix2 emax.
Proof.
  change (IZR (2 ^ 53)) with (IZR (radix2 ^ 53)). rewrite IZR_Zpower by lia.
  apply bpow_lt. reflexivity.
Qed.

(* inside +-2^53 (so in particular anywhere near the int16 / uint16 spans) the conversion succeeds and
   is less than one unit away from the exact real product *)
Lemma trunc_mul_resolution x k K :
  fin x -> fin k -> val k = IZR K ->
  IZR (- 2 ^ 53) <= val x * IZR K <= IZR (2 ^ 53) ->
  exists t, float_trunc (x * k)%float = Some t /\ Rabs (IZR t - val x * IZR K) < 1 /\
            (Zfloor (val x * IZR K) <= t <= Zceil (val x * IZR K))%Z.
Proof.
  intros Fx Fk Hk Hv. destruct (trunc_mul_cases x k Fx Fk) as [Hs _]. rewrite Hk in Hs. cbv zeta in Hs.
  exists (Ztrunc (rnd64 (val x * IZR K))). split; [|split].
  - apply Hs. eapply Rle_lt_trans; [|exact bpow53_lt_emax].
    apply (rnd_abs_le rnd64 (2 ^ 53) rnd64_monotone rnd64_integers); [lia|exact Hv].
  - apply rnd64_resolution, Hv.
  - apply (trunc_rnd_between rnd64 (2 ^ 53) rnd64_monotone rnd64_integers), Hv.
Qed.

(* at or beyond an integer bound n the result is at or beyond n, or the product overflowed to an
   infinity and int() raised: never a wrapped-around small value *)
Lemma trunc_mul_ge x k K n :
  fin x -> fin k -> val k = IZR K -> (- 2 ^ 53 <= n <= 2 ^ 53)%Z ->
  IZR n <= val x * IZR K ->
  float_trunc (x * k)%float = None \/ exists t, float_trunc (x * k)%float = Some t /\ (n <= t)%Z.
Proof.
  intros Fx Fk Hk Hn Hv. destruct (trunc_mul_cases x k Fx Fk) as [Hs Hnone]. rewrite Hk in Hs, Hnone.
  cbv zeta in Hs, Hnone.
  destruct (Rlt_le_dec (Rabs (rnd64 (val x * IZR K))) (bpow radix2 emax)) as [L|G].
  - right. eexists. split; [apply Hs, L|].
    apply (trunc_rnd_ge rnd64 (2 ^ 53) rnd64_monotone rnd64_integers); assumption.
  - left. apply Hnone, G.
Qed.

Lemma trunc_mul_le x k K n :
  fin x -> fin k -> val k = IZR K -> (- 2 ^ 53 <= n <= 2 ^ 53)%Z ->
  val x * IZR K <= IZR n ->
  float_trunc (x * k)%float = None \/ exists t, float_trunc (x * k)%float = Some t /\ (t <= n)%Z.
Proof.
  intros Fx Fk Hk Hn Hv. destruct (trunc_mul_cases x k Fx Fk) as [Hs Hnone]. rewrite Hk in Hs, Hnone.
  cbv zeta in Hs, Hnone.
  destruct (Rlt_le_dec (Rabs (rnd64 (val x * IZR K))) (bpow radix2 emax)) as [L|G].
  - right. eexists. split; [apply Hs, L|].
    apply (trunc_rnd_le rnd64 (2 ^ 53) rnd64_monotone rnd64_integers); assumption.
  - left. apply Hnone, G.
Qed.

(* non-finite operand: the product is non-finite (nan or inf), int() raises *)
Lemma trunc_mul_not_finite x k : is_finite (Prim2B x) = false -> float_trunc (x * k)%float = None.
Proof.
  intros Fx. rewrite float_trunc_Prim2B, mul_equiv.
  destruct (Prim2B x) as [s|s| |s m e H]; try discriminate Fx;
    destruct (Prim2B k) as [s'|s'| |s' m' e' H']; reflexivity.
Qed.

(* the two constants *)
Lemma const_val (k : pfloat) (K : Z) (m : positive) (e : Z) :
  Prim2SF k = S754_finite false m e -> (e <= 0)%Z -> (Zpos m = K * 2 ^ (- e))%Z ->
  fin k /\ val k = IZR K.
Proof.
  intros Hk He Hm. split.
  - unfold fin. rewrite is_finite_Prim2B_SF, Hk. reflexivity.
  - unfold val, Prim2B. rewrite B2R_SF2B, Hk. cbn [SF2R cond_Zopp].
    rewrite Hm. replace (IZR K) with (F2R (Float radix2 K 0)) by (unfold F2R; cbn [Fnum Fexp bpow]; ring).
    rewrite (F2R_change_exp radix2 e K 0 He). reflexivity.
Qed.

Lemma k1000 : fin 1000%float /\ val 1000%float = 1000.
Proof. apply (const_val 1000%float 1000 (1000 * 2 ^ 43)%positive (-43)); vm_compute; try reflexivity; discriminate. Qed.

Lemma k10 : fin 10%float /\ val 10%float = 10.
Proof. apply (const_val 10%float 10 (10 * 2 ^ 49)%positive (-49)); vm_compute; try reflexivity; discriminate. Qed.

(* value of a finite product that does not overflow: one rounding of the exact real product *)
Lemma mul_value x k : fin x -> fin k ->
  Rabs (rnd64 (val x * val k)) < bpow radix2 emax ->
  fin (x * k)%float /\ val (x * k)%float = rnd64 (val x * val k).
Proof.
  unfold fin, val. intros Fx Fk H. rewrite mul_equiv.
  pose proof (Bmult_correct prec emax Hprec Hmax mode_NE (Prim2B x) (Prim2B k)) as M.
  cbn [round_mode] in M. rewrite (Rlt_bool_true _ _ H) in M. destruct M as (Mv & Mf & _).
  rewrite Mf, Fx, Fk. split; [reflexivity|exact Mv].
Qed.

(* ------------------------------------------------------------------ int16 consequences *)

Lemma i16_pack1 t : i16 t <-> exists l, pack1 I16 t = Some l.
Proof.
  rewrite <- i16_bounds. split.
  - intros H. destruct (pack1 I16 t) as [l|] eqn:E; [eexists; reflexivity|].
    apply pack1_None_iff in E. contradiction.
  - intros [l E]. destruct (Z_le_dec (fld_lo I16) t) as [A|A]; [destruct (Z_lt_dec t (fld_hi I16)) as [B|B]|].
    + split; assumption.
    + assert (N : pack1 I16 t = None) by (apply pack1_None_iff; lia). congruence.
    + assert (N : pack1 I16 t = None) by (apply pack1_None_iff; lia). congruence.
Qed.

Lemma not_i16_pack1 t : (32768 <= t \/ t <= -32769)%Z -> pack1 I16 t = None.
Proof. intros H. apply pack1_None_iff. rewrite i16_bounds. unfold i16. lia. Qed.

Section ScaledInt16.
  (* int(x * k) where k is the double constant of integer value K; v is the exact real product *)
  Variable k : pfloat.
  Variable K : Z.
  Hypothesis k_ok : fin k /\ val k = IZR K.
  Let enc (x : pfloat) : option Z := float_trunc (x * k)%float.
  Let v (x : pfloat) : R := val x * IZR K.

  Lemma enc_resolution_wide x : fin x -> IZR (- 2 ^ 53) <= v x <= IZR (2 ^ 53) ->
    exists t, enc x = Some t /\ Rabs (IZR t - v x) < 1 /\ (Zfloor (v x) <= t <= Zceil (v x))%Z.
  Proof. intros Fx Hv. destruct k_ok as [Fk Vk]. exact (trunc_mul_resolution x k K Fx Fk Vk Hv). Qed.

  Lemma enc_resolution x : fin x -> Rabs (v x) <= 32768 ->
    exists t, enc x = Some t /\ Rabs (IZR t - v x) < 1.
  Proof.
    intros Fx Hv.
    assert (A : -32768 <= v x <= 32768) by (unfold Rabs in Hv; destruct (Rcase_abs (v x)); lra).
    destruct (enc_resolution_wide x Fx) as (t & E & R & _).
    - split; [apply Rle_trans with (-32768)|apply Rle_trans with 32768]; try tauto;
        apply IZR_le; vm_compute; discriminate.
    - exists t. split; assumption.
  Qed.

  (* exact product anywhere in the closed int16 span: conversion and packing succeed *)
  Lemma enc_in_range x : fin x -> -32768 <= v x <= 32767 ->
    exists t, enc x = Some t /\ i16 t /\ Rabs (IZR t - v x) < 1.
  Proof.
    intros Fx [Hlo Hhi]. destruct (enc_resolution_wide x Fx) as (t & E & R & T1 & T2).
    - split; [apply Rle_trans with (-32768)|apply Rle_trans with 32767]; try assumption;
        apply IZR_le; vm_compute; discriminate.
    - exists t. split; [exact E|]. split; [|exact R].
      assert (F : (-32768 <= Zfloor (v x))%Z) by (rewrite <- (Zfloor_IZR (-32768)); apply Zfloor_le, Hlo).
      assert (C : (Zceil (v x) <= 32767)%Z) by (rewrite <- (Zceil_IZR 32767); apply Zceil_le, Hhi).
      unfold i16. lia.
  Qed.

  Lemma enc_overflow_high x : fin x -> 32768 <= v x ->
    enc x = None \/ exists t, enc x = Some t /\ (32768 <= t)%Z.
  Proof.
    intros Fx Hv. destruct k_ok as [Fk Vk].
    apply (trunc_mul_ge x k K 32768 Fx Fk Vk); [lia|exact Hv].
  Qed.

  Lemma enc_overflow_low x : fin x -> v x <= -32769 ->
    enc x = None \/ exists t, enc x = Some t /\ (t <= -32769)%Z.
  Proof.
    intros Fx Hv. destruct k_ok as [Fk Vk].
    apply (trunc_mul_le x k K (-32769) Fx Fk Vk); [lia|exact Hv].
  Qed.

  (* whatever integer comes out beyond the span cannot be packed as '<h': an exception, not a wrap *)
  Lemma enc_overflow_no_wrap x : fin x -> (32768 <= v x \/ v x <= -32769) ->
    forall t, enc x = Some t -> pack1 I16 t = None /\ ~ i16 t.
  Proof.
    intros Fx Hv t E.
    assert (B : (32768 <= t \/ t <= -32769)%Z).
    { destruct Hv as [Hv|Hv].
      - destruct (enc_overflow_high x Fx Hv) as [N|(t' & E' & B)]; [congruence|]. left. congruence.
      - destruct (enc_overflow_low x Fx Hv) as [N|(t' & E' & B)]; [congruence|]. right. congruence. }
    split; [apply not_i16_pack1, B|unfold i16; lia].
  Qed.

  Lemma enc_not_finite x : is_finite (Prim2B x) = false -> enc x = None.
  Proof. apply trunc_mul_not_finite. Qed.
End ScaledInt16.

(* ------------------------------------------------------------------ (2)(3) _encode_spatial = int(x * 1000) *)

Lemma enc_spatial_resolution x : fin x -> Rabs (val x * 1000) <= 32768 ->
  exists t, enc_spatial x = Some t /\ Rabs (IZR t - val x * 1000) < 1.
Proof. exact (enc_resolution 1000%float 1000 k1000 x). Qed.

Lemma enc_spatial_resolution_wide x : fin x -> IZR (- 2 ^ 53) <= val x * 1000 <= IZR (2 ^ 53) ->
  exists t, enc_spatial x = Some t /\ Rabs (IZR t - val x * 1000) < 1 /\
            (Zfloor (val x * 1000) <= t <= Zceil (val x * 1000))%Z.
Proof. exact (enc_resolution_wide 1000%float 1000 k1000 x). Qed.

Lemma enc_spatial_in_range x : fin x -> -32768 <= val x * 1000 <= 32767 ->
  exists t, enc_spatial x = Some t /\ i16 t /\ Rabs (IZR t - val x * 1000) < 1.
Proof. exact (enc_in_range 1000%float 1000 k1000 x). Qed.

Lemma enc_spatial_overflow_high x : fin x -> 32768 <= val x * 1000 ->
  enc_spatial x = None \/ exists t, enc_spatial x = Some t /\ (32768 <= t)%Z.
Proof. exact (enc_overflow_high 1000%float 1000 k1000 x). Qed.

Lemma enc_spatial_overflow_low x : fin x -> val x * 1000 <= -32769 ->
  enc_spatial x = None \/ exists t, enc_spatial x = Some t /\ (t <= -32769)%Z.
Proof. exact (enc_overflow_low 1000%float 1000 k1000 x). Qed.

Lemma enc_spatial_overflow_no_wrap x : fin x -> (32768 <= val x * 1000 \/ val x * 1000 <= -32769) ->
  forall t, enc_spatial x = Some t -> pack1 I16 t = None /\ ~ i16 t.
Proof. exact (enc_overflow_no_wrap 1000%float 1000 k1000 x). Qed.

Lemma enc_spatial_not_finite x : is_finite (Prim2B x) = false -> enc_spatial x = None.
Proof. exact (enc_not_finite 1000%float x). Qed.

(* the segment duration uses the same expression int(d * 1000), packed as '<H' *)
Lemma enc_duration_resolution d : fin d -> IZR (- 2 ^ 53) <= val d * 1000 <= IZR (2 ^ 53) ->
  exists t, enc_duration d = Some t /\ Rabs (IZR t - val d * 1000) < 1 /\
            (Zfloor (val d * 1000) <= t <= Zceil (val d * 1000))%Z.
Proof. exact (enc_resolution_wide 1000%float 1000 k1000 d). Qed.

(* ------------------------------------------------------------------ (4) _encode_yaw = int(math.degrees(a) * 10)
   stated relative to the double d = a * rad_to_deg that math.degrees returns *)

Definition degrees (a : pfloat) : pfloat := (a * rad_to_deg)%float.

Lemma enc_yaw_degrees a : enc_yaw a = float_trunc (degrees a * 10)%float.
Proof. reflexivity. Qed.

Lemma enc_yaw_resolution a : fin (degrees a) -> Rabs (val (degrees a) * 10) <= 32768 ->
  exists t, enc_yaw a = Some t /\ Rabs (IZR t - val (degrees a) * 10) < 1.
Proof. exact (enc_resolution 10%float 10 k10 (degrees a)). Qed.

Lemma enc_yaw_in_range a : fin (degrees a) -> -32768 <= val (degrees a) * 10 <= 32767 ->
  exists t, enc_yaw a = Some t /\ i16 t /\ Rabs (IZR t - val (degrees a) * 10) < 1.
Proof. exact (enc_in_range 10%float 10 k10 (degrees a)). Qed.

Lemma enc_yaw_overflow_high a : fin (degrees a) -> 32768 <= val (degrees a) * 10 ->
  enc_yaw a = None \/ exists t, enc_yaw a = Some t /\ (32768 <= t)%Z.
Proof. exact (enc_overflow_high 10%float 10 k10 (degrees a)). Qed.

Lemma enc_yaw_overflow_low a : fin (degrees a) -> val (degrees a) * 10 <= -32769 ->
  enc_yaw a = None \/ exists t, enc_yaw a = Some t /\ (t <= -32769)%Z.
Proof. exact (enc_overflow_low 10%float 10 k10 (degrees a)). Qed.

Lemma enc_yaw_overflow_no_wrap a : fin (degrees a) ->
  (32768 <= val (degrees a) * 10 \/ val (degrees a) * 10 <= -32769) ->
  forall t, enc_yaw a = Some t -> pack1 I16 t = None /\ ~ i16 t.
Proof. exact (enc_overflow_no_wrap 10%float 10 k10 (degrees a)). Qed.

Lemma enc_yaw_not_finite a : is_finite (Prim2B (degrees a)) = false -> enc_yaw a = None.
Proof. exact (enc_not_finite 10%float (degrees a)). Qed.

(* what d is: ONE binary64 rounding of the exact product of a with the double constant 180/pi
   (8063664102031864 * 2^-47); its distance to the mathematical a*180/pi is therefore a relative
   2^-53 for the rounding plus the relative error of the constant itself — not bounded here. *)
Lemma rad_to_deg_value : fin rad_to_deg /\ val rad_to_deg = F2R (Float radix2 8063664102031864 (-47)).
Proof.
  split.
  - unfold fin. rewrite is_finite_Prim2B_SF. vm_compute. reflexivity.
  - unfold val, Prim2B. rewrite B2R_SF2B.
    change (Prim2SF rad_to_deg) with (S754_finite false 8063664102031864 (-47)). reflexivity.
Qed.

Lemma degrees_value a : fin a ->
  Rabs (rnd64 (val a * val rad_to_deg)) < bpow radix2 emax ->
  fin (degrees a) /\ val (degrees a) = rnd64 (val a * val rad_to_deg).
Proof. intros Fa. apply mul_value; [exact Fa|apply rad_to_deg_value]. Qed.

(* ------------------------------------------------------------------ CompressedStart.pack end to end *)

Lemma pack_start_in_range x y z yaw :
  fin x -> fin y -> fin z -> fin (degrees yaw) ->
  -32768 <= val x * 1000 <= 32767 -> -32768 <= val y * 1000 <= 32767 ->
  -32768 <= val z * 1000 <= 32767 -> -32768 <= val (degrees yaw) * 10 <= 32767 ->
  exists ex ey ez ew l,
    pack_start x y z yaw = Some l /\ length l = 8%nat /\ bytes l /\
    unpack [I16; I16; I16; I16] l = Some [ex; ey; ez; ew] /\
    Rabs (IZR ex - val x * 1000) < 1 /\ Rabs (IZR ey - val y * 1000) < 1 /\
    Rabs (IZR ez - val z * 1000) < 1 /\ Rabs (IZR ew - val (degrees yaw) * 10) < 1.
Proof.
  intros Fx Fy Fz Fw Hx Hy Hz Hw.
  destruct (enc_spatial_in_range x Fx Hx) as (ex & Ex & Ix & Rx).
  destruct (enc_spatial_in_range y Fy Hy) as (ey & Ey & Iy & Ry).
  destruct (enc_spatial_in_range z Fz Hz) as (ez & Ez & Iz & Rz).
  destruct (enc_yaw_in_range yaw Fw Hw) as (ew & Ew & Iw & Rw).
  destruct (proj2 (pack_start_ints_some_iff ex ey ez ew) (conj Ix (conj Iy (conj Iz Iw)))) as [l Hl].
  destruct (pack_start_ints_roundtrip _ _ _ _ _ Hl) as (U & L & B).
  exists ex, ey, ez, ew, l. unfold pack_start. rewrite Ex, Ey, Ez, Ew.
  repeat split; assumption.
Qed.

Definition beyond_i16 (v : R) : Prop := 32768 <= v \/ v <= -32769.

(* any one finite coordinate beyond the span (or any non-finite one) makes pack raise: no bytes are
   produced, in particular no wrapped-around coordinate *)
Lemma pack_start_overflow x y z yaw :
  (fin x /\ beyond_i16 (val x * 1000)) \/ (fin y /\ beyond_i16 (val y * 1000)) \/
  (fin z /\ beyond_i16 (val z * 1000)) \/ (fin (degrees yaw) /\ beyond_i16 (val (degrees yaw) * 10)) \/
  is_finite (Prim2B x) = false \/ is_finite (Prim2B y) = false \/ is_finite (Prim2B z) = false \/
  is_finite (Prim2B (degrees yaw)) = false ->
  pack_start x y z yaw = None.
Proof.
  intros H. unfold pack_start.
  destruct (enc_spatial x) as [ex|] eqn:Ex; [|reflexivity].
  destruct (enc_spatial y) as [ey|] eqn:Ey; [|reflexivity].
  destruct (enc_spatial z) as [ez|] eqn:Ez; [|reflexivity].
  destruct (enc_yaw yaw) as [ew|] eqn:Ew; [|reflexivity].
  destruct (pack_start_ints ex ey ez ew) as [l|] eqn:P; [|reflexivity]. exfalso.
  destruct (proj1 (pack_start_ints_some_iff ex ey ez ew) (ex_intro _ l P)) as (Ix & Iy & Iz & Iw).
  destruct H as [[F B]|[[F B]|[[F B]|[[F B]|[F|[F|[F|F]]]]]]].
  - exact (proj2 (enc_spatial_overflow_no_wrap x F B ex Ex) Ix).
  - exact (proj2 (enc_spatial_overflow_no_wrap y F B ey Ey) Iy).
  - exact (proj2 (enc_spatial_overflow_no_wrap z F B ez Ez) Iz).
  - exact (proj2 (enc_yaw_overflow_no_wrap yaw F B ew Ew) Iw).
  - rewrite (enc_spatial_not_finite x F) in Ex. discriminate.
  - rewrite (enc_spatial_not_finite y F) in Ey. discriminate.
  - rewrite (enc_spatial_not_finite z F) in Ez. discriminate.
  - rewrite (enc_yaw_not_finite yaw F) in Ew. discriminate.
Qed.
