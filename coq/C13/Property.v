(* C13/Property.v — property C13 (numeric wire codecs), theorems only.
   Each is closed by `exact <lemma of Proofs.v>` and followed by Print Assumptions. *)
From CF Require Import Common.Bytes C13.Model C13.Proofs.
Open Scope Z_scope.

(* Half-precision decoding: for every 16-bit pattern (given unsigned, or signed as struct code 'h'
   delivers it in the lighthouse angle stream) the function returns a float (never an int) whose
   binary32 pattern denotes exactly the IEEE-754 binary16 value of the pattern: same finite value,
   same sign of zero, same infinity, NaN for NaN. *)
Theorem C13_fp16_all_patterns : forall h, -32768 <= h < 65536 ->
  exists b, fp16_to_float h = RF32 b /\ 0 <= b < 2 ^ 32 /\ ieee_decode 8 23 b = ieee_decode 5 10 h.
Proof. exact fp16_correct. Qed.
Print Assumptions C13_fp16_all_patterns.

Theorem C13_fp16_signed_field : forall h, -32768 <= h < 0 -> fp16_to_float h = fp16_to_float (h + 65536).
Proof. exact fp16_signed_unsigned. Qed.
Print Assumptions C13_fp16_signed_field.

(* LED ring: each 8-bit channel maps monotonically (in level and in intensity) onto its RGB565 field *)
Theorem C13_led_monotone_level : forall c c' i, 0 <= c -> c <= c' -> c' <= 255 -> 0 <= i <= 100 ->
  led_r5 c i <= led_r5 c' i /\ led_g6 c i <= led_g6 c' i /\ led_b5 c i <= led_b5 c' i.
Proof. exact led_mono_level. Qed.
Print Assumptions C13_led_monotone_level.

Theorem C13_led_monotone_intensity : forall c i i', 0 <= c <= 255 -> 0 <= i -> i <= i' -> i' <= 100 ->
  led_r5 c i <= led_r5 c i' /\ led_g6 c i <= led_g6 c i' /\ led_b5 c i <= led_b5 c i'.
Proof. exact led_mono_intensity. Qed.
Print Assumptions C13_led_monotone_intensity.

(* the three fields do not bleed into each other and the two bytes written are the big-endian
   16-bit RGB565 word *)
Theorem C13_led_rgb565_fields : forall r g b i,
  0 <= r <= 255 -> 0 <= g <= 255 -> 0 <= b <= 255 -> 0 <= i <= 100 ->
  let t := led_565 r g b i in
  f565_r t = led_r5 r i /\ f565_g t = led_g6 g i /\ f565_b t = led_b5 b i /\ 0 <= t < 65536 /\
  led_bytes r g b i = [Z.shiftr t 8; Z.land t 255] /\
  0 <= Z.shiftr t 8 < 256 /\ Z.shiftr t 8 * 256 + Z.land t 255 = t.
Proof. exact led_565_fields. Qed.
Print Assumptions C13_led_rgb565_fields.

Theorem C13_led_black : forall i, led_565 0 0 0 i = 0 /\ led_bytes 0 0 0 i = [0; 0].
Proof. exact led_black. Qed.
Print Assumptions C13_led_black.

Theorem C13_led_white_full_scale : led_565 255 255 255 100 = 65535 /\ led_bytes 255 255 255 100 = [255; 255].
Proof. exact led_white. Qed.
Print Assumptions C13_led_white_full_scale.
