(* C13/Property.v — property C13 (numeric wire codecs), theorems only.
   Each is closed by `exact <lemma of Proofs.v>` and followed by Print Assumptions. *)
From CF Require Import Common.Bytes C13.Model C13.Proofs.
Open Scope Z_scope.

(* Half-precision decoding: for every 16-bit pattern (given unsigned, or signed as struct code 'h'
   delivers it in the lighthouse angle stream) the function returns a float (never an int) whose
   binary32 pattern denotes exactly the IEEE-754 binary16 value of the pattern: same finite value,
   same sign of zero, same infinity, NaN for NaN. *)
Theorem C13_fp16_all_patterns : forall h, -32768 <= h < 65536 ->
  exists b, fp16_to_float h = RF32 b /\ 0 <= b < 2 ^ 32 /\ ieee_decode 8 23 b = ieee_decode 5 10 h.
Proof. exact fp16_correct. Qed.
Print Assumptions C13_fp16_all_patterns.

Theorem C13_fp16_signed_field : forall h, -32768 <= h < 0 -> fp16_to_float h = fp16_to_float (h + 65536).
Proof. exact fp16_signed_unsigned. Qed.
Print Assumptions C13_fp16_signed_field.

(* LED ring: each 8-bit channel maps monotonically (in level and in intensity) onto its RGB565 field *)
Theorem C13_led_monotone_level : forall c c' i, 0 <= c -> c <= c' -> c' <= 255 -> 0 <= i <= 100 ->
  led_r5 c i <= led_r5 c' i /\ led_g6 c i <= led_g6 c' i /\ led_b5 c i <= led_b5 c' i.
Proof. exact led_mono_level. Qed.
Print Assumptions C13_led_monotone_level.

Theorem C13_led_monotone_intensity : forall c i i', 0 <= c <= 255 -> 0 <= i -> i <= i' -> i' <= 100 ->
  led_r5 c i <= led_r5 c i' /\ led_g6 c i <= led_g6 c i' /\ led_b5 c i <= led_b5 c i'.
Proof. exact led_mono_intensity. Qed.
Print Assumptions C13_led_monotone_intensity.

(* the three fields do not bleed into each other and the two bytes written are the big-endian
   16-bit RGB565 word *)
Theorem C13_led_rgb565_fields : forall r g b i,
  0 <= r <= 255 -> 0 <= g <= 255 -> 0 <= b <= 255 -> 0 <= i <= 100 ->
  let t := led_565 r g b i in
  f565_r t = led_r5 r i /\ f565_g t = led_g6 g i /\ f565_b t = led_b5 b i /\ 0 <= t < 65536 /\
  led_bytes r g b i = [Z.shiftr t 8; Z.land t 255] /\
  0 <= Z.shiftr t 8 < 256 /\ Z.shiftr t 8 * 256 + Z.land t 255 = t.
Proof. exact led_565_fields. Qed.
Print Assumptions C13_led_rgb565_fields.

Theorem C13_led_black : forall i, led_565 0 0 0 i = 0 /\ led_bytes 0 0 0 i = [0; 0].
Proof. exact led_black. Qed.
Print Assumptions C13_led_black.

Theorem C13_led_white_full_scale : led_565 255 255 255 100 = 65535 /\ led_bytes 255 255 255 100 = [255; 255].
Proof. exact led_white. Qed.
Print Assumptions C13_led_white_full_scale.

(* ---------------------------------------------------------------- range reports, angle stream *)
From CF Require Import Common.Struct C13.Stream C13.StreamProofs.

(* a range report carrying any number of (anchor id, float32 distance) pairs decodes to exactly those
   pairs in order (the Python dict is built by assigning them in this order) *)
Theorem C13_range_decode : forall l,
  Forall range_item_ok l -> decode_range (encode_range l) = Some l.
Proof. exact decode_range_encode. Qed.
Print Assumptions C13_range_decode.

Theorem C13_range_dict_lookup : forall k v l,
  NoDup (map fst l) -> In (k, v) l -> dict_get k l = Some v.
Proof. exact dict_get_distinct. Qed.
Print Assumptions C13_range_dict_lookup.

Theorem C13_range_bad_length_dropped : forall data,
  Z.of_nat (length data) mod 5 <> 0 -> decode_range data = None.
Proof. exact decode_range_bad_length. Qed.
Print Assumptions C13_range_bad_length_dropped.

(* lighthouse angle stream: base station, the two base angles (float32 patterns, untouched) and the six
   per-sensor offsets, each decoded to the float whose value is exactly the binary16 value the device
   sent (so +-0 offsets stay +-0.0 and the sensor angle equals the base angle) *)
Theorem C13_lh_angle_decode : forall bs bx x1 x2 x3 by_ y1 y2 y3,
  byte bs -> 0 <= bx < 2 ^ 32 -> 0 <= by_ < 2 ^ 32 ->
  half_ok x1 -> half_ok x2 -> half_ok x3 -> half_ok y1 -> half_ok y2 -> half_ok y3 ->
  exists a1 a2 a3 b1 b2 b3,
    decode_lh_angle (encode_lh_angle bs bx [x1; x2; x3] by_ [y1; y2; y3]) =
      Some {| lh_bs := bs;
              lh_x := [Base bx; BaseMinus bx (RF32 a1); BaseMinus bx (RF32 a2); BaseMinus bx (RF32 a3)];
              lh_y := [Base by_; BaseMinus by_ (RF32 b1); BaseMinus by_ (RF32 b2); BaseMinus by_ (RF32 b3)] |}
    /\ ieee_decode 8 23 a1 = ieee_decode 5 10 x1 /\ ieee_decode 8 23 a2 = ieee_decode 5 10 x2
    /\ ieee_decode 8 23 a3 = ieee_decode 5 10 x3 /\ ieee_decode 8 23 b1 = ieee_decode 5 10 y1
    /\ ieee_decode 8 23 b2 = ieee_decode 5 10 y2 /\ ieee_decode 8 23 b3 = ieee_decode 5 10 y3.
Proof. exact decode_lh_encode. Qed.
Print Assumptions C13_lh_angle_decode.

Theorem C13_lh_angle_wrong_length_raises : forall data,
  length data <> 21%nat -> decode_lh_angle data = None.
Proof. exact decode_lh_wrong_length. Qed.
Print Assumptions C13_lh_angle_wrong_length_raises.

(* ---------------------------------------------------------------- compressed trajectories *)
From Coq Require Import QArith Qround Qabs.
From CF Require Import C13.Traj C13.TrajProofs.
Open Scope Z_scope.

(* start element: packs iff all four encoded integers fit int16 (otherwise struct.error: raises, never
   wraps), and the 8 bytes read back as exactly those integers *)
Theorem C13_traj_start_accept_iff : forall a b c d,
  (exists l, pack_start_ints a b c d = Some l) <-> (i16 a /\ i16 b /\ i16 c /\ i16 d).
Proof. exact pack_start_ints_some_iff. Qed.
Print Assumptions C13_traj_start_accept_iff.

Theorem C13_traj_start_layout : forall a b c d l,
  pack_start_ints a b c d = Some l ->
  unpack [I16; I16; I16; I16] l = Some [a; b; c; d] /\ length l = 8%nat /\ bytes l.
Proof. exact pack_start_ints_roundtrip. Qed.
Print Assumptions C13_traj_start_layout.

(* segment: the firmware-side reader recovers duration and the four coefficient lists and consumes
   exactly the segment's bytes, whatever follows *)
Theorem C13_traj_segment_layout : forall dur ex ey ez ew l rest,
  pack_segment_ints dur ex ey ez ew = Some l ->
  fw_read_segment (l ++ rest) = (dur, ex, ey, ez, ew, rest).
Proof. exact fw_read_pack_segment. Qed.
Print Assumptions C13_traj_segment_layout.

Theorem C13_traj_segment_accept_iff : forall dur ex ey ez ew,
  (exists l, pack_segment_ints dur ex ey ez ew = Some l) <->
  ((exists a b c d, seg_type (length ex) = Some a /\ seg_type (length ey) = Some b /\
                    seg_type (length ez) = Some c /\ seg_type (length ew) = Some d) /\
   0 <= dur < 65536 /\ Forall i16 ex /\ Forall i16 ey /\ Forall i16 ez /\ Forall i16 ew).
Proof. exact pack_segment_ints_some_iff. Qed.
Print Assumptions C13_traj_segment_accept_iff.

(* resolution: int(fl(v)) for any rounding fl that is monotone and fixes the integers -32769..32768
   (IEEE round-to-nearest on binary64 is such an fl) is less than one unit from the exact value v
   (v = 1000*x in millimetres, v = 10*degrees in tenths of a degree) ... *)
Theorem C13_traj_resolution : forall fl : Q -> Q,
  (forall a b, (a <= b)%Q -> (fl a <= fl b)%Q) ->
  (forall n : Z, -32769 <= n <= 32768 -> (fl (inject_Z n) == inject_Z n)%Q) ->
  forall v, (-32769 <= v <= 32768)%Q -> (Qabs (inject_Z (Qtrunc (fl v)) - v) < 1)%Q.
Proof. exact resolution_lt_one. Qed.
Print Assumptions C13_traj_resolution.

(* ... and beyond the int16 span the integer is beyond it too, so packing raises instead of wrapping *)
Theorem C13_traj_overflow_raises : forall fl : Q -> Q,
  (forall a b, (a <= b)%Q -> (fl a <= fl b)%Q) ->
  (forall n : Z, -32769 <= n <= 32768 -> (fl (inject_Z n) == inject_Z n)%Q) ->
  forall v, ((32768 <= v)%Q -> 32768 <= Qtrunc (fl v)) /\ ((v <= -32769)%Q -> Qtrunc (fl v) <= -32769).
Proof. intros fl H1 H2 v. split; [exact (overflow_high fl H1 H2 v)|exact (overflow_low fl H1 H2 v)]. Qed.
Print Assumptions C13_traj_overflow_raises.
