(* C13/Traj.v — compressed-trajectory encodings (cflib/crazyflie/mem/trajectory_memory.py):
   _encode_spatial = int(coordinate * 1000), _encode_yaw = int(math.degrees(angle) * 10),
   CompressedStart.pack ('<hhhh'), CompressedSegment.pack ('<BH' then '<h' per element).
   The float arithmetic is executed with Coq's primitive binary64 floats (the same IEEE-754 operations
   CPython performs); int() of a float is truncation toward zero, raising on inf/nan. *)
From Coq Require Import Floats.PrimFloat Floats.SpecFloat Floats.FloatOps.
From CF Require Export Common.Struct.
Open Scope Z_scope.

(* int(f): None where Python raises (OverflowError for inf, ValueError for nan) *)
Definition float_trunc (f : float) : option Z :=
  match Prim2SF f with
  | S754_zero _ => Some 0
  | S754_finite s m e =>
      let v := if 0 <=? e then Zpos m * 2 ^ e else Zpos m / 2 ^ (- e) in
      Some (if s then - v else v)
  | S754_infinity _ => None
  | S754_nan => None
  end.

(* math.degrees(x) = x * (180.0 / pi), the constant being the double 0x1.ca5dc1a63c1f8p+5 *)
Definition rad_to_deg : float := 0x1.ca5dc1a63c1f8p+5%float.

Definition enc_spatial (x : float) : option Z := float_trunc (x * 1000)%float.
Definition enc_yaw (a : float) : option Z := float_trunc ((a * rad_to_deg) * 10)%float.
Definition enc_duration (d : float) : option Z := float_trunc (d * 1000)%float.

Definition omap2 {A B C} (f : A -> B -> option C) (a : option A) (b : option B) : option C :=
  match a, b with Some x, Some y => f x y | _, _ => None end.

Fixpoint oall {A} (l : list (option A)) : option (list A) :=
  match l with
  | [] => Some []
  | Some x :: l' => match oall l' with Some r => Some (x :: r) | None => None end
  | None :: _ => None
  end.

(* integer layer: what is packed once the four/all values have been converted to int *)
Definition pack_start_ints (ex ey ez eyaw : Z) : option (list Z) := pack [I16; I16; I16; I16] [ex; ey; ez; eyaw].

Definition pack_start (x y z yaw : float) : option (list Z) :=
  match enc_spatial x, enc_spatial y, enc_spatial z, enc_yaw yaw with
  | Some ex, Some ey, Some ez, Some eyaw => pack_start_ints ex ey ez eyaw
  | _, _, _, _ => None
  end.

Definition seg_type (n : nat) : option Z :=
  match n with 0%nat => Some 0 | 1%nat => Some 1 | 3%nat => Some 2 | 7%nat => Some 3 | _ => None end.

Definition pack_elem_ints (l : list Z) : option (list Z) := pack (map (fun _ => I16) l) l.

Definition pack_segment_ints (dur_ms : Z) (ex ey ez eyaw : list Z) : option (list Z) :=
  match seg_type (length ex), seg_type (length ey), seg_type (length ez), seg_type (length eyaw) with
  | Some tx, Some ty, Some tz, Some tw =>
      let types := Z.lor (Z.lor (Z.lor tx (Z.shiftl ty 2)) (Z.shiftl tz 4)) (Z.shiftl tw 6) in
      match pack [U8; U16] [types; dur_ms], pack_elem_ints ex, pack_elem_ints ey, pack_elem_ints ez,
            pack_elem_ints eyaw with
      | Some h, Some a, Some b, Some c, Some d => Some (h ++ a ++ b ++ c ++ d)
      | _, _, _, _, _ => None
      end
  | _, _, _, _ => None     (* constructor's _validate raises *)
  end.

Definition pack_segment (dur : float) (x y z yaw : list float) : option (list Z) :=
  match enc_duration dur, oall (map enc_spatial x), oall (map enc_spatial y), oall (map enc_spatial z),
        oall (map enc_yaw yaw) with
  | Some d, Some ex, Some ey, Some ez, Some ew => pack_segment_ints d ex ey ez ew
  | _, _, _, _, _ => None
  end.

(* ---- firmware-side reader of a compressed segment (piecewise_traj_compressed layout) ---- *)
Definition type_len (t : Z) : nat :=
  if t =? 0 then 0%nat else if t =? 1 then 1%nat else if t =? 2 then 3%nat else 7%nat.

Fixpoint read_i16s (n : nat) (l : list Z) : list Z * list Z :=
  match n with
  | O => ([], l)
  | S k => let '(r, rest) := read_i16s k (skipn 2 l) in (to_signed 2 (le_val (firstn 2 l)) :: r, rest)
  end.

Definition fw_read_segment (l : list Z) : Z * list Z * list Z * list Z * list Z * list Z :=
  let types := nth 0 l 0 in
  let dur := le_val (firstn 2 (skipn 1 l)) in
  let '(x, r1) := read_i16s (type_len (Z.land types 3)) (skipn 3 l) in
  let '(y, r2) := read_i16s (type_len (Z.land (Z.shiftr types 2) 3)) r1 in
  let '(z, r3) := read_i16s (type_len (Z.land (Z.shiftr types 4) 3)) r2 in
  let '(w, r4) := read_i16s (type_len (Z.land (Z.shiftr types 6) 3)) r3 in
  (dur, x, y, z, w, r4).
