(* C13/QuatProperty.v — property C13, quaternion clause: "Compressing and decompressing any non-zero
   quaternion yields the same rotation with every component within two quantisation steps (2/511 of
   1/sqrt2) and the result always fits 32 bits".  Theorems only; each is closed by `exact <lemma>` and
   followed by Print Assumptions.

   Reading guide.  m = [a; b; c; d] are the four doubles of the Python argument [x, y, z, w] scaled by a
   common power of two (so every finite double quaternion is some m and some scale = 2^k > 0).
   compress_quaternion m : option Z is QuatModel.v's exact-arithmetic model of the Python function
   (None = the ValueError on the zero quaternion); unpack / dq are decompress_quaternion's bit unpacking
   and its real-valued result (q[i] = +-mag/511/sqrt 2, q[i_largest] = sqrt (1 - sum of squares));
   nrmR q i = q_i / |q|;  qstep = (1/511) * (1/sqrt 2).
   The float64 evaluation inside numpy is NOT part of these statements (validated numerically by the
   correspondence step). *)
From Coq Require Import Reals.
From CF Require Import Common.Bytes C13.QuatModel C13.QuatProofs C13.QuatProofsR.

(* ---- integer / bit level (closed under the global context) *)

(* compress raises exactly on the zero quaternion (outside the property: "non-zero") *)
Theorem C13_quat_defined_iff_nonzero : forall a b c d : Z,
  compress_quaternion [a; b; c; d] = None <-> (a = 0 /\ b = 0 /\ c = 0 /\ d = 0)%Z.
Proof. exact compress_none. Qed.
Print Assumptions C13_quat_defined_iff_nonzero.

(* the dropped index is the FIRST index of maximal absolute value (ties resolve to the first maximum) *)
Theorem C13_quat_first_maximum : forall a b c d : Z, let m := [a; b; c; d] in
  (0 <= i_largest m <= 3)%Z /\
  forall j, (0 <= j <= 3)%Z ->
    (Z.abs (qnth m j) <= Z.abs (qnth m (i_largest m)))%Z /\
    ((j < i_largest m)%Z -> (Z.abs (qnth m j) < Z.abs (qnth m (i_largest m)))%Z).
Proof. exact i_largest_spec. Qed.
Print Assumptions C13_quat_first_maximum.

(* the result always fits 32 bits; decompress's bit unpacking recovers the index and exactly the three
   (negbit, mag) fields that compress computed; every magnitude fits its 9 bits *)
Theorem C13_quat_fits_32 : forall (a b c d comp : Z), let m := [a; b; c; d] in
  compress_quaternion m = Some comp ->
  (0 <= comp < 2 ^ 32)%Z /\ unpack comp = (i_largest m, qfields m) /\
  forall i, In i (kept (i_largest m)) ->
    (0 <= fst (qfield m i) <= 1)%Z /\ (0 <= snd (qfield m i) <= 511)%Z.
Proof. exact compress_fields. Qed.
Print Assumptions C13_quat_fits_32.

(* unpack (pack ...) is the identity on ANY index and bit fields in range *)
Theorem C13_quat_unpack_pack : forall il f1 f2 f3, (0 <= il <= 3)%Z ->
  field_ok f1 -> field_ok f2 -> field_ok f3 ->
  (0 <= pack il [f1; f2; f3] < 2 ^ 32)%Z /\ unpack (pack il [f1; f2; f3]) = (il, [f1; f2; f3]).
Proof. exact unpack_pack. Qed.
Print Assumptions C13_quat_unpack_pack.

(* ---- real-number layer (stdlib real axioms only) *)
Open Scope R_scope.

(* link: the integer magnitude of the model is the real rounding  mag = floor (511*sqrt2*|n_i| + 1/2) *)
Theorem C13_quat_mag_rounding : forall (a b c d i : Z), let m := [a; b; c; d] in
  sumsq m <> 0%Z ->
  IZR (qmag (sumsq m) (qnth m i)) <= 511 * sqrt 2 * Rabs (nrm m i) + / 2
                                   < IZR (qmag (sumsq m) (qnth m i)) + 1.
Proof. exact quat_mag_rounding. Qed.
Print Assumptions C13_quat_mag_rounding.

(* q_i = scale * m_i normalises to nrm m i, whatever the positive scale *)
Theorem C13_quat_scale_invariant : forall (a b c d : Z) (scale : R) (i : Z), let m := [a; b; c; d] in
  sumsq m <> 0%Z -> 0 < scale -> nrmR (fun j => scale * IZR (qnth m j)) i = nrm m i.
Proof. exact nrm_scale. Qed.
Print Assumptions C13_quat_scale_invariant.

(* the three packed components come back within HALF a step of s * n_i *)
Theorem C13_quat_small_components : forall (a b c d comp i : Z), let m := [a; b; c; d] in
  compress_quaternion m = Some comp -> (0 <= i <= 3)%Z -> i <> i_largest m ->
  Rabs (dq comp i - qsign m * nrm m i) <= qstep / 2.
Proof. exact quat_small. Qed.
Print Assumptions C13_quat_small_components.

(* the reconstructed largest component: the radicand is positive (decompress never takes the square
   root of a negative number) and the value is within TWO steps of s * n_largest = |n_largest| *)
Theorem C13_quat_largest : forall (a b c d comp : Z), let m := [a; b; c; d] in
  compress_quaternion m = Some comp ->
  0 < 1 - sumsqR (map fval (snd (unpack comp))) /\
  dq comp (i_largest m) = sqrt (1 - sumsqR (map fval (snd (unpack comp)))) /\
  Rabs (dq comp (i_largest m) - qsign m * nrm m (i_largest m)) <= 2 * qstep.
Proof. exact quat_largest. Qed.
Print Assumptions C13_quat_largest.

(* the clause: for every non-zero quaternion q = scale * m the round trip d = decompress (compress q)
   is a unit quaternion with every component within two quantisation steps of +n or of -n (one sign for
   all four components), n = q / |q|: the same rotation *)
Theorem C13_quat_same_rotation : forall (a b c d comp : Z) (scale : R), let m := [a; b; c; d] in
  compress_quaternion m = Some comp -> 0 < scale ->
  let q := fun j => scale * IZR (qnth m j) in
  (exists s, (s = 1 \/ s = -1) /\
     forall i, (0 <= i <= 3)%Z -> Rabs (dq comp i - s * nrmR q i) <= 2 * qstep) /\
  dq comp 0 * dq comp 0 + dq comp 1 * dq comp 1 + dq comp 2 * dq comp 2 + dq comp 3 * dq comp 3 = 1.
Proof. exact quat_same_rotation. Qed.
Print Assumptions C13_quat_same_rotation.

(* the integer the correspondence step compares for the largest component: radicand = dnum / (2*511^2) *)
Theorem C13_quat_radicand_dnum : forall comp : Z,
  1 - sumsqR (map fval (snd (unpack comp))) = IZR (dnum comp) / (2 * 511 * 511).
Proof. exact dq_largest_dnum. Qed.
Print Assumptions C13_quat_radicand_dnum.
