(* C13/Proofs.v — proofs about the numeric codec models.  Finite domains are enumerated completely
   inside the kernel (forallb + vm_compute, lifted with forallb_forall): a proof, not a sample. *)
From CF Require Import Common.Bytes C13.Model.
From Coq Require Import ZifyBool.
Open Scope Z_scope.

Lemma zrange_In a n z : In z (zrange a n) <-> a <= z < a + Z.of_nat n.
Proof.
  revert a; induction n as [|n IH]; intros a; cbn [zrange In].
  - lia.
  - rewrite IH. lia.
Qed.

Lemma forall_zrange (P : Z -> bool) a n :
  forallb P (zrange a n) = true -> forall z, a <= z < a + Z.of_nat n -> P z = true.
Proof. intros H z Hz. rewrite forallb_forall in H. apply H, zrange_In, Hz. Qed.

Lemma fval_eqb_eq a b : fval_eqb a b = true -> a = b.
Proof.
  destruct a, b; simpl; intros H; try discriminate; try reflexivity.
  - apply Z.eqb_eq in H. congruence.
  - apply Z.eqb_eq in H. congruence.
  - apply andb_true_iff in H as [H H3]. apply andb_true_iff in H as [H1 H2].
    apply Z.eqb_eq in H1, H2, H3. congruence.
Qed.

Lemma fp16_all_ok : forallb fp16_ok (zrange (-32768) (Z.to_nat 98304)) = true.
Proof. vm_compute. reflexivity. Qed.

Lemma fp16_correct h :
  -32768 <= h < 65536 ->
  exists b, fp16_to_float h = RF32 b /\ 0 <= b < 2 ^ 32 /\ ieee_decode 8 23 b = ieee_decode 5 10 h.
Proof.
  intros Hh. assert (H : fp16_ok h = true).
  { apply (forall_zrange _ _ _ fp16_all_ok). rewrite Z2Nat.id; lia. }
  unfold fp16_ok in H. destruct (fp16_to_float h) as [z|b]; [discriminate|].
  exists b. split; [reflexivity|].
  apply andb_true_iff in H as [H H3]. apply andb_true_iff in H as [H1 H2].
  split; [lia|]. apply fval_eqb_eq, H3.
Qed.

(* a signed 16-bit field read with struct code 'h' and the same pattern read unsigned decode alike *)
Lemma fp16_signed_unsigned_all :
  forallb (fun h => match fp16_to_float h, fp16_to_float (h + 65536) with
                    | RF32 a, RF32 b => a =? b | _, _ => false end) (zrange (-32768) (Z.to_nat 32768)) = true.
Proof. vm_compute. reflexivity. Qed.

Lemma fp16_signed_unsigned h : -32768 <= h < 0 -> fp16_to_float h = fp16_to_float (h + 65536).
Proof.
  intros Hh. pose proof (forall_zrange _ _ _ fp16_signed_unsigned_all h) as H.
  rewrite Z2Nat.id in H by lia. specialize (H ltac:(lia)). cbv beta in H.
  destruct (fp16_to_float h), (fp16_to_float (h + 65536)); try discriminate.
  apply Z.eqb_eq in H. congruence.
Qed.

(* ---------------------------------------------------------------- LED *)

Lemma mono_adjacent (f : Z -> Z) a b :
  (forall x, a <= x < b -> f x <= f (x + 1)) ->
  forall x y, a <= x -> x <= y -> y <= b -> f x <= f y.
Proof.
  intros Hadj x y Hax Hxy Hyb.
  remember (Z.to_nat (y - x)) as n eqn:En. revert y Hxy Hyb En.
  induction n as [|n IH]; intros y Hxy Hyb En.
  - assert (y = x) by lia. subst. lia.
  - assert (Hy : y = (y - 1) + 1) by lia. rewrite Hy.
    etransitivity; [apply (IH (y - 1)); lia|]. apply Hadj. lia.
Qed.

Definition grid2 (f : Z -> Z -> bool) (a : Z) (n : nat) (b : Z) (m : nat) : bool :=
  forallb (fun x => forallb (f x) (zrange b m)) (zrange a n).

Lemma grid2_spec f a n b m :
  grid2 f a n b m = true ->
  forall x y, a <= x < a + Z.of_nat n -> b <= y < b + Z.of_nat m -> f x y = true.
Proof.
  intros H x y Hx Hy. unfold grid2 in H.
  pose proof (forall_zrange _ _ _ H x Hx) as H1. cbv beta in H1.
  exact (forall_zrange _ _ _ H1 y Hy).
Qed.

(* adjacent-level and adjacent-intensity monotonicity, field bounds: 256 x 101 grid, enumerated *)
Definition led_grid_ok (c i : Z) : bool :=
  ((255 <=? c) || ((led_r5 c i <=? led_r5 (c + 1) i) && (led_g6 c i <=? led_g6 (c + 1) i) && (led_b5 c i <=? led_b5 (c + 1) i)))
  && (led_r5 c i <=? led_r5 c (i + 1)) && (led_g6 c i <=? led_g6 c (i + 1)) && (led_b5 c i <=? led_b5 c (i + 1))
  && (0 <=? led_r5 c i) && (led_r5 c i <=? 31) && (0 <=? led_g6 c i) && (led_g6 c i <=? 63)
  && (0 <=? led_b5 c i) && (led_b5 c i <=? 31).

Lemma led_grid_all : grid2 led_grid_ok 0 (Z.to_nat 256) 0 (Z.to_nat 101) = true.
Proof. vm_compute. reflexivity. Qed.

Lemma led_grid c i : 0 <= c <= 255 -> 0 <= i <= 100 -> led_grid_ok c i = true.
Proof.
  intros Hc Hi. apply (grid2_spec _ _ _ _ _ led_grid_all); rewrite Z2Nat.id; lia.
Qed.

Ltac led_split H :=
  unfold led_grid_ok in H; repeat (apply andb_true_iff in H as [H ?]).

Lemma led_bounds c i : 0 <= c <= 255 -> 0 <= i <= 100 ->
  0 <= led_r5 c i <= 31 /\ 0 <= led_g6 c i <= 63 /\ 0 <= led_b5 c i <= 31.
Proof. intros Hc Hi. pose proof (led_grid c i Hc Hi) as H. led_split H. lia. Qed.

Lemma led_mono_level c c' i : 0 <= c -> c <= c' -> c' <= 255 -> 0 <= i <= 100 ->
  led_r5 c i <= led_r5 c' i /\ led_g6 c i <= led_g6 c' i /\ led_b5 c i <= led_b5 c' i.
Proof.
  intros H0 Hcc H255 Hi.
  (* c = 255 wraps at c+1 = 256 (& 0xFF) so adjacency is used on [0,255) only *)
  repeat split.
  - apply (mono_adjacent (fun x => led_r5 x i) 0 255); try lia.
    intros x Hx. pose proof (led_grid x i ltac:(lia) Hi) as H. led_split H. lia.
  - apply (mono_adjacent (fun x => led_g6 x i) 0 255); try lia.
    intros x Hx. pose proof (led_grid x i ltac:(lia) Hi) as H. led_split H. lia.
  - apply (mono_adjacent (fun x => led_b5 x i) 0 255); try lia.
    intros x Hx. pose proof (led_grid x i ltac:(lia) Hi) as H. led_split H. lia.
Qed.

Lemma led_mono_intensity c i i' : 0 <= c <= 255 -> 0 <= i -> i <= i' -> i' <= 100 ->
  led_r5 c i <= led_r5 c i' /\ led_g6 c i <= led_g6 c i' /\ led_b5 c i <= led_b5 c i'.
Proof.
  intros Hc H0 Hii H100. repeat split.
  - apply (mono_adjacent (fun x => led_r5 c x) 0 100); try lia.
    intros x Hx. pose proof (led_grid c x Hc ltac:(lia)) as H. led_split H. lia.
  - apply (mono_adjacent (fun x => led_g6 c x) 0 100); try lia.
    intros x Hx. pose proof (led_grid c x Hc ltac:(lia)) as H. led_split H. lia.
  - apply (mono_adjacent (fun x => led_b5 c x) 0 100); try lia.
    intros x Hx. pose proof (led_grid c x Hc ltac:(lia)) as H. led_split H. lia.
Qed.

(* packing three in-range fields and extracting them again: 32 x 64 x 32 combinations, enumerated *)
Definition pack565 (a b c : Z) : Z := Z.lor (Z.lor (Z.shiftl a 11) (Z.shiftl b 5)) c.

Definition pack_ok (a b : Z) : bool :=
  forallb (fun c => let t := pack565 a b c in
                    (f565_r t =? a) && (f565_g t =? b) && (f565_b t =? c) && (0 <=? t) && (t <? 65536)
                    && (Z.shiftr t 8 <? 256) && (0 <=? Z.shiftr t 8) && (Z.shiftr t 8 * 256 + Z.land t 255 =? t))
          (zrange 0 (Z.to_nat 32)).

Lemma pack_all : grid2 pack_ok 0 (Z.to_nat 32) 0 (Z.to_nat 64) = true.
Proof. vm_compute. reflexivity. Qed.

Lemma pack565_fields a b c : 0 <= a <= 31 -> 0 <= b <= 63 -> 0 <= c <= 31 ->
  let t := pack565 a b c in
  f565_r t = a /\ f565_g t = b /\ f565_b t = c /\ 0 <= t < 65536 /\
  0 <= Z.shiftr t 8 < 256 /\ Z.shiftr t 8 * 256 + Z.land t 255 = t.
Proof.
  intros Ha Hb Hc.
  pose proof (grid2_spec _ _ _ _ _ pack_all a b) as H. rewrite !Z2Nat.id in H by lia.
  specialize (H ltac:(lia) ltac:(lia)). unfold pack_ok in H.
  pose proof (forall_zrange _ _ _ H c) as H1. rewrite Z2Nat.id in H1 by lia.
  specialize (H1 ltac:(lia)). cbv beta zeta in H1.
  repeat (apply andb_true_iff in H1 as [H1 ?]). cbv zeta. lia.
Qed.

Lemma led_565_fields r g b i :
  0 <= r <= 255 -> 0 <= g <= 255 -> 0 <= b <= 255 -> 0 <= i <= 100 ->
  let t := led_565 r g b i in
  f565_r t = led_r5 r i /\ f565_g t = led_g6 g i /\ f565_b t = led_b5 b i /\ 0 <= t < 65536 /\
  led_bytes r g b i = [Z.shiftr t 8; Z.land t 255] /\
  0 <= Z.shiftr t 8 < 256 /\ Z.shiftr t 8 * 256 + Z.land t 255 = t.
Proof.
  intros Hr Hg Hb Hi.
  destruct (led_bounds r i Hr Hi) as (Hr5 & _ & _).
  destruct (led_bounds g i Hg Hi) as (_ & Hg6 & _).
  destruct (led_bounds b i Hb Hi) as (_ & _ & Hb5).
  pose proof (pack565_fields _ _ _ Hr5 Hg6 Hb5) as H. cbv zeta in H.
  change (pack565 (led_r5 r i) (led_g6 g i) (led_b5 b i)) with (led_565 r g b i) in H.
  cbv zeta. unfold led_bytes. intuition.
Qed.

Lemma led_black i : led_565 0 0 0 i = 0 /\ led_bytes 0 0 0 i = [0; 0].
Proof. split; reflexivity. Qed.

Lemma led_zero_intensity r g b : 0 <= r <= 255 -> 0 <= g <= 255 -> 0 <= b <= 255 -> led_565 r g b 0 = 0.
Proof.
  intros Hr Hg Hb. unfold led_565, led_r5, led_g6, led_b5, scale100.
  rewrite !Z.mul_0_r. reflexivity.
Qed.

Lemma led_white : led_565 255 255 255 100 = 65535 /\ led_bytes 255 255 255 100 = [255; 255].
Proof. split; reflexivity. Qed.
