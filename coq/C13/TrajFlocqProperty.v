(* C13/TrajFlocqProperty.v — property C13, trajectory float link: theorems only.
   Each is closed by `exact <lemma of TrajFlocq.v>` and followed by Print Assumptions.

   The statements are about the EXECUTABLE definitions of C13/Traj.v (float_trunc, enc_spatial, enc_yaw,
   enc_duration, pack_start: Coq primitive binary64 floats, the model that harness/props/c13.py compares
   with CPython), related to real numbers through Flocq:
     Prim2B : primitive float -> Flocq binary_float 53 1024     (Flocq.IEEE754.PrimFloat)
     B2R    : binary_float -> R, the real value (0 for inf/nan) (Flocq.IEEE754.BinarySingleNaN)
     is_finite b = true for zeros and finite numbers, false for infinities and nan
     Ztrunc, Zfloor, Zceil : R -> Z                              (Flocq.Core.Raux)
   `fin f` unfolds to `is_finite (Prim2B f) = true`, `val f` to `B2R (Prim2B f)`; they are written out
   below so that every statement can be read without TrajFlocq.v. *)
From Coq Require Import ZArith Reals Floats.PrimFloat Floats.SpecFloat Floats.FloatOps.
From Flocq Require Import Core.Core IEEE754.BinarySingleNaN IEEE754.PrimFloat.
From CF Require Import Common.Struct C13.Traj C13.TrajProofs C13.TrajFlocq.
Local Notation pfloat := Coq.Floats.PrimFloat.float.
Local Notation rnd64 := (round radix2 (FLT_exp (-1074) 53) ZnearestE).
Open Scope R_scope.

(* ---- (1) int(f): truncation toward zero of the real value; raises exactly on inf / nan *)
Theorem C13_traj_float_trunc_correct : forall f : pfloat,
  match Prim2SF f with
  | S754_zero _ | S754_finite _ _ _ => float_trunc f = Some (Ztrunc (B2R (Prim2B f)))
  | S754_infinity _ | S754_nan => float_trunc f = None
  end.
Proof. exact float_trunc_correct. Qed.
Print Assumptions C13_traj_float_trunc_correct.

Theorem C13_traj_float_trunc_finite_iff : forall f : pfloat,
  float_trunc f = if is_finite (Prim2B f) then Some (Ztrunc (B2R (Prim2B f))) else None.
Proof. exact float_trunc_Prim2B. Qed.
Print Assumptions C13_traj_float_trunc_finite_iff.

(* ---- binary64 round-to-nearest-even satisfies the hypotheses TrajProofs.v assumes of its abstract `fl`
        (monotone; identity on the integers, here up to 2^53), and the resolution follows *)
Theorem C13_traj_float_round_monotone : forall a b : R, a <= b -> rnd64 a <= rnd64 b.
Proof. exact rnd64_monotone. Qed.
Print Assumptions C13_traj_float_round_monotone.

Theorem C13_traj_float_round_integers : forall n : Z, (- 2 ^ 53 <= n <= 2 ^ 53)%Z -> rnd64 (IZR n) = IZR n.
Proof. exact rnd64_integers. Qed.
Print Assumptions C13_traj_float_round_integers.

Theorem C13_traj_float_round_resolution : forall v : R, IZR (- 2 ^ 53) <= v <= IZR (2 ^ 53) ->
  Rabs (IZR (Ztrunc (rnd64 v)) - v) < 1.
Proof. exact rnd64_resolution. Qed.
Print Assumptions C13_traj_float_round_resolution.

(* the executed product x * k is that rounding of the exact product (when it does not overflow) *)
Theorem C13_traj_float_mul_value : forall x k : pfloat,
  is_finite (Prim2B x) = true -> is_finite (Prim2B k) = true ->
  Rabs (rnd64 (B2R (Prim2B x) * B2R (Prim2B k))) < bpow radix2 1024 ->
  is_finite (Prim2B (x * k)%float) = true /\
  B2R (Prim2B (x * k)%float) = rnd64 (B2R (Prim2B x) * B2R (Prim2B k)).
Proof. exact mul_value. Qed.
Print Assumptions C13_traj_float_mul_value.

(* ---- (2) _encode_spatial: int(x * 1000) is less than one millimetre-unit from the exact x*1000 *)
Theorem C13_traj_float_enc_spatial_resolution : forall x : pfloat,
  is_finite (Prim2B x) = true -> Rabs (B2R (Prim2B x) * 1000) <= 32768 ->
  exists t, enc_spatial x = Some t /\ Rabs (IZR t - B2R (Prim2B x) * 1000) < 1.
Proof. exact enc_spatial_resolution. Qed.
Print Assumptions C13_traj_float_enc_spatial_resolution.

Theorem C13_traj_float_enc_spatial_in_range : forall x : pfloat,
  is_finite (Prim2B x) = true -> -32768 <= B2R (Prim2B x) * 1000 <= 32767 ->
  exists t, enc_spatial x = Some t /\ i16 t /\ Rabs (IZR t - B2R (Prim2B x) * 1000) < 1.
Proof. exact enc_spatial_in_range. Qed.
Print Assumptions C13_traj_float_enc_spatial_in_range.

Theorem C13_traj_float_enc_spatial_bracket : forall x : pfloat,
  is_finite (Prim2B x) = true -> IZR (- 2 ^ 53) <= B2R (Prim2B x) * 1000 <= IZR (2 ^ 53) ->
  exists t, enc_spatial x = Some t /\ Rabs (IZR t - B2R (Prim2B x) * 1000) < 1 /\
            (Zfloor (B2R (Prim2B x) * 1000) <= t <= Zceil (B2R (Prim2B x) * 1000))%Z.
Proof. exact enc_spatial_resolution_wide. Qed.
Print Assumptions C13_traj_float_enc_spatial_bracket.

(* ---- (3) beyond the int16 span: the integer is beyond it too, or int() raised on an infinity;
        struct.pack('<h') therefore raises — a wrapped-around coordinate is never produced *)
Theorem C13_traj_float_enc_spatial_overflow_high : forall x : pfloat,
  is_finite (Prim2B x) = true -> 32768 <= B2R (Prim2B x) * 1000 ->
  enc_spatial x = None \/ exists t, enc_spatial x = Some t /\ (32768 <= t)%Z.
Proof. exact enc_spatial_overflow_high. Qed.
Print Assumptions C13_traj_float_enc_spatial_overflow_high.

Theorem C13_traj_float_enc_spatial_overflow_low : forall x : pfloat,
  is_finite (Prim2B x) = true -> B2R (Prim2B x) * 1000 <= -32769 ->
  enc_spatial x = None \/ exists t, enc_spatial x = Some t /\ (t <= -32769)%Z.
Proof. exact enc_spatial_overflow_low. Qed.
Print Assumptions C13_traj_float_enc_spatial_overflow_low.

Theorem C13_traj_float_enc_spatial_no_wrap : forall x : pfloat,
  is_finite (Prim2B x) = true ->
  (32768 <= B2R (Prim2B x) * 1000 \/ B2R (Prim2B x) * 1000 <= -32769) ->
  forall t, enc_spatial x = Some t -> pack1 I16 t = None /\ ~ i16 t.
Proof. exact enc_spatial_overflow_no_wrap. Qed.
Print Assumptions C13_traj_float_enc_spatial_no_wrap.

Theorem C13_traj_float_enc_spatial_not_finite : forall x : pfloat,
  is_finite (Prim2B x) = false -> enc_spatial x = None.
Proof. exact enc_spatial_not_finite. Qed.
Print Assumptions C13_traj_float_enc_spatial_not_finite.

(* segment duration: the same int(d * 1000) *)
Theorem C13_traj_float_enc_duration_bracket : forall d : pfloat,
  is_finite (Prim2B d) = true -> IZR (- 2 ^ 53) <= B2R (Prim2B d) * 1000 <= IZR (2 ^ 53) ->
  exists t, enc_duration d = Some t /\ Rabs (IZR t - B2R (Prim2B d) * 1000) < 1 /\
            (Zfloor (B2R (Prim2B d) * 1000) <= t <= Zceil (B2R (Prim2B d) * 1000))%Z.
Proof. exact enc_duration_resolution. Qed.
Print Assumptions C13_traj_float_enc_duration_bracket.

(* ---- (4) _encode_yaw = int(math.degrees(a) * 10), relative to the double d = degrees a = a * rad_to_deg
        that math.degrees returns.  d itself is one rounding of a * (the double nearest 180/pi)
        (C13_traj_float_degrees_value): a relative 2^-53 error plus that of the constant, not bounded
        against the real pi here. *)
Theorem C13_traj_float_enc_yaw_is_degrees_times_10 : forall a : pfloat,
  degrees a = (a * rad_to_deg)%float /\ enc_yaw a = float_trunc (degrees a * 10)%float.
Proof. intros a. split; reflexivity. Qed.
Print Assumptions C13_traj_float_enc_yaw_is_degrees_times_10.

Theorem C13_traj_float_enc_yaw_resolution : forall a : pfloat,
  is_finite (Prim2B (degrees a)) = true -> Rabs (B2R (Prim2B (degrees a)) * 10) <= 32768 ->
  exists t, enc_yaw a = Some t /\ Rabs (IZR t - B2R (Prim2B (degrees a)) * 10) < 1.
Proof. exact enc_yaw_resolution. Qed.
Print Assumptions C13_traj_float_enc_yaw_resolution.

Theorem C13_traj_float_enc_yaw_in_range : forall a : pfloat,
  is_finite (Prim2B (degrees a)) = true -> -32768 <= B2R (Prim2B (degrees a)) * 10 <= 32767 ->
  exists t, enc_yaw a = Some t /\ i16 t /\ Rabs (IZR t - B2R (Prim2B (degrees a)) * 10) < 1.
Proof. exact enc_yaw_in_range. Qed.
Print Assumptions C13_traj_float_enc_yaw_in_range.

Theorem C13_traj_float_enc_yaw_overflow_high : forall a : pfloat,
  is_finite (Prim2B (degrees a)) = true -> 32768 <= B2R (Prim2B (degrees a)) * 10 ->
  enc_yaw a = None \/ exists t, enc_yaw a = Some t /\ (32768 <= t)%Z.
Proof. exact enc_yaw_overflow_high. Qed.
Print Assumptions C13_traj_float_enc_yaw_overflow_high.

Theorem C13_traj_float_enc_yaw_overflow_low : forall a : pfloat,
  is_finite (Prim2B (degrees a)) = true -> B2R (Prim2B (degrees a)) * 10 <= -32769 ->
  enc_yaw a = None \/ exists t, enc_yaw a = Some t /\ (t <= -32769)%Z.
Proof. exact enc_yaw_overflow_low. Qed.
Print Assumptions C13_traj_float_enc_yaw_overflow_low.

Theorem C13_traj_float_enc_yaw_no_wrap : forall a : pfloat,
  is_finite (Prim2B (degrees a)) = true ->
  (32768 <= B2R (Prim2B (degrees a)) * 10 \/ B2R (Prim2B (degrees a)) * 10 <= -32769) ->
  forall t, enc_yaw a = Some t -> pack1 I16 t = None /\ ~ i16 t.
Proof. exact enc_yaw_overflow_no_wrap. Qed.
Print Assumptions C13_traj_float_enc_yaw_no_wrap.

Theorem C13_traj_float_enc_yaw_not_finite : forall a : pfloat,
  is_finite (Prim2B (degrees a)) = false -> enc_yaw a = None.
Proof. exact enc_yaw_not_finite. Qed.
Print Assumptions C13_traj_float_enc_yaw_not_finite.

Theorem C13_traj_float_degrees_value : forall a : pfloat,
  is_finite (Prim2B a) = true ->
  Rabs (rnd64 (B2R (Prim2B a) * B2R (Prim2B rad_to_deg))) < bpow radix2 1024 ->
  is_finite (Prim2B (degrees a)) = true /\
  B2R (Prim2B (degrees a)) = rnd64 (B2R (Prim2B a) * B2R (Prim2B rad_to_deg)).
Proof. exact degrees_value. Qed.
Print Assumptions C13_traj_float_degrees_value.

Theorem C13_traj_float_rad_to_deg_value :
  is_finite (Prim2B rad_to_deg) = true /\
  B2R (Prim2B rad_to_deg) = F2R (Float radix2 8063664102031864 (-47)).
Proof. exact rad_to_deg_value. Qed.
Print Assumptions C13_traj_float_rad_to_deg_value.

(* ---- CompressedStart.pack end to end, from the four Python floats to the eight bytes *)
Theorem C13_traj_float_pack_start_in_range : forall x y z yaw : pfloat,
  is_finite (Prim2B x) = true -> is_finite (Prim2B y) = true -> is_finite (Prim2B z) = true ->
  is_finite (Prim2B (degrees yaw)) = true ->
  -32768 <= B2R (Prim2B x) * 1000 <= 32767 -> -32768 <= B2R (Prim2B y) * 1000 <= 32767 ->
  -32768 <= B2R (Prim2B z) * 1000 <= 32767 -> -32768 <= B2R (Prim2B (degrees yaw)) * 10 <= 32767 ->
  exists ex ey ez ew l,
    pack_start x y z yaw = Some l /\ length l = 8%nat /\ bytes l /\
    unpack [I16; I16; I16; I16] l = Some [ex; ey; ez; ew] /\
    Rabs (IZR ex - B2R (Prim2B x) * 1000) < 1 /\ Rabs (IZR ey - B2R (Prim2B y) * 1000) < 1 /\
    Rabs (IZR ez - B2R (Prim2B z) * 1000) < 1 /\ Rabs (IZR ew - B2R (Prim2B (degrees yaw)) * 10) < 1.
Proof. exact pack_start_in_range. Qed.
Print Assumptions C13_traj_float_pack_start_in_range.

Theorem C13_traj_float_pack_start_overflow : forall x y z yaw : pfloat,
  (is_finite (Prim2B x) = true /\ beyond_i16 (B2R (Prim2B x) * 1000)) \/
  (is_finite (Prim2B y) = true /\ beyond_i16 (B2R (Prim2B y) * 1000)) \/
  (is_finite (Prim2B z) = true /\ beyond_i16 (B2R (Prim2B z) * 1000)) \/
  (is_finite (Prim2B (degrees yaw)) = true /\ beyond_i16 (B2R (Prim2B (degrees yaw)) * 10)) \/
  is_finite (Prim2B x) = false \/ is_finite (Prim2B y) = false \/ is_finite (Prim2B z) = false \/
  is_finite (Prim2B (degrees yaw)) = false ->
  pack_start x y z yaw = None.
Proof. exact pack_start_overflow. Qed.
Print Assumptions C13_traj_float_pack_start_overflow.

(* ---- the statements are not vacuous: executed instances (vm_compute on primitive floats) *)
Set Warnings "-inexact-float".
Example C13_traj_float_examples :
  enc_spatial 1.5%float = Some 1500%Z /\ enc_spatial (-0.0015)%float = Some (-1)%Z /\
  enc_spatial 32.768%float = Some 32768%Z /\ enc_spatial (-32.7689)%float = Some (-32768)%Z /\
  enc_spatial infinity = None /\ enc_spatial 1e306%float = None /\
  enc_yaw 3.141592653589793%float = Some 1800%Z /\
  pack_start 1.5%float 0%float (-0.001)%float 0%float = Some [220; 5; 0; 0; 255; 255; 0; 0]%Z /\
  pack_start 32.768%float 0%float 0%float 0%float = None.
Proof. vm_compute. repeat split; reflexivity. Qed.
