(* C03/Frame.v — tables are values: a download into table B leaves every other table A as it is.
   In the model this is immediate (a table is a value of type `toc`; a fetch only produces its own `f_toc`); the
   point is the TIE: the implementation must not share mutable element objects between tables (two Crazyflie
   objects connected at once, two sessions of one object) — harness/props/c03.py re-reads table A after B's
   download and compares object identities.  A memoised-element variant (one mutable cell per element
   description, reused across tables, its ident overwritten) is modelled and refuted. *)
From CF Require Import Common.Bytes C03.Model C03.Proofs C03.Fetch.
Open Scope Z_scope.

(* the world: table A (already downloaded, owned by someone else) and a fetcher downloading table B *)
Definition world_step (c : cls) (cache : Z -> option toc) (a : toc) (sb : fstate) (ch : Z) (dt : list Z)
  : toc * (fstate * list out) := (a, on_packet c cache sb ch dt).

Definition world_run (c : cls) (cache : Z -> option toc) (ver : Z) (d : dev) (a : toc) (evs : list aev)
  : toc * (fstate * list out) := (a, fetch c cache ver d evs).

Lemma frame c cache ver d a evs : fst (world_run c cache ver d a evs) = a.
Proof. reflexivity. Qed.

(* ---- memoised elements: one mutable cell per (class, description), shared by all tables *)
Record mworld := mkMW { mw_heap : list elem;                      (* cells *)
                        mw_memo : list (list Z * nat) }.          (* description -> cell *)

Definition set_ident (e : elem) (i : Z) : elem :=
  mkElem (e_cls e) i (e_group e) (e_name e) (e_ctype e) (e_pytype e) (e_access e) (e_extended e) (e_persistent e).

Fixpoint upd_cell (k : nat) (f : elem -> elem) (h : list elem) : list elem :=
  match h, k with
  | [], _ => []
  | e :: r, O => f e :: r
  | e :: r, S k' => e :: upd_cell k' f r
  end.

(* add the entry with description `desc` at index `ident` to a table (a list of cells) *)
Definition memo_add (c : cls) (w : mworld) (table : list nat) (ident : Z) (desc : list Z) : mworld * list nat :=
  match dget desc (mw_memo w) with
  | Some cell => (mkMW (upd_cell cell (fun e => set_ident e ident) (mw_heap w)) (mw_memo w), table ++ [cell])
  | None =>
      match parse c ident desc with
      | Ok e => let cell := List.length (mw_heap w) in
                (mkMW (mw_heap w ++ [e]) (mw_memo w ++ [(desc, cell)]), table ++ [cell])
      | Raise _ => (w, table)
      end
  end.

Fixpoint memo_download (c : cls) (w : mworld) (table : list nat) (i : Z) (descs : list (list Z)) : mworld * list nat :=
  match descs with
  | [] => (w, table)
  | dsc :: r => let '(w', t') := memo_add c w table i dsc in memo_download c w' t' (i + 1) r
  end.

Definition view (w : mworld) (table : list nat) : list elem :=
  flat_map (fun k => match nth_error (mw_heap w) k with Some e => [e] | None => [] end) table.

(* two devices describing the same two log entries at swapped indexes *)
Definition dx : list Z := [7; 103; 0; 120; 0].     (* float  g.x *)
Definition dy : list Z := [1; 103; 0; 121; 0].     (* uint8  g.y *)

Lemma memoised_elements_refuted :
  let '(w1, ta) := memo_download LogCls (mkMW [] []) [] 0 [dx; dy] in
  let before := view w1 ta in
  let '(w2, tb) := memo_download LogCls w1 [] 0 [dy; dx] in
  map e_ident before = [0; 1] /\
  map e_ident (view w2 ta) = [1; 0] /\               (* table A changed although nothing was fetched into it *)
  map e_ident (view w2 tb) = [0; 1].
Proof. vm_compute. repeat split; reflexivity. Qed.
