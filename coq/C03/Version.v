(* C03/Version.v — which protocol generation a session's table download uses.
   Model of PlatformService (cflib/crazyflie/platformservice.py): fetch_platform_informations resets the version
   to -1 and asks the link-control "source" port; a reply starting with the magic string leads to the version
   request on the platform port, any other reply to version -1; the version reply sets the version; in both cases
   the completion callback starts the log download (and later the parameter download), whose TocFetcher reads the
   version at that moment (`_useV2 = version >= 4`).  Executable model (tied to the real PlatformService driven by
   packets), then: over ALL histories of sessions of one Crazyflie object — any sequence of devices with any
   versions, same or different URI — the version a session's downloads use is the one in THAT session's own
   version reply (or -1 for a device without the magic string); a per-URI memo of the version is refuted. *)
From CF Require Import Common.Bytes C03.Model.
Open Scope Z_scope.

Definition magic : list Z := [66; 105; 116; 99; 114; 97; 122; 101; 32; 67; 114; 97; 122; 121; 102; 108; 105; 101].

Inductive pev :=
| PFetch (uri : Z)                     (* Crazyflie._start_connection_setup -> fetch_platform_informations *)
| PPkt (port chan : Z) (data : list Z).

Inductive pout :=
| PSend (port chan : Z) (data : list Z)
| PDone (ver : Z)                      (* completion callback, with the version the downloads will read *)
| PRaised (e : exn).

Record pstate := mkP { p_ver : Z; p_armed : bool }.     (* _protocolVersion; a callback has been set *)

Definition p_init : pstate := mkP (-1) false.

Definition pstep (s : pstate) (e : pev) : pstate * list pout :=
  match e with
  | PFetch _ => (mkP (-1) true, [PSend 15 1 [0]])
  | PPkt port chan data =>
      if (port =? 15) && (chan =? 1) then
        if zlist_eqb (firstn 18 data) magic then (s, [PSend 13 1 [0]])
        else if p_armed s then (mkP (-1) (p_armed s), [PDone (-1)])
        else (mkP (-1) (p_armed s), [PRaised TypeError])               (* self._callback is None *)
      else if (port =? 13) && (chan =? 1) then
        match data with
        | [] => (s, [PRaised IndexError])
        | 0 :: rest =>
            match rest with
            | [] => (s, [PRaised IndexError])
            | v :: _ => if p_armed s then (mkP v (p_armed s), [PDone v])
                        else (mkP v (p_armed s), [PRaised TypeError])
            end
        | _ => (s, [])
        end
      else (s, [])
  end.

Fixpoint prun (s : pstate) (evs : list pev) : pstate * list pout :=
  match evs with
  | [] => (s, [])
  | e :: r => let '(s1, o1) := pstep s e in let '(s2, o2) := prun s1 r in (s2, o1 ++ o2)
  end.

(* a device as far as the handshake is concerned: does it answer the source request with the magic string, and
   which version does it report *)
Record pdev := mkPd { pd_magic : bool; pd_ver : Z }.

(* one honest session against device d on uri u *)
Definition session (u : Z) (d : pdev) : list pev :=
  PFetch u ::
  if pd_magic d then [PPkt 15 1 (magic ++ [0]); PPkt 13 1 [0; pd_ver d]]
  else [PPkt 15 1 [0]].

Definition used_version (d : pdev) : Z := if pd_magic d then pd_ver d else -1.

Definition dones (o : list pout) : list Z := flat_map (fun x => match x with PDone v => [v] | _ => [] end) o.

Definition enc_pout (o : pout) : list Z :=
  match o with
  | PSend p c d => [1; p; c] ++ lenc d
  | PDone v => [2; v]
  | PRaised e => [3; exn_code e]
  end.
Definition enc_prun (r : pstate * list pout) : list Z := [p_ver (fst r); b2n (p_armed (fst r))] ++ flat_map enc_pout (snd r).

(* ---- the seeded idea: remember the version per URI and skip the handshake on a reconnect to that URI *)
Record mstate := mkM { m_ver : Z; m_uri : option Z }.

Definition mstep_session (s : mstate) (u : Z) (d : pdev) : mstate * Z :=
  if (0 <=? m_ver s) && match m_uri s with Some u' => u' =? u | None => false end
  then (s, m_ver s)                                                   (* handshake skipped *)
  else (mkM (used_version d) (Some u), used_version d).

Fixpoint mrun_sessions (s : mstate) (l : list (Z * pdev)) : list Z :=
  match l with
  | [] => []
  | (u, d) :: r => let '(s', v) := mstep_session s u d in v :: mrun_sessions s' r
  end.

(* ---------------------------------------------------------------- proofs *)

Lemma prun_app s a b : prun s (a ++ b) = let '(s1, x) := prun s a in let '(s2, y) := prun s1 b in (s2, x ++ y).
Proof.
  revert s. induction a as [|e a IH]; intros s; cbn [app prun].
  - destruct (prun s b). reflexivity.
  - destruct (pstep s e) as [s1 o1]. rewrite IH. destruct (prun s1 a) as [s2 o2]. destruct (prun s2 b) as [s3 o3].
    now rewrite app_assoc.
Qed.

Lemma magic_prefix : zlist_eqb (firstn 18 (magic ++ [0])) magic = true.
Proof. reflexivity. Qed.

Lemma session_uses_its_own_version s u d :
  0 <= pd_ver d < 256 ->
  let '(s', o) := prun s (session u d) in
  dones o = [used_version d] /\ p_ver s' = used_version d /\ p_armed s' = true.
Proof.
  intros Hv. unfold session, used_version. destruct (pd_magic d); cbn [prun pstep app].
  - change ((15 =? 15) && (1 =? 1)) with true. cbv iota. rewrite magic_prefix.
    change ((13 =? 15) && (1 =? 1)) with false. change ((13 =? 13) && (1 =? 1)) with true. cbn. auto.
  - change ((15 =? 15) && (1 =? 1)) with true. cbn. auto.
Qed.

(* all session histories: the i-th session uses the version of the i-th device, whatever came before *)
Lemma sessions_use_their_own_versions : forall (l : list (Z * pdev)) s,
  Forall (fun ud => 0 <= pd_ver (snd ud) < 256) l ->
  dones (snd (prun s (flat_map (fun ud => session (fst ud) (snd ud)) l))) = map (fun ud => used_version (snd ud)) l.
Proof.
  induction l as [|[u d] l IH]; intros s H; [reflexivity|].
  inversion H as [|? ? Hd Hl]; subst. cbn [flat_map map fst snd]. rewrite prun_app.
  pose proof (session_uses_its_own_version s u d Hd) as Hs.
  destruct (prun s (session u d)) as [s1 o1]. destruct Hs as (H1 & _ & _).
  specialize (IH s1 Hl). destruct (prun s1 (flat_map (fun ud => session (fst ud) (snd ud)) l)) as [s2 o2].
  cbn [snd] in *. unfold dones in *. rewrite flat_map_app. fold (dones o1). fold (dones o2).
  unfold dones. now rewrite H1, IH.
Qed.

(* the memo: connect to a version-3 device, then to a version-10 device on the SAME uri: the second session uses 3,
   i.e. the legacy 8-bit table commands, which cannot address more than 255 entries *)
Lemma uri_memo_refuted :
  mrun_sessions (mkM (-1) None) [(7, mkPd true 3); (7, mkPd true 10)] = [3; 3] /\
  map (fun ud => used_version (snd ud)) [(7, mkPd true 3); (7, mkPd true 10)] = [3; 10] /\
  (4 <=? 3) = false /\ (4 <=? 10) = true /\ item_req false 300 = [0; 300].
Proof. repeat split; reflexivity. Qed.
