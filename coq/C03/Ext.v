(* C03/Ext.v — the extended-type phase: persistent markers under all adversarial answer schedules *)
From CF Require Import Common.Bytes C03.Model C03.ExtModel C03.Proofs C03.Fetch C03.Lookup.
From Coq Require Import ZifyBool.
Open Scope Z_scope.
Ltac Zify.zify_post_hook ::= Z.to_euclidean_division_equations.

(* ---------------------------------------------------------------- map_toc *)
Lemma values_map_toc f t : values (map_toc f t) = map f (values t).
Proof.
  unfold values, map_toc. induction t as [|[g d] t IH]; [reflexivity|].
  cbn [map flat_map fst snd]. rewrite IH, map_app, !map_map. reflexivity.
Qed.

Lemma map_toc_ext f g t : (forall e, In e (values t) -> f e = g e) -> map_toc f t = map_toc g t.
Proof.
  unfold map_toc, values. induction t as [|[k d] t IH]; intros H; [reflexivity|].
  cbn [map fst snd]. f_equal.
  - f_equal. apply map_ext_in. intros [n e] Hin. cbn [fst snd]. f_equal. apply H.
    cbn [flat_map snd]. apply in_or_app. left. change e with (snd (n, e)). now apply in_map.
  - apply IH. intros e He. apply H. cbn [flat_map]. apply in_or_app. now right.
Qed.

Lemma map_toc_comp f g t : map_toc f (map_toc g t) = map_toc (fun e => f (g e)) t.
Proof.
  unfold map_toc. rewrite map_map. apply map_ext. intros [k d]. cbn [fst snd]. now rewrite map_map.
Qed.

Lemma map_toc_id t : map_toc (fun e => e) t = t.
Proof.
  unfold map_toc. induction t as [|[k d] t IH]; [reflexivity|]. cbn [map fst snd]. rewrite IH. f_equal. f_equal.
  induction d as [|[n e] d IHd]; [reflexivity|]. cbn [map fst snd]. now rewrite IHd.
Qed.

(* ---------------------------------------------------------------- lists *)
Lemma NoDup_map_filter {A B} (f : A -> B) p l : NoDup (map f l) -> NoDup (map f (filter p l)).
Proof.
  induction l as [|a l IH]; intros H; [constructor|].
  cbn [map] in H. inversion H as [|? ? Hni Hnd]; subst. cbn [filter].
  destruct (p a); [|now apply IH]. cbn [map]. constructor; [|now apply IH].
  intros Hin. apply Hni. apply in_map_iff in Hin. destruct Hin as (x & Hx & Hf).
  apply filter_In in Hf. rewrite <- Hx. apply in_map. apply Hf.
Qed.

Lemma NoDup_map_inj {A B} (f : A -> B) l a b : NoDup (map f l) -> In a l -> In b l -> f a = f b -> a = b.
Proof.
  induction l as [|x l IH]; intros Hnd Ha Hb E; [contradiction|].
  cbn [map] in Hnd. inversion Hnd as [|? ? Hni Hnd']; subst.
  destruct Ha as [->|Ha], Hb as [->|Hb]; auto.
  - exfalso. apply Hni. rewrite E. now apply in_map.
  - exfalso. apply Hni. rewrite <- E. now apply in_map.
Qed.

Lemma NoDup_app_last_neq {A} (l : list A) a x : NoDup (l ++ [a]) -> In x l -> x <> a.
Proof. intros H Hin ->. apply NoDup_snoc in H. now destruct H. Qed.

(* ---------------------------------------------------------------- packets *)
Lemma ext_req_reply d i b : 0 <= i < 65536 -> assoc i d = Some b ->
  xdev_reply d (ext_req i) = Some (ext_req i ++ [b]).
Proof.
  intros Hi Ha. unfold ext_req, xdev_reply. cbn [le_bytes].
  replace (i mod 256 + 256 * ((i / 256) mod 256)) with i by lia. rewrite Ha. reflexivity.
Qed.

Lemma x_on_packet_ext s j b : x_reg s = true -> 0 <= j < 65536 ->
  x_on_packet s 3 (ext_req j ++ [b]) =
  if negb (x_req s =? j) then (s, []) else
  if (b =? 1) && match get_element_by_id j (x_toc s) with None => true | Some _ => false end
  then (s, [Raised AttributeError]) else
  let t' := if b =? 1 then map_toc (mark j) (x_toc s) else x_toc s in
  let cnt := x_count s - 1 in
  if cnt =? 0 then (mkX [] (-1) cnt t' false true, [Finished])
  else match x_queue s with
       | i :: q => (mkX q i cnt t' true true, [Send (ext_req i)])
       | [] => (mkX [] (-1) cnt t' false true, [])
       end.
Proof.
  intros Hreg Hj. unfold x_on_packet. rewrite Hreg. cbn [negb]. change (3 =? 3) with true. cbn [negb].
  unfold ext_req. cbn [le_bytes app tl firstn List.length nth_error].
  change (2 =? 2) with true. cbn [negb].
  change (2 <? 2)%nat with false. cbn [le_val].
  replace (j mod 256 + 256 * ((j / 256) mod 256 + 256 * 0)) with j by lia. reflexivity.
Qed.

Lemma x_on_packet_other s ch dt : not_ext_reply ch dt -> x_on_packet s ch dt = (s, []).
Proof.
  intros H. unfold x_on_packet. destruct (x_reg s); [|reflexivity]. cbn [negb].
  destruct (ch =? 3) eqn:E; [|reflexivity]. cbn [negb].
  destruct H as [H|(cmd & rest & -> & Hc)]; [lia|].
  destruct (cmd =? 2) eqn:E2; [lia|reflexivity].
Qed.

(* ---------------------------------------------------------------- the invariant *)
Section Ext.
  Variables (t : toc) (d : xdev).
  Let xs := ext_ids t.
  Hypothesis Hinj : forall e e', In e (values t) -> In e' (values t) -> e_ident e = e_ident e' -> e = e'.
  Hypothesis Hrange : forall e, In e (values t) ->
    0 <= e_ident e < 65536 /\ (e_extended e = true -> exists b, assoc (e_ident e) d = Some b).

  Definition pers_id (i : Z) : bool := match assoc i d with Some 1 => true | _ => false end.
  Definition marks (l : list Z) (t0 : toc) : toc :=
    fold_left (fun t1 i => if pers_id i then map_toc (mark i) t1 else t1) l t0.

  Lemma xs_elem i : In i xs -> exists e, In e (values t) /\ e_extended e = true /\ e_ident e = i.
  Proof.
    unfold xs, ext_ids. intros H. apply in_map_iff in H. destruct H as (e & He & Hf).
    apply filter_In in Hf. destruct Hf as [Hin Hx]. now exists e.
  Qed.

  Lemma xs_info i : In i xs -> 0 <= i < 65536 /\ exists b, assoc i d = Some b.
  Proof.
    intros H. destruct (xs_elem i H) as (e & Hin & Hx & <-).
    destruct (Hrange e Hin) as [Hr Hb]. split; [exact Hr|now apply Hb].
  Qed.

  (* marking never changes idents, so every id of the table is still found *)
  Lemma marks_shape : forall l t0, exists f, marks l t0 = map_toc f t0 /\ forall e, e_ident (f e) = e_ident e.
  Proof.
    induction l as [|i l IH]; intros t0; cbn [marks fold_left].
    - exists (fun e => e). split; [now rewrite map_toc_id|reflexivity].
    - destruct (pers_id i).
      + destruct (IH (map_toc (mark i) t0)) as (f & Hf & Hid). fold (marks l (map_toc (mark i) t0)).
        exists (fun e => f (mark i e)). split; [now rewrite Hf, map_toc_comp|].
        intros e. rewrite Hid. unfold mark. destruct (e_ident e =? i); reflexivity.
      + apply IH.
  Qed.

  Lemma found_after_marks l i : In i xs -> get_element_by_id i (marks l t) <> None.
  Proof.
    intros Hi. destruct (xs_elem i Hi) as (e & Hin & _ & Hid).
    destruct (marks_shape l t) as (f & -> & Hf).
    unfold get_element_by_id. rewrite values_map_toc. intros Hnone.
    pose proof (find_none _ _ Hnone (f e) (in_map f _ _ Hin)) as H. cbn beta in H. rewrite Hf in H. lia.
  Qed.

  Lemma marks_snoc l i t0 : marks (l ++ [i]) t0 = if pers_id i then map_toc (mark i) (marks l t0) else marks l t0.
  Proof. unfold marks. now rewrite fold_left_app. Qed.

  Inductive XInv : xstate -> list out -> Prop :=
  | XRun done cur rest o :
      xs = done ++ cur :: rest ->
      sends o = map ext_req (done ++ [cur]) -> finished_count o = 0%nat -> raised o = [] ->
      XInv (mkX rest cur (Z.of_nat (S (List.length rest))) (marks done t) true true) o
  | XDone o :
      xs <> [] -> sends o = map ext_req xs -> finished_count o = 1%nat -> raised o = [] ->
      XInv (mkX [] (-1) 0 (marks xs t) false true) o
  | XNone o :
      xs = [] -> sends o = [] -> finished_count o = 1%nat -> raised o = [] ->
      XInv (mkX [] (-1) (-1) t false false) o.

  Lemma XInv_got s o ch dt : XInv s o -> XInv s (o ++ [Got ch dt]).
  Proof.
    assert (S1 : sends (o ++ [Got ch dt]) = sends o) by (rewrite sends_app; cbn; now rewrite app_nil_r).
    assert (S2 : finished_count (o ++ [Got ch dt]) = finished_count o) by (rewrite fin_app; cbn; lia).
    assert (S3 : raised (o ++ [Got ch dt]) = raised o) by (rewrite raised_app; cbn; now rewrite app_nil_r).
    destruct 1 as [done cur rest o Hxs Hs Hf Hr | o Hne Hs Hf Hr | o Hnil Hs Hf Hr].
    - apply XRun; congruence.
    - apply XDone; congruence.
    - apply XNone; congruence.
  Qed.

  Lemma XInv_step s o ev :
    XInv s o -> (match ev with Deliver _ => True | Raw ch dt => not_ext_reply ch dt end) ->
    match xpacket_of d o ev with
    | None => True
    | Some (ch, dt) => let '(s', o') := x_on_packet s ch dt in XInv s' (o ++ Got ch dt :: o')
    end.
  Proof.
    intros HI Hadm.
    destruct (xpacket_of d o ev) as [[ch dt]|] eqn:Epk; [|exact I].
    change (o ++ Got ch dt :: ?x) with (o ++ [Got ch dt] ++ x).
    assert (Hign : x_on_packet s ch dt = (s, []) ->
                   let '(s', o') := x_on_packet s ch dt in XInv s' (o ++ [Got ch dt] ++ o')).
    { intros E. rewrite E, app_nil_r. now apply XInv_got. }
    destruct ev as [k|rch rdt].
    2:{ cbn in Epk. injection Epk as <- <-. apply Hign. now apply x_on_packet_other. }
    cbn [xpacket_of] in Epk.
    destruct (nth_error (sends o) k) as [rq|] eqn:Erq; [|discriminate].
    destruct (xdev_reply d rq) as [rp|] eqn:Erp; [|discriminate].
    cbn [option_map] in Epk. apply Some_inj in Epk. injection Epk as <- <-.
    (* every request sent so far is the query of an extended id *)
    assert (Hrq : forall l, sends o = map ext_req l -> (forall i, In i l -> In i xs) ->
                  exists j b, In j l /\ nth_error l k = Some j /\ In j xs /\ 0 <= j < 65536 /\ rp = ext_req j ++ [b]).
    { intros l Hs Hsub. rewrite Hs in Erq. rewrite nth_error_map in Erq.
      destruct (nth_error l k) as [j|] eqn:Ej; [|discriminate]. cbn [option_map] in Erq. apply Some_inj in Erq. subst rq.
      pose proof (nth_error_In _ _ Ej) as Hin. destruct (xs_info j (Hsub j Hin)) as [Hr [b Hb]].
      rewrite (ext_req_reply d j b Hr Hb) in Erp. apply Some_inj in Erp. subst rp.
      exists j, b. split; [exact Hin|split; [reflexivity|split; [exact (Hsub j Hin)|split; [exact Hr|reflexivity]]]]. }
    destruct HI as [done cur rest o Hxs Hs Hf Hr | o Hne Hs Hf Hr | o Hnil Hs Hf Hr].
    - assert (Hsub : forall i, In i (done ++ [cur]) -> In i xs).
      { intros i Hi. rewrite Hxs. apply in_app_iff in Hi. apply in_app_iff.
        destruct Hi as [Hi|[->|[]]]; [now left|right; now left]. }
      destruct (Hrq _ Hs Hsub) as (j & b & Hjin & Hjk & Hjxs & Hjr & ->).
      rewrite x_on_packet_ext by (auto; reflexivity). cbn [x_req x_toc x_count x_queue].
      destruct (cur =? j) eqn:Ecj; cbn [negb].
      2:{ rewrite app_nil_r. apply XInv_got. now eapply XRun. }
      assert (j = cur) by lia. subst j.
      assert (Hfound : match get_element_by_id cur (marks done t) with None => true | Some _ => false end = false).
      { pose proof (found_after_marks done cur Hjxs) as Hfo.
        destruct (get_element_by_id cur (marks done t)); [reflexivity|now elim Hfo]. }
      rewrite Hfound, andb_false_r.
      assert (Ht' : (if b =? 1 then map_toc (mark cur) (marks done t) else marks done t) = marks (done ++ [cur]) t).
      { rewrite marks_snoc. unfold pers_id.
        destruct (xs_info cur Hjxs) as [_ [b' Hb']].
        (* the byte in the reply is the device's byte for that id *)
        assert (b = b').
        { pose proof (ext_req_reply d cur b' Hjr Hb') as E1.
          rewrite Hs in Erq. rewrite nth_error_map, Hjk in Erq. cbn [option_map] in Erq. apply Some_inj in Erq. subst rq.
          rewrite E1 in Erp. apply Some_inj in Erp. apply app_inv_head in Erp. now injection Erp. }
        subst b'. rewrite Hb'. destruct (b =? 1) eqn:Eb.
        - assert (b = 1) by lia. subst b. reflexivity.
        - destruct b as [|p|p]; try reflexivity. destruct p; try reflexivity. discriminate. }
      cbn zeta. rewrite Ht'.
      replace (Z.of_nat (S (List.length rest)) - 1) with (Z.of_nat (List.length rest)) by lia.
      destruct rest as [|i q].
      + cbn [List.length Z.of_nat]. change (0 =? 0) with true. cbv iota.
        assert (Exs : xs = done ++ [cur]) by exact Hxs.
        rewrite <- Exs.
        apply XDone; rewrite ?sends_app, ?fin_app, ?raised_app; cbn [sends raised finished_count flat_map filter app List.length];
          rewrite ?app_nil_r; auto; try lia.
        * rewrite Exs. intros E. now destruct done.
        * rewrite Hs, Exs. reflexivity.
      + destruct (Z.of_nat (List.length (i :: q)) =? 0) eqn:E0; [cbn [List.length] in E0; lia|].
        replace (Z.of_nat (List.length (i :: q))) with (Z.of_nat (S (List.length q))) by reflexivity.
        apply (XRun (done ++ [cur]) i q); rewrite ?sends_app, ?fin_app, ?raised_app;
          cbn [sends raised finished_count flat_map filter app List.length]; rewrite ?app_nil_r; auto; try lia.
        * rewrite Hxs, <- app_assoc. reflexivity.
        * rewrite Hs, !map_app. reflexivity.
    - destruct (Hrq _ Hs (fun i H => H)) as (j & b & _ & _ & _ & Hjr & ->).
      apply Hign. rewrite x_on_packet_ext by (auto; reflexivity). cbn [x_req].
      destruct (-1 =? j) eqn:E; [lia|reflexivity].
    - rewrite Hs in Erq. destruct k; discriminate.
  Qed.

  Lemma XInv_xrun : forall evs s o,
    XInv s o -> xadmissible evs -> let '(s', o') := xrun d s o evs in XInv s' o'.
  Proof.
    induction evs as [|ev evs IH]; intros s o HI Hadm; cbn [xrun]; [exact HI|].
    inversion Hadm as [|? ? Hev Hrest]; subst.
    pose proof (XInv_step s o ev HI Hev) as Hst.
    destruct (xpacket_of d o ev) as [[ch dt]|].
    - destruct (x_on_packet s ch dt) as [s1 o1]. now apply IH.
    - now apply IH.
  Qed.

  (* all marks together: exactly the extended parameters the device reports as persistent *)
  Definition final_mark (e : elem) : elem :=
    if e_extended e && pers_id (e_ident e) then set_pers e else e.

  Lemma marks_as_map : forall l,
    marks l t = map_toc (fun e => if existsb (fun i => pers_id i && (e_ident e =? i)) l then set_pers e else e) t.
  Proof.
    induction l as [|i l IH] using rev_ind.
    - cbn. now rewrite map_toc_id.
    - rewrite marks_snoc, IH. destruct (pers_id i) eqn:Ep.
      + rewrite map_toc_comp. apply map_toc_ext. intros e _. rewrite existsb_app. cbn [existsb]. rewrite Ep, orb_false_r.
        cbn [andb]. unfold mark.
        destruct (existsb (fun i0 => pers_id i0 && (e_ident e =? i0)) l); cbn [orb].
        * destruct (e_ident (set_pers e) =? i); reflexivity.
        * destruct (e_ident e =? i); reflexivity.
      + apply map_toc_ext. intros e _. rewrite existsb_app. cbn [existsb]. rewrite Ep. cbn [andb orb].
        now rewrite orb_false_r.
  Qed.

  Lemma marks_final : marks xs t = map_toc final_mark t.
  Proof.
    rewrite marks_as_map. apply map_toc_ext. intros e He. unfold final_mark.
    assert (E : existsb (fun i => pers_id i && (e_ident e =? i)) xs = e_extended e && pers_id (e_ident e)).
    { destruct (existsb (fun i => pers_id i && (e_ident e =? i)) xs) eqn:Ex.
      - apply existsb_exists in Ex. destruct Ex as (i & Hi & Hpi). apply andb_true_iff in Hpi. destruct Hpi as [Hp Heq].
        assert (e_ident e = i) by lia. subst i.
        destruct (xs_elem _ Hi) as (e' & Hin' & Hx' & Hid').
        assert (e' = e) by (apply Hinj; auto). subst e'. now rewrite Hx', Hp.
      - destruct (e_extended e) eqn:Hx; [|reflexivity]. cbn [andb].
        destruct (pers_id (e_ident e)) eqn:Hp; [|reflexivity].
        assert (Hin : In (e_ident e) xs).
        { unfold xs, ext_ids. apply in_map. apply filter_In. now split. }
        pose proof (existsb_exists (fun i => pers_id i && (e_ident e =? i)) xs) as [_ Hex].
        rewrite Hex in Ex; [discriminate|]. exists (e_ident e). split; [exact Hin|]. rewrite Hp. cbn. lia. }
    now rewrite E.
  Qed.
End Ext.

Lemma persistent_marker : forall (t : toc) (d : xdev) (evs : list aev),
  NoDup (map e_ident (values t)) ->
  (forall e, In e (values t) ->
     0 <= e_ident e < 65536 /\ (e_extended e = true -> exists b, assoc (e_ident e) d = Some b)) ->
  xadmissible evs ->
  let '(s, o) := xfetch t d evs in
  raised o = [] /\ (finished_count o <= 1)%nat /\
  (finished_count o = 1%nat ->
     sends o = map ext_req (ext_ids t) /\
     x_toc s = map_toc (fun e => if e_extended e && match assoc (e_ident e) d with Some 1 => true | _ => false end
                                 then set_pers e else e) t).
Proof.
  intros t d evs Hnd Hr Hadm. unfold xfetch, xstart.
  assert (Hinj : forall e e', In e (values t) -> In e' (values t) -> e_ident e = e_ident e' -> e = e')
    by (intros a b Ha Hb E; exact (NoDup_map_inj e_ident (values t) a b Hnd Ha Hb E)).
  pose proof (XInv_xrun t d Hinj Hr evs) as H.
  assert (H0 : let '(s0, o0) := match ext_ids t with
                                | [] => (mkX [] (-1) (-1) t false false, [Finished])
                                | i :: q => (mkX q i (Z.of_nat (S (List.length q))) t true true, [Send (ext_req i)])
                                end in XInv t d s0 o0).
  { destruct (ext_ids t) as [|i q] eqn:E.
    - apply XNone; auto.
    - apply (XRun t d [] i q); auto. }
  destruct (match ext_ids t with [] => _ | i :: q => _ end) as [s0 o0].
  specialize (H s0 o0 H0 Hadm).
  destruct (xrun d s0 o0 evs) as [s o].
  destruct H as [done cur rest o Hxs Hs Hf Hra | o Hne Hs Hf Hra | o Hnil Hs Hf Hra]; rewrite ?Hf.
  - repeat split; auto; try lia; discriminate.
  - split; [exact Hra|split; [lia|]]. intros _. split; [exact Hs|].
    cbn [x_toc]. now rewrite (marks_final t d Hinj Hr).
  - split; [exact Hra|split; [lia|]]. intros _. rewrite Hnil. split; [exact Hs|].
    cbn [x_toc]. pose proof (marks_final t d Hinj Hr) as Hm. unfold final_mark, pers_id in Hm. rewrite <- Hm, Hnil. reflexivity.
Qed.

(* ---------------------------------------------------------------- stale extended-type replies (earlier session) *)

(* an extended-type reply left over from an earlier session is ignored when it is for another parameter id
   than the one in flight (any answer byte, any trailing bytes) *)
Definition stale_ext_ok (s : xstate) (dt : list Z) : Prop :=
  exists lo hi b rest, dt = 2 :: lo :: hi :: b :: rest /\ le_val [lo; hi] <> x_req s.

Definition xev_ok (s : xstate) (ev : aev) : Prop :=
  match ev with
  | Deliver _ => True
  | Raw ch dt => not_ext_reply ch dt \/ (ch = 3 /\ stale_ext_ok s dt)
  end.

Fixpoint xall_ok (d : xdev) (s : xstate) (outs : list out) (evs : list aev) : Prop :=
  match evs with
  | [] => True
  | ev :: evs' =>
      xev_ok s ev /\
      match xpacket_of d outs ev with
      | None => xall_ok d s outs evs'
      | Some (ch, dt) => let '(s', o) := x_on_packet s ch dt in xall_ok d s' (outs ++ Got ch dt :: o) evs'
      end
  end.

Lemma stale_ext_ignored s dt : stale_ext_ok s dt -> x_on_packet s 3 dt = (s, []).
Proof.
  intros (lo & hi & b & rest & -> & Hne). unfold x_on_packet. destruct (x_reg s); [|reflexivity].
  cbn [negb]. change (3 =? 3) with true. change (2 =? 2) with true. cbn [negb tl firstn List.length].
  change (2 <? 2)%nat with false. destruct (x_req s =? le_val [lo; hi]) eqn:E; [lia|reflexivity].
Qed.

Lemma XInv_xrun' t d :
  (forall e e', In e (values t) -> In e' (values t) -> e_ident e = e_ident e' -> e = e') ->
  (forall e, In e (values t) ->
     0 <= e_ident e < 65536 /\ (e_extended e = true -> exists b, assoc (e_ident e) d = Some b)) ->
  forall evs s o, XInv t d s o -> xall_ok d s o evs -> let '(s', o') := xrun d s o evs in XInv t d s' o'.
Proof.
  intros Hinj Hr. induction evs as [|ev evs IH]; intros s o HI Hall; cbn [xrun]; [exact HI|].
  cbn [xall_ok] in Hall. destruct Hall as [Hev Hrest].
  assert (Hst : match xpacket_of d o ev with
                | None => True
                | Some (ch, dt) => let '(s', o') := x_on_packet s ch dt in XInv t d s' (o ++ Got ch dt :: o')
                end).
  { destruct ev as [k|ch dt].
    - exact (XInv_step t d Hinj Hr s o (Deliver k) HI I).
    - destruct Hev as [Hn|[-> Hs]].
      + exact (XInv_step t d Hinj Hr s o (Raw ch dt) HI Hn).
      + cbn [xpacket_of]. rewrite (stale_ext_ignored s dt Hs).
        change (o ++ [Got 3 dt]) with (o ++ [Got 3 dt]). now apply XInv_got. }
  destruct (xpacket_of d o ev) as [[ch dt]|].
  - destruct (x_on_packet s ch dt) as [s1 o1]. now apply IH.
  - now apply IH.
Qed.

Lemma persistent_marker_stale : forall (t : toc) (d : xdev) (evs : list aev),
  (forall e e', In e (values t) -> In e' (values t) -> e_ident e = e_ident e' -> e = e') ->
  (forall e, In e (values t) ->
     0 <= e_ident e < 65536 /\ (e_extended e = true -> exists b, assoc (e_ident e) d = Some b)) ->
  (let '(s0, o0) := xstart t in xall_ok d s0 o0 evs) ->
  let '(s, o) := xfetch t d evs in
  raised o = [] /\ (finished_count o <= 1)%nat /\
  (finished_count o = 1%nat ->
     sends o = map ext_req (ext_ids t) /\
     x_toc s = map_toc (fun e => if e_extended e && match assoc (e_ident e) d with Some 1 => true | _ => false end
                                 then set_pers e else e) t).
Proof.
  intros t d evs Hinj Hr Hall. unfold xfetch, xstart in *.
  pose proof (XInv_xrun' t d Hinj Hr evs) as H.
  assert (H0 : let '(s0, o0) := match ext_ids t with
                                | [] => (mkX [] (-1) (-1) t false false, [Finished])
                                | i :: q => (mkX q i (Z.of_nat (S (List.length q))) t true true, [Send (ext_req i)])
                                end in XInv t d s0 o0).
  { destruct (ext_ids t) as [|i q] eqn:E.
    - apply XNone; auto.
    - apply (XRun t d [] i q); auto. }
  destruct (match ext_ids t with [] => _ | i :: q => _ end) as [s0 o0].
  specialize (H s0 o0 H0 Hall).
  destruct (xrun d s0 o0 evs) as [s o].
  pose proof (marks_final t d Hinj Hr) as Hm. unfold final_mark, pers_id in Hm.
  destruct H as [done cur rest o Hxs Hs Hf Hra | o Hne Hs Hf Hra | o Hnil Hs Hf Hra]; rewrite ?Hf.
  - repeat split; auto; try lia; discriminate.
  - split; [exact Hra|split; [lia|]]. intros _. split; [exact Hs|]. cbn [x_toc]. exact Hm.
  - split; [exact Hra|split; [lia|]]. intros _. rewrite Hnil. split; [exact Hs|].
    cbn [x_toc]. rewrite <- Hm, Hnil. reflexivity.
Qed.

(* protocol limitation: a stale extended-type reply for the very id in flight is taken as the answer *)
Definition lim_ptoc : toc :=
  [([112], [([97], mkElem ParamCls 0 [112] [97] "uint8_t" "<B" 0 true false)])].

Lemma stale_ext_indistinguishable :
  let '(s, o) := xfetch lim_ptoc [(0, 0)] [Raw 3 [2; 0; 0; 1]; Deliver 0] in
  finished_count o = 1%nat /\
  option_map e_persistent (get_element [112] [97] (x_toc s)) = Some true.
Proof. vm_compute. split; reflexivity. Qed.

(* ---------------------------------------------------------------- the table at `connected` *)

Lemma dget_map_x {V W} (f : V -> W) k dd :
  dget k (map (fun kv => (fst kv, f (snd kv))) dd) = option_map f (dget k dd).
Proof.
  induction dd as [|[k' v] dd IH]; [reflexivity|]. cbn [map dget fst snd].
  destruct (zlist_eqb k k'); [reflexivity|exact IH].
Qed.

Lemma get_element_map_toc f g n t : get_element g n (map_toc f t) = option_map f (get_element g n t).
Proof.
  unfold get_element, map_toc.
  rewrite (dget_map_x (fun dd => map (fun ne => (fst ne, f (snd ne))) dd)).
  destruct (dget g t) as [dd|]; cbn [option_map]; [apply dget_map_x|reflexivity].
Qed.

Lemma spec_ident_inj c items :
  forall e e', In e (values (spec_toc c items)) -> In e' (values (spec_toc c items)) -> e_ident e = e_ident e' -> e = e'.
Proof.
  intros e e' He He' Hid.
  destruct (In_get_element e _ (wf_toc_of_elems _) He) as (g & n & Hg).
  destruct (In_get_element e' _ (wf_toc_of_elems _) He') as (g' & n' & Hg').
  destruct (get_spec_inv c items g n e Hg) as (j & it & Hj & -> & _).
  destruct (get_spec_inv c items g' n' e' Hg') as (j' & it' & Hj' & -> & _).
  rewrite !spec_elem_ident in Hid. assert (j = j') by lia. subst j'. congruence.
Qed.

(* Param.refresh_toc as a whole: download (any admissible schedule incl. stale packets) then the extended-type
   phase (any admissible schedule incl. stale replies for other ids) on a device whose answer for extended
   parameter i is 1 iff it is persistent.  When the second completion fires — the moment `connected` is
   signalled — every parameter of the device is in the table with its index, type, access, extended flag AND the
   device's persistence. *)
Lemma param_table_at_connected : forall items (d : xdev) xevs i it,
  NoDup (map key items) -> Z.of_nat (List.length items) < 65536 ->
  (forall j jt, nth_error items j = Some jt -> di_ext jt = true ->
                assoc (Z.of_nat j) d = Some (if di_pers jt then 1 else 0)) ->
  nth_error items i = Some it ->
  (let '(s0, o0) := xstart (spec_toc ParamCls items) in xall_ok d s0 o0 xevs) ->
  let '(s, o) := xfetch (spec_toc ParamCls items) d xevs in
  finished_count o = 1%nat ->
  get_element (di_group it) (di_name it) (x_toc s) =
  Some (let e := spec_elem ParamCls (Z.of_nat i) it in if di_ext it && di_pers it then set_pers e else e).
Proof.
  intros items d xevs i it Hnd Hn Hd Hi Hall.
  assert (Hr : forall e, In e (values (spec_toc ParamCls items)) ->
     0 <= e_ident e < 65536 /\ (e_extended e = true -> exists b, assoc (e_ident e) d = Some b)).
  { intros e He. destruct (In_get_element e _ (wf_toc_of_elems _) He) as (g & n & Hg).
    destruct (get_spec_inv ParamCls items g n e Hg) as (j & jt & Hj & -> & _).
    assert (j < List.length items)%nat by (apply nth_error_Some; congruence).
    rewrite spec_elem_ident. split; [lia|]. cbn [spec_elem e_extended]. intros Hx. eexists. now apply (Hd j jt). }
  pose proof (persistent_marker_stale (spec_toc ParamCls items) d xevs (spec_ident_inj ParamCls items) Hr Hall) as H.
  destruct (xfetch (spec_toc ParamCls items) d xevs) as [s o]. destruct H as (_ & _ & H).
  intros Hf. destruct (H Hf) as [_ Ht]. rewrite Ht, get_element_map_toc.
  rewrite (get_spec ParamCls items i it Hnd Hi). cbn [option_map]. f_equal.
  cbn [spec_elem e_extended e_ident].
  destruct (di_ext it) eqn:Ex; cbn [andb]; [|reflexivity].
  rewrite (Hd i it Hi Ex). destruct (di_pers it); reflexivity.
Qed.

(* an abandoned extended-type fetch is silent: whatever arrives in a later session (its own late answer, the new
   session's answers for the same ids) changes nothing and fires nothing *)
Lemma abandoned_ext_fetch_silent s ch dt : x_on_packet (x_disconnect s) ch dt = (x_disconnect s, []).
Proof. reflexivity. Qed.
