(* C03/Lookup.v — the three lookups of Toc agree on a downloaded table *)
From CF Require Import Common.Bytes C03.Model C03.Proofs C03.Fetch.
From Coq Require Import ZifyBool.
Open Scope Z_scope.

Lemma zlist_eqb_refl a : zlist_eqb a a = true.
Proof. now apply zlist_eqb_spec. Qed.

Lemma zlist_eqb_neq a b : a <> b -> zlist_eqb a b = false.
Proof. intros H. destruct (zlist_eqb a b) eqn:E; [|reflexivity]. apply zlist_eqb_spec in E. contradiction. Qed.

(* ---------------------------------------------------------------- dictionaries *)

Lemma dget_dset_same {V} k (v : V) d : dget k (dset k v d) = Some v.
Proof.
  induction d as [|[k' v'] d IH]; cbn [dset dget].
  - now rewrite zlist_eqb_refl.
  - destruct (zlist_eqb k k') eqn:E; cbn [dget]; rewrite E; [reflexivity|exact IH].
Qed.

Lemma dget_dset_other {V} k k2 (v : V) d : k2 <> k -> dget k2 (dset k v d) = dget k2 d.
Proof.
  intros H. induction d as [|[k' v'] d IH]; cbn [dset dget].
  - now rewrite zlist_eqb_neq.
  - destruct (zlist_eqb k k') eqn:E; cbn [dget].
    + apply zlist_eqb_spec in E. subst k'. now rewrite zlist_eqb_neq.
    + now rewrite IH.
Qed.

Lemma dget_In {V} k (v : V) d : dget k d = Some v -> In (k, v) d.
Proof.
  induction d as [|[k' v'] d IH]; cbn [dget]; [discriminate|].
  destruct (zlist_eqb k k') eqn:E.
  - apply zlist_eqb_spec in E. subst. intros H. injection H as <-. now left.
  - intros H. right. now apply IH.
Qed.

Lemma In_dget {V} k (v : V) d : NoDup (map fst d) -> In (k, v) d -> dget k d = Some v.
Proof.
  induction d as [|[k' v'] d IH]; intros Hnd Hin; [contradiction|].
  cbn [map fst] in Hnd. inversion Hnd as [|? ? Hni Hnd']; subst.
  cbn [dget]. destruct Hin as [Heq|Hin].
  - injection Heq as -> ->. now rewrite zlist_eqb_refl.
  - destruct (zlist_eqb k k') eqn:E.
    + apply zlist_eqb_spec in E. subst k'. exfalso. apply Hni.
      change k with (fst (k, v)). now apply in_map.
    + now apply IH.
Qed.

Lemma dset_In {V} k (v : V) d x : In x (dset k v d) -> In x d \/ x = (k, v).
Proof.
  induction d as [|[k' v'] d IH]; cbn [dset].
  - intros [H|[]]. now right.
  - destruct (zlist_eqb k k') eqn:E.
    + apply zlist_eqb_spec in E. subst k'. intros [H|H]; [now right|left; now right].
    + intros [H|H]; [left; now left|]. destruct (IH H) as [H1|H1]; [left; now right|now right].
Qed.

Lemma dset_keys {V} k (v : V) d :
  map fst (dset k v d) = if existsb (zlist_eqb k) (map fst d) then map fst d else map fst d ++ [k].
Proof.
  induction d as [|[k' v'] d IH]; cbn [dset map fst existsb]; [reflexivity|].
  destruct (zlist_eqb k k') eqn:E; cbn [map fst orb]; [reflexivity|].
  rewrite IH. destruct (existsb (zlist_eqb k) (map fst d)); reflexivity.
Qed.

Lemma NoDup_app_snoc {A} (l : list A) a : NoDup l -> ~ In a l -> NoDup (l ++ [a]).
Proof.
  induction l as [|x l IH]; intros Hnd Hni; cbn [app].
  - constructor; [intros []|constructor].
  - inversion Hnd as [|? ? Hx Hl]; subst. constructor.
    + rewrite in_app_iff. intros [H|[H|[]]]; [contradiction|]. apply Hni. now left.
    + apply IH; [exact Hl|]. intros H. apply Hni. now right.
Qed.

Lemma dset_nodup {V} k (v : V) d : NoDup (map fst d) -> NoDup (map fst (dset k v d)).
Proof.
  intros H. rewrite dset_keys. destruct (existsb (zlist_eqb k) (map fst d)) eqn:E; [exact H|].
  apply NoDup_app_snoc; [exact H|].
  intros Hin. assert (existsb (zlist_eqb k) (map fst d) = true); [|congruence].
  apply existsb_exists. exists k. split; [exact Hin|apply zlist_eqb_refl].
Qed.

(* ---------------------------------------------------------------- add_element / get_element *)

Definition keyb (g n : list Z) (e : elem) : bool := zlist_eqb g (e_group e) && zlist_eqb n (e_name e).

Lemma get_element_add g n e t :
  get_element g n (add_element e t) = if keyb g n e then Some e else get_element g n t.
Proof.
  unfold get_element, add_element, keyb.
  destruct (zlist_eqb g (e_group e)) eqn:Eg; cbn [andb].
  - apply zlist_eqb_spec in Eg. subst g.
    destruct (dget (e_group e) t) as [d|] eqn:Ed; rewrite dget_dset_same.
    + destruct (zlist_eqb n (e_name e)) eqn:En.
      * apply zlist_eqb_spec in En. subst n. apply dget_dset_same.
      * apply dget_dset_other. intros ->. now rewrite zlist_eqb_refl in En.
    + cbn [dget]. destruct (zlist_eqb n (e_name e)); reflexivity.
  - assert (Hne : g <> e_group e) by (intros ->; now rewrite zlist_eqb_refl in Eg).
    destruct (dget (e_group e) t); now rewrite dget_dset_other.
Qed.

Definition wf (t : toc) : Prop :=
  NoDup (map fst t) /\ Forall (fun gd => NoDup (map fst (snd gd))) t.

Lemma wf_add e t : wf t -> wf (add_element e t).
Proof.
  intros [H1 H2]. unfold add_element.
  destruct (dget (e_group e) t) as [d|] eqn:Ed; split; try now apply dset_nodup.
  - apply Forall_forall. intros x Hx. apply dset_In in Hx. destruct Hx as [Hx| ->].
    + rewrite Forall_forall in H2. now apply H2.
    + cbn [snd]. apply dset_nodup. apply dget_In in Ed.
      rewrite Forall_forall in H2. apply (H2 _ Ed).
  - apply Forall_forall. intros x Hx. apply dset_In in Hx. destruct Hx as [Hx| ->].
    + rewrite Forall_forall in H2. now apply H2.
    + cbn. constructor; [intros []|constructor].
Qed.

Lemma wf_toc_of_elems es : wf (toc_of_elems es).
Proof.
  unfold toc_of_elems.
  assert (G : forall t, wf t -> wf (fold_left (fun t e => add_element e t) es t)).
  { induction es as [|e es IH]; intros t Ht; cbn [fold_left]; [exact Ht|]. apply IH. now apply wf_add. }
  apply G. split; constructor.
Qed.

Lemma get_element_In g n e t : get_element g n t = Some e -> In e (values t).
Proof.
  unfold get_element, values. destruct (dget g t) as [d|] eqn:Ed; [|discriminate].
  intros H. apply in_flat_map. exists (g, d). split; [now apply dget_In|].
  cbn [snd]. change e with (snd (n, e)). apply in_map. now apply dget_In.
Qed.

Lemma In_get_element e t : wf t -> In e (values t) -> exists g n, get_element g n t = Some e.
Proof.
  intros [H1 H2] Hin. unfold values in Hin. apply in_flat_map in Hin. destruct Hin as ([g d] & Hgd & He).
  cbn [snd] in He. apply in_map_iff in He. destruct He as ([n e'] & Heq & Hne). cbn [snd] in Heq. subst e'.
  exists g, n. unfold get_element. rewrite (In_dget g d t H1 Hgd).
  rewrite Forall_forall in H2. apply In_dget; [apply (H2 _ Hgd)|exact Hne].
Qed.

(* ---------------------------------------------------------------- the table built from the device entries *)

Lemma spec_toc_snoc c items x :
  spec_toc c (items ++ [x]) = add_element (spec_elem c (Z.of_nat (List.length items)) x) (spec_toc c items).
Proof. unfold spec_toc. rewrite spec_elems_app. cbn [spec_elems]. now rewrite toc_of_elems_snoc. Qed.

Definition key (it : ditem) : list Z * list Z := (di_group it, di_name it).

Lemma spec_elem_key c i it : e_group (spec_elem c i it) = di_group it /\ e_name (spec_elem c i it) = di_name it.
Proof. destruct c; split; reflexivity. Qed.

Lemma spec_elem_ident c i it : e_ident (spec_elem c i it) = i.
Proof. destruct c; reflexivity. Qed.

Lemma keyb_spec g n c i it : keyb g n (spec_elem c i it) = true <-> (g, n) = key it.
Proof.
  unfold keyb, key. destruct (spec_elem_key c i it) as [-> ->].
  rewrite andb_true_iff, !zlist_eqb_spec. split; [intros [-> ->]; reflexivity|intros H; now injection H].
Qed.

Lemma NoDup_snoc {A} (l : list A) a : NoDup (l ++ [a]) -> NoDup l /\ ~ In a l.
Proof.
  intros H. split.
  - apply NoDup_remove_1 in H. now rewrite app_nil_r in H.
  - apply NoDup_remove_2 in H. now rewrite app_nil_r in H.
Qed.

(* every element of the table is the element of some device entry (no distinctness needed) *)
Lemma get_spec_inv c : forall items g n e,
  get_element g n (spec_toc c items) = Some e ->
  exists j it, nth_error items j = Some it /\ e = spec_elem c (Z.of_nat j) it /\ (g, n) = key it.
Proof.
  induction items as [|x items IH] using rev_ind; intros g n e H.
  - discriminate.
  - rewrite spec_toc_snoc, get_element_add in H.
    destruct (keyb g n (spec_elem c (Z.of_nat (List.length items)) x)) eqn:Ek.
    + injection H as <-. exists (List.length items), x. split; [|split].
      * rewrite nth_error_app2 by lia. now rewrite Nat.sub_diag.
      * reflexivity.
      * now apply keyb_spec in Ek.
    + destruct (IH g n e H) as (j & it & Hj & He & Hk). exists j, it. split; [|split]; auto.
      rewrite nth_error_app1; [exact Hj|]. apply nth_error_Some. congruence.
Qed.

Lemma get_spec c : forall items i it,
  NoDup (map key items) -> nth_error items i = Some it ->
  get_element (di_group it) (di_name it) (spec_toc c items) = Some (spec_elem c (Z.of_nat i) it).
Proof.
  induction items as [|x items IH] using rev_ind; intros i it Hnd Hi.
  - destruct i; discriminate.
  - rewrite map_app in Hnd. cbn [map] in Hnd. apply NoDup_snoc in Hnd. destruct Hnd as [Hnd Hnew].
    rewrite spec_toc_snoc, get_element_add.
    destruct (Nat.lt_ge_cases i (List.length items)) as [Hlt|Hge].
    + rewrite nth_error_app1 in Hi by exact Hlt.
      destruct (keyb (di_group it) (di_name it) (spec_elem c (Z.of_nat (List.length items)) x)) eqn:Ek.
      * apply keyb_spec in Ek. exfalso. apply Hnew. fold (key it) in Ek. rewrite <- Ek.
        apply in_map. eapply nth_error_In. exact Hi.
      * now apply IH.
    + rewrite nth_error_app2 in Hi by exact Hge.
      destruct (i - List.length items)%nat as [|m] eqn:Em; cbn in Hi; [|destruct m; discriminate].
      injection Hi as <-. assert (i = List.length items) by lia. subst i.
      assert (Ek : keyb (di_group x) (di_name x) (spec_elem c (Z.of_nat (List.length items)) x) = true)
        by now apply keyb_spec.
      now rewrite Ek.
Qed.

Lemma get_by_id_spec c items i it :
  NoDup (map key items) -> nth_error items i = Some it ->
  get_element_by_id (Z.of_nat i) (spec_toc c items) = Some (spec_elem c (Z.of_nat i) it).
Proof.
  intros Hnd Hi. unfold get_element_by_id.
  pose proof (get_element_In _ _ _ _ (get_spec c items i it Hnd Hi)) as Hin.
  destruct (find (fun e => e_ident e =? Z.of_nat i) (values (spec_toc c items))) as [e'|] eqn:Ef.
  - apply find_some in Ef. destruct Ef as [Hin' Hid].
    destruct (In_get_element e' _ (wf_toc_of_elems _) Hin') as (g & n & Hg).
    destruct (get_spec_inv c items g n e' Hg) as (j & it' & Hj & He & _).
    subst e'. rewrite spec_elem_ident in Hid. assert (j = i) by lia. subst j.
    rewrite Hi in Hj. injection Hj as <-. reflexivity.
  - exfalso. pose proof (find_none _ _ Ef _ Hin) as H. cbn beta in H.
    rewrite spec_elem_ident in H. lia.
Qed.

Lemma split_dot g n : ~ In 46 g -> ~ In 46 n -> split_on 46 (g ++ [46] ++ n) = [g; n].
Proof. intros Hg Hn. cbn [app]. rewrite split_on_app by exact Hg. now rewrite split_on_nosep. Qed.

Lemma lookup_agree c items i it :
  NoDup (map key items) -> nth_error items i = Some it ->
  let t := spec_toc c items in
  let e := spec_elem c (Z.of_nat i) it in
  get_element (di_group it) (di_name it) t = Some e /\
  get_element_by_id (Z.of_nat i) t = Some e /\
  (~ In 46 (di_group it) -> ~ In 46 (di_name it) ->
   get_element_id (di_group it ++ [46] ++ di_name it) t = Ok (Some (Z.of_nat i)) /\
   get_element_by_complete_name (di_group it ++ [46] ++ di_name it) t = Some e).
Proof.
  intros Hnd Hi t e.
  pose proof (get_spec c items i it Hnd Hi) as H1.
  pose proof (get_by_id_spec c items i it Hnd Hi) as H2.
  split; [exact H1|split; [exact H2|]].
  intros Hg Hn. unfold get_element_by_complete_name, get_element_id.
  rewrite (split_dot _ _ Hg Hn). fold t. fold t in H1, H2. rewrite H1. cbn [option_map].
  unfold e. rewrite spec_elem_ident. split; [reflexivity|exact H2].
Qed.

(* a (group, name) pair that the device does not have is not found, and an id beyond the table neither *)
Lemma lookup_absent c items g n :
  ~ In (g, n) (map key items) -> get_element g n (spec_toc c items) = None.
Proof.
  intros H. destruct (get_element g n (spec_toc c items)) as [e|] eqn:E; [|reflexivity].
  destruct (get_spec_inv c items g n e E) as (j & it & Hj & _ & Hk).
  exfalso. apply H. rewrite Hk. apply in_map. eapply nth_error_In. exact Hj.
Qed.

Lemma lookup_id_absent c items i :
  ~ (0 <= i < Z.of_nat (List.length items)) -> get_element_by_id i (spec_toc c items) = None.
Proof.
  intros H. unfold get_element_by_id.
  destruct (find (fun e => e_ident e =? i) (values (spec_toc c items))) as [e'|] eqn:Ef; [|reflexivity].
  apply find_some in Ef. destruct Ef as [Hin' Hid].
  destruct (In_get_element e' _ (wf_toc_of_elems _) Hin') as (g & n & Hg).
  destruct (get_spec_inv c items g n e' Hg) as (j & it' & Hj & He & _).
  subst e'. rewrite spec_elem_ident in Hid. exfalso. apply H.
  assert (j < List.length items)%nat by (apply nth_error_Some; congruence). lia.
Qed.
