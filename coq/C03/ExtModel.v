(* C03/ExtModel.v — executable model of the extended-type phase of Param.refresh_toc
   (refresh_done + _ExtendedTypeFetcher in cflib/crazyflie/param.py), at the granularity "the worker
   thread runs until it blocks" (on its request queue or on its lock).

   Deviation kept on purpose: `mark` sets the persistent flag of EVERY element carrying the answered id,
   the code (Toc.get_element_by_id(...).mark_persistent()) of the first one in iteration order; the two
   coincide when ids are pairwise distinct, which the theorem assumes and downloaded tables satisfy. *)
From CF Require Export C03.Model.
Open Scope Z_scope.

Definition set_pers (e : elem) : elem :=
  mkElem (e_cls e) (e_ident e) (e_group e) (e_name e) (e_ctype e) (e_pytype e) (e_access e) (e_extended e) true.

Definition map_toc (f : elem -> elem) (t : toc) : toc :=
  map (fun gd => (fst gd, map (fun ne => (fst ne, f (snd ne))) (snd gd))) t.

Definition mark (i : Z) (e : elem) : elem := if e_ident e =? i then set_pers e else e.

(* refresh_done: the extended elements in table iteration order *)
Definition ext_ids (t : toc) : list Z := map e_ident (filter e_extended (values t)).

(* struct.pack('<BH', MISC_GET_EXTENDED_TYPE, ident) *)
Definition ext_req (i : Z) : list Z := 2 :: le_bytes 2 i.

Record xstate := mkX {
  x_queue : list Z;      (* idents whose request is still in request_queue *)
  x_req : Z;             (* _req_param *)
  x_count : Z;           (* _count *)
  x_toc : toc;
  x_locked : bool;       (* _lock held: a request is outstanding *)
  x_reg : bool }.        (* an _ExtendedTypeFetcher exists; its port callback is never removed *)

(* refresh_done(): no extended element -> callback at once; otherwise the worker sends the first request *)
Definition xstart (t : toc) : xstate * list out :=
  match ext_ids t with
  | [] => (mkX [] (-1) (-1) t false false, [Finished])
  | i :: q => (mkX q i (Z.of_nat (S (List.length q))) t true true, [Send (ext_req i)])
  end.

(* _ExtendedTypeFetcher._new_packet_cb followed by the worker thread running until it blocks again *)
Definition x_on_packet (s : xstate) (chan : Z) (data : list Z) : xstate * list out :=
  if negb (x_reg s) then (s, []) else
  if negb (chan =? 3) then (s, []) else
  (* pk.data[0] == MISC_GET_EXTENDED_TYPE (fix 31eaf9d): value-updated notifications and replies to other
     misc commands for the same parameter are not answers; an empty packet raises IndexError *)
  match data with
  | [] => (s, [Raised IndexError])
  | cmd :: _ =>
  if negb (cmd =? 2) then (s, []) else
  let idb := firstn 2 (tl data) in
  if (List.length idb <? 2)%nat then (s, [Raised StructError]) else
  let var_id := le_val idb in
  if negb (x_req s =? var_id) then (s, []) else
  match nth_error data 3 with
  | None => (s, [Raised IndexError])
  | Some xt =>
      if (xt =? 1) && match get_element_by_id var_id (x_toc s) with None => true | Some _ => false end
      then (s, [Raised AttributeError]) else
      let t' := if xt =? 1 then map_toc (mark var_id) (x_toc s) else x_toc s in
      let cnt := x_count s - 1 in
      if cnt =? 0 then (mkX [] (-1) cnt t' false true, [Finished])
      else match x_queue s with
           | i :: q => (mkX q i cnt t' true true, [Send (ext_req i)])
           | [] => (mkX [] (-1) cnt t' false true, [])
           end
  end
  end.

(* device: extended type byte per parameter id (no answer for ids it does not know) *)
Definition xdev := list (Z * Z).

Definition xdev_reply (d : xdev) (rq : list Z) : option (list Z) :=
  match rq with
  | [2; lo; hi] => option_map (fun b => [2; lo; hi; b]) (assoc (lo + 256 * hi) d)
  | _ => None
  end.

Definition xpacket_of (d : xdev) (outs : list out) (ev : aev) : option (Z * list Z) :=
  match ev with
  | Deliver k =>
      match nth_error (sends outs) k with
      | Some rq => option_map (fun r => (3, r)) (xdev_reply d rq)
      | None => None
      end
  | Raw ch dt => Some (ch, dt)
  end.

Fixpoint xrun (d : xdev) (s : xstate) (outs : list out) (evs : list aev) : xstate * list out :=
  match evs with
  | [] => (s, outs)
  | ev :: evs' =>
      match xpacket_of d outs ev with
      | None => xrun d s outs evs'
      | Some (ch, dt) =>
          let '(s', o) := x_on_packet s ch dt in
          xrun d s' (outs ++ Got ch dt :: o) evs'
      end
  end.

Definition xfetch (t : toc) (d : xdev) (evs : list aev) : xstate * list out :=
  let '(s0, o0) := xstart t in xrun d s0 o0 evs.

(* what the adversary may deliver besides (duplicated, stale, delayed) extended-type replies: any packet on
   another channel, and on the misc channel any packet of another command (value-updated notifications,
   replies to persistent-store/-state/default-value requests), whatever parameter id it carries *)
Definition not_ext_reply (ch : Z) (dt : list Z) : Prop :=
  ch <> 3 \/ exists cmd rest, dt = cmd :: rest /\ cmd <> 2.

Definition xadmissible (evs : list aev) : Prop :=
  Forall (fun ev => match ev with Deliver _ => True | Raw ch dt => not_ext_reply ch dt end) evs.

Definition enc_xrun (r : xstate * list out) : list Z :=
  let '(s, o) := r in
  lenc (x_queue s) ++ [x_req s; x_count s; b2n (x_locked s)] ++ enc_toc (x_toc s) ++ flat_map enc_out o.

(* _ExtendedTypeFetcher._disconnected (fix F03b): the link went away, the fetch is abandoned — port callback
   removed, no completion callback, nothing in flight *)
Definition x_disconnect (s : xstate) : xstate := mkX [] (-1) (x_count s) (x_toc s) false false.
