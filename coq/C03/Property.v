(* C03/Property.v — property C03 (downloaded log and parameter tables equal the device tables).
   Theorems only; each is closed by `exact <lemma>` and followed by Print Assumptions.
   Model: C03/Model.v (Toc, TocFetcher, element parsers, TOC server, adversary), C03/ExtModel.v. *)
From CF Require Import Common.Bytes C03.Model C03.ExtModel C03.Proofs C03.Fetch C03.Lookup C03.Live C03.Ext C03.Restart C03.Stale C03.Version C03.Frame C03.Sequence.
Open Scope Z_scope.

(* Element decoding is the inverse of the firmware's wire encoding: for every entry with NUL-free
   ISO-8859-1 group and name and every log type code, the LogTocElement built from the ITEM reply is the
   device's entry (index, group, name, C type, unpack format; access 0). *)
Theorem C03_elem_roundtrip_log : forall i it tb,
  item_ok it -> type_byte LogCls it = Some tb ->
  log_parse i (tb :: di_group it ++ [0] ++ di_name it ++ [0]) = Ok (spec_elem LogCls i it).
Proof. exact log_roundtrip. Qed.
Print Assumptions C03_elem_roundtrip_log.

(* Same for parameters: all 11 type codes, with every combination of the extended (0x10), core (0x20)
   and read-only (0x40) bits. *)
Theorem C03_elem_roundtrip_param : forall i it tb,
  item_ok it -> type_byte ParamCls it = Some tb ->
  param_parse i (tb :: di_group it ++ [0] ++ di_name it ++ [0]) = Ok (spec_elem ParamCls i it).
Proof. exact param_roundtrip. Qed.
Print Assumptions C03_elem_roundtrip_param.

(* What spec_elem says: the element carries the device's index, names, C type (by name), access and
   extended attributes. *)
Theorem C03_elem_fields : forall c i it,
  let e := spec_elem c i it in
  e_cls e = c /\ e_ident e = i /\ e_group e = di_group it /\ e_name e = di_name it /\
  e_ctype e = c_name (di_type it) /\
  (c = ParamCls -> e_access e = (if di_ro it then 1 else 0) /\ e_extended e = di_ext it) /\
  (c = LogCls -> e_pytype e = c_fmt (di_type it)) /\
  (c = ParamCls -> di_type it <> F16 -> e_pytype e = c_fmt (di_type it)).
Proof. exact spec_elem_fields. Qed.
Print Assumptions C03_elem_fields.

(* The download.  For either element class, any cache behaviour, any protocol version (V2 iff >= 4),
   any device table of n entries (n < 65536 for V2, n < 256 for V1; n = 0 included) and EVERY schedule in
   which, at each step, the reply to any request sent so far in this fetch is delivered again (duplicates,
   stale, delayed) or a packet arrives on another channel:
   the callback never raises; the completion callback fires at most once; when it has fired the fetcher is
   unregistered and either (valid cache hit) the table is the cached one and only INFO was requested, or
   the table is exactly the device's (spec_toc), the requests were INFO, ITEM 0 .. ITEM n-1, each once and
   in order, and exactly that table was handed to the cache under the announced CRC; while it has not
   fired, the requests sent are a prefix of that sequence and nothing was stored. *)
Theorem C03_fetch_exact : forall c cache ver items raw crc extra evs,
  raw_items c items = Some raw -> Forall item_ok items -> 0 <= crc < 2 ^ 32 ->
  Z.of_nat (List.length items) < (if 4 <=? ver then 65536 else 256) ->
  admissible evs ->
  let '(s, o) := fetch c cache ver (mkDev raw crc extra) evs in
  raised o = [] /\ (finished_count o <= 1)%nat /\
  (finished_count o = 1%nat ->
     f_reg s = false /\
     match cache_hit c (cache crc) with
     | Some t => f_toc s = t /\ sends o = [info_req (4 <=? ver)] /\ inserts o = []
     | None => f_toc s = spec_toc c items /\
               sends o = info_req (4 <=? ver) :: item_reqs (4 <=? ver) 0 (List.length items) /\
               inserts o = [(crc, spec_toc c items)]
     end) /\
  (finished_count o = 0%nat ->
     f_reg s = true /\ inserts o = [] /\
     exists k, (k <= List.length items)%nat /\
               sends o = info_req (4 <=? ver) :: item_reqs (4 <=? ver) 0 k).
Proof. exact fetch_exact. Qed.
Print Assumptions C03_fetch_exact.

(* A cached table is used only if it is non-empty and every element is of the fetcher's class
   (behaviour after fix F11): a table of the other class stored under the same CRC is a miss. *)
Theorem C03_cache_hit_class : forall c cd t,
  cache_hit c cd = Some t -> cd = Some t /\ t <> [] /\ forall e, In e (values t) -> e_cls e = c.
Proof. exact cache_hit_sound. Qed.
Print Assumptions C03_cache_hit_class.

(* Lookups on the downloaded table (pairwise distinct (group, name) on the device): by (group, name),
   by index and — for names without '.' — by complete name all return the device's entry i. *)
Theorem C03_lookup_agree : forall c items i it,
  NoDup (map key items) -> nth_error items i = Some it ->
  let t := spec_toc c items in
  let e := spec_elem c (Z.of_nat i) it in
  get_element (di_group it) (di_name it) t = Some e /\
  get_element_by_id (Z.of_nat i) t = Some e /\
  (~ In 46 (di_group it) -> ~ In 46 (di_name it) ->
   get_element_id (di_group it ++ [46] ++ di_name it) t = Ok (Some (Z.of_nat i)) /\
   get_element_by_complete_name (di_group it ++ [46] ++ di_name it) t = Some e).
Proof. exact lookup_agree. Qed.
Print Assumptions C03_lookup_agree.

(* ... and nothing else is found: no entry for a (group, name) the device does not have, none for an
   index outside 0..n-1 (same set of entries). *)
Theorem C03_lookup_absent : forall c items,
  (forall g n, ~ In (g, n) (map key items) -> get_element g n (spec_toc c items) = None) /\
  (forall i, ~ (0 <= i < Z.of_nat (List.length items)) -> get_element_by_id i (spec_toc c items) = None).
Proof. intros c items. split; [exact (lookup_absent c items)|exact (lookup_id_absent c items)]. Qed.
Print Assumptions C03_lookup_absent.

(* Liveness: after ANY admissible schedule, answering the latest outstanding request n+1 more times
   completes the download (the completion callback has then fired exactly once). *)
Theorem C03_fetch_live : forall c cache ver items raw crc extra evs,
  raw_items c items = Some raw -> Forall item_ok items -> 0 <= crc < 2 ^ 32 ->
  Z.of_nat (List.length items) < (if 4 <=? ver then 65536 else 256) ->
  admissible evs ->
  let dv := mkDev raw crc extra in
  let j0 := (List.length (sends (snd (fetch c cache ver dv evs))) - 1)%nat in
  finished_count (snd (fetch c cache ver dv (evs ++ map Deliver (seq j0 (S (List.length items)))))) = 1%nat.
Proof. exact fetch_live. Qed.
Print Assumptions C03_fetch_live.

(* Persistent markers (extended-type phase of Param.refresh_toc, model C03/ExtModel.v): for a parameter
   table with pairwise distinct ids below 2^16 and a device that answers every extended-type query, for
   EVERY schedule of duplicated, stale or delayed answers and packets on other channels: no exception;
   the completion callback fires at most once; when it has fired, one query was sent per extended
   parameter (in table order) and exactly the extended parameters whose device answer is 1
   (EXTENDED_PERSISTENT) carry the marker; nothing else in the table changed. *)
Theorem C03_persistent_marker : forall (t : toc) (d : xdev) (evs : list aev),
  NoDup (map e_ident (values t)) ->
  (forall e, In e (values t) ->
     0 <= e_ident e < 65536 /\ (e_extended e = true -> exists b, assoc (e_ident e) d = Some b)) ->
  xadmissible evs ->
  let '(s, o) := xfetch t d evs in
  raised o = [] /\ (finished_count o <= 1)%nat /\
  (finished_count o = 1%nat ->
     sends o = map ext_req (ext_ids t) /\
     x_toc s = map_toc (fun e => if e_extended e && match assoc (e_ident e) d with Some 1 => true | _ => false end
                                 then set_pers e else e) t).
Proof. exact persistent_marker. Qed.
Print Assumptions C03_persistent_marker.

(* What starts the log download (Log._new_packet_cb on a reply to CMD_RESET_LOGGING, guarded by
   `if not self.toc:`; model C03/Restart.v, tied to the real Log object).  For EVERY sequence of reset-reply
   copies (LReset) and download events (LEv: duplicated/stale/delayed replies, packets on other channels):
   the run equals the plain TocFetcher run on the events that follow the FIRST reset reply with all later
   reset replies removed, and exactly one download has been started: a duplicated or delayed reset reply is a
   no-op in every state of the fetcher (before INFO, between INFO and element 0, between elements, after
   completion). *)
Theorem C03_restart_guard : forall cache ver d evs,
  lrun cache ver d evs =
  match after_first_reset evs with
  | None => None
  | Some l => let '(s, o) := fetch LogCls cache ver d l in Some (1%nat, s, o)
  end.
Proof. exact restart_guard. Qed.
Print Assumptions C03_restart_guard.

Theorem C03_duplicate_start_is_noop : forall cache ver d x, lstep cache ver d (Some x) LReset = Some x.
Proof. exact reset_noop. Qed.
Print Assumptions C03_duplicate_start_is_noop.

(* hence C03_fetch_exact holds for the download as started by the real Log object, whatever reset-reply
   copies arrive and whenever: on completion the log table is exactly the device's and exactly that table
   was stored under the device's CRC *)
Theorem C03_log_download_exact : forall cache ver items raw crc extra evs,
  raw_items LogCls items = Some raw -> Forall item_ok items -> 0 <= crc < 2 ^ 32 ->
  Z.of_nat (List.length items) < (if 4 <=? ver then 65536 else 256) ->
  admissible (strip evs) ->
  match lrun cache ver (mkDev raw crc extra) evs with
  | None => after_first_reset evs = None
  | Some (n, s, o) => n = 1%nat /\ fetch_result_ok LogCls cache (4 <=? ver) items crc s o
  end.
Proof. exact log_download_exact. Qed.
Print Assumptions C03_log_download_exact.

(* ------------------------------------------------------------------------------------------------------------
   Widened adversary (model C03/Stale.v; on_packet includes the command-byte check of fix F03a).
   (a) STALE packets: at any step ANY packet may arrive on the TOC channel provided that, in the state in which
   it arrives, it is not one of the two kinds that are indistinguishable on the wire (`stale_ok`): an INFO-command
   packet while the INFO reply is awaited, an ITEM-command packet carrying exactly the pending index.  Everything
   else — element replies of an earlier session before the INFO reply, INFO replies with another count/CRC during
   the elements or after completion, element replies with any other index, packets of the other protocol
   generation, empty or foreign packets — is covered.  Conclusion as C03_fetch_exact: never raises, finished at
   most once, on completion the table is exactly the CURRENT device's and exactly it is stored under the CURRENT
   CRC. *)
Theorem C03_fetch_exact_stale : forall c cache ver items raw crc extra evs,
  raw_items c items = Some raw -> Forall item_ok items -> 0 <= crc < 2 ^ 32 ->
  Z.of_nat (List.length items) < (if 4 <=? ver then 65536 else 256) ->
  (let '(s0, o0) := start ver [] in all_ok c cache (mkDev raw crc extra) s0 o0 evs) ->
  let '(s, o) := fetch c cache ver (mkDev raw crc extra) evs in
  fetch_result_ok c cache (4 <=? ver) items crc s o.
Proof. exact fetch_exact_stale. Qed.
Print Assumptions C03_fetch_exact_stale.

(* the two protocol limitations, as refutation examples on a 2-entry device: a stale INFO reply (1 entry, CRC 1)
   before the INFO reply makes the download complete with 1 of 2 entries stored under CRC 1; a stale element
   reply carrying the pending index 0 puts an entry of another table in place of entry 0 *)
Theorem C03_stale_info_indistinguishable :
  let '(s, o) := fetch ParamCls (fun _ => None) 7 lim_dev
                       [Raw 0 [3; 1; 0; 1; 0; 0; 0]; Deliver 0; Deliver 1] in
  finished_count o = 1%nat /\ raised o = [] /\
  f_toc s = spec_toc ParamCls [mkItem [103] [97] U8 false false false false] /\
  f_toc s <> spec_toc ParamCls lim_items /\ map fst (inserts o) = [1].
Proof. exact stale_info_indistinguishable. Qed.
Print Assumptions C03_stale_info_indistinguishable.

Theorem C03_stale_item_indistinguishable :
  let '(s, o) := fetch ParamCls (fun _ => None) 7 lim_dev
                       [Deliver 0; Raw 0 [2; 0; 0; 9; 111; 0; 120; 0]; Deliver 1; Deliver 2] in
  finished_count o = 1%nat /\ raised o = [] /\
  get_element [111] [120] (f_toc s) <> None /\ get_element [103] [97] (f_toc s) = None /\
  map fst (inserts o) = [287454020].
Proof. exact stale_item_indistinguishable. Qed.
Print Assumptions C03_stale_item_indistinguishable.

(* (b) resends as duplicate REQUESTS: every copy of a request that reaches the device is answered (WReach), the
   answers are in flight and arrive in any order, at any later time (after the next element was requested, after
   completion), or are lost (WDeliver / WDrop).  All such link histories are instances of the reply adversary. *)
Theorem C03_fetch_exact_duplicate_requests : forall c cache ver items raw crc extra wevs,
  raw_items c items = Some raw -> Forall item_ok items -> 0 <= crc < 2 ^ 32 ->
  Z.of_nat (List.length items) < (if 4 <=? ver then 65536 else 256) ->
  wadmissible wevs ->
  let '(s, o) := fetch c cache ver (mkDev raw crc extra) (wire [] wevs) in
  fetch_result_ok c cache (4 <=? ver) items crc s o.
Proof. exact fetch_exact_wire. Qed.
Print Assumptions C03_fetch_exact_duplicate_requests.

(* (c) extended-type phase with stale replies of an earlier session: any extended-type reply for a parameter id
   other than the one in flight may arrive at any step (besides everything xadmissible allows) *)
Theorem C03_persistent_marker_stale : forall (t : toc) (d : xdev) (evs : list aev),
  (forall e e', In e (values t) -> In e' (values t) -> e_ident e = e_ident e' -> e = e') ->
  (forall e, In e (values t) ->
     0 <= e_ident e < 65536 /\ (e_extended e = true -> exists b, assoc (e_ident e) d = Some b)) ->
  (let '(s0, o0) := xstart t in xall_ok d s0 o0 evs) ->
  let '(s, o) := xfetch t d evs in
  raised o = [] /\ (finished_count o <= 1)%nat /\
  (finished_count o = 1%nat ->
     sends o = map ext_req (ext_ids t) /\
     x_toc s = map_toc (fun e => if e_extended e && match assoc (e_ident e) d with Some 1 => true | _ => false end
                                 then set_pers e else e) t).
Proof. exact persistent_marker_stale. Qed.
Print Assumptions C03_persistent_marker_stale.

(* limitation: a stale extended-type reply for the very id in flight is taken as its answer *)
Theorem C03_stale_ext_indistinguishable :
  let '(s, o) := xfetch lim_ptoc [(0, 0)] [Raw 3 [2; 0; 0; 1]; Deliver 0] in
  finished_count o = 1%nat /\
  option_map e_persistent (get_element [112] [97] (x_toc s)) = Some true.
Proof. exact stale_ext_indistinguishable. Qed.
Print Assumptions C03_stale_ext_indistinguishable.

(* the parameter table at the moment `connected` is signalled (completion of the extended-type phase that follows
   the download): every parameter of the device is found under its name with index, type, access, extended flag
   and the device's persistence *)
Theorem C03_param_table_at_connected : forall items (d : xdev) xevs i it,
  NoDup (map key items) -> Z.of_nat (List.length items) < 65536 ->
  (forall j jt, nth_error items j = Some jt -> di_ext jt = true ->
                assoc (Z.of_nat j) d = Some (if di_pers jt then 1 else 0)) ->
  nth_error items i = Some it ->
  (let '(s0, o0) := xstart (spec_toc ParamCls items) in xall_ok d s0 o0 xevs) ->
  let '(s, o) := xfetch (spec_toc ParamCls items) d xevs in
  finished_count o = 1%nat ->
  get_element (di_group it) (di_name it) (x_toc s) =
  Some (let e := spec_elem ParamCls (Z.of_nat i) it in if di_ext it && di_pers it then set_pers e else e).
Proof. exact param_table_at_connected. Qed.
Print Assumptions C03_param_table_at_connected.

(* an extended-type fetch abandoned by a disconnect (fix F03b) is silent in every later session *)
Theorem C03_abandoned_ext_fetch_is_silent : forall s ch dt, x_on_packet (x_disconnect s) ch dt = (x_disconnect s, []).
Proof. exact abandoned_ext_fetch_silent. Qed.
Print Assumptions C03_abandoned_ext_fetch_is_silent.

(* Which protocol generation a session uses (model C03/Version.v of PlatformService, tied to the real object driven
   by packets).  For EVERY history of sessions of one Crazyflie object — any devices, any versions 0..255 or no magic
   string (-1), same or different URI, in any order — the version the i-th session's table downloads read is the one
   of the i-th device's own version reply. *)
Theorem C03_sessions_use_their_own_versions : forall (l : list (Z * pdev)) s,
  Forall (fun ud => 0 <= pd_ver (snd ud) < 256) l ->
  dones (snd (prun s (flat_map (fun ud => session (fst ud) (snd ud)) l))) = map (fun ud => used_version (snd ud)) l.
Proof. exact sessions_use_their_own_versions. Qed.
Print Assumptions C03_sessions_use_their_own_versions.

(* a per-URI memo of the version is refuted: version 3 then version 10 on the same URI makes the second session use
   3, i.e. the legacy commands whose index is ONE byte (entry 300 is not addressable) *)
Theorem C03_uri_memo_refuted :
  mrun_sessions (mkM (-1) None) [(7, mkPd true 3); (7, mkPd true 10)] = [3; 3] /\
  map (fun ud => used_version (snd ud)) [(7, mkPd true 3); (7, mkPd true 10)] = [3; 10] /\
  (4 <=? 3) = false /\ (4 <=? 10) = true /\ item_req false 300 = [0; 300].
Proof. exact uri_memo_refuted. Qed.
Print Assumptions C03_uri_memo_refuted.

(* The restart guard over the life of ONE Log object (model C03/Restart.v, second part; behaviour after fix F03c:
   `not self.toc and self._toc_refresh_pending`, pending cleared on disconnected).  For EVERY history of
   refresh_toc calls, reset replies (genuine, duplicated, left over from any earlier connection attempt) and
   disconnects: a download is started only while a refresh_toc of the current attempt waits for its reset reply,
   and at most once per refresh_toc.  In particular a reset reply left over from an earlier session arriving before
   the new session's refresh_toc (e.g. before the protocol version answer) never starts a download. *)
Theorem C03_stale_reset_reply_never_starts_a_fetch : forall evs,
  Forall (fun b => b = true) (g_starts (grun GFixed evs)) /\
  (List.length (g_starts (grun GFixed evs)) <= count_refresh evs)%nat.
Proof.
  intros evs. split.
  - apply (fixed_guard_all_legit evs g_init). constructor.
  - pose proof (fixed_guard_once_per_refresh evs g_init) as H. unfold grun. cbn in H.
    destruct (g_pending (fold_left (gstep GFixed) evs g_init)); lia.
Qed.
Print Assumptions C03_stale_reset_reply_never_starts_a_fetch.

(* what the guard `not self.toc` alone gives: the same, as long as no connection attempt is abandoned between
   refresh_toc and its reset reply (the Toc kept from the previous session keeps the guard closed) ... *)
Theorem C03_head_guard_legit_when_no_abandon : forall evs s,
  head_inv s -> head_ok s evs -> Forall (fun b => b = true) (g_starts s) ->
  Forall (fun b => b = true) (g_starts (fold_left (gstep GHead) evs s)).
Proof. exact head_guard_legit_when_no_abandon. Qed.
Print Assumptions C03_head_guard_legit_when_no_abandon.

(* ... refuted otherwise (finding F03c): abandon between refresh_toc and the reset reply, then that reply arrives in
   the next session before its refresh_toc: a download starts with the previous attempt's callback and version *)
Theorem C03_head_guard_refuted_after_abandon :
  g_starts (grun GHead [GRefresh; GDisconnect; GReset]) = [false] /\
  g_starts (grun GFixed [GRefresh; GDisconnect; GReset]) = [].
Proof. exact head_guard_refuted_after_abandon. Qed.
Print Assumptions C03_head_guard_refuted_after_abandon.

(* and the variant that clears the table on disconnected (mirroring Param) is refuted even for complete sessions *)
Theorem C03_cleared_toc_refuted :
  g_starts (grun GCleared [GRefresh; GReset; GDisconnect; GReset]) = [true; false] /\
  g_starts (grun GHead [GRefresh; GReset; GDisconnect; GReset]) = [true] /\
  g_starts (grun GFixed [GRefresh; GReset; GDisconnect; GReset]) = [true].
Proof. exact cleared_toc_refuted. Qed.
Print Assumptions C03_cleared_toc_refuted.

(* Frame property (model C03/Frame.v): tables are values — a download into table B leaves any other table A as it
   is.  Immediate in the functional model; the tie shows that the implementation has no sharing between tables
   (table A is re-read after B's download, element object identities are compared). *)
Theorem C03_download_leaves_other_tables_unchanged : forall c cache ver d a evs,
  fst (world_run c cache ver d a evs) = a.
Proof. exact frame. Qed.
Print Assumptions C03_download_leaves_other_tables_unchanged.

(* a memoised-element variant (one mutable cell per description, reused across tables, ident overwritten) is
   refuted: downloading the same two entries at swapped indexes into table B changes the indexes seen in table A *)
Theorem C03_memoised_elements_refuted :
  let '(w1, ta) := memo_download LogCls (mkMW [] []) [] 0 [dx; dy] in
  let before := view w1 ta in
  let '(w2, tb) := memo_download LogCls w1 [] 0 [dy; dx] in
  map e_ident before = [0; 1] /\ map e_ident (view w2 ta) = [1; 0] /\ map e_ident (view w2 tb) = [0; 1].
Proof. exact memoised_elements_refuted. Qed.
Print Assumptions C03_memoised_elements_refuted.

(* When `connected` is signalled (model C03/Sequence.v of the sequencing in Crazyflie: log TOC, then memories, then
   parameter TOC, connected from the completion of the last step): for EVERY history of sessions of one object —
   opens, step completions, closes / link losses at any point — whenever connected is signalled the log download and
   the parameter download of THIS session have completed. *)
Theorem C03_connected_means_both_tables_of_this_session : forall evs,
  Forall (fun p => p = (true, true)) (h_conn (hrun evs)).
Proof. exact connected_means_both_done. Qed.
Print Assumptions C03_connected_means_both_tables_of_this_session.

(* running both downloads at once and joining them with flags that survive a disconnect is refuted *)
Theorem C03_surviving_flags_refuted :
  j_conn (jrun [SOpen; SParamDone; SClose; SOpen; SLogDone]) = [(true, false)] /\
  h_conn (hrun [SOpen; SParamDone; SClose; SOpen; SLogDone]) = [].
Proof. exact surviving_flags_refuted. Qed.
Print Assumptions C03_surviving_flags_refuted.
