(* C03/Live.v — if the outstanding request is (eventually) answered, the download completes *)
From CF Require Import Common.Bytes C03.Model C03.Proofs C03.Fetch.
From Coq Require Import ZifyBool.
Open Scope Z_scope.
Ltac Zify.zify_post_hook ::= Z.to_euclidean_division_equations.

Lemma arun_app c cache d : forall e1 e2 s o,
  arun c cache d s o (e1 ++ e2) = let '(s1, o1) := arun c cache d s o e1 in arun c cache d s1 o1 e2.
Proof.
  induction e1 as [|ev e1 IH]; intros e2 s o; cbn [app arun]; [reflexivity|].
  destruct (packet_of (f_v2 s) d o ev) as [[ch dt]|]; [|apply IH].
  destruct (on_packet c cache s ch dt) as [s' o']. apply IH.
Qed.

Lemma arun_extends c cache d : forall evs s o, exists o2, snd (arun c cache d s o evs) = o ++ o2.
Proof.
  induction evs as [|ev evs IH]; intros s o; cbn [arun].
  - exists []. now rewrite app_nil_r.
  - destruct (packet_of (f_v2 s) d o ev) as [[ch dt]|]; [|apply IH].
    destruct (on_packet c cache s ch dt) as [s' o'].
    destruct (IH s' (o ++ Got ch dt :: o')) as [o2 H]. exists ((Got ch dt :: o') ++ o2).
    now rewrite H, <- app_assoc.
Qed.

Section Live.
  Variables (c : cls) (cache : Z -> option toc) (v2 : bool) (items : list ditem)
            (raw : list (list Z * list Z * Z)) (crc : Z) (extra : list Z).
  Let d := mkDev raw crc extra.
  Let n := Z.of_nat (List.length items).
  Hypothesis Hraw : raw_items c items = Some raw.
  Hypothesis Hok : Forall item_ok items.
  Hypothesis Hcrc : 0 <= crc < 2 ^ 32.
  Hypothesis Hn : n < lim v2.

  Notation Inv := (Inv c cache v2 items crc).

  (* answering the latest request makes progress: a new request or completion *)
  Lemma Inv_progress s o : Inv s o -> finished_count o = 0%nat ->
    exists j ch dt, List.length (sends o) = S j /\ packet_of v2 d o (Deliver j) = Some (ch, dt) /\
      let '(s', o') := on_packet c cache s ch dt in
      (finished_count o' = 1%nat \/ List.length (sends o') = 1%nat).
  Proof.
    intros HI Hf0.
    destruct HI as [o Hs Hf Hr Hi | k0 o Hk Hmiss Hs Hf Hr Hi | s o Hreg Hv Hmiss Ht Hs Hf Hr Hi
                   | s o t Hreg Hv Hhit Ht Hs Hf Hr Hi]; try lia.
    - exists 0%nat, 0, (info_cmd v2 :: le_bytes (il v2) n ++ le_bytes 4 crc ++ extra).
      split; [now rewrite Hs|]. split.
      + cbn [packet_of]. rewrite Hs. cbn [nth_error]. unfold d.
        rewrite (dev_reply_info c v2 items raw crc extra Hraw); [reflexivity|exact Hn].
      + rewrite on_packet_info by (unfold n in *; lia || exact Hcrc).
        destruct (cache_hit c (cache crc)); [left; reflexivity|].
        destruct (0 <? n); [right|left]; reflexivity.
    - destruct (nth_error items k0) as [it|] eqn:Eit.
      2:{ apply nth_error_None in Eit. lia. }
      destruct (dev_reply_item c cache v2 items raw crc extra Hraw Hn k0 it Eit) as (tb & Htb & Erp).
      exists (S k0), 0, (item_cmd v2 :: idb v2 (Z.of_nat k0) ++ tb :: di_group it ++ [0] ++ di_name it ++ [0]).
      split; [|split].
      + rewrite Hs. cbn [List.length]. f_equal.
        clear. generalize 0. induction (S k0) as [|m IH]; intros i; cbn; [reflexivity|now rewrite IH].
      + cbn [packet_of]. rewrite Hs. cbn [nth_error]. rewrite item_reqs_nth by lia.
        rewrite Z.add_0_l. unfold d. rewrite Erp. reflexivity.
      + rewrite (on_packet_elem c cache v2 _ _ _ _ (idb v2 (Z.of_nat k0)) _ (idb_len _ _)).
        rewrite idb_val by (unfold n in Hn; lia). rewrite Z.eqb_refl. cbn [negb].
        assert (Hitok : item_ok it).
        { rewrite Forall_forall in Hok. apply Hok. eapply nth_error_In. exact Eit. }
        rewrite (parse_roundtrip c (Z.of_nat k0) it tb Hitok Htb). cbn zeta.
        destruct (Z.of_nat k0 <? Z.of_nat (List.length items) - 1); [right|left]; reflexivity.
  Qed.

  Lemma honest_run : forall m j0 s o,
    Inv s o -> (finished_count o = 0%nat -> List.length (sends o) = S j0) ->
    let '(s', o') := arun c cache d s o (map Deliver (seq j0 m)) in
    Inv s' o' /\ (finished_count o' = 1%nat \/
                  (finished_count o' = 0%nat /\ List.length (sends o') = S (j0 + m))).
  Proof.
    induction m as [|m IH]; intros j0 s o HI Hlen; cbn [seq map arun].
    - split; [exact HI|]. destruct (finished_count o) eqn:Ef.
      + right. split; [reflexivity|]. rewrite Hlen by reflexivity. f_equal. lia.
      + left. assert (finished_count o <= 1)%nat; [|lia].
        destruct HI; lia.
    - rewrite (Inv_v2 _ _ _ _ _ _ _ HI).
      destruct (finished_count o) eqn:Ef.
      + destruct (Inv_progress s o HI Ef) as (j & ch & dt & Hj & Hpk & Hprog).
        assert (j = j0) by (rewrite Hlen in Hj by reflexivity; lia). subst j.
        pose proof (Inv_step c cache v2 items raw crc extra Hraw Hok Hcrc Hn s o (Deliver j0) HI I) as Hst.
        fold d in Hst. rewrite Hpk in *.
        destruct (on_packet c cache s ch dt) as [s1 o1].
        specialize (IH (S j0) s1 (o ++ Got ch dt :: o1) Hst).
        assert (Hl1 : finished_count (o ++ Got ch dt :: o1) = 0%nat ->
                      List.length (sends (o ++ Got ch dt :: o1)) = S (S j0)).
        { intros H0. rewrite fin_app in H0. cbn [finished_count filter] in H0.
          fold (finished_count o1) in H0.
          destruct Hprog as [Hp|Hp]; [cbn in H0; unfold finished_count in Hp; lia|].
          rewrite sends_app, app_length. cbn [sends flat_map app]. fold (sends o1). rewrite Hp, Hj. lia. }
        specialize (IH Hl1).
        destruct (arun c cache d s1 (o ++ Got ch dt :: o1) (map Deliver (seq (S j0) m))) as [s' o'].
        destruct IH as [I1 I2]. split; [exact I1|].
        destruct I2 as [I2|[I2 I3]]; [now left|right]. split; [exact I2|]. rewrite I3. f_equal. lia.
      + (* already complete: the remaining deliveries change nothing that matters *)
        assert (Hadm : admissible (map Deliver (seq j0 (S m)))).
        { apply Forall_forall. intros ev Hin. apply in_map_iff in Hin. destruct Hin as (k & <- & _). exact I. }
        pose proof (Inv_arun c cache v2 items raw crc extra Hraw Hok Hcrc Hn _ s o HI Hadm) as Hfin.
        fold d in Hfin. cbn [seq map arun] in Hfin. rewrite (Inv_v2 _ _ _ _ _ _ _ HI) in Hfin.
        destruct (arun_extends c cache d (map Deliver (seq j0 (S m))) s o) as [o2 Hext].
        cbn [seq map arun] in Hext. rewrite (Inv_v2 _ _ _ _ _ _ _ HI) in Hext.
        destruct (match packet_of v2 d o (Deliver j0) with
                  | Some (ch, dt) => let '(s', o0) := on_packet c cache s ch dt in
                                     arun c cache d s' (o ++ Got ch dt :: o0) (map Deliver (seq (S j0) m))
                  | None => arun c cache d s o (map Deliver (seq (S j0) m))
                  end) as [s' o'].
        cbn [snd] in Hext. split; [exact Hfin|left].
        assert (finished_count o' <= 1)%nat by (destruct Hfin; lia).
        rewrite Hext, fin_app in *. lia.
  Qed.
End Live.

(* Any admissible schedule, continued by answering the latest outstanding request each time (n+1 answers
   suffice), ends with the completion callback having fired (exactly once). *)
Lemma fetch_live : forall c cache ver items raw crc extra evs,
  raw_items c items = Some raw -> Forall item_ok items -> 0 <= crc < 2 ^ 32 ->
  Z.of_nat (List.length items) < (if 4 <=? ver then 65536 else 256) ->
  admissible evs ->
  let dv := mkDev raw crc extra in
  let j0 := (List.length (sends (snd (fetch c cache ver dv evs))) - 1)%nat in
  finished_count (snd (fetch c cache ver dv (evs ++ map Deliver (seq j0 (S (List.length items)))))) = 1%nat.
Proof.
  intros c cache ver items raw crc extra evs Hraw Hok Hcrc Hn Hadm dv j0.
  unfold fetch, start in *. set (v2 := 4 <=? ver) in *.
  set (s0 := mkF true PInfo v2 (-1) (-1) 0 []) in *. set (o0 := [Send (info_req v2)]) in *.
  rewrite arun_app.
  pose proof (Inv_arun c cache v2 items raw crc extra Hraw Hok Hcrc Hn evs s0 o0) as H1.
  fold dv in H1. subst j0.
  destruct (arun c cache dv s0 o0 evs) as [s1 o1]. cbn [snd].
  assert (HI : Inv c cache v2 items crc s1 o1) by (apply H1; [apply InvInfo; reflexivity|exact Hadm]).
  pose proof (honest_run c cache v2 items raw crc extra Hraw Hok Hcrc Hn (S (List.length items))
                         (List.length (sends o1) - 1)%nat s1 o1 HI) as H2.
  fold dv in H2.
  assert (Hlen : finished_count o1 = 0%nat -> List.length (sends o1) = S (List.length (sends o1) - 1)).
  { intros _. destruct HI as [o Hs _ _ _ | k0 o _ _ Hs _ _ _ | s o _ _ _ _ Hs _ _ _ | s o t _ _ _ _ Hs _ _ _];
      rewrite Hs; cbn [List.length]; lia. }
  specialize (H2 Hlen).
  destruct (arun c cache dv s1 o1 (map Deliver (seq (List.length (sends o1) - 1) (S (List.length items))))) as [s2 o2].
  cbn [snd]. destruct H2 as [I2 [Hd|[Hz Hl]]]; [exact Hd|exfalso].
  (* not complete, yet more requests than the table has entries: impossible *)
  assert (Hitl : forall i k, List.length (item_reqs v2 i k) = k).
  { intros i k. revert i. induction k as [|k IH]; intros i; cbn; [reflexivity|now rewrite IH]. }
  assert (1 <= List.length (sends o1))%nat.
  { destruct HI as [o Hs _ _ _ | k0 o _ _ Hs _ _ _ | s o _ _ _ _ Hs _ _ _ | s o t _ _ _ _ Hs _ _ _]; rewrite Hs; cbn [List.length]; lia. }
  destruct I2 as [o Hs Hf _ _ | k0 o Hk _ Hs Hf _ _ | s o _ _ _ _ Hs Hf _ _ | s o t _ _ _ _ Hs Hf _ _]; try lia.
  - rewrite Hs in Hl. cbn [List.length] in Hl. lia.
  - rewrite Hs in Hl. cbn [List.length] in Hl. rewrite Hitl in Hl. lia.
Qed.
