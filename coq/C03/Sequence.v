(* C03/Sequence.v — when `connected` is signalled (cflib/crazyflie/__init__.py).
   HEAD sequences the setup of a session: log TOC, then memories, then parameter TOC; `connected` is signalled from
   the completion of the LAST step.  State machine per Crazyflie object over any number of sessions: a session starts
   (open_link), its steps complete one after the other, the link may be closed or lost at any point.  Theorem: whenever
   `connected` is signalled, the log download and the parameter download of THIS session have completed.  A variant
   that runs both downloads at once and joins them with two flags that are cleared only when `connected` is signalled
   (they survive a disconnect) is refuted. *)
From CF Require Import Common.Bytes.
Open Scope Z_scope.

Inductive sev := SOpen | SLogDone | SMemDone | SParamDone | SClose.

(* HEAD: position in the chain of the current session: 0 idle, 1 log running, 2 memories, 3 param running, 4 connected *)
Record hst := mkH { h_pos : nat; h_log : bool; h_par : bool;          (* ghost: completed in THIS session *)
                    h_conn : list (bool * bool) }.                     (* at each connected: (log done, param done) *)

Definition hstep (s : hst) (e : sev) : hst :=
  match e with
  | SOpen => mkH 1 false false (h_conn s)
  | SLogDone => if Nat.eqb (h_pos s) 1 then mkH 2 true (h_par s) (h_conn s) else s
  | SMemDone => if Nat.eqb (h_pos s) 2 then mkH 3 (h_log s) (h_par s) (h_conn s) else s
  | SParamDone => if Nat.eqb (h_pos s) 3 then mkH 4 (h_log s) true (h_conn s ++ [(h_log s, true)]) else s
  | SClose => mkH 0 false false (h_conn s)
  end.
(* a completion event in a position where that step is not running cannot happen on HEAD: the fetcher of an abandoned
   session has stopped listening (d1ed772, F03b, F03c), the step is modelled as a no-op *)

Definition hrun (evs : list sev) : hst := fold_left hstep evs (mkH 0 false false []).

Definition hinv (s : hst) : Prop :=
  (h_pos s = 3%nat -> h_log s = true) /\ (h_pos s = 2%nat -> h_log s = true) /\
  Forall (fun p => p = (true, true)) (h_conn s).

Lemma hinv_step s e : hinv s -> hinv (hstep s e).
Proof.
  intros (H3 & H2 & Hc). destruct e; cbn [hstep].
  - repeat split; cbn; try discriminate; exact Hc.
  - destruct (Nat.eqb (h_pos s) 1) eqn:E; [|repeat split; assumption].
    repeat split; cbn; try discriminate; auto.
  - destruct (Nat.eqb (h_pos s) 2) eqn:E; [|repeat split; assumption].
    apply Nat.eqb_eq in E. repeat split; cbn; try discriminate; auto.
  - destruct (Nat.eqb (h_pos s) 3) eqn:E; [|repeat split; assumption].
    apply Nat.eqb_eq in E. repeat split; cbn; try discriminate.
    apply Forall_app. split; [exact Hc|]. constructor; [|constructor]. now rewrite (H3 E).
  - repeat split; cbn; try discriminate; exact Hc.
Qed.

Lemma connected_means_both_done evs : Forall (fun p => p = (true, true)) (h_conn (hrun evs)).
Proof.
  assert (G : forall evs s, hinv s -> hinv (fold_left hstep evs s)).
  { induction evs0 as [|e r IH]; intros s H; [exact H|]. apply IH. now apply hinv_step. }
  destruct (G evs (mkH 0 false false [])) as (_ & _ & H); [|exact H].
  repeat split; cbn; try discriminate. constructor.
Qed.

(* ---- both downloads at once, joined by two flags cleared only when connected is signalled *)
Record jst := mkJS { j_flog : bool; j_fpar : bool;                    (* the flags (survive SClose) *)
                     j_log : bool; j_par : bool;                      (* ghost: completed in THIS session *)
                     j_conn : list (bool * bool) }.

Definition jjoin (s : jst) : jst :=
  if j_flog s && j_fpar s then mkJS false false (j_log s) (j_par s) (j_conn s ++ [(j_log s, j_par s)]) else s.

Definition jstep (s : jst) (e : sev) : jst :=
  match e with
  | SOpen => mkJS (j_flog s) (j_fpar s) false false (j_conn s)
  | SLogDone => jjoin (mkJS true (j_fpar s) true (j_par s) (j_conn s))
  | SParamDone => jjoin (mkJS (j_flog s) true (j_log s) true (j_conn s))
  | SMemDone => s
  | SClose => mkJS (j_flog s) (j_fpar s) false false (j_conn s)
  end.

Definition jrun (evs : list sev) : jst := fold_left jstep evs (mkJS false false false false []).

(* session 1 is closed after its parameter table completed but before its log table; in session 2 the parameter
   table — now the slower one... no: the LOG table is the quicker one this time — completes first: connected is
   signalled although the parameter download of session 2 has not completed *)
Lemma surviving_flags_refuted :
  j_conn (jrun [SOpen; SParamDone; SClose; SOpen; SLogDone]) = [(true, false)] /\
  h_conn (hrun [SOpen; SParamDone; SClose; SOpen; SLogDone]) = [].
Proof. split; reflexivity. Qed.
