(* C03/Restart.v — what starts the log download, and the guard against starting it twice.
   Log.refresh_toc sets self.toc = None and sends CMD_RESET_LOGGING; Log._new_packet_cb, on a reset reply
   (settings channel), starts the download only `if not self.toc:` — it creates the Toc object and a TocFetcher.
   A Toc object is truthy whatever it holds, so the guard reads "no download has been started in this
   connection attempt".  Executable model first (tied to the real Log object by harness/props/c03.py), then
   the theorem: over ALL event sequences, the download is started at most once, a duplicated or delayed
   reset reply is a no-op in every state of the fetcher, and the run equals the plain TocFetcher run on the
   events that follow the first reset reply, so C03_fetch_exact applies to it.
   (The parameter download is started by Crazyflie._mems_updated_cb, the one-shot completion callback of the
   memory subsystem, itself started by the log download's completion callback: at most once as well.) *)
From CF Require Import Common.Bytes C03.Model C03.Proofs C03.Fetch C03.Live.
Open Scope Z_scope.

Inductive lev :=
| LReset                (* a copy of the reply to CMD_RESET_LOGGING arrives *)
| LEv (ev : aev).       (* anything the adversary of the download may do *)

(* None: self.toc is None (refresh_toc called, no reset reply seen yet).
   Some (number of downloads started, fetcher state, outputs so far) *)
Definition lstate := option (nat * fstate * list out).

Definition lstep (cache : Z -> option toc) (ver : Z) (d : dev) (st : lstate) (e : lev) : lstate :=
  match st, e with
  | None, LReset => let '(s0, o0) := start ver [] in Some (1%nat, s0, o0)
  | None, LEv _ => None                         (* no fetcher yet: Log._new_packet_cb ignores the TOC channel *)
  | Some x, LReset => Some x                    (* guard: `if not self.toc` is false *)
  | Some (n, s, o), LEv ev => let '(s', o') := arun LogCls cache d s o [ev] in Some (n, s', o')
  end.

Definition lrun (cache : Z -> option toc) (ver : Z) (d : dev) (evs : list lev) : lstate :=
  fold_left (lstep cache ver d) evs None.

Definition enc_lrun (st : lstate) : list Z :=
  match st with
  | None => [-1]
  | Some (n, s, o) => Z.of_nat n :: enc_run (s, o)
  end.

(* the adversary's events without the reset replies *)
Fixpoint strip (evs : list lev) : list aev :=
  match evs with
  | [] => []
  | LReset :: r => strip r
  | LEv ev :: r => ev :: strip r
  end.

Fixpoint after_first_reset (evs : list lev) : option (list aev) :=
  match evs with
  | [] => None
  | LReset :: r => Some (strip r)
  | LEv _ :: r => after_first_reset r
  end.

(* ---------------------------------------------------------------- proofs *)

Lemma arun_cons c cache d s o ev evs :
  arun c cache d s o (ev :: evs) = let '(s1, o1) := arun c cache d s o [ev] in arun c cache d s1 o1 evs.
Proof. exact (arun_app c cache d [ev] evs s o). Qed.

Lemma lrun_started cache ver d : forall evs n s o,
  fold_left (lstep cache ver d) evs (Some (n, s, o)) =
  let '(s', o') := arun LogCls cache d s o (strip evs) in Some (n, s', o').
Proof.
  induction evs as [|e evs IH]; intros n s o; cbn [fold_left strip].
  - reflexivity.
  - destruct e as [|ev]; cbn [lstep].
    + apply IH.
    + rewrite (arun_cons LogCls cache d s o ev (strip evs)).
      destruct (arun LogCls cache d s o [ev]) as [s1 o1]. apply IH.
Qed.

(* a duplicated reset reply is a no-op in EVERY state once a download has been started *)
Lemma reset_noop cache ver d x : lstep cache ver d (Some x) LReset = Some x.
Proof. destruct x as [[n s] o]. reflexivity. Qed.

Lemma restart_guard cache ver d evs :
  lrun cache ver d evs =
  match after_first_reset evs with
  | None => None
  | Some l => let '(s, o) := fetch LogCls cache ver d l in Some (1%nat, s, o)
  end.
Proof.
  unfold lrun. induction evs as [|e evs IH]; [reflexivity|].
  destruct e as [|ev]; cbn [fold_left lstep after_first_reset].
  - unfold fetch. destruct (start ver []) as [s0 o0]. apply lrun_started.
  - exact IH.
Qed.

(* hence: started at most once, and on completion the table is the device's (C03_fetch_exact) *)
Lemma log_download_exact : forall cache ver items raw crc extra evs,
  raw_items LogCls items = Some raw -> Forall item_ok items -> 0 <= crc < 2 ^ 32 ->
  Z.of_nat (List.length items) < (if 4 <=? ver then 65536 else 256) ->
  admissible (strip evs) ->
  match lrun cache ver (mkDev raw crc extra) evs with
  | None => after_first_reset evs = None
  | Some (n, s, o) => n = 1%nat /\ fetch_result_ok LogCls cache (4 <=? ver) items crc s o
  end.
Proof.
  intros cache ver items raw crc extra evs Hraw Hok Hc Hn Hadm. rewrite restart_guard.
  destruct (after_first_reset evs) as [l|] eqn:E; [|reflexivity].
  assert (Hl : admissible l).
  { clear - E Hadm. induction evs as [|e evs IH]; [discriminate|].
    destruct e as [|ev]; cbn in *.
    - injection E as <-. exact Hadm.
    - apply IH; [|exact E]. now inversion Hadm. }
  pose proof (fetch_exact LogCls cache ver items raw crc extra l Hraw Hok Hc Hn Hl) as H.
  destruct (fetch LogCls cache ver (mkDev raw crc extra) l) as [s o]. now split.
Qed.

(* ================================================================ across sessions =========================
   The guard seen over the life of ONE Log object.  Session level: refresh_toc (toc := None, reset request sent),
   a reply to a reset request arriving (genuine, duplicated, or left over from an earlier connection attempt),
   disconnected.  A download start is LEGITIMATE iff a refresh_toc of the current connection attempt is waiting
   for its reset reply at that moment (then the version, the cache and the completion callback are the current
   ones; a left-over reply arriving in that window is indistinguishable from the genuine one and has the same
   effect).  Three guards:
     GFixed    `not self.toc and self._toc_refresh_pending`, pending cleared on disconnected   (fix F03c)
     GHead     `not self.toc` — the Toc of the previous session is kept and keeps the guard closed, but a session
               abandoned between refresh_toc and its reset reply leaves toc = None
     GCleared  `not self.toc` with toc := None on disconnected (mirroring Param) *)
Inductive gev := GRefresh | GReset | GDisconnect.
Inductive gvar := GFixed | GHead | GCleared.

Record gst := mkG { g_toc : bool;           (* self.toc is a Toc object *)
                    g_pending : bool;       (* a refresh_toc of this attempt waits for its reset reply *)
                    g_starts : list bool }. (* downloads started so far: was each legitimate? *)

Definition g_init : gst := mkG false false [].

Definition gstep (v : gvar) (s : gst) (e : gev) : gst :=
  match e with
  | GRefresh => mkG false true (g_starts s)
  | GReset =>
      let opened := match v with GFixed => negb (g_toc s) && g_pending s | _ => negb (g_toc s) end in
      if opened then mkG true false (g_starts s ++ [g_pending s]) else s
  | GDisconnect => mkG (match v with GCleared => false | _ => g_toc s end) false (g_starts s)
  end.

Definition grun (v : gvar) (evs : list gev) : gst := fold_left (gstep v) evs g_init.

Definition count_refresh (evs : list gev) : nat :=
  List.length (filter (fun e => match e with GRefresh => true | _ => false end) evs).

(* with the fixed guard: for EVERY history (any number of sessions, resets left over from anywhere, disconnects at
   any point) every download start is legitimate, and there is at most one per refresh_toc *)
Lemma fixed_guard_all_legit : forall evs s,
  Forall (fun b => b = true) (g_starts s) ->
  Forall (fun b => b = true) (g_starts (fold_left (gstep GFixed) evs s)).
Proof.
  induction evs as [|e evs IH]; intros s H; [exact H|]. cbn [fold_left]. apply IH.
  destruct e; cbn [gstep g_starts]; try exact H.
  destruct (negb (g_toc s) && g_pending s) eqn:E; [|exact H].
  cbn [g_starts]. apply Forall_app. split; [exact H|]. constructor; [|constructor].
  apply andb_true_iff in E. tauto.
Qed.

Lemma count_refresh_cons e evs :
  count_refresh (e :: evs) = ((match e with GRefresh => 1 | _ => 0 end) + count_refresh evs)%nat.
Proof. destruct e; reflexivity. Qed.

Lemma fixed_guard_once_per_refresh : forall evs s,
  (List.length (g_starts (fold_left (gstep GFixed) evs s)) + (if g_pending (fold_left (gstep GFixed) evs s) then 1 else 0)
   <= List.length (g_starts s) + (if g_pending s then 1 else 0) + count_refresh evs)%nat.
Proof.
  induction evs as [|e evs IH]; intros s; [cbn; lia|].
  rewrite count_refresh_cons. cbn [fold_left]. specialize (IH (gstep GFixed s e)).
  destruct e; cbn [gstep] in *.
  - cbn [g_starts g_pending] in IH. destruct (g_pending s); lia.
  - destruct (negb (g_toc s) && g_pending s) eqn:E.
    + apply andb_true_iff in E. destruct E as [_ E]. rewrite E in *.
      cbn [g_starts g_pending] in IH. rewrite app_length in IH. cbn [List.length] in IH. lia.
    + lia.
  - cbn [g_starts g_pending] in IH. destruct (g_pending s); lia.
Qed.

(* what HEAD's guard gives: all starts are legitimate as long as no connection attempt is abandoned between
   refresh_toc and its reset reply (then the previous Toc keeps the guard closed between sessions) *)
Definition head_inv (s : gst) : Prop := g_toc s = false -> g_pending s = true.

Fixpoint head_ok (s : gst) (evs : list gev) : Prop :=
  match evs with
  | [] => True
  | e :: r => (e = GDisconnect -> g_toc s = true) /\ head_ok (gstep GHead s e) r
  end.

Lemma head_guard_legit_when_no_abandon : forall evs s,
  head_inv s -> head_ok s evs -> Forall (fun b => b = true) (g_starts s) ->
  Forall (fun b => b = true) (g_starts (fold_left (gstep GHead) evs s)).
Proof.
  induction evs as [|e evs IH]; intros s Hi Hok H; [exact H|]. cbn [fold_left head_ok] in *.
  destruct Hok as [Hd Hok]. apply IH; [|exact Hok|].
  - destruct e; unfold head_inv; cbn [gstep].
    + reflexivity.
    + destruct (negb (g_toc s)) eqn:E; cbn [g_toc g_pending]; [discriminate|exact Hi].
    + cbn [g_toc g_pending]. intros Ht. rewrite (Hd eq_refl) in Ht. discriminate.
  - destruct e; cbn [gstep g_starts]; try exact H.
    destruct (negb (g_toc s)) eqn:E; [|exact H]. cbn [g_starts]. apply Forall_app. split; [exact H|].
    constructor; [|constructor]. apply Hi. now destruct (g_toc s).
Qed.

(* refutations *)
Lemma head_guard_refuted_after_abandon :
  g_starts (grun GHead [GRefresh; GDisconnect; GReset]) = [false] /\
  g_starts (grun GFixed [GRefresh; GDisconnect; GReset]) = [].
Proof. split; reflexivity. Qed.

Lemma cleared_toc_refuted :
  g_starts (grun GCleared [GRefresh; GReset; GDisconnect; GReset]) = [true; false] /\
  g_starts (grun GHead [GRefresh; GReset; GDisconnect; GReset]) = [true] /\
  g_starts (grun GFixed [GRefresh; GReset; GDisconnect; GReset]) = [true].
Proof. repeat split; reflexivity. Qed.

Definition enc_gst (s : gst) : list Z := [b2n (g_toc s); b2n (g_pending s)] ++ map b2n (g_starts s).
