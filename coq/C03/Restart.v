(* C03/Restart.v — what starts the log download, and the guard against starting it twice.
   Log.refresh_toc sets self.toc = None and sends CMD_RESET_LOGGING; Log._new_packet_cb, on a reset reply
   (settings channel), starts the download only `if not self.toc:` — it creates the Toc object and a TocFetcher.
   A Toc object is truthy whatever it holds, so the guard reads "no download has been started in this
   connection attempt".  Executable model first (tied to the real Log object by harness/props/c03.py), then
   the theorem: over ALL event sequences, the download is started at most once, a duplicated or delayed
   reset reply is a no-op in every state of the fetcher, and the run equals the plain TocFetcher run on the
   events that follow the first reset reply, so C03_fetch_exact applies to it.
   (The parameter download is started by Crazyflie._mems_updated_cb, the one-shot completion callback of the
   memory subsystem, itself started by the log download's completion callback: at most once as well.) *)
From CF Require Import Common.Bytes C03.Model C03.Proofs C03.Fetch C03.Live.
Open Scope Z_scope.

Inductive lev :=
| LReset                (* a copy of the reply to CMD_RESET_LOGGING arrives *)
| LEv (ev : aev).       (* anything the adversary of the download may do *)

(* None: self.toc is None (refresh_toc called, no reset reply seen yet).
   Some (number of downloads started, fetcher state, outputs so far) *)
Definition lstate := option (nat * fstate * list out).

Definition lstep (cache : Z -> option toc) (ver : Z) (d : dev) (st : lstate) (e : lev) : lstate :=
  match st, e with
  | None, LReset => let '(s0, o0) := start ver [] in Some (1%nat, s0, o0)
  | None, LEv _ => None                         (* no fetcher yet: Log._new_packet_cb ignores the TOC channel *)
  | Some x, LReset => Some x                    (* guard: `if not self.toc` is false *)
  | Some (n, s, o), LEv ev => let '(s', o') := arun LogCls cache d s o [ev] in Some (n, s', o')
  end.

Definition lrun (cache : Z -> option toc) (ver : Z) (d : dev) (evs : list lev) : lstate :=
  fold_left (lstep cache ver d) evs None.

Definition enc_lrun (st : lstate) : list Z :=
  match st with
  | None => [-1]
  | Some (n, s, o) => Z.of_nat n :: enc_run (s, o)
  end.

(* the adversary's events without the reset replies *)
Fixpoint strip (evs : list lev) : list aev :=
  match evs with
  | [] => []
  | LReset :: r => strip r
  | LEv ev :: r => ev :: strip r
  end.

Fixpoint after_first_reset (evs : list lev) : option (list aev) :=
  match evs with
  | [] => None
  | LReset :: r => Some (strip r)
  | LEv _ :: r => after_first_reset r
  end.

(* ---------------------------------------------------------------- proofs *)

Lemma arun_cons c cache d s o ev evs :
  arun c cache d s o (ev :: evs) = let '(s1, o1) := arun c cache d s o [ev] in arun c cache d s1 o1 evs.
Proof. exact (arun_app c cache d [ev] evs s o). Qed.

Lemma lrun_started cache ver d : forall evs n s o,
  fold_left (lstep cache ver d) evs (Some (n, s, o)) =
  let '(s', o') := arun LogCls cache d s o (strip evs) in Some (n, s', o').
Proof.
  induction evs as [|e evs IH]; intros n s o; cbn [fold_left strip].
  - reflexivity.
  - destruct e as [|ev]; cbn [lstep].
    + apply IH.
    + rewrite (arun_cons LogCls cache d s o ev (strip evs)).
      destruct (arun LogCls cache d s o [ev]) as [s1 o1]. apply IH.
Qed.

(* a duplicated reset reply is a no-op in EVERY state once a download has been started *)
Lemma reset_noop cache ver d x : lstep cache ver d (Some x) LReset = Some x.
Proof. destruct x as [[n s] o]. reflexivity. Qed.

Lemma restart_guard cache ver d evs :
  lrun cache ver d evs =
  match after_first_reset evs with
  | None => None
  | Some l => let '(s, o) := fetch LogCls cache ver d l in Some (1%nat, s, o)
  end.
Proof.
  unfold lrun. induction evs as [|e evs IH]; [reflexivity|].
  destruct e as [|ev]; cbn [fold_left lstep after_first_reset].
  - unfold fetch. destruct (start ver []) as [s0 o0]. apply lrun_started.
  - exact IH.
Qed.

(* hence: started at most once, and on completion the table is the device's (C03_fetch_exact) *)
Lemma log_download_exact : forall cache ver items raw crc extra evs,
  raw_items LogCls items = Some raw -> Forall item_ok items -> 0 <= crc < 2 ^ 32 ->
  Z.of_nat (List.length items) < (if 4 <=? ver then 65536 else 256) ->
  admissible (strip evs) ->
  match lrun cache ver (mkDev raw crc extra) evs with
  | None => after_first_reset evs = None
  | Some (n, s, o) => n = 1%nat /\ fetch_result_ok LogCls cache (4 <=? ver) items crc s o
  end.
Proof.
  intros cache ver items raw crc extra evs Hraw Hok Hc Hn Hadm. rewrite restart_guard.
  destruct (after_first_reset evs) as [l|] eqn:E; [|reflexivity].
  assert (Hl : admissible l).
  { clear - E Hadm. induction evs as [|e evs IH]; [discriminate|].
    destruct e as [|ev]; cbn in *.
    - injection E as <-. exact Hadm.
    - apply IH; [|exact E]. now inversion Hadm. }
  pose proof (fetch_exact LogCls cache ver items raw crc extra l Hraw Hok Hc Hn Hl) as H.
  destruct (fetch LogCls cache ver (mkDev raw crc extra) l) as [s o]. now split.
Qed.
