(* C03/Proofs.v — element parsers: decode (encode e) = e *)
From CF Require Import Common.Bytes C03.Model.
From Coq Require Import ZifyBool.
Open Scope Z_scope.

(* ---------------------------------------------------------------- strings with a NUL terminator *)

Lemma find_idx_app c g r : ~ In c g -> find_idx c (g ++ c :: r) = Some (List.length g).
Proof.
  induction g as [|x g IH]; intros H; cbn [app find_idx List.length].
  - now rewrite Z.eqb_refl.
  - destruct (x =? c) eqn:E.
    + exfalso. apply H. left. lia.
    + rewrite IH; [reflexivity|]. intros Hin. apply H. now right.
Qed.

Lemma skipn_S_app {A} (g : list A) x r : skipn (S (List.length g)) (g ++ x :: r) = r.
Proof. induction g as [|y g IH]; [reflexivity|exact IH]. Qed.

Lemma log_names_ok g n : ~ In 0 g -> log_names (g ++ [0] ++ n ++ [0]) = (g, n).
Proof.
  intros Hg. unfold log_names. cbn [app]. rewrite find_idx_app by exact Hg.
  rewrite firstn_app_exact, skipn_S_app, removelast_last. reflexivity.
Qed.

Lemma split_on_nosep c s : ~ In c s -> split_on c s = [s].
Proof.
  induction s as [|x s IH]; intros H; [reflexivity|].
  cbn [split_on]. destruct (x =? c) eqn:E.
  - exfalso. apply H. left. lia.
  - rewrite IH; [reflexivity|]. intros Hin. apply H. now right.
Qed.

Lemma split_on_app c g r : ~ In c g -> split_on c (g ++ c :: r) = g :: split_on c r.
Proof.
  induction g as [|x g IH]; intros H; cbn [app split_on].
  - now rewrite Z.eqb_refl.
  - destruct (x =? c) eqn:E.
    + exfalso. apply H. left. lia.
    + rewrite IH; [reflexivity|]. intros Hin. apply H. now right.
Qed.

Lemma split_names_ok g n : ~ In 0 g -> ~ In 0 n -> split_on 0 (g ++ [0] ++ n ++ [0]) = [g; n; []].
Proof.
  intros Hg Hn. cbn [app]. rewrite split_on_app by exact Hg.
  rewrite split_on_app by exact Hn. reflexivity.
Qed.

(* ---------------------------------------------------------------- round trips *)

Lemma log_roundtrip : forall i it tb,
  item_ok it -> type_byte LogCls it = Some tb ->
  log_parse i (tb :: di_group it ++ [0] ++ di_name it ++ [0]) = Ok (spec_elem LogCls i it).
Proof.
  intros i it tb [[_ Hg] [_ Hn]] Htb. unfold log_parse.
  rewrite log_names_ok by exact Hg.
  cbn [type_byte] in Htb. unfold spec_elem.
  destruct (di_type it); cbn in Htb; try discriminate; injection Htb as <-; reflexivity.
Qed.

Lemma param_roundtrip : forall i it tb,
  item_ok it -> type_byte ParamCls it = Some tb ->
  param_parse i (tb :: di_group it ++ [0] ++ di_name it ++ [0]) = Ok (spec_elem ParamCls i it).
Proof.
  intros i it tb [[_ Hg] [_ Hn]] Htb. unfold param_parse.
  rewrite split_names_ok by assumption.
  cbn [type_byte] in Htb. injection Htb as <-. unfold spec_elem, spec_pytype.
  destruct (di_type it), (di_ext it), (di_core it), (di_ro it); reflexivity.
Qed.

Lemma parse_roundtrip : forall c i it tb,
  item_ok it -> type_byte c it = Some tb ->
  parse c i (tb :: di_group it ++ [0] ++ di_name it ++ [0]) = Ok (spec_elem c i it).
Proof. intros [|]; [apply log_roundtrip|apply param_roundtrip]. Qed.

(* the C type reported is the device's, by name; the access and extended attributes are the device's *)
Lemma spec_elem_fields : forall c i it,
  let e := spec_elem c i it in
  e_cls e = c /\ e_ident e = i /\ e_group e = di_group it /\ e_name e = di_name it /\
  e_ctype e = c_name (di_type it) /\
  (c = ParamCls -> e_access e = (if di_ro it then 1 else 0) /\ e_extended e = di_ext it) /\
  (c = LogCls -> e_pytype e = c_fmt (di_type it)) /\
  (c = ParamCls -> di_type it <> F16 -> e_pytype e = c_fmt (di_type it)).
Proof.
  intros [|] i it; cbn; repeat split; try discriminate; try reflexivity.
  intros _ H. unfold spec_pytype. destruct (di_type it); try reflexivity. now elim H.
Qed.
