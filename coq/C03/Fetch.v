(* C03/Fetch.v — the download: invariant over all adversarial reply schedules *)
From CF Require Import Common.Bytes C03.Model C03.Proofs.
From Coq Require Import ZifyBool.
Open Scope Z_scope.
Ltac Zify.zify_post_hook ::= Z.to_euclidean_division_equations.

Lemma Some_inj {A} (a b : A) : Some a = Some b -> a = b.
Proof. congruence. Qed.

(* ---------------------------------------------------------------- output projections *)

Lemma sends_app a b : sends (a ++ b) = sends a ++ sends b.
Proof. unfold sends. apply flat_map_app. Qed.
Lemma raised_app a b : raised (a ++ b) = raised a ++ raised b.
Proof. unfold raised. apply flat_map_app. Qed.
Lemma inserts_app a b : inserts (a ++ b) = inserts a ++ inserts b.
Proof. unfold inserts. apply flat_map_app. Qed.
Lemma fin_app a b : finished_count (a ++ b) = (finished_count a + finished_count b)%nat.
Proof. unfold finished_count. now rewrite filter_app, app_length. Qed.

(* ---------------------------------------------------------------- request/identifier bytes *)

Definition il (v2 : bool) : nat := if v2 then 2%nat else 1%nat.
Definition idb (v2 : bool) (j : Z) : list Z :=
  if v2 then [Z.land j 255; Z.land (Z.shiftr j 8) 255] else [j].
Definition lim (v2 : bool) : Z := if v2 then 65536 else 256.

Lemma item_req_idb v2 j : item_req v2 j = item_cmd v2 :: idb v2 j.
Proof. destruct v2; reflexivity. Qed.

Lemma idb_len v2 j : List.length (idb v2 j) = il v2.
Proof. destruct v2; reflexivity. Qed.

Lemma land255 j : Z.land j 255 = j mod 256.
Proof. change 255 with (Z.ones 8). rewrite Z.land_ones by lia. reflexivity. Qed.

Lemma idb_val v2 j : 0 <= j < lim v2 -> le_val (idb v2 j) = j.
Proof.
  unfold lim. destruct v2; intros H; cbn [idb le_val].
  - rewrite !land255, Z.shiftr_div_pow2 by lia. change (2 ^ 8) with 256. lia.
  - lia.
Qed.

Lemma idb_index j : 0 <= j < 65536 -> Z.land j 255 + 256 * Z.land (Z.shiftr j 8) 255 = j.
Proof. intros H. rewrite !land255, Z.shiftr_div_pow2 by lia. change (2 ^ 8) with 256. lia. Qed.

Lemma le_bytes_il_val v2 n : 0 <= n < lim v2 -> le_val (le_bytes (il v2) n) = n.
Proof.
  intros H. apply le_val_le_bytes_id. unfold lim, il in *. destruct v2; cbn; lia.
Qed.

(* ---------------------------------------------------------------- _new_packet_cb on well-formed packets *)

Lemma on_packet_unreg c cache s ch dt : f_reg s = false -> on_packet c cache s ch dt = (s, []).
Proof. intros H. unfold on_packet. now rewrite H. Qed.

Lemma on_packet_other c cache s ch dt : ch <> 0 -> on_packet c cache s ch dt = (s, []).
Proof.
  intros H. unfold on_packet. destruct (f_reg s); [|reflexivity]. cbn [negb].
  destruct (ch =? 0) eqn:E; [lia|reflexivity].
Qed.

Lemma firstn_il_app v2 (ib rest : list Z) : List.length ib = il v2 -> firstn (il v2) (ib ++ rest) = ib.
Proof. intros <-. apply firstn_app_exact. Qed.
Lemma skipn_il_app v2 (ib rest : list Z) : List.length ib = il v2 -> skipn (il v2) (ib ++ rest) = rest.
Proof. intros <-. apply skipn_app_exact. Qed.

Lemma on_packet_elem c cache v2 req n crc t ib rest :
  List.length ib = il v2 ->
  on_packet c cache (mkF true PElem v2 req n crc t) 0 (item_cmd v2 :: ib ++ rest) =
  if negb (le_val ib =? req) then (mkF true PElem v2 req n crc t, []) else
  match parse c (le_val ib) rest with
  | Raise e => (mkF true PElem v2 req n crc t, [Raised e])
  | Ok el =>
      let t' := add_element el t in
      if req <? n - 1 then (mkF true PElem v2 (req + 1) n crc t', [Send (item_req v2 (req + 1))])
      else (mkF false PElem v2 req n crc t', [Insert crc t'; Finished])
  end.
Proof.
  intros Hl. unfold on_packet.
  cbn [f_reg f_phase f_v2 f_req f_n f_crc f_toc negb tl]. change (0 =? 0) with true. cbn [negb].
  rewrite Z.eqb_refl. cbn [negb].
  fold (il v2).
  assert (Hlen : (List.length (ib ++ rest) <? il v2)%nat = false).
  { rewrite app_length, Hl. apply Nat.ltb_ge. lia. }
  rewrite Hlen, (firstn_il_app v2 ib rest Hl), (skipn_il_app v2 ib rest Hl). reflexivity.
Qed.

Lemma on_packet_elem_info c cache v2 req n crc t rest :
  on_packet c cache (mkF true PElem v2 req n crc t) 0 (info_cmd v2 :: rest) = (mkF true PElem v2 req n crc t, []).
Proof.
  unfold on_packet. cbn [f_reg f_phase f_v2 negb]. change (0 =? 0) with true. cbn [negb].
  destruct v2; reflexivity.
Qed.

Lemma on_packet_info c cache v2 t0 n crc extra :
  0 <= n < lim v2 -> 0 <= crc < 2 ^ 32 ->
  on_packet c cache (mkF true PInfo v2 (-1) (-1) 0 t0) 0
            (info_cmd v2 :: le_bytes (il v2) n ++ le_bytes 4 crc ++ extra) =
  match cache_hit c (cache crc) with
  | Some t => (mkF false PInfo v2 (-1) n crc t, [Finished])
  | None =>
      if 0 <? n then (mkF true PElem v2 0 n crc t0, [Send (item_req v2 0)])
      else (mkF false PElem v2 0 n crc t0, [Insert crc t0; Finished])
  end.
Proof.
  intros Hn Hc. unfold on_packet.
  cbn [f_reg f_phase f_v2 f_req f_n f_crc f_toc negb tl]. change (0 =? 0) with true. cbn [negb].
  rewrite Z.eqb_refl. cbn [negb].
  fold (il v2).
  assert (Hl : List.length (le_bytes (il v2) n) = il v2) by apply le_bytes_length.
  assert (Hlen : (List.length (le_bytes (il v2) n ++ le_bytes 4 crc ++ extra)
                  <? (if v2 then 6 else 5))%nat = false).
  { rewrite !app_length, !le_bytes_length. apply Nat.ltb_ge. unfold il. destruct v2; lia. }
  rewrite Hlen, (firstn_il_app v2 _ _ Hl), (skipn_il_app v2 _ _ Hl).
  replace (firstn 4 (le_bytes 4 crc ++ extra)) with (le_bytes 4 crc)
    by (symmetry; rewrite <- (le_bytes_length 4 crc) at 1; apply firstn_app_exact).
  rewrite (le_bytes_il_val v2 n Hn).
  rewrite (le_val_le_bytes_id 4 crc) by (change (256 ^ Z.of_nat 4) with (2 ^ 32); exact Hc).
  reflexivity.
Qed.

(* ---------------------------------------------------------------- device tables *)

Lemma raw_items_nth c : forall l r k it,
  raw_items c l = Some r -> nth_error l k = Some it ->
  exists tb, type_byte c it = Some tb /\ nth_error r k = Some (di_group it, di_name it, tb).
Proof.
  induction l as [|x l IH]; intros r k it Hr Hk.
  - destruct k; discriminate.
  - cbn [raw_items] in Hr. unfold raw_item in Hr.
    destruct (type_byte c x) as [tb|] eqn:Et; cbn [option_map] in Hr; [|discriminate].
    destruct (raw_items c l) as [rs|] eqn:Er; [|discriminate]. injection Hr as <-.
    destruct k as [|k]; cbn [nth_error] in *.
    + injection Hk as <-. exists tb. split; [exact Et|reflexivity].
    + eapply IH; [reflexivity|exact Hk].
Qed.

Lemma raw_items_length c : forall l r, raw_items c l = Some r -> List.length r = List.length l.
Proof.
  induction l as [|x l IH]; intros r Hr; cbn [raw_items] in Hr.
  - injection Hr as <-. reflexivity.
  - destruct (raw_item c x); [|discriminate]. destruct (raw_items c l) eqn:E; [|discriminate].
    injection Hr as <-. cbn [List.length]. f_equal. now apply IH.
Qed.

Lemma spec_elems_app c : forall l1 l2 i,
  spec_elems c i (l1 ++ l2) = spec_elems c i l1 ++ spec_elems c (i + Z.of_nat (List.length l1)) l2.
Proof.
  induction l1 as [|x l1 IH]; intros l2 i; cbn [app spec_elems List.length].
  - f_equal. lia.
  - f_equal. rewrite IH. f_equal. f_equal. lia.
Qed.

Lemma firstn_S_nth {A} : forall (l : list A) k x, nth_error l k = Some x -> firstn (S k) l = firstn k l ++ [x].
Proof.
  induction l as [|y l IH]; intros k x H; destruct k; cbn in *; try discriminate.
  - now injection H as <-.
  - f_equal. now apply IH.
Qed.

Lemma toc_of_elems_snoc es e : toc_of_elems (es ++ [e]) = add_element e (toc_of_elems es).
Proof. unfold toc_of_elems. now rewrite fold_left_app. Qed.

Lemma item_reqs_snoc v2 : forall k i, item_reqs v2 i (S k) = item_reqs v2 i k ++ [item_req v2 (i + Z.of_nat k)].
Proof.
  induction k as [|k IH]; intros i.
  - cbn. now rewrite Z.add_0_r.
  - change (item_reqs v2 i (S (S k))) with (item_req v2 i :: item_reqs v2 (i + 1) (S k)).
    rewrite IH. cbn [item_reqs app]. replace (i + Z.of_nat (S k)) with (i + 1 + Z.of_nat k) by lia. reflexivity.
Qed.

Lemma item_reqs_nth v2 : forall k i j, (j < k)%nat -> nth_error (item_reqs v2 i k) j = Some (item_req v2 (i + Z.of_nat j)).
Proof.
  induction k as [|k IH]; intros i j H; [lia|].
  destruct j as [|j]; cbn [item_reqs nth_error].
  - now rewrite Z.add_0_r.
  - rewrite IH by lia. replace (i + 1 + Z.of_nat j) with (i + Z.of_nat (S j)) by lia. reflexivity.
Qed.

Lemma item_reqs_nth_none v2 : forall k i j, (k <= j)%nat -> nth_error (item_reqs v2 i k) j = None.
Proof.
  intros k i j H. apply nth_error_None.
  assert (L : forall k i, List.length (item_reqs v2 i k) = k).
  { induction k0 as [|k0 IH]; intros i0; cbn; [reflexivity|now rewrite IH]. }
  now rewrite L.
Qed.

(* ---------------------------------------------------------------- the invariant *)

Section Fetch.
  Variables (c : cls) (cache : Z -> option toc) (v2 : bool) (items : list ditem)
            (raw : list (list Z * list Z * Z)) (crc : Z) (extra : list Z).
  Let d := mkDev raw crc extra.
  Let n := Z.of_nat (List.length items).
  Hypothesis Hraw : raw_items c items = Some raw.
  Hypothesis Hok : Forall item_ok items.
  Hypothesis Hcrc : 0 <= crc < 2 ^ 32.
  Hypothesis Hn : n < lim v2.

  Lemma dev_reply_info :
    dev_reply v2 d (info_req v2) =
    Some (info_cmd v2 :: le_bytes (il v2) n ++ le_bytes 4 crc ++ extra).
  Proof.
    unfold dev_reply, d, n. cbn [d_items d_crc d_extra].
    rewrite (raw_items_length _ _ _ Hraw). destruct v2; reflexivity.
  Qed.

  Lemma dev_reply_item j it :
    nth_error items j = Some it ->
    exists tb, type_byte c it = Some tb /\
      dev_reply v2 d (item_req v2 (Z.of_nat j)) =
      Some (item_cmd v2 :: idb v2 (Z.of_nat j) ++ tb :: di_group it ++ [0] ++ di_name it ++ [0]).
  Proof.
    intros Hj. destruct (raw_items_nth _ _ _ _ _ Hraw Hj) as (tb & Htb & Hr).
    exists tb. split; [exact Htb|].
    assert (Hlt : (j < List.length items)%nat) by (apply nth_error_Some; congruence).
    unfold dev_reply, d. cbn [d_items]. unfold n, lim in Hn.
    destruct v2; cbn [item_req idb].
    - rewrite idb_index by lia. rewrite Nat2Z.id, Hr. reflexivity.
    - rewrite Nat2Z.id, Hr. reflexivity.
  Qed.

  Definition done_toc (k : nat) : toc := toc_of_elems (spec_elems c 0 (firstn k items)).

  Inductive Inv : fstate -> list out -> Prop :=
  | InvInfo o :
      sends o = [info_req v2] -> finished_count o = 0%nat -> raised o = [] -> inserts o = [] ->
      Inv (mkF true PInfo v2 (-1) (-1) 0 []) o
  | InvElem k o :
      (k < List.length items)%nat -> cache_hit c (cache crc) = None ->
      sends o = info_req v2 :: item_reqs v2 0 (S k) ->
      finished_count o = 0%nat -> raised o = [] -> inserts o = [] ->
      Inv (mkF true PElem v2 (Z.of_nat k) n crc (done_toc k)) o
  | InvDone s o :
      f_reg s = false -> f_v2 s = v2 -> cache_hit c (cache crc) = None ->
      f_toc s = spec_toc c items ->
      sends o = info_req v2 :: item_reqs v2 0 (List.length items) ->
      finished_count o = 1%nat -> raised o = [] -> inserts o = [(crc, spec_toc c items)] ->
      Inv s o
  | InvHit s o t :
      f_reg s = false -> f_v2 s = v2 -> cache_hit c (cache crc) = Some t -> f_toc s = t ->
      sends o = [info_req v2] -> finished_count o = 1%nat -> raised o = [] -> inserts o = [] ->
      Inv s o.

  Lemma Inv_v2 s o : Inv s o -> f_v2 s = v2.
  Proof. destruct 1; auto. Qed.

  Lemma Inv_got s o ch dt : Inv s o -> Inv s (o ++ [Got ch dt]).
  Proof.
    destruct 1.
    - apply InvInfo; rewrite ?sends_app, ?fin_app, ?raised_app, ?inserts_app; cbn; rewrite ?app_nil_r; auto; lia.
    - apply InvElem; rewrite ?sends_app, ?fin_app, ?raised_app, ?inserts_app; cbn; rewrite ?app_nil_r; auto; lia.
    - apply InvDone; rewrite ?sends_app, ?fin_app, ?raised_app, ?inserts_app; cbn; rewrite ?app_nil_r; auto; lia.
    - eapply InvHit; rewrite ?sends_app, ?fin_app, ?raised_app, ?inserts_app; cbn; rewrite ?app_nil_r; eauto; lia.
  Qed.

  Lemma done_toc_S k it : nth_error items k = Some it ->
    add_element (spec_elem c (Z.of_nat k) it) (done_toc k) = done_toc (S k).
  Proof.
    intros H. unfold done_toc. rewrite (firstn_S_nth _ _ _ H), spec_elems_app.
    cbn [spec_elems]. rewrite toc_of_elems_snoc. rewrite firstn_length_le; [reflexivity|].
    apply Nat.lt_le_incl. apply nth_error_Some. congruence.
  Qed.

  (* one delivered packet *)
  Lemma Inv_step s o ev :
    Inv s o -> (match ev with Deliver _ => True | Raw ch _ => ch <> 0 end) ->
    match packet_of v2 d o ev with
    | None => True
    | Some (ch, dt) => let '(s', o') := on_packet c cache s ch dt in Inv s' (o ++ Got ch dt :: o')
    end.
  Proof.
    intros HI Hadm.
    destruct (packet_of v2 d o ev) as [[ch dt]|] eqn:Epk; [|exact I].
    change (o ++ Got ch dt :: ?x) with (o ++ [Got ch dt] ++ x).
    (* packets that the callback ignores *)
    assert (Hign : forall s0, Inv s0 o -> on_packet c cache s0 ch dt = (s0, []) ->
                   let '(s', o') := on_packet c cache s0 ch dt in Inv s' (o ++ [Got ch dt] ++ o')).
    { intros s0 H0 E. rewrite E. rewrite app_nil_r. now apply Inv_got. }
    destruct ev as [k|rch rdt].
    2:{ cbn in Epk. injection Epk as <- <-. apply Hign; [exact HI|]. now apply on_packet_other. }
    cbn [packet_of] in Epk.
    destruct (nth_error (sends o) k) as [rq|] eqn:Erq; [|discriminate].
    destruct (dev_reply v2 d rq) as [rp|] eqn:Erp; [|discriminate].
    cbn [option_map] in Epk. injection Epk as <- <-.
    destruct HI as [o Hs Hf Hr Hi | k0 o Hk Hmiss Hs Hf Hr Hi | s o Hreg Hv Hmiss Ht Hs Hf Hr Hi
                   | s o t Hreg Hv Hhit Ht Hs Hf Hr Hi].
    - (* waiting for INFO: the only request sent is INFO *)
      rewrite Hs in Erq. destruct k as [|k]; [|destruct k; discriminate].
      cbn in Erq. injection Erq as <-. rewrite dev_reply_info in Erp. apply Some_inj in Erp. subst rp.
      rewrite on_packet_info by (unfold n in *; lia || exact Hcrc).
      destruct (cache_hit c (cache crc)) as [t|] eqn:Ehit.
      + eapply InvHit; rewrite ?sends_app, ?fin_app, ?raised_app, ?inserts_app; cbn; rewrite ?app_nil_r;
          eauto; rewrite ?Hf; try reflexivity.
      + destruct (0 <? n) eqn:En.
        * apply (InvElem 0); rewrite ?sends_app, ?fin_app, ?raised_app, ?inserts_app; cbn; rewrite ?app_nil_r;
            auto; try (unfold n in En; lia).
          rewrite Hs. reflexivity.
        * assert (E0 : items = []) by (apply length_zero_iff_nil; unfold n in En; lia).
          apply InvDone; rewrite ?sends_app, ?fin_app, ?raised_app, ?inserts_app; cbn; rewrite ?app_nil_r;
            auto; rewrite ?E0; auto; rewrite ?Hf, ?Hi; reflexivity.
    - (* downloading element k0 *)
      rewrite Hs in Erq. destruct k as [|j].
      + (* a duplicate of the INFO reply *)
        cbn in Erq. injection Erq as <-. rewrite dev_reply_info in Erp. apply Some_inj in Erp. subst rp.
        apply Hign.
        * now apply InvElem.
        * (* since fix F03a it is recognised by its command byte *)
          apply on_packet_elem_info.
      + cbn [nth_error] in Erq.
        destruct (Nat.lt_ge_cases j (S k0)) as [Hj|Hj].
        2:{ rewrite item_reqs_nth_none in Erq by lia. discriminate. }
        rewrite item_reqs_nth in Erq by lia. rewrite Z.add_0_l in Erq. apply Some_inj in Erq. subst rq.
        destruct (nth_error items j) as [it|] eqn:Eit.
        2:{ apply nth_error_None in Eit. lia. }
        destruct (dev_reply_item j it Eit) as (tb & Htb & Erp'). rewrite Erp' in Erp. apply Some_inj in Erp. subst rp.
        rewrite (on_packet_elem c cache v2 _ _ _ _ (idb v2 (Z.of_nat j)) _ (idb_len _ _)).
        rewrite idb_val by (unfold n in Hn; lia).
        destruct (Z.of_nat j =? Z.of_nat k0) eqn:Ejk; cbn [negb].
        2:{ (* stale or duplicated element reply *)
            rewrite app_nil_r. apply Inv_got. now apply InvElem. }
        assert (j = k0) by lia. subst j.
        assert (Hitok : item_ok it).
        { rewrite Forall_forall in Hok. apply Hok. eapply nth_error_In. exact Eit. }
        rewrite (parse_roundtrip c (Z.of_nat k0) it tb Hitok Htb). cbn zeta.
        rewrite (done_toc_S k0 it Eit).
        destruct (Z.of_nat k0 <? n - 1) eqn:Elast.
        * replace (Z.of_nat k0 + 1) with (Z.of_nat (S k0)) by lia.
          apply (InvElem (S k0)); rewrite ?sends_app, ?fin_app, ?raised_app, ?inserts_app; cbn [sends raised inserts finished_count flat_map filter app List.length];
            rewrite ?app_nil_r; auto; try (unfold n in Elast; lia).
          rewrite Hs. rewrite (item_reqs_snoc v2 (S k0)). cbn [app]. rewrite Z.add_0_l. reflexivity.
        * assert (Ek : S k0 = List.length items) by (unfold n in Elast; lia).
          assert (Efull : done_toc (S k0) = spec_toc c items).
          { unfold done_toc, spec_toc. rewrite Ek, firstn_all. reflexivity. }
          rewrite Efull.
          apply InvDone; rewrite ?sends_app, ?fin_app, ?raised_app, ?inserts_app; cbn [sends raised inserts finished_count flat_map filter app List.length f_reg f_v2 f_toc];
            rewrite ?app_nil_r; auto; try lia.
          -- rewrite Hs, Ek. reflexivity.
          -- rewrite Hi. reflexivity.
    - apply Hign; [now apply InvDone|now apply on_packet_unreg].
    - apply Hign; [now eapply InvHit; eauto|now apply on_packet_unreg].
  Qed.

  Lemma Inv_arun : forall evs s o,
    Inv s o -> admissible evs ->
    let '(s', o') := arun c cache d s o evs in Inv s' o'.
  Proof.
    induction evs as [|ev evs IH]; intros s o HI Hadm; cbn [arun]; [exact HI|].
    inversion Hadm as [|? ? Hev Hrest]; subst.
    pose proof (Inv_step s o ev HI Hev) as Hst.
    rewrite (Inv_v2 s o HI).
    destruct (packet_of v2 d o ev) as [[ch dt]|].
    - destruct (on_packet c cache s ch dt) as [s1 o1]. now apply IH.
    - now apply IH.
  Qed.
End Fetch.

(* ---------------------------------------------------------------- the theorem *)

Definition fetch_result_ok (c : cls) (cache : Z -> option toc) (v2 : bool) (items : list ditem) (crc : Z)
           (s : fstate) (o : list out) : Prop :=
  raised o = [] /\ (finished_count o <= 1)%nat /\
  (finished_count o = 1%nat ->
     f_reg s = false /\
     match cache_hit c (cache crc) with
     | Some t => f_toc s = t /\ sends o = [info_req v2] /\ inserts o = []
     | None => f_toc s = spec_toc c items /\
               sends o = info_req v2 :: item_reqs v2 0 (List.length items) /\
               inserts o = [(crc, spec_toc c items)]
     end) /\
  (finished_count o = 0%nat ->
     f_reg s = true /\ inserts o = [] /\
     exists k, (k <= List.length items)%nat /\ sends o = info_req v2 :: item_reqs v2 0 k).

Lemma fetch_exact : forall c cache ver items raw crc extra evs,
  raw_items c items = Some raw -> Forall item_ok items -> 0 <= crc < 2 ^ 32 ->
  Z.of_nat (List.length items) < (if 4 <=? ver then 65536 else 256) ->
  admissible evs ->
  let '(s, o) := fetch c cache ver (mkDev raw crc extra) evs in
  fetch_result_ok c cache (4 <=? ver) items crc s o.
Proof.
  intros c cache ver items raw crc extra evs Hraw Hok Hcrc Hn Hadm.
  unfold fetch, start.
  set (v2 := 4 <=? ver) in *.
  pose proof (Inv_arun c cache v2 items raw crc extra Hraw Hok Hcrc Hn evs
                (mkF true PInfo v2 (-1) (-1) 0 []) [Send (info_req v2)]) as H.
  destruct (arun c cache (mkDev raw crc extra) (mkF true PInfo v2 (-1) (-1) 0 []) [Send (info_req v2)] evs)
    as [s o].
  assert (HI : Inv c cache v2 items crc s o).
  { apply H; [|exact Hadm]. apply InvInfo; reflexivity. }
  clear H. unfold fetch_result_ok.
  destruct HI as [o Hs Hf Hr Hi | k0 o Hk Hmiss Hs Hf Hr Hi | s o Hreg Hv Hmiss Ht Hs Hf Hr Hi
                 | s o t Hreg Hv Hhit Ht Hs Hf Hr Hi]; rewrite ?Hf.
  - repeat split; auto; try lia; try discriminate. exists 0%nat. split; [lia|exact Hs].
  - repeat split; auto; try lia; try discriminate. exists (S k0). split; [lia|exact Hs].
  - rewrite Hmiss. repeat split; auto; try lia; discriminate.
  - rewrite Hhit. repeat split; auto; try lia; discriminate.
Qed.

Lemma cache_hit_sound : forall c cd t,
  cache_hit c cd = Some t -> cd = Some t /\ t <> [] /\ forall e, In e (values t) -> e_cls e = c.
Proof.
  intros c [t0|] t H; cbn [cache_hit] in H; [|discriminate].
  destruct (match t0 with [] => false | _ => true end && forallb (fun e => cls_eqb (e_cls e) c) (values t0)) eqn:E;
    [|discriminate].
  injection H as <-. apply andb_true_iff in E. destruct E as [E1 E2].
  split; [reflexivity|split].
  - intros ->. discriminate.
  - intros e He. rewrite forallb_forall in E2. specialize (E2 e He).
    destruct (e_cls e), c; try reflexivity; discriminate.
Qed.
