(* C03/Stale.v — the adversary widened:
   (a) an arbitrary source of STALE packets on the TOC channel (replies left over from an earlier session on the
       same object: INFO replies with another count/CRC, element replies of another table, anything else), at
       every point of the download;
   (b) resends as duplicate REQUESTS reaching the device: every copy is answered, the answers are in flight and
       are delivered in any order, at any later time, or lost (`wire`).
   Which stale packets the (F03a-fixed) code can tell apart is stated exactly by `stale_ok`; the two kinds it
   cannot — a stale INFO reply while the INFO reply is awaited, a stale element reply that carries exactly the
   pending index — are indistinguishable on the wire (same command, same index, plausible payload): protocol
   limitations, with refutation examples below. *)
From CF Require Import Common.Bytes C03.Model C03.Proofs C03.Fetch C03.Lookup C03.Live.
From Coq Require Import ZifyBool.
Open Scope Z_scope.

(* a packet on the TOC channel that the fetcher in state s must ignore *)
Definition stale_ok (s : fstate) (dt : list Z) : Prop :=
  match dt with
  | [] => True
  | cmd :: rest =>
      (cmd = info_cmd (f_v2 s) -> f_phase s <> PInfo) /\
      (cmd = item_cmd (f_v2 s) -> f_phase s = PElem ->
         (il (f_v2 s) <= List.length rest)%nat /\ le_val (firstn (il (f_v2 s)) rest) <> f_req s)
  end.

Definition ev_ok (s : fstate) (ev : aev) : Prop :=
  match ev with Deliver _ => True | Raw ch dt => ch <> 0 \/ stale_ok s dt end.

(* every event is acceptable in the state in which it arrives *)
Fixpoint all_ok (c : cls) (cache : Z -> option toc) (d : dev) (s : fstate) (outs : list out) (evs : list aev) : Prop :=
  match evs with
  | [] => True
  | ev :: evs' =>
      ev_ok s ev /\
      match packet_of (f_v2 s) d outs ev with
      | None => all_ok c cache d s outs evs'
      | Some (ch, dt) => let '(s', o) := on_packet c cache s ch dt in all_ok c cache d s' (outs ++ Got ch dt :: o) evs'
      end
  end.

Lemma info_item_cmd_neq v2 : info_cmd v2 <> item_cmd v2.
Proof. destruct v2; discriminate. Qed.

Section Stale.
  Variables (c : cls) (cache : Z -> option toc) (v2 : bool) (items : list ditem)
            (raw : list (list Z * list Z * Z)) (crc : Z) (extra : list Z).
  Let d := mkDev raw crc extra.
  Hypothesis Hraw : raw_items c items = Some raw.
  Hypothesis Hok : Forall item_ok items.
  Hypothesis Hcrc : 0 <= crc < 2 ^ 32.
  Hypothesis Hn : Z.of_nat (List.length items) < lim v2.
  Notation Inv := (Inv c cache v2 items crc).

  Lemma stale_ignored s o dt : Inv s o -> stale_ok s dt -> on_packet c cache s 0 dt = (s, []).
  Proof.
    intros HI Hs. destruct dt as [|cmd rest].
    - unfold on_packet. destruct (f_reg s); reflexivity.
    - destruct Hs as [H1 H2].
      destruct HI as [o Hs' Hf Hr Hi | k0 o Hk Hmiss Hs' Hf Hr Hi | s o Hreg Hv Hmiss Ht Hs' Hf Hr Hi
                     | s o t Hreg Hv Hhit Ht Hs' Hf Hr Hi].
      + unfold on_packet. cbn [f_reg f_phase f_v2 negb] in *. change (0 =? 0) with true. cbn [negb].
        destruct (cmd =? info_cmd v2) eqn:E; [|reflexivity].
        exfalso. apply H1; [lia|reflexivity].
      + cbn [f_phase f_v2 f_req] in H2.
        destruct (Z.eq_dec cmd (item_cmd v2)) as [->|Hne].
        * destruct (H2 eq_refl eq_refl) as [Hlen Hid].
          rewrite <- (firstn_skipn (il v2) rest).
          rewrite (on_packet_elem c cache v2 _ _ _ _ (firstn (il v2) rest) (skipn (il v2) rest))
            by (apply firstn_length_le; exact Hlen).
          destruct (le_val (firstn (il v2) rest) =? Z.of_nat k0) eqn:E; [lia|reflexivity].
        * unfold on_packet. cbn [f_reg f_phase f_v2 negb]. change (0 =? 0) with true. cbn [negb].
          destruct (cmd =? item_cmd v2) eqn:E; [lia|reflexivity].
      + now apply on_packet_unreg.
      + now apply on_packet_unreg.
  Qed.

  Lemma Inv_step' s o ev :
    Inv s o -> ev_ok s ev ->
    match packet_of v2 d o ev with
    | None => True
    | Some (ch, dt) => let '(s', o') := on_packet c cache s ch dt in Inv s' (o ++ Got ch dt :: o')
    end.
  Proof.
    intros HI Hev. destruct ev as [k|ch dt].
    - exact (Inv_step c cache v2 items raw crc extra Hraw Hok Hcrc Hn s o (Deliver k) HI I).
    - destruct Hev as [Hch|Hst].
      + exact (Inv_step c cache v2 items raw crc extra Hraw Hok Hcrc Hn s o (Raw ch dt) HI Hch).
      + cbn [packet_of]. destruct (Z.eq_dec ch 0) as [->|Hne].
        * rewrite (stale_ignored s o dt HI Hst).
          change (o ++ [Got 0 dt]) with (o ++ [Got 0 dt]). now apply Inv_got.
        * rewrite on_packet_other by exact Hne. now apply Inv_got.
  Qed.

  Lemma Inv_arun' : forall evs s o,
    Inv s o -> all_ok c cache d s o evs -> let '(s', o') := arun c cache d s o evs in Inv s' o'.
  Proof.
    induction evs as [|ev evs IH]; intros s o HI Hall; cbn [arun]; [exact HI|].
    cbn [all_ok] in Hall. destruct Hall as [Hev Hrest].
    pose proof (Inv_step' s o ev HI Hev) as Hst.
    rewrite (Inv_v2 _ _ _ _ _ _ _ HI) in *.
    destruct (packet_of v2 d o ev) as [[ch dt]|].
    - destruct (on_packet c cache s ch dt) as [s1 o1]. now apply IH.
    - now apply IH.
  Qed.
End Stale.

(* C03_fetch_exact under the widened adversary *)
Lemma fetch_exact_stale : forall c cache ver items raw crc extra evs,
  raw_items c items = Some raw -> Forall item_ok items -> 0 <= crc < 2 ^ 32 ->
  Z.of_nat (List.length items) < (if 4 <=? ver then 65536 else 256) ->
  (let '(s0, o0) := start ver [] in all_ok c cache (mkDev raw crc extra) s0 o0 evs) ->
  let '(s, o) := fetch c cache ver (mkDev raw crc extra) evs in
  fetch_result_ok c cache (4 <=? ver) items crc s o.
Proof.
  intros c cache ver items raw crc extra evs Hraw Hok Hcrc Hn Hall.
  unfold fetch, start in *. set (v2 := 4 <=? ver) in *.
  pose proof (Inv_arun' c cache v2 items raw crc extra Hraw Hok Hcrc Hn evs
                (mkF true PInfo v2 (-1) (-1) 0 []) [Send (info_req v2)]) as H.
  destruct (arun c cache (mkDev raw crc extra) (mkF true PInfo v2 (-1) (-1) 0 []) [Send (info_req v2)] evs) as [s o].
  assert (HI : Inv c cache v2 items crc s o) by (apply H; [apply InvInfo; reflexivity|exact Hall]).
  clear H. unfold fetch_result_ok.
  destruct HI as [o Hs Hf Hr Hi | k0 o Hk Hmiss Hs Hf Hr Hi | s o Hreg Hv Hmiss Ht Hs Hf Hr Hi
                 | s o t Hreg Hv Hhit Ht Hs Hf Hr Hi]; rewrite ?Hf.
  - repeat split; auto; try lia; try discriminate. exists 0%nat. split; [lia|exact Hs].
  - repeat split; auto; try lia; try discriminate. exists (S k0). split; [lia|exact Hs].
  - rewrite Hmiss. repeat split; auto; try lia; discriminate.
  - rewrite Hhit. repeat split; auto; try lia; discriminate.
Qed.

(* the old adversary is a special case *)
Lemma admissible_all_ok c cache d : forall evs s o, admissible evs -> all_ok c cache d s o evs.
Proof.
  induction evs as [|ev evs IH]; intros s o H; [exact I|].
  inversion H as [|? ? Hev Hr]; subst. cbn [all_ok]. split.
  - destruct ev; [exact I|now left].
  - destruct (packet_of (f_v2 s) d o ev) as [[ch dt]|]; [|now apply IH].
    destruct (on_packet c cache s ch dt). now apply IH.
Qed.

(* ---------------------------------------------------------------- protocol limitations (refutations) *)

Definition lim_items : list ditem :=
  [ mkItem [103] [97] U8 false false false false; mkItem [103] [98] F32 false false false false ].
Definition lim_raw : list (list Z * list Z * Z) := [([103], [97], 8); ([103], [98], 6)].
Definition lim_dev : dev := mkDev lim_raw 287454020 [].

(* a stale INFO reply (another table: 1 entry, CRC 1) delivered while the INFO reply is awaited is taken as
   the answer: same command byte, plausible payload.  The download completes with 1 of 2 entries, stored under
   the stale CRC. *)
Lemma stale_info_indistinguishable :
  let '(s, o) := fetch ParamCls (fun _ => None) 7 lim_dev
                       [Raw 0 [3; 1; 0; 1; 0; 0; 0]; Deliver 0; Deliver 1] in
  finished_count o = 1%nat /\ raised o = [] /\
  f_toc s = spec_toc ParamCls [mkItem [103] [97] U8 false false false false] /\
  f_toc s <> spec_toc ParamCls lim_items /\ map fst (inserts o) = [1].
Proof. vm_compute. repeat split; try reflexivity. discriminate. Qed.

(* a stale element reply that carries exactly the pending index (entry 0 of another table) is taken as the
   answer: same command, same index.  The device's own reply for index 0 is then dropped as a duplicate. *)
Lemma stale_item_indistinguishable :
  let '(s, o) := fetch ParamCls (fun _ => None) 7 lim_dev
                       [Deliver 0; Raw 0 [2; 0; 0; 9; 111; 0; 120; 0]; Deliver 1; Deliver 2] in
  finished_count o = 1%nat /\ raised o = [] /\
  get_element [111] [120] (f_toc s) <> None /\ get_element [103] [97] (f_toc s) = None /\
  map fst (inserts o) = [287454020].
Proof. vm_compute. repeat split; try reflexivity. discriminate. Qed.

(* ---------------------------------------------------------------- (b) duplicate requests at the device *)

(* the link between client and device: every copy of a request that reaches the device is answered; answers
   are in flight (a bag of request numbers: the TOC server is a pure function of the request) until they are
   delivered, in any order, or lost *)
Inductive wev :=
| WReach (k : nat)          (* a copy of request number k reaches the device and is answered *)
| WDeliver (j : nat)        (* the j-th answer in flight arrives *)
| WDrop (j : nat)           (* the j-th answer in flight is lost *)
| WRaw (ch : Z) (dt : list Z).

Fixpoint remove_nth {A} (j : nat) (l : list A) : list A :=
  match l, j with
  | [], _ => []
  | _ :: r, O => r
  | x :: r, S k => x :: remove_nth k r
  end.

Fixpoint wire (bag : list nat) (evs : list wev) : list aev :=
  match evs with
  | [] => []
  | WReach k :: r => wire (bag ++ [k]) r
  | WDeliver j :: r =>
      match nth_error bag j with
      | Some k => Deliver k :: wire (remove_nth j bag) r
      | None => wire bag r
      end
  | WDrop j :: r => wire (remove_nth j bag) r
  | WRaw ch dt :: r => Raw ch dt :: wire bag r
  end.

Definition wadmissible (evs : list wev) : Prop :=
  Forall (fun e => match e with WRaw ch _ => ch <> 0 | _ => True end) evs.

Lemma wire_admissible : forall evs bag, wadmissible evs -> admissible (wire bag evs).
Proof.
  induction evs as [|e evs IH]; intros bag H; [constructor|].
  inversion H as [|? ? He Hr]; subst. destruct e as [k|j|j|ch dt]; cbn [wire].
  - now apply IH.
  - destruct (nth_error bag j); [constructor; [exact I|now apply IH]|now apply IH].
  - now apply IH.
  - constructor; [exact He|now apply IH].
Qed.

Lemma fetch_exact_wire : forall c cache ver items raw crc extra wevs,
  raw_items c items = Some raw -> Forall item_ok items -> 0 <= crc < 2 ^ 32 ->
  Z.of_nat (List.length items) < (if 4 <=? ver then 65536 else 256) ->
  wadmissible wevs ->
  let '(s, o) := fetch c cache ver (mkDev raw crc extra) (wire [] wevs) in
  fetch_result_ok c cache (4 <=? ver) items crc s o.
Proof.
  intros. apply fetch_exact; auto. now apply wire_admissible.
Qed.
