(* C03/Model.v — executable model of the table-of-contents download.
   Hand-written from cflib/crazyflie/toc.py (Toc, TocFetcher), LogTocElement.__init__ (log.py),
   ParamTocElement.__init__ and _ExtendedTypeFetcher (param.py).  Tied to the code on every run by
   differential evaluation against the real classes (harness/props/c03.py).

   Conventions: bytes and Python ints are Z; a Python str is the list of its code points (ISO-8859-1
   decoding maps byte b to code point b); a Python dict is an association list in insertion order
   (assignment to an existing key keeps its position).  Python exceptions are explicit results. *)
From CF Require Export Common.Bytes.
From Coq Require Export String Ascii.
Open Scope Z_scope.
(* String exports its own length/append: keep the list ones *)
Notation length := List.length (only parsing).

Inductive exn := KeyError | IndexError | StructError | AttributeError | ValueError | TypeError.
Inductive res (A : Type) := Ok (a : A) | Raise (e : exn).
Arguments Ok {A}. Arguments Raise {A}.

(* ------------------------------------------------------------------ elements and the Toc container *)

Inductive cls := LogCls | ParamCls.
Definition cls_eqb (a b : cls) : bool :=
  match a, b with LogCls, LogCls => true | ParamCls, ParamCls => true | _, _ => false end.

(* LogTocElement has no extended/persistent attributes: they are carried as false *)
Record elem := mkElem {
  e_cls : cls; e_ident : Z; e_group : list Z; e_name : list Z;
  e_ctype : string; e_pytype : string; e_access : Z; e_extended : bool; e_persistent : bool }.

Fixpoint dget {V} (k : list Z) (d : list (list Z * V)) : option V :=
  match d with
  | [] => None
  | (k', v) :: d' => if zlist_eqb k k' then Some v else dget k d'
  end.

Fixpoint dset {V} (k : list Z) (v : V) (d : list (list Z * V)) : list (list Z * V) :=
  match d with
  | [] => [(k, v)]
  | (k', v') :: d' => if zlist_eqb k k' then (k', v) :: d' else (k', v') :: dset k v d'
  end.

Definition toc := list (list Z * list (list Z * elem)).

(* Toc.add_element: self.toc[group][name] = element, creating the group on KeyError *)
Definition add_element (e : elem) (t : toc) : toc :=
  match dget (e_group e) t with
  | Some g => dset (e_group e) (dset (e_name e) e g) t
  | None => dset (e_group e) [(e_name e, e)] t
  end.

Definition get_element (g n : list Z) (t : toc) : option elem :=
  match dget g t with Some d => dget n d | None => None end.

Definition values (t : toc) : list elem := flat_map (fun gd => map snd (snd gd)) t.

(* Toc.get_element_by_id: first element in iteration order with that ident *)
Definition get_element_by_id (i : Z) (t : toc) : option elem :=
  find (fun e => e_ident e =? i) (values t).

(* str.split(sep) for a one-character separator *)
Fixpoint split_on (c : Z) (s : list Z) : list (list Z) :=
  match s with
  | [] => [[]]
  | x :: s' =>
      if x =? c then [] :: split_on c s'
      else match split_on c s' with
           | h :: t => (x :: h) :: t
           | [] => [[x]]
           end
  end.

(* Toc.get_element_id: [group, name] = complete_name.split('.')  (ValueError unless exactly one dot) *)
Definition get_element_id (cn : list Z) (t : toc) : res (option Z) :=
  match split_on 46 cn with
  | [g; n] => Ok (option_map e_ident (get_element g n t))
  | _ => Raise ValueError
  end.

(* Toc.get_element_by_complete_name: ValueError is swallowed; get_element_by_id(None) finds nothing *)
Definition get_element_by_complete_name (cn : list Z) (t : toc) : option elem :=
  match get_element_id cn t with
  | Ok (Some i) => get_element_by_id i t
  | Ok None => None
  | Raise _ => None
  end.

(* ------------------------------------------------------------------ element parsers *)

Fixpoint assoc {B} (k : Z) (l : list (Z * B)) : option B :=
  match l with
  | [] => None
  | (k', v) :: l' => if k =? k' then Some v else assoc k l'
  end.

(* LogTocElement.types : id -> (C type, struct format)   (third component, the size, is not used here) *)
Definition log_types : list (Z * (string * string)) :=
  [ (1, ("uint8_t", "<B")); (2, ("uint16_t", "<H")); (3, ("uint32_t", "<L"));
    (4, ("int8_t", "<b")); (5, ("int16_t", "<h")); (6, ("int32_t", "<i"));
    (8, ("FP16", "<e")); (7, ("float", "<f")) ]%string.

(* ParamTocElement.types *)
Definition param_types : list (Z * (string * string)) :=
  [ (8, ("uint8_t", "<B")); (9, ("uint16_t", "<H")); (10, ("uint32_t", "<L")); (11, ("uint64_t", "<Q"));
    (0, ("int8_t", "<b")); (1, ("int16_t", "<h")); (2, ("int32_t", "<i")); (3, ("int64_t", "<q"));
    (5, ("FP16", "")); (6, ("float", "<f")); (7, ("double", "<d")) ]%string.

(* bytes.find(b'\0') *)
Fixpoint find_idx (c : Z) (s : list Z) : option nat :=
  match s with
  | [] => None
  | x :: s' => if x =? c then Some O else option_map S (find_idx c s')
  end.

(* group = naming[:naming.find(zt)] ; name = naming[naming.find(zt)+1:-1]   (find = -1 when absent) *)
Definition log_names (naming : list Z) : list Z * list Z :=
  match find_idx 0 naming with
  | Some k => (firstn k naming, removelast (skipn (S k) naming))
  | None => (removelast naming, removelast naming)
  end.

(* LogTocElement(ident, data).  Empty data leaves the object without group/name: the AttributeError is
   raised by the Toc.add_element that immediately follows in TocFetcher (same observable: the callback
   raises, nothing changes). *)
Definition log_parse (ident : Z) (data : list Z) : res elem :=
  match data with
  | [] => Raise AttributeError
  | tb :: naming =>
      let '(g, n) := log_names naming in
      match assoc tb log_types with
      | Some (ct, pt) => Ok (mkElem LogCls ident g n ct pt (Z.land tb 16) false false)
      | None => Raise KeyError
      end
  end.

(* ParamTocElement(ident, data): strs = s.split('\x00'); group = strs[0]; name = strs[1] *)
Definition param_parse (ident : Z) (data : list Z) : res elem :=
  match data with
  | [] => Raise AttributeError
  | md :: rest =>
      match split_on 0 rest with
      | g :: n :: _ =>
          match assoc (Z.land md 15) param_types with
          | Some (ct, pt) =>
              Ok (mkElem ParamCls ident g n ct pt
                    (if Z.land md 64 =? 0 then 0 else 1) (negb (Z.land md 16 =? 0)) false)
          | None => Raise KeyError
          end
      | _ => Raise IndexError
      end
  end.

Definition parse (c : cls) : Z -> list Z -> res elem :=
  match c with LogCls => log_parse | ParamCls => param_parse end.

(* ------------------------------------------------------------------ TocFetcher *)

Inductive phase := PNone | PInfo | PElem.

Record fstate := mkF {
  f_reg : bool;          (* _new_packet_cb registered on the port *)
  f_phase : phase;       (* state *)
  f_v2 : bool;           (* _useV2 *)
  f_req : Z;             (* requested_index (None = -1) *)
  f_n : Z;               (* nbr_of_items   (None = -1) *)
  f_crc : Z;             (* _crc *)
  f_toc : toc }.         (* toc_holder.toc *)

Inductive out :=
| Got (chan : Z) (data : list Z)     (* packet handed to the port callbacks (environment side) *)
| Send (data : list Z)               (* request sent on the TOC channel of the fetcher's port *)
| Insert (crc : Z) (t : toc)         (* toc_cache.insert(crc, toc) *)
| Finished                           (* finished_callback() *)
| Raised (e : exn).                  (* the callback raised *)

Definition f_init : fstate := mkF false PNone false (-1) (-1) 0 [].

Definition info_cmd (v2 : bool) : Z := if v2 then 3 else 1.
Definition item_cmd (v2 : bool) : Z := if v2 then 2 else 0.
Definition info_req (v2 : bool) : list Z := if v2 then [3] else [1].
Definition item_req (v2 : bool) (i : Z) : list Z :=
  if v2 then [2; Z.land i 255; Z.land (Z.shiftr i 8) 255] else [0; i].

(* TocFetcher.start: _useV2 = protocol version >= 4; register; request INFO *)
Definition start (ver : Z) (t0 : toc) : fstate * list out :=
  let v2 := 4 <=? ver in
  (mkF true PInfo v2 (-1) (-1) 0 t0, [Send (info_req v2)]).

(* the truth test `if (cache_data)` followed by the element-class validation of fix F11:
   a cached table is used only if it is a non-empty table whose elements are all of this fetcher's class *)
Definition cache_hit (c : cls) (cd : option toc) : option toc :=
  match cd with
  | Some t =>
      if match t with [] => false | _ => true end && forallb (fun e => cls_eqb (e_cls e) c) (values t)
      then Some t else None
  | None => None
  end.

Definition set_toc (s : fstate) (t : toc) : fstate :=
  mkF (f_reg s) (f_phase s) (f_v2 s) (f_req s) (f_n s) (f_crc s) t.
Definition unreg (s : fstate) : fstate :=
  mkF false (f_phase s) (f_v2 s) (f_req s) (f_n s) (f_crc s) (f_toc s).

(* TocFetcher._new_packet_cb *)
Definition on_packet (c : cls) (cache : Z -> option toc) (s : fstate) (chan : Z) (data : list Z)
  : fstate * list out :=
  if negb (f_reg s) then (s, []) else
  if negb (chan =? 0) then (s, []) else
  match data with
  | [] => (s, [])                       (* len(packet.data) < 1 *)
  | cmd :: payload =>
  match f_phase s with
  | PNone => (s, [])
  | PInfo =>
      (* only a reply to the INFO request (fix F03a): a reply left over from an earlier session or a late
         element reply is not read as the INFO reply *)
      if negb (cmd =? info_cmd (f_v2 s)) then (s, []) else
      let hl := if f_v2 s then 6%nat else 5%nat in
      let il := if f_v2 s then 2%nat else 1%nat in
      if (length payload <? hl)%nat then (s, [Raised StructError]) else
      let n := le_val (firstn il payload) in
      let crc := le_val (firstn 4 (skipn il payload)) in
      match cache_hit c (cache crc) with
      | Some t => (mkF false PInfo (f_v2 s) (f_req s) n crc t, [Finished])
      | None =>
          if 0 <? n then (mkF true PElem (f_v2 s) 0 n crc (f_toc s), [Send (item_req (f_v2 s) 0)])
          else (mkF false PElem (f_v2 s) 0 n crc (f_toc s), [Insert crc (f_toc s); Finished])
      end
  | PElem =>
      (* only a reply to an ITEM request (fix F03a): an INFO reply is not read as an element *)
      if negb (cmd =? item_cmd (f_v2 s)) then (s, []) else
      let il := if f_v2 s then 2%nat else 1%nat in
      if (length payload <? il)%nat then (s, [Raised (if f_v2 s then StructError else IndexError)]) else
      let ident := le_val (firstn il payload) in
      if negb (ident =? f_req s) then (s, []) else
      match parse c ident (skipn il payload) with
      | Raise e => (s, [Raised e])
      | Ok el =>
          let t' := add_element el (f_toc s) in
          if f_req s <? f_n s - 1
          then (mkF true PElem (f_v2 s) (f_req s + 1) (f_n s) (f_crc s) t',
                [Send (item_req (f_v2 s) (f_req s + 1))])
          else (mkF false PElem (f_v2 s) (f_req s) (f_n s) (f_crc s) t',
                [Insert (f_crc s) t'; Finished])
      end
  end
  end.

(* ------------------------------------------------------------------ the device and the adversary *)

(* raw device table: (group, name, type byte) *)
Record dev := mkDev { d_items : list (list Z * list Z * Z); d_crc : Z; d_extra : list Z }.

Definition item_reply (hdr : list Z) (it : list Z * list Z * Z) : list Z :=
  let '(g, n, tb) := it in hdr ++ [tb] ++ g ++ [0] ++ n ++ [0].

(* TOC server: answer to one request (None: the server does not answer / request not understood) *)
Definition dev_reply (v2 : bool) (d : dev) (rq : list Z) : option (list Z) :=
  let n := Z.of_nat (length (d_items d)) in
  if v2 then
    match rq with
    | [3] => Some ([3] ++ le_bytes 2 n ++ le_bytes 4 (d_crc d) ++ d_extra d)
    | [2; lo; hi] =>
        match nth_error (d_items d) (Z.to_nat (lo + 256 * hi)) with
        | Some it => Some (item_reply [2; lo; hi] it)
        | None => None
        end
    | _ => None
    end
  else
    match rq with
    | [1] => Some ([1] ++ le_bytes 1 n ++ le_bytes 4 (d_crc d) ++ d_extra d)
    | [0; i] =>
        match nth_error (d_items d) (Z.to_nat i) with
        | Some it => Some (item_reply [0; i] it)
        | None => None
        end
    | _ => None
    end.

(* Adversary: at each step deliver the reply to ANY request already sent in this fetch (index into the
   list of requests sent so far: duplicates, stale and delayed replies), or an arbitrary packet
   (`Raw`; the theorems allow it on channels other than the TOC channel). *)
Inductive aev := Deliver (k : nat) | Raw (chan : Z) (data : list Z).

Definition sends (o : list out) : list (list Z) :=
  flat_map (fun x => match x with Send d => [d] | _ => [] end) o.

Definition packet_of (v2 : bool) (d : dev) (outs : list out) (ev : aev) : option (Z * list Z) :=
  match ev with
  | Deliver k =>
      match nth_error (sends outs) k with
      | Some rq => option_map (fun r => (0, r)) (dev_reply v2 d rq)
      | None => None
      end
  | Raw ch dt => Some (ch, dt)
  end.

Fixpoint arun (c : cls) (cache : Z -> option toc) (d : dev) (s : fstate) (outs : list out)
         (evs : list aev) : fstate * list out :=
  match evs with
  | [] => (s, outs)
  | ev :: evs' =>
      match packet_of (f_v2 s) d outs ev with
      | None => arun c cache d s outs evs'
      | Some (ch, dt) =>
          let '(s', o) := on_packet c cache s ch dt in
          arun c cache d s' (outs ++ Got ch dt :: o) evs'
      end
  end.

Definition fetch (c : cls) (cache : Z -> option toc) (ver : Z) (d : dev) (evs : list aev)
  : fstate * list out :=
  let '(s0, o0) := start ver [] in arun c cache d s0 o0 evs.

(* ------------------------------------------------------------------ specification side *)

(* what the device means by an entry, independent of the library's tables *)
Inductive ctype := U8 | U16 | U32 | U64 | I8 | I16 | I32 | I64 | F16 | F32 | F64.

Record ditem := mkItem {
  di_group : list Z; di_name : list Z; di_type : ctype;
  di_ro : bool;         (* read-only parameter *)
  di_ext : bool;        (* parameter has extended type information *)
  di_core : bool;       (* "core" flag bit 0x20, carries no information for the client *)
  di_pers : bool }.     (* parameter is persistent (answer to the extended-type query) *)

Definition c_name (t : ctype) : string :=
  match t with
  | U8 => "uint8_t" | U16 => "uint16_t" | U32 => "uint32_t" | U64 => "uint64_t"
  | I8 => "int8_t" | I16 => "int16_t" | I32 => "int32_t" | I64 => "int64_t"
  | F16 => "FP16" | F32 => "float" | F64 => "double"
  end%string.

(* struct format to decode a value of that type *)
Definition c_fmt (t : ctype) : string :=
  match t with
  | U8 => "<B" | U16 => "<H" | U32 => "<L" | U64 => "<Q"
  | I8 => "<b" | I16 => "<h" | I32 => "<i" | I64 => "<q"
  | F16 => "<e" | F32 => "<f" | F64 => "<d"
  end%string.

(* wire codes of the firmware: log types 1..8; parameter types size | float<<2 | unsigned<<3 *)
Definition log_code (t : ctype) : option Z :=
  match t with
  | U8 => Some 1 | U16 => Some 2 | U32 => Some 3 | I8 => Some 4 | I16 => Some 5 | I32 => Some 6
  | F32 => Some 7 | F16 => Some 8 | _ => None
  end.

Definition param_code (t : ctype) : Z :=
  match t with
  | I8 => 0 | I16 => 1 | I32 => 2 | I64 => 3 | F16 => 5 | F32 => 6 | F64 => 7
  | U8 => 8 | U16 => 9 | U32 => 10 | U64 => 11
  end.

Definition b2z (b : bool) (v : Z) : Z := if b then v else 0.

Definition type_byte (c : cls) (it : ditem) : option Z :=
  match c with
  | LogCls => log_code (di_type it)
  | ParamCls => Some (param_code (di_type it) + b2z (di_ext it) 16 + b2z (di_core it) 32 + b2z (di_ro it) 64)
  end.

Definition raw_item (c : cls) (it : ditem) : option (list Z * list Z * Z) :=
  option_map (fun tb => (di_group it, di_name it, tb)) (type_byte c it).

Fixpoint raw_items (c : cls) (l : list ditem) : option (list (list Z * list Z * Z)) :=
  match l with
  | [] => Some []
  | it :: l' =>
      match raw_item c it, raw_items c l' with
      | Some r, Some rs => Some (r :: rs)
      | _, _ => None
      end
  end.

(* the library has no unpack format for FP16 parameters (ParamTocElement.types[5] = ('FP16', '')) *)
Definition spec_pytype (c : cls) (t : ctype) : string :=
  match c, t with ParamCls, F16 => EmptyString | _, _ => c_fmt t end.

(* the element the library must hold for device entry number i (persistent marker before the
   extended-type phase: False) *)
Definition spec_elem (c : cls) (i : Z) (it : ditem) : elem :=
  match c with
  | LogCls => mkElem LogCls i (di_group it) (di_name it) (c_name (di_type it)) (c_fmt (di_type it)) 0 false false
  | ParamCls => mkElem ParamCls i (di_group it) (di_name it) (c_name (di_type it)) (spec_pytype ParamCls (di_type it))
                  (if di_ro it then 1 else 0) (di_ext it) false
  end.

Fixpoint spec_elems (c : cls) (i : Z) (l : list ditem) : list elem :=
  match l with
  | [] => []
  | it :: l' => spec_elem c i it :: spec_elems c (i + 1) l'
  end.

Definition toc_of_elems (es : list elem) : toc := fold_left (fun t e => add_element e t) es [].
Definition spec_toc (c : cls) (l : list ditem) : toc := toc_of_elems (spec_elems c 0 l).

Definition nul_free (s : list Z) : Prop := bytes s /\ ~ In 0 s.
Definition nul_freeb (s : list Z) : bool := bytesb s && negb (existsb (Z.eqb 0) s).

Definition item_ok (it : ditem) : Prop := nul_free (di_group it) /\ nul_free (di_name it).

(* all requests of a complete download, in order *)
Fixpoint item_reqs (v2 : bool) (i : Z) (n : nat) : list (list Z) :=
  match n with O => [] | S k => item_req v2 i :: item_reqs v2 (i + 1) k end.

Definition finished_count (o : list out) : nat :=
  length (filter (fun x => match x with Finished => true | _ => false end) o).
Definition raised (o : list out) : list exn :=
  flat_map (fun x => match x with Raised e => [e] | _ => [] end) o.
Definition inserts (o : list out) : list (Z * toc) :=
  flat_map (fun x => match x with Insert c t => [(c, t)] | _ => [] end) o.

Definition admissible (evs : list aev) : Prop :=
  Forall (fun ev => match ev with Deliver _ => True | Raw ch _ => ch <> 0 end) evs.

(* ------------------------------------------------------------------ encoding of results for the tie *)

Definition codes (s : string) : list Z :=
  map (fun a => Z.of_N (N_of_ascii a)) (list_ascii_of_string s).

Definition b2n (b : bool) : Z := if b then 1 else 0.
Definition exn_code (e : exn) : Z :=
  match e with KeyError => 1 | IndexError => 2 | StructError => 3 | AttributeError => 4
             | ValueError => 5 | TypeError => 6 end.
Definition cls_code (c : cls) : Z := match c with LogCls => 0 | ParamCls => 1 end.

Definition lenc (l : list Z) : list Z := Z.of_nat (length l) :: l.

Definition enc_elem (e : elem) : list Z :=
  [cls_code (e_cls e); e_ident e] ++ lenc (e_group e) ++ lenc (e_name e) ++ lenc (codes (e_ctype e))
  ++ lenc (codes (e_pytype e)) ++ [e_access e; b2n (e_extended e); b2n (e_persistent e)].

Definition enc_toc (t : toc) : list Z :=
  Z.of_nat (length t) ::
  flat_map (fun gd => lenc (fst gd) ++ Z.of_nat (length (snd gd)) ::
                      flat_map (fun ne => lenc (fst ne) ++ enc_elem (snd ne)) (snd gd)) t.

Definition enc_res (r : res elem) : list Z :=
  match r with Ok e => 0 :: enc_elem e | Raise x => [exn_code x] end.

Definition enc_out (o : out) : list Z :=
  match o with
  | Got ch d => [10; ch] ++ lenc d
  | Send d => 11 :: lenc d
  | Insert c t => [12; c] ++ enc_toc t
  | Finished => [13]
  | Raised e => [14; exn_code e]
  end.

Definition enc_phase (p : phase) : Z := match p with PNone => 0 | PInfo => 1 | PElem => 2 end.

Definition enc_run (r : fstate * list out) : list Z :=
  let '(s, o) := r in
  [b2n (f_reg s); enc_phase (f_phase s); b2n (f_v2 s); f_req s; f_n s; f_crc s] ++ enc_toc (f_toc s)
  ++ flat_map enc_out o.

Definition enc_opt_elem (o : option elem) : list Z :=
  match o with Some e => 1 :: enc_elem e | None => [0] end.
