(* C20/Proofs_c.v — parse_uri on well-formed URIs, scan round trip, dispatch. *)
From CF Require Import Common.Bytes C20.Model C20.Proofs_a C20.Proofs_b.
From Coq Require Import ZifyBool.
Ltac Zify.zify_post_hook ::= Z.to_euclidean_division_equations.
Open Scope Z_scope.

(* ---------------------------------------------------------------- urlparse on the radio grammar *)
Definition netloc_char (c : ascii) : bool :=
  not_delim c && negb (Ascii.eqb c c_lbr) && negb (Ascii.eqb c c_rbr).

Lemma netloc_chars nl : forallb netloc_char nl = true ->
  forallb not_delim nl = true /\ has c_lbr nl = false /\ has c_rbr nl = false.
Proof.
  induction nl as [|c nl IH]; cbn [forallb has existsb]; [auto|].
  unfold netloc_char at 1. intros H.
  apply andb_true_iff in H as [H1 H]. apply andb_true_iff in H1 as [H1 H2]. apply andb_true_iff in H1 as [H0 H1].
  destruct (IH H) as (I1 & I2 & I3). unfold has in I2, I3. rewrite H0, I1, I2, I3.
  rewrite (Ascii.eqb_sym c_lbr c), (Ascii.eqb_sym c_rbr c).
  apply negb_true_iff in H1, H2. rewrite H1, H2. auto.
Qed.

Lemma alnum_netloc s : forallb alnum s = true -> forallb netloc_char s = true.
Proof.
  intros H. apply forallb_forall. intros c Hc. rewrite forallb_forall in H. specialize (H c Hc).
  unfold netloc_char, not_delim.
  destruct (alnum_not_special c c_slash H ltac:(special_tac)) as [-> _].
  destruct (alnum_not_special c c_qmark H ltac:(special_tac)) as [-> _].
  destruct (alnum_not_special c c_hash H ltac:(special_tac)) as [-> _].
  destruct (alnum_not_special c c_lbr H ltac:(special_tac)) as [-> _].
  destruct (alnum_not_special c c_rbr H ltac:(special_tac)) as [-> _].
  reflexivity.
Qed.

Definition qpart (qo : option str) : str := match qo with None => [] | Some q => c_qmark :: q end.

Lemma urlsplit_fmt nl p qo :
  forallb netloc_char nl = true ->
  (p = [] \/ exists p', p = c_slash :: p') -> has c_qmark p = false -> has c_hash p = false ->
  match qo with Some q => has c_hash q = false | None => True end ->
  urlsplit_radio (radio_prefix ++ nl ++ p ++ qpart qo) =
  Some (nl, p, match qo with Some q => q | None => [] end).
Proof.
  intros Hnl Hp Hpq Hph Hq. destruct (netloc_chars nl Hnl) as (N1 & N2 & N3).
  unfold urlsplit_radio. rewrite skipn_app_exact by reflexivity.
  assert (Hspan : span not_delim (nl ++ p ++ qpart qo) = (nl, p ++ qpart qo)).
  { destruct Hp as [-> | [p' ->]].
    - destruct qo as [q|]; cbn [qpart app].
      + apply span_app; [exact N1|reflexivity].
      + rewrite app_nil_r. apply span_all. exact N1.
    - cbn [app]. apply span_app; [exact N1|reflexivity]. }
  rewrite Hspan, N2, N3. cbn [xorb].
  assert (Hh : has c_hash (p ++ qpart qo) = false).
  { rewrite has_app, Hph. destruct qo as [q|]; cbn [qpart]; [|reflexivity].
    rewrite has_cons, Hq. reflexivity. }
  rewrite (break_at_none _ _ Hh). cbn [fst].
  destruct qo as [q|]; cbn [qpart].
  - rewrite (break_at_app _ _ _ Hpq). reflexivity.
  - rewrite app_nil_r, (break_at_none _ _ Hpq). reflexivity.
Qed.

(* ---------------------------------------------------------------- well-formed URIs *)
Definition numeric_netloc (s : str) : bool :=
  Nat.ltb (List.length s) 10 && negb (is_nil s) && forallb is_digit s.

Definition dongle_ok (serials : list str) (d : dongle) (devid : Z) : Prop :=
  match d with
  | DNum n => 0 <= n < 10 ^ 9 /\ devid = n
  | DSerial s => forallb netloc_char s = true /\ numeric_netloc s = false /\
                 index_of (upper s) serials 0 = Some devid
  end.

Definition rate_ok (r : Z) : Prop := r = 0 \/ r = 1 \/ r = 2.
Definition addr_ok (a : str) : Prop := (1 <= List.length a <= 10)%nat /\ hexdigits a <> None.

Definition tail_ok (t : tail) : Prop :=
  match t with
  | TNone | TSlash => True
  | TCh ch => 0 <= ch
  | TChRate ch r => 0 <= ch /\ rate_ok r
  | TChRateAddr ch r a => 0 <= ch /\ rate_ok r /\ addr_ok a
  end.

Definition lim_ok (l : option Z) : Prop := match l with None => True | Some n => 0 <= n end.
(* decimal fields within CPython's int-string limit (4300 digits) *)
Definition lim_short (l : option Z) : Prop := match l with None => True | Some n => short n end.
Definition tail_short (t : tail) : Prop :=
  match t with TNone | TSlash => True | TCh ch | TChRate ch _ | TChRateAddr ch _ _ => short ch end.

Definition tail_channel (t : tail) : Z :=
  match t with TNone | TSlash => 2 | TCh ch | TChRate ch _ | TChRateAddr ch _ _ => ch end.
Definition tail_rate (t : tail) : Z :=
  match t with TNone | TSlash | TCh _ => 2 | TChRate _ r | TChRateAddr _ r _ => r end.
Definition tail_address (t : tail) : list Z :=
  match t with
  | TChRateAddr _ _ a => match hex_val a with Some v => be_bytes5 v | None => [] end
  | _ => default_addr
  end.

Lemma devid_fmt serials d devid : dongle_ok serials d devid ->
  forallb netloc_char (fmt_dongle d) = true /\ devid_of serials (fmt_dongle d) = Some devid.
Proof.
  destruct d as [n|s]; cbn [dongle_ok fmt_dongle].
  - intros [Hn ->]. split; [apply alnum_netloc, dec_alnum; lia|apply devid_dec; exact Hn].
  - intros (H1 & H2 & H3). split; [exact H1|]. unfold devid_of. fold (numeric_netloc s). now rewrite H2.
Qed.

Lemma rate_str_props r : rate_ok r ->
  rate_of (rate_str r) = r /\ forallb alnum (rate_str r) = true /\ rate_str r <> [].
Proof. intros [-> | [-> | ->]]; repeat split; discriminate. Qed.

Lemma fmt_lim_qpart l : fmt_lim l = qpart (option_map (fun n => s2l "rate_limit=" ++ dec n) l).
Proof. destruct l; reflexivity. Qed.

Lemma has_alnum_app c a b : special c -> forallb alnum a = true -> has c b = false -> has c (a ++ b) = false.
Proof. intros Hc Ha Hb. now rewrite has_app, (alnum_has c a Hc Ha), Hb. Qed.

Lemma plus_to_space_alnum s : forallb alnum s = true -> plus_to_space s = s.
Proof.
  intros H. unfold plus_to_space. induction s as [|c s IH]; [reflexivity|].
  cbn [forallb] in H. apply andb_true_iff in H as [Hc Hs]. cbn [map].
  destruct (alnum_not_special c c_plus Hc ltac:(special_tac)) as [-> _]. now rewrite IH.
Qed.

Lemma unquote_no_pct s : has c_pct s = false -> unquote s = s.
Proof.
  induction s as [|c s IH]; [reflexivity|]. rewrite has_cons. intros H. apply orb_false_iff in H as [H1 H2].
  cbn [unquote]. rewrite (Ascii.eqb_sym c c_pct), H1. now rewrite IH.
Qed.

Lemma qs_get_lim n : 0 <= n -> qs_get (s2l "rate_limit") (s2l "rate_limit=" ++ dec n) = Some (dec n).
Proof.
  intros Hn. unfold qs_get.
  pose proof (dec_alnum n Hn) as Ha.
  rewrite split_on_none.
  2:{ rewrite has_app. apply orb_false_iff. split; [reflexivity|].
      apply alnum_has; [special_tac|exact Ha]. }
  cbn [qs_find].
  change (s2l "rate_limit=" ++ dec n) with (s2l "rate_limit" ++ c_eq :: dec n).
  rewrite break_at_app by reflexivity.
  destruct (dec n) as [|v vs] eqn:E; [now apply dec_nonnil in E|].
  rewrite (plus_to_space_alnum (v :: vs) Ha).
  rewrite (unquote_no_pct (v :: vs)) by (apply alnum_has; [special_tac|exact Ha]). reflexivity.
Qed.

Lemma qs_get_nil key : qs_get key [] = None.
Proof. reflexivity. Qed.

(* the query part of parse_uri, isolated *)
Definition finish (devid ch rate : Z) (addr : list Z) (query : str) : pres :=
  match qs_get (s2l "rate_limit") query with
  | None => POk devid ch rate addr None
  | Some v => match py_int v with
              | None => PRaise EValue
              | Some l => POk devid ch rate addr (Some l)
              end
  end.

Lemma finish_lim devid ch rate addr l : lim_ok l -> lim_short l ->
  finish devid ch rate addr
    (match option_map (fun n => s2l "rate_limit=" ++ dec n) l with Some q => q | None => [] end) =
  POk devid ch rate addr l.
Proof.
  destruct l as [n|]; cbn [lim_ok lim_short option_map]; intros Hn Hsh; unfold finish.
  - rewrite qs_get_lim by exact Hn. rewrite py_int_dec by assumption. reflexivity.
  - reflexivity.
Qed.

Lemma lim_no_hash l : lim_ok l ->
  match option_map (fun n => s2l "rate_limit=" ++ dec n) l with Some q => has c_hash q = false | None => True end.
Proof.
  destruct l as [n|]; cbn [lim_ok option_map]; [|trivial]. intros Hn.
  rewrite has_app. apply orb_false_iff. split; [reflexivity|].
  apply alnum_has; [special_tac|now apply dec_alnum].
Qed.

Lemma strip_comp_tail c a b : special c -> forallb alnum a = true -> a <> [] -> forallb alnum b = true -> b <> [] ->
  forall mid, strip c (c :: a ++ mid ++ b) = a ++ mid ++ b.
Proof.
  intros Hc Ha Hna Hb Hnb mid. unfold strip. rewrite lstrip_skip.
  destruct a as [|x a]; [congruence|]. cbn [app].
  cbn [forallb] in Ha. apply andb_true_iff in Ha as [Hx Ha].
  rewrite lstrip_head by apply (alnum_not_special x c Hx Hc).
  change (x :: a ++ mid ++ b) with ((x :: a) ++ mid ++ b). rewrite app_assoc.
  apply rstrip_app; [exact Hnb|]. apply rstrip_none. now apply alnum_has.
Qed.

Lemma is_nil_false {A} (s : list A) : s <> [] -> is_nil s = false.
Proof. destruct s; [congruence|reflexivity]. Qed.

Lemma app_nonnil {A} (a b : list A) : a <> [] -> a ++ b <> [].
Proof. destruct a; [congruence|discriminate]. Qed.

Theorem parse_fmt serials d t l devid :
  dongle_ok serials d devid -> tail_ok t -> lim_ok l -> tail_short t -> lim_short l ->
  parse_uri serials (fmt_uri d t l) = POk devid (tail_channel t) (tail_rate t) (tail_address t) l.
Proof.
  intros Hd Ht Hl Hts Hls. destruct (devid_fmt serials d devid Hd) as [Hnl Hdev].
  unfold parse_uri, fmt_uri. rewrite startswith_app. cbn [negb].
  rewrite fmt_lim_qpart.
  assert (Hs : special c_slash) by special_tac.
  assert (Hq : special c_qmark) by special_tac.
  assert (Hh : special c_hash) by special_tac.
  pose proof (lim_no_hash l Hl) as Hlh.
  pose proof (fun ch rate addr => finish_lim devid ch rate addr l Hl Hls) as Hfin. unfold finish in Hfin.
  destruct t as [| |ch|ch r|ch r a]; cbn [tail_ok] in Ht; cbn [tail_short] in Hts; cbn [fmt_tail tail_channel tail_rate tail_address].
  - (* radio://<dongle> *)
    rewrite urlsplit_fmt; [|exact Hnl|now left|reflexivity|reflexivity|exact Hlh].
    cbn [strip lstrip rstrip is_nil]. rewrite Hdev. apply Hfin.
  - (* radio://<dongle>/ *)
    rewrite urlsplit_fmt; [|exact Hnl|right; now exists []|reflexivity|reflexivity|exact Hlh].
    unfold strip. rewrite lstrip_skip. cbn [lstrip rstrip is_nil]. rewrite Hdev. apply Hfin.
  - (* radio://<dongle>/<channel> *)
    pose proof (dec_alnum ch Ht) as Ha. pose proof (dec_nonnil ch Ht) as Hne.
    rewrite urlsplit_fmt; [|exact Hnl|right; now eexists| | |exact Hlh].
    2,3: rewrite has_cons; apply orb_false_iff; split; [reflexivity|apply alnum_has; [special_tac|exact Ha]].
    unfold strip. rewrite lstrip_skip. fold (strip c_slash (dec ch)). rewrite strip_alnum by assumption.
    rewrite (is_nil_false _ Hne).
    rewrite split_on_none by (apply alnum_has; assumption).
    rewrite Hdev. rewrite py_int_dec by assumption. apply Hfin.
  - (* radio://<dongle>/<channel>/<rate> *)
    destruct Ht as [Hch Hr].
    pose proof (dec_alnum ch Hch) as Ha. pose proof (dec_nonnil ch Hch) as Hne.
    destruct (rate_str_props r Hr) as (R1 & R2 & R3).
    rewrite urlsplit_fmt; [|exact Hnl|right; now eexists| | |exact Hlh].
    2,3: rewrite has_cons; apply orb_false_iff; split; [reflexivity|];
         apply has_alnum_app; [special_tac|exact Ha|]; rewrite has_cons; apply orb_false_iff; split;
         [reflexivity|apply alnum_has; [special_tac|exact R2]].
    change (c_slash :: dec ch ++ c_slash :: rate_str r) with (c_slash :: dec ch ++ [c_slash] ++ rate_str r).
    rewrite strip_comp_tail by assumption. cbn [app].
    rewrite (is_nil_false _ (app_nonnil _ _ Hne)).
    rewrite split_on_app by (apply alnum_has; assumption).
    rewrite split_on_none by (apply alnum_has; assumption).
    rewrite Hdev. rewrite py_int_dec by assumption. rewrite R1. apply Hfin.
  - (* radio://<dongle>/<channel>/<rate>/<address> *)
    destruct Ht as (Hch & Hr & Hal & Hah).
    pose proof (dec_alnum ch Hch) as Ha. pose proof (dec_nonnil ch Hch) as Hne.
    destruct (rate_str_props r Hr) as (R1 & R2 & R3).
    destruct (hexdigits a) as [ds|] eqn:Ed; [|congruence].
    destruct (hexdigits_props a ds Ed) as (_ & _ & A2).
    assert (A3 : a <> []) by (destruct a; [cbn in Hal; lia|discriminate]).
    rewrite urlsplit_fmt; [|exact Hnl|right; now eexists| | |exact Hlh].
    2,3: rewrite has_cons; apply orb_false_iff; split; [reflexivity|];
         apply has_alnum_app; [special_tac|exact Ha|]; rewrite has_cons; apply orb_false_iff; split; [reflexivity|];
         apply has_alnum_app; [special_tac|exact R2|]; rewrite has_cons; apply orb_false_iff; split;
         [reflexivity|apply alnum_has; [special_tac|exact A2]].
    replace (c_slash :: dec ch ++ c_slash :: rate_str r ++ c_slash :: a)
      with (c_slash :: dec ch ++ (c_slash :: rate_str r ++ [c_slash]) ++ a)
      by (cbn [app]; now rewrite <- app_assoc).
    rewrite strip_comp_tail by assumption.
    cbn [app]. rewrite <- app_assoc. cbn [app].
    rewrite (is_nil_false _ (app_nonnil _ _ Hne)).
    rewrite split_on_app by (apply alnum_has; assumption).
    rewrite split_on_app by (apply alnum_has; assumption).
    rewrite split_on_none by (apply alnum_has; assumption).
    rewrite Hdev. rewrite py_int_dec by assumption. rewrite R1.
    assert (Hv : hex_val a = Some (horner 16 ds 0)) by (unfold hex_val; now rewrite Ed).
    destruct (addr_of_hex a _ Hal Hv) as [-> _]. rewrite Hv. apply Hfin.
Qed.
