(* C20/Proofs_f.v — query strings with several fields; the URI parsers of the usb, serial, tcp and udp drivers. *)
From CF Require Import Common.Bytes C20.Model C20.Proofs_a C20.Proofs_b C20.Proofs_c C20.Proofs_d.
From Coq Require Import ZifyBool.
Ltac Zify.zify_post_hook ::= Z.to_euclidean_division_equations.
Open Scope Z_scope.

(* ---------------------------------------------------------------- query fields *)
Definition tokc (c : ascii) : bool :=
  negb (Ascii.eqb c c_amp || Ascii.eqb c c_eq || Ascii.eqb c c_plus || Ascii.eqb c c_pct || Ascii.eqb c c_hash).
Definition tok (s : str) : Prop := forallb tokc s = true.

Lemma tok_has s : tok s ->
  has c_amp s = false /\ has c_eq s = false /\ has c_plus s = false /\ has c_pct s = false /\ has c_hash s = false.
Proof.
  unfold tok. induction s as [|c s IH]; [cbn; auto|]. cbn [forallb]. intros H.
  apply andb_true_iff in H as [Hc Hs]. destruct (IH Hs) as (I1 & I2 & I3 & I4 & I5).
  unfold tokc in Hc. apply negb_true_iff in Hc. repeat (apply orb_false_iff in Hc as [Hc ?]).
  rewrite !has_cons, I1, I2, I3, I4, I5.
  rewrite (Ascii.eqb_sym c_amp c), (Ascii.eqb_sym c_eq c), (Ascii.eqb_sym c_plus c), (Ascii.eqb_sym c_pct c),
          (Ascii.eqb_sym c_hash c).
  repeat split; apply orb_false_iff; split; assumption || reflexivity.
Qed.

Lemma plus_to_space_id s : has c_plus s = false -> plus_to_space s = s.
Proof.
  unfold plus_to_space. induction s as [|c s IH]; [reflexivity|]. rewrite has_cons. intros H.
  apply orb_false_iff in H as [H1 H2]. cbn [map]. rewrite (Ascii.eqb_sym c c_plus), H1. now rewrite IH.
Qed.

Fixpoint join_fields (fs : list (str * str)) : str :=
  match fs with
  | [] => []
  | (n, v) :: r => (n ++ c_eq :: v) ++ match r with [] => [] | _ => c_amp :: join_fields r end
  end.

Fixpoint first_value (key : str) (fs : list (str * str)) : option str :=
  match fs with
  | [] => None
  | (n, v) :: r => if str_eqb n key && negb (is_nil v) then Some v else first_value key r
  end.

Lemma qs_find_field key n v rest : tok n -> tok v ->
  qs_find key ((n ++ c_eq :: v) :: rest) =
  if str_eqb n key && negb (is_nil v) then Some v else qs_find key rest.
Proof.
  intros Hn Hv. destruct (tok_has n Hn) as (_ & N2 & N3 & N4 & _). destruct (tok_has v Hv) as (_ & _ & V3 & V4 & _).
  cbn [qs_find]. rewrite (break_at_app c_eq n v N2).
  destruct v as [|x xs]; [now rewrite andb_false_r|].
  rewrite (plus_to_space_id n N3), (unquote_no_pct n N4), (plus_to_space_id _ V3), (unquote_no_pct _ V4).
  cbn [is_nil negb]. now rewrite andb_true_r.
Qed.

(* any list of name=value fields: unknown names are ignored, empty values are skipped, the first value of a
   repeated name wins *)
Theorem qs_get_fields key fs : Forall (fun f => tok (fst f) /\ tok (snd f)) fs ->
  qs_get key (join_fields fs) = first_value key fs.
Proof.
  unfold qs_get. induction fs as [|[n v] r IH]; intros H; [reflexivity|].
  inversion H as [|? ? [Hn Hv] Hr]; subst. cbn [fst snd] in Hn, Hv.
  destruct (tok_has n Hn) as (N1 & _). destruct (tok_has v Hv) as (V1 & _).
  assert (Hf : has c_amp (n ++ c_eq :: v) = false) by (now rewrite has_app, has_cons, N1, V1).
  cbn [join_fields first_value]. destruct r as [|f r'].
  - rewrite app_nil_r, (split_on_none _ _ Hf), qs_find_field by assumption. reflexivity.
  - rewrite (split_on_app _ _ _ Hf), qs_find_field by assumption. rewrite (IH Hr). reflexivity.
Qed.

(* ---------------------------------------------------------------- usb://<digits> *)
Lemma startswith_skipn p s : startswith p s = true -> s = p ++ skipn (List.length p) s.
Proof.
  revert s. induction p as [|x p IH]; intros s H; [reflexivity|].
  destruct s as [|y s]; [discriminate|]. cbn in H. apply andb_true_iff in H as [H1 H2].
  apply Ascii.eqb_eq in H1. subst. cbn [List.length skipn app]. f_equal. now apply IH.
Qed.

Theorem usb_parse_wellformed n : 0 <= n -> short n -> usb_parse (scheme_prefix DrvUsb ++ dec n) = UOk n.
Proof.
  intros Hn Hs. unfold usb_parse. rewrite (claims_usb n Hn). rewrite skipn_app_exact by reflexivity.
  replace (Nat.ltb max_str_digits (List.length (dec n))) with false by (symmetry; now apply Nat.ltb_ge).
  destruct (dec_spec n Hn) as (l & -> & Hl & Hv & _). destruct (map_dec_char_props l Hl) as (_ & _ & ->).
  now rewrite Hv.
Qed.

(* never mis-parsed: what usb_parse accepts IS "usb://" + non-empty digits, with that value *)
Theorem usb_parse_only_wellformed uri d : usb_parse uri = UOk d ->
  exists ds, uri = scheme_prefix DrvUsb ++ ds /\ ds <> [] /\ forallb is_digit ds = true /\
             d = horner 10 (map digit_val ds) 0.
Proof.
  unfold usb_parse. destruct (claims DrvUsb uri) eqn:C; [|discriminate].
  destruct (Nat.ltb max_str_digits (List.length (skipn 6 uri))); [discriminate|]. intros H. injection H as <-.
  cbn [claims] in C. apply andb_true_iff in C as [C1 C2]. apply andb_true_iff in C2 as [C2 C3].
  exists (skipn 6 uri). repeat split; try assumption.
  - apply (startswith_skipn _ _ C1).
  - intros Hx. change (skipn 6 uri = []) in Hx. rewrite Hx in C2. discriminate C2.
Qed.

(* ---------------------------------------------------------------- serial://<name> *)
Theorem serial_parse_spec name :
  serial_parse (scheme_prefix DrvSerial ++ name) =
  if negb (is_nil name) && forallb serial_char name then SName name else SInvalid.
Proof. unfold serial_parse. rewrite startswith_app, skipn_app_exact by reflexivity. reflexivity. Qed.

Theorem serial_parse_only_wellformed uri name : serial_parse uri = SName name ->
  uri = scheme_prefix DrvSerial ++ name /\ name <> [] /\ forallb serial_char name = true.
Proof.
  unfold serial_parse. destruct (startswith (scheme_prefix DrvSerial) uri) eqn:S; [|discriminate].
  destruct (negb (is_nil (skipn 9 uri)) && forallb serial_char (skipn 9 uri)) eqn:E; [|discriminate].
  intros H. injection H as <-. apply andb_true_iff in E as [E1 E2]. repeat split; try assumption.
  - apply (startswith_skipn _ _ S).
  - intros Hx. change (skipn 9 uri = []) in Hx. rewrite Hx in E1. discriminate E1.
Qed.

(* ---------------------------------------------------------------- tcp://host:port, udp://host:port *)
Definition hostc (c : ascii) : bool :=
  alnum c || Ascii.eqb c c_minus || Ascii.eqb c c_dot || Ascii.eqb c c_under.

Lemma hostc_code x : hostc x = true ->
  (48 <= code x <= 57) \/ (65 <= code x <= 90) \/ (97 <= code x <= 122) \/ code x = 45 \/ code x = 46 \/ code x = 95.
Proof.
  unfold hostc, alnum. cbv zeta. rewrite !aeqb_code.
  change (code c_minus) with 45. change (code c_dot) with 46. change (code c_under) with 95. lia.
Qed.

Lemma has_by_code c h : (forall x, In x h -> code x <> code c) -> has c h = false.
Proof.
  intros H. apply has_false_forall, Forall_forall. intros x Hx. rewrite aeqb_code. apply Z.eqb_neq. now apply H.
Qed.

Lemma dec_char_code_range n x : 0 <= n -> In x (dec n) -> 48 <= code x <= 57.
Proof.
  intros Hn Hx. destruct (dec_spec n Hn) as (l & E & Hl & _). rewrite E in Hx. apply in_map_iff in Hx as (d & <- & Hd).
  unfold digits_in in Hl. rewrite Forall_forall in Hl. specialize (Hl d Hd). rewrite dec_char_code by exact Hl. lia.
Qed.

Definition net_driver (d : driver) : Prop := d = DrvTcp \/ d = DrvUdp.

Lemma net_netloc d h n : net_driver d -> forallb hostc h = true -> 0 <= n ->
  let body := h ++ c_colon :: dec n in
  (forall c, In (code c) [32; 64; 91; 93; 37; 47; 63; 35] -> has c body = false) /\ has c_colon h = false /\
  has c_pct h = false.
Proof.
  intros _ Hh Hn body. rewrite forallb_forall in Hh.
  assert (Hcode : forall x, In x h -> (48 <= code x <= 57) \/ (65 <= code x <= 90) \/ (97 <= code x <= 122) \/
                                       code x = 45 \/ code x = 46 \/ code x = 95)
    by (intros x Hx; apply hostc_code, Hh, Hx).
  split; [|split].
  - intros c Hc. apply has_by_code. intros x Hx. unfold body in Hx. apply in_app_iff in Hx as [Hx|[<-|Hx]].
    + specialize (Hcode x Hx). cbn [In] in Hc. lia.
    + change (code c_colon) with 58. cbn [In] in Hc. lia.
    + pose proof (dec_char_code_range n x Hn Hx). cbn [In] in Hc. lia.
  - apply has_by_code. intros x Hx. specialize (Hcode x Hx). change (code c_colon) with 58. lia.
  - apply has_by_code. intros x Hx. specialize (Hcode x Hx). change (code c_pct) with 37. lia.
Qed.

Lemma after_last_none c s : has c s = false -> after_last c s = s.
Proof.
  destruct s as [|x r]; [reflexivity|]. rewrite has_cons. intros H. apply orb_false_iff in H as [H1 H2].
  cbn [after_last]. now rewrite H2, (Ascii.eqb_sym x c), H1.
Qed.

Lemma port_of_nonnil ds : ds <> [] -> port_of (Some ds) =
  if forallb is_digit ds && negb (Nat.ltb max_str_digits (List.length ds)) then
    let v := horner 10 (map digit_val ds) 0 in if v <=? 65535 then Some (Some v) else None
  else None.
Proof. destruct ds; [congruence|reflexivity]. Qed.

Lemma port_of_dec n : 0 <= n -> short n -> port_of (Some (dec n)) = if n <=? 65535 then Some (Some n) else None.
Proof.
  intros Hn Hs. rewrite port_of_nonnil by (now apply dec_nonnil). unfold short in Hs.
  destruct (dec_spec n Hn) as (l & El & Hl & Hv & _). destruct (map_dec_char_props l Hl) as (P1 & _ & P3).
  rewrite El in *. rewrite P1, P3. cbv zeta. rewrite Hv.
  replace (Nat.ltb max_str_digits (List.length (map dec_char l))) with false by (symmetry; now apply Nat.ltb_ge).
  reflexivity.
Qed.

(* every well-formed tcp/udp URI parses to exactly its host (lower-cased, as urlparse does) and port; a port above
   65535 is rejected with ValueError *)
Theorem net_parse_wellformed d h n : net_driver d -> h <> [] -> forallb hostc h = true -> 0 <= n -> short n ->
  net_parse d (scheme_prefix d ++ h ++ c_colon :: dec n) =
  if n <=? 65535 then NOk (Some (map lower_c h)) (Some n) else NRaise.
Proof.
  intros Hd Hne Hh Hn Hs. destruct (net_netloc d h n Hd Hh Hn) as (Hbad & Hcol & Hpct).
  set (body := h ++ c_colon :: dec n) in *.
  assert (Hsp : has c_space body = false) by (apply Hbad; cbn; tauto).
  assert (Hnd : forallb not_delim body = true).
  { apply forallb_forall. intros x Hx. unfold not_delim. apply negb_true_iff.
    assert (A : forall c, In (code c) [32; 64; 91; 93; 37; 47; 63; 35] -> Ascii.eqb x c = false).
    { intros c Hc. specialize (Hbad c Hc). apply has_false_forall in Hbad. rewrite Forall_forall in Hbad. now apply Hbad. }
    rewrite (A c_slash), (A c_qmark), (A c_hash) by (cbn; tauto). reflexivity. }
  assert (Tail : (let '(netloc, _) := span not_delim body in
                  if xorb (has c_lbr netloc) (has c_rbr netloc) then NRaise else
                  let hi := after_last c_at netloc in
                  let '(h0, p) := break_at c_colon hi in
                  match port_of p with None => NRaise | Some port => NOk (host_of h0) port end) =
                 (if n <=? 65535 then NOk (Some (map lower_c h)) (Some n) else NRaise)).
  { rewrite (span_all _ _ Hnd).
    rewrite (Hbad c_lbr), (Hbad c_rbr) by (cbn; tauto). cbn [xorb]. cbv zeta.
    rewrite after_last_none by (apply Hbad; cbn; tauto).
    unfold body. rewrite (break_at_app c_colon h (dec n) Hcol). cbv beta iota zeta.
    match goal with |- context [port_of ?x] =>
      replace (port_of x) with (if n <=? 65535 then Some (Some n) else None) by (symmetry; exact (port_of_dec n Hn Hs)) end.
    destruct (n <=? 65535); [|reflexivity].
    unfold host_of. destruct h as [|x h']; [congruence|]. rewrite (break_at_none _ _ Hpct). now rewrite app_nil_r. }
  destruct Hd as [-> | ->]; unfold net_parse; rewrite startswith_app; cbn [negb].
  - rewrite break_at_none by (rewrite has_app, Hsp; reflexivity). cbn [fst].
    rewrite skipn_app_exact by reflexivity. exact Tail.
  - rewrite skipn_app_exact by reflexivity. exact Tail.
Qed.

(* an URI of another scheme is not parsed at all *)
Theorem net_parse_wrong_scheme d uri : startswith (scheme_prefix d) uri = false -> net_parse d uri = NWrong.
Proof. intros H. unfold net_parse. now rewrite H. Qed.
