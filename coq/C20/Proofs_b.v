(* C20/Proofs_b.v — numbers as text: decimal fields, hexadecimal addresses. *)
From CF Require Import Common.Bytes C20.Model C20.Proofs_a.
From Coq Require Import ZifyBool.
Ltac Zify.zify_post_hook ::= Z.to_euclidean_division_equations.
Open Scope Z_scope.

(* ---------------------------------------------------------------- character classes *)
Definition alnum (c : ascii) : bool :=
  let k := code c in
  ((48 <=? k) && (k <=? 57)) || ((65 <=? k) && (k <=? 90)) || ((97 <=? k) && (k <=? 122)).

Definition special (c : ascii) : Prop :=
  In c [c_slash; c_qmark; c_hash; c_amp; c_eq; c_plus; c_minus; c_space; c_under; c_lbr; c_rbr; c_pct].

Lemma alnum_not_special c x : alnum c = true -> special x -> Ascii.eqb c x = false /\ Ascii.eqb x c = false.
Proof.
  unfold alnum, special. intros Ha Hx. rewrite !aeqb_code.
  cbn [In] in Hx.
  repeat (destruct Hx as [<-|Hx]; [vm_compute code at 2 3; cbv zeta in Ha; lia|]).
  contradiction.
Qed.

Lemma alnum_has c s : special c -> forallb alnum s = true -> has c s = false.
Proof.
  intros Hc Hs. apply has_false_forall. rewrite forallb_forall in Hs. apply Forall_forall.
  intros x Hx. apply (alnum_not_special x c (Hs x Hx) Hc).
Qed.

Ltac special_tac := unfold special; cbn [In]; tauto.

Lemma dec_char_code d : 0 <= d < 10 -> code (dec_char d) = 48 + d.
Proof. intros H. unfold dec_char. apply code_chr. lia. Qed.

Lemma dec_char_digit d : 0 <= d < 10 -> is_digit (dec_char d) = true /\ digit_val (dec_char d) = d /\ alnum (dec_char d) = true.
Proof.
  intros H. unfold is_digit, digit_val, alnum. cbv zeta. rewrite dec_char_code by exact H. lia.
Qed.

Lemma hex_char_upper_spec d : 0 <= d < 16 ->
  hexval (hex_char_upper d) = Some d /\ alnum (hex_char_upper d) = true.
Proof.
  intros H. unfold hex_char_upper, hexval, alnum. cbv zeta.
  destruct (d <? 10) eqn:E; rewrite code_chr by lia.
  - replace ((48 <=? 48 + d) && (48 + d <=? 57)) with true by lia. split; [f_equal|]; lia.
  - replace ((48 <=? 55 + d) && (55 + d <=? 57)) with false by lia.
    replace ((65 <=? 55 + d) && (55 + d <=? 70)) with true by lia. split; [f_equal|]; lia.
Qed.

Lemma hexval_alnum c d : hexval c = Some d -> alnum c = true /\ 0 <= d < 16.
Proof.
  unfold hexval, alnum. cbv zeta. intros H.
  destruct ((48 <=? code c) && (code c <=? 57)) eqn:E1; [injection H as <-; lia|].
  destruct ((65 <=? code c) && (code c <=? 70)) eqn:E2; [injection H as <-; lia|].
  destruct ((97 <=? code c) && (code c <=? 102)) eqn:E3; [injection H as <-; lia|].
  discriminate.
Qed.

(* ---------------------------------------------------------------- decimal text *)
Lemma dec_spec n : 0 <= n ->
  exists l, dec n = map dec_char l /\ digits_in 10 l /\ horner 10 l 0 = n /\ l <> [].
Proof.
  intros Hn. exists (digits_of 10 n). destruct (digits_of_spec 10 n) as (H1 & H2 & H3); try lia.
  repeat split; assumption.
Qed.

Lemma map_dec_char_props l : digits_in 10 l ->
  forallb is_digit (map dec_char l) = true /\ forallb alnum (map dec_char l) = true /\
  map digit_val (map dec_char l) = l.
Proof.
  induction 1 as [|d l Hd Hl (IH1 & IH2 & IH3)]; cbn [map forallb]; [auto|].
  destruct (dec_char_digit d Hd) as (E1 & E2 & E3).
  rewrite E1, E2, E3, IH1, IH2, IH3. auto.
Qed.

Lemma int_digits_digits l : digits_in 10 l -> forall acc b, (l <> [] \/ b = true) ->
  int_digits (map dec_char l) acc b = Some (horner 10 l acc).
Proof.
  induction 1 as [|d l Hd Hl IH]; intros acc b Hb.
  - destruct Hb as [Hb| ->]; [congruence|reflexivity].
  - cbn [map int_digits]. destruct (dec_char_digit d Hd) as (E1 & E2 & _).
    rewrite E1, E2. rewrite IH by (now right). reflexivity.
Qed.

Lemma dec_alnum n : 0 <= n -> forallb alnum (dec n) = true.
Proof.
  intros Hn. destruct (dec_spec n Hn) as (l & -> & Hl & _). apply map_dec_char_props, Hl.
Qed.

Lemma dec_nonnil n : 0 <= n -> dec n <> [].
Proof.
  intros Hn. destruct (dec_spec n Hn) as (l & -> & _ & _ & Hne). destruct l; [congruence|discriminate].
Qed.

Lemma strip_alnum c s : special c -> forallb alnum s = true -> strip c s = s.
Proof.
  intros Hc Hs. unfold strip.
  assert (E : lstrip c s = s).
  { destruct s as [|x s]; [reflexivity|]. apply lstrip_head.
    cbn in Hs. apply andb_true_iff in Hs as [Hx _]. apply (alnum_not_special x c Hx Hc). }
  rewrite E. apply rstrip_none. now apply alnum_has.
Qed.

(* a decimal field CPython still converts: at most sys.int_info.default_max_str_digits (4300) digits *)
Definition short (n : Z) : Prop := (List.length (dec n) <= max_str_digits)%nat.

Lemma count_digits_all s : forallb is_digit s = true -> count_digits s = List.length s.
Proof.
  unfold count_digits. induction s as [|c s IH]; [reflexivity|]. cbn [forallb filter].
  intros H. apply andb_true_iff in H as [Hc Hs]. rewrite Hc. cbn [List.length]. now rewrite IH.
Qed.

Theorem py_int_dec n : 0 <= n -> short n -> py_int (dec n) = Some n.
Proof.
  intros Hn Hs. unfold py_int.
  destruct (dec_spec n Hn) as (l & E & Hl & Hv & Hne).
  assert (Hc : Nat.ltb max_str_digits (count_digits (dec n)) = false).
  { apply Nat.ltb_ge. rewrite count_digits_all; [exact Hs|]. rewrite E. apply map_dec_char_props, Hl. }
  rewrite Hc. rewrite strip_alnum by (try special_tac; now apply dec_alnum).
  rewrite E.
  destruct l as [|d l]; [congruence|].
  cbn [map]. pose proof (Forall_inv Hl) as Hd. cbv beta in Hd.
  destruct (dec_char_digit d Hd) as (_ & _ & E3).
  destruct (alnum_not_special (dec_char d) c_minus E3 ltac:(special_tac)) as [-> _].
  destruct (alnum_not_special (dec_char d) c_plus E3 ltac:(special_tac)) as [-> _].
  change (dec_char d :: map dec_char l) with (map dec_char (d :: l)).
  rewrite int_digits_digits; [now rewrite Hv|exact Hl|left; discriminate].
Qed.

Lemma dec_length n k : 0 <= n < 10 ^ Z.of_nat k -> (1 <= k)%nat -> (List.length (dec n) <= k)%nat.
Proof.
  intros Hn Hk. unfold dec. rewrite map_length. apply digits_of_length; [lia|exact Hn|exact Hk].
Qed.

Lemma short_small n k : 0 <= n < 10 ^ Z.of_nat k -> (1 <= k <= max_str_digits)%nat -> short n.
Proof. intros Hn Hk. unfold short. pose proof (dec_length n k Hn ltac:(lia)). lia. Qed.

Lemma devid_dec serials n : 0 <= n < 10 ^ 9 -> devid_of serials (dec n) = Some n.
Proof.
  intros Hn. unfold devid_of.
  assert (Hlen : (List.length (dec n) <= 9)%nat) by (apply dec_length; [exact Hn|lia]).
  destruct (dec_spec n) as (l & E & Hl & Hv & Hne); [lia|].
  destruct (map_dec_char_props l Hl) as (P1 & _ & P3).
  rewrite E in *. rewrite P1, P3, Hv.
  replace (Nat.ltb (List.length (map dec_char l)) 10) with true by (symmetry; apply Nat.ltb_lt; lia).
  destruct l; [congruence|reflexivity].
Qed.

(* ---------------------------------------------------------------- hexadecimal text *)
Lemma hexdigits_app a b : hexdigits (a ++ b) =
  match hexdigits a, hexdigits b with Some x, Some y => Some (x ++ y) | _, _ => None end.
Proof.
  induction a as [|c a IH]; cbn [app hexdigits].
  - destruct (hexdigits b); reflexivity.
  - rewrite IH. destruct (hexval c), (hexdigits a), (hexdigits b); reflexivity.
Qed.

Lemma hexdigits_zeros k : hexdigits (repeat c_zero k) = Some (repeat 0 k).
Proof. induction k as [|k IH]; [reflexivity|]. cbn [repeat hexdigits]. rewrite IH. reflexivity. Qed.

Lemma hexdigits_props s ds : hexdigits s = Some ds ->
  List.length ds = List.length s /\ digits_in 16 ds /\ forallb alnum s = true.
Proof.
  revert ds. induction s as [|c s IH]; intros ds H; cbn [hexdigits] in H.
  - injection H as <-. repeat split. constructor.
  - destruct (hexval c) as [d|] eqn:Ec; [|discriminate].
    destruct (hexdigits s) as [t|] eqn:Es; [|discriminate]. injection H as <-.
    destruct (IH t eq_refl) as (L & D & A). destruct (hexval_alnum c d Ec) as [Ac Rd].
    cbn [List.length forallb]. rewrite L, Ac, A. repeat split. constructor; assumption.
Qed.

Lemma horner_zeros b k l acc : horner b (repeat 0 k ++ l) acc = horner b l (b ^ Z.of_nat k * acc).
Proof.
  revert acc. induction k as [|k IH]; intros acc.
  - cbn [repeat app]. f_equal. lia.
  - cbn [repeat app]. rewrite horner_cons, IH, Nat2Z.inj_succ, Z.pow_succ_r by lia. f_equal. lia.
Qed.

(* unhexlify on an even number of hex digits *)
Lemma unhexlify_ok n : forall s ds, List.length s = (2 * n)%nat -> hexdigits s = Some ds ->
  exists bs, unhexlify s = Some bs /\ List.length bs = n /\ bytes bs /\
             forall acc, horner 256 bs acc = horner 16 ds acc.
Proof.
  induction n as [|n IH]; intros s ds Hl Hd.
  - destruct s; [|discriminate]. injection Hd as <-. exists []. repeat split. constructor.
  - destruct s as [|a [|b r]]; [cbn [List.length] in Hl; lia|cbn [List.length] in Hl; lia|].
    cbn [hexdigits] in Hd.
    destruct (hexval a) as [x|] eqn:Ea; [|discriminate].
    destruct (hexval b) as [y|] eqn:Eb; [|destruct (hexdigits r); discriminate].
    destruct (hexdigits r) as [t|] eqn:Er; [|discriminate]. injection Hd as <-.
    assert (Hr : List.length r = (2 * n)%nat) by (cbn [List.length] in Hl; lia).
    destruct (IH r t Hr Er) as (bs & U & L & B & V).
    exists (16 * x + y :: bs). cbn [unhexlify]. rewrite Ea, Eb, U.
    destruct (hexval_alnum a x Ea) as [_ Rx]. destruct (hexval_alnum b y Eb) as [_ Ry].
    repeat split.
    + cbn [List.length]. now rewrite L.
    + constructor; [unfold byte; lia|exact B].
    + intros acc. rewrite !horner_cons, V. f_equal. lia.
Qed.

Lemma be_bytes5_unique bs v : List.length bs = 5%nat -> bytes bs -> be_val bs = v -> bs = be_bytes5 v.
Proof.
  intros L B V.
  destruct bs as [|b0 [|b1 [|b2 [|b3 [|b4 [|? ?]]]]]]; try discriminate.
  unfold bytes in B.
  inversion B as [|? ? B0 B']; subst. inversion B' as [|? ? B1 B'']; subst.
  inversion B'' as [|? ? B2 B3']; subst. inversion B3' as [|? ? B3 B4']; subst.
  inversion B4' as [|? ? B4 _]; subst.
  unfold byte in *. unfold be_val, horner, be_bytes5. cbn [fold_left].
  f_equal; [lia|]. f_equal; [lia|]. f_equal; [lia|]. f_equal; [lia|]. f_equal. lia.
Qed.

(* an address of 1..10 hex digits: padded on the left, most significant byte first *)
Theorem addr_of_hex a v : (1 <= List.length a <= 10)%nat -> hex_val a = Some v ->
  addr_of a = AOk (be_bytes5 v) /\ 0 <= v < 16 ^ Z.of_nat (List.length a).
Proof.
  intros Hl Hv. unfold hex_val in Hv.
  destruct (hexdigits a) as [ds|] eqn:Ed; [|discriminate]. cbn [option_map] in Hv. injection Hv as <-.
  destruct (hexdigits_props a ds Ed) as (L & D & _).
  set (k := (10 - List.length a)%nat).
  assert (Hp : hexdigits (pad10 a) = Some (repeat 0 k ++ ds)).
  { unfold pad10. fold k. rewrite hexdigits_app, hexdigits_zeros, Ed. reflexivity. }
  assert (Hlen : List.length (pad10 a) = (2 * 5)%nat).
  { unfold pad10. rewrite app_length, repeat_length. lia. }
  destruct (unhexlify_ok 5 _ _ Hlen Hp) as (bs & U & Lb & B & V).
  split.
  - unfold addr_of. rewrite U, Lb. cbn [Nat.eqb]. f_equal.
    apply be_bytes5_unique; [exact Lb|exact B|].
    unfold be_val. rewrite V, horner_zeros. f_equal. lia.
  - rewrite <- L. clear -D.
    assert (G : forall acc, 0 <= acc -> 0 <= horner 16 ds acc < 16 ^ Z.of_nat (List.length ds) * (acc + 1)).
    { induction D as [|d l Hd Hl IH]; intros acc Ha.
      - unfold horner. cbn [fold_left List.length]. change (Z.of_nat 0) with 0. rewrite Z.pow_0_r. lia.
      - rewrite horner_cons. cbn [List.length]. rewrite Nat2Z.inj_succ, Z.pow_succ_r by lia.
        specialize (IH (16 * acc + d) ltac:(lia)).
        assert (0 < 16 ^ Z.of_nat (List.length l)) by (apply Z.pow_pos_nonneg; lia). nia. }
    specialize (G 0 ltac:(lia)). lia.
Qed.

(* '{:X}'.format(a) *)
Lemma hexX_spec a : 0 <= a < 2 ^ 40 ->
  hex_val (hexX a) = Some a /\ (1 <= List.length (hexX a) <= 10)%nat /\ forallb alnum (hexX a) = true.
Proof.
  intros Ha. unfold hexX.
  destruct (digits_of_spec 16 a) as (D & V & N); try lia.
  assert (Ll : (List.length (digits_of 16 a) <= 10)%nat).
  { apply digits_of_length; [lia| |lia]. change (16 ^ Z.of_nat 10) with (2 ^ 40). exact Ha. }
  assert (G : hexdigits (map hex_char_upper (digits_of 16 a)) = Some (digits_of 16 a) /\
              forallb alnum (map hex_char_upper (digits_of 16 a)) = true).
  { clear -D. induction D as [|d l Hd Hl [IH1 IH2]]; [split; reflexivity|].
    cbn [map hexdigits forallb]. destruct (hex_char_upper_spec d Hd) as [E1 E2].
    rewrite E1, E2, IH1, IH2. split; reflexivity. }
  destruct G as [G1 G2]. repeat split.
  - unfold hex_val. rewrite G1. cbn [option_map]. now rewrite V.
  - rewrite map_length. destruct (digits_of 16 a); [congruence|cbn; lia].
  - rewrite map_length. exact Ll.
  - exact G2.
Qed.
