(* C20/Proofs_e.v — uri_helper.address_from_env agrees with RadioDriver.parse_uri on every well-formed URI. *)
From CF Require Import Common.Bytes C20.Model C20.Proofs_a C20.Proofs_b C20.Proofs_c.
From Coq Require Import ZifyBool.
Ltac Zify.zify_post_hook ::= Z.to_euclidean_division_equations.
Open Scope Z_scope.

Lemma hex_digits_acc_digits s : forall ds acc b, hexdigits s = Some ds -> (s <> [] \/ b = true) ->
  hex_digits_acc s acc b = Some (horner 16 ds acc).
Proof.
  induction s as [|c s IH]; intros ds acc b H Hb; cbn [hexdigits] in H.
  - injection H as <-. destruct Hb as [Hb| ->]; [congruence|reflexivity].
  - destruct (hexval c) as [d|] eqn:Ec; [|discriminate].
    destruct (hexdigits s) as [t|] eqn:Es; [|discriminate]. injection H as <-.
    cbn [hex_digits_acc]. rewrite Ec. rewrite (IH t) by (auto). reflexivity.
Qed.

Lemma strip_0x_hex s ds : hexdigits s = Some ds -> strip_0x s = s.
Proof.
  intros H. destruct s as [|z [|x r]]; try reflexivity. cbn [strip_0x].
  cbn [hexdigits] in H. destruct (hexval z); [|discriminate].
  destruct (hexval x) eqn:Ex; [|destruct (hexdigits r); discriminate].
  destruct (Ascii.eqb x "x"%char) eqn:E1; [apply Ascii.eqb_eq in E1; subst x; discriminate Ex|].
  destruct (Ascii.eqb x "X"%char) eqn:E2; [apply Ascii.eqb_eq in E2; subst x; discriminate Ex|].
  now rewrite andb_false_r.
Qed.

Lemma py_int16_hex a ds : a <> [] -> hexdigits a = Some ds -> py_int16 a = Some (horner 16 ds 0).
Proof.
  intros Hne Hd. destruct (hexdigits_props a ds Hd) as (_ & _ & Al).
  unfold py_int16. rewrite strip_alnum by (try special_tac; exact Al).
  destruct a as [|c r]; [congruence|].
  assert (Ac : alnum c = true) by (cbn [forallb] in Al; now apply andb_true_iff in Al as [? _]).
  destruct (alnum_not_special c c_minus Ac ltac:(special_tac)) as [-> _].
  destruct (alnum_not_special c c_plus Ac ltac:(special_tac)) as [-> _].
  rewrite (strip_0x_hex _ _ Hd). apply hex_digits_acc_digits; [exact Hd|left; discriminate].
Qed.

Definition tail_comps (t : tail) : list str :=
  match t with
  | TNone | TSlash => [[]]
  | TCh ch => [dec ch]
  | TChRate ch r => [dec ch; rate_str r]
  | TChRateAddr ch r a => [dec ch; rate_str r; a]
  end.

Lemma has_slash_tail c (Hc : special c) : c <> c_slash -> forall t, tail_ok t -> has c (fmt_tail t) = false.
Proof.
  intros Hne t Ht.
  assert (E : Ascii.eqb c c_slash = false) by (now apply Ascii.eqb_neq).
  destruct t as [| |ch|ch r|ch r a]; cbn [fmt_tail tail_ok] in *.
  - reflexivity.
  - cbn. now rewrite E.
  - rewrite has_cons, E. cbn [orb]. apply alnum_has; [exact Hc|now apply dec_alnum].
  - destruct Ht as [Hch Hr]. destruct (rate_str_props r Hr) as (_ & R2 & _).
    rewrite has_cons, E. cbn [orb]. apply has_alnum_app; [exact Hc|now apply dec_alnum|].
    rewrite has_cons, E. cbn [orb]. now apply alnum_has.
  - destruct Ht as (Hch & Hr & Hal & Hah). destruct (rate_str_props r Hr) as (_ & R2 & _).
    destruct (hexdigits a) as [ds|] eqn:Ed; [|congruence]. destruct (hexdigits_props a ds Ed) as (_ & _ & A2).
    rewrite has_cons, E. cbn [orb]. apply has_alnum_app; [exact Hc|now apply dec_alnum|].
    rewrite has_cons, E. cbn [orb]. apply has_alnum_app; [exact Hc|exact R2|].
    rewrite has_cons, E. cbn [orb]. now apply alnum_has.
Qed.

Lemma tail_starts_slash t : fmt_tail t = [] \/ exists p', fmt_tail t = c_slash :: p'.
Proof. destruct t; cbn [fmt_tail]; [now left|right; eexists; reflexivity..]. Qed.

Lemma tail_components t : tail_ok t -> split_on c_slash (strip c_slash (fmt_tail t)) = tail_comps t.
Proof.
  intros Ht. assert (Hs : special c_slash) by special_tac.
  destruct t as [| |ch|ch r|ch r a]; cbn [fmt_tail tail_ok tail_comps] in *.
  - reflexivity.
  - unfold strip. rewrite lstrip_skip. reflexivity.
  - pose proof (dec_alnum ch Ht) as Ha.
    unfold strip. rewrite lstrip_skip. fold (strip c_slash (dec ch)). rewrite strip_alnum by assumption.
    apply split_on_none. now apply alnum_has.
  - destruct Ht as [Hch Hr]. pose proof (dec_alnum ch Hch) as Ha. pose proof (dec_nonnil ch Hch) as Hne.
    destruct (rate_str_props r Hr) as (_ & R2 & R3).
    change (c_slash :: dec ch ++ c_slash :: rate_str r) with (c_slash :: dec ch ++ [c_slash] ++ rate_str r).
    rewrite strip_comp_tail by assumption. cbn [app].
    rewrite split_on_app by (now apply alnum_has). rewrite split_on_none by (now apply alnum_has). reflexivity.
  - destruct Ht as (Hch & Hr & Hal & Hah). pose proof (dec_alnum ch Hch) as Ha. pose proof (dec_nonnil ch Hch) as Hne.
    destruct (rate_str_props r Hr) as (_ & R2 & R3).
    destruct (hexdigits a) as [ds|] eqn:Ed; [|congruence]. destruct (hexdigits_props a ds Ed) as (_ & _ & A2).
    assert (A3 : a <> []) by (destruct a; [cbn in Hal; lia|discriminate]).
    replace (c_slash :: dec ch ++ c_slash :: rate_str r ++ c_slash :: a)
      with (c_slash :: dec ch ++ (c_slash :: rate_str r ++ [c_slash]) ++ a)
      by (cbn [app]; now rewrite <- app_assoc).
    rewrite strip_comp_tail by assumption.
    cbn [app]. rewrite <- app_assoc. cbn [app].
    rewrite split_on_app by (now apply alnum_has). rewrite split_on_app by (now apply alnum_has).
    rewrite split_on_none by (now apply alnum_has). reflexivity.
Qed.

Lemma be_val_bytes5 v : 0 <= v < 2 ^ 40 -> be_val (be_bytes5 v) = v.
Proof. intros H. unfold be_val, be_bytes5, horner. cbn [fold_left]. lia. Qed.

Theorem address_from_env_fmt serials d t l devid :
  dongle_ok serials d devid -> tail_ok t -> lim_ok l ->
  address_from_env (fmt_uri d t l) = EnvAddr (be_val (tail_address t)).
Proof.
  intros Hd Ht Hl. destruct (devid_fmt serials d devid Hd) as [Hnl _].
  unfold address_from_env, fmt_uri. rewrite fmt_lim_qpart.
  rewrite urlsplit_fmt; [|exact Hnl|apply tail_starts_slash| | |now apply lim_no_hash].
  2: apply has_slash_tail; [special_tac|discriminate|exact Ht].
  2: apply has_slash_tail; [special_tac|discriminate|exact Ht].
  rewrite (tail_components t Ht).
  destruct t as [| |ch|ch r|ch r a]; cbn [tail_comps tail_address]; try reflexivity.
  destruct Ht as (_ & _ & Hal & Hah).
  destruct (hexdigits a) as [ds|] eqn:Ed; [|congruence].
  assert (A3 : a <> []) by (destruct a; [cbn in Hal; lia|discriminate]).
  rewrite (py_int16_hex a ds A3 Ed).
  assert (Hv : hex_val a = Some (horner 16 ds 0)) by (unfold hex_val; now rewrite Ed).
  rewrite Hv. destruct (addr_of_hex a _ Hal Hv) as [_ Hb].
  rewrite be_val_bytes5; [reflexivity|].
  split; [lia|]. eapply Z.lt_le_trans; [apply Hb|].
  change (2 ^ 40) with (16 ^ Z.of_nat 10). apply Z.pow_le_mono_r; lia.
Qed.
