(* C20/Proofs_i.v — histories of open_link calls on one Crazyflie object. *)
From CF Require Import Common.Bytes C20.Model.
Open Scope Z_scope.

(* whatever came before (any history, any state), every call notifies: a bad URI gives exactly connection_requested
   then connection_failed, a good one connection_requested *)
Theorem open_history_every_call_notifies : forall h s,
  open_history open_step s h = map (fun kc => open_cbs (fst kc)) h.
Proof.
  induction h as [|[k cl] r IH]; intros s; [reflexivity|]. cbn [open_history open_step map fst]. now rewrite IH.
Qed.

Theorem bad_uri_always_notified h s i k cl : nth_error h i = Some (k, cl) -> k <> KGood ->
  nth_error (open_history open_step s h) i = Some [CbRequested; CbFailed].
Proof.
  intros H Hk. rewrite open_history_every_call_notifies, nth_error_map, H. cbn. destruct k; [reflexivity|reflexivity|congruence].
Qed.

(* the state guard: after an unclaimed URI (state left INITIALIZED) the next call is swallowed *)
Theorem state_guard_refuted :
  exists h i, nth_error h i = Some (KUnclaimed, false) /\
    nth_error (open_history open_step_guarded CDisconnected h) i = Some [] /\
    nth_error (open_history open_step CDisconnected h) i = Some [CbRequested; CbFailed].
Proof. exists [(KUnclaimed, false); (KUnclaimed, false)], 1%nat. repeat split. Qed.
