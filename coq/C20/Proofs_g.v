(* C20/Proofs_g.v — RadioDriver.scan_selected: what is probed for a list of links, what is reported. *)
From CF Require Import Common.Bytes C20.Model C20.Proofs_a C20.Proofs_b C20.Proofs_c C20.Proofs_d.
From Coq Require Import ZifyBool.
Ltac Zify.zify_post_hook ::= Z.to_euclidean_division_equations.
Open Scope Z_scope.

Definition stops_digits (X : str) : Prop := X = [] \/ exists c r, X = c :: r /\ is_digit c = false.

Lemma span_digits_dec n X : 0 <= n -> stops_digits X -> span is_digit (dec n ++ X) = (dec n, X).
Proof.
  intros Hn HX. destruct (dec_spec n Hn) as (l & E & Hl & _). destruct (map_dec_char_props l Hl) as (P1 & _).
  rewrite <- E in P1. destruct HX as [-> | (c & r & -> & Hc)].
  - rewrite app_nil_r. now apply span_all.
  - now apply span_app.
Qed.

Lemma dec_value n : 0 <= n -> horner 10 (map digit_val (dec n)) 0 = n.
Proof.
  intros Hn. destruct (dec_spec n Hn) as (l & E & Hl & Hv & _). destruct (map_dec_char_props l Hl) as (_ & _ & P3).
  now rewrite E, P3.
Qed.

(* a link  radio://<n>/<ch><X>  where X does not continue the channel digits *)
Theorem sel_parse_general n ch X : 0 <= n -> 0 <= ch -> short ch -> stops_digits X ->
  sel_parse (radio_prefix ++ dec n ++ c_slash :: dec ch ++ X) = SelOk ch (sel_rate X).
Proof.
  intros Hn Hch Hs HX. unfold sel_parse. rewrite startswith_app. cbn [negb].
  rewrite skipn_app_exact by reflexivity.
  rewrite (span_digits_dec n (c_slash :: dec ch ++ X) Hn) by (right; eexists; eexists; split; reflexivity).
  rewrite (is_nil_false _ (dec_nonnil n Hn)). rewrite aeqb_refl.
  rewrite (span_digits_dec ch X Hch HX). rewrite (is_nil_false _ (dec_nonnil ch Hch)).
  replace (Nat.ltb max_str_digits (List.length (dec ch))) with false by (symmetry; now apply Nat.ltb_ge).
  now rewrite (dec_value ch Hch).
Qed.

(* well-formed links as parse_uri understands them, with a channel *)
Definition has_channel (t : tail) : bool := match t with TNone | TSlash => false | _ => true end.
Definition tail_rest (t : tail) : str :=
  match t with
  | TChRate _ r => c_slash :: rate_str r
  | TChRateAddr _ r a => c_slash :: rate_str r ++ c_slash :: a
  | _ => []
  end.

Lemma fmt_uri_channel n t l : has_channel t = true ->
  fmt_uri (DNum n) t l = radio_prefix ++ dec n ++ c_slash :: dec (tail_channel t) ++ tail_rest t ++ fmt_lim l.
Proof.
  unfold fmt_uri. cbn [fmt_dongle]. destruct t as [| |ch|ch r|ch r a]; try discriminate; intros _;
    cbn [fmt_tail tail_channel tail_rest]; repeat (progress (repeat rewrite <- app_assoc; cbn [app])); reflexivity.
Qed.

Lemma lim_stops l : stops_digits (fmt_lim l).
Proof. destruct l; [right; eexists; eexists; split; reflexivity|now left]. Qed.

Lemma sel_rate_tail t l : has_channel t = true -> tail_ok t ->
  stops_digits (tail_rest t ++ fmt_lim l) /\ sel_rate (tail_rest t ++ fmt_lim l) = tail_rate t.
Proof.
  destruct t as [| |ch|ch r|ch r a]; try discriminate; intros _ Ht; cbn [tail_rest tail_rate tail_ok] in *.
  - cbn [app]. split; [apply lim_stops|]. destruct l; reflexivity.
  - destruct Ht as [_ [-> | [-> | ->]]]; (split; [right; eexists; eexists; split; reflexivity|reflexivity]).
  - destruct Ht as (_ & [-> | [-> | ->]] & _); (split; [right; eexists; eexists; split; reflexivity|reflexivity]).
Qed.

(* scan_selected reads channel and rate of a well-formed link exactly as parse_uri does; 250K is rate 0 *)
Theorem sel_parse_fmt serials n t l :
  0 <= n < 10 ^ 9 -> has_channel t = true -> tail_ok t -> lim_ok l -> tail_short t -> lim_short l ->
  sel_parse (fmt_uri (DNum n) t l) = SelOk (tail_channel t) (tail_rate t) /\
  parse_uri serials (fmt_uri (DNum n) t l) = POk n (tail_channel t) (tail_rate t) (tail_address t) l.
Proof.
  intros Hn Hc Ht Hl Hts Hls. split.
  - rewrite (fmt_uri_channel n t l Hc). destruct (sel_rate_tail t l Hc Ht) as [S1 S2].
    rewrite sel_parse_general; [now rewrite S2|lia| | |exact S1].
    + destruct t; try discriminate; cbn [tail_ok tail_channel] in *; tauto.
    + destruct t; try discriminate; exact Hts.
  - apply parse_fmt; try assumption. cbn. split; [exact Hn|reflexivity].
Qed.

Definition pr_pair (r : pres) : Z * Z := match r with POk _ ch rt _ _ => (ch, rt) | _ => (0, 0) end.
Definition link_ok (s : Z * tail * option Z) : Prop :=
  let '(n, t, l) := s in
  0 <= n < 10 ^ 9 /\ has_channel t = true /\ tail_ok t /\ lim_ok l /\ tail_short t /\ lim_short l.
Definition link_of (s : Z * tail * option Z) : str := let '(n, t, l) := s in fmt_uri (DNum n) t l.

(* for every list of well-formed links the (channel, rate) pairs probed are those parse_uri gives *)
Theorem scan_selected_settings_spec serials specs : Forall link_ok specs ->
  scan_selected_settings (map link_of specs) = Some (map (fun s => pr_pair (parse_uri serials (link_of s))) specs).
Proof.
  induction 1 as [|[[n t] l] specs H HF IH]; [reflexivity|].
  destruct H as (Hn & Hc & Ht & Hl & Hts & Hls). cbn [map scan_selected_settings link_of].
  destruct (sel_parse_fmt serials n t l Hn Hc Ht Hl Hts Hls) as [-> ->]. rewrite IH. reflexivity.
Qed.

(* what is reported: one URI per probed pair that a Crazyflie answers at the probed address, in order *)
Theorem scan_selected_reports air addr links ps : scan_selected_settings links = Some ps ->
  scan_selected air addr links = Some (map (fun p => sel_uri addr (fst p) (snd p)) (filter (answers air addr) ps)).
Proof. intros H. unfold scan_selected. now rewrite H. Qed.

Lemma be_val5_range bs : List.length bs = 5%nat -> bytes bs -> 0 <= be_val bs < 2 ^ 40.
Proof.
  intros L B. destruct bs as [|b0 [|b1 [|b2 [|b3 [|b4 [|? ?]]]]]]; try discriminate.
  unfold bytes in B.
  pose proof (Forall_inv B) as B0. pose proof (Forall_inv (Forall_inv_tail B)) as B1.
  pose proof (Forall_inv (Forall_inv_tail (Forall_inv_tail B))) as B2.
  pose proof (Forall_inv (Forall_inv_tail (Forall_inv_tail (Forall_inv_tail B)))) as B3.
  pose proof (Forall_inv (Forall_inv_tail (Forall_inv_tail (Forall_inv_tail (Forall_inv_tail B))))) as B4.
  unfold byte in *. unfold be_val, horner. cbn [fold_left]. lia.
Qed.

(* every reported URI parses back to the probed channel, rate and address (the address of the connected link) *)
Theorem sel_uri_roundtrip serials addr ch rt :
  List.length addr = 5%nat -> bytes addr -> 0 <= ch -> short ch -> rate_ok rt ->
  parse_uri serials (sel_uri addr ch rt) = POk 0 ch rt addr None.
Proof.
  intros L B Hch Hs Hr. unfold sel_uri.
  destruct (scan_roundtrip serials (Some (be_val addr)) ch rt Hch Hs Hr (be_val5_range addr L B)) as [-> _].
  cbn [scanned_address]. now rewrite <- (be_bytes5_unique addr (be_val addr) L B eq_refl).
Qed.

Lemma sel_rate_ok X : rate_ok (sel_rate X).
Proof.
  unfold sel_rate, rate_ok. destruct X as [|c r]; [tauto|]. destruct (Ascii.eqb c c_slash); [|tauto].
  destruct (startswith (s2l "250K") r); [tauto|]. destruct (startswith (s2l "1M") r); [tauto|].
  destruct (startswith (s2l "2M") r); tauto.
Qed.

(* `x or DR_2MPS` as a default is wrong for 250K: DR_250KPS = 0 is falsy *)
Theorem falsy_default_refuted :
  sel_parse (s2l "radio://0/100/250K") = SelOk 100 0 /\ falsy_or_2m 0 = 2 /\ falsy_or_2m 0 <> 0.
Proof. split; [vm_compute; reflexivity|]. split; [reflexivity|discriminate]. Qed.

(* the unrepaired report format drops the probed address: with a connected link on a non-default address the reported
   URI parses back to another address than the one that was probed *)
Theorem scan_selected_head_format_refuted :
  exists addr ch rt, parse_uri [] (sel_uri_head ch rt) = POk 0 ch rt default_addr None /\ addr <> default_addr /\
                     parse_uri [] (sel_uri addr ch rt) = POk 0 ch rt addr None.
Proof.
  exists [231; 231; 231; 231; 1], 100, 0. split; [vm_compute; reflexivity|]. split; [discriminate|vm_compute; reflexivity].
Qed.
