(* C20/Proofs_h.v — histories of init_drivers calls on the module-level driver list. *)
From CF Require Import Common.Bytes C20.Model C20.Proofs_a C20.Proofs_d.
Open Scope Z_scope.

Ltac solve_in := cbn; repeat first [left; reflexivity | right].

Lemma in_classes d b : In d (classes b) <-> (d <> DrvSerial \/ b = true).
Proof.
  split.
  - intros H. destruct d; try (left; discriminate). destruct b; [now right|].
    cbn in H. repeat (destruct H as [H|H]; [discriminate H|]). destruct H.
  - intros H. destruct d, b; try solve_in; destruct H as [H|H]; congruence.
Qed.

Lemma in_init_from d : forall calls cls,
  In d (init_from cls calls) <-> In d cls \/ exists b, In b calls /\ In d (classes b).
Proof.
  induction calls as [|b calls IH]; intros cls; cbn [init_from].
  - split; [now left|]. intros [H|(b & [] & _)]. exact H.
  - rewrite IH, in_app_iff. split.
    + intros [[H|H]|(b' & Hb & H)]; [now left|right; exists b; split; [now left|exact H]|
                                      right; exists b'; split; [now right|exact H]].
    + intros [H|(b' & [<-|Hb] & H)]; [left; now left|left; now right|right; exists b'; now split].
Qed.

Lemma in_history d calls : In d (init_history calls) <-> calls <> [] /\ (d <> DrvSerial \/ existsb (fun b => b) calls = true).
Proof.
  unfold init_history. rewrite in_init_from. split.
  - intros [[]|(b & Hb & H)]. apply in_classes in H. split; [intros ->; destruct Hb|].
    destruct H as [H| ->]; [now left|right]. apply existsb_exists. exists true. now split.
  - intros [Hne [H|H]].
    + right. destruct calls as [|b r]; [congruence|]. exists b. split; [now left|]. apply in_classes. now left.
    + right. apply existsb_exists in H as (b & Hb & ->). exists true. split; [exact Hb|]. apply in_classes. now right.
Qed.

Lemma driver_eqb_refl d : driver_eqb d d = true.
Proof. destruct d; reflexivity. Qed.

Lemma dedup_all_same d l : l <> [] -> (forall x, In x l -> x = d) -> dedup l = [d].
Proof.
  induction l as [|x r IH]; intros Hne H; [congruence|]. cbn [dedup].
  assert (x = d) by (apply H; now left). subst x.
  destruct r as [|y r'].
  - reflexivity.
  - assert (E : existsb (driver_eqb d) (y :: r') = true).
    { apply existsb_exists. exists y. split; [now left|]. rewrite (H y) by (right; now left). apply driver_eqb_refl. }
    rewrite E. apply IH; [discriminate|]. intros z Hz. apply H. now right.
Qed.

Lemma claimants_one cls uri d : In d cls -> claims d uri = true -> claimants cls uri = [d].
Proof.
  intros Hin Hc. unfold claimants. apply dedup_all_same.
  - intros E. assert (In d (filter (fun d0 => claims d0 uri) cls)) by (apply filter_In; now split). rewrite E in H. destruct H.
  - intros x Hx. apply filter_In in Hx as [_ Hx]. eapply claims_exclusive; eassumption.
Qed.

Lemma claimants_none cls uri : (forall d, In d cls -> claims d uri = false) -> claimants cls uri = [].
Proof.
  intros H. unfold claimants. replace (filter (fun d => claims d uri) cls) with (@nil driver); [reflexivity|].
  symmetry. induction cls as [|x r IH]; [reflexivity|]. cbn [filter]. rewrite (H x) by now left.
  apply IH. intros d Hd. apply H. now right.
Qed.

(* after ANY history that contains an enabling call, a serial URI is handled by SerialDriver and by no other class *)
Theorem history_serial_enabled serials env calls uri :
  existsb (fun b => b) calls = true -> claims DrvSerial uri = true ->
  get_link_driver serials env (init_history calls) uri = conn_result DrvSerial (connect serials env DrvSerial uri) /\
  claimants (init_history calls) uri = [DrvSerial].
Proof.
  intros He Hc.
  assert (Hin : In DrvSerial (init_history calls)).
  { apply in_history. split; [intros ->; discriminate He|now right]. }
  split; [now apply claimed_driver_selected|now apply claimants_one].
Qed.

(* without an enabling call nobody claims it: no driver *)
Theorem history_serial_not_enabled serials env calls uri :
  existsb (fun b => b) calls = false -> claims DrvSerial uri = true ->
  get_link_driver serials env (init_history calls) uri = GNone /\ claimants (init_history calls) uri = [].
Proof.
  intros He Hc.
  assert (H : forall d, In d (init_history calls) -> claims d uri = false).
  { intros d Hd. destruct (claims d uri) eqn:E; [|reflexivity].
    rewrite (claims_exclusive _ _ _ E Hc) in Hd. apply in_history in Hd as [_ [Hd|Hd]]; congruence. }
  split; [now apply unclaimed_no_driver|now apply claimants_none].
Qed.

(* every other scheme: after any non-empty history its driver, and only that class, handles it — whatever the calls *)
Theorem history_other_schemes serials env calls uri d :
  calls <> [] -> d <> DrvSerial -> claims d uri = true ->
  get_link_driver serials env (init_history calls) uri = conn_result d (connect serials env d uri) /\
  claimants (init_history calls) uri = [d].
Proof.
  intros Hne Hd Hc.
  assert (Hin : In d (init_history calls)) by (apply in_history; split; [exact Hne|now left]).
  split; [now apply claimed_driver_selected|now apply claimants_one].
Qed.

(* never two different classes *)
Theorem history_at_most_one_class calls uri : (List.length (claimants (init_history calls) uri) <= 1)%nat.
Proof.
  destruct (filter (fun d => claims d uri) (init_history calls)) as [|d r] eqn:F.
  - unfold claimants. rewrite F. cbn. lia.
  - assert (Hd : In d (filter (fun d0 => claims d0 uri) (init_history calls))) by (rewrite F; now left).
    apply filter_In in Hd as [Hin Hc]. rewrite (claimants_one _ _ _ Hin Hc). cbn. lia.
Qed.

(* what an "already initialised" guard would do: the second call is ignored *)
Theorem guarded_init_refuted :
  exists uri, claims DrvSerial uri = true /\
    claimants (init_history [false; true]) uri = [DrvSerial] /\
    claimants (init_history [false]) uri = [].
Proof. exists (s2l "serial://ttyUSB0"). repeat split; vm_compute; reflexivity. Qed.
