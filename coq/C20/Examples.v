(* C20/Examples.v — non-vacuity: concrete instances of the hypotheses of the C20 theorems. *)
From CF Require Import Common.Bytes C20.Model C20.Proofs_a C20.Proofs_b C20.Proofs_c C20.Proofs_d C20.Proofs_e.
Open Scope Z_scope.

Definition serials1 : list str := [s2l "ABCDEF0123"; s2l "E7E7E7E7E7"].

(* a full URI with serial-number dongle (lower case), short mixed-case address and rate limit *)
Example ex_full :
  fmt_uri (DSerial (s2l "e7e7e7e7e7")) (TChRateAddr 125 0 (s2l "aB1")) (Some 100)
    = s2l "radio://e7e7e7e7e7/125/250K/aB1?rate_limit=100" /\
  dongle_ok serials1 (DSerial (s2l "e7e7e7e7e7")) 1 /\ tail_ok (TChRateAddr 125 0 (s2l "aB1")) /\ lim_ok (Some 100) /\
  parse_uri serials1 (s2l "radio://e7e7e7e7e7/125/250K/aB1?rate_limit=100") = POk 1 125 0 [0; 0; 0; 10; 177] (Some 100).
Proof.
  repeat split; try reflexivity; try (vm_compute; lia); try (vm_compute; discriminate); try (vm_compute; intros; discriminate).
Qed.

(* F20: the shortest forms use the defaults (model of the repaired code) *)
Example ex_f20 : parse_uri [] (s2l "radio://0") = POk 0 2 2 default_addr None /\
                 parse_uri [] (s2l "radio://0/") = POk 0 2 2 default_addr None /\
                 fmt_uri (DNum 0) TNone None = s2l "radio://0".
Proof. repeat split; reflexivity. Qed.

Example ex_scan : scan_uri (Some 996028180225) 80 2 = s2l "radio://0/80/2M/E7E7E7E701" /\
                  scan_uri (Some DEFAULT_ADDR) 0 0 = s2l "radio://0/0/250K" /\
                  scan_uri (Some 10) 125 1 = s2l "radio://0/125/1M/A" /\
                  addr_in_range (Some 996028180225).
Proof. repeat split; try reflexivity; cbn; lia. Qed.

Example ex_malformed :
  parse_uri [] (s2l "radio://0/80/2M/E7E7E7E7E7E7") = PRaise EStruct /\
  parse_uri [] (s2l "radio://0/x") = PRaise EValue /\
  parse_uri [] (s2l "radio://nosuch/1") = PRaise ENoSerial /\
  open_link [] (fun _ => true) (classes false) (s2l "radio://0/x") = ONoLink [CbRequested; CbFailed] /\
  open_link [] (fun _ => true) (classes false) (s2l "serial://ttyUSB0") = ONoLink [CbRequested; CbFailed] /\
  open_link [] (fun _ => true) (classes true) (s2l "serial://ttyUSB0") = OLinked DrvSerial [CbRequested] /\
  open_link [] (fun _ => true) (classes true) (s2l "debug://0") = ONoLink [CbRequested; CbFailed].
Proof. repeat split; reflexivity. Qed.

Example ex_unknown : forall d, startswith (scheme_prefix d) (s2l "bluetooth://x") = false.
Proof. intros []; reflexivity. Qed.

(* F20b: address_from_env with query option / omitted fields (model of the repaired code) *)
Example ex_f20b :
  address_from_env (s2l "radio://0/80/2M/E7E7E7E701?rate_limit=100") = EnvAddr 996028180225 /\
  address_from_env (s2l "radio://0/80") = EnvAddr DEFAULT_ADDR /\
  address_from_env (s2l "radio://0/80/2M/zz") = EnvNone /\
  be_val (tail_address (TChRateAddr 80 2 (s2l "E7E7E7E701"))) = 996028180225.
Proof. repeat split; vm_compute; reflexivity. Qed.
