(* C20/Model.v — executable model of link-URI handling.
   RadioDriver.parse_uri and the URI formatting of RadioDriver.scan_interface (cflib/crtp/radiodriver.py),
   the scheme tests of the link drivers and get_link_driver (cflib/crtp/__init__.py, *driver.py),
   the catch-all of Crazyflie.open_link (cflib/crazyflie/__init__.py).
   Strings are lists of characters.  The modelled domain is printable ASCII (0x20..0x7E), see [in_scope].
   Hand-written; tied to the code by differential evaluation on every run (harness/props/c20.py).
   Models the code WITH fixes/F20.patch (an empty path yields an empty component list). *)
From CF Require Export Common.Bytes.
From Coq Require Export Ascii String.
Open Scope Z_scope.

Definition str := list ascii.
Definition s2l (s : string) : str := list_ascii_of_string s.
Definition l2s (s : str) : string := string_of_list_ascii s.
Definition code (c : ascii) : Z := Z.of_N (N_of_ascii c).
Definition chr (z : Z) : ascii := ascii_of_N (Z.to_N z).

Definition c_slash : ascii := "/"%char.
Definition c_qmark : ascii := "?"%char.
Definition c_hash : ascii := "#"%char.
Definition c_amp : ascii := "&"%char.
Definition c_eq : ascii := "="%char.
Definition c_plus : ascii := "+"%char.
Definition c_minus : ascii := "-"%char.
Definition c_space : ascii := " "%char.
Definition c_under : ascii := "_"%char.
Definition c_zero : ascii := "0"%char.
Definition c_lbr : ascii := "["%char.
Definition c_rbr : ascii := "]"%char.
Definition c_pct : ascii := "%"%char.

(* ---------------------------------------------------------------- generic string functions *)

Fixpoint str_eqb (a b : str) : bool :=
  match a, b with
  | [], [] => true
  | x :: a', y :: b' => Ascii.eqb x y && str_eqb a' b'
  | _, _ => false
  end.

Fixpoint startswith (p s : str) : bool :=
  match p, s with
  | [], _ => true
  | a :: p', b :: s' => Ascii.eqb a b && startswith p' s'
  | _ :: _, [] => false
  end.

Definition has (c : ascii) (s : str) : bool := existsb (Ascii.eqb c) s.

(* longest prefix whose characters satisfy f, and the rest *)
Fixpoint span (f : ascii -> bool) (s : str) : str * str :=
  match s with
  | [] => ([], [])
  | c :: r => if f c then let '(a, b) := span f r in (c :: a, b) else ([], s)
  end.

(* s.split(c, 1): text before the first c and, if c occurs, the text after it *)
Fixpoint break_at (c : ascii) (s : str) : str * option str :=
  match s with
  | [] => ([], None)
  | x :: r => if Ascii.eqb x c then ([], Some r)
              else let '(a, b) := break_at c r in (x :: a, b)
  end.

(* s.split(c): always at least one component *)
Fixpoint split_on (c : ascii) (s : str) : list str :=
  match s with
  | [] => [[]]
  | x :: r => if Ascii.eqb x c then [] :: split_on c r
              else match split_on c r with
                   | [] => [[x]]
                   | h :: t => (x :: h) :: t
                   end
  end.

Fixpoint lstrip (c : ascii) (s : str) : str :=
  match s with
  | [] => []
  | x :: r => if Ascii.eqb x c then lstrip c r else s
  end.

Fixpoint rstrip (c : ascii) (s : str) : str :=
  match s with
  | [] => []
  | x :: r => match rstrip c r with
              | [] => if Ascii.eqb x c then [] else [x]
              | r' => x :: r'
              end
  end.

Definition strip (c : ascii) (s : str) : str := rstrip c (lstrip c s).

Definition is_nil {A} (l : list A) : bool := match l with [] => true | _ => false end.

Definition upper_c (c : ascii) : ascii :=
  if (97 <=? code c) && (code c <=? 122) then chr (code c - 32) else c.
Definition upper (s : str) : str := map upper_c s.

Fixpoint index_of (x : str) (l : list str) (k : Z) : option Z :=
  match l with
  | [] => None
  | y :: r => if str_eqb x y then Some k else index_of x r (k + 1)
  end.

(* ---------------------------------------------------------------- numbers <-> text *)

Definition is_digit (c : ascii) : bool := (48 <=? code c) && (code c <=? 57).
Definition digit_val (c : ascii) : Z := code c - 48.

Definition hexval (c : ascii) : option Z :=
  let k := code c in
  if (48 <=? k) && (k <=? 57) then Some (k - 48)
  else if (65 <=? k) && (k <=? 70) then Some (k - 55)
  else if (97 <=? k) && (k <=? 102) then Some (k - 87)
  else None.

(* value of a big-endian digit list in base b, with accumulator *)
Definition horner (b : Z) (l : list Z) (acc : Z) : Z := fold_left (fun a d => b * a + d) l acc.

(* little-endian digits of n >= 0 in base b (at least one digit) *)
Fixpoint to_le (b : Z) (fuel : nat) (n : Z) : list Z :=
  match fuel with
  | O => []
  | S f => if n <? b then [n] else (n mod b) :: to_le b f (n / b)
  end.
Definition digits_of (b n : Z) : list Z := rev (to_le b (S (Z.to_nat (Z.log2 n))) n).

Definition dec_char (d : Z) : ascii := chr (48 + d).
Definition hex_char_upper (d : Z) : ascii := if d <? 10 then chr (48 + d) else chr (55 + d).

(* '{}'.format(n) for an int n >= 0 *)
Definition dec (n : Z) : str := map dec_char (digits_of 10 n).
(* '{:X}'.format(n) for an int n >= 0 *)
Definition hexX (n : Z) : str := map hex_char_upper (digits_of 16 n).

(* Python int(s) for a str of printable ASCII: optional surrounding blanks, optional sign, decimal digits
   with single underscores between digits.  None = ValueError. *)
Fixpoint int_digits (s : str) (acc : Z) (after_digit : bool) : option Z :=
  match s with
  | [] => if after_digit then Some acc else None
  | c :: r =>
      if is_digit c then int_digits r (10 * acc + digit_val c) true
      else if Ascii.eqb c c_under && after_digit then
        match r with
        | d :: _ => if is_digit d then int_digits r acc false else None
        | [] => None
        end
      else None
  end.

(* sys.int_info.default_max_str_digits: more than 4300 digit characters => ValueError *)
Definition count_digits (s : str) : nat := List.length (filter is_digit s).
Definition max_str_digits : nat := 4300.

Definition py_int (s : str) : option Z :=
  if Nat.ltb max_str_digits (count_digits s) then None else
  match strip c_space s with
  | [] => None
  | c :: r =>
      if Ascii.eqb c c_minus then option_map Z.opp (int_digits r 0 false)
      else if Ascii.eqb c c_plus then int_digits r 0 false
      else int_digits (c :: r) 0 false
  end.

(* '{:0>10}'.format(s) *)
Definition pad10 (s : str) : str := repeat c_zero (10 - List.length s) ++ s.

(* binascii.unhexlify: None = binascii.Error (a ValueError) for odd length or a non-hex character *)
Fixpoint unhexlify (s : str) : option (list Z) :=
  match s with
  | [] => Some []
  | [_] => None
  | a :: b :: r =>
      match hexval a, hexval b, unhexlify r with
      | Some x, Some y, Some t => Some (16 * x + y :: t)
      | _, _, _ => None
      end
  end.

(* ---------------------------------------------------------------- RadioDriver.parse_uri *)

Inductive exn := EValue | EStruct | ENoSerial.
Inductive pres :=
| POk (devid channel datarate : Z) (address : list Z) (rate_limit : option Z)
| PWrong                      (* WrongUriType *)
| PRaise (e : exn).

Definition radio_prefix : str := s2l "radio://".
Definition default_addr : list Z := [231; 231; 231; 231; 231].
Definition DEFAULT_ADDR : Z := 996028180455.   (* 0xE7E7E7E7E7 *)

Definition not_delim (c : ascii) : bool :=
  negb (Ascii.eqb c c_slash || Ascii.eqb c c_qmark || Ascii.eqb c c_hash).

(* urlparse(uri) for a uri that starts with "radio://": (netloc, path, query); None = ValueError *)
Definition urlsplit_radio (uri : str) : option (str * str * str) :=
  let rest := skipn 8 uri in
  let '(netloc, r1) := span not_delim rest in
  if xorb (has c_lbr netloc) (has c_rbr netloc) then None else
  let url := fst (break_at c_hash r1) in
  let '(path, qo) := break_at c_qmark url in
  Some (netloc, path, match qo with Some q => q | None => [] end).

(* parse_qs(query)[key][0] when key is present: first field name=value (non-empty value) whose name,
   after '+' -> ' ', is key.  then percent-decoded. *)
Definition plus_to_space (s : str) : str := map (fun c => if Ascii.eqb c c_plus then c_space else c) s.
(* urllib.parse.unquote for escapes that decode to ASCII: '%' + two hex digits => that character, any other '%'
   stays.  (Escapes >= %80 decode through UTF-8 and are outside the modelled domain, see in_scope.) *)
Fixpoint unquote (s : str) : str :=
  match s with
  | [] => []
  | c :: t =>
      if Ascii.eqb c c_pct then
        match t with
        | a :: b :: r =>
            match hexval a, hexval b with
            | Some x, Some y => chr (16 * x + y) :: unquote r
            | _, _ => c :: unquote t
            end
        | _ => c :: unquote t
        end
      else c :: unquote t
  end.

(* every escape decodes to a printable ASCII character *)
Fixpoint pct_ok (s : str) : bool :=
  match s with
  | [] => true
  | c :: t =>
      if Ascii.eqb c c_pct then
        match t with
        | a :: b :: r =>
            match hexval a, hexval b with
            | Some x, Some y => (32 <=? 16 * x + y) && (16 * x + y <=? 126) && pct_ok r
            | _, _ => pct_ok t
            end
        | _ => pct_ok t
        end
      else pct_ok t
  end.

Fixpoint qs_find (key : str) (fields : list str) : option str :=
  match fields with
  | [] => None
  | f :: r =>
      match break_at c_eq f with
      | (name, Some (v :: vs)) =>
          if str_eqb (unquote (plus_to_space name)) key then Some (unquote (plus_to_space (v :: vs))) else qs_find key r
      | _ => qs_find key r
      end
  end.
Definition qs_get (key query : str) : option str := qs_find key (split_on c_amp query).

Definition devid_of (serials : list str) (netloc : str) : option Z :=
  if (Nat.ltb (List.length netloc) 10) && negb (is_nil netloc) && forallb is_digit netloc
  then Some (horner 10 (map digit_val netloc) 0)
  else index_of (upper netloc) serials 0.

Definition rate_of (p : str) : Z :=
  if str_eqb p (s2l "250K") then 0
  else if str_eqb p (s2l "1M") then 1
  else 2.

Inductive ares := AOk (a : list Z) | ARaise (e : exn).
Definition addr_of (p : str) : ares :=
  match unhexlify (pad10 p) with
  | None => ARaise EValue
  | Some bs => if Nat.eqb (List.length bs) 5 then AOk bs else ARaise EStruct
  end.

Definition parse_uri (serials : list str) (uri : str) : pres :=
  if negb (startswith radio_prefix uri) then PWrong else
  match urlsplit_radio uri with
  | None => PRaise EValue
  | Some (netloc, path, query) =>
    let stripped := strip c_slash path in
    let pp := if is_nil stripped then [] else split_on c_slash stripped in
    match devid_of serials netloc with
    | None => PRaise ENoSerial
    | Some devid =>
      match (match pp with [] => Some 2 | p0 :: _ => py_int p0 end) with
      | None => PRaise EValue
      | Some ch =>
        let rate := match pp with _ :: p1 :: _ => rate_of p1 | _ => 2 end in
        match (match pp with _ :: _ :: p2 :: _ => addr_of p2 | _ => AOk default_addr end) with
        | ARaise e => PRaise e
        | AOk addr =>
          match qs_get (s2l "rate_limit") query with
          | None => POk devid ch rate addr None
          | Some v => match py_int v with
                      | None => PRaise EValue
                      | Some l => POk devid ch rate addr (Some l)
                      end
          end
        end
      end
    end
  end.

(* the part of the input space on which the model claims to describe CPython + cflib *)
Definition printable (c : ascii) : bool := (32 <=? code c) && (code c <=? 126).
Definition in_scope (uri : str) : bool :=
  forallb printable uri &&
  (if startswith radio_prefix uri then
     let '(netloc, r1) := span not_delim (skipn 8 uri) in
     negb (has c_lbr netloc && has c_rbr netloc) &&
     pct_ok (match snd (break_at c_qmark (fst (break_at c_hash r1))) with Some q => q | None => [] end)
   else true).

(* ---------------------------------------------------------------- scan_interface formatting *)

Definition rate_str (r : Z) : str :=
  if r =? 0 then s2l "250K" else if r =? 1 then s2l "1M" else s2l "2M".

(* URI reported for a Crazyflie answering on channel c at rate r while scanning with `address` *)
Definition scan_uri (address : option Z) (c r : Z) : str :=
  s2l "radio://0/" ++ dec c ++ [c_slash] ++ rate_str r ++
  match address with
  | None => []
  | Some a => if a =? DEFAULT_ADDR then [] else c_slash :: hexX a
  end.

(* address given to the radio while scanning: unpack('<BBBBB', unhexlify('{:0>10X}'.format(address))) *)
Definition scan_radio_address (address : option Z) : option ares :=
  match address with None => None | Some a => Some (addr_of (hexX a)) end.

Definition scan_interface (address : option Z) (f250 f1 f2 : list Z) : list str :=
  map (fun c => scan_uri address c 0) f250 ++ map (fun c => scan_uri address c 1) f1 ++
  map (fun c => scan_uri address c 2) f2.

(* ---------------------------------------------------------------- well-formed radio URIs *)

Inductive dongle := DNum (n : Z) | DSerial (s : str).
Inductive tail :=
| TNone | TSlash
| TCh (ch : Z) | TChRate (ch r : Z) | TChRateAddr (ch r : Z) (a : str).

Definition fmt_dongle (d : dongle) : str := match d with DNum n => dec n | DSerial s => s end.
Definition fmt_tail (t : tail) : str :=
  match t with
  | TNone => []
  | TSlash => [c_slash]
  | TCh ch => c_slash :: dec ch
  | TChRate ch r => c_slash :: dec ch ++ c_slash :: rate_str r
  | TChRateAddr ch r a => c_slash :: dec ch ++ c_slash :: rate_str r ++ c_slash :: a
  end.
Definition fmt_lim (l : option Z) : str :=
  match l with None => [] | Some n => s2l "?rate_limit=" ++ dec n end.
Definition fmt_uri (d : dongle) (t : tail) (l : option Z) : str :=
  radio_prefix ++ fmt_dongle d ++ fmt_tail t ++ fmt_lim l.

(* big-endian bytes <-> value *)
Definition be_val (l : list Z) : Z := horner 256 l 0.
Fixpoint hexdigits (s : str) : option (list Z) :=
  match s with
  | [] => Some []
  | c :: r => match hexval c, hexdigits r with Some d, Some t => Some (d :: t) | _, _ => None end
  end.
Definition hex_val (s : str) : option Z := option_map (fun ds => horner 16 ds 0) (hexdigits s).
Definition be_bytes5 (v : Z) : list Z :=
  [v / 4294967296 mod 256; v / 16777216 mod 256; v / 65536 mod 256; v / 256 mod 256; v mod 256].

(* ---------------------------------------------------------------- drivers and dispatch *)

Inductive driver := DrvRadio | DrvUsb | DrvSerial | DrvUdp | DrvPrrt | DrvTcp.

Definition driver_eqb (a b : driver) : bool :=
  match a, b with
  | DrvRadio, DrvRadio | DrvUsb, DrvUsb | DrvSerial, DrvSerial
  | DrvUdp, DrvUdp | DrvPrrt, DrvPrrt | DrvTcp, DrvTcp => true
  | _, _ => false
  end.

Definition scheme_prefix (d : driver) : str :=
  match d with
  | DrvRadio => s2l "radio://" | DrvUsb => s2l "usb://" | DrvSerial => s2l "serial://"
  | DrvUdp => s2l "udp://" | DrvPrrt => s2l "prrt://" | DrvTcp => s2l "tcp://"
  end.

(* the test after which a driver's connect() no longer raises WrongUriType *)
Definition claims (d : driver) (uri : str) : bool :=
  match d with
  | DrvUsb => startswith (scheme_prefix DrvUsb) uri &&
              (let r := skipn 6 uri in negb (is_nil r) && forallb is_digit r)   (* '^usb://([0-9]+)$' *)
  | _ => startswith (scheme_prefix d) uri
  end.

(* init_drivers without USE_CFLINK=cpp *)
Definition classes (enable_serial : bool) : list driver :=
  [DrvRadio; DrvUsb] ++ (if enable_serial then [DrvSerial] else []) ++ [DrvUdp; DrvPrrt; DrvTcp].

(* outcome of driverClass().connect(uri, ...): the environment decides whether a claimed URI can be
   opened (device present, host reachable ...); for the radio driver the URI must also parse *)
Inductive conn := CWrong | CRaise | COk.
Definition connect (serials : list str) (env : driver -> bool) (d : driver) (uri : str) : conn :=
  if negb (claims d uri) then CWrong else
  match d with
  | DrvRadio => match parse_uri serials uri with
                | PWrong => CWrong
                | PRaise _ => CRaise
                | POk _ _ _ _ _ => if env d then COk else CRaise
                end
  | _ => if env d then COk else CRaise
  end.

Inductive gld := GNone | GDriver (d : driver) | GRaise.
Fixpoint get_link_driver (serials : list str) (env : driver -> bool) (cls : list driver) (uri : str) : gld :=
  match cls with
  | [] => GNone
  | d :: r => match connect serials env d uri with
              | COk => GDriver d
              | CRaise => GRaise
              | CWrong => get_link_driver serials env r uri
              end
  end.

(* Crazyflie.open_link up to the point where connection setup starts: what the caller sees *)
Inductive cfcb := CbRequested | CbFailed.
Inductive olres :=
| OLinked (d : driver) (cbs : list cfcb)      (* link set, setup continues *)
| ONoLink (cbs : list cfcb)                   (* link is None *)
| OEscapes.                                   (* an exception leaves open_link *)
Definition open_link (serials : list str) (env : driver -> bool) (cls : list driver) (uri : str) : olres :=
  match get_link_driver serials env cls uri with
  | GDriver d => OLinked d [CbRequested]
  | GNone => ONoLink [CbRequested; CbFailed]
  | GRaise => ONoLink [CbRequested; CbFailed]        (* except Exception: ... connection_failed.call *)
  end.

(* settings handed to the shared radio by RadioDriver.connect *)
Inductive rcall := RSetChannel (c : Z) | RSetDataRate (r : Z) | RSetAddress (a : list Z) | RSetArc (n : Z).
Definition radio_connect_calls (serials : list str) (uri : str) : option (Z * list rcall) :=
  match parse_uri serials uri with
  | POk devid ch rate addr _ => Some (devid, [RSetChannel ch; RSetDataRate rate; RSetAddress addr; RSetArc 3])
  | _ => None
  end.

(* ---------------------------------------------------------------- uri_helper.address_from_env *)
(* Models the code WITH fixes/F20b.patch: the address is the third path component of urlparse(uri), the default
   when there is none; int(address, 16); ValueError => message on stderr and None.
   Only for URIs that start with "radio://" (urlsplit_radio). *)
Fixpoint hex_digits_acc (s : str) (acc : Z) (after_digit : bool) : option Z :=
  match s with
  | [] => if after_digit then Some acc else None
  | c :: r =>
      match hexval c with
      | Some d => hex_digits_acc r (16 * acc + d) true
      | None =>
          if Ascii.eqb c c_under && after_digit then
            match r with
            | d :: _ => match hexval d with Some _ => hex_digits_acc r acc false | None => None end
            | [] => None
            end
          else None
      end
  end.

(* "0x"/"0X" prefix, after which one underscore is allowed *)
Definition strip_0x (s : str) : str :=
  match s with
  | z :: x :: r =>
      if Ascii.eqb z c_zero && (Ascii.eqb x "x"%char || Ascii.eqb x "X"%char)
      then match r with u :: r' => if Ascii.eqb u c_under then r' else r | [] => r end
      else s
  | _ => s
  end.

(* Python int(s, 16) for printable ASCII; None = ValueError *)
Definition py_int16 (s : str) : option Z :=
  match strip c_space s with
  | [] => None
  | c :: r =>
      if Ascii.eqb c c_minus then option_map Z.opp (hex_digits_acc (strip_0x r) 0 false)
      else if Ascii.eqb c c_plus then hex_digits_acc (strip_0x r) 0 false
      else hex_digits_acc (strip_0x (c :: r)) 0 false
  end.

Inductive envres := EnvAddr (a : Z) | EnvNone | EnvRaise.
Definition address_from_env (uri : str) : envres :=
  match urlsplit_radio uri with
  | None => EnvRaise
  | Some (_, path, _) =>
      match split_on c_slash (strip c_slash path) with
      | _ :: _ :: a :: _ => match py_int16 a with Some v => EnvAddr v | None => EnvNone end
      | _ => EnvAddr DEFAULT_ADDR
      end
  end.

(* ---------------------------------------------------------------- the other drivers' URI parsers *)
(* UsbDriver.connect: '^usb://([0-9]+)$', CfUsb(devid=int(group 1)) *)
Inductive ures := UWrong | URaise | UOk (devid : Z).
Definition usb_parse (uri : str) : ures :=
  if claims DrvUsb uri then
    let ds := skipn 6 uri in
    if Nat.ltb max_str_digits (List.length ds) then URaise else UOk (horner 10 (map digit_val ds) 0)
  else UWrong.

(* SerialDriver.connect: '^serial://' claims, '^serial://([-a-zA-Z0-9/.]+)$' is a valid device name *)
Definition c_dot : ascii := "."%char.
Definition c_colon : ascii := ":"%char.
Definition c_at : ascii := "@"%char.
Definition is_alnum (c : ascii) : bool :=
  let k := code c in
  ((48 <=? k) && (k <=? 57)) || ((65 <=? k) && (k <=? 90)) || ((97 <=? k) && (k <=? 122)).
Definition serial_char (c : ascii) : bool :=
  is_alnum c || Ascii.eqb c c_minus || Ascii.eqb c c_slash || Ascii.eqb c c_dot.
Inductive sres := SWrong | SInvalid | SName (name : str).
Definition serial_parse (uri : str) : sres :=
  if startswith (scheme_prefix DrvSerial) uri then
    let r := skipn 9 uri in
    if negb (is_nil r) && forallb serial_char r then SName r else SInvalid
  else SWrong.

(* TcpDriver / UdpDriver: urlparse(uri).hostname / .port  (tcp: of uri.split(' ')[0]) *)
Definition lower_c (c : ascii) : ascii :=
  if (65 <=? code c) && (code c <=? 90) then chr (code c + 32) else c.
(* s.rpartition(c)[2] *)
Fixpoint after_last (c : ascii) (s : str) : str :=
  match s with
  | [] => []
  | x :: r => if has c r then after_last c r else if Ascii.eqb x c then r else s
  end.
Inductive nres := NWrong | NRaise | NOk (host : option str) (port : option Z).
Definition port_of (p : option str) : option (option Z) :=      (* None = ValueError *)
  match p with
  | None => Some None
  | Some [] => Some None
  | Some ds =>
      if forallb is_digit ds && negb (Nat.ltb max_str_digits (List.length ds)) then
        let v := horner 10 (map digit_val ds) 0 in
        if v <=? 65535 then Some (Some v) else None
      else None
  end.
Definition host_of (h : str) : option str :=
  match h with
  | [] => None
  | _ => let '(a, z) := break_at c_pct h in
         Some (map lower_c a ++ match z with Some zone => c_pct :: zone | None => [] end)
  end.
Definition net_parse (d : driver) (uri : str) : nres :=
  if negb (startswith (scheme_prefix d) uri) then NWrong else
  let u := match d with DrvTcp => fst (break_at c_space uri) | _ => uri end in
  let '(netloc, _) := span not_delim (skipn 6 u) in
  if xorb (has c_lbr netloc) (has c_rbr netloc) then NRaise else
  let hi := after_last c_at netloc in
  let '(h, p) := break_at c_colon hi in
  match port_of p with
  | None => NRaise
  | Some port => NOk (host_of h) port
  end.
Definition net_in_scope (uri : str) : bool :=
  forallb printable uri &&
  (let '(netloc, _) := span not_delim (skipn 6 (fst (break_at c_space uri))) in
   let '(netloc2, _) := span not_delim (skipn 6 uri) in
   negb (has c_lbr netloc && has c_rbr netloc) && negb (has c_lbr netloc2 && has c_rbr netloc2)).

(* ---------------------------------------------------------------- RadioDriver.scan_selected *)
(* re.search('^radio://([0-9]+)((/([0-9]+))(/(250K|1M|2M))?)?', link): group 4 = channel, group 6 = rate.
   No match => AttributeError (None.group); no channel => TypeError (int(None)); both leave the call before any
   probing.  The link's address field and dongle number are not used: the probes go out on the connected radio
   with ITS address. *)
Inductive selres := SelRaise | SelOk (channel rate : Z).
Definition sel_rate (r : str) : Z :=
  match r with
  | c :: r4 =>
      if Ascii.eqb c c_slash then
        if startswith (s2l "250K") r4 then 0 else if startswith (s2l "1M") r4 then 1
        else if startswith (s2l "2M") r4 then 2 else 2
      else 2
  | [] => 2
  end.
Definition sel_parse (link : str) : selres :=
  if negb (startswith radio_prefix link) then SelRaise else
  let '(ds, r1) := span is_digit (skipn 8 link) in
  if is_nil ds then SelRaise else
  match r1 with
  | c :: r2 =>
      if Ascii.eqb c c_slash then
        let '(cs, r3) := span is_digit r2 in
        if is_nil cs then SelRaise
        else if Nat.ltb max_str_digits (List.length cs) then SelRaise
        else SelOk (horner 10 (map digit_val cs) 0) (sel_rate r3)
      else SelRaise
  | [] => SelRaise
  end.

(* the (channel, rate) pairs probed for a list of links; None = the call raises *)
Fixpoint scan_selected_settings (links : list str) : option (list (Z * Z)) :=
  match links with
  | [] => Some []
  | l :: r => match sel_parse l, scan_selected_settings r with
              | SelOk ch rt, Some t => Some ((ch, rt) :: t)
              | _, _ => None
              end
  end.

(* what scan_selected reports for an answering (channel, rate): with fixes/F20c.patch the address that was probed
   (the connected link's) is appended when it is not the default, as scan_interface does; sel_uri_head is the
   unrepaired format *)
Definition sel_uri_head (ch rt : Z) : str := s2l "radio://0/" ++ dec ch ++ [c_slash] ++ rate_str rt.
Definition sel_uri (addr : list Z) (ch rt : Z) : str := scan_uri (Some (be_val addr)) ch rt.

(* air = (channel, rate, address) of the Crazyflies that answer; addr = address of the connected link *)
Definition z3_eqb (a b : Z * Z * list Z) : bool :=
  let '(c1, r1, a1) := a in let '(c2, r2, a2) := b in (c1 =? c2) && (r1 =? r2) && zlist_eqb a1 a2.
Definition answers (air : list (Z * Z * list Z)) (addr : list Z) (p : Z * Z) : bool :=
  existsb (z3_eqb (fst p, snd p, addr)) air.
Definition scan_selected (air : list (Z * Z * list Z)) (addr : list Z) (links : list str) : option (list str) :=
  match scan_selected_settings links with
  | None => None
  | Some ps => Some (map (fun p => sel_uri addr (fst p) (snd p)) (filter (answers air addr) ps))
  end.

(* what `x or DR_2MPS` does to a rate: 0 (DR_250KPS) is falsy *)
Definition falsy_or_2m (r : Z) : Z := if r =? 0 then 2 else r.

(* ---------------------------------------------------------------- histories of init_drivers calls *)
(* cflib.crtp.CLASSES is a module-level list; every init_drivers(enable_serial_driver=b) call APPENDS its drivers
   (a second call appends the same classes again; enable_debug_driver only logs a warning; USE_CFLINK other than
   'cpp' is the normal path).  get_link_driver walks the list in order, so a class listed twice is just tried twice. *)
Fixpoint init_from (cls : list driver) (calls : list bool) : list driver :=
  match calls with
  | [] => cls
  | b :: r => init_from (cls ++ classes b) r
  end.
Definition init_history (calls : list bool) : list driver := init_from [] calls.

(* the distinct driver classes of a list that claim the URI *)
Fixpoint dedup (l : list driver) : list driver :=
  match l with
  | [] => []
  | d :: r => if existsb (driver_eqb d) r then dedup r else d :: dedup r
  end.
Definition claimants (cls : list driver) (uri : str) : list driver := dedup (filter (fun d => claims d uri) cls).

(* ---------------------------------------------------------------- histories of open_link calls on one Crazyflie (Wave 16) *)
(* open_link has no guard on self.state: every call fires connection_requested, sets state INITIALIZED, and — when
   no driver claims the URI or the claimed driver raises — fires connection_failed.  close_link sets DISCONNECTED. *)
Inductive okind := KUnclaimed | KDriverRaises | KGood.
Inductive cstate := CDisconnected | CInitialized.
Definition open_cbs (k : okind) : list cfcb :=
  match k with KGood => [CbRequested] | _ => [CbRequested; CbFailed] end.
Definition open_step (s : cstate) (k : okind) : cstate * list cfcb := (CInitialized, open_cbs k).
(* the variant that ignores open_link unless the state is DISCONNECTED and resets it only in the except handler *)
Definition open_step_guarded (s : cstate) (k : okind) : cstate * list cfcb :=
  match s with
  | CDisconnected => (match k with KDriverRaises => CDisconnected | _ => CInitialized end, open_cbs k)
  | CInitialized => (s, [])
  end.
(* a history: each call with its kind and whether close_link() follows it *)
Fixpoint open_history (step : cstate -> okind -> cstate * list cfcb) (s : cstate) (h : list (okind * bool))
  : list (list cfcb) :=
  match h with
  | [] => []
  | (k, cl) :: r => let '(s', cbs) := step s k in cbs :: open_history step (if cl then CDisconnected else s') r
  end.
