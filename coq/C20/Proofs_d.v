(* C20/Proofs_d.v — scan round trip; scheme tests, get_link_driver, open_link. *)
From CF Require Import Common.Bytes C20.Model C20.Proofs_a C20.Proofs_b C20.Proofs_c.
From Coq Require Import ZifyBool.
Ltac Zify.zify_post_hook ::= Z.to_euclidean_division_equations.
Open Scope Z_scope.

(* ---------------------------------------------------------------- scan_interface *)
Definition scan_tail (address : option Z) (c r : Z) : tail :=
  match address with
  | None => TChRate c r
  | Some a => if a =? DEFAULT_ADDR then TChRate c r else TChRateAddr c r (hexX a)
  end.

Lemma scan_uri_fmt address c r : scan_uri address c r = fmt_uri (DNum 0) (scan_tail address c r) None.
Proof.
  unfold scan_uri, fmt_uri, scan_tail. cbn [fmt_dongle fmt_lim].
  change (dec 0) with [c_zero].
  change (s2l "radio://0/") with (radio_prefix ++ [c_zero] ++ [c_slash]).
  destruct address as [a|]; [destruct (a =? DEFAULT_ADDR)|]; cbn [fmt_tail];
    repeat rewrite <- app_assoc; cbn [app]; repeat rewrite app_nil_r; reflexivity.
Qed.

Definition addr_in_range (address : option Z) : Prop :=
  match address with None => True | Some a => 0 <= a < 2 ^ 40 end.
Definition scanned_address (address : option Z) : Z :=
  match address with None => DEFAULT_ADDR | Some a => a end.

Theorem scan_roundtrip serials address c r :
  0 <= c -> short c -> rate_ok r -> addr_in_range address ->
  parse_uri serials (scan_uri address c r) = POk 0 c r (be_bytes5 (scanned_address address)) None /\
  scan_radio_address address = option_map (fun a => AOk (be_bytes5 a)) address.
Proof.
  intros Hc Hsc Hr Ha. split.
  - rewrite scan_uri_fmt. rewrite (parse_fmt serials (DNum 0) (scan_tail address c r) None 0).
    + unfold scan_tail. destruct address as [a|]; [|reflexivity].
      destruct (a =? DEFAULT_ADDR) eqn:E.
      * apply Z.eqb_eq in E. subst a. reflexivity.
      * cbn [tail_channel tail_rate tail_address scanned_address].
        destruct (hexX_spec a Ha) as (-> & _). reflexivity.
    + cbn. lia.
    + unfold scan_tail. destruct address as [a|]; [|cbn; auto].
      destruct (a =? DEFAULT_ADDR); cbn [tail_ok]; [auto|].
      destruct (hexX_spec a Ha) as (Hv & Hl & _). repeat split; try assumption; try lia.
      unfold hex_val in Hv. destruct (hexdigits (hexX a)); [discriminate|discriminate Hv].
    + exact I.
    + unfold scan_tail. destruct address as [a|]; [destruct (a =? DEFAULT_ADDR)|]; exact Hsc.
    + exact I.
  - destruct address as [a|]; [|reflexivity]. cbn [scan_radio_address option_map].
    destruct (hexX_spec a Ha) as (Hv & Hl & _).
    destruct (addr_of_hex (hexX a) a Hl Hv) as [-> _]. reflexivity.
Qed.

Theorem scan_interface_roundtrip serials address f250 f1 f2 :
  Forall (fun c => 0 <= c /\ short c) (f250 ++ f1 ++ f2) -> addr_in_range address ->
  map (parse_uri serials) (scan_interface address f250 f1 f2) =
  let A := be_bytes5 (scanned_address address) in
  map (fun c => POk 0 c 0 A None) f250 ++ map (fun c => POk 0 c 1 A None) f1 ++ map (fun c => POk 0 c 2 A None) f2.
Proof.
  intros Hc Ha. cbv zeta. unfold scan_interface. rewrite !map_app, !map_map.
  apply Forall_app in Hc as [H0 Hc]. apply Forall_app in Hc as [H1 H2].
  f_equal; [|f_equal]; apply map_ext_in; intros c Hin.
  - rewrite Forall_forall in H0. destruct (H0 c Hin); apply scan_roundtrip; [assumption|assumption|now left|exact Ha].
  - rewrite Forall_forall in H1. destruct (H1 c Hin); apply scan_roundtrip; [assumption|assumption|right; now left|exact Ha].
  - rewrite Forall_forall in H2. destruct (H2 c Hin); apply scan_roundtrip; [assumption|assumption|right; now right|exact Ha].
Qed.

(* ---------------------------------------------------------------- scheme tests *)
Lemma claims_prefix d uri : claims d uri = true -> startswith (scheme_prefix d) uri = true.
Proof.
  destruct d; cbn [claims]; try (intros H; exact H).
  intros H. apply andb_true_iff in H as [H _]. exact H.
Qed.

Theorem claims_exclusive d1 d2 uri : claims d1 uri = true -> claims d2 uri = true -> d1 = d2.
Proof.
  intros H1 H2. apply claims_prefix in H1, H2.
  destruct (startswith_both _ _ _ H1 H2) as [H|H]; destruct d1, d2; try reflexivity; discriminate H.
Qed.

Lemma claims_own_prefix d rest : d <> DrvUsb -> claims d (scheme_prefix d ++ rest) = true.
Proof. intros Hd. destruct d; try congruence; cbn [claims]; apply startswith_app. Qed.

Lemma claims_usb n : 0 <= n -> claims DrvUsb (scheme_prefix DrvUsb ++ dec n) = true.
Proof.
  intros Hn. cbn [claims]. rewrite startswith_app. rewrite skipn_app_exact by reflexivity.
  rewrite (is_nil_false _ (dec_nonnil n Hn)).
  destruct (dec_spec n Hn) as (l & -> & Hl & _). destruct (map_dec_char_props l Hl) as (-> & _). reflexivity.
Qed.

Lemma parse_uri_wrong_iff serials uri : parse_uri serials uri = PWrong <-> startswith radio_prefix uri = false.
Proof.
  unfold parse_uri. destruct (startswith radio_prefix uri); cbn [negb]; split; intros H;
    try reflexivity; try discriminate.
  repeat match type of H with
         | context [match ?x with _ => _ end] => destruct x
         end; discriminate.
Qed.

Lemma connect_wrong_iff serials env d uri : connect serials env d uri = CWrong <-> claims d uri = false.
Proof.
  unfold connect. destruct (claims d uri) eqn:E; cbn [negb]; split; intros H; try reflexivity; try discriminate.
  destruct d; try (destruct (env _); discriminate).
  destruct (parse_uri serials uri) eqn:P; try (destruct (env _); discriminate); try discriminate.
  apply parse_uri_wrong_iff in P. cbn [claims scheme_prefix] in E. fold radio_prefix in E. congruence.
Qed.

Definition conn_result (d : driver) (c : conn) : gld :=
  match c with COk => GDriver d | CRaise => GRaise | CWrong => GNone end.

Theorem get_link_driver_first serials env cls uri :
  get_link_driver serials env cls uri =
  match find (fun d => claims d uri) cls with
  | None => GNone
  | Some d => conn_result d (connect serials env d uri)
  end.
Proof.
  induction cls as [|d cls IH]; [reflexivity|]. cbn [get_link_driver find].
  destruct (claims d uri) eqn:E.
  - destruct (connect serials env d uri) eqn:C; try reflexivity.
    apply connect_wrong_iff in C. congruence.
  - apply connect_wrong_iff with (serials := serials) (env := env) in E. rewrite E. exact IH.
Qed.

(* the driver selected is the only one in the whole list that claims the URI *)
Theorem get_link_driver_unique serials env cls uri d :
  get_link_driver serials env cls uri = GDriver d ->
  In d cls /\ claims d uri = true /\ forall d', claims d' uri = true -> d' = d.
Proof.
  rewrite get_link_driver_first. destruct (find _ cls) as [d0|] eqn:F; [|discriminate].
  apply find_some in F as [Hin Hc]. intros H.
  assert (d0 = d) by (destruct (connect serials env d0 uri); cbn in H; congruence). subst d0.
  repeat split; try assumption. intros d' Hd'. eapply claims_exclusive; eassumption.
Qed.

Theorem unclaimed_no_driver serials env cls uri :
  (forall d, In d cls -> claims d uri = false) -> get_link_driver serials env cls uri = GNone.
Proof.
  intros H. rewrite get_link_driver_first. destruct (find _ cls) as [d|] eqn:F; [|reflexivity].
  apply find_some in F as [Hin Hc]. rewrite (H d Hin) in Hc. discriminate.
Qed.

Theorem unknown_scheme_no_driver serials env cls uri :
  (forall d, startswith (scheme_prefix d) uri = false) -> get_link_driver serials env cls uri = GNone.
Proof.
  intros H. apply unclaimed_no_driver. intros d _.
  destruct (claims d uri) eqn:E; [|reflexivity]. apply claims_prefix in E. rewrite H in E. discriminate.
Qed.

Theorem claimed_driver_selected serials env cls uri d :
  In d cls -> claims d uri = true ->
  get_link_driver serials env cls uri = conn_result d (connect serials env d uri).
Proof.
  intros Hin Hc. rewrite get_link_driver_first. destruct (find _ cls) as [d0|] eqn:F.
  - apply find_some in F as [_ Hc0]. now rewrite (claims_exclusive _ _ _ Hc0 Hc).
  - eapply find_none in F; [|exact Hin]. cbv beta in F. congruence.
Qed.

(* ---------------------------------------------------------------- open_link *)
Theorem open_link_total serials env cls uri :
  open_link serials env cls uri <> OEscapes /\
  (forall cbs, open_link serials env cls uri = ONoLink cbs -> cbs = [CbRequested; CbFailed]) /\
  (forall d cbs, open_link serials env cls uri = OLinked d cbs ->
     cbs = [CbRequested] /\ get_link_driver serials env cls uri = GDriver d).
Proof.
  unfold open_link. destruct (get_link_driver serials env cls uri); repeat split;
    try discriminate; intros; congruence.
Qed.

Theorem no_driver_connection_failed serials env cls uri :
  (forall d, get_link_driver serials env cls uri <> GDriver d) ->
  open_link serials env cls uri = ONoLink [CbRequested; CbFailed].
Proof.
  intros H. unfold open_link. destruct (get_link_driver serials env cls uri) as [|d|]; try reflexivity.
  now destruct (H d).
Qed.

Theorem malformed_radio_uri_refused serials env es uri e :
  parse_uri serials uri = PRaise e ->
  get_link_driver serials env (classes es) uri = GRaise /\
  open_link serials env (classes es) uri = ONoLink [CbRequested; CbFailed].
Proof.
  intros P.
  assert (Hc : claims DrvRadio uri = true).
  { cbn [claims scheme_prefix]. fold radio_prefix.
    destruct (startswith radio_prefix uri) eqn:E; [reflexivity|].
    apply parse_uri_wrong_iff with (serials := serials) in E. congruence. }
  assert (G : get_link_driver serials env (classes es) uri = GRaise).
  { rewrite (claimed_driver_selected serials env (classes es) uri DrvRadio); [|now left|exact Hc].
    unfold connect. rewrite Hc, P. reflexivity. }
  split; [exact G|]. unfold open_link. now rewrite G.
Qed.
