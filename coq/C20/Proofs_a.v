(* C20/Proofs_a.v — generic lemmas: characters, digit lists, string splitting. *)
From CF Require Import Common.Bytes C20.Model.
From Coq Require Import ZifyBool.
Ltac Zify.zify_post_hook ::= Z.to_euclidean_division_equations.
Open Scope Z_scope.

(* ---------------------------------------------------------------- characters *)
Lemma code_chr z : 0 <= z < 256 -> code (chr z) = z.
Proof.
  intros H. unfold code, chr. rewrite N_ascii_embedding.
  - lia.
  - apply N2Z.inj_lt. rewrite Z2N.id by lia. simpl. lia.
Qed.

Lemma aeqb_refl c : Ascii.eqb c c = true.
Proof. apply Ascii.eqb_refl. Qed.

Lemma aeqb_code a b : Ascii.eqb a b = (code a =? code b).
Proof.
  destruct (Ascii.eqb_spec a b) as [->|Hne].
  - symmetry. apply Z.eqb_refl.
  - symmetry. apply Z.eqb_neq. intros H. apply Hne.
    unfold code in H. apply N2Z.inj in H.
    rewrite <- (ascii_N_embedding a), <- (ascii_N_embedding b). now rewrite H.
Qed.

Lemma code_range c : 0 <= code c < 256.
Proof. unfold code. pose proof (N_ascii_bounded c). lia. Qed.

(* ---------------------------------------------------------------- horner / digit lists *)
Fixpoint le_sum (b : Z) (l : list Z) : Z :=
  match l with [] => 0 | d :: r => d + b * le_sum b r end.

Lemma horner_app b l1 l2 acc : horner b (l1 ++ l2) acc = horner b l2 (horner b l1 acc).
Proof. unfold horner. apply fold_left_app. Qed.

Lemma horner_cons b d l acc : horner b (d :: l) acc = horner b l (b * acc + d).
Proof. reflexivity. Qed.

Lemma horner_rev b l : horner b (rev l) 0 = le_sum b l.
Proof.
  induction l as [|d l IH]; [reflexivity|].
  cbn [rev le_sum]. rewrite horner_app, IH. unfold horner. cbn [fold_left]. lia.
Qed.

Definition digits_in (b : Z) (l : list Z) : Prop := Forall (fun d => 0 <= d < b) l.

Lemma to_le_spec b : 2 <= b -> forall f n, 0 <= n < 2 ^ Z.of_nat f ->
  digits_in b (to_le b f n) /\ le_sum b (to_le b f n) = n.
Proof.
  intros Hb f. induction f as [|f IH]; intros n Hn.
  - simpl in Hn. assert (n = 0) by lia. subst. split; [constructor|reflexivity].
  - cbn [to_le]. destruct (n <? b) eqn:E.
    + split.
      * constructor; [lia|constructor].
      * cbn. lia.
    + assert (Hq : 0 <= n / b < 2 ^ Z.of_nat f).
      { rewrite Nat2Z.inj_succ, Z.pow_succ_r in Hn by lia.
        split; [apply Z.div_pos; lia|].
        apply Z.div_lt_upper_bound; [lia|]. nia. }
      destruct (IH _ Hq) as (H1 & H2).
      split.
      * constructor; [|exact H1]. apply Z.mod_pos_bound. lia.
      * cbn [le_sum]. rewrite H2. pose proof (Z.div_mod n b). lia.
Qed.

Lemma to_le_nonnil b f n : to_le b (S f) n <> [].
Proof. cbn [to_le]. destruct (n <? b); discriminate. Qed.

Lemma to_le_length b : 2 <= b -> forall f n k, 0 <= n < b ^ Z.of_nat k -> (1 <= k)%nat ->
  (List.length (to_le b f n) <= k)%nat.
Proof.
  intros Hb f. induction f as [|f IH]; intros n k Hn Hk.
  - simpl. lia.
  - cbn [to_le]. destruct (n <? b) eqn:E.
    + simpl. lia.
    + destruct k as [|k]; [lia|].
      cbn [List.length].
      rewrite Nat2Z.inj_succ, Z.pow_succ_r in Hn by lia.
      assert (k <> 0)%nat. { intros ->. simpl in Hn. lia. }
      apply le_n_S. apply IH; [|lia].
      split; [apply Z.div_pos; lia|].
      apply Z.div_lt_upper_bound; [lia|]. lia.
Qed.

Lemma digits_of_spec b n : 2 <= b -> 0 <= n ->
  digits_in b (digits_of b n) /\ horner b (digits_of b n) 0 = n /\ digits_of b n <> [].
Proof.
  intros Hb Hn. unfold digits_of.
  assert (Hr : 0 <= n < 2 ^ Z.of_nat (S (Z.to_nat (Z.log2 n)))).
  { rewrite Nat2Z.inj_succ, Z2Nat.id by apply Z.log2_nonneg.
    split; [lia|]. destruct (Z.eq_dec n 0) as [->|]; [reflexivity|].
    apply Z.log2_spec. lia. }
  destruct (to_le_spec b Hb _ _ Hr) as (H1 & H2).
  pose proof (to_le_nonnil b (Z.to_nat (Z.log2 n)) n) as H3.
  repeat split.
  - unfold digits_in. apply Forall_rev. exact H1.
  - rewrite horner_rev. exact H2.
  - intros E. apply H3. apply (f_equal (@rev Z)) in E. now rewrite rev_involutive in E.
Qed.

Lemma digits_of_length b n k : 2 <= b -> 0 <= n < b ^ Z.of_nat k -> (1 <= k)%nat ->
  (List.length (digits_of b n) <= k)%nat.
Proof.
  intros Hb Hn Hk. unfold digits_of. rewrite rev_length. now apply to_le_length.
Qed.

(* ---------------------------------------------------------------- has / span / break / split / strip *)
Lemma has_app c a b : has c (a ++ b) = has c a || has c b.
Proof. unfold has. apply existsb_app. Qed.

Lemma has_cons c x s : has c (x :: s) = Ascii.eqb c x || has c s.
Proof. reflexivity. Qed.

Lemma has_false_forall c s : has c s = false <-> Forall (fun x => Ascii.eqb x c = false) s.
Proof.
  induction s as [|x s IH]; cbn.
  - split; [constructor|reflexivity].
  - rewrite orb_false_iff, IH. rewrite (Ascii.eqb_sym c x). split.
    + intros [H1 H2]. now constructor.
    + intros H. inversion H; subst. now split.
Qed.

Lemma span_app f a c r : forallb f a = true -> f c = false -> span f (a ++ c :: r) = (a, c :: r).
Proof.
  intros Ha Hc. induction a as [|x a IH]; cbn.
  - now rewrite Hc.
  - cbn in Ha. apply andb_true_iff in Ha as [Hx Ha]. rewrite Hx, (IH Ha). reflexivity.
Qed.

Lemma span_all f a : forallb f a = true -> span f a = (a, []).
Proof.
  intros Ha. induction a as [|x a IH]; cbn; [reflexivity|].
  cbn in Ha. apply andb_true_iff in Ha as [Hx Ha]. rewrite Hx, (IH Ha). reflexivity.
Qed.

Lemma break_at_none c s : has c s = false -> break_at c s = (s, None).
Proof.
  induction s as [|x s IH]; cbn; [reflexivity|].
  rewrite orb_false_iff. intros [H1 H2]. rewrite (Ascii.eqb_sym x c), H1, (IH H2). reflexivity.
Qed.

Lemma break_at_app c a r : has c a = false -> break_at c (a ++ c :: r) = (a, Some r).
Proof.
  induction a as [|x a IH]; cbn.
  - now rewrite aeqb_refl.
  - rewrite orb_false_iff. intros [H1 H2]. rewrite (Ascii.eqb_sym x c), H1, (IH H2). reflexivity.
Qed.

Lemma split_on_none c s : has c s = false -> split_on c s = [s].
Proof.
  induction s as [|x s IH]; cbn; [reflexivity|].
  rewrite orb_false_iff. intros [H1 H2]. rewrite (Ascii.eqb_sym x c), H1, (IH H2). reflexivity.
Qed.

Lemma split_on_app c a r : has c a = false -> split_on c (a ++ c :: r) = a :: split_on c r.
Proof.
  induction a as [|x a IH]; cbn.
  - now rewrite aeqb_refl.
  - rewrite orb_false_iff. intros [H1 H2]. rewrite (Ascii.eqb_sym x c), H1, (IH H2). reflexivity.
Qed.

Lemma lstrip_head c x s : Ascii.eqb x c = false -> lstrip c (x :: s) = x :: s.
Proof. intros H. cbn. now rewrite H. Qed.

Lemma lstrip_skip c s : lstrip c (c :: s) = lstrip c s.
Proof. cbn. now rewrite aeqb_refl. Qed.

Lemma rstrip_none c s : has c s = false -> rstrip c s = s.
Proof.
  induction s as [|x s IH]; cbn; [reflexivity|].
  rewrite orb_false_iff. intros [H1 H2]. rewrite (IH H2).
  destruct s; [now rewrite (Ascii.eqb_sym x c), H1|reflexivity].
Qed.

Lemma rstrip_app c a b : b <> [] -> rstrip c b = b -> rstrip c (a ++ b) = a ++ b.
Proof.
  intros Hb Hr. induction a as [|x a IH]; cbn; [exact Hr|].
  rewrite IH. destruct (a ++ b) eqn:E; [|reflexivity].
  apply app_eq_nil in E as [_ E]. contradiction.
Qed.

Lemma rstrip_single c : rstrip c [c] = [].
Proof. cbn. now rewrite aeqb_refl. Qed.

Lemma startswith_app p s : startswith p (p ++ s) = true.
Proof. induction p as [|x p IH]; cbn; [reflexivity|]. now rewrite aeqb_refl, IH. Qed.

Lemma startswith_both p q s : startswith p s = true -> startswith q s = true ->
  startswith p q = true \/ startswith q p = true.
Proof.
  revert q s. induction p as [|x p IH]; intros q s Hp Hq; [now left|].
  destruct q as [|y q]; [now right|].
  destruct s as [|z s]; [discriminate|].
  cbn in Hp, Hq. apply andb_true_iff in Hp as [Hx Hp]. apply andb_true_iff in Hq as [Hy Hq].
  apply Ascii.eqb_eq in Hx, Hy. subst. cbn. rewrite aeqb_refl. cbn.
  eapply IH; eassumption.
Qed.

Lemma skipn_app_exact {A} (p s : list A) n : List.length p = n -> skipn n (p ++ s) = s.
Proof. intros <-. induction p; [reflexivity|]. exact IHp. Qed.

Lemma str_eqb_refl s : str_eqb s s = true.
Proof. induction s as [|x s IH]; cbn; [reflexivity|]. now rewrite aeqb_refl. Qed.

Lemma str_eqb_eq a b : str_eqb a b = true <-> a = b.
Proof.
  revert b. induction a as [|x a IH]; intros [|y b]; cbn; split; intros H;
    try reflexivity; try discriminate.
  - apply andb_true_iff in H as [H1 H2]. apply Ascii.eqb_eq in H1. apply IH in H2. congruence.
  - injection H as -> ->. rewrite aeqb_refl. cbn. now apply IH.
Qed.
