(* C20/Property.v — property C20 (link URIs select the right driver and parse to the right radio settings).
   Theorems only; each is closed by `exact <lemma of Proofs_*.v>` and followed by Print Assumptions.
   The model (C20/Model.v) describes the code with fixes/F20.patch, F20b.patch and F20c.patch applied. *)
From CF Require Import Common.Bytes C20.Model C20.Proofs_a C20.Proofs_b C20.Proofs_c C20.Proofs_d C20.Proofs_e C20.Proofs_f C20.Proofs_g C20.Proofs_h C20.Proofs_i.
Open Scope Z_scope.

(* Every well-formed radio URI parses to exactly what it names.  Dongle: a number below 10^9 or a serial
   number found (upper-cased) in the list of attached dongles, whose index is the id.  Tail: nothing, "/",
   "/ch", "/ch/rate", "/ch/rate/addr" with ch any non-negative integer (so 0..125), rate 250K|1M|2M, addr 1..10
   hex digits in either case; omitted fields default to channel 2, 2M, E7E7E7E7E7.  Optional ?rate_limit=n. *)
Theorem C20_parse_format : forall serials d t l devid,
  dongle_ok serials d devid -> tail_ok t -> lim_ok l -> tail_short t -> lim_short l ->
  parse_uri serials (fmt_uri d t l) = POk devid (tail_channel t) (tail_rate t) (tail_address t) l.
Proof. exact parse_fmt. Qed.
Print Assumptions C20_parse_format.

(* The address field: 1..10 hex digits of value v (< 16^digits) give the five bytes of v, most significant
   first, i.e. the text is zero-padded on the left. *)
Theorem C20_address_padded_msb_first : forall a v,
  (1 <= List.length a <= 10)%nat -> hex_val a = Some v ->
  addr_of a = AOk (be_bytes5 v) /\ 0 <= v < 16 ^ Z.of_nat (List.length a).
Proof. exact addr_of_hex. Qed.
Print Assumptions C20_address_padded_msb_first.

(* URIs reported by a scan (any channel, the three rates, no address / the default address / any 40-bit
   address) parse back to dongle 0, that channel, rate and address; the address handed to the radio while
   scanning is the same five bytes. *)
Theorem C20_scan_parse_roundtrip : forall serials address c r,
  0 <= c -> short c -> rate_ok r -> addr_in_range address ->
  parse_uri serials (scan_uri address c r) = POk 0 c r (be_bytes5 (scanned_address address)) None /\
  scan_radio_address address = option_map (fun a => AOk (be_bytes5 a)) address.
Proof. exact scan_roundtrip. Qed.
Print Assumptions C20_scan_parse_roundtrip.

Theorem C20_scan_interface_roundtrip : forall serials address f250 f1 f2,
  Forall (fun c => 0 <= c /\ short c) (f250 ++ f1 ++ f2) -> addr_in_range address ->
  map (parse_uri serials) (scan_interface address f250 f1 f2) =
  let A := be_bytes5 (scanned_address address) in
  map (fun c => POk 0 c 0 A None) f250 ++ map (fun c => POk 0 c 1 A None) f1 ++ map (fun c => POk 0 c 2 A None) f2.
Proof. exact scan_interface_roundtrip. Qed.
Print Assumptions C20_scan_interface_roundtrip.

(* No URI passes the scheme test of two different drivers ... *)
Theorem C20_scheme_exclusive : forall d1 d2 uri, claims d1 uri = true -> claims d2 uri = true -> d1 = d2.
Proof. exact claims_exclusive. Qed.
Print Assumptions C20_scheme_exclusive.

(* ... and each scheme is claimed by its driver (the USB driver wants usb://<digits>). *)
Theorem C20_scheme_claimed : forall d rest, d <> DrvUsb -> claims d (scheme_prefix d ++ rest) = true.
Proof. exact claims_own_prefix. Qed.
Print Assumptions C20_scheme_claimed.

Theorem C20_scheme_claimed_usb : forall n, 0 <= n -> claims DrvUsb (scheme_prefix DrvUsb ++ dec n) = true.
Proof. exact claims_usb. Qed.
Print Assumptions C20_scheme_claimed_usb.

(* get_link_driver over any driver list (with/without the serial driver, any order): the driver returned is
   in the list and is the only driver at all that claims the URI; a claimed URI is handled by its driver only
   (connected, or its exception propagates); nobody claims => None. *)
Theorem C20_dispatch_unique : forall serials env cls uri d,
  get_link_driver serials env cls uri = GDriver d ->
  In d cls /\ claims d uri = true /\ forall d', claims d' uri = true -> d' = d.
Proof. exact get_link_driver_unique. Qed.
Print Assumptions C20_dispatch_unique.

Theorem C20_dispatch_claimed : forall serials env cls uri d,
  In d cls -> claims d uri = true ->
  get_link_driver serials env cls uri = conn_result d (connect serials env d uri).
Proof. exact claimed_driver_selected. Qed.
Print Assumptions C20_dispatch_claimed.

Theorem C20_unknown_scheme_no_driver : forall serials env cls uri,
  (forall d, startswith (scheme_prefix d) uri = false) -> get_link_driver serials env cls uri = GNone.
Proof. exact unknown_scheme_no_driver. Qed.
Print Assumptions C20_unknown_scheme_no_driver.

(* open_link: no exception escapes; without a link connection_failed is called exactly once (after
   connection_requested); with a link it is not called and the link is the selected driver. *)
Theorem C20_open_link_never_raises : forall serials env cls uri,
  open_link serials env cls uri <> OEscapes /\
  (forall cbs, open_link serials env cls uri = ONoLink cbs -> cbs = [CbRequested; CbFailed]) /\
  (forall d cbs, open_link serials env cls uri = OLinked d cbs ->
     cbs = [CbRequested] /\ get_link_driver serials env cls uri = GDriver d).
Proof. exact open_link_total. Qed.
Print Assumptions C20_open_link_never_raises.

Theorem C20_no_driver_connection_failed : forall serials env cls uri,
  (forall d, get_link_driver serials env cls uri <> GDriver d) ->
  open_link serials env cls uri = ONoLink [CbRequested; CbFailed].
Proof. exact no_driver_connection_failed. Qed.
Print Assumptions C20_no_driver_connection_failed.

(* a radio URI that does not parse (bad channel, address, rate limit, unknown serial) yields no driver and
   one connection_failed, with or without the serial driver enabled *)
Theorem C20_malformed_radio_uri_refused : forall serials env es uri e,
  parse_uri serials uri = PRaise e ->
  get_link_driver serials env (classes es) uri = GRaise /\
  open_link serials env (classes es) uri = ONoLink [CbRequested; CbFailed].
Proof. exact malformed_radio_uri_refused. Qed.
Print Assumptions C20_malformed_radio_uri_refused.

(* uri_helper.address_from_env (the library's second URI parser) returns, for every well-formed URI in CFLIB_URI,
   the very address parse_uri returns (as an integer): also with omitted fields (default) and query options *)
Theorem C20_env_address_consistent : forall serials d t l devid,
  dongle_ok serials d devid -> tail_ok t -> lim_ok l ->
  address_from_env (fmt_uri d t l) = EnvAddr (be_val (tail_address t)).
Proof. exact address_from_env_fmt. Qed.
Print Assumptions C20_env_address_consistent.

(* ---- growth round.  `short n` = n has at most 4300 decimal digits (CPython's int-string limit, modelled: longer
   fields raise ValueError); e.g. every n < 10^k with k <= 4300: *)
Theorem C20_short_small : forall n k, 0 <= n < 10 ^ Z.of_nat k -> (1 <= k <= max_str_digits)%nat -> short n.
Proof. exact short_small. Qed.
Print Assumptions C20_short_small.

(* query strings: any list of name=value fields (characters other than & = + % #): unknown names are ignored,
   empty values skipped, the first value of a repeated name wins (percent escapes and '+' are modelled in
   Model.unquote / plus_to_space and compared with CPython by the tie) *)
Theorem C20_query_fields : forall key fs, Forall (fun f => tok (fst f) /\ tok (snd f)) fs ->
  qs_get key (join_fields fs) = first_value key fs.
Proof. exact qs_get_fields. Qed.
Print Assumptions C20_query_fields.

(* usb://<digits>: parses to exactly that number; and nothing else is accepted *)
Theorem C20_usb_wellformed : forall n, 0 <= n -> short n -> usb_parse (scheme_prefix DrvUsb ++ dec n) = UOk n.
Proof. exact usb_parse_wellformed. Qed.
Print Assumptions C20_usb_wellformed.

Theorem C20_usb_only_wellformed : forall uri d, usb_parse uri = UOk d ->
  exists ds, uri = scheme_prefix DrvUsb ++ ds /\ ds <> [] /\ forallb is_digit ds = true /\
             d = horner 10 (map digit_val ds) 0.
Proof. exact usb_parse_only_wellformed. Qed.
Print Assumptions C20_usb_only_wellformed.

(* serial://<name>: the name is taken iff it is non-empty and made of [-a-zA-Z0-9/.]; otherwise "Invalid serial URI" *)
Theorem C20_serial_parse : forall name,
  serial_parse (scheme_prefix DrvSerial ++ name) =
  if negb (is_nil name) && forallb serial_char name then SName name else SInvalid.
Proof. exact serial_parse_spec. Qed.
Print Assumptions C20_serial_parse.

Theorem C20_serial_only_wellformed : forall uri name, serial_parse uri = SName name ->
  uri = scheme_prefix DrvSerial ++ name /\ name <> [] /\ forallb serial_char name = true.
Proof. exact serial_parse_only_wellformed. Qed.
Print Assumptions C20_serial_only_wellformed.

(* tcp://host:port and udp://host:port: exactly the host (lower-cased by urlparse) and the port; port > 65535 is a
   ValueError (=> connection_failed, C20_open_link_never_raises) *)
Theorem C20_net_wellformed : forall d h n, net_driver d -> h <> [] -> forallb hostc h = true -> 0 <= n -> short n ->
  net_parse d (scheme_prefix d ++ h ++ c_colon :: dec n) =
  if n <=? 65535 then NOk (Some (map lower_c h)) (Some n) else NRaise.
Proof. exact net_parse_wellformed. Qed.
Print Assumptions C20_net_wellformed.

Theorem C20_net_wrong_scheme : forall d uri, startswith (scheme_prefix d) uri = false -> net_parse d uri = NWrong.
Proof. exact net_parse_wrong_scheme. Qed.
Print Assumptions C20_net_wrong_scheme.

(* ---- RadioDriver.scan_selected (model of the code with fixes/F20c.patch) *)

(* a well-formed link (as parse_uri understands it, with a channel) is probed on exactly the channel and rate that
   parse_uri returns for it: omitted rate = 2M, 250K = rate 0; address, dongle and query are not used for probing *)
Theorem C20_scan_selected_link : forall serials n t l,
  0 <= n < 10 ^ 9 -> has_channel t = true -> tail_ok t -> lim_ok l -> tail_short t -> lim_short l ->
  sel_parse (fmt_uri (DNum n) t l) = SelOk (tail_channel t) (tail_rate t) /\
  parse_uri serials (fmt_uri (DNum n) t l) = POk n (tail_channel t) (tail_rate t) (tail_address t) l.
Proof. exact sel_parse_fmt. Qed.
Print Assumptions C20_scan_selected_link.

(* for every list of such links the list of (channel, rate) probed equals map parse_uri *)
Theorem C20_scan_selected_settings : forall serials specs, Forall link_ok specs ->
  scan_selected_settings (map link_of specs) = Some (map (fun s => pr_pair (parse_uri serials (link_of s))) specs).
Proof. exact scan_selected_settings_spec. Qed.
Print Assumptions C20_scan_selected_settings.

(* the report: one URI per probed pair on which a Crazyflie answers at the probed address, in order ... *)
Theorem C20_scan_selected_reports : forall air addr links ps, scan_selected_settings links = Some ps ->
  scan_selected air addr links = Some (map (fun p => sel_uri addr (fst p) (snd p)) (filter (answers air addr) ps)).
Proof. exact scan_selected_reports. Qed.
Print Assumptions C20_scan_selected_reports.

(* ... each of which parses back to the probed channel, rate and address (the connected link's) *)
Theorem C20_scan_selected_roundtrip : forall serials addr ch rt,
  List.length addr = 5%nat -> bytes addr -> 0 <= ch -> short ch -> rate_ok rt ->
  parse_uri serials (sel_uri addr ch rt) = POk 0 ch rt addr None.
Proof. exact sel_uri_roundtrip. Qed.
Print Assumptions C20_scan_selected_roundtrip.

(* refutations: (1) "rate or DR_2MPS" as default turns 250K (= 0) into 2M; (2) the unrepaired report format
   'radio://0/<ch>/<rate>' parses back to the default address, not the probed one (finding F20c) *)
Theorem C20_falsy_default_refuted :
  sel_parse (s2l "radio://0/100/250K") = SelOk 100 0 /\ falsy_or_2m 0 = 2 /\ falsy_or_2m 0 <> 0.
Proof. exact falsy_default_refuted. Qed.
Print Assumptions C20_falsy_default_refuted.

Theorem C20_scan_selected_head_format_refuted :
  exists addr ch rt, parse_uri [] (sel_uri_head ch rt) = POk 0 ch rt default_addr None /\ addr <> default_addr /\
                     parse_uri [] (sel_uri addr ch rt) = POk 0 ch rt addr None.
Proof. exact scan_selected_head_format_refuted. Qed.
Print Assumptions C20_scan_selected_head_format_refuted.

(* ---- Wave 11: histories of init_drivers calls.  cflib.crtp.CLASSES is a module-level list and every
   init_drivers(enable_serial_driver=b) call appends to it (`init_history calls`, calls = the b's in order; a class may
   be listed more than once, so "claimed by exactly one driver" is stated on the distinct classes: `claimants`). *)

(* after ANY history containing an enabling call a serial URI is handled by SerialDriver, and by that class only *)
Theorem C20_history_serial_enabled : forall serials env calls uri,
  existsb (fun b => b) calls = true -> claims DrvSerial uri = true ->
  get_link_driver serials env (init_history calls) uri = conn_result DrvSerial (connect serials env DrvSerial uri) /\
  claimants (init_history calls) uri = [DrvSerial].
Proof. exact history_serial_enabled. Qed.
Print Assumptions C20_history_serial_enabled.

(* without an enabling call the optional driver is absent: nobody claims a serial URI, no driver *)
Theorem C20_history_serial_not_enabled : forall serials env calls uri,
  existsb (fun b => b) calls = false -> claims DrvSerial uri = true ->
  get_link_driver serials env (init_history calls) uri = GNone /\ claimants (init_history calls) uri = [].
Proof. exact history_serial_not_enabled. Qed.
Print Assumptions C20_history_serial_not_enabled.

(* every other scheme is unaffected by the history: after any non-empty history, its driver and only that class *)
Theorem C20_history_other_schemes : forall serials env calls uri d,
  calls <> [] -> d <> DrvSerial -> claims d uri = true ->
  get_link_driver serials env (init_history calls) uri = conn_result d (connect serials env d uri) /\
  claimants (init_history calls) uri = [d].
Proof. exact history_other_schemes. Qed.
Print Assumptions C20_history_other_schemes.

Theorem C20_history_at_most_one_class : forall calls uri, (List.length (claimants (init_history calls) uri) <= 1)%nat.
Proof. exact history_at_most_one_class. Qed.
Print Assumptions C20_history_at_most_one_class.

(* refutation of an "already initialised" guard: init_drivers() then init_drivers(enable_serial_driver=True) must give
   serial its driver; ignoring the second call leaves it with none *)
Theorem C20_guarded_init_refuted :
  exists uri, claims DrvSerial uri = true /\
    claimants (init_history [false; true]) uri = [DrvSerial] /\
    claimants (init_history [false]) uri = [].
Proof. exact guarded_init_refuted. Qed.
Print Assumptions C20_guarded_init_refuted.

(* ---- Wave 16: histories of open_link calls on ONE Crazyflie object (open_link has no state guard). *)
Theorem C20_open_history_every_call_notifies : forall h s,
  open_history open_step s h = map (fun kc => open_cbs (fst kc)) h.
Proof. exact open_history_every_call_notifies. Qed.
Print Assumptions C20_open_history_every_call_notifies.

(* every call with an unclaimed or unparsable URI yields exactly connection_requested + connection_failed, whatever
   came before *)
Theorem C20_bad_uri_always_notified : forall h s i k cl, nth_error h i = Some (k, cl) -> k <> KGood ->
  nth_error (open_history open_step s h) i = Some [CbRequested; CbFailed].
Proof. exact bad_uri_always_notified. Qed.
Print Assumptions C20_bad_uri_always_notified.

Theorem C20_state_guard_refuted :
  exists h i, nth_error h i = Some (KUnclaimed, false) /\
    nth_error (open_history open_step_guarded CDisconnected h) i = Some [] /\
    nth_error (open_history open_step CDisconnected h) i = Some [CbRequested; CbFailed].
Proof. exact state_guard_refuted. Qed.
Print Assumptions C20_state_guard_refuted.
