(* C16/Model.v — executable model of the lighthouse system aligner and scaler.

   Sources modelled (cflib/localization):
     lighthouse_types.py          Pose.rotate_translate, rotate_translate_pose, scale, from_rot_vec
     lighthouse_system_aligner.py align, _de_flip_transformation, _calc_residual, _Pose_from_params
     lighthouse_system_scaler.py  _scale_system, scale_fixed_point, scale_diagonals,
                                  calc_intersection_point, calc_intersection_distance, _calculate_mean_diagonal

   The algebraic core is written ONCE, generically over a record of field operations [Ops F].  It is
   instantiated with the real numbers (theorems, C16/Proofs*.v) and with the rationals Q (the harness
   evaluates the very same definitions with vm_compute on the exact rational values of the floats given
   to the real code, and compares).  The parts that need sqrt/sin/cos exist over R only.

   Definitions only; no proofs here. *)
From Coq Require Import ZArith List QArith Qround Reals.
Import ListNotations.

Set Implicit Arguments.

(* ------------------------------------------------------------------ operations *)
Record Ops (F : Type) : Type := MkOps {
  oadd : F -> F -> F;
  osub : F -> F -> F;
  omul : F -> F -> F;
  odiv : F -> F -> F;
  oZ   : Z -> F;
  oltb : F -> F -> bool            (* Python  a < b  on floats *)
}.

Record vec (F : Type) : Type := V3 { vx : F; vy : F; vz : F }.
Record mat (F : Type) : Type := M3 { r1 : vec F; r2 : vec F; r3 : vec F }.      (* rows *)
(* a Pose object: _R_matrix, _t_vec *)
Record pose (F : Type) : Type := MkPose { rot : mat F; trans : vec F }.

Section Generic.
Context {F : Type} (o : Ops F).
Local Notation "a + b" := (oadd o a b).
Local Notation "a - b" := (osub o a b).
Local Notation "a * b" := (omul o a b).
Local Notation "a / b" := (odiv o a b).
Local Notation "0" := (oZ o 0%Z).
Local Notation "1" := (oZ o 1%Z).

Definition vadd (a b : vec F) : vec F := V3 (vx a + vx b) (vy a + vy b) (vz a + vz b).
Definition vsub (a b : vec F) : vec F := V3 (vx a - vx b) (vy a - vy b) (vz a - vz b).
Definition smul (a : vec F) (s : F) : vec F := V3 (vx a * s) (vy a * s) (vz a * s).    (* array * scalar *)
Definition sdiv (a : vec F) (s : F) : vec F := V3 (vx a / s) (vy a / s) (vz a / s).
Definition dot (a b : vec F) : F := vx a * vx b + vy a * vy b + vz a * vz b.
Definition norm2 (a : vec F) : F := dot a a.
Definition dist2 (a b : vec F) : F := norm2 (vsub a b).
Definition vzero : vec F := V3 0 0 0.

Definition col1 (m : mat F) : vec F := V3 (vx (r1 m)) (vx (r2 m)) (vx (r3 m)).
Definition col2 (m : mat F) : vec F := V3 (vy (r1 m)) (vy (r2 m)) (vy (r3 m)).
Definition col3 (m : mat F) : vec F := V3 (vz (r1 m)) (vz (r2 m)) (vz (r3 m)).
Definition transpose (m : mat F) : mat F := M3 (col1 m) (col2 m) (col3 m).
(* np.dot(matrix, vector) *)
Definition mv (m : mat F) (v : vec F) : vec F := V3 (dot (r1 m) v) (dot (r2 m) v) (dot (r3 m) v).
(* np.dot(matrix, matrix) *)
Definition mm (a b : mat F) : mat F :=
  M3 (V3 (dot (r1 a) (col1 b)) (dot (r1 a) (col2 b)) (dot (r1 a) (col3 b)))
     (V3 (dot (r2 a) (col1 b)) (dot (r2 a) (col2 b)) (dot (r2 a) (col3 b)))
     (V3 (dot (r3 a) (col1 b)) (dot (r3 a) (col2 b)) (dot (r3 a) (col3 b))).
Definition mid : mat F := M3 (V3 1 0 0) (V3 0 1 0) (V3 0 0 1).
Definition det (m : mat F) : F :=
  vx (r1 m) * (vy (r2 m) * vz (r3 m) - vz (r2 m) * vy (r3 m))
  - vy (r1 m) * (vx (r2 m) * vz (r3 m) - vz (r2 m) * vx (r3 m))
  + vz (r1 m) * (vx (r2 m) * vy (r3 m) - vy (r2 m) * vx (r3 m)).

(* ---- Pose ---- *)
(* Pose.rotate_translate:  np.dot(self.rot_matrix, point) + self.translation *)
Definition rt (T : pose F) (p : vec F) : vec F := vadd (mv (rot T) p) (trans T).
(* Pose.rotate_translate_pose *)
Definition rtp (T P : pose F) : pose F :=
  MkPose (mm (rot T) (rot P)) (vadd (mv (rot T) (trans P)) (trans T)).
(* Pose.scale (functional view of  self._t_vec = self._t_vec * scale  on a fresh shallow copy) *)
Definition pscale (P : pose F) (s : F) : pose F := MkPose (rot P) (smul (trans P) s).

(* np.mean(points, axis=0) for a non-empty list of 3-vectors: sum / n *)
Definition vsum (l : list (vec F)) : vec F := fold_left vadd l vzero.
Definition vmean (l : list (vec F)) : vec F := sdiv (vsum l) (oZ o (Z.of_nat (length l))).

(* ---- aligner ---- *)
(* the exact half turns that Pose.from_rot_vec((0,0,pi)) / ((pi,0,0)) denote (C16/Proofs.v shows that
   from_rotvec gives exactly these over R; the floating-point matrices differ from them by 1.3e-16) *)
Definition m1 : F := 0 - 1.
Definition flipZ : pose F := MkPose (M3 (V3 m1 0 0) (V3 0 m1 0) (V3 0 0 1)) vzero.
Definition flipX : pose F := MkPose (M3 (V3 1 0 0) (V3 0 m1 0) (V3 0 0 m1)) vzero.

(* a dict[int, Pose] in insertion order *)
Definition bsdict := list (Z * pose F).

(* _de_flip_transformation; None = IndexError of  list(bs_poses.values())[0]  on an empty dict.
   Both tests look at the RAW transformation. *)
Definition deflip (raw : pose F) (x_axis : list (vec F)) (bs : bsdict) : option (pose F) :=
  let t1 := if oltb o (vx (rt raw (vmean x_axis))) 0 then rtp flipZ raw else raw in
  match bs with
  | [] => None
  | (_, b0) :: _ =>
      Some (if oltb o (vz (rt raw (trans b0))) 0 then rtp flipX t1 else t1)
  end.

(* the loop of align(): the SAME transformation for every entry, keys and order kept *)
Definition align_apply (T : pose F) (bs : bsdict) : bsdict :=
  map (fun kv => (fst kv, rtp T (snd kv))) bs.

(* _calc_residual for a given transform: origin image (3), y,z of every x-axis image, z of every plane image *)
Definition residual (T : pose F) (origin : vec F) (x_axis plane : list (vec F)) : list F :=
  (let d := rt T origin in [vx d; vy d; vz d])
  ++ flat_map (fun p => let d := rt T p in [vy d; vz d]) x_axis
  ++ map (fun p => vz (rt T p)) plane.

(* ---- scaler ---- *)
(* _scale_system: copies scaled by one factor; (bs, cf, factor) *)
Definition scale_system (bs : bsdict) (cf : list (pose F)) (s : F) : bsdict * list (pose F) * F :=
  (map (fun kv => (fst kv, pscale (snd kv) s)) bs, map (fun P => pscale P s) cf, s).

(* calc_intersection_point: ray (bs position, direction bs.R * cart) with the deck plane of the Crazyflie *)
Definition intersection_point (cart : vec F) (bs cf : pose F) : vec F :=
  let plane_base := trans cf in
  let plane_normal := mv (rot cf) (V3 0 0 1) in
  let line_base := trans bs in
  let line_vector := mv (rot bs) cart in
  let dist_on_line := dot (vsub plane_base line_base) plane_normal / dot line_vector plane_normal in
  vadd line_base (smul line_vector dist_on_line).

(* squared distance between two intersection points (the code takes the norm: R-only part below) *)
Definition intersection_dist2 (c1 c2 : vec F) (bs cf : pose F) : F :=
  dist2 (intersection_point c1 bs cf) (intersection_point c2 bs cf).

End Generic.

(* ------------------------------------------------------------------ instances *)
Definition Rops : Ops R :=
  MkOps Rplus Rminus Rmult Rdiv IZR (fun a b => if Rlt_dec a b then true else false).

(* every result is reduced (Qred): same rational value, bounded numerals *)
Definition Qops : Ops Q :=
  MkOps (fun a b => Qred (Qplus a b)) (fun a b => Qred (Qminus a b)) (fun a b => Qred (Qmult a b))
        (fun a b => Qred (Qdiv a b)) inject_Z
        (fun a b => match Qcompare a b with Lt => true | _ => false end).

(* printing helper for the harness: floor(q * 2^k) *)
Definition qfix (k : Z) (q : Q) : Z := Qfloor (Qmult q (inject_Z (2 ^ k))).
Definition vfix k (v : vec Q) : list Z := [qfix k (vx v); qfix k (vy v); qfix k (vz v)].
Definition mfix k (m : mat Q) : list Z := vfix k (r1 m) ++ vfix k (r2 m) ++ vfix k (r3 m).
Definition pfix k (p : pose Q) : list Z := mfix k (rot p) ++ vfix k (trans p).

(* ------------------------------------------------------------------ real-number part *)
Open Scope R_scope.

Definition vecR := vec R.
Definition matR := mat R.
Definition poseR := pose R.

Definition norm (v : vecR) : R := sqrt (norm2 Rops v).                 (* np.linalg.norm *)
Definition dist (a b : vecR) : R := norm (vsub Rops a b).

(* proper rotation: R^T R = I and det R = 1 *)
Definition orthogonal (m : matR) : Prop := mm Rops (transpose m) m = mid Rops.
Definition proper (m : matR) : Prop := orthogonal m /\ det Rops m = 1.

(* Rotation.from_rotvec(v).as_matrix(): rotation by |v| about v/|v| (Rodrigues), identity for v = 0 *)
Definition rodrigues (u : vecR) (s c : R) : matR :=
  let k := 1 - c in
  M3 (V3 (c + k * vx u * vx u)        (k * vx u * vy u - s * vz u) (k * vx u * vz u + s * vy u))
     (V3 (k * vx u * vy u + s * vz u) (c + k * vy u * vy u)        (k * vy u * vz u - s * vx u))
     (V3 (k * vx u * vz u - s * vy u) (k * vy u * vz u + s * vx u) (c + k * vz u * vz u)).

Definition from_rotvec (v : vecR) : matR :=
  let th := norm v in
  if Req_EM_T th 0 then mid Rops else rodrigues (sdiv Rops v th) (sin th) (cos th).

(* _Pose_from_params(params): Pose.from_rot_vec(R_vec=params[:3], t_vec=params[3:]) *)
Definition pose_from_params (x : vecR * vecR) : poseR := MkPose (from_rotvec (fst x)) (snd x).

(* align(): [opt] stands for scipy.optimize.least_squares (NOT modelled: any function of the samples);
   None = the IndexError for an empty base-station dict. Returns (aligned poses, transformation). *)
Definition align (opt : vecR -> list vecR -> list vecR -> vecR * vecR)
           (origin : vecR) (x_axis plane : list vecR) (bs : bsdict (F:=R))
  : option (bsdict (F:=R) * poseR) :=
  let raw := pose_from_params (opt origin x_axis plane) in
  match deflip Rops raw x_axis bs with
  | None => None
  | Some T => Some (align_apply Rops T bs, T)
  end.

(* scale_fixed_point *)
Definition fixed_point_factor (expected : vecR) (actual : poseR) : R := norm expected / norm (trans actual).
Definition scale_fixed_point (bs : bsdict (F:=R)) (cf : list poseR) (expected : vecR) (actual : poseR) :=
  scale_system Rops bs cf (fixed_point_factor expected actual).

(* calc_intersection_distance *)
Definition intersection_distance (c1 c2 : vecR) (bs cf : poseR) : R :=
  norm (vsub Rops (intersection_point Rops c1 bs cf) (intersection_point Rops c2 bs cf)).

(* np.mean of a list of floats *)
Definition rmean (l : list R) : R := fold_left Rplus l 0 / INR (length l).

(* _calculate_mean_diagonal: one entry per (cf pose, base station seen in that sample): the four sensor
   vectors v0..v3; diagonals are v0-v3 and v1-v2.  [obs] is the flattened iteration
   (cf_pose, bs_pose, (v0,v1,v2,v3)) in the order of the two nested loops. *)
Definition diag_obs := (poseR * poseR * (vecR * vecR * vecR * vecR))%type.
Definition diagonals (obs : list diag_obs) : list R :=
  flat_map (fun ob => match ob with (cf, bs, (v0, v1, v2, v3)) =>
     [intersection_distance v0 v3 bs cf; intersection_distance v1 v2 bs cf] end) obs.
Definition mean_diagonal (obs : list diag_obs) : R := rmean (diagonals obs).
Definition diagonals_factor (expected_diagonal : R) (obs : list diag_obs) : R :=
  expected_diagonal / mean_diagonal obs.
(* the observation list after scaling every pose by s *)
Definition scale_obs (s : R) (obs : list diag_obs) : list diag_obs :=
  map (fun ob => match ob with (cf, bs, vs) => (pscale Rops cf s, pscale Rops bs s, vs) end) obs.

(* ------------------------------------------------------------------ specification vocabulary *)
Definition all_zero (l : list R) : Prop := Forall (fun x => x = 0) l.
Definition sumsq (l : list R) : R := fold_right (fun x acc => x * x + acc) 0 l.

(* what "aligned" means for a transformation and the samples: origin sample to (0,0,0), x-axis samples
   onto the X axis (y = z = 0), plane samples into Z = 0 *)
Definition aligned (T : poseR) (origin : vecR) (x_axis plane : list vecR) : Prop :=
  rt Rops T origin = V3 0 0 0 /\
  Forall (fun p => vy (rt Rops T p) = 0 /\ vz (rt Rops T p) = 0) x_axis /\
  Forall (fun p => vz (rt Rops T p) = 0) plane.

(* the identity pose *)
Definition pid : poseR := MkPose (mid Rops) (vzero Rops).

(* a ground-truth point on the positive X axis *)
Definition on_pos_x (p : vecR) : Prop := 0 < vx p /\ vy p = 0 /\ vz p = 0.

(* The inputs of align() are the view, through a misalignment M (proper rigid), of a ground truth in which the origin
   sample is (0,0,0), the x-axis samples (at least one) lie on the positive X axis, the plane samples lie in Z = 0 with at
   least one of them off the X axis, and the first base station is above the floor. *)
Definition misaligned_view (M : poseR) (origin : vecR) (x_axis plane : list vecR) (bs : bsdict (F:=R)) : Prop :=
  exists xs ps k B0 rest,
    proper (rot M) /\ origin = rt Rops M (V3 0 0 0) /\
    x_axis = map (rt Rops M) xs /\ xs <> [] /\ Forall on_pos_x xs /\
    plane = map (rt Rops M) ps /\ Forall (fun p => vz p = 0) ps /\ Exists (fun p => vy p <> 0) ps /\
    bs = (k, rtp Rops M B0) :: rest /\ 0 < vz (trans B0).
