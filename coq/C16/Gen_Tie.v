(* C16/Gen_Tie.v — the functions generated from the CURRENT sources (Gen_Code.v, rewritten on every run by the
   translator in harness/props/c16.py) are equal, over the real numbers, to the hand-written model the theorems are
   about.  The proofs are deliberately insensitive to harmless algebraic rewrites of the Python (ring/field
   normalisation); a change of meaning makes them fail, which the harness reports as a broken obligation. *)
From Coq Require Import ZArith List Reals Lra.
From CF Require Import C16.Model.
From CF Require Import C16.Proofs.
From CF Require Import C16.Gen_Code.
Import ListNotations.
Open Scope R_scope.

Ltac gunf := unfold gen_rotate_translate, gen_rotate_translate_pose, gen_scale, gen_calc_intersection_point,
  intersection_point in *; unf.
Ltac vsolve := apply vec_eq; first [ring | (unfold Rdiv; ring) | field].
Lemma pose_eq : forall (m m' : mat R) (t t' : vec R), m = m' -> t = t' -> MkPose m t = MkPose m' t'.
Proof. intros; subst; reflexivity. Qed.
Ltac psolve := apply pose_eq; [apply mat_eq; apply vec_eq; ring | apply vec_eq; ring].

Lemma gen_rt_ok : forall T p, gen_rotate_translate Rops T p = rt Rops T p.
Proof. intros. dp T. dv p. gunf. vsolve. Qed.

Lemma gen_rtp_ok : forall T P, gen_rotate_translate_pose Rops T P = rtp Rops T P.
Proof. intros. dp T. dp P. unfold gen_rotate_translate_pose, rtp. cbv zeta. unf. psolve. Qed.

Lemma gen_scale_ok : forall P s, gen_scale Rops P s = pscale Rops P s.
Proof. intros. dp P. unfold gen_scale. unf. psolve. Qed.

Lemma gen_de_flip_ok : forall raw x_axis bs, gen_de_flip Rops raw x_axis bs = deflip Rops raw x_axis bs.
Proof.
  intros. unfold gen_de_flip, deflip. cbv zeta. rewrite ?gen_rt_ok.
  destruct bs as [|[k b0] rest]; [reflexivity|]. rewrite ?gen_rt_ok, ?gen_rtp_ok.
  (* the second test may be written on the raw or on the already z-flipped transformation: a half turn about Z
     does not change z *)
  destruct (oltb Rops (vx (rt Rops raw (vmean Rops x_axis))) (oZ Rops 0)) eqn:E1;
    rewrite ?gen_rt_ok, ?gen_rtp_ok, ?rt_rtp, ?rt_flipZ; cbn [vx vy vz];
    destruct (oltb Rops (vz (rt Rops raw (trans b0))) (oZ Rops 0)) eqn:E2;
    rewrite ?gen_rtp_ok; reflexivity.
Qed.

Lemma gen_residual_ok : forall T origin x_axis plane,
  gen_residual Rops T origin x_axis plane = residual Rops T origin x_axis plane.
Proof.
  intros. unfold gen_residual, residual. cbv zeta. rewrite !map_map, <- flat_map_concat_map.
  first [ reflexivity
        | rewrite ?gen_rt_ok;
          repeat (first [ reflexivity
                        | apply flat_map_ext; intro; rewrite ?gen_rt_ok
                        | apply map_ext; intro; rewrite ?gen_rt_ok
                        | f_equal ]) ].
Qed.

Lemma gen_align_loop_ok : forall T bs, gen_align_loop Rops T bs = align_apply Rops T bs.
Proof.
  intros. unfold gen_align_loop, align_apply.
  first [ reflexivity | apply map_ext; intros [k P]; cbn [fst snd]; rewrite ?gen_rtp_ok; reflexivity ].
Qed.

Lemma gen_intersection_point_ok : forall c bs cf, gen_calc_intersection_point Rops c bs cf = intersection_point Rops c bs cf.
Proof. intros. dp bs. dp cf. dv c. unfold gen_calc_intersection_point, intersection_point. cbv zeta. unf. vsolve. Qed.

Lemma pair3_eq : forall X Y Z0 (a a' : X) (b b' : Y) (c c' : Z0), a = a' -> b = b' -> c = c' -> (a, b, c) = (a', b', c').
Proof. intros; subst; reflexivity. Qed.

Lemma gen_scale_system_ok : forall bs cf s, gen_scale_system Rops bs cf s = scale_system Rops bs cf s.
Proof.
  intros. unfold gen_scale_system, scale_system.
  first [ reflexivity
        | apply pair3_eq;
          [ apply map_ext; intros [k P]; cbn [fst snd]; rewrite ?gen_scale_ok; reflexivity
          | apply map_ext; intro P; rewrite ?gen_scale_ok; reflexivity
          | reflexivity ] ].
Qed.

Lemma gen_intersection_distance_ok : forall c1 c2 bs cf,
  gen_calc_intersection_distance c1 c2 bs cf = intersection_distance c1 c2 bs cf.
Proof. intros. unfold gen_calc_intersection_distance, intersection_distance. cbv zeta. rewrite ?gen_intersection_point_ok. reflexivity. Qed.

Lemma gen_scale_fixed_point_ok : forall bs cf e a, gen_scale_fixed_point bs cf e a = scale_fixed_point bs cf e a.
Proof. intros. unfold gen_scale_fixed_point, scale_fixed_point, fixed_point_factor. cbv zeta. rewrite ?gen_scale_system_ok. reflexivity. Qed.

Theorem generated_code_is_model :
  (forall T p, gen_rotate_translate Rops T p = rt Rops T p) /\
  (forall T P, gen_rotate_translate_pose Rops T P = rtp Rops T P) /\
  (forall P s, gen_scale Rops P s = pscale Rops P s) /\
  (forall raw x_axis bs, gen_de_flip Rops raw x_axis bs = deflip Rops raw x_axis bs) /\
  (forall T origin x_axis plane, gen_residual Rops T origin x_axis plane = residual Rops T origin x_axis plane) /\
  (forall T bs, gen_align_loop Rops T bs = align_apply Rops T bs) /\
  (forall c bs cf, gen_calc_intersection_point Rops c bs cf = intersection_point Rops c bs cf) /\
  (forall bs cf s, gen_scale_system Rops bs cf s = scale_system Rops bs cf s) /\
  (forall c1 c2 bs cf, gen_calc_intersection_distance c1 c2 bs cf = intersection_distance c1 c2 bs cf) /\
  (forall bs cf e a, gen_scale_fixed_point bs cf e a = scale_fixed_point bs cf e a).
Proof.
  exact (conj gen_rt_ok (conj gen_rtp_ok (conj gen_scale_ok (conj gen_de_flip_ok (conj gen_residual_ok
        (conj gen_align_loop_ok (conj gen_intersection_point_ok (conj gen_scale_system_ok
        (conj gen_intersection_distance_ok gen_scale_fixed_point_ok))))))))).
Qed.

(* The deck geometry the library publishes (LhDeck4SensorPositions): the constant `diagonal_distance` is the distance
   between the sensors that _calculate_mean_diagonal pairs up (0-3 and 1-2) in the library's own sensor table. *)
Theorem gen_deck_diagonal_ok : forall d,
  length gen_deck_positions = 4%nat /\
  gen_deck_diagonal = dist (nth 0 gen_deck_positions d) (nth 3 gen_deck_positions d) /\
  gen_deck_diagonal = dist (nth 1 gen_deck_positions d) (nth 2 gen_deck_positions d).
Proof.
  intro d. unfold gen_deck_diagonal, gen_deck_positions, dist, norm. cbn [nth length]. unf.
  split; [reflexivity|]. split; f_equal; field.
Qed.
