(* C16/Heap_proofs.v — the heap only grows; _scale_system and Pose construction leave every pre-existing object and
   array untouched, and the copies denote the scaled poses. *)
From Coq Require Import List Arith Lia.
From CF Require Import C16.Heap.
Import ListNotations.

Section HeapProofs.
Variable A : Type.
Variable mul : A -> A.
Notation heap := (heap A).

Lemma update_length : forall X (l : list X) n x, length (update l n x) = length l.
Proof. induction l as [|h t IH]; intros [|n] x; cbn; try reflexivity. rewrite IH. reflexivity. Qed.

Lemma update_same : forall X (l : list X) n x, n < length l -> nth_error (update l n x) n = Some x.
Proof. induction l as [|h t IH]; intros [|n] x Hn; cbn in *; try lia; try reflexivity. apply IH. lia. Qed.

Lemma update_other : forall X (l : list X) n m x, m <> n -> nth_error (update l n x) m = nth_error l m.
Proof.
  induction l as [|h t IH]; intros [|n] [|m] x Hm; cbn; try reflexivity; try lia. apply IH. lia.
Qed.

Lemma nth_error_lt : forall X (l : list X) n x, nth_error l n = Some x -> n < length l.
Proof. intros. apply nth_error_Some. congruence. Qed.

(* ---- pose.scale ---- *)
Lemma scale_obj_spec : forall (h h' : heap) o, scale_obj mul h o = Some h' ->
  exists ob t, nth_error (objs h) o = Some ob /\ nth_error (arrs h) (f_t ob) = Some t /\
    arrs h' = arrs h ++ [mul t] /\ length (objs h') = length (objs h) /\
    nth_error (objs h') o = Some (MkObj (f_R ob) (length (arrs h))) /\
    (forall m, m <> o -> nth_error (objs h') m = nth_error (objs h) m).
Proof.
  intros h h' o H. unfold scale_obj in H.
  destruct (nth_error (objs h) o) as [ob|] eqn:Eo; [|discriminate].
  destruct (nth_error (arrs h) (f_t ob)) as [t|] eqn:Et; [|discriminate].
  cbn in H. injection H as <-. exists ob, t. cbn. repeat split; try assumption.
  - apply update_length.
  - apply update_same. eapply nth_error_lt; eassumption.
  - intros m Hm. apply update_other. exact Hm.
Qed.

(* ---- copy.copy over a list of existing objects ---- *)
Lemma copy_all_spec : forall os (h h1 : heap) cs,
  Forall (fun o => o < length (objs h)) os ->
  copy_all h os = Some (h1, cs) ->
  arrs h1 = arrs h /\
  cs = seq (length (objs h)) (length os) /\
  exists obs, objs h1 = objs h ++ obs /\ length obs = length os /\
    forall i o, nth_error os i = Some o -> nth_error obs i = nth_error (objs h) o.
Proof.
  induction os as [|o r IH]; intros h h1 cs Hin H; cbn in H.
  - injection H as <- <-. split; [reflexivity|]. split; [reflexivity|]. exists []. rewrite app_nil_r.
    split; [reflexivity|]. split; [reflexivity|]. intros [|i] o Hi; discriminate.
  - inversion Hin as [|? ? Ho1 Hr]; subst.
    unfold copy_obj in H. destruct (nth_error (objs h) o) as [ob|] eqn:Eo; [|discriminate].
    cbn in H. destruct (copy_all _ r) as [[h2 cs2]|] eqn:Er; [|discriminate]. injection H as <- <-.
    assert (Hin' : Forall (fun o => o < length (objs (MkHeap (arrs h) (objs h ++ [ob])))) r).
    { cbn. rewrite app_length. cbn. eapply Forall_impl; [|exact Hr]. cbn. intros; lia. }
    destruct (IH _ _ _ Hin' Er) as (Ha & Hc & obs & Ho & Hl & Hn). cbn in Ha, Hc, Ho, Hn.
    split; [exact Ha|]. split.
    + cbn [length seq]. f_equal. rewrite Hc, app_length. cbn. f_equal. lia.
    + exists (ob :: obs). split; [rewrite Ho, <- app_assoc; reflexivity|]. split; [cbn; lia|].
      intros [|i] o' Hi; cbn in Hi |- *.
      * injection Hi as <-. symmetry. exact Eo.
      * rewrite (Hn i o' Hi). apply nth_error_app1.
        rewrite Forall_forall in Hr. apply Hr. eapply nth_error_In; exact Hi.
Qed.

Lemma wf_lookup : forall (h : heap) o ob, wf h -> nth_error (objs h) o = Some ob ->
  f_R ob < length (arrs h) /\ f_t ob < length (arrs h).
Proof. intros h o ob Hw H. unfold wf in Hw. rewrite Forall_forall in Hw. apply Hw. eapply nth_error_In; exact H. Qed.

Lemma wf_intro : forall (h : heap),
  (forall o ob, nth_error (objs h) o = Some ob -> f_R ob < length (arrs h) /\ f_t ob < length (arrs h)) -> wf h.
Proof.
  intros h H. unfold wf. apply Forall_forall. intros ob Hin. apply In_nth_error in Hin. destruct Hin as [o Ho].
  exact (H o ob Ho).
Qed.

Lemma scale_obj_wf : forall (h h' : heap) o, wf h -> scale_obj mul h o = Some h' -> wf h'.
Proof.
  intros h h' o Hw Hs. destruct (scale_obj_spec _ _ _ Hs) as (ob & t & Eo & Et & Ea & El & Ec & Hother).
  apply wf_intro. intros m obm Hm. rewrite Ea, app_length. cbn.
  destruct (Nat.eq_dec m o) as [->|Hne].
  - rewrite Ec in Hm. injection Hm as <-. cbn. destruct (wf_lookup _ _ _ Hw Eo). lia.
  - rewrite (Hother m Hne) in Hm. destruct (wf_lookup _ _ _ Hw Hm). lia.
Qed.

(* ---- pose.scale over the copies ---- *)
Lemma scale_all_spec : forall cs (h h' : heap), wf h -> NoDup cs -> scale_all mul h cs = Some h' ->
  (exists ex, arrs h' = arrs h ++ ex) /\ length (objs h') = length (objs h) /\ wf h' /\
  (forall m, ~ In m cs -> nth_error (objs h') m = nth_error (objs h) m) /\
  (forall c, In c cs -> exists ob t a, nth_error (objs h) c = Some ob /\ nth_error (arrs h) (f_t ob) = Some t /\
      nth_error (objs h') c = Some (MkObj (f_R ob) a) /\ nth_error (arrs h') a = Some (mul t)).
Proof.
  induction cs as [|c r IH]; intros h h' Hw Hnd H; cbn in H.
  - injection H as <-. split; [exists []; rewrite app_nil_r; reflexivity|]. split; [reflexivity|].
    split; [exact Hw|]. split; [reflexivity|]. intros c [].
  - inversion Hnd as [|? ? Hnotin Hnd']; subst.
    destruct (scale_obj mul h c) as [h1|] eqn:Es; [|discriminate].
    destruct (scale_obj_spec _ _ _ Es) as (ob & t & Eo & Et & Ea & El & Ec & Hother).
    destruct (IH _ _ (scale_obj_wf _ _ _ Hw Es) Hnd' H) as ((ex & Hex) & Hl & Hw' & Hout & Hin).
    split; [exists ([mul t] ++ ex); rewrite Hex, Ea, <- app_assoc; reflexivity|].
    split; [lia|]. split; [exact Hw'|]. split.
    + intros m Hm. cbn in Hm. rewrite Hout by tauto. apply Hother. intro; subst; apply Hm; left; reflexivity.
    + intros c' [<- | Hc'].
      * exists ob, t, (length (arrs h)). split; [exact Eo|]. split; [exact Et|].
        rewrite (Hout c Hnotin). split; [exact Ec|].
        rewrite Hex, Ea, <- app_assoc. rewrite nth_error_app2 by lia. rewrite Nat.sub_diag. reflexivity.
      * destruct (Hin c' Hc') as (ob' & t' & a & E1 & E2 & E3 & E4).
        assert (Hne : c' <> c) by (intro; subst; contradiction).
        rewrite (Hother c' Hne) in E1. exists ob', t', a. split; [exact E1|]. split; [|split; assumption].
        rewrite Ea in E2. destruct (wf_lookup _ _ _ Hw E1) as [_ L].
        rewrite nth_error_app1 in E2 by exact L. exact E2.
Qed.

(* ---- _scale_system ---- *)
Lemma seq_ge : forall n k c, In c (seq n k) -> n <= c < n + k.
Proof. intros n k c H. apply in_seq in H. lia. Qed.

Theorem scale_system_h_spec : forall (h h' : heap) os cs,
  wf h -> Forall (fun o => o < length (objs h)) os ->
  scale_system_h mul h os = Some (h', cs) ->
  preserves h h' /\
  length cs = length os /\ Forall (fun c => length (objs h) <= c) cs /\
  (forall o, o < length (objs h) -> deref h' o = deref h o) /\
  (forall i o c, nth_error os i = Some o -> nth_error cs i = Some c ->
     deref h' c = option_map (fun rt => (fst rt, mul (snd rt))) (deref h o)).
Proof.
  intros h h' os cs Hw Hos H. unfold scale_system_h in H.
  destruct (copy_all h os) as [[h1 cs1]|] eqn:Ec; [|discriminate].
  destruct (scale_all mul h1 cs1) as [h2|] eqn:Es; [|discriminate]. injection H as <- <-.
  destruct (copy_all_spec _ _ _ _ Hos Ec) as (Ha & Hcs & obs & Ho & Hl & Hn).
  assert (Hw1 : wf h1).
  { apply wf_intro. intros m ob Hm. rewrite Ha. rewrite Ho in Hm.
    destruct (Nat.lt_ge_cases m (length (objs h))) as [L|G].
    - rewrite nth_error_app1 in Hm by exact L. exact (wf_lookup _ _ _ Hw Hm).
    - rewrite nth_error_app2 in Hm by exact G.
      assert (Hi : m - length (objs h) < length os) by (rewrite <- Hl; eapply nth_error_lt; exact Hm).
      destruct (nth_error os (m - length (objs h))) as [o|] eqn:Eo; [|apply nth_error_None in Eo; lia].
      rewrite (Hn _ _ Eo) in Hm. exact (wf_lookup _ _ _ Hw Hm). }
  assert (Hnd : NoDup cs1) by (rewrite Hcs; apply seq_NoDup).
  destruct (scale_all_spec _ _ _ Hw1 Hnd Es) as ((ex & Hex) & Hl2 & Hw2 & Hout & Hin).
  assert (Hpres : preserves h h2).
  { split.
    - intros a La. rewrite Hex, Ha. apply nth_error_app1. exact La.
    - intros o Lo. rewrite Hout.
      + rewrite Ho. apply nth_error_app1. exact Lo.
      + intro Hc. rewrite Hcs in Hc. apply seq_ge in Hc. lia. }
  split; [exact Hpres|]. split; [rewrite Hcs; apply seq_length|]. split.
  { rewrite Hcs. apply Forall_forall. intros c Hc. apply seq_ge in Hc. lia. }
  split.
  - intros o Lo. unfold deref. destruct Hpres as [Pa Po]. rewrite (Po o Lo).
    destruct (nth_error (objs h) o) as [ob|] eqn:Eo; [|reflexivity].
    destruct (wf_lookup _ _ _ Hw Eo) as [L1 L2]. rewrite (Pa _ L1), (Pa _ L2). reflexivity.
  - intros i o c Hi Hc.
    assert (Hcin : In c cs1) by (eapply nth_error_In; exact Hc).
    destruct (Hin c Hcin) as (ob & t & a & E1 & E2 & E3 & E4).
    (* the copy c is the i-th new object, a shallow copy of o *)
    assert (Hci : c = length (objs h) + i).
    { rewrite Hcs in Hc. assert (Li : i < length os) by (eapply nth_error_lt; exact Hi).
      rewrite (nth_error_nth' _ 0) in Hc by (rewrite seq_length; exact Li). rewrite seq_nth in Hc by exact Li.
      injection Hc as <-. reflexivity. }
    rewrite Ho in E1. rewrite nth_error_app2 in E1 by lia.
    replace (c - length (objs h)) with i in E1 by lia. rewrite (Hn _ _ Hi) in E1.
    unfold deref. rewrite E3, E1. cbn [f_R f_t].
    destruct (wf_lookup _ _ _ Hw E1) as [L1 L2].
    rewrite Ha in E2. rewrite E2, E4.
    rewrite Hex, Ha. rewrite (nth_error_app1 _ _ L1).
    destruct (nth_error (arrs h) (f_R ob)) as [r|] eqn:Er; [reflexivity|].
    apply nth_error_None in Er. lia.
Qed.

(* ---- shared references in the inputs ----
   The list of input references may contain the SAME object several times (one Pose instance at several positions of
   cf_poses or under several base-station ids), and different objects may share an array (one ndarray used as the
   translation of two Pose instances): [wf] and the hypotheses above allow both.  The per-entry shallow copy gives every
   POSITION its own fresh object, so a repeated input is scaled once per position, never twice. *)
Lemma scale_system_h_fresh : forall (h h' : heap) os cs,
  Forall (fun o => o < length (objs h)) os ->
  scale_system_h mul h os = Some (h', cs) -> cs = seq (length (objs h)) (length os).
Proof.
  intros h h' os cs Hos H. unfold scale_system_h in H.
  destruct (copy_all h os) as [[h1 cs1]|] eqn:Ec; [|discriminate].
  destruct (scale_all mul h1 cs1) as [h2|] eqn:Es; [|discriminate]. injection H as <- <-.
  destruct (copy_all_spec _ _ _ _ Hos Ec) as (_ & Hcs & _). exact Hcs.
Qed.

Theorem scale_system_h_shared : forall (h h' : heap) os cs,
  wf h -> Forall (fun o => o < length (objs h)) os ->
  scale_system_h mul h os = Some (h', cs) ->
  NoDup cs /\
  (forall i j o, i <> j -> nth_error os i = Some o -> nth_error os j = Some o ->
     exists ci cj, nth_error cs i = Some ci /\ nth_error cs j = Some cj /\ ci <> cj /\
       deref h' ci = option_map (fun rt => (fst rt, mul (snd rt))) (deref h o) /\
       deref h' cj = option_map (fun rt => (fst rt, mul (snd rt))) (deref h o)) /\
  (* two different inputs sharing their translation array: both copies are scaled from the same old value, and the
     shared array itself is untouched *)
  (forall i j oi oj obi obj_, nth_error os i = Some oi -> nth_error os j = Some oj ->
     nth_error (objs h) oi = Some obi -> nth_error (objs h) oj = Some obj_ -> f_t obi = f_t obj_ ->
     nth_error (arrs h') (f_t obi) = nth_error (arrs h) (f_t obi) /\
     forall ci cj, nth_error cs i = Some ci -> nth_error cs j = Some cj ->
       option_map snd (deref h' ci) = option_map snd (deref h' cj) \/ deref h oi = None \/ deref h oj = None).
Proof.
  intros h h' os cs Hw Hos H.
  pose proof (scale_system_h_fresh _ _ _ _ Hos H) as Hcs.
  destruct (scale_system_h_spec _ _ _ _ Hw Hos H) as (Hpres & Hlen & Hge & Hold & Hden).
  split; [rewrite Hcs; apply seq_NoDup|]. split.
  - intros i j o Hij Hi Hj.
    assert (Li : i < length os) by (eapply nth_error_lt; exact Hi).
    assert (Lj : j < length os) by (eapply nth_error_lt; exact Hj).
    exists (length (objs h) + i), (length (objs h) + j).
    assert (Ci : nth_error cs i = Some (length (objs h) + i)).
    { rewrite Hcs. rewrite (nth_error_nth' _ 0) by (rewrite seq_length; exact Li). rewrite seq_nth by exact Li. reflexivity. }
    assert (Cj : nth_error cs j = Some (length (objs h) + j)).
    { rewrite Hcs. rewrite (nth_error_nth' _ 0) by (rewrite seq_length; exact Lj). rewrite seq_nth by exact Lj. reflexivity. }
    split; [exact Ci|]. split; [exact Cj|]. split; [lia|].
    split; [exact (Hden _ _ _ Hi Ci) | exact (Hden _ _ _ Hj Cj)].
  - intros i j oi oj obi obj_ Hi Hj Eoi Eoj Eshare. split.
    + destruct Hpres as [Pa _]. apply Pa. exact (proj2 (wf_lookup _ _ _ Hw Eoi)).
    + intros ci cj Ci Cj. rewrite (Hden _ _ _ Hi Ci), (Hden _ _ _ Hj Cj).
      unfold deref. rewrite Eoi, Eoj, <- Eshare.
      destruct (nth_error (arrs h) (f_R obi)) as [ri|]; [|right; left; reflexivity].
      destruct (nth_error (arrs h) (f_R obj_)) as [rj|]; [|right; right; destruct (nth_error (arrs h) (f_t obi)); reflexivity].
      destruct (nth_error (arrs h) (f_t obi)) as [t|]; [left; reflexivity | right; left; reflexivity].
Qed.

(* ---- Pose(R_matrix=R, t_vec=t) ---- *)
Theorem new_pose_spec : forall (h : heap) r t, 
  let '(h', o) := new_pose h r t in
  preserves h h' /\ o = length (objs h) /\ deref h' o = Some (r, t) /\
  (wf h -> wf h' /\ forall p, p < length (objs h) -> deref h' p = deref h p).
Proof.
  intros h r t. unfold new_pose, alloc_arr, alloc_obj. cbn.
  assert (Hpres : preserves h (MkHeap ((arrs h ++ [r]) ++ [t])
                     (objs h ++ [MkObj (length (arrs h)) (length (arrs h ++ [r]))]))).
  { split; cbn.
    - intros a La. rewrite <- app_assoc. apply nth_error_app1. exact La.
    - intros o Lo. apply nth_error_app1. exact Lo. }
  split; [exact Hpres|]. split; [reflexivity|]. split.
  - unfold deref. cbn. rewrite nth_error_app2 by lia. rewrite Nat.sub_diag. cbn.
    rewrite (nth_error_app1 (arrs h ++ [r])) by (rewrite app_length; cbn; lia).
    rewrite nth_error_app2 by lia. rewrite Nat.sub_diag. cbn.
    rewrite nth_error_app2 by lia. rewrite Nat.sub_diag. reflexivity.
  - intro Hw. split.
    + apply wf_intro. cbn. intros m ob Hm. rewrite !app_length. cbn.
      destruct (Nat.lt_ge_cases m (length (objs h))) as [L|G].
      * rewrite nth_error_app1 in Hm by exact L. destruct (wf_lookup _ _ _ Hw Hm). lia.
      * rewrite nth_error_app2 in Hm by exact G. destruct (m - length (objs h)) as [|k]; cbn in Hm.
        -- injection Hm as <-. cbn. rewrite app_length. cbn. lia.
        -- destruct k; discriminate.
    + intros p Lp. unfold deref. destruct Hpres as [Pa Po]. rewrite (Po p Lp).
      destruct (nth_error (objs h) p) as [ob|] eqn:Eo; [|reflexivity].
      destruct (wf_lookup _ _ _ Hw Eo) as [L1 L2]. rewrite (Pa _ L1), (Pa _ L2). reflexivity.
Qed.

End HeapProofs.
