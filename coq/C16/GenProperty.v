(* C16/GenProperty.v — the obligation that depends on the code generated from the CURRENT sources
   (C16/Gen_Code.v, rewritten on every run by the translator in harness/props/c16.py).  Kept apart from
   C16/Property.v so that the model-level theorems are still checked when the translator fails closed. *)
From Coq Require Import ZArith List Reals.
From CF Require Import C16.Model.
From CF Require Import C16.Proofs.
From CF Require Import C16.Gen_Code.
From CF Require Import C16.Gen_Tie.
Import ListNotations.
Open Scope R_scope.

(* Tie to the current sources: the functions the translator generated from cflib/localization/*.py on THIS run
   (C16/Gen_Code.v) are equal to the model functions used in all theorems above. *)
Theorem C16_generated_code_is_model :
  (forall T p, gen_rotate_translate Rops T p = rt Rops T p) /\
  (forall T P, gen_rotate_translate_pose Rops T P = rtp Rops T P) /\
  (forall P s, gen_scale Rops P s = pscale Rops P s) /\
  (forall raw x_axis bs, gen_de_flip Rops raw x_axis bs = deflip Rops raw x_axis bs) /\
  (forall T origin x_axis plane, gen_residual Rops T origin x_axis plane = residual Rops T origin x_axis plane) /\
  (forall T bs, gen_align_loop Rops T bs = align_apply Rops T bs) /\
  (forall c bs cf, gen_calc_intersection_point Rops c bs cf = intersection_point Rops c bs cf) /\
  (forall bs cf s, gen_scale_system Rops bs cf s = scale_system Rops bs cf s) /\
  (forall c1 c2 bs cf, gen_calc_intersection_distance c1 c2 bs cf = intersection_distance c1 c2 bs cf) /\
  (forall bs cf e a, gen_scale_fixed_point bs cf e a = scale_fixed_point bs cf e a).
Proof. exact generated_code_is_model. Qed.
Print Assumptions C16_generated_code_is_model.

(* "the sensor diagonal": the constant LhDeck4SensorPositions.diagonal_distance of the current sources is the distance
   between the sensor pairs (0,3) and (1,2) of the current sensor table, i.e. the diagonals that
   _calculate_mean_diagonal measures.  (On the tree before fix F16b it was sqrt(L^2+L^2): this obligation fails there.) *)
Theorem C16_deck_diagonal_constant_matches_sensor_table : forall d,
  length gen_deck_positions = 4%nat /\
  gen_deck_diagonal = dist (nth 0 gen_deck_positions d) (nth 3 gen_deck_positions d) /\
  gen_deck_diagonal = dist (nth 1 gen_deck_positions d) (nth 2 gen_deck_positions d).
Proof. exact gen_deck_diagonal_ok. Qed.
Print Assumptions C16_deck_diagonal_constant_matches_sensor_table.
