(* C16/Proofs_chain.v — histories on the same poses.  A Pose is a VALUE (R, t); align's loop, _scale_system and pose
   composition are functions of the current values, so a chain align -> scale -> align is the composition of the
   value-level functions.  A variant that carries a cached composite matrix which scaling does not invalidate is
   refuted. *)
From Coq Require Import ZArith List Reals Lra.
From CF Require Import C16.Model.
From CF Require Import C16.Proofs.
Import ListNotations.
Open Scope R_scope.

(* align (transformation T1) -> _scale_system (factor s) -> align (transformation T2) on the base-station dict *)
Definition chain_asa (T1 T2 : poseR) (s : R) (bs : bsdict (F:=R)) (cf : list poseR) : bsdict (F:=R) :=
  let '(bs1, _, _) := scale_system Rops (align_apply Rops T1 bs) cf s in align_apply Rops T2 bs1.

Lemma chain_asa_value_level : forall T1 T2 s bs cf,
  chain_asa T1 T2 s bs cf = map (fun kv => (fst kv, rtp Rops T2 (pscale Rops (rtp Rops T1 (snd kv)) s))) bs.
Proof.
  intros. unfold chain_asa, scale_system, align_apply. rewrite !map_map. apply map_ext. intros [k P]. reflexivity.
Qed.

(* scale -> align -> scale *)
Definition chain_sas (T : poseR) (s1 s2 : R) (bs : bsdict (F:=R)) (cf : list poseR) : bsdict (F:=R) :=
  let '(bs1, _, _) := scale_system Rops bs cf s1 in
  let '(bs2, _, _) := scale_system Rops (align_apply Rops T bs1) cf s2 in bs2.

Lemma chain_sas_value_level : forall T s1 s2 bs cf,
  chain_sas T s1 s2 bs cf = map (fun kv => (fst kv, pscale Rops (rtp Rops T (pscale Rops (snd kv) s1)) s2)) bs.
Proof.
  intros. unfold chain_sas, scale_system, align_apply. rewrite !map_map. apply map_ext. intros [k P]. reflexivity.
Qed.

(* consequence: with rigid T1, T2 all distances of the final result are |s| times those of the input *)
Lemma rt_dist : forall T p q, orthogonal (rot T) -> dist (rt Rops T p) (rt Rops T q) = dist p q.
Proof. intros T p q H. unfold dist, norm. f_equal. exact (rt_dist2 T p q H). Qed.

Lemma chain_asa_distances : forall T1 T2 s P Q,
  orthogonal (rot T1) -> orthogonal (rot T2) ->
  dist (trans (rtp Rops T2 (pscale Rops (rtp Rops T1 P) s))) (trans (rtp Rops T2 (pscale Rops (rtp Rops T1 Q) s))) =
  Rabs s * dist (trans P) (trans Q).
Proof.
  intros T1 T2 s P Q H1 H2. rewrite !rtp_trans, (rt_dist T2 _ _ H2), scale_dist, !rtp_trans, (rt_dist T1 _ _ H1).
  reflexivity.
Qed.

(* ---- the cached-matrix variant ---- *)
(* a pose object with a lazily cached composite: composition reads the cache when present and pre-populates it on its
   result; scaling rebinds the translation and leaves the cache alone; the shallow copy carries it along *)
Record cpose : Type := MkC { cval : poseR; ccache : option poseR }.
Definition c_effective (c : cpose) : poseR := match ccache c with Some m => m | None => cval c end.
Definition c_compose (T P : cpose) : cpose :=
  let r := rtp Rops (c_effective T) (c_effective P) in MkC r (Some r).
Definition c_scale (c : cpose) (s : R) : cpose := MkC (pscale Rops (cval c) s) (ccache c).
Definition c_fresh (p : poseR) : cpose := MkC p None.

(* compose -> scale -> compose: the variant moves the UNSCALED pose *)
Lemma cached_variant_refuted : exists T P s,
  cval (c_compose (c_fresh T) (c_scale (c_compose (c_fresh T) (c_fresh P)) s)) <>
  rtp Rops T (pscale Rops (rtp Rops T P) s).
Proof.
  exists pid, (MkPose (mid Rops) (V3 1 0 0)), 2.
  unfold c_compose, c_scale, c_fresh, c_effective. cbn [cval ccache].
  intro H. apply (f_equal (fun p => vx (trans p))) in H. revert H. unfold pid. unf. lra.
Qed.

(* each step alone on fresh poses is exact in the variant: the defect needs the history *)
Lemma cached_variant_single_steps_exact : forall T P s,
  cval (c_compose (c_fresh T) (c_fresh P)) = rtp Rops T P /\ cval (c_scale (c_fresh P) s) = pscale Rops P s.
Proof. intros. split; reflexivity. Qed.
