(* C16/Proofs_chain.v — histories on the same poses.  A Pose is a VALUE (R, t); align's loop, _scale_system and pose
   composition are functions of the current values, so a chain align -> scale -> align is the composition of the
   value-level functions.  A variant that carries a cached composite matrix which scaling does not invalidate is
   refuted. *)
From Coq Require Import ZArith List Reals Lra.
From CF Require Import C16.Model.
From CF Require Import C16.Proofs.
Import ListNotations.
Open Scope R_scope.

(* align (transformation T1) -> _scale_system (factor s) -> align (transformation T2) on the base-station dict *)
Definition chain_asa (T1 T2 : poseR) (s : R) (bs : bsdict (F:=R)) (cf : list poseR) : bsdict (F:=R) :=
  let '(bs1, _, _) := scale_system Rops (align_apply Rops T1 bs) cf s in align_apply Rops T2 bs1.

Lemma chain_asa_value_level : forall T1 T2 s bs cf,
  chain_asa T1 T2 s bs cf = map (fun kv => (fst kv, rtp Rops T2 (pscale Rops (rtp Rops T1 (snd kv)) s))) bs.
Proof.
  intros. unfold chain_asa, scale_system, align_apply. rewrite !map_map. apply map_ext. intros [k P]. reflexivity.
Qed.

(* scale -> align -> scale *)
Definition chain_sas (T : poseR) (s1 s2 : R) (bs : bsdict (F:=R)) (cf : list poseR) : bsdict (F:=R) :=
  let '(bs1, _, _) := scale_system Rops bs cf s1 in
  let '(bs2, _, _) := scale_system Rops (align_apply Rops T bs1) cf s2 in bs2.

Lemma chain_sas_value_level : forall T s1 s2 bs cf,
  chain_sas T s1 s2 bs cf = map (fun kv => (fst kv, pscale Rops (rtp Rops T (pscale Rops (snd kv) s1)) s2)) bs.
Proof.
  intros. unfold chain_sas, scale_system, align_apply. rewrite !map_map. apply map_ext. intros [k P]. reflexivity.
Qed.

(* consequence: with rigid T1, T2 all distances of the final result are |s| times those of the input *)
Lemma rt_dist : forall T p q, orthogonal (rot T) -> dist (rt Rops T p) (rt Rops T q) = dist p q.
Proof. intros T p q H. unfold dist, norm. f_equal. exact (rt_dist2 T p q H). Qed.

Lemma chain_asa_distances : forall T1 T2 s P Q,
  orthogonal (rot T1) -> orthogonal (rot T2) ->
  dist (trans (rtp Rops T2 (pscale Rops (rtp Rops T1 P) s))) (trans (rtp Rops T2 (pscale Rops (rtp Rops T1 Q) s))) =
  Rabs s * dist (trans P) (trans Q).
Proof.
  intros T1 T2 s P Q H1 H2. rewrite !rtp_trans, (rt_dist T2 _ _ H2), scale_dist, !rtp_trans, (rt_dist T1 _ _ H1).
  reflexivity.
Qed.

(* ---- the cached-matrix variant ---- *)
(* a pose object with a lazily cached composite: composition reads the cache when present and pre-populates it on its
   result; scaling rebinds the translation and leaves the cache alone; the shallow copy carries it along *)
Record cpose : Type := MkC { cval : poseR; ccache : option poseR }.
Definition c_effective (c : cpose) : poseR := match ccache c with Some m => m | None => cval c end.
Definition c_compose (T P : cpose) : cpose :=
  let r := rtp Rops (c_effective T) (c_effective P) in MkC r (Some r).
Definition c_scale (c : cpose) (s : R) : cpose := MkC (pscale Rops (cval c) s) (ccache c).
Definition c_fresh (p : poseR) : cpose := MkC p None.

(* compose -> scale -> compose: the variant moves the UNSCALED pose *)
Lemma cached_variant_refuted : exists T P s,
  cval (c_compose (c_fresh T) (c_scale (c_compose (c_fresh T) (c_fresh P)) s)) <>
  rtp Rops T (pscale Rops (rtp Rops T P) s).
Proof.
  exists pid, (MkPose (mid Rops) (V3 1 0 0)), 2.
  unfold c_compose, c_scale, c_fresh, c_effective. cbn [cval ccache].
  intro H. apply (f_equal (fun p => vx (trans p))) in H. revert H. unfold pid. unf. lra.
Qed.

(* each step alone on fresh poses is exact in the variant: the defect needs the history *)
Lemma cached_variant_single_steps_exact : forall T P s,
  cval (c_compose (c_fresh T) (c_fresh P)) = rtp Rops T P /\ cval (c_scale (c_fresh P) s) = pscale Rops P s.
Proof. intros. split; reflexivity. Qed.

(* ---------------------------------------------------------------- Wave 17: samples and their poses *)
(* _calculate_mean_diagonal iterates  zip(cf_poses, matched_samples)  and, inside, the base stations seen in that sample:
   every sample is paired with ITS pose; a sample without angles contributes no diagonal. *)
Definition sample := list (poseR * (vecR * vecR * vecR * vecR)).          (* (bs pose, 4 sensor vectors) per station seen *)
Definition obs_of_samples (cfs : list poseR) (sams : list sample) : list diag_obs :=
  flat_map (fun cs => map (fun bv => (fst cs, fst bv, snd bv)) (snd cs)) (combine cfs sams).
Definition mean_diagonal_samples (cfs : list poseR) (sams : list sample) : R := mean_diagonal (obs_of_samples cfs sams).

Lemma obs_insert_empty : forall cfs1 sams1 cf cfs2 sams2, length cfs1 = length sams1 ->
  obs_of_samples (cfs1 ++ cf :: cfs2) (sams1 ++ [] :: sams2) = obs_of_samples (cfs1 ++ cfs2) (sams1 ++ sams2).
Proof.
  induction cfs1 as [|c cfs1 IH]; intros sams1 cf cfs2 sams2 Hl; destruct sams1 as [|s sams1]; try discriminate.
  - reflexivity.
  - unfold obs_of_samples in *. cbn [app combine flat_map]. f_equal. apply IH. cbn in Hl. congruence.
Qed.

Lemma mean_diagonal_insert_empty : forall cfs1 sams1 cf cfs2 sams2, length cfs1 = length sams1 ->
  mean_diagonal_samples (cfs1 ++ cf :: cfs2) (sams1 ++ [] :: sams2) = mean_diagonal_samples (cfs1 ++ cfs2) (sams1 ++ sams2).
Proof. intros. unfold mean_diagonal_samples. rewrite obs_insert_empty by assumption. reflexivity. Qed.

(* the filter-then-zip variant: angle-less samples are dropped from the SAMPLE list only, the poses keep their places *)
Definition obs_filter_then_zip (cfs : list poseR) (sams : list sample) : list diag_obs :=
  obs_of_samples cfs (filter (fun s => match s with [] => false | _ => true end) sams).

Lemma filter_then_zip_refuted : exists cfs sams,
  obs_filter_then_zip cfs sams <> obs_of_samples cfs sams.
Proof.
  set (c0 := MkPose (mid Rops) (V3 0 0 0)). set (c1 := MkPose (mid Rops) (V3 1 0 0)).
  set (v := V3 1 0 0). set (bv := (c0, (v, v, v, v))).
  exists [c0; c1], [[]; [bv]]. unfold obs_filter_then_zip, obs_of_samples. cbn.
  intro H. injection H as H. lra.
Qed.
