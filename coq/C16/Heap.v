(* C16/Heap.v — a small heap model of "copy.copy(pose) then pose.scale(factor)" (_scale_system) and of
   "Pose(R_matrix=R, t_vec=t)" (rotate_translate_pose in align), to state and prove that neither operation changes
   any object or array that existed before the call.

   Python facts modelled (checked on the source by the translator, harness/props/c16.py):
     Pose.__init__ stores np.array(R_matrix), np.array(t_vec)          -> two NEW arrays, one NEW object
     copy.copy(pose)                                                   -> NEW object sharing both arrays
     Pose.scale:  self._t_vec = self._t_vec * scale                    -> NEW array, attribute REBOUND (no in-place write)
   Arrays are never written in place by any of the modelled functions; the heap therefore only grows, and the only
   mutation is the rebinding of `_t_vec` on the copies. *)
From Coq Require Import List Arith Lia.
Import ListNotations.
Set Implicit Arguments.

Section Heap.
Variable A : Type.                         (* array values *)

Record obj : Type := MkObj { f_R : nat; f_t : nat }.        (* addresses of _R_matrix and _t_vec *)
Record heap : Type := MkHeap { arrs : list A; objs : list obj }.

Fixpoint update {X} (l : list X) (n : nat) (x : X) : list X :=
  match l, n with
  | [], _ => []
  | _ :: t, O => x :: t
  | h :: t, S k => h :: update t k x
  end.

Definition alloc_arr (h : heap) (v : A) : heap * nat := (MkHeap (arrs h ++ [v]) (objs h), length (arrs h)).
Definition alloc_obj (h : heap) (o : obj) : heap * nat := (MkHeap (arrs h) (objs h ++ [o]), length (objs h)).

(* what a Pose reference denotes: (rotation array, translation array) *)
Definition deref (h : heap) (o : nat) : option (A * A) :=
  match nth_error (objs h) o with
  | Some ob => match nth_error (arrs h) (f_R ob), nth_error (arrs h) (f_t ob) with
               | Some r, Some t => Some (r, t)
               | _, _ => None
               end
  | None => None
  end.

(* copy.copy(pose) *)
Definition copy_obj (h : heap) (o : nat) : option (heap * nat) :=
  match nth_error (objs h) o with Some ob => Some (alloc_obj h ob) | None => None end.

(* pose.scale(s) with  mul = (fun t => t * s) *)
Variable mul : A -> A.
Definition scale_obj (h : heap) (o : nat) : option heap :=
  match nth_error (objs h) o with
  | Some ob =>
      match nth_error (arrs h) (f_t ob) with
      | Some t => let '(h1, a) := alloc_arr h (mul t) in
                  Some (MkHeap (arrs h1) (update (objs h1) o (MkObj (f_R ob) a)))
      | None => None
      end
  | None => None
  end.

(* {id: copy.copy(p) ...} / [copy.copy(p) ...] *)
Fixpoint copy_all (h : heap) (os : list nat) : option (heap * list nat) :=
  match os with
  | [] => Some (h, [])
  | o :: r => match copy_obj h o with
              | Some (h1, c) => match copy_all h1 r with Some (h2, cs) => Some (h2, c :: cs) | None => None end
              | None => None
              end
  end.
(* for pose in copies: pose.scale(f) *)
Fixpoint scale_all (h : heap) (cs : list nat) : option heap :=
  match cs with
  | [] => Some h
  | c :: r => match scale_obj h c with Some h1 => scale_all h1 r | None => None end
  end.
(* _scale_system on a list of Pose references (the dict values followed by the list entries) *)
Definition scale_system_h (h : heap) (os : list nat) : option (heap * list nat) :=
  match copy_all h os with
  | Some (h1, cs) => match scale_all h1 cs with Some h2 => Some (h2, cs) | None => None end
  | None => None
  end.

(* Pose(R_matrix=R, t_vec=t): np.array(...) copies both *)
Definition new_pose (h : heap) (r t : A) : heap * nat :=
  let '(h1, ar) := alloc_arr h r in
  let '(h2, at_) := alloc_arr h1 t in
  alloc_obj h2 (MkObj ar at_).

Definition wf (h : heap) : Prop :=
  Forall (fun ob => f_R ob < length (arrs h) /\ f_t ob < length (arrs h)) (objs h).

(* h' keeps everything that existed in h *)
Definition preserves (h h' : heap) : Prop :=
  (forall a, a < length (arrs h) -> nth_error (arrs h') a = nth_error (arrs h) a) /\
  (forall o, o < length (objs h) -> nth_error (objs h') o = nth_error (objs h) o).

End Heap.
