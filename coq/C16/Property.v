(* C16/Property.v — property C16 (system alignment is rigid and exact; scaling is uniform), theorems only.
   Real-number development: Print Assumptions lists only the standard library's axioms for R.

   Full statement (properties.jsonl):  aligning applies ONE proper rigid transformation to all base stations
   (distances, relative orientations preserved) AND that transformation maps the origin sample to 0, x-axis
   samples onto +X, plane samples into Z=0 with the base stations above the floor whenever the misalignment is
   below 30 degrees (mirror flips corrected); scaling multiplies every translation by the single factor that makes
   the reference distance / sensor diagonal correct and leaves rotations unchanged; inputs are not modified.

   PROVED here, for every value the optimiser may return ([opt] is universally quantified):
   rigidity, de-flip decisions, "zero residual <=> aligned", exactness and uniqueness GIVEN a zero-residual
   answer, uniform scaling and correctness of both scale factors, inputs unchanged (heap model).
   The tie of the model functions to the CURRENT sources (generated code = model) is C16/GenProperty.v.
   NOT PROVED: that scipy's least_squares reaches the zero residual within its evaluation budget
   (C16_full's convergence clause) — validated by sampling against ground truth (harness/props/c16.py). *)
From Coq Require Import ZArith List Reals.
From CF Require Import C16.Model.
From CF Require Import C16.Proofs.
From CF Require Import C16.Proofs_unique.
From CF Require Import C16.Heap.
From CF Require Import C16.Heap_proofs.
From CF Require Import C16.Proofs_chain.
Import ListNotations.
Open Scope R_scope.

(* align(): whatever the optimiser returns, ONE proper rotation+translation T is applied to every base station
   (same keys, same order); pairwise distances and relative orientations are preserved; rotation matrices stay
   proper.  The call raises (None) exactly for an empty base-station dict. *)
Theorem C16_align_is_one_rigid_motion : forall opt origin x_axis plane bs res T,
  align opt origin x_axis plane bs = Some (res, T) ->
  proper (rot T) /\
  res = map (fun kv => (fst kv, rtp Rops T (snd kv))) bs /\
  (forall i j ki kj Pi Pj,
     nth_error bs i = Some (ki, Pi) -> nth_error bs j = Some (kj, Pj) ->
     exists Pi' Pj', nth_error res i = Some (ki, Pi') /\ nth_error res j = Some (kj, Pj') /\
       dist (trans Pi') (trans Pj') = dist (trans Pi) (trans Pj) /\
       mm Rops (transpose (rot Pi')) (rot Pj') = mm Rops (transpose (rot Pi)) (rot Pj) /\
       (proper (rot Pi) -> proper (rot Pi'))).
Proof. exact align_one_rigid_motion. Qed.
Print Assumptions C16_align_is_one_rigid_motion.

Theorem C16_align_raises_iff_no_base_station : forall opt origin x_axis plane bs,
  align opt origin x_axis plane bs = None <-> bs = [].
Proof. exact align_raises_iff_no_base_station. Qed.
Print Assumptions C16_align_raises_iff_no_base_station.

(* _de_flip_transformation: the result is proper, is the raw transformation composed with none, one or both half
   turns, puts the mean of the x-axis samples at X >= 0 and the first base station at Z >= 0 *)
Theorem C16_deflip_correct : forall raw x_axis k b0 rest,
  proper (rot raw) ->
  exists T, deflip Rops raw x_axis ((k, b0) :: rest) = Some T /\
    proper (rot T) /\
    0 <= vx (rt Rops T (vmean Rops x_axis)) /\
    0 <= vz (rt Rops T (trans b0)) /\
    (T = raw \/ T = rtp Rops (flipZ Rops) raw \/ T = rtp Rops (flipX Rops) raw \/
     T = rtp Rops (flipX Rops) (rtp Rops (flipZ Rops) raw)).
Proof. exact deflip_correct. Qed.
Print Assumptions C16_deflip_correct.

(* the matrices the code builds with Pose.from_rot_vec((0,0,pi)) / ((pi,0,0)) are the model's exact half turns *)
Theorem C16_half_turns : from_rotvec (V3 0 0 PI) = rot (flipZ Rops) /\ from_rotvec (V3 PI 0 0) = rot (flipX Rops) /\
  proper (rot (flipZ Rops)) /\ proper (rot (flipX Rops)).
Proof. exact (conj from_rotvec_half_turn_z (conj from_rotvec_half_turn_x (conj flipZ_proper flipX_proper))). Qed.
Print Assumptions C16_half_turns.

(* every parameter vector denotes a proper rotation (Rodrigues) *)
Theorem C16_params_give_proper_rotation : forall x, proper (rot (pose_from_params x)).
Proof. exact pose_from_params_proper. Qed.
Print Assumptions C16_params_give_proper_rotation.

(* the residual vanishes exactly for aligned transformations *)
Theorem C16_residual_zero_iff_aligned : forall T origin x_axis plane,
  all_zero (residual Rops T origin x_axis plane) <-> aligned T origin x_axis plane.
Proof. exact residual_zero_iff_aligned. Qed.
Print Assumptions C16_residual_zero_iff_aligned.

(* the cost (sum of squared residuals) is invariant under the two half turns: the optimiser cannot tell the four
   mirror variants apart, which is why _de_flip_transformation is needed *)
Theorem C16_four_solutions : forall T origin x_axis plane,
  sumsq (residual Rops (rtp Rops (flipZ Rops) T) origin x_axis plane) = sumsq (residual Rops T origin x_axis plane) /\
  sumsq (residual Rops (rtp Rops (flipX Rops) T) origin x_axis plane) = sumsq (residual Rops T origin x_axis plane).
Proof. exact residual_flip_invariant. Qed.
Print Assumptions C16_four_solutions.

(* exactness given convergence: a zero-residual answer of the optimiser yields, after de-flipping, an aligned
   transformation with the x-axis mean at X >= 0 and the first base station of the RESULT at Z >= 0 *)
Theorem C16_align_exact_if_converged : forall opt origin x_axis plane bs res T,
  align opt origin x_axis plane bs = Some (res, T) ->
  all_zero (residual Rops (pose_from_params (opt origin x_axis plane)) origin x_axis plane) ->
  aligned T origin x_axis plane /\
  0 <= vx (rt Rops T (vmean Rops x_axis)) /\
  (exists k b0 rest b0', bs = (k, b0) :: rest /\ hd_error res = Some (k, b0') /\ 0 <= vz (trans b0')).
Proof. exact align_exact_if_converged. Qed.
Print Assumptions C16_align_exact_if_converged.

(* exactness GIVEN convergence, against ground truth: if the inputs are the view through a misalignment M of a ground
   truth (origin at 0, x-axis samples on +X, plane samples in Z=0 with one off the X axis, first base station above the
   floor) and the optimiser's answer has zero residual — whichever of the four mirror solutions it is — then align
   returns T = M^-1 exactly and every base station gets its ground-truth pose back.  (No bound on the misalignment is
   needed for this part; the 30 degree bound of the property only matters for the optimiser's convergence.) *)
Theorem C16_converged_answer_recovers_ground_truth : forall opt M origin x_axis plane bs,
  misaligned_view M origin x_axis plane bs ->
  all_zero (residual Rops (pose_from_params (opt origin x_axis plane)) origin x_axis plane) ->
  exists res T, align opt origin x_axis plane bs = Some (res, T) /\ rtp Rops T M = pid /\
    forall i k P, nth_error bs i = Some (k, rtp Rops M P) -> nth_error res i = Some (k, P).
Proof. exact align_recovers_ground_truth. Qed.
Print Assumptions C16_converged_answer_recovers_ground_truth.

(* _scale_system: every translation times the one factor, rotations untouched, keys/order/length kept *)
Theorem C16_scale_uniform : forall bs cf s bs' cf' s',
  scale_system Rops bs cf s = (bs', cf', s') ->
  s' = s /\
  length bs' = length bs /\ length cf' = length cf /\
  (forall i k P, nth_error bs i = Some (k, P) ->
     exists P', nth_error bs' i = Some (k, P') /\ rot P' = rot P /\ trans P' = smul Rops (trans P) s) /\
  (forall i P, nth_error cf i = Some P ->
     exists P', nth_error cf' i = Some P' /\ rot P' = rot P /\ trans P' = smul Rops (trans P) s).
Proof. exact scale_system_uniform. Qed.
Print Assumptions C16_scale_uniform.

Theorem C16_scale_distances : forall P Q s,
  dist (trans (pscale Rops P s)) (trans (pscale Rops Q s)) = Rabs s * dist (trans P) (trans Q).
Proof. exact scale_dist. Qed.
Print Assumptions C16_scale_distances.

(* scale_fixed_point: afterwards the reference position is at the expected distance from the origin *)
Theorem C16_scale_factor_correct_fixed_point : forall expected actual,
  trans actual <> V3 0 0 0 ->
  norm (trans (pscale Rops actual (fixed_point_factor expected actual))) = norm expected /\
  0 <= fixed_point_factor expected actual.
Proof. exact fixed_point_factor_correct. Qed.
Print Assumptions C16_scale_factor_correct_fixed_point.

(* scale_diagonals: the mean sensor diagonal recomputed in the scaled system is the expected one *)
Theorem C16_scale_factor_correct_diagonals : forall expected obs,
  0 < mean_diagonal obs -> 0 <= expected ->
  mean_diagonal (scale_obs (diagonals_factor expected obs) obs) = expected.
Proof. exact diagonals_factor_correct. Qed.
Print Assumptions C16_scale_factor_correct_diagonals.

(* Neither operation modifies its inputs (heap model, C16/Heap.v): _scale_system = shallow copies, then on each copy
   `_t_vec` is rebound to a new array.  Every array and every object that existed before is unchanged, the results are
   fresh objects, every pre-existing Pose denotes what it denoted before, and the i-th copy denotes the scaled i-th input.
   (A is the type of array values, mul the multiplication by the factor.) *)
Theorem C16_inputs_unchanged_scale : forall (A : Type) (mul : A -> A) (h h' : heap A) os cs,
  wf h -> Forall (fun o => (o < length (objs h))%nat) os ->
  scale_system_h mul h os = Some (h', cs) ->
  preserves h h' /\
  length cs = length os /\ Forall (fun c => (length (objs h) <= c)%nat) cs /\
  (forall o, (o < length (objs h))%nat -> deref h' o = deref h o) /\
  (forall i o c, nth_error os i = Some o -> nth_error cs i = Some c ->
     deref h' c = option_map (fun rt => (fst rt, mul (snd rt))) (deref h o)).
Proof. exact scale_system_h_spec. Qed.
Print Assumptions C16_inputs_unchanged_scale.

(* align builds every result with Pose(R_matrix=R, t_vec=t): two new arrays and a new object; nothing old changes *)
Theorem C16_inputs_unchanged_align : forall (A : Type) (h : heap A) r t,
  let '(h', o) := new_pose h r t in
  preserves h h' /\ o = length (objs h) /\ deref h' o = Some (r, t) /\
  (wf h -> wf h' /\ forall p, (p < length (objs h))%nat -> deref h' p = deref h p).
Proof. exact new_pose_spec. Qed.
Print Assumptions C16_inputs_unchanged_align.

(* Shared references in the inputs (one Pose instance at several positions of cf_poses / under several base-station
   ids; one array used as the translation of two Pose instances): the per-entry shallow copy gives every position its
   own fresh object (the result references are pairwise distinct), a repeated input is scaled exactly once per position,
   and a shared translation array is left untouched while both copies get (separately allocated) scaled values. *)
Theorem C16_scale_shared_references : forall (A : Type) (mul : A -> A) (h h' : heap A) os cs,
  wf h -> Forall (fun o => (o < length (objs h))%nat) os ->
  scale_system_h mul h os = Some (h', cs) ->
  NoDup cs /\
  (forall i j o, i <> j -> nth_error os i = Some o -> nth_error os j = Some o ->
     exists ci cj, nth_error cs i = Some ci /\ nth_error cs j = Some cj /\ ci <> cj /\
       deref h' ci = option_map (fun rt => (fst rt, mul (snd rt))) (deref h o) /\
       deref h' cj = option_map (fun rt => (fst rt, mul (snd rt))) (deref h o)) /\
  (forall i j oi oj obi obj_, nth_error os i = Some oi -> nth_error os j = Some oj ->
     nth_error (objs h) oi = Some obi -> nth_error (objs h) oj = Some obj_ -> f_t obi = f_t obj_ ->
     nth_error (arrs h') (f_t obi) = nth_error (arrs h) (f_t obi) /\
     forall ci cj, nth_error cs i = Some ci -> nth_error cs j = Some cj ->
       option_map snd (deref h' ci) = option_map snd (deref h' cj) \/ deref h oi = None \/ deref h oj = None).
Proof. exact scale_system_h_shared. Qed.
Print Assumptions C16_scale_shared_references.

(* Histories on the same poses (Wave 12).  A Pose is a value (R, t) and align's loop, _scale_system and composition are
   functions of the current values, so align -> scale -> align (and scale -> align -> scale) on the outputs of the
   previous step is the composition of the value-level functions, entry by entry; with rigid transformations every
   distance of the final result is |s| times the corresponding input distance. *)
Theorem C16_chain_is_value_level : forall T1 T2 s s2 bs cf,
  chain_asa T1 T2 s bs cf = map (fun kv => (fst kv, rtp Rops T2 (pscale Rops (rtp Rops T1 (snd kv)) s))) bs /\
  chain_sas T1 s s2 bs cf = map (fun kv => (fst kv, pscale Rops (rtp Rops T1 (pscale Rops (snd kv) s)) s2)) bs /\
  (orthogonal (rot T1) -> orthogonal (rot T2) -> forall P Q,
     dist (trans (rtp Rops T2 (pscale Rops (rtp Rops T1 P) s))) (trans (rtp Rops T2 (pscale Rops (rtp Rops T1 Q) s))) =
     Rabs s * dist (trans P) (trans Q)).
Proof.
  intros. split; [apply chain_asa_value_level|]. split; [apply chain_sas_value_level|].
  intros H1 H2 P Q. apply chain_asa_distances; assumption.
Qed.
Print Assumptions C16_chain_is_value_level.

(* A pose object that carries a cached composite which composition reads and pre-populates but scaling does not
   invalidate (and the shallow copy carries along) does NOT have this property: compose -> scale -> compose moves the
   unscaled pose, although every single step on fresh poses is exact. *)
Theorem C16_cached_matrix_variant_refuted :
  (exists T P s, cval (c_compose (c_fresh T) (c_scale (c_compose (c_fresh T) (c_fresh P)) s)) <>
                 rtp Rops T (pscale Rops (rtp Rops T P) s)) /\
  (forall T P s, cval (c_compose (c_fresh T) (c_fresh P)) = rtp Rops T P /\ cval (c_scale (c_fresh P) s) = pscale Rops P s).
Proof. exact (conj cached_variant_refuted cached_variant_single_steps_exact). Qed.
Print Assumptions C16_cached_matrix_variant_refuted.

(* Wave 17.  _calculate_mean_diagonal pairs every sample with ITS Crazyflie pose (zip over both lists) and a sample
   without base-station angles contributes no diagonal: inserting angle-less samples, with arbitrary poses, anywhere in the
   lists leaves the observations and hence the mean diagonal (and the scale factor) unchanged.  Dropping the angle-less
   samples from the sample list only and zipping the rest with the unfiltered pose list does not have this property. *)
Theorem C16_mean_diagonal_pairs_samples_with_their_poses :
  (forall cfs1 sams1 cf cfs2 sams2, length cfs1 = length sams1 ->
     obs_of_samples (cfs1 ++ cf :: cfs2) (sams1 ++ [] :: sams2) = obs_of_samples (cfs1 ++ cfs2) (sams1 ++ sams2) /\
     mean_diagonal_samples (cfs1 ++ cf :: cfs2) (sams1 ++ [] :: sams2) = mean_diagonal_samples (cfs1 ++ cfs2) (sams1 ++ sams2)) /\
  (exists cfs sams, obs_filter_then_zip cfs sams <> obs_of_samples cfs sams).
Proof.
  split; [|exact filter_then_zip_refuted]. intros. split; [apply obs_insert_empty | apply mean_diagonal_insert_empty]; assumption.
Qed.
Print Assumptions C16_mean_diagonal_pairs_samples_with_their_poses.
