(* C16/Proofs_unique.v — exactness GIVEN convergence: a zero-residual answer of the optimiser is, after
   de-flipping, exactly the inverse of the misalignment, so the aligned poses are the ground-truth poses. *)
From Coq Require Import ZArith List Reals Lra Nsatz Psatz.
From CF Require Import C16.Model.
From CF Require Import C16.Proofs.
Import ListNotations.
Open Scope R_scope.

(* ---- np.mean commutes with an affine map, and keeps the x-axis samples on the positive X axis ---- *)
Lemma vsum_affine : forall (M : poseR) l acc k,
  fold_left (vadd Rops) (map (rt Rops M) l) (vadd Rops (mv Rops (rot M) acc) (smul Rops (trans M) k)) =
  vadd Rops (mv Rops (rot M) (fold_left (vadd Rops) l acc)) (smul Rops (trans M) (k + INR (length l))).
Proof.
  intros M l. induction l as [|p l IH]; intros acc k.
  - cbn [map fold_left length INR]. rewrite Rplus_0_r. reflexivity.
  - cbn [map fold_left length]. rewrite S_INR.
    replace (vadd Rops (vadd Rops (mv Rops (rot M) acc) (smul Rops (trans M) k)) (rt Rops M p))
      with (vadd Rops (mv Rops (rot M) (vadd Rops acc p)) (smul Rops (trans M) (k + 1))).
    + rewrite IH. f_equal. f_equal. ring.
    + dp M. dv acc. dv p. vring.
Qed.

Lemma vmean_affine : forall (M : poseR) l, l <> [] ->
  vmean Rops (map (rt Rops M) l) = rt Rops M (vmean Rops l).
Proof.
  intros M l Hl. unfold vmean, vsum. rewrite map_length.
  assert (Hn : IZR (Z.of_nat (length l)) <> 0).
  { rewrite <- INR_IZR_INZ. apply not_0_INR. destruct l; [contradiction|discriminate]. }
  pose proof (vsum_affine M l (vzero Rops) 0) as H.
  replace (vadd Rops (mv Rops (rot M) (vzero Rops)) (smul Rops (trans M) 0)) with (vzero Rops) in H
    by (dp M; vring).
  rewrite H. rewrite Rplus_0_l, INR_IZR_INZ.
  set (n := IZR (Z.of_nat (length l))) in *. set (s := fold_left (vadd Rops) l (vzero Rops)).
  cbn [oZ Rops]. fold n. dp M. dv s. unf. apply vec_eq; field; exact Hn.
Qed.


Lemma vsum_on_x : forall l acc, Forall on_pos_x l -> 0 <= vx acc -> vy acc = 0 -> vz acc = 0 ->
  let s := fold_left (vadd Rops) l acc in
  vx acc <= vx s /\ (l <> [] -> 0 < vx s) /\ vy s = 0 /\ vz s = 0.
Proof.
  induction l as [|p l IH]; intros acc Hf Hx Hy Hz; cbn [fold_left].
  - repeat split; try assumption; try lra; try (intro H; contradiction).
  - inversion Hf as [|? ? (Hp1 & Hp2 & Hp3) Hf']; subst.
    destruct (IH (vadd Rops acc p) Hf') as (I1 & I2 & I3 & I4).
    + dv acc. dv p. unf. lra.
    + dv acc. dv p. unf. lra.
    + dv acc. dv p. unf. lra.
    + assert (Hs : vx (vadd Rops acc p) = vx acc + vx p) by (dv acc; dv p; reflexivity).
      rewrite Hs in I1. repeat split; try assumption; try lra.
Qed.

Lemma vmean_on_x : forall l, l <> [] -> Forall on_pos_x l -> on_pos_x (vmean Rops l).
Proof.
  intros l Hl Hf. unfold vmean, vsum.
  destruct (vsum_on_x l (vzero Rops) Hf) as (_ & I2 & I3 & I4); try (unf; lra).
  specialize (I2 Hl).
  assert (Hn : 0 < IZR (Z.of_nat (length l))).
  { rewrite <- INR_IZR_INZ. apply lt_0_INR. destruct l; [contradiction|cbn; apply Nat.lt_0_succ]. }
  cbn [oZ Rops]. set (n := IZR (Z.of_nat (length l))) in *. set (s := fold_left (vadd Rops) l (vzero Rops)) in *.
  dv s. unfold on_pos_x. unf. subst. repeat split.
  - apply Rmult_lt_0_compat; [exact I2 | apply Rinv_0_lt_compat; exact Hn].
  - unfold Rdiv. ring.
  - unfold Rdiv. ring.
Qed.

(* ---- a proper rotation that fixes the X axis as a line and keeps Z = 0 for a point off the X axis is diagonal ---- *)
Lemma diag_rotation : forall (Q : matR) a b c,
  proper Q -> 0 < a -> c <> 0 ->
  vy (mv Rops Q (V3 a 0 0)) = 0 -> vz (mv Rops Q (V3 a 0 0)) = 0 ->
  vz (mv Rops Q (V3 b c 0)) = 0 ->
  exists e1 e2 e3, Q = M3 (V3 e1 0 0) (V3 0 e2 0) (V3 0 0 e3) /\
    (e1 = 1 \/ e1 = -1) /\ (e2 = 1 \/ e2 = -1) /\ (e3 = 1 \/ e3 = -1) /\ e1 * e2 * e3 = 1.
Proof.
  intros Q a b c [Ho Hd] Ha Hc G1 G2 G3. dm Q.
  apply orthogonal_eqs in Ho. destruct Ho as (O1 & O2 & O3 & O4 & O5 & O6). unf.
  assert (E21 : Q2x = 0) by nra.
  assert (E31 : Q3x = 0) by nra.
  subst Q2x Q3x.
  assert (E32 : Q3y = 0).
  { assert (c * Q3y = 0) by lra. apply Rmult_integral in H. destruct H; [contradiction|assumption]. }
  subst Q3y.
  assert (S1 : Q1x * Q1x = 1) by lra.
  assert (N1 : Q1x <> 0) by (intro; subst; lra).
  assert (E12 : Q1y = 0).
  { assert (Q1x * Q1y = 0) by lra. apply Rmult_integral in H. destruct H; [contradiction|assumption]. }
  subst Q1y.
  assert (S2 : Q2y * Q2y = 1) by lra.
  assert (N2 : Q2y <> 0) by (intro; subst; lra).
  assert (E13 : Q1z = 0).
  { assert (Q1x * Q1z = 0) by lra. apply Rmult_integral in H. destruct H; [contradiction|assumption]. }
  subst Q1z.
  assert (E23 : Q2z = 0).
  { assert (Q2y * Q2z = 0) by lra. apply Rmult_integral in H. destruct H; [contradiction|assumption]. }
  subst Q2z.
  assert (S3 : Q3z * Q3z = 1) by lra.
  exists Q1x, Q2y, Q3z. split; [reflexivity|].
  assert (sq1 : forall e, e * e = 1 -> e = 1 \/ e = -1).
  { intros e He. assert ((e - 1) * (e + 1) = 0) by lra. apply Rmult_integral in H. destruct H; [left|right]; lra. }
  repeat split; try (apply sq1; assumption). lra.
Qed.


Lemma rtp_assoc : forall A B C, rtp Rops (rtp Rops A B) C = rtp Rops A (rtp Rops B C).
Proof.
  intros. dp A. dp B. dp C. unfold rtp. cbn [rot trans]. f_equal; [mring | vring].
Qed.
Lemma rtp_pid : forall P, rtp Rops pid P = P.
Proof. intros. dp P. unfold rtp, pid. cbn [rot trans]. f_equal; [mring | vring]. Qed.

Lemma converged_is_inverse : forall raw M origin x_axis plane bs,
  proper (rot raw) ->
  misaligned_view M origin x_axis plane bs ->
  all_zero (residual Rops raw origin x_axis plane) ->
  exists T, deflip Rops raw x_axis bs = Some T /\ rtp Rops T M = pid.
Proof.
  intros raw M o xa pl bs Hraw (xs & ps & k & B0 & rest & HM & Ho & Hx & Hxs1 & Hxs2 & Hp & Hps1 & Hps2 & Hbs & HB0) Hz.
  apply residual_zero_iff_aligned in Hz. destruct Hz as (Z1 & Z2 & Z3).
  set (H := rtp Rops raw M).
  assert (HH : proper (rot H)) by (apply rtp_proper; assumption).
  assert (Hrt : forall p, rt Rops raw (rt Rops M p) = rt Rops H p) by (intro p; unfold H; rewrite rt_rtp; reflexivity).
  (* translation of H is zero *)
  subst o. rewrite Hrt in Z1.
  assert (Ht : trans H = V3 0 0 0).
  { destruct H as [Hr Htv]. dm Hr. dv Htv. cbn [trans]. unf. injection Z1 as E1 E2 E3. apply vec_eq; lra. }
  assert (Hlin : forall p, rt Rops H p = mv Rops (rot H) p).
  { intro p. unfold rt. rewrite Ht. destruct (mv Rops (rot H) p) as [a b c]. vring. }
  (* one x sample and one off-axis plane sample *)
  destruct xs as [|x0 xs']; [contradiction|].
  inversion Hxs2 as [|? ? (X1 & X2 & X3) _]; subst.
  cbn [map] in Z2. inversion Z2 as [|? ? [Y1 Y2] _]; subst.
  rewrite Hrt, Hlin in Y1, Y2.
  apply Exists_exists in Hps2. destruct Hps2 as (p0 & Hin & Hp0).
  rewrite Forall_forall in Hps1. pose proof (Hps1 p0 Hin) as Hp0z.
  rewrite Forall_forall in Z3. pose proof (Z3 (rt Rops M p0) (in_map _ _ _ Hin)) as W.
  cbn beta in W. rewrite Hrt, Hlin in W.
  destruct x0 as [a ay az]. cbn [vx vy vz] in X1, X2, X3. subst ay az.
  destruct p0 as [b c cz]. cbn [vy vz] in Hp0, Hp0z. subst cz.
  destruct (diag_rotation (rot H) a b c HH X1 Hp0 Y1 Y2 W) as (e1 & e2 & e3 & HD & E1 & E2 & E3 & Edet).
  (* the two tests of deflip *)
  assert (Hmean : on_pos_x (vmean Rops (V3 a 0 0 :: xs'))) by (apply vmean_on_x; assumption).
  destruct (vmean Rops (V3 a 0 0 :: xs')) as [ma my mz] eqn:Em. destruct Hmean as (Hm1 & Hm2 & Hm3).
  cbn [vx vy vz] in Hm1, Hm2, Hm3. subst my mz.
  unfold deflip. rewrite vmean_affine by discriminate. rewrite Em.
  rewrite Hrt, Hlin. cbn [trans rtp]. fold (rt Rops M (trans B0)). rewrite Hrt, Hlin. rewrite HD.
  destruct (trans B0) as [bx by_ bz] eqn:EB. cbn [vz] in HB0.
  assert (Htest1 : vx (mv Rops (M3 (V3 e1 0 0) (V3 0 e2 0) (V3 0 0 e3)) (V3 ma 0 0)) = e1 * ma) by (unf; ring).
  assert (Htest2 : vz (mv Rops (M3 (V3 e1 0 0) (V3 0 e2 0) (V3 0 0 e3)) (V3 bx by_ bz)) = e3 * bz) by (unf; ring).
  rewrite Htest1, Htest2. cbn [oZ Rops].
  assert (HHeq : H = MkPose (M3 (V3 e1 0 0) (V3 0 e2 0) (V3 0 0 e3)) (V3 0 0 0)).
  { destruct H as [Hr Htv]. cbn [rot trans] in HD, Ht. subst. reflexivity. }
  assert (Hcomp : forall F, rtp Rops (rtp Rops F raw) M = rtp Rops F H) by (intro F; unfold H; apply rtp_assoc).
  destruct E1 as [-> | ->]; destruct E3 as [-> | ->].
  - (* e1 = 1, e3 = 1 *)
    assert (e2 = 1) by lra. subst e2.
    rewrite (proj2 (oltb_false (1 * ma) 0)), (proj2 (oltb_false (1 * bz) 0)) by lra.
    eexists; split; [reflexivity|]. change (H = pid). rewrite HHeq. reflexivity.
  - (* e1 = 1, e3 = -1 : flip about X *)
    assert (e2 = -1) by lra. subst e2.
    rewrite (proj2 (oltb_false (1 * ma) 0)), (proj2 (oltb_true (-1 * bz) 0)) by lra.
    eexists; split; [reflexivity|]. rewrite Hcomp, HHeq. unfold rtp, pid. cbn [rot trans]. f_equal; [mring | vring].
  - (* e1 = -1, e3 = 1 : flip about Z *)
    assert (e2 = -1) by lra. subst e2.
    rewrite (proj2 (oltb_true (-1 * ma) 0)), (proj2 (oltb_false (1 * bz) 0)) by lra.
    eexists; split; [reflexivity|]. rewrite Hcomp, HHeq. unfold rtp, pid. cbn [rot trans]. f_equal; [mring | vring].
  - (* e1 = -1, e3 = -1 : both *)
    assert (e2 = 1) by lra. subst e2.
    rewrite (proj2 (oltb_true (-1 * ma) 0)), (proj2 (oltb_true (-1 * bz) 0)) by lra.
    eexists; split; [reflexivity|]. rewrite rtp_assoc, Hcomp, HHeq. unfold rtp, pid. cbn [rot trans]. f_equal; [mring | vring].
Qed.

(* end to end: align with a converged optimiser returns exactly the ground-truth poses *)
Lemma align_recovers_ground_truth : forall opt M origin x_axis plane bs,
  misaligned_view M origin x_axis plane bs ->
  all_zero (residual Rops (pose_from_params (opt origin x_axis plane)) origin x_axis plane) ->
  exists res T, align opt origin x_axis plane bs = Some (res, T) /\ rtp Rops T M = pid /\
    forall i k P, nth_error bs i = Some (k, rtp Rops M P) -> nth_error res i = Some (k, P).
Proof.
  intros opt M o xa pl bs Hv Hz.
  destruct (converged_is_inverse _ M o xa pl bs (pose_from_params_proper _) Hv Hz) as (T & HT & Hinv).
  exists (align_apply Rops T bs), T. unfold align. rewrite HT. split; [reflexivity|]. split; [exact Hinv|].
  intros i k P Hi. rewrite (align_apply_nth T bs i k _ Hi). rewrite <- rtp_assoc, Hinv, rtp_pid. reflexivity.
Qed.
