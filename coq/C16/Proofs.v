(* C16/Proofs.v — rigid-motion algebra over R for the aligner/scaler model. *)
From Coq Require Import ZArith List Reals Lra Nsatz Psatz.
From CF Require Import C16.Model.
Import ListNotations.
Open Scope R_scope.

Ltac unf := unfold flipZ, flipX, proper, orthogonal, rtp, rt, pscale, mm, mv, transpose, col1, col2, col3, mid, det,
  dist2, norm2, dot, vadd, vsub, smul, sdiv, vzero, m1 in *;
  cbn [oadd osub omul odiv oZ oltb Rops rot trans r1 r2 r3 vx vy vz] in *.

Ltac dv v := let a := fresh v "x" in let b := fresh v "y" in let c := fresh v "z" in destruct v as [a b c].
Ltac dm m := let a := fresh m "1" in let b := fresh m "2" in let c := fresh m "3" in
  destruct m as [a b c]; dv a; dv b; dv c.
Ltac dp P := let m := fresh P "r" in let t := fresh P "t" in destruct P as [m t]; dm m; dv t.

Lemma vec_eq : forall a b c a' b' c' : R, a = a' -> b = b' -> c = c' -> V3 a b c = V3 a' b' c'.
Proof. intros; subst; reflexivity. Qed.
Lemma mat_eq : forall (a b c a' b' c' : vec R), a = a' -> b = b' -> c = c' -> M3 a b c = M3 a' b' c'.
Proof. intros; subst; reflexivity. Qed.
Ltac mring := unf; apply mat_eq; apply vec_eq; ring.
Ltac vring := unf; apply vec_eq; ring.

(* ---------------------------------------------------------------- matrix algebra (ring identities) *)
Lemma mm_assoc : forall A B C, mm Rops (mm Rops A B) C = mm Rops A (mm Rops B C).
Proof. intros. dm A. dm B. dm C. mring. Qed.
Lemma transpose_mm : forall A B, transpose (mm Rops A B) = mm Rops (transpose B) (transpose A).
Proof. intros. dm A. dm B. mring. Qed.
Lemma mm_id_l : forall A, mm Rops (mid Rops) A = A.
Proof. intros. dm A. mring. Qed.
Lemma mm_id_r : forall A, mm Rops A (mid Rops) = A.
Proof. intros. dm A. mring. Qed.
Lemma det_mm : forall A B, det Rops (mm Rops A B) = det Rops A * det Rops B.
Proof. intros. dm A. dm B. unf. ring. Qed.
Lemma mv_mm : forall A B v, mv Rops (mm Rops A B) v = mv Rops A (mv Rops B v).
Proof. intros. dm A. dm B. dv v. vring. Qed.
Lemma mv_vsub : forall A p q, vsub Rops (mv Rops A p) (mv Rops A q) = mv Rops A (vsub Rops p q).
Proof. intros. dm A. dv p. dv q. vring. Qed.
Lemma norm2_mv : forall A v, norm2 Rops (mv Rops A v) = dot Rops v (mv Rops (mm Rops (transpose A) A) v).
Proof. intros. dm A. dv v. unf. ring. Qed.
Lemma mv_id : forall v, mv Rops (mid Rops) v = v.
Proof. intros. dv v. vring. Qed.
Lemma rt_vsub : forall T p q, vsub Rops (rt Rops T p) (rt Rops T q) = mv Rops (rot T) (vsub Rops p q).
Proof. intros. dp T. dv p. dv q. vring. Qed.

(* orthogonality as six polynomial equations *)
Lemma orthogonal_eqs : forall a b c d e f g h i,
  orthogonal (M3 (V3 a b c) (V3 d e f) (V3 g h i)) <->
  (a*a + d*d + g*g = 1 /\ a*b + d*e + g*h = 0 /\ a*c + d*f + g*i = 0 /\
   b*b + e*e + h*h = 1 /\ b*c + e*f + h*i = 0 /\ c*c + f*f + i*i = 1).
Proof.
  intros. unf. split.
  - intro H. injection H. intros. repeat split; lra.
  - intros (H1 & H2 & H3 & H4 & H5 & H6). apply mat_eq; apply vec_eq; lra.
Qed.

(* R^T R = I and det = 1 imply R R^T = I (rows are orthonormal too) *)
Lemma orthogonal_rows : forall a b c d e f g h i,
  proper (M3 (V3 a b c) (V3 d e f) (V3 g h i)) ->
  (a*a + b*b + c*c = 1 /\ a*d + b*e + c*f = 0 /\ a*g + b*h + c*i = 0 /\
   d*d + e*e + f*f = 1 /\ d*g + e*h + f*i = 0 /\ g*g + h*h + i*i = 1).
Proof.
  intros a b c d e f g h i [Ho Hd]. apply orthogonal_eqs in Ho.
  destruct Ho as (H1 & H2 & H3 & H4 & H5 & H6). unf.
  repeat split; nsatz.
Qed.

(* ---------------------------------------------------------------- rigid motions *)
Lemma mm_orthogonal : forall A B, orthogonal A -> orthogonal B -> orthogonal (mm Rops A B).
Proof.
  unfold orthogonal. intros A B HA HB.
  rewrite transpose_mm, mm_assoc, <- (mm_assoc (transpose A) A B), HA, mm_id_l. exact HB.
Qed.

Lemma mm_proper : forall A B, proper A -> proper B -> proper (mm Rops A B).
Proof.
  intros A B [HoA HdA] [HoB HdB]. split.
  - apply mm_orthogonal; assumption.
  - rewrite det_mm, HdA, HdB. ring.
Qed.

Lemma rtp_proper : forall T P, proper (rot T) -> proper (rot P) -> proper (rot (rtp Rops T P)).
Proof. intros. unfold rtp; cbn [rot]. apply mm_proper; assumption. Qed.

(* distances between transformed points *)
Lemma rt_dist2 : forall T p q, orthogonal (rot T) ->
  dist2 Rops (rt Rops T p) (rt Rops T q) = dist2 Rops p q.
Proof.
  intros T p q Ho. unfold dist2. rewrite rt_vsub, norm2_mv. unfold orthogonal in Ho.
  rewrite Ho, mv_id. reflexivity.
Qed.

Lemma rtp_trans : forall T P, trans (rtp Rops T P) = rt Rops T (trans P).
Proof. reflexivity. Qed.

(* relative orientation between two transformed poses *)
Lemma rtp_relrot : forall T P Q, orthogonal (rot T) ->
  mm Rops (transpose (rot (rtp Rops T P))) (rot (rtp Rops T Q)) = mm Rops (transpose (rot P)) (rot Q).
Proof.
  intros T P Q Ho. unfold rtp; cbn [rot]. unfold orthogonal in Ho.
  rewrite transpose_mm, mm_assoc, <- (mm_assoc (transpose (rot T)) (rot T) (rot Q)), Ho, mm_id_l.
  reflexivity.
Qed.
Lemma rodrigues_proper : forall u s c, norm2 Rops u = 1 -> s*s + c*c = 1 -> proper (rodrigues u s c).
Proof.
  intros u s c Hu Hsc. dv u. unfold rodrigues. unf. split.
  - apply orthogonal_eqs. repeat split; nsatz.
  - unf. nsatz.
Qed.

Lemma mid_proper : proper (mid Rops).
Proof. split; unf. - apply mat_eq; apply vec_eq; ring. - ring. Qed.

Lemma norm2_nonneg : forall v, 0 <= norm2 Rops v.
Proof. intros. dv v. unf. nra. Qed.

Lemma from_rotvec_proper : forall v, proper (from_rotvec v).
Proof.
  intro v. unfold from_rotvec. destruct (Req_EM_T (norm v) 0) as [E|NE].
  - apply mid_proper.
  - apply rodrigues_proper.
    + unfold norm in *. set (n2 := norm2 Rops v) in *.
      assert (Hn : 0 <= n2) by apply norm2_nonneg.
      assert (Hs : sqrt n2 * sqrt n2 = n2) by (apply sqrt_sqrt; exact Hn).
      subst n2. dv v. unf. set (t := sqrt _) in *.
      transitivity ((vx * vx + vy * vy + vz * vz) / (t * t)); [field; exact NE|].
      rewrite <- Hs. field. exact NE.
    + rewrite Rplus_comm. pose proof (sin2_cos2 (norm v)) as H. unfold Rsqr in H. lra.
Qed.

(* ---------------------------------------------------------------- the two half turns *)
Lemma flipZ_proper : proper (rot (flipZ Rops)).
Proof. split; unf. - apply mat_eq; apply vec_eq; ring. - ring. Qed.
Lemma flipX_proper : proper (rot (flipX Rops)).
Proof. split; unf. - apply mat_eq; apply vec_eq; ring. - ring. Qed.

Lemma norm_axis : forall a, 0 < a -> norm (V3 0 0 a) = a /\ norm (V3 a 0 0) = a.
Proof.
  intros a Ha. unfold norm. unf. split.
  - replace (0*0+0*0+a*a) with (Rsqr a) by (unfold Rsqr; ring). apply sqrt_Rsqr; lra.
  - replace (a*a+0*0+0*0) with (Rsqr a) by (unfold Rsqr; ring). apply sqrt_Rsqr; lra.
Qed.

(* Pose.from_rot_vec(R_vec=(0,0,pi)) and ((pi,0,0)) are exactly the half turns about Z and X *)
Lemma from_rotvec_half_turn_z : from_rotvec (V3 0 0 PI) = rot (flipZ Rops).
Proof.
  unfold from_rotvec. destruct (norm_axis PI PI_RGT_0) as [Hn _]. rewrite Hn.
  destruct (Req_EM_T PI 0) as [E|NE]; [pose proof PI_RGT_0; lra|].
  rewrite sin_PI, cos_PI. unfold rodrigues. unf. apply mat_eq; apply vec_eq; field; exact NE.
Qed.
Lemma from_rotvec_half_turn_x : from_rotvec (V3 PI 0 0) = rot (flipX Rops).
Proof.
  unfold from_rotvec. destruct (norm_axis PI PI_RGT_0) as [_ Hn]. rewrite Hn.
  destruct (Req_EM_T PI 0) as [E|NE]; [pose proof PI_RGT_0; lra|].
  rewrite sin_PI, cos_PI. unfold rodrigues. unf. apply mat_eq; apply vec_eq; field; exact NE.
Qed.

Lemma rt_rtp : forall A B p, rt Rops (rtp Rops A B) p = rt Rops A (rt Rops B p).
Proof. intros. dp A. dp B. dv p. vring. Qed.
Lemma rt_flipZ : forall p, rt Rops (flipZ Rops) p = V3 (- vx p) (- vy p) (vz p).
Proof. intros. dv p. vring. Qed.
Lemma rt_flipX : forall p, rt Rops (flipX Rops) p = V3 (vx p) (- vy p) (- vz p).
Proof. intros. dv p. vring. Qed.

Lemma oltb_true : forall a b, oltb Rops a b = true <-> a < b.
Proof. intros. cbn. destruct (Rlt_dec a b); split; intros; try assumption; try reflexivity; try discriminate; contradiction. Qed.
Lemma oltb_false : forall a b, oltb Rops a b = false <-> b <= a.
Proof. intros. cbn. destruct (Rlt_dec a b); split; intros; try reflexivity; try discriminate; lra. Qed.

(* _de_flip_transformation *)
Lemma deflip_correct : forall raw x_axis k b0 rest,
  proper (rot raw) ->
  exists T, deflip Rops raw x_axis ((k, b0) :: rest) = Some T /\
    proper (rot T) /\
    0 <= vx (rt Rops T (vmean Rops x_axis)) /\
    0 <= vz (rt Rops T (trans b0)) /\
    (T = raw \/ T = rtp Rops (flipZ Rops) raw \/ T = rtp Rops (flipX Rops) raw \/
     T = rtp Rops (flipX Rops) (rtp Rops (flipZ Rops) raw)).
Proof.
  intros raw xa k b0 rest Hp. unfold deflip.
  set (m := vmean Rops xa). set (b := trans b0).
  destruct (oltb Rops (vx (rt Rops raw m)) (oZ Rops 0)) eqn:Ex;
  destruct (oltb Rops (vz (rt Rops raw b)) (oZ Rops 0)) eqn:Ez;
  [apply oltb_true in Ex | apply oltb_true in Ex | apply oltb_false in Ex | apply oltb_false in Ex];
  [apply oltb_true in Ez | apply oltb_false in Ez | apply oltb_true in Ez | apply oltb_false in Ez];
  cbn [oZ Rops] in Ex, Ez; eexists; (split; [reflexivity|]).
  - split; [apply rtp_proper; [apply flipX_proper | apply rtp_proper; [apply flipZ_proper|exact Hp]]|].
    rewrite !rt_rtp, !rt_flipZ, !rt_flipX. cbn [vx vy vz]. repeat split; try lra. tauto.
  - split; [apply rtp_proper; [apply flipZ_proper|exact Hp]|].
    rewrite !rt_rtp, !rt_flipZ. cbn [vx vy vz]. repeat split; try lra. tauto.
  - split; [apply rtp_proper; [apply flipX_proper|exact Hp]|].
    rewrite !rt_rtp, !rt_flipX. cbn [vx vy vz]. repeat split; try lra. tauto.
  - split; [exact Hp|]. repeat split; try lra. tauto.
Qed.
(* ---------------------------------------------------------------- align *)
Lemma pose_from_params_proper : forall x, proper (rot (pose_from_params x)).
Proof. intros [rv tv]. cbn. apply from_rotvec_proper. Qed.

Lemma align_apply_nth : forall T bs i k P,
  nth_error bs i = Some (k, P) -> nth_error (align_apply Rops T bs) i = Some (k, rtp Rops T P).
Proof. intros. unfold align_apply. rewrite nth_error_map, H. reflexivity. Qed.

Lemma align_one_rigid_motion : forall opt origin x_axis plane bs res T,
  align opt origin x_axis plane bs = Some (res, T) ->
  proper (rot T) /\
  res = map (fun kv => (fst kv, rtp Rops T (snd kv))) bs /\
  (forall i j ki kj Pi Pj,
     nth_error bs i = Some (ki, Pi) -> nth_error bs j = Some (kj, Pj) ->
     exists Pi' Pj', nth_error res i = Some (ki, Pi') /\ nth_error res j = Some (kj, Pj') /\
       dist (trans Pi') (trans Pj') = dist (trans Pi) (trans Pj) /\
       mm Rops (transpose (rot Pi')) (rot Pj') = mm Rops (transpose (rot Pi)) (rot Pj) /\
       (proper (rot Pi) -> proper (rot Pi'))).
Proof.
  intros opt origin xa pl bs res T H. unfold align in H.
  destruct bs as [|[k b0] rest]; [discriminate|].
  destruct (deflip_correct (pose_from_params (opt origin xa pl)) xa k b0 rest
              (pose_from_params_proper _)) as (T' & HT & Hp & _).
  rewrite HT in H. injection H as <- <-. split; [exact Hp|]. split; [reflexivity|].
  intros i j ki kj Pi Pj Hi Hj. exists (rtp Rops T' Pi), (rtp Rops T' Pj).
  split; [exact (align_apply_nth T' _ _ _ _ Hi)|]. split; [exact (align_apply_nth T' _ _ _ _ Hj)|].
  destruct Hp as [Ho Hd]. split; [|split].
  - unfold dist, norm. rewrite !rtp_trans. f_equal. apply (rt_dist2 T' (trans Pi) (trans Pj) Ho).
  - apply rtp_relrot; exact Ho.
  - intro HPi. apply rtp_proper; [split; assumption | exact HPi].
Qed.

Lemma align_raises_iff_no_base_station : forall opt origin x_axis plane bs,
  align opt origin x_axis plane bs = None <-> bs = [].
Proof.
  intros. unfold align, deflip. destruct bs as [|[k b0] rest]; split; intro H; try reflexivity; discriminate.
Qed.

(* ---------------------------------------------------------------- residual *)
Lemma residual_zero_iff_aligned : forall T origin x_axis plane,
  all_zero (residual Rops T origin x_axis plane) <-> aligned T origin x_axis plane.
Proof.
  intros T o xa pl. unfold all_zero, residual, aligned.
  rewrite !Forall_app. rewrite Forall_map.
  assert (Hx : Forall (fun x => x = 0) (flat_map (fun p => [vy (rt Rops T p); vz (rt Rops T p)]) xa) <->
               Forall (fun p => vy (rt Rops T p) = 0 /\ vz (rt Rops T p) = 0) xa).
  { induction xa as [|p xa IH]; cbn [flat_map app].
    - split; constructor.
    - split; intro H.
      + inversion H as [|? ? H1 H2]; subst. inversion H2 as [|? ? H3 H4]; subst.
        constructor; [split; assumption| apply IH; exact H4].
      + inversion H as [|? ? [H1 H2] H3]; subst. constructor; [exact H1|]. constructor; [exact H2|].
        apply IH; exact H3. }
  rewrite Hx. clear Hx.
  assert (Ho : Forall (fun x => x = 0) [vx (rt Rops T o); vy (rt Rops T o); vz (rt Rops T o)] <->
               rt Rops T o = V3 0 0 0).
  { destruct (rt Rops T o) as [a b c]. cbn [vx vy vz]. split; intro H.
    - inversion H as [|? ? H1 H2]; subst. inversion H2 as [|? ? H3 H4]; subst.
      inversion H4 as [|? ? H5 H6]; subst. reflexivity.
    - injection H as -> -> ->. repeat constructor. }
  rewrite Ho. tauto.
Qed.

(* the cost function cannot tell the four half-turn variants apart *)
Lemma sumsq_nil : sumsq [] = 0. Proof. reflexivity. Qed.
Lemma sumsq_cons : forall x l, sumsq (x :: l) = x * x + sumsq l. Proof. reflexivity. Qed.
Lemma sumsq_app : forall a b, sumsq (a ++ b) = sumsq a + sumsq b.
Proof.
  induction a as [|x a IH]; intros; cbn [app].
  - rewrite sumsq_nil. ring.
  - rewrite !sumsq_cons, IH. ring.
Qed.

Lemma residual_flip_invariant : forall T origin x_axis plane,
  sumsq (residual Rops (rtp Rops (flipZ Rops) T) origin x_axis plane) = sumsq (residual Rops T origin x_axis plane) /\
  sumsq (residual Rops (rtp Rops (flipX Rops) T) origin x_axis plane) = sumsq (residual Rops T origin x_axis plane).
Proof.
  intros T o xa pl. unfold residual. rewrite !sumsq_app.
  assert (Hx : forall F, (F = flipZ Rops \/ F = flipX Rops) ->
     sumsq (flat_map (fun p => [vy (rt Rops (rtp Rops F T) p); vz (rt Rops (rtp Rops F T) p)]) xa) =
     sumsq (flat_map (fun p => [vy (rt Rops T p); vz (rt Rops T p)]) xa)).
  { intros F HF. induction xa as [|p xa IH]; [reflexivity|]. cbn [flat_map app sumsq fold_right].
    fold (sumsq (flat_map (fun p => [vy (rt Rops (rtp Rops F T) p); vz (rt Rops (rtp Rops F T) p)]) xa)).
    fold (sumsq (flat_map (fun p => [vy (rt Rops T p); vz (rt Rops T p)]) xa)).
    rewrite IH. rewrite rt_rtp. destruct HF as [-> | ->]; [rewrite rt_flipZ | rewrite rt_flipX]; cbn [vx vy vz]; ring. }
  assert (Hp : forall F, (F = flipZ Rops \/ F = flipX Rops) ->
     sumsq (map (fun p => vz (rt Rops (rtp Rops F T) p)) pl) = sumsq (map (fun p => vz (rt Rops T p)) pl)).
  { intros F HF. induction pl as [|p pl IH]; [reflexivity|]. cbn [map].
    rewrite !sumsq_cons, IH. rewrite rt_rtp. destruct HF as [-> | ->]; [rewrite rt_flipZ | rewrite rt_flipX]; cbn [vx vy vz]; ring. }
  rewrite !Hx, !Hp by tauto. rewrite !rt_rtp, rt_flipZ, rt_flipX. cbn [vx vy vz]. rewrite !sumsq_cons, !sumsq_nil. split; ring.
Qed.

Lemma aligned_flip_invariant : forall T origin x_axis plane,
  aligned T origin x_axis plane ->
  aligned (rtp Rops (flipZ Rops) T) origin x_axis plane /\ aligned (rtp Rops (flipX Rops) T) origin x_axis plane.
Proof.
  intros T o xa pl (Ho & Hx & Hp). unfold aligned. rewrite !rt_rtp, Ho, rt_flipZ, rt_flipX. cbn [vx vy vz].
  split; (split; [apply vec_eq; ring|]); split.
  - eapply Forall_impl; [|exact Hx]. intros p [H1 H2]. rewrite rt_rtp, rt_flipZ. cbn [vy vz]. split; lra.
  - eapply Forall_impl; [|exact Hp]. intros p H1. rewrite rt_rtp, rt_flipZ. cbn [vy vz]. lra.
  - eapply Forall_impl; [|exact Hx]. intros p [H1 H2]. rewrite rt_rtp, rt_flipX. cbn [vy vz]. split; lra.
  - eapply Forall_impl; [|exact Hp]. intros p H1. rewrite rt_rtp, rt_flipX. cbn [vy vz]. lra.
Qed.

(* if the optimiser's answer has zero residual, the de-flipped transformation is aligned, puts the mean of the
   x-axis samples at X >= 0 and the first base station at Z >= 0 *)
Lemma align_exact_if_converged : forall opt origin x_axis plane bs res T,
  align opt origin x_axis plane bs = Some (res, T) ->
  all_zero (residual Rops (pose_from_params (opt origin x_axis plane)) origin x_axis plane) ->
  aligned T origin x_axis plane /\
  0 <= vx (rt Rops T (vmean Rops x_axis)) /\
  (exists k b0 rest b0', bs = (k, b0) :: rest /\ hd_error res = Some (k, b0') /\ 0 <= vz (trans b0')).
Proof.
  intros opt o xa pl bs res T H Hz. apply residual_zero_iff_aligned in Hz. unfold align in H.
  destruct bs as [|[k b0] rest]; [discriminate|].
  destruct (deflip_correct (pose_from_params (opt o xa pl)) xa k b0 rest
              (pose_from_params_proper _)) as (T' & HT & Hp & Hx & Hb & Hc).
  rewrite HT in H. injection H as <- <-.
  destruct (aligned_flip_invariant _ _ _ _ Hz) as [HZ HX].
  destruct (aligned_flip_invariant _ _ _ _ HZ) as [_ HXZ].
  split; [destruct Hc as [-> | [-> | [-> | ->]]]; assumption|].
  split; [exact Hx|]. exists k, b0, rest, (rtp Rops T' b0). split; [reflexivity|]. split; [reflexivity|].
  rewrite rtp_trans. exact Hb.
Qed.
(* ---------------------------------------------------------------- scaler *)
Lemma scale_system_uniform : forall bs cf s bs' cf' s',
  scale_system Rops bs cf s = (bs', cf', s') ->
  s' = s /\
  length bs' = length bs /\ length cf' = length cf /\
  (forall i k P, nth_error bs i = Some (k, P) ->
     exists P', nth_error bs' i = Some (k, P') /\ rot P' = rot P /\ trans P' = smul Rops (trans P) s) /\
  (forall i P, nth_error cf i = Some P ->
     exists P', nth_error cf' i = Some P' /\ rot P' = rot P /\ trans P' = smul Rops (trans P) s).
Proof.
  intros bs cf s bs' cf' s' H. unfold scale_system in H. injection H as <- <- <-.
  split; [reflexivity|]. rewrite !map_length. split; [reflexivity|]. split; [reflexivity|]. split.
  - intros i k P Hi. exists (pscale Rops P s). rewrite nth_error_map, Hi. repeat split.
  - intros i P Hi. exists (pscale Rops P s). rewrite nth_error_map, Hi. repeat split.
Qed.

Lemma norm_smul : forall v s, norm (smul Rops v s) = Rabs s * norm v.
Proof.
  intros v s. unfold norm. replace (norm2 Rops (smul Rops v s)) with (Rsqr s * norm2 Rops v)
    by (dv v; unf; unfold Rsqr; ring).
  rewrite sqrt_mult_alt by apply Rle_0_sqr. rewrite sqrt_Rsqr_abs. reflexivity.
Qed.

(* distances between scaled positions scale by |s| *)
Lemma scale_dist : forall P Q s,
  dist (trans (pscale Rops P s)) (trans (pscale Rops Q s)) = Rabs s * dist (trans P) (trans Q).
Proof.
  intros. unfold dist. cbn [pscale trans].
  replace (vsub Rops (smul Rops (trans P) s) (smul Rops (trans Q) s)) with (smul Rops (vsub Rops (trans P) (trans Q)) s).
  - apply norm_smul.
  - destruct (trans P) as [a b c]. destruct (trans Q) as [d e f]. vring.
Qed.

Lemma norm_nonneg : forall v, 0 <= norm v.
Proof. intros. unfold norm. apply sqrt_pos. Qed.

Lemma norm_zero_iff : forall v, norm v = 0 <-> v = V3 0 0 0.
Proof.
  intros v. unfold norm. split; intro H.
  - apply sqrt_eq_0 in H; [|apply norm2_nonneg]. dv v. unf. 
    assert (vx = 0) by nra. assert (vy = 0) by nra. assert (vz = 0) by nra. subst. reflexivity.
  - subst. unf. replace (0*0+0*0+0*0) with 0 by ring. apply sqrt_0.
Qed.

(* scale_fixed_point: the reference position is at the expected distance afterwards *)
Lemma fixed_point_factor_correct : forall expected actual,
  trans actual <> V3 0 0 0 ->
  norm (trans (pscale Rops actual (fixed_point_factor expected actual))) = norm expected /\
  0 <= fixed_point_factor expected actual.
Proof.
  intros e a Ha. cbn [pscale trans]. unfold fixed_point_factor.
  assert (Hn : 0 < norm (trans a)).
  { destruct (norm_nonneg (trans a)) as [H|H]; [exact H|]. symmetry in H. apply norm_zero_iff in H. contradiction. }
  assert (Hf : 0 <= norm e / norm (trans a)).
  { apply Rmult_le_pos; [apply norm_nonneg|]. left. apply Rinv_0_lt_compat. exact Hn. }
  split; [|exact Hf]. rewrite norm_smul, Rabs_pos_eq by exact Hf. field. apply Rgt_not_eq. exact Hn.
Qed.

(* calc_intersection_point is homogeneous: scaling both poses scales the intersection point *)
Lemma intersection_point_scale : forall cart bs cf s,
  intersection_point Rops cart (pscale Rops bs s) (pscale Rops cf s) =
  smul Rops (intersection_point Rops cart bs cf) s.
Proof.
  intros. dp bs. dp cf. dv cart. unfold intersection_point. unf. apply vec_eq; unfold Rdiv; ring.
Qed.

Lemma intersection_distance_scale : forall c1 c2 bs cf s,
  intersection_distance c1 c2 (pscale Rops bs s) (pscale Rops cf s) = Rabs s * intersection_distance c1 c2 bs cf.
Proof.
  intros. unfold intersection_distance. rewrite !intersection_point_scale.
  set (p := intersection_point Rops c1 bs cf). set (q := intersection_point Rops c2 bs cf).
  replace (vsub Rops (smul Rops p s) (smul Rops q s)) with (smul Rops (vsub Rops p q) s)
    by (destruct p, q; vring).
  apply norm_smul.
Qed.

Lemma fold_left_Rplus_scale : forall (f : R -> R) k l a, (forall x, f x = k * x) ->
  fold_left Rplus (map f l) (k * a) = k * fold_left Rplus l a.
Proof.
  intros f k l. induction l as [|x l IH]; intros a Hf; cbn [map fold_left]; [reflexivity|].
  rewrite Hf. replace (k * a + k * x) with (k * (a + x)) by ring. apply IH. exact Hf.
Qed.

Lemma diagonals_scale : forall s obs, diagonals (scale_obs s obs) = map (fun d => Rabs s * d) (diagonals obs).
Proof.
  intros s obs. induction obs as [|[[cf bs] [[[v0 v1] v2] v3]] obs IH]; [reflexivity|].
  cbn [scale_obs map diagonals flat_map app]. rewrite !intersection_distance_scale. f_equal. f_equal.
  exact IH.
Qed.

Lemma mean_diagonal_scale : forall s obs, mean_diagonal (scale_obs s obs) = Rabs s * mean_diagonal obs.
Proof.
  intros. unfold mean_diagonal, rmean. rewrite diagonals_scale, map_length.
  replace 0 with (Rabs s * 0) at 1 by ring.
  rewrite (fold_left_Rplus_scale (fun d => Rabs s * d) (Rabs s)) by reflexivity. unfold Rdiv. ring.
Qed.

(* scale_diagonals: the mean sensor diagonal is the expected one afterwards *)
Lemma diagonals_factor_correct : forall expected obs,
  0 < mean_diagonal obs -> 0 <= expected ->
  mean_diagonal (scale_obs (diagonals_factor expected obs) obs) = expected.
Proof.
  intros e obs Hm He. rewrite mean_diagonal_scale. unfold diagonals_factor.
  rewrite Rabs_pos_eq.
  - field. apply Rgt_not_eq. exact Hm.
  - apply Rmult_le_pos; [exact He|]. left. apply Rinv_0_lt_compat. exact Hm.
Qed.
