(* C16/Examples.v — the hypotheses of the theorems are satisfiable by concrete, non-trivial instances. *)
From Coq Require Import ZArith List Reals Lra.
From CF Require Import C16.Model.
From CF Require Import C16.Proofs.
From CF Require Import C16.Proofs_unique.
From CF Require Import C16.Heap.
From CF Require Import C16.Heap_proofs.
Import ListNotations.
Open Scope R_scope.

(* a misalignment: quarter turn about Z followed by a shift *)
Definition exM : poseR := MkPose (M3 (V3 0 (-1) 0) (V3 1 0 0) (V3 0 0 1)) (V3 1 2 3).
Definition exB : poseR := MkPose (mid Rops) (V3 0 0 2).

Example exM_proper : proper (rot exM).
Proof. split; unfold exM; unf. - apply mat_eq; apply vec_eq; ring. - ring. Qed.

(* the view of origin, one x-axis sample (2,0,0), one plane sample (1,1,0) and a base station 2 m up *)
Example ex_view : misaligned_view exM (rt Rops exM (V3 0 0 0)) [rt Rops exM (V3 2 0 0)] [rt Rops exM (V3 1 1 0)]
                    [(7%Z, rtp Rops exM exB)].
Proof.
  exists [V3 2 0 0], [V3 1 1 0], 7%Z, exB, []. repeat split; try reflexivity.
  - exact (proj1 exM_proper). - exact (proj2 exM_proper). - discriminate.
  - constructor; [|constructor]. unfold on_pos_x; cbn; repeat split; lra.
  - constructor; [reflexivity|constructor].
  - constructor. cbn. lra.
  - cbn. lra.
Qed.

(* zero parameters denote the identity, whose residual vanishes on an already aligned layout: the hypotheses of
   C16_align_exact_if_converged / C16_converged_answer_recovers_ground_truth are satisfiable *)
Example ex_identity : pose_from_params (V3 0 0 0, V3 0 0 0) = pid.
Proof.
  unfold pose_from_params, pid, from_rotvec. cbn [fst snd].
  assert (H : norm (V3 0 0 0) = 0).
  { unfold norm. unf. replace (0*0+0*0+0*0) with 0 by ring. apply sqrt_0. }
  rewrite H. destruct (Req_EM_T 0 0) as [_|N]; [reflexivity|contradiction].
Qed.

Example ex_zero_residual :
  all_zero (residual Rops (pose_from_params (V3 0 0 0, V3 0 0 0)) (V3 0 0 0) [V3 2 0 0] [V3 1 1 0]).
Proof.
  rewrite ex_identity. apply residual_zero_iff_aligned. unfold aligned, pid. repeat split.
  - vring.
  - constructor; [|constructor]. unf. split; ring.
  - constructor; [|constructor]. unf. ring.
Qed.

(* heap: two poses sharing nothing, scaled by doubling (arrays modelled as integers here) *)
Example ex_heap :
  let h := MkHeap [10; 1; 20; 2]%Z [MkObj 0 1; MkObj 2 3] in
  wf h /\ scale_system_h (Z.mul 2) h [0; 1; 0]%nat =
          Some (MkHeap [10; 1; 20; 2; 2; 4; 2]%Z
                       [MkObj 0 1; MkObj 2 3; MkObj 0 4; MkObj 2 5; MkObj 0 6], [2; 3; 4]%nat).
Proof. split; [repeat constructor|reflexivity]. Qed.

(* shared references: object 0 twice in the input, objects 0 and 1 share the translation array 1.  Every position gets
   its own copy, each scaled ONCE (2 * 1 = 2), the shared array 1 keeps its value. *)
Example ex_heap_shared :
  let h := MkHeap [10; 1; 20]%Z [MkObj 0 1; MkObj 2 1] in
  wf h /\ scale_system_h (Z.mul 2) h [0; 0; 1]%nat =
          Some (MkHeap [10; 1; 20; 2; 2; 2]%Z [MkObj 0 1; MkObj 2 1; MkObj 0 3; MkObj 0 4; MkObj 2 5], [2; 3; 4]%nat).
Proof. split; [repeat constructor|reflexivity]. Qed.

(* what a memoising deep copy does instead (copy.deepcopy of the whole list): ONE copy for the repeated object, visited
   twice by the scaling loop, so its translation is multiplied by the factor twice (2 * 2 * 1 = 4): not uniform. *)
Example ex_memoised_copy_scales_twice :
  let h := MkHeap [10; 1]%Z [MkObj 0 1] in
  match copy_obj h 0 with
  | Some (h1, c) => option_map (fun h2 => deref h2 c) (scale_all (Z.mul 2) h1 [c; c])
  | None => None
  end = Some (Some (10, 4)%Z).
Proof. reflexivity. Qed.

(* Purity of align.  In the model, [align] is a Gallina FUNCTION of the values of origin / x_axis / plane / bs (and of the
   optimiser, itself a function of the sample values): calling it again with containers that hold new contents is by
   construction the call on the new contents (C16_align_is_one_rigid_motion and C16_converged_answer_recovers_ground_truth
   speak about exactly the values handed over in that call).  What an IDENTITY-keyed memo does instead, on the heap
   model: the cache is keyed by the address of the argument, the array at that address is refilled in place, the second
   call answers with the first call's contents. *)
Definition memo_read (memo : option (nat * Z)) (h : heap Z) (addr : nat) : option Z * option (nat * Z) :=
  match memo with
  | Some (a, v) => if Nat.eqb a addr then (Some v, memo)                 (* same object: cached value *)
                   else (nth_error (arrs h) addr, option_map (fun v' => (addr, v')) (nth_error (arrs h) addr))
  | None => (nth_error (arrs h) addr, option_map (fun v' => (addr, v')) (nth_error (arrs h) addr))
  end.
Definition pure_read (h : heap Z) (addr : nat) : option Z := nth_error (arrs h) addr.

Example ex_identity_keyed_memo_is_stale :
  let h1 := MkHeap [5]%Z [] in              (* first call: the points buffer holds 5 *)
  let h2 := MkHeap [7]%Z [] in              (* the SAME buffer (address 0) refilled in place with 7 *)
  let '(r1, m1) := memo_read None h1 0 in
  let '(r2, _) := memo_read m1 h2 0 in
  r1 = Some 5%Z /\ r2 = Some 5%Z /\ pure_read h2 0 = Some 7%Z /\ r2 <> pure_read h2 0.
Proof. cbn. repeat split; try reflexivity. discriminate. Qed.

(* Wave 11.  Scaling is REAL multiplication of the translation whatever representation the caller used for it: in the
   model a translation is a vector of reals (C16_scale_uniform: trans P' = smul (trans P) s for every P and s).  A
   whole-number translation (0,0,2) (written with Python ints or an int64 array) scaled by 5/4 becomes (0,0,5/2); it does
   not stay (0,0,2), which is what truncating the product back to an integer dtype yields. *)
Example ex_integer_valued_translation_scales :
  let P := MkPose (mid Rops) (V3 0 0 2) in
  trans (pscale Rops P (5 / 4)) = V3 0 0 (5 / 2) /\ trans (pscale Rops P (5 / 4)) <> V3 0 0 2 /\
  rot (pscale Rops P (5 / 4)) = rot P.
Proof.
  cbn zeta. unfold pscale. cbn [trans rot]. split; [|split; [|reflexivity]].
  - unf. apply vec_eq; field.
  - unf. intro H. injection H as H. lra.
Qed.
