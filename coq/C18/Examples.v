(* C18/Examples.v — the hypotheses of the C18 theorems are satisfiable by non-trivial instances, and
   the quirks the statements mention are real. *)
From CF Require Import Common.Bytes C18.Model C18.Proofs.
Open Scope Z_scope.

Definition p1 : cpx := new_cpx F_CRTP T_STM32 T_HOST [0xFC; 1; 2; 3].          (* what send_packet builds *)
Definition p2 : cpx := mk_cpx 4 3 5 true 0 2 [200; 201].                       (* GAP8 -> HOST, APP, last *)
Definition p3 : cpx := new_cpx F_SYSTEM T_STM32 T_HOST [].

Example wf_p1 : wf_cpx p1. Proof. unfold wf_cpx; cbn; intuition lia. Qed.
Example wf_p2 : wf_cpx p2. Proof. unfold wf_cpx; cbn; intuition lia. Qed.
Example wf_p3 : wf_cpx p3. Proof. unfold wf_cpx; cbn; intuition lia. Qed.

Example frame_p1 : frame p1 = [6; 0; 25; 3; 252; 1; 2; 3]. Proof. reflexivity. Qed.
Example frame_p2 : frame p2 = [4; 0; 99; 5; 200; 201]. Proof. reflexivity. Qed.

(* a fragmentation that cuts inside a length prefix, inside a header and inside a payload *)
Definition s123 : sock := [[6]; [0; 25]; [3; 252; 1]; [2; 3; 4; 0; 99]; [5; 200]; [201; 2]; [0; 25; 1]].
Example s123_chunking : chunking s123 (concat (map frame [p1; p2; p3])).
Proof. split; [reflexivity|repeat constructor; discriminate]. Qed.
Example s123_read : read_n 3 s123 = ([Ok p1; Ok p2; Ok p3], []).
Proof. reflexivity. Qed.
Example s123_then_end : fst (read_packet []) = Exc EndOfStream.
Proof. reflexivity. Qed.

(* version 1 frame between two good ones: rejected, reader stays aligned *)
Example bad_version_in_stream :
  fst (read_n 3 [[3; 0; 25; 3]; [9; 3; 0; 25; 67; 9; 3]; [0; 25; 3; 9]]) =
  [Ok (mk_cpx 3 1 3 false 0 1 [9]); Exc RuntimeErr; Ok (mk_cpx 3 1 3 false 0 1 [9])].
Proof. reflexivity. Qed.

(* router: a packet arriving before the first receivePacket of its function is dropped (the `accepted`
   clause of C18_router_per_function_fifo is not decoration); later ones are delivered in order *)
Definition q1 := new_cpx F_CRTP T_HOST T_STM32 [1].
Definition q2 := new_cpx F_CRTP T_HOST T_STM32 [2].
Definition q3 := new_cpx F_CRTP T_HOST T_STM32 [3].
Definition c1 := new_cpx 2 T_HOST T_STM32 [99].
Example router_drops_before_first_receive :
  snd (r_run r_init [Arrive (Ok q1); Recv F_CRTP; Arrive (Ok q2); Arrive (Ok c1); Arrive (Ok q3); Recv F_CRTP; Recv 2; Recv F_CRTP; Recv F_CRTP])
  = [(F_CRTP, None); (F_CRTP, Some q2); (2, None); (F_CRTP, Some q3); (F_CRTP, None)].
Proof. reflexivity. Qed.
Example router_accepted :
  accepted F_CRTP false [Arrive (Ok q1); Recv F_CRTP; Arrive (Ok q2); Arrive (Ok c1); Arrive (Ok q3)] = [q2; q3].
Proof. reflexivity. Qed.

(* tunnel: port 5 channel 2 *)
Example tunnel_example :
  frame (tunnel_tx (crtp_header 5 2) [10; 20]) = [5; 0; 25; 3; 94; 10; 20] /\
  tunnel_rx (tunnel_tx (crtp_header 5 2) [10; 20]) = Some (mk_crtp 94 5 2 [10; 20]).
Proof. split; reflexivity. Qed.
(* downlink header without the reserved bits: they are forced to 1, port and channel unchanged *)
Example tunnel_reserved_bits : tunnel_rx (new_cpx F_CRTP T_HOST T_STM32 [0x52; 7]) = Some (mk_crtp 0x5E 5 2 [7]).
Proof. reflexivity. Qed.

(* a packet whose data was replaced after construction (c_len stale: 0) is framed by its data (fix F18b) *)
Example stale_length_framed_by_data :
  fst (read_packet [frame (mk_cpx 3 1 3 false 0 0 [1; 2; 3])]) = Ok (mk_cpx 3 1 3 false 0 3 [1; 2; 3]).
Proof. reflexivity. Qed.

(* short writes: sendall gets everything out, one send call did not *)
Example sendall_short_writes : sendall [1; 2; 1] (frame p2) = frame p2 /\ send_once [1; 2; 1] (frame p2) = [4].
Proof. split; reflexivity. Qed.

(* facade: request out, reply in, close *)
Example cpx_session_example :
  snd (c_run [3] (mk_cs [[6]; [0; 25]; [3; 252; 1]; [2; 3]] r_init true)
         [CSend p3; CTransact p1 1; CClose; CSend p3; CRecv F_CRTP])
  = [OSent (Ok (frame p3)); OTrans (Ok (frame p1)) (Some p1); OClose true; OSent (Exc AttributeErr); ORecv F_CRTP None].
Proof. reflexivity. Qed.

(* all_chunkings enumerates 2^(n-1) fragmentations *)
Example all_chunkings_count : length (all_chunkings [1; 2; 3; 4; 5; 6]) = 32%nat.
Proof. reflexivity. Qed.

(* a relational run in which every recv returns a single byte *)
Example one_byte_at_a_time : read_data_any 2 [] [6; 0; 25] [6; 0] [25].
Proof.
  eapply rd_step with (r := [6]) (b1 := [0; 25]); [lia|apply (recv_prefix [6; 0; 25] 2 1); cbn; lia|].
  eapply rd_step with (r := [0]) (b1 := [25]); [cbn; lia|apply (recv_prefix [0; 25] 1 1); cbn; lia|].
  apply rd_done. cbn. lia.
Qed.

(* ---- UART *)
From CF Require Import C18.Uart.
Example uart_frame_p2 : uart_frame p2 = [255; 4; 99; 5; 200; 201; 156]. Proof. reflexivity. Qed.
(* noise, a clear-to-send that releases the held lock, then the frame *)
Example uart_read_p2 : uart_read ([17; 255; 0] ++ uart_frame p2 ++ [1]) true = (UPacket (Ok p2) true, [1], false).
Proof. reflexivity. Qed.
(* a wrong checksum is reported (printed) but the packet is still delivered *)
Example uart_bad_crc_still_delivered :
  uart_read [255; 4; 99; 5; 200; 201; 0] false = (UPacket (Ok p2) false, [], false).
Proof. reflexivity. Qed.
(* oversize packet: refused, lock untouched (fix F18c); before the fix the lock stayed held *)
Example uart_oversize :
  uart_write false (new_cpx 5 T_STM32 T_HOST (repeat 0 99)) = (WTooLarge, false) /\
  uart_write_old false (new_cpx 5 T_STM32 T_HOST (repeat 0 99)) = (WTooLarge, true) /\
  uart_write true p3 = (WBlocked, true).
Proof. repeat split; reflexivity. Qed.

(* ---- several writers *)
Example merge_example : merge_by [1; 0; 0; 1]%nat [[p1; p3]; [p2; p2]] = Some [p2; p1; p3; p2].
Proof. reflexivity. Qed.
Example writers_case_example :
  writers_case [[p1]; [p2]] [1; 0] (frame p2 ++ frame p1) = [1; 1] ++ enc_res (Ok p2) ++ enc_res (Ok p1).
Proof. reflexivity. Qed.

(* ---- a long unread backlog of one function does not touch another function *)
Definition backlog (n : nat) : list ev :=
  [Recv F_CRTP; Recv 5] ++ repeat (Arrive (Ok p2)) n ++ [Arrive (Ok q1); Recv F_CRTP].
Example backlog_200_unread :
  obs_of F_CRTP (snd (r_run r_init (backlog 200))) = [(F_CRTP, None); (F_CRTP, Some q1)] /\
  length (pending 5 (fst (r_run r_init (backlog 200)))) = 200%nat.
Proof. split; vm_compute; reflexivity. Qed.


(* ---- growth round *)
From CF Require Import C18.Driver.
(* driver: a CRTP packet, an APP packet (not for the driver), an empty CRTP-function packet (skipped), another CRTP packet *)
Definition dps : list cpx := [new_cpx F_CRTP T_HOST T_STM32 [0x5E; 1]; new_cpx 5 T_HOST 4 [9]; new_cpx F_CRTP T_HOST T_STM32 [];
                              new_cpx F_CRTP T_HOST T_STM32 [0x10]].
Example driver_example :
  snd (d_run [2] (fst (d_connect [2] [concat (map frame dps)]))
         [DRecv 0; DPump; DPump; DRecv (-1); DPump; DPump; DSend 0x5E [7]; DRecv 1; DRecv 0; DClose; DSend 0x5E [7]])
  = [DGot None; DGot (Some (mk_crtp 0x5E 5 2 [1])); DSent (Ok [4; 0; 25; 3; 0x5E; 7]); DGot (Some (mk_crtp 0x1C 1 0 []));
     DGot None; DClosed; DSent (Exc AttributeErr)].
Proof. reflexivity. Qed.
(* before F18e the CRTP queue was created by the receive thread AFTER the router thread had been started: a packet read in
   between found no queue (router state r_init) and was dropped *)
Example connect_race_before_fix :
  pending F_CRTP (fst (r_run r_init [Arrive (Ok q1); Recv F_CRTP])) = [] /\
  pending F_CRTP (fst (r_run (upd r_init F_CRTP []) [Arrive (Ok q1)])) = [q1].
Proof. split; reflexivity. Qed.
(* makeTransaction returns the HEAD of the function's queue: a packet that was already queued before the request was sent
   is taken for the reply (what the code does; the property text only asks for per-function arrival order) *)
Example transaction_takes_stale_packet :
  snd (c_run [] (mk_cs [frame q1; frame q2] r_init true) [CRecv F_CRTP; CPump; CTransact q3 1])
  = [ORecv F_CRTP None; OTrans (Ok (frame q3)) (Some q1)].
Proof. reflexivity. Qed.
(* UART connect: 0xFF 0xFF 0x00 does not synchronise (the second 0xFF is taken as a size), a later 0xFF 0x00 does *)
Example uart_connect_quirk : uart_connect [255; 255; 0; 7] = None /\ uart_connect [255; 255; 0; 7; 255; 0; 9] = Some [9].
Proof. split; reflexivity. Qed.

(* ---- one packet object, chunked transfer: same object, new data, lastPacket set for the final chunk *)
Example chunked_transfer :
  h_run (new_cpx 5 4 T_HOST [1; 2]) [PWrite; PMut (MData [3]); PMut (MLast true); PWrite; PMut (MFn 15); PEnc]
  = [Ok [4; 0; 28; 5; 1; 2]; Ok [3; 0; 92; 5; 3]; Ok [92; 15; 3]].
Proof. reflexivity. Qed.
