(* C18/Model.v — executable model of CPX framing, stream re-assembly, routing and CRTP tunnelling.
   Definitions only.  Written from cflib/cpx/__init__.py (CPXPacket, CPXRouter),
   cflib/cpx/transports.py (SocketTransport), cflib/crtp/tcpdriver.py and serialdriver.py
   (send_packet, _CPXReceiveThread.run), cflib/crtp/crtpstack.py (CRTPPacket.__init__).
   Bytes are Z; enum members (CPXTarget, CPXFunction) are represented by their .value. *)
From CF Require Export Common.Bytes.
Open Scope Z_scope.

(* ---------------------------------------------------------------- enums *)
Definition targets : list Z := [1; 2; 3; 4].                 (* STM32 ESP32 HOST GAP8 *)
Definition functions : list Z := [1; 2; 3; 4; 5; 14; 15].    (* SYSTEM CONSOLE CRTP WIFI_CTRL APP TEST BOOTLOADER *)
Definition T_STM32 : Z := 1.
Definition T_HOST : Z := 3.
Definition F_SYSTEM : Z := 1.
Definition F_CRTP : Z := 3.
Definition is_target (z : Z) : bool := existsb (Z.eqb z) targets.       (* CPXTarget(z) does not raise *)
Definition is_function (z : Z) : bool := existsb (Z.eqb z) functions.   (* CPXFunction(z) does not raise *)

(* ---------------------------------------------------------------- Python outcomes *)
Inductive exc := StructError | RuntimeErr | ValueErr | EndOfStream | AttributeErr.
Inductive res (A : Type) := Ok (a : A) | Exc (e : exc).
Arguments Ok {A} a.
Arguments Exc {A} e.

(* ---------------------------------------------------------------- CPXPacket *)
(* c_len is the attribute `length`: set by the constructor and by _set_wire_data, NOT updated when
   `data` is assigned later.  writePacket (after fix F18b) builds the prefix from len(data), not from it. *)
Record cpx := mk_cpx {
  c_src : Z; c_dst : Z; c_fn : Z; c_last : bool; c_ver : Z; c_len : Z; c_data : list Z }.

Definition zlen {A} (l : list A) : Z := Z.of_nat (length l).

(* CPXPacket(function, destination, source, data); lastPacket=False, version=CPX_VERSION=0 *)
Definition new_cpx (fn dst src : Z) (data : list Z) : cpx :=
  mk_cpx src dst fn false 0 (zlen data) data.

(* CPXPacket._get_wire_data *)
Definition hdr0 (src dst : Z) (last : bool) : Z :=
  let tf := Z.lor (Z.shiftl (Z.land src 7) 3) (Z.land dst 7) in
  if last then Z.lor tf 64 else tf.
Definition hdr1 (fn ver : Z) : Z :=
  Z.lor (Z.land fn 63) (Z.shiftl (Z.land ver 3) 6).
Definition wire_data (p : cpx) : list Z :=
  hdr0 (c_src p) (c_dst p) (c_last p) :: hdr1 (c_fn p) (c_ver p) :: c_data p.

(* CPXPacket._set_wire_data: struct.unpack('<BB', data[0:2]) raises struct.error on < 2 bytes; then
   version check (RuntimeError), then CPXTarget(..) x2 and CPXFunction(..) (ValueError), in this order *)
Definition set_wire (data : list Z) : res cpx :=
  match data with
  | tf :: fv :: rest =>
      let ver := Z.land (Z.shiftr fv 6) 3 in
      if negb (ver =? 0) then Exc RuntimeErr else
      let s := Z.land (Z.shiftr tf 3) 7 in
      if negb (is_target s) then Exc ValueErr else
      let d := Z.land tf 7 in
      if negb (is_target d) then Exc ValueErr else
      let l := negb (Z.land tf 64 =? 0) in
      let f := Z.land fv 63 in
      if negb (is_function f) then Exc ValueErr else
      Ok (mk_cpx s d f l ver (zlen rest) rest)
  | _ => Exc StructError
  end.

(* ---------------------------------------------------------------- SocketTransport *)
(* writePacket: struct.pack('H', len(packet.data)+2) (native order = little-endian here; struct.error
   above 65535) followed by wireData, handed to socket.sendall (fix F18a; before: one send call whose
   return value was ignored) *)
Definition frame (p : cpx) : list Z := le_bytes 2 (zlen (c_data p) + 2) ++ wire_data p.
Definition write_packet (p : cpx) : res (list Z) :=
  if zlen (c_data p) + 2 <=? 65535 then Ok (frame p) else Exc StructError.

(* The sending side of the socket: each send(buf) call takes some number of bytes (the next entry of
   `takes`, at most len(buf); no entry left: everything).  sendall = `while buf: n = send(buf); buf = buf[n:]`.
   Result: the bytes that reach the stream. *)
Fixpoint sendall (takes : list Z) (buf : list Z) : list Z :=
  match takes with
  | [] => buf
  | t :: ts => if zlen buf <=? t then buf
               else firstn (Z.to_nat t) buf ++ sendall ts (skipn (Z.to_nat t) buf)
  end.
(* the behaviour before F18a: one send, return value ignored *)
Definition send_once (takes : list Z) (buf : list Z) : list Z :=
  match takes with
  | [] => buf
  | t :: _ => if zlen buf <=? t then buf else firstn (Z.to_nat t) buf
  end.
(* bytes put on the stream by writePacket *)
Definition tx_packet (takes : list Z) (p : cpx) : res (list Z) :=
  match write_packet p with Ok b => Ok (sendall takes b) | Exc e => Exc e end.

(* The socket: the bytes still to come, cut into the pieces successive recv calls will see.
   recv(n), n > 0, returns the first piece if it has at most n bytes, otherwise its first n bytes
   (the remainder stays first).  Any behaviour of a stream socket (each recv returns between 1 and n
   of the pending bytes) is the behaviour of some such list: the list of the pieces it returned.
   No piece left: the scripted socket raises (EndOfStream). *)
Definition sock := list (list Z).

(* _readData(size): while len(data) < size: data.extend(recv(size - len(data))) *)
Fixpoint read_data (need : Z) (acc : list Z) (s : sock) : option (list Z * sock) :=
  if need <=? 0 then Some (acc, s) else
  match s with
  | [] => None
  | c :: rest =>
      if zlen c <=? need then read_data (need - zlen c) (acc ++ c) rest
      else Some (acc ++ firstn (Z.to_nat need) c, skipn (Z.to_nat need) c :: rest)
  end.

(* readPacket *)
Definition read_packet (s : sock) : res cpx * sock :=
  match read_data 2 [] s with
  | None => (Exc EndOfStream, [])
  | Some (h, s1) =>
      match read_data (le_val h) [] s1 with
      | None => (Exc EndOfStream, [])
      | Some (d, s2) => (set_wire d, s2)
      end
  end.

Fixpoint read_n (n : nat) (s : sock) : list (res cpx) * sock :=
  match n with
  | O => ([], s)
  | S n' => let '(r, s1) := read_packet s in
            let '(rs, s2) := read_n n' s1 in (r :: rs, s2)
  end.

(* the same parser on the unfragmented byte string (specification side of re-assembly) *)
Definition parse_one (b : list Z) : res cpx * list Z :=
  if zlen b <? 2 then (Exc EndOfStream, []) else
  let size := le_val (firstn 2 b) in
  let b1 := skipn 2 b in
  if zlen b1 <? size then (Exc EndOfStream, []) else
  (set_wire (firstn (Z.to_nat size) b1), skipn (Z.to_nat size) b1).

Fixpoint parse_n (n : nat) (b : list Z) : list (res cpx) * list Z :=
  match n with
  | O => ([], b)
  | S n' => let '(r, b1) := parse_one b in
            let '(rs, b2) := parse_n n' b1 in (r :: rs, b2)
  end.

(* ---------------------------------------------------------------- CPXRouter *)
(* _rxQueues: function value -> queue (None = no queue yet) *)
Definition rstate := Z -> option (list cpx).
Definition r_init : rstate := fun _ => None.
Definition upd (st : rstate) (f : Z) (q : list cpx) : rstate :=
  fun g => if g =? f then Some q else st g.

Inductive ev :=
| Arrive (r : res cpx)   (* router thread: one iteration of run() whose readPacket gave r *)
| Recv (f : Z).          (* some thread: receivePacket(function f, timeout) *)

(* observation of a Recv: (f, Some packet) or (f, None) = queue.Empty after the timeout *)
Definition obs := (Z * option cpx)%type.

Definition r_step (st : rstate) (e : ev) : rstate * list obs :=
  match e with
  | Arrive (Ok p) =>
      match st (c_fn p) with
      | None => (st, [])                                  (* no queue: packet dropped *)
      | Some q => (upd st (c_fn p) (q ++ [p]), [])
      end
  | Arrive (Exc _) => (st, [])                            (* exception printed, loop continues *)
  | Recv f =>
      match st f with
      | None | Some [] => (upd st f [], [(f, None)])      (* queue created on first receive *)
      | Some (p :: q) => (upd st f q, [(f, Some p)])
      end
  end.

Fixpoint r_run (st : rstate) (evs : list ev) : rstate * list obs :=
  match evs with
  | [] => (st, [])
  | e :: evs' => let '(st1, o1) := r_step st e in
                 let '(st2, o2) := r_run st1 evs' in (st2, o1 ++ o2)
  end.

(* router + transport + socket: Pump = one iteration of CPXRouter.run on the real transport *)
Inductive sev := Pump | SRecv (f : Z).

Fixpoint sys_run (s : sock) (st : rstate) (script : list sev) : sock * rstate * list obs :=
  match script with
  | [] => (s, st, [])
  | Pump :: script' =>
      let '(r, s1) := read_packet s in
      let '(st1, o1) := r_step st (Arrive r) in
      let '(s2, st2, o2) := sys_run s1 st1 script' in (s2, st2, o1 ++ o2)
  | SRecv f :: script' =>
      let '(st1, o1) := r_step st (Recv f) in
      let '(s2, st2, o2) := sys_run s st1 script' in (s2, st2, o1 ++ o2)
  end.

(* ---------------------------------------------------------------- CRTP tunnelling *)
(* CRTPPacket(header, data): header | 0x3<<2, port (header & 0xF0) >> 4, channel header & 3 *)
Record crtp := mk_crtp { k_header : Z; k_port : Z; k_chan : Z; k_data : list Z }.
Definition new_crtp (h : Z) (d : list Z) : crtp :=
  mk_crtp (Z.lor h 12) (Z.shiftr (Z.land h 240) 4) (Z.land h 3) d.

(* TcpDriver/SerialDriver.send_packet: CPXPacket(destination=STM32, function=CRTP, data=(header,)+data) *)
Definition tunnel_tx (header : Z) (data : list Z) : cpx :=
  new_cpx F_CRTP T_STM32 T_HOST (header :: data).

(* _CPXReceiveThread.run body for one received CPX packet: nothing is queued for an empty payload *)
Definition tunnel_rx (p : cpx) : option crtp :=
  match c_data p with
  | [] => None
  | h :: d => Some (new_crtp h d)
  end.

(* ---------------------------------------------------------------- encodings for the correspondence step *)
Definition enc_exc (e : exc) : Z :=
  match e with StructError => 1 | RuntimeErr => 2 | ValueErr => 3 | EndOfStream => 4 | AttributeErr => 5 end.
Definition enc_cpx (p : cpx) : list Z :=
  [c_src p; c_dst p; c_fn p; (if c_last p then 1 else 0); c_ver p; c_len p; zlen (c_data p)] ++ c_data p.
Definition enc_res (r : res cpx) : list Z :=
  match r with Ok p => 0 :: enc_cpx p | Exc e => [1; enc_exc e] end.
Definition enc_resb (r : res (list Z)) : list Z :=
  match r with Ok b => 0 :: zlen b :: b | Exc e => [1; enc_exc e] end.
Definition enc_obs (o : obs) : list Z :=
  match o with (f, None) => [f; 0] | (f, Some p) => f :: 1 :: enc_cpx p end.
Definition enc_crtp (o : option crtp) : list Z :=
  match o with None => [0] | Some k => [1; k_header k; k_port k; k_chan k; zlen (k_data k)] ++ k_data k end.
Definition enc_queue (o : option (list cpx)) : list Z :=
  match o with None => [-1] | Some q => zlen q :: concat (map enc_cpx q) end.

(* all ways of cutting a byte string into non-empty consecutive pieces (2^(n-1) for n > 0) *)
Fixpoint all_chunkings (b : list Z) : list sock :=
  match b with
  | [] => [[]]
  | x :: b' =>
      match b' with
      | [] => [[[x]]]
      | _ => flat_map (fun s => match s with
                                | c :: cs => [(x :: c) :: cs; [x] :: c :: cs]
                                | [] => [[[x]]]
                                end) (all_chunkings b')
      end
  end.

(* ---------------------------------------------------------------- specification vocabulary *)
(* a packet as the constructor / _set_wire_data produce it, small enough for the 16-bit prefix *)
Definition wf_cpx (p : cpx) : Prop :=
  In (c_src p) targets /\ In (c_dst p) targets /\ In (c_fn p) functions /\ c_ver p = 0 /\
  c_len p = zlen (c_data p) /\ c_len p <= 65533.

(* the same without the `length` attribute: a packet object whose data was assigned after construction *)
Definition wf_attrs (p : cpx) : Prop :=
  In (c_src p) targets /\ In (c_dst p) targets /\ In (c_fn p) functions /\ c_ver p = 0 /\
  zlen (c_data p) <= 65533.
(* what the receiver sees: `length` refreshed by _set_wire_data *)
Definition refresh (p : cpx) : cpx :=
  mk_cpx (c_src p) (c_dst p) (c_fn p) (c_last p) (c_ver p) (zlen (c_data p)) (c_data p).

(* s is a fragmentation of the byte string b: consecutive non-empty pieces *)
Definition chunking (s : sock) (b : list Z) : Prop := concat s = b /\ Forall (fun c => c <> []) s.

(* router bookkeeping used by the FIFO statement *)
Definition delivered (f : Z) (os : list obs) : list cpx :=
  flat_map (fun o : obs => match o with
                           | (g, Some p) => if g =? f then [p] else []
                           | (_, None) => []
                           end) os.
Definition pending (f : Z) (st : rstate) : list cpx := match st f with Some q => q | None => [] end.
Definition opened (f : Z) (st : rstate) : bool := match st f with Some _ => true | None => false end.
(* packets of function f that arrive while a queue for f exists (op: it exists already) *)
Fixpoint accepted (f : Z) (op : bool) (evs : list ev) : list cpx :=
  match evs with
  | [] => []
  | Arrive (Ok p) :: evs' => if op && (c_fn p =? f) then p :: accepted f op evs' else accepted f op evs'
  | Arrive (Exc _) :: evs' => accepted f op evs'
  | Recv g :: evs' => accepted f (op || (g =? f)) evs'
  end.

(* what the router sees when the stream carries exactly the packets ps *)
Fixpoint script_events (script : list sev) (ps : list cpx) : list ev :=
  match script with
  | [] => []
  | SRecv f :: sc => Recv f :: script_events sc ps
  | Pump :: sc =>
      match ps with
      | p :: ps' => Arrive (Ok p) :: script_events sc ps'
      | [] => Arrive (Exc EndOfStream) :: script_events sc []
      end
  end.

(* ---------------------------------------------------------------- the socket, relationally *)
(* one recv(n) on a stream socket with pending bytes b: ANY non-empty prefix of at most n bytes
   (what POSIX promises for a blocking stream socket that is not closed) *)
Inductive recv_any (b : list Z) (n : Z) : list Z -> list Z -> Prop :=
| recv_prefix k : (0 < k)%nat -> Z.of_nat k <= n -> (k <= length b)%nat ->
    recv_any b n (firstn k b) (skipn k b).

(* _readData(need) against such a socket: need, data so far, pending -> data returned, pending left *)
Inductive read_data_any : Z -> list Z -> list Z -> list Z -> list Z -> Prop :=
| rd_done need acc b : need <= 0 -> read_data_any need acc b acc b
| rd_step need acc b r b1 out b2 :
    0 < need -> recv_any b need r b1 ->
    read_data_any (need - zlen r) (acc ++ r) b1 out b2 ->
    read_data_any need acc b out b2.

(* readPacket against such a socket (both _readData calls complete) *)
Inductive read_packet_any (b : list Z) : res cpx -> list Z -> Prop :=
| rp_any h b1 d b2 :
    read_data_any 2 [] b h b1 -> read_data_any (le_val h) [] b1 d b2 ->
    read_packet_any b (set_wire d) b2.

(* n successive readPacket calls against such a socket *)
Inductive read_n_any : list Z -> list (res cpx) -> list Z -> Prop :=
| rn_nil b : read_n_any b [] b
| rn_cons b r b1 rs b2 : read_packet_any b r b1 -> read_n_any b1 rs b2 -> read_n_any b (r :: rs) b2.

(* ---------------------------------------------------------------- the CPX facade with the router thread *)
(* CPX(transport): router thread started; sendPacket / receivePacket / makeTransaction / close.
   CPump = the router thread performs one iteration of run(); CTransact p k = makeTransaction(p) during
   which the router thread performs k iterations. *)
Inductive cev := CPump | CRecv (f : Z) | CSend (p : cpx) | CTransact (p : cpx) (k : nat) | CClose.
Inductive cobs :=
| ORecv (f : Z) (r : option cpx)
| OSent (b : res (list Z))
| OTrans (b : res (list Z)) (r : option cpx)     (* None: the call is still blocked in queue.get() *)
| OClose (ok : bool).

Record cstate := mk_cs { cs_in : sock; cs_rt : rstate; cs_open : bool }.

Definition c_pump (c : cstate) : cstate :=
  if cs_open c then
    let '(r, s1) := read_packet (cs_in c) in
    mk_cs s1 (fst (r_step (cs_rt c) (Arrive r))) true
  else c.                                                  (* thread has left run() *)

Fixpoint c_pumps (k : nat) (c : cstate) : cstate :=
  match k with O => c | S k' => c_pumps k' (c_pump c) end.

Definition c_step (takes : list Z) (c : cstate) (e : cev) : cstate * list cobs :=
  match e with
  | CPump => (c_pump c, [])
  | CRecv f =>
      let '(st1, o) := r_step (cs_rt c) (Recv f) in
      (mk_cs (cs_in c) st1 (cs_open c), map (fun x : obs => ORecv (fst x) (snd x)) o)
  | CSend p =>
      (c, [OSent (if cs_open c then tx_packet takes p else Exc AttributeErr)])
  | CTransact p k =>
      if cs_open c then
        match tx_packet takes p with
        | Exc e => (c, [OTrans (Exc e) None])
        | Ok b =>
            let f := c_fn p in
            let st0 := match cs_rt c f with None => upd (cs_rt c) f [] | Some _ => cs_rt c end in
            let c1 := c_pumps k (mk_cs (cs_in c) st0 true) in
            match cs_rt c1 f with
            | Some (r :: q) => (mk_cs (cs_in c1) (upd (cs_rt c1) f q) (cs_open c1), [OTrans (Ok b) (Some r)])
            | _ => (c1, [OTrans (Ok b) None])
            end
        end
      else (c, [OTrans (Exc AttributeErr) None])
  | CClose => (mk_cs (cs_in c) (cs_rt c) false, [OClose (cs_open c)])
  end.

Fixpoint c_run (takes : list Z) (c : cstate) (evs : list cev) : cstate * list cobs :=
  match evs with
  | [] => (c, [])
  | e :: evs' => let '(c1, o1) := c_step takes c e in
                 let '(c2, o2) := c_run takes c1 evs' in (c2, o1 ++ o2)
  end.

Definition enc_opt (o : option cpx) : list Z := match o with None => [0] | Some p => 1 :: enc_cpx p end.
Definition enc_cobs (o : cobs) : list Z :=
  match o with
  | ORecv f r => 20 :: f :: enc_opt r
  | OSent b => 21 :: enc_resb b
  | OTrans b r => 22 :: enc_resb b ++ enc_opt r
  | OClose ok => [23; if ok then 1 else 0]
  end.

(* ---------------------------------------------------------------- several writers on one transport *)
(* Each writer performs a sequence of atomic socket writes; what reaches the stream is some interleaving of
   the writers' write calls (Merge).  After fix F18d writePacket holds a lock around its sendall, so the
   atomic write of a packet is its whole frame; `split_writes` is a writePacket that issues two writes. *)
Inductive Merge {A : Type} : list (list A) -> list A -> Prop :=
| merge_nil pss : Forall (fun l => l = []) pss -> Merge pss []
| merge_step pre x l post out :
    Merge (pre ++ l :: post) out -> Merge (pre ++ (x :: l) :: post) (x :: out).

(* executable: order[k] = index of the writer whose next write comes k-th *)
Fixpoint take_from {A} (i : nat) (pss : list (list A)) : option (A * list (list A)) :=
  match pss, i with
  | [], _ => None
  | [] :: _, O => None
  | (x :: l) :: rest, O => Some (x, l :: rest)
  | l :: rest, S i' => match take_from i' rest with
                       | Some (x, rest') => Some (x, l :: rest')
                       | None => None
                       end
  end.
Fixpoint merge_by {A} (order : list nat) (pss : list (list A)) : option (list A) :=
  match order with
  | [] => if forallb (fun l => match l with [] => true | _ => false end) pss then Some [] else None
  | i :: order' => match take_from i pss with
                   | Some (x, pss') => match merge_by order' pss' with
                                       | Some out => Some (x :: out)
                                       | None => None
                                       end
                   | None => None
                   end
  end.

Definition split_writes (p : cpx) : list (list Z) := [le_bytes 2 (zlen (c_data p) + 2); wire_data p].

(* correspondence step: the writers' packets, the observed order of frame writes, the observed stream *)
Definition writers_case (pss : list (list cpx)) (order : list Z) (stream : list Z) : list Z :=
  match merge_by (map Z.to_nat order) pss with
  | None => [0]
  | Some ps => [1; (if zlist_eqb (concat (map frame ps)) stream then 1 else 0)]
               ++ concat (map enc_res (fst (read_n (length ps) [stream])))
  end.

(* ---------------------------------------------------------------- per-function independence of the router *)
(* the events that concern function f, and the observations made by receivers of f *)
Definition rel (f : Z) (e : ev) : bool :=
  match e with
  | Arrive (Ok p) => c_fn p =? f
  | Arrive (Exc _) => false
  | Recv g => g =? f
  end.
Definition obs_of (f : Z) (os : list obs) : list obs := filter (fun o : obs => fst o =? f) os.
Fixpoint count_pump (script : list sev) : nat :=
  match script with
  | [] => O
  | Pump :: r => S (count_pump r)
  | SRecv _ :: r => count_pump r
  end.

(* ---------------------------------------------------------------- one packet object, used many times *)
(* A CPXPacket is a mutable object: attributes are assigned, it is encoded (wireData / writePacket), assigned again,
   encoded again (chunked transfers re-send one object with new data and lastPacket=True for the final chunk), or
   filled from received bytes (wireData setter) and re-encoded.  The encoder is a function of the current attributes. *)
Inductive pmut :=
| MSrc (z : Z) | MDst (z : Z) | MFn (z : Z) | MVer (z : Z) | MLast (b : bool)
| MData (l : list Z)           (* packet.data = l : `length` is NOT refreshed *)
| MDecode (bytes : list Z).    (* packet.wireData = bytes (valid bytes; an exception leaves a half-assigned object: not used) *)
Inductive pop := PMut (m : pmut) | PEnc | PWrite.

Definition apply_mut (p : cpx) (m : pmut) : cpx :=
  match m with
  | MSrc z => mk_cpx z (c_dst p) (c_fn p) (c_last p) (c_ver p) (c_len p) (c_data p)
  | MDst z => mk_cpx (c_src p) z (c_fn p) (c_last p) (c_ver p) (c_len p) (c_data p)
  | MFn z => mk_cpx (c_src p) (c_dst p) z (c_last p) (c_ver p) (c_len p) (c_data p)
  | MVer z => mk_cpx (c_src p) (c_dst p) (c_fn p) (c_last p) z (c_len p) (c_data p)
  | MLast b => mk_cpx (c_src p) (c_dst p) (c_fn p) b (c_ver p) (c_len p) (c_data p)
  | MData l => mk_cpx (c_src p) (c_dst p) (c_fn p) (c_last p) (c_ver p) (c_len p) l
  | MDecode bytes => match set_wire bytes with Ok q => q | Exc _ => p end
  end.

(* what each encode of the history produces *)
Fixpoint h_run (p : cpx) (ops : list pop) : list (res (list Z)) :=
  match ops with
  | [] => []
  | PMut m :: r => h_run (apply_mut p m) r
  | PEnc :: r => Ok (wire_data p) :: h_run p r
  | PWrite :: r => write_packet p :: h_run p r
  end.
(* the attribute values at the moment of each encode *)
Fixpoint h_states (p : cpx) (ops : list pop) : list cpx :=
  match ops with
  | [] => []
  | PMut m :: r => h_states (apply_mut p m) r
  | PEnc :: r => p :: h_states p r
  | PWrite :: r => p :: h_states p r
  end.

(* an encoder that caches the two routing bytes and forgets the cache when source, destination, function or
   version is assigned — but not when lastPacket is (the shape of a plausible "build once" optimisation) *)
Definition cache_keeps (m : pmut) : bool := match m with MLast _ | MData _ => true | _ => false end.
Fixpoint hc_run (p : cpx) (cache : option (Z * Z)) (ops : list pop) : list (list Z) :=
  match ops with
  | [] => []
  | PMut m :: r => hc_run (apply_mut p m) (if cache_keeps m then cache else None) r
  | _ :: r =>
      let hb := match cache with
                | Some hb => hb
                | None => (hdr0 (c_src p) (c_dst p) (c_last p), hdr1 (c_fn p) (c_ver p))
                end in
      (fst hb :: snd hb :: c_data p) :: hc_run p (Some hb) r
  end.

(* a makeTransaction that first discards what is queued for its function ("it arrived before the request") *)
Definition c_transact_flush (takes : list Z) (c : cstate) (p : cpx) (k : nat) : cstate * list cobs :=
  c_step takes (mk_cs (cs_in c) (match cs_rt c (c_fn p) with Some _ => upd (cs_rt c) (c_fn p) [] | None => cs_rt c end) (cs_open c))
         (CTransact p k).

(* ---------------------------------------------------------------- queues registered at construction (fix F18e) *)
(* CPXRouter(transport, functions): one queue of its OWN for every listed function, before the thread exists *)
Fixpoint r_reg (fs : list Z) : rstate :=
  match fs with
  | [] => r_init
  | f :: r => upd (r_reg r) f []
  end.
Definition zmem (f : Z) (fs : list Z) : bool := existsb (Z.eqb f) fs.

(* a router in which the functions registered at construction SHARE one queue object (dict.fromkeys(.., Queue())) *)
Definition sh_step (members : list Z) (shared : list cpx) (e : ev) : list cpx * list obs :=
  match e with
  | Arrive (Ok p) => if zmem (c_fn p) members then (shared ++ [p], []) else (shared, [])
  | Arrive (Exc _) => (shared, [])
  | Recv f => if zmem f members then
                match shared with
                | [] => ([], [(f, None)])
                | p :: q => (q, [(f, Some p)])
                end
              else (shared, [(f, None)])
  end.
Fixpoint sh_run (members : list Z) (shared : list cpx) (evs : list ev) : list obs :=
  match evs with
  | [] => []
  | e :: r => let '(s1, o1) := sh_step members shared e in o1 ++ sh_run members s1 r
  end.

(* ---------------------------------------------------------------- connection histories on ONE transport object *)
(* readPacket keeps nothing between calls (size and data are locals of readPacket/_readData), disconnect()/connect() replace the
   socket: the transport's receive state IS the socket.  TRead = readPacket (an exception of recv = the scripted socket running
   dry, EndOfStream: what was read of the unfinished frame is dropped with the call), TReconnect s = disconnect(); connect()
   to a socket that will deliver s. *)
Inductive tev := TRead | TReconnect (s : sock).
Fixpoint t_run (s : sock) (evs : list tev) : list (res cpx) :=
  match evs with
  | [] => []
  | TRead :: r => let '(x, s1) := read_packet s in x :: t_run s1 r
  | TReconnect s2 :: r => t_run s2 r
  end.

(* a reader that keeps the unfinished frame (length once known, bytes so far) in the transport object, so that a later
   readPacket resumes it — and that does not forget it on disconnect()/connect() *)
Fixpoint read_data_r (need : Z) (acc : list Z) (s : sock) : list Z * bool * sock :=
  if need <=? 0 then (acc, true, s) else
  match s with
  | [] => (acc, false, [])
  | c :: rest =>
      if zlen c <=? need then read_data_r (need - zlen c) (acc ++ c) rest
      else (acc ++ firstn (Z.to_nat need) c, true, skipn (Z.to_nat need) c :: rest)
  end.
Definition rx_state := (option Z * list Z)%type.
Definition read_packet_s (st : rx_state) (s : sock) : res cpx * sock * rx_state :=
  let '(szo, buf) := st in
  let step2 (size : Z) (buf : list Z) (s1 : sock) :=
    let '(d, ok, s2) := read_data_r (size - zlen buf) buf s1 in
    if ok then (set_wire d, s2, (None, [])) else (Exc EndOfStream, s2, (Some size, d)) in
  match szo with
  | Some size => step2 size buf s
  | None =>
      let '(h, ok, s1) := read_data_r (2 - zlen buf) buf s in
      if ok then step2 (le_val h) [] s1 else (Exc EndOfStream, s1, (None, h))
  end.
Fixpoint ts_run (st : rx_state) (s : sock) (evs : list tev) : list (res cpx) :=
  match evs with
  | [] => []
  | TRead :: r => let '(x, s1, st1) := read_packet_s st s in x :: ts_run st1 s1 r
  | TReconnect s2 :: r => ts_run st s2 r
  end.
