(* C18/Proofs.v — stream re-assembly: the chunk-by-chunk reader equals the flat parser. *)
From CF Require Import Common.Bytes C18.Model.
From Coq Require Import ZifyBool.
Open Scope Z_scope.

Lemma zlen_nonneg {A} (l : list A) : 0 <= zlen l.
Proof. unfold zlen. lia. Qed.

Lemma zlen_app {A} (a b : list A) : zlen (a ++ b) = zlen a + zlen b.
Proof. unfold zlen. rewrite app_length. lia. Qed.

Lemma zlen_cons {A} (x : A) (l : list A) : zlen (x :: l) = 1 + zlen l.
Proof. unfold zlen. cbn [length]. lia. Qed.

Lemma read_data_eq need acc s :
  read_data need acc s =
  if need <=? 0 then Some (acc, s) else
  match s with
  | [] => None
  | c :: rest =>
      if zlen c <=? need then read_data (need - zlen c) (acc ++ c) rest
      else Some (acc ++ firstn (Z.to_nat need) c, skipn (Z.to_nat need) c :: rest)
  end.
Proof. destruct s; reflexivity. Qed.

Lemma firstn_app_le {A} n (a b : list A) : (n <= length a)%nat -> firstn n (a ++ b) = firstn n a.
Proof.
  intros H. rewrite firstn_app. replace (n - length a)%nat with 0%nat by lia.
  cbn [firstn]. apply app_nil_r.
Qed.

Lemma skipn_app_le {A} n (a b : list A) : (n <= length a)%nat -> skipn n (a ++ b) = skipn n a ++ b.
Proof.
  intros H. rewrite skipn_app. replace (n - length a)%nat with 0%nat by lia. reflexivity.
Qed.

Lemma firstn_app_ge {A} n (a b : list A) : (length a <= n)%nat ->
  firstn n (a ++ b) = a ++ firstn (n - length a) b.
Proof. intros H. rewrite firstn_app. rewrite firstn_all2 by lia. reflexivity. Qed.

Lemma skipn_app_ge {A} n (a b : list A) : (length a <= n)%nat ->
  skipn n (a ++ b) = skipn (n - length a) b.
Proof. intros H. rewrite skipn_app. rewrite skipn_all2 by lia. reflexivity. Qed.

(* enough bytes pending: _readData returns exactly the next `need` bytes, whatever the pieces *)
Lemma read_data_some : forall s need acc,
  need <= zlen (concat s) ->
  exists s', read_data need acc s = Some (acc ++ firstn (Z.to_nat need) (concat s), s')
             /\ concat s' = skipn (Z.to_nat need) (concat s).
Proof.
  induction s as [|c rest IH]; intros need acc Hle; rewrite read_data_eq.
  - cbn [concat] in *. change (zlen (@nil Z)) with 0 in Hle.
    destruct (need <=? 0) eqn:E; [|lia].
    exists []. replace (Z.to_nat need) with 0%nat by lia. cbn. now rewrite app_nil_r.
  - destruct (need <=? 0) eqn:E.
    + exists (c :: rest). replace (Z.to_nat need) with 0%nat by lia. cbn [firstn skipn].
      now rewrite app_nil_r.
    + cbn [concat] in *. rewrite zlen_app in Hle.
      destruct (zlen c <=? need) eqn:E2.
      * destruct (IH (need - zlen c) (acc ++ c)) as (s' & H1 & H2); [lia|].
        exists s'. rewrite H1. unfold zlen in *.
        rewrite firstn_app_ge, skipn_app_ge by lia.
        replace (Z.to_nat need - length c)%nat with (Z.to_nat (need - Z.of_nat (length c))) by lia.
        rewrite <- app_assoc. auto.
      * exists (skipn (Z.to_nat need) c :: rest). unfold zlen in *.
        rewrite firstn_app_le, skipn_app_le by lia. cbn [concat]. auto.
Qed.

(* not enough bytes: the scripted socket runs dry *)
Lemma read_data_none : forall s need acc,
  zlen (concat s) < need -> read_data need acc s = None.
Proof.
  induction s as [|c rest IH]; intros need acc Hlt; rewrite read_data_eq.
  - cbn [concat] in Hlt. change (zlen (@nil Z)) with 0 in Hlt.
    destruct (need <=? 0) eqn:E; [lia|reflexivity].
  - cbn [concat] in Hlt. rewrite zlen_app in Hlt. pose proof (zlen_nonneg c). pose proof (zlen_nonneg (concat rest)).
    destruct (need <=? 0) eqn:E; [lia|].
    destruct (zlen c <=? need) eqn:E2; [|lia].
    apply IH. lia.
Qed.

Lemma zlen_skipn {A} n (l : list A) : (n <= length l)%nat -> zlen (skipn n l) = zlen l - Z.of_nat n.
Proof. intros H. unfold zlen. rewrite skipn_length. lia. Qed.


(* readPacket on any fragmentation = parse_one on the concatenation *)
Lemma read_packet_spec : forall s,
  exists s', read_packet s = (fst (parse_one (concat s)), s') /\ concat s' = snd (parse_one (concat s)).
Proof.
  intros s. unfold read_packet, parse_one.
  destruct (zlen (concat s) <? 2) eqn:E.
  - rewrite read_data_none by lia. exists []. auto.
  - destruct (read_data_some s 2 []) as (s1 & H1 & H2); [lia|].
    rewrite H1. cbn [app]. change (Z.to_nat 2) with 2%nat in *.
    rewrite <- H2.
    set (size := le_val (firstn 2 (concat s))).
    destruct (zlen (concat s1) <? size) eqn:E2.
    + rewrite read_data_none by lia. exists []. auto.
    + destruct (read_data_some s1 size []) as (s2 & H3 & H4); [lia|].
      rewrite H3. cbn [app fst snd]. exists s2. auto.
Qed.

Lemma read_n_spec : forall n s,
  exists s', read_n n s = (fst (parse_n n (concat s)), s') /\ concat s' = snd (parse_n n (concat s)).
Proof.
  induction n as [|n IH]; intros s; cbn [read_n parse_n].
  - exists s. auto.
  - destruct (read_packet_spec s) as (s1 & H1 & H2). rewrite H1.
    destruct (parse_one (concat s)) as [r b1]. cbn [fst snd] in *.
    subst b1. destruct (IH s1) as (s2 & H3 & H4). rewrite H3.
    destruct (parse_n n (concat s1)) as [rs b2]. cbn [fst snd] in *.
    exists s2. auto.
Qed.

(* fragmentation invariance for ARBITRARY byte streams (well-formed or not) *)
Lemma read_n_invariant : forall n s1 s2, concat s1 = concat s2 ->
  fst (read_n n s1) = fst (read_n n s2) /\ concat (snd (read_n n s1)) = concat (snd (read_n n s2)).
Proof.
  intros n s1 s2 E.
  destruct (read_n_spec n s1) as (a & Ha & Ha').
  destruct (read_n_spec n s2) as (b & Hb & Hb').
  rewrite Ha, Hb. cbn [fst snd]. rewrite Ha', Hb', E. auto.
Qed.

(* ================================================================ packet codec *)
Lemma set_wire_wire_data : forall p, wf_cpx p -> set_wire (wire_data p) = Ok p.
Proof.
  intros [s d f l v n data] (Hs & Hd & Hf & Hv & Hn & _). cbn [c_src c_dst c_fn c_ver c_len c_data] in *.
  subst v n. unfold targets, functions in *. cbn [In] in Hs, Hd, Hf.
  destruct Hs as [<-|[<-|[<-|[<-|[]]]]]; destruct Hd as [<-|[<-|[<-|[<-|[]]]]];
    destruct Hf as [<-|[<-|[<-|[<-|[<-|[<-|[<-|[]]]]]]]]; destruct l; reflexivity.
Qed.

(* finite ranges, for enumerations of header bit fields *)
Definition zseq (lo : Z) (n : nat) : list Z := map (fun i => lo + Z.of_nat i) (seq 0 n).
Lemma zseq_forallb (P : Z -> bool) lo n :
  forallb P (zseq lo n) = true -> forall x, lo <= x < lo + Z.of_nat n -> P x = true.
Proof.
  intros H x Hx. rewrite forallb_forall in H. apply H. unfold zseq.
  apply in_map_iff. exists (Z.to_nat (x - lo)). split; [lia|]. apply in_seq. lia.
Qed.

Lemma land_ones_range x k : 0 <= k -> 0 <= Z.land x (Z.ones k) < 2 ^ k.
Proof. intros Hk. rewrite Z.land_ones by assumption. apply Z.mod_pos_bound. apply Z.pow_pos_nonneg; lia. Qed.

Lemma hdr1_fields_small : forall m k, 0 <= m < 64 -> 0 <= k < 4 ->
  Z.land (Z.shiftr (Z.lor m (Z.shiftl k 6)) 6) 3 = k /\ Z.land (Z.lor m (Z.shiftl k 6)) 63 = m.
Proof.
  intros m k Hm Hk.
  assert (H : forallb (fun m => forallb (fun k =>
     (Z.land (Z.shiftr (Z.lor m (Z.shiftl k 6)) 6) 3 =? k) && (Z.land (Z.lor m (Z.shiftl k 6)) 63 =? m))
     (zseq 0 4)) (zseq 0 64) = true) by (vm_compute; reflexivity).
  pose proof (zseq_forallb _ _ _ H m ltac:(lia)) as H1. cbv beta in H1.
  pose proof (zseq_forallb _ _ _ H1 k ltac:(lia)) as H2. cbv beta in H2. lia.
Qed.

Lemma hdr1_fields fn ver :
  Z.land (Z.shiftr (hdr1 fn ver) 6) 3 = Z.land ver 3 /\ Z.land (hdr1 fn ver) 63 = Z.land fn 63.
Proof.
  unfold hdr1. apply hdr1_fields_small.
  - change 63 with (Z.ones 6). pose proof (land_ones_range fn 6). lia.
  - change 3 with (Z.ones 2). pose proof (land_ones_range ver 2). lia.
Qed.

Lemma hdr0_fields_small : forall a b l, 0 <= a < 8 -> 0 <= b < 8 ->
  let tf0 := Z.lor (Z.shiftl a 3) b in let tf := if l : bool then Z.lor tf0 64 else tf0 in
  Z.land (Z.shiftr tf 3) 7 = a /\ Z.land tf 7 = b /\ negb (Z.land tf 64 =? 0) = l.
Proof.
  intros a b l Ha Hb.
  assert (H : forallb (fun a => forallb (fun b => forallb (fun l : bool =>
     let tf0 := Z.lor (Z.shiftl a 3) b in let tf := if l then Z.lor tf0 64 else tf0 in
     (Z.land (Z.shiftr tf 3) 7 =? a) && (Z.land tf 7 =? b) && Bool.eqb (negb (Z.land tf 64 =? 0)) l)
     [true; false]) (zseq 0 8)) (zseq 0 8) = true) by (vm_compute; reflexivity).
  pose proof (zseq_forallb _ _ _ H a ltac:(lia)) as H1. cbv beta in H1.
  pose proof (zseq_forallb _ _ _ H1 b ltac:(lia)) as H2. cbv beta in H2.
  rewrite forallb_forall in H2. specialize (H2 l ltac:(destruct l; cbn; auto)). cbv zeta in H2 |- *.
  apply andb_true_iff in H2 as [H2 H3]. apply andb_true_iff in H2 as [H2 H4].
  apply Bool.eqb_prop in H3. lia.
Qed.

Lemma hdr0_fields src dst l :
  Z.land (Z.shiftr (hdr0 src dst l) 3) 7 = Z.land src 7 /\ Z.land (hdr0 src dst l) 7 = Z.land dst 7 /\
  negb (Z.land (hdr0 src dst l) 64 =? 0) = l.
Proof.
  unfold hdr0. apply hdr0_fields_small.
  - change 7 with (Z.ones 3). pose proof (land_ones_range src 3). lia.
  - change 7 with (Z.ones 3). pose proof (land_ones_range dst 3). lia.
Qed.

(* complete description of decode o encode for ANY attribute values (also user-defined enum values) *)
Lemma set_wire_wire_data_gen : forall p,
  set_wire (wire_data p) =
    if negb (Z.land (c_ver p) 3 =? 0) then Exc RuntimeErr else
    if negb (is_target (Z.land (c_src p) 7)) then Exc ValueErr else
    if negb (is_target (Z.land (c_dst p) 7)) then Exc ValueErr else
    if negb (is_function (Z.land (c_fn p) 63)) then Exc ValueErr else
    Ok (mk_cpx (Z.land (c_src p) 7) (Z.land (c_dst p) 7) (Z.land (c_fn p) 63) (c_last p)
               (Z.land (c_ver p) 3) (zlen (c_data p)) (c_data p)).
Proof.
  intros p. unfold wire_data, set_wire.
  destruct (hdr1_fields (c_fn p) (c_ver p)) as [-> ->].
  destruct (hdr0_fields (c_src p) (c_dst p) (c_last p)) as (-> & -> & ->). reflexivity.
Qed.

Lemma version_rejected_packet : forall p, Z.land (c_ver p) 3 <> 0 -> set_wire (wire_data p) = Exc RuntimeErr.
Proof.
  intros p H. rewrite set_wire_wire_data_gen.
  destruct (Z.land (c_ver p) 3 =? 0) eqn:E; [lia|reflexivity].
Qed.

Lemma version_rejected_bytes : forall tf fv rest, 64 <= fv < 256 -> set_wire (tf :: fv :: rest) = Exc RuntimeErr.
Proof.
  intros tf fv rest H. unfold set_wire.
  assert (E : (Z.land (Z.shiftr fv 6) 3 =? 0) = false).
  { assert (Hall : forallb (fun fv => negb (Z.land (Z.shiftr fv 6) 3 =? 0)) (zseq 64 192) = true)
      by (vm_compute; reflexivity).
    pose proof (zseq_forallb _ _ _ Hall fv ltac:(lia)) as H1. cbv beta in H1.
    destruct (Z.land (Z.shiftr fv 6) 3 =? 0); [discriminate|reflexivity]. }
  rewrite E. reflexivity.
Qed.

(* ================================================================ frames on the flat stream *)
Lemma le_bytes2_prefix n tl : firstn 2 (le_bytes 2 n ++ tl) = le_bytes 2 n /\ skipn 2 (le_bytes 2 n ++ tl) = tl.
Proof. cbn [le_bytes app firstn skipn]. auto. Qed.

Lemma zlen_wire_data p : zlen (wire_data p) = zlen (c_data p) + 2.
Proof. unfold wire_data. rewrite !zlen_cons. lia. Qed.

(* one frame at the head of a byte string: the parser consumes exactly it *)
Lemma parse_one_frame_gen : forall p b,
  zlen (c_data p) + 2 <= 65535 ->
  parse_one (frame p ++ b) = (set_wire (wire_data p), b).
Proof.
  intros p b Hmax. unfold parse_one, frame. rewrite <- app_assoc.
  destruct (le_bytes2_prefix (zlen (c_data p) + 2) (wire_data p ++ b)) as [-> ->].
  pose proof (zlen_nonneg (c_data p)) as Hnn.
  rewrite le_val_le_bytes_id by (change (256 ^ Z.of_nat 2) with 65536; lia).
  rewrite !zlen_app. replace (zlen (le_bytes 2 (zlen (c_data p) + 2))) with 2 by (unfold zlen; rewrite le_bytes_length; reflexivity).
  pose proof (zlen_nonneg (wire_data p ++ b)) as H1. rewrite zlen_app in H1. pose proof (zlen_nonneg b) as Hb.
  pose proof (zlen_wire_data p) as Hw.
  destruct (2 + (zlen (wire_data p) + zlen b) <? 2) eqn:E1; [lia|].
  destruct (zlen (wire_data p) + zlen b <? zlen (c_data p) + 2) eqn:E2; [lia|].
  replace (Z.to_nat (zlen (c_data p) + 2)) with (length (wire_data p)) by (unfold zlen in *; lia).
  rewrite firstn_app_exact, skipn_app_exact. reflexivity.
Qed.

Lemma parse_one_frame : forall p b, wf_cpx p -> parse_one (frame p ++ b) = (Ok p, b).
Proof.
  intros p b Hwf. pose proof Hwf as (_ & _ & _ & _ & Hn & Hmax).
  rewrite parse_one_frame_gen by lia. now rewrite set_wire_wire_data.
Qed.

Lemma parse_n_frames : forall ps b, Forall wf_cpx ps ->
  parse_n (length ps) (concat (map frame ps) ++ b) = (map Ok ps, b).
Proof.
  induction ps as [|p ps IH]; intros b Hwf; cbn [length map concat parse_n app].
  - reflexivity.
  - inversion Hwf as [|? ? Hp Hps]; subst. rewrite <- app_assoc, parse_one_frame by assumption.
    rewrite IH by assumption. reflexivity.
Qed.

Lemma parse_one_nil : parse_one [] = (Exc EndOfStream, []).
Proof. reflexivity. Qed.

(* ---- the re-assembly theorem *)
Lemma stream_reassembly : forall ps s, Forall wf_cpx ps -> chunking s (concat (map frame ps)) ->
  exists s', read_n (length ps) s = (map Ok ps, s') /\ concat s' = [].
Proof.
  intros ps s Hwf [Hc _].
  destruct (read_n_spec (length ps) s) as (s' & H1 & H2).
  rewrite Hc in *. rewrite <- (app_nil_r (concat (map frame ps))) in H1, H2.
  rewrite parse_n_frames in H1, H2 by assumption. exists s'. auto.
Qed.

(* and the reader reports the end of the stream afterwards: nothing is invented *)
Lemma stream_then_end : forall ps s, Forall wf_cpx ps -> chunking s (concat (map frame ps)) ->
  forall s', snd (read_n (length ps) s) = s' -> fst (read_packet s') = Exc EndOfStream.
Proof.
  intros ps s Hwf Hch s' <-. destruct (stream_reassembly ps s Hwf Hch) as (s1 & H1 & H2).
  rewrite H1. cbn [snd]. destruct (read_packet_spec s1) as (s2 & H3 & _). rewrite H3, H2. reflexivity.
Qed.

Lemma write_packet_wf : forall p, wf_cpx p -> write_packet p = Ok (frame p).
Proof.
  intros p (_ & _ & _ & _ & Hn & Hmax). unfold write_packet. pose proof (zlen_nonneg (c_data p)).
  destruct (zlen (c_data p) + 2 <=? 65535) eqn:E; [reflexivity|lia].
Qed.

Lemma write_packet_too_long : forall p, 65533 < zlen (c_data p) -> write_packet p = Exc StructError.
Proof.
  intros p H. unfold write_packet.
  destruct (zlen (c_data p) + 2 <=? 65535) eqn:E; [lia|reflexivity].
Qed.

(* one well-formed frame at the head of ANY stream, under any fragmentation *)
Lemma read_packet_frame : forall p b s, wf_cpx p -> concat s = frame p ++ b ->
  exists s', read_packet s = (Ok p, s') /\ concat s' = b.
Proof.
  intros p b s Hwf Hc. destruct (read_packet_spec s) as (s' & H1 & H2).
  rewrite Hc, parse_one_frame in H1, H2 by assumption. exists s'. auto.
Qed.

(* a frame of an unsupported version is rejected and the stream stays aligned *)
Lemma read_packet_bad_version : forall p b s,
  Z.land (c_ver p) 3 <> 0 -> zlen (c_data p) <= 65533 ->
  concat s = frame p ++ b ->
  exists s', read_packet s = (Exc RuntimeErr, s') /\ concat s' = b.
Proof.
  intros p b s Hv Hmax Hc. destruct (read_packet_spec s) as (s' & H1 & H2).
  rewrite Hc, parse_one_frame_gen in H1, H2 by lia. rewrite version_rejected_packet in H1 by assumption.
  exists s'. auto.
Qed.

(* ================================================================ router *)
Lemma delivered_app f a b : delivered f (a ++ b) = delivered f a ++ delivered f b.
Proof. unfold delivered. apply flat_map_app. Qed.

Lemma pending_upd_same f st q : pending f (upd st f q) = q.
Proof. unfold pending, upd. now rewrite Z.eqb_refl. Qed.
Lemma pending_upd_other f g st q : f <> g -> pending f (upd st g q) = pending f st.
Proof. intros H. unfold pending, upd. destruct (f =? g) eqn:E; [lia|reflexivity]. Qed.
Lemma opened_upd_same f st q : opened f (upd st f q) = true.
Proof. unfold opened, upd. now rewrite Z.eqb_refl. Qed.
Lemma opened_upd_other f g st q : f <> g -> opened f (upd st g q) = opened f st.
Proof. intros H. unfold opened, upd. destruct (f =? g) eqn:E; [lia|reflexivity]. Qed.

Lemma router_fifo_gen : forall evs st f,
  delivered f (snd (r_run st evs)) ++ pending f (fst (r_run st evs)) =
  pending f st ++ accepted f (opened f st) evs.
Proof.
  induction evs as [|e evs IH]; intros st f; cbn [r_run accepted].
  - cbn [fst snd delivered flat_map]. now rewrite app_nil_r.
  - destruct (r_step st e) as [st1 o1] eqn:Es.
    specialize (IH st1 f). destruct (r_run st1 evs) as [st2 o2]. cbn [fst snd] in *.
    rewrite delivered_app, <- app_assoc, IH. clear IH.
    destruct e as [[p|x]|g]; cbn [r_step] in Es.
    + destruct (st (c_fn p)) as [q|] eqn:Eq; injection Es as <- <-; cbn [delivered flat_map app].
      * destruct (c_fn p =? f) eqn:Ef.
        -- assert (c_fn p = f) by lia. subst f.
           rewrite pending_upd_same, opened_upd_same.
           unfold pending at 1, opened. rewrite Eq. cbn [andb]. now rewrite <- app_assoc.
        -- rewrite pending_upd_other, opened_upd_other by lia. now rewrite andb_false_r.
      * destruct (c_fn p =? f) eqn:Ef.
        -- assert (c_fn p = f) by lia. subst f. unfold opened. rewrite Eq. reflexivity.
        -- now rewrite andb_false_r.
    + injection Es as <- <-. reflexivity.
    + destruct (g =? f) eqn:Eg.
      * assert (g = f) by lia. subst g. rewrite orb_true_r.
        destruct (st f) as [[|p q]|] eqn:Eq; injection Es as <- <-;
          cbn [delivered flat_map app]; rewrite ?Z.eqb_refl, pending_upd_same, opened_upd_same;
          unfold pending; rewrite Eq; reflexivity.
      * rewrite orb_false_r.
        assert (Hd : delivered f o1 = []).
        { destruct (st g) as [[|p q]|]; injection Es as <- <-; cbn [delivered flat_map app]; rewrite ?Eg; reflexivity. }
        rewrite Hd. cbn [app].
        assert (Hs : pending f st1 = pending f st /\ opened f st1 = opened f st).
        { destruct (st g) as [[|p q]|]; injection Es as <- <-;
            rewrite pending_upd_other, opened_upd_other by lia; auto. }
        destruct Hs as [-> ->]. reflexivity.
Qed.

Lemma router_fifo : forall evs f,
  delivered f (snd (r_run r_init evs)) ++ pending f (fst (r_run r_init evs)) = accepted f false evs.
Proof. intros. apply (router_fifo_gen evs r_init f). Qed.

(* queues are pure: queue g only ever holds packets of function g *)
Definition pure (st : rstate) : Prop := forall g q, st g = Some q -> Forall (fun p => c_fn p = g) q.

Lemma pure_upd st f q : pure st -> Forall (fun p => c_fn p = f) q -> pure (upd st f q).
Proof.
  intros Hp Hq g q' H. unfold upd in H. destruct (g =? f) eqn:E.
  - injection H as <-. assert (g = f) by lia. now subst.
  - now apply Hp.
Qed.

Lemma r_step_pure st e : pure st ->
  pure (fst (r_step st e)) /\ Forall (fun o : obs => match o with (g, Some p) => c_fn p = g | _ => True end) (snd (r_step st e)).
Proof.
  intros Hp. destruct e as [[p|x]|g]; cbn [r_step].
  - destruct (st (c_fn p)) as [q|] eqn:Eq; cbn [fst snd]; split; auto.
    apply pure_upd; [assumption|]. apply Forall_app. split; [now apply (Hp _ _ Eq)|auto].
  - cbn [fst snd]. auto.
  - destruct (st g) as [[|p q]|] eqn:Eq; cbn [fst snd]; split; try (apply pure_upd; auto); auto.
    + pose proof (Hp _ _ Eq) as H. now inversion H.
    + pose proof (Hp _ _ Eq) as H. inversion H; subst. auto.
Qed.

Lemma r_run_pure : forall evs st, pure st ->
  pure (fst (r_run st evs)) /\ Forall (fun o : obs => match o with (g, Some p) => c_fn p = g | _ => True end) (snd (r_run st evs)).
Proof.
  induction evs as [|e evs IH]; intros st Hp; cbn [r_run].
  - cbn [fst snd]. auto.
  - destruct (r_step_pure st e Hp) as [H1 H2]. destruct (r_step st e) as [st1 o1]. cbn [fst snd] in *.
    destruct (IH st1 H1) as [H3 H4]. destruct (r_run st1 evs) as [st2 o2]. cbn [fst snd] in *.
    split; [assumption|]. apply Forall_app. auto.
Qed.

Lemma pure_init : pure r_init.
Proof. intros g q H. discriminate. Qed.

Lemma router_only_own_function : forall evs g p,
  In (g, Some p) (snd (r_run r_init evs)) -> c_fn p = g.
Proof.
  intros evs g p Hin. destruct (r_run_pure evs r_init pure_init) as [_ H].
  rewrite Forall_forall in H. apply (H _ Hin).
Qed.

(* ================================================================ router on the real transport *)
Lemma read_packet_end : forall s, concat s = [] -> read_packet s = (Exc EndOfStream, []).
Proof.
  intros s H. unfold read_packet. rewrite read_data_none; [reflexivity|]. rewrite H. reflexivity.
Qed.

Lemma sys_run_spec : forall script ps s st, Forall wf_cpx ps -> concat s = concat (map frame ps) ->
  let '(_, st', os) := sys_run s st script in r_run st (script_events script ps) = (st', os).
Proof.
  induction script as [|[|f] script IH]; intros ps s st Hwf Hc.
  - reflexivity.
  - destruct ps as [|p ps]; cbn [sys_run script_events r_run].
    + cbn [map concat] in Hc. rewrite (read_packet_end s Hc).
      destruct (r_step st (Arrive (Exc EndOfStream))) as [st1 o1].
      specialize (IH [] [] st1 Hwf eq_refl). destruct (sys_run [] st1 script) as [[s2 st2] o2].
      rewrite IH. reflexivity.
    + inversion Hwf as [|? ? Hp Hps]; subst. cbn [map concat] in Hc.
      destruct (read_packet_frame p _ s Hp Hc) as (s1 & H1 & H2). rewrite H1.
      destruct (r_step st (Arrive (Ok p))) as [st1 o1].
      specialize (IH ps s1 st1 Hps H2). destruct (sys_run s1 st1 script) as [[s2 st2] o2].
      rewrite IH. reflexivity.
  - cbn [sys_run script_events r_run]. destruct (r_step st (Recv f)) as [st1 o1].
    specialize (IH ps s st1 Hwf Hc). destruct (sys_run s st1 script) as [[s2 st2] o2].
    rewrite IH. reflexivity.
Qed.

(* ================================================================ CRTP tunnelling *)
Lemma new_crtp_reserved_bits : forall h d, new_crtp (Z.lor h 12) d = new_crtp h d.
Proof.
  intros h d. unfold new_crtp. f_equal.
  - rewrite <- Z.lor_assoc. reflexivity.
  - rewrite Z.land_lor_distr_l. change (Z.land 12 240) with 0. now rewrite Z.lor_0_r.
  - rewrite Z.land_lor_distr_l. change (Z.land 12 3) with 0. now rewrite Z.lor_0_r.
Qed.

Lemma tunnel_tx_wf : forall h d, zlen d <= 65532 -> wf_cpx (tunnel_tx h d).
Proof.
  intros h d H. unfold wf_cpx, tunnel_tx, new_cpx. cbn [c_src c_dst c_fn c_ver c_len c_data].
  rewrite zlen_cons. unfold targets, functions, T_HOST, T_STM32, F_CRTP. cbn [In].
  repeat split; auto 10; lia.
Qed.

(* uplink: what send_packet writes is read back, under any fragmentation, as a CPX packet
   HOST -> STM32 / CRTP whose payload is the CRTP header byte followed by the CRTP payload *)
Lemma tunnel_uplink : forall h d s, zlen d <= 65532 -> chunking s (frame (tunnel_tx h d)) ->
  exists p s', read_packet s = (Ok p, s') /\ concat s' = [] /\
    c_data p = h :: d /\ c_fn p = F_CRTP /\ c_dst p = T_STM32 /\ c_src p = T_HOST /\ c_last p = false.
Proof.
  intros h d s Hd [Hc _]. rewrite <- (app_nil_r (frame _)) in Hc.
  destruct (read_packet_frame _ _ s (tunnel_tx_wf h d Hd) Hc) as (s' & H1 & H2).
  exists (tunnel_tx h d), s'. repeat split; auto.
Qed.

(* downlink: a CRTP-function CPX packet from any source whose payload is header :: data becomes
   the CRTP packet with that payload and that header (reserved bits 2,3 forced to 1 by CRTPPacket) *)
Lemma tunnel_downlink : forall p h d b s, wf_cpx p -> c_data p = h :: d -> concat s = frame p ++ b ->
  exists p' s', read_packet s = (Ok p', s') /\ concat s' = b /\
    tunnel_rx p' = Some (mk_crtp (Z.lor h 12) (crtp_port h) (crtp_chan h) d).
Proof.
  intros p h d b s Hwf Hd Hc. destruct (read_packet_frame p b s Hwf Hc) as (s' & H1 & H2).
  exists p, s'. repeat split; auto. unfold tunnel_rx. rewrite Hd. reflexivity.
Qed.

Lemma tunnel_downlink_empty : forall p, c_data p = [] -> tunnel_rx p = None.
Proof. intros p H. unfold tunnel_rx. now rewrite H. Qed.

(* there and back: a CRTP packet object sent and looped back is the same object *)
Lemma tunnel_loopback : forall h d, tunnel_rx (tunnel_tx (k_header (new_crtp h d)) (k_data (new_crtp h d))) = Some (new_crtp h d).
Proof. intros h d. unfold tunnel_rx, tunnel_tx, new_cpx. cbn [c_data k_header k_data new_crtp]. f_equal. apply new_crtp_reserved_bits. Qed.

(* header of a packet built with set_header(port, channel) keeps port and channel *)
Lemma crtp_header_fields : forall port chan,
  Z.lor (crtp_header port chan) 12 = crtp_header port chan /\
  crtp_port (crtp_header port chan) = Z.land port 15 /\ crtp_chan (crtp_header port chan) = Z.land chan 3.
Proof.
  intros port chan. unfold crtp_header, crtp_port, crtp_chan.
  change 15 with (Z.ones 4). change 3 with (Z.ones 2).
  pose proof (land_ones_range port 4 ltac:(lia)) as Hp. pose proof (land_ones_range chan 2 ltac:(lia)) as Hc.
  set (a := Z.land port (Z.ones 4)) in *. set (c := Z.land chan (Z.ones 2)) in *.
  assert (H : forallb (fun a => forallb (fun c =>
     let h := Z.lor (Z.lor (Z.shiftl a 4) 12) c in
     (Z.lor h 12 =? h) && (Z.shiftr (Z.land h 240) 4 =? a) && (Z.land h (Z.ones 2) =? c)) (zseq 0 4)) (zseq 0 16) = true)
    by (vm_compute; reflexivity).
  pose proof (zseq_forallb _ _ _ H a ltac:(change (2^4) with 16 in Hp; lia)) as H1. cbv beta in H1.
  pose proof (zseq_forallb _ _ _ H1 c ltac:(change (2^2) with 4 in Hc; lia)) as H2. cbv beta zeta in H2.
  lia.
Qed.

(* ================================================================ statements in the form used by Property.v *)
Lemma packet_roundtrip : forall src dst fn last data,
  In src targets -> In dst targets -> In fn functions ->
  let p := mk_cpx src dst fn last 0 (zlen data) data in
  set_wire (wire_data p) = Ok p /\
  (zlen data <= 65533 -> write_packet p = Ok (le_bytes 2 (zlen data + 2) ++ wire_data p)).
Proof.
  intros src dst fn last data Hs Hd Hf p.
  assert (Hwf : zlen data <= 65533 -> wf_cpx p) by (intros; unfold wf_cpx, p; cbn; auto 10).
  split.
  - subst p. destruct (Z_le_gt_dec (zlen data) 65533) as [Hl|Hl].
    + apply set_wire_wire_data. auto.
    + rewrite set_wire_wire_data_gen. cbn [c_src c_dst c_fn c_ver c_last c_len c_data].
      unfold targets, functions in *. cbn [In] in Hs, Hd, Hf.
      destruct Hs as [<-|[<-|[<-|[<-|[]]]]]; destruct Hd as [<-|[<-|[<-|[<-|[]]]]];
        destruct Hf as [<-|[<-|[<-|[<-|[<-|[<-|[<-|[]]]]]]]]; reflexivity.
  - intros Hl. rewrite write_packet_wf by auto. reflexivity.
Qed.

Lemma router_fifo_full : forall evs f,
  let '(st', os) := r_run r_init evs in
  delivered f os ++ pending f st' = accepted f false evs /\
  (forall g p, In (g, Some p) os -> c_fn p = g).
Proof.
  intros evs f. pose proof (router_fifo evs f) as H1. pose proof (router_only_own_function evs) as H2.
  destruct (r_run r_init evs) as [st' os]. cbn [fst snd] in *. auto.
Qed.

Lemma tunnel_identity : forall port chan d s, zlen d <= 65532 ->
  chunking s (frame (tunnel_tx (crtp_header port chan) d)) ->
  exists p s', read_packet s = (Ok p, s') /\ concat s' = [] /\
    c_src p = T_HOST /\ c_dst p = T_STM32 /\ c_fn p = F_CRTP /\
    c_data p = crtp_header port chan :: d /\
    tunnel_rx p = Some (mk_crtp (crtp_header port chan) (Z.land port 15) (Z.land chan 3) d).
Proof.
  intros port chan d s Hd Hch.
  destruct (tunnel_uplink _ d s Hd Hch) as (p & s' & H1 & H2 & H3 & H4 & H5 & H6 & H7).
  exists p, s'. repeat split; auto. unfold tunnel_rx. rewrite H3. unfold new_crtp.
  destruct (crtp_header_fields port chan) as (E1 & E2 & E3).
  unfold crtp_port, crtp_chan in E2, E3. now rewrite E1, E2, E3.
Qed.

(* ================================================================ any recv behaviour *)
Lemma skipn_add {A} : forall a b (l : list A), skipn a (skipn b l) = skipn (b + a) l.
Proof.
  intros a b. induction b as [|b IH]; intros l; [reflexivity|].
  destruct l as [|x l]; cbn [skipn Nat.add]; [now destruct a|apply IH].
Qed.

Lemma read_data_any_spec : forall need acc b out b2,
  read_data_any need acc b out b2 -> need <= zlen b ->
  out = acc ++ firstn (Z.to_nat need) b /\ b2 = skipn (Z.to_nat need) b.
Proof.
  induction 1 as [need acc b Hle | need acc b r b1 out b2 Hpos Hrecv Hrest IH]; intros Hlen.
  - replace (Z.to_nat need) with 0%nat by lia. cbn [firstn skipn]. now rewrite app_nil_r.
  - destruct Hrecv as [k Hk Hkn Hkb].
    assert (Hr : zlen (firstn k b) = Z.of_nat k) by (unfold zlen; rewrite firstn_length; lia).
    rewrite Hr in *.
    destruct IH as [-> ->]. { rewrite zlen_skipn by lia. lia. }
    replace (Z.to_nat need) with (k + Z.to_nat (need - Z.of_nat k))%nat by lia.
    split.
    + rewrite <- app_assoc. f_equal.
      rewrite <- (firstn_skipn k b) at 3.
      rewrite firstn_app_ge by (rewrite firstn_length; lia).
      rewrite firstn_length. replace (Nat.min k (length b)) with k by lia.
      f_equal. f_equal. lia.
    + rewrite skipn_add. reflexivity.
Qed.

(* the socket can always deliver: with enough bytes pending some run exists (so the statement above is not vacuous) *)
Lemma read_data_any_exists : forall need acc b, need <= zlen b ->
  read_data_any need acc b (acc ++ firstn (Z.to_nat need) b) (skipn (Z.to_nat need) b).
Proof.
  intros need acc b Hlen. destruct (Z_le_gt_dec need 0) as [Hle|Hgt].
  - replace (Z.to_nat need) with 0%nat by lia. cbn [firstn skipn]. rewrite app_nil_r. now constructor.
  - eapply rd_step with (r := firstn (Z.to_nat need) b) (b1 := skipn (Z.to_nat need) b).
    + lia.
    + constructor; unfold zlen in *; lia.
    + constructor. unfold zlen in *. rewrite firstn_length. lia.
Qed.

Lemma read_packet_any_spec : forall b r b2, read_packet_any b r b2 ->
  2 <= zlen b -> le_val (firstn 2 b) <= zlen (skipn 2 b) ->
  (r, b2) = parse_one b.
Proof.
  intros b r b2 [h b1 d b2' H1 H2] Hl1 Hl2.
  destruct (read_data_any_spec _ _ _ _ _ H1 Hl1) as [-> ->]. cbn [app] in *. change (Z.to_nat 2) with 2%nat in *.
  destruct (read_data_any_spec _ _ _ _ _ H2 Hl2) as [-> ->]. cbn [app].
  unfold parse_one.
  destruct (zlen b <? 2) eqn:E1; [lia|].
  destruct (zlen (skipn 2 b) <? le_val (firstn 2 b)) eqn:E2; [lia|]. reflexivity.
Qed.

(* under ANY recv behaviour the stream of well-formed frames is read back packet by packet *)
Lemma any_recv_frame : forall p b r b2, wf_cpx p -> read_packet_any (frame p ++ b) r b2 -> r = Ok p /\ b2 = b.
Proof.
  intros p b r b2 Hwf H.
  pose proof (parse_one_frame p b Hwf) as Hp.
  assert (Hq : (r, b2) = parse_one (frame p ++ b)).
  { apply read_packet_any_spec; [assumption| |].
    - unfold frame. rewrite <- app_assoc, zlen_app. unfold zlen at 1. rewrite le_bytes_length.
      pose proof (zlen_nonneg (wire_data p ++ b)). lia.
    - unfold frame. rewrite <- app_assoc. destruct (le_bytes2_prefix (zlen (c_data p) + 2) (wire_data p ++ b)) as [-> ->].
      destruct Hwf as (_ & _ & _ & _ & Hn & Hmax). pose proof (zlen_nonneg (c_data p)).
      rewrite le_val_le_bytes_id by (change (256 ^ Z.of_nat 2) with 65536; lia).
      rewrite zlen_app, zlen_wire_data. pose proof (zlen_nonneg b). lia. }
  rewrite Hp in Hq. injection Hq as -> ->. auto.
Qed.

Lemma any_recv_stream : forall ps b rs b2, Forall wf_cpx ps ->
  read_n_any (concat (map frame ps) ++ b) rs b2 -> length rs = length ps ->
  rs = map Ok ps /\ b2 = b.
Proof.
  induction ps as [|p ps IH]; intros b rs b2 Hwf H Hlen.
  - destruct rs; [|discriminate]. inversion H; subst. auto.
  - destruct rs as [|r rs]; [discriminate|]. inversion Hwf as [|? ? Hp Hps]; subst.
    cbn [map concat] in H. rewrite <- app_assoc in H.
    inversion H as [|? ? b1 ? ? Hr Hrest]; subst.
    destruct (any_recv_frame p _ r b1 Hp Hr) as [-> ->].
    cbn [length] in Hlen. destruct (IH b rs b2 Hps Hrest ltac:(lia)) as [-> ->]. auto.
Qed.

(* such runs exist: e.g. the socket that always returns everything asked for *)
Lemma any_recv_stream_exists : forall ps b, Forall wf_cpx ps ->
  read_n_any (concat (map frame ps) ++ b) (map Ok ps) b.
Proof.
  induction ps as [|p ps IH]; intros b Hwf; cbn [map concat app].
  - constructor.
  - inversion Hwf as [|? ? Hp Hps]; subst. rewrite <- app_assoc.
    apply rn_cons with (b1 := concat (map frame ps) ++ b); [|now apply IH].
    set (rest := concat (map frame ps) ++ b).
    pose proof (parse_one_frame p rest Hp) as Hpo.
    destruct Hp as (_ & _ & _ & _ & Hn & Hmax). pose proof (zlen_nonneg (c_data p)) as Hnn.
    assert (Hfr : frame p ++ rest = le_bytes 2 (zlen (c_data p) + 2) ++ wire_data p ++ rest) by (unfold frame; now rewrite <- app_assoc).
    assert (Hset : set_wire (wire_data p) = Ok p).
    { rewrite parse_one_frame_gen in Hpo by lia. now injection Hpo. }
    rewrite <- Hset.
    apply rp_any with (h := le_bytes 2 (zlen (c_data p) + 2)) (b1 := wire_data p ++ rest).
    + rewrite Hfr. destruct (le_bytes2_prefix (zlen (c_data p) + 2) (wire_data p ++ rest)) as [E1 E2].
      pose proof (read_data_any_exists 2 [] (le_bytes 2 (zlen (c_data p) + 2) ++ wire_data p ++ rest)) as H.
      change (Z.to_nat 2) with 2%nat in H. rewrite E1, E2 in H. cbn [app] in H. apply H.
      rewrite zlen_app. unfold zlen at 1. rewrite le_bytes_length. pose proof (zlen_nonneg (wire_data p ++ rest)). lia.
    + rewrite le_val_le_bytes_id by (change (256 ^ Z.of_nat 2) with 65536; lia).
      pose proof (read_data_any_exists (zlen (c_data p) + 2) [] (wire_data p ++ rest)) as H.
      replace (Z.to_nat (zlen (c_data p) + 2)) with (length (wire_data p)) in H
        by (pose proof (zlen_wire_data p); unfold zlen in *; lia).
      rewrite firstn_app_exact, skipn_app_exact in H. cbn [app] in H. apply H.
      rewrite zlen_app, zlen_wire_data. pose proof (zlen_nonneg rest). lia.
Qed.

(* ================================================================ the sending side: short writes *)
Lemma sendall_id : forall takes buf, sendall takes buf = buf.
Proof.
  induction takes as [|t ts IH]; intros buf; cbn [sendall]; [reflexivity|].
  destruct (zlen buf <=? t); [reflexivity|]. rewrite IH. apply firstn_skipn.
Qed.

Lemma tx_packet_write : forall takes p, tx_packet takes p = write_packet p.
Proof. intros takes p. unfold tx_packet. destruct (write_packet p); [now rewrite sendall_id|reflexivity]. Qed.

Lemma tx_packet_wf : forall takes p, wf_cpx p -> tx_packet takes p = Ok (frame p).
Proof. intros. rewrite tx_packet_write. now apply write_packet_wf. Qed.

(* before F18a: a send that takes fewer bytes than offered loses the rest of the frame *)
Lemma send_once_short : forall t ts buf, 0 <= t < zlen buf ->
  send_once (t :: ts) buf = firstn (Z.to_nat t) buf /\ zlen (send_once (t :: ts) buf) < zlen buf.
Proof.
  intros t ts buf H. cbn [send_once]. destruct (zlen buf <=? t) eqn:E; [lia|].
  split; [reflexivity|]. unfold zlen in *. rewrite firstn_length. lia.
Qed.

(* ================================================================ data assigned after construction (F18b) *)
Lemma refresh_wf : forall p, wf_attrs p -> wf_cpx (refresh p).
Proof. intros p (Hs & Hd & Hf & Hv & Hm). unfold wf_cpx, refresh. cbn. auto 10. Qed.

Lemma frame_refresh : forall p, frame (refresh p) = frame p.
Proof. reflexivity. Qed.

Lemma read_packet_frame_attrs : forall p b s, wf_attrs p -> concat s = frame p ++ b ->
  exists s', read_packet s = (Ok (refresh p), s') /\ concat s' = b.
Proof.
  intros p b s Hwf Hc. rewrite <- frame_refresh in Hc.
  exact (read_packet_frame (refresh p) b s (refresh_wf p Hwf) Hc).
Qed.

Lemma write_packet_attrs : forall takes p, wf_attrs p -> tx_packet takes p = Ok (frame p).
Proof.
  intros takes p Hwf. rewrite <- frame_refresh. rewrite tx_packet_write.
  pose proof (write_packet_wf _ (refresh_wf p Hwf)) as H. exact H.
Qed.

(* ================================================================ the CPX facade *)
Fixpoint c_proj (evs : list cev) : list sev :=
  match evs with
  | [] => []
  | CPump :: r => Pump :: c_proj r
  | CRecv f :: r => SRecv f :: c_proj r
  | _ :: r => c_proj r
  end.
Definition c_simple (e : cev) : bool := match e with CTransact _ _ | CClose => false | _ => true end.
Definition recv_obs (os : list cobs) : list obs :=
  flat_map (fun o => match o with ORecv f r => [(f, r)] | _ => [] end) os.
Definition sent_obs (os : list cobs) : list (res (list Z)) :=
  flat_map (fun o => match o with OSent b => [b] | _ => [] end) os.
Definition sends (evs : list cev) : list cpx :=
  flat_map (fun e => match e with CSend p => [p] | _ => [] end) evs.

Lemma r_step_arrive_obs : forall st r, snd (r_step st (Arrive r)) = [].
Proof. intros st [p|e]; cbn [r_step]; [destruct (st (c_fn p))|]; reflexivity. Qed.

Lemma recv_obs_app a b : recv_obs (a ++ b) = recv_obs a ++ recv_obs b.
Proof. apply flat_map_app. Qed.
Lemma sent_obs_app a b : sent_obs (a ++ b) = sent_obs a ++ sent_obs b.
Proof. apply flat_map_app. Qed.

Lemma recv_obs_map : forall o : list obs, recv_obs (map (fun x : obs => ORecv (fst x) (snd x)) o) = o.
Proof. induction o as [|[f r] o IH]; [reflexivity|]. cbn. f_equal. exact IH. Qed.
Lemma sent_obs_map : forall o : list obs, sent_obs (map (fun x : obs => ORecv (fst x) (snd x)) o) = [].
Proof. induction o as [|[f r] o IH]; [reflexivity|]. cbn. exact IH. Qed.

(* send / receive / router iterations through the facade = the router on the transport, and every send
   puts exactly tx_packet on the stream (sending and receiving do not disturb each other) *)
Lemma c_run_simple : forall takes evs s st, forallb c_simple evs = true ->
  let '(c', os) := c_run takes (mk_cs s st true) evs in
  let '(s', st', o) := sys_run s st (c_proj evs) in
  c' = mk_cs s' st' true /\ recv_obs os = o /\ sent_obs os = map (tx_packet takes) (sends evs).
Proof.
  intros takes. induction evs as [|e evs IH]; intros s st Hs.
  - cbn. auto.
  - cbn [forallb] in Hs. apply andb_true_iff in Hs as [He Hs].
    destruct e as [|f|p|p k|]; try discriminate; cbn [c_run c_step c_proj sys_run sends flat_map app map].
    + unfold c_pump. cbn [cs_open cs_in cs_rt].
      destruct (read_packet s) as [r s1].
      pose proof (r_step_arrive_obs st r) as Ho. destruct (r_step st (Arrive r)) as [st1 o1]. cbn [fst snd] in *. subst o1.
      specialize (IH s1 st1 Hs). destruct (c_run takes (mk_cs s1 st1 true) evs) as [c' os].
      destruct (sys_run s1 st1 (c_proj evs)) as [[s' st'] o]. cbn [app]. exact IH.
    + cbn [cs_in cs_rt cs_open]. destruct (r_step st (Recv f)) as [st1 o1].
      specialize (IH s st1 Hs). destruct (c_run takes (mk_cs s st1 true) evs) as [c' os].
      destruct (sys_run s st1 (c_proj evs)) as [[s' st'] o]. destruct IH as (-> & <- & E).
      rewrite recv_obs_app, sent_obs_app, recv_obs_map, sent_obs_map. auto.
    + cbn [cs_open]. specialize (IH s st Hs). destruct (c_run takes (mk_cs s st true) evs) as [c' os].
      destruct (sys_run s st (c_proj evs)) as [[s' st'] o]. destruct IH as (-> & <- & E).
      unfold recv_obs, sent_obs in *. cbn [app flat_map]. rewrite E. auto.
Qed.

(* makeTransaction: the request goes out whole, and the reply of the same function that is next on the
   stream — however fragmented — is what the call returns *)
Lemma c_transact_reply : forall takes p r b s st,
  wf_cpx p -> wf_cpx r -> c_fn r = c_fn p -> concat s = frame r ++ b ->
  (st (c_fn p) = None \/ st (c_fn p) = Some []) ->
  exists c', c_step takes (mk_cs s st true) (CTransact p 1) = (c', [OTrans (Ok (frame p)) (Some r)]) /\
    concat (cs_in c') = b /\ cs_rt c' (c_fn p) = Some [] /\ cs_open c' = true.
Proof.
  intros takes p r b s st Hp Hr Hf Hc Hq.
  cbn [c_step cs_open]. rewrite (tx_packet_wf takes p Hp). cbn [cs_rt cs_in c_pumps].
  unfold c_pump. cbn [cs_open cs_in cs_rt].
  destruct (read_packet_frame r b s Hr Hc) as (s1 & H1 & H2). rewrite H1.
  cbn [r_step]. rewrite Hf.
  destruct Hq as [E|E]; rewrite E; unfold upd; rewrite ?Z.eqb_refl; cbn [fst app cs_rt cs_in cs_open];
    rewrite ?Z.eqb_refl; try rewrite E; cbn [fst app cs_rt cs_in cs_open]; rewrite ?Z.eqb_refl;
    (eexists; split; [reflexivity|]; cbn [cs_in cs_rt cs_open]; rewrite ?Z.eqb_refl; auto).
Qed.

(* close(): afterwards the router thread makes no further iteration and sending fails *)
Lemma c_after_close : forall takes s st p,
  c_step takes (mk_cs s st false) CPump = (mk_cs s st false, []) /\
  c_step takes (mk_cs s st false) (CSend p) = (mk_cs s st false, [OSent (Exc AttributeErr)]) /\
  fst (c_step takes (mk_cs s st true) CClose) = mk_cs s st false.
Proof. intros. repeat split. Qed.

(* ================================================================ several writers on one transport *)
Lemma Merge_map {A B} (f : A -> B) : forall qss ws, Merge qss ws ->
  forall pss, qss = map (map f) pss -> exists ps, Merge pss ps /\ ws = map f ps.
Proof.
  induction 1 as [qss Hall | pre y l post out Hm IH]; intros pss E.
  - exists []. split; [|reflexivity]. constructor. subst qss.
    rewrite Forall_forall in *. intros l Hl. specialize (Hall (map f l) (in_map _ _ _ Hl)).
    destruct l; [reflexivity|discriminate].
  - symmetry in E. apply map_eq_app in E as (pre0 & rest0 & -> & Epre & Erest).
    destruct rest0 as [|l0 post0]; [discriminate|]. cbn [map] in Erest. injection Erest as El Epost.
    destruct l0 as [|x l0]; [discriminate|]. cbn [map] in El. injection El as <- <-.
    destruct (IH (pre0 ++ l0 :: post0)) as (ps & Hps & ->).
    { rewrite map_app. cbn [map]. now rewrite Epre, Epost. }
    exists (x :: ps). split; [now constructor|reflexivity].
Qed.

Lemma Merge_Forall {A} (P : A -> Prop) : forall pss ps, Merge pss ps ->
  Forall (Forall P) pss -> Forall P ps.
Proof.
  induction 1 as [|pre x l post out Hm IH]; intros HF; [constructor|].
  apply Forall_app in HF as [Hpre Hrest]. inversion Hrest as [|? ? Hxl Hpost]; subst.
  inversion Hxl; subst. constructor; [assumption|]. apply IH. apply Forall_app. split; [assumption|]. now constructor.
Qed.

(* every frame one atomic write  ==>  whatever the interleaving of the writers, the stream re-assembles, under any
   fragmentation, to an interleaving of their packet sequences *)
Lemma concurrent_writers : forall pss ws, Forall (Forall wf_cpx) pss ->
  Merge (map (map frame) pss) ws ->
  exists ps, Merge pss ps /\ concat ws = concat (map frame ps) /\
    forall s, chunking s (concat ws) -> exists s', read_n (length ps) s = (map Ok ps, s') /\ concat s' = [].
Proof.
  intros pss ws Hwf Hm. destruct (Merge_map frame _ _ Hm pss eq_refl) as (ps & Hps & ->).
  exists ps. repeat split; auto. intros s Hs. apply stream_reassembly; [|assumption].
  exact (Merge_Forall _ _ _ Hps Hwf).
Qed.

Lemma take_from_split {A} : forall i (rest : list (list A)) y rest', take_from i rest = Some (y, rest') ->
  exists pre t post, rest = pre ++ (y :: t) :: post /\ rest' = pre ++ t :: post.
Proof.
  induction i as [|i IH]; intros rest y rest' H.
  - destruct rest as [|[|z t] r]; try discriminate. cbn in H. injection H as <- <-. exists [], t, r. auto.
  - destruct rest as [|l r]; [discriminate|]. cbn [take_from] in H.
    destruct (take_from i r) as [[z r']|] eqn:E; [|destruct l; discriminate].
    assert (H' : Some (z, l :: r') = Some (y, rest')) by (destruct l; exact H). injection H' as <- <-.
    destruct (IH _ _ _ E) as (pre & t & post & -> & ->). exists (l :: pre), t, post. auto.
Qed.

Lemma take_from_Merge {A} : forall i (pss : list (list A)) x pss' out,
  take_from i pss = Some (x, pss') -> Merge pss' out -> Merge pss (x :: out).
Proof.
  intros i pss x pss' out Ht Hm. destruct (take_from_split _ _ _ _ Ht) as (pre & t & post & -> & ->).
  now constructor.
Qed.

Lemma merge_by_sound {A} : forall order (pss : list (list A)) ps, merge_by order pss = Some ps -> Merge pss ps.
Proof.
  induction order as [|i order IH]; intros pss ps H; cbn [merge_by] in H.
  - destruct (forallb _ pss) eqn:E; [|discriminate]. injection H as <-. constructor.
    rewrite forallb_forall in E. rewrite Forall_forall. intros l Hl. specialize (E l Hl). destruct l; [reflexivity|discriminate].
  - destruct (take_from i pss) as [[x pss']|] eqn:Et; [|discriminate].
    destruct (merge_by order pss') as [out|] eqn:Em; [|discriminate]. injection H as <-.
    eapply take_from_Merge; eauto.
Qed.

(* a writePacket that issues two writes (length, then routing+payload) is torn apart by a second writer:
   A = CRTP packet, B = APP packet; interleaving lenA, lenB, wireB, wireA *)
Definition tornA : cpx := new_cpx F_CRTP T_STM32 T_HOST [0xFC; 1; 2; 3].
Definition tornB : cpx := new_cpx 5 4 T_HOST [9; 9].
Lemma split_writes_torn :
  exists ws, Merge [split_writes tornA; split_writes tornB] ws /\
    fst (read_n 2 [concat ws]) <> [Ok tornA; Ok tornB] /\ fst (read_n 2 [concat ws]) <> [Ok tornB; Ok tornA].
Proof.
  exists [le_bytes 2 6; le_bytes 2 4; wire_data tornB; wire_data tornA]. split.
  - apply (merge_step [] _ _ [split_writes tornB]). cbn [app].
    apply (merge_step [[wire_data tornA]] _ _ []). cbn [app].
    apply (merge_step [[wire_data tornA]] _ _ []). cbn [app].
    apply (merge_step [] _ _ [[]]). cbn [app].
    constructor. repeat constructor.
  - split; vm_compute; discriminate.
Qed.

(* ================================================================ routing is non-blocking per function *)
Lemma obs_of_app f a b : obs_of f (a ++ b) = obs_of f a ++ obs_of f b.
Proof. apply filter_app. Qed.

Lemma r_step_irrelevant : forall f st e, rel f e = false ->
  fst (r_step st e) f = st f /\ obs_of f (snd (r_step st e)) = [].
Proof.
  intros f st [[p|x]|g] H; cbn [rel] in H; cbn [r_step].
  - destruct (st (c_fn p)) as [q|]; cbn [fst snd]; split; auto.
    unfold upd. destruct (f =? c_fn p) eqn:E; [lia|reflexivity].
  - cbn. auto.
  - assert (Hf : (f =? g) = false) by lia.
    destruct (st g) as [[|p q]|]; cbn [fst snd obs_of filter]; unfold upd; rewrite Hf, ?H; auto.
Qed.

Lemma r_step_relevant : forall f st st' e, rel f e = true -> st f = st' f ->
  fst (r_step st e) f = fst (r_step st' e) f /\ snd (r_step st e) = snd (r_step st' e) /\
  obs_of f (snd (r_step st e)) = snd (r_step st e).
Proof.
  intros f st st' [[p|x]|g] H E; cbn [rel] in H; try discriminate; cbn [r_step].
  - assert (c_fn p = f) by lia. subst f. rewrite <- E.
    destruct (st (c_fn p)) as [q|] eqn:Eq; cbn [fst snd]; repeat split; auto;
      try (unfold upd; now rewrite Z.eqb_refl); congruence.
  - assert (g = f) by lia. subst g. rewrite <- E.
    destruct (st f) as [[|p q]|] eqn:Eq; cbn [fst snd obs_of filter]; unfold upd; rewrite ?Z.eqb_refl; auto.
Qed.

Lemma router_independent_gen : forall f evs st st', st f = st' f ->
  obs_of f (snd (r_run st evs)) = obs_of f (snd (r_run st' (filter (rel f) evs))) /\
  fst (r_run st evs) f = fst (r_run st' (filter (rel f) evs)) f.
Proof.
  intros f. induction evs as [|e evs IH]; intros st st' E; cbn [filter r_run].
  - cbn. auto.
  - destruct (rel f e) eqn:R.
    + cbn [r_run]. destruct (r_step_relevant f st st' e R E) as (H1 & H2 & H3).
      destruct (r_step st e) as [st1 o1]. destruct (r_step st' e) as [st1' o1']. cbn [fst snd] in *. subst o1'.
      specialize (IH st1 st1' H1).
      destruct (r_run st1 evs) as [st2 o2]. destruct (r_run st1' (filter (rel f) evs)) as [st2' o2']. cbn [fst snd] in *.
      rewrite !obs_of_app. destruct IH as [-> ->]. auto.
    + destruct (r_step_irrelevant f st e R) as (H1 & H2).
      destruct (r_step st e) as [st1 o1]. cbn [fst snd] in *.
      specialize (IH st1 st' (eq_trans H1 E)).
      destruct (r_run st1 evs) as [st2 o2]. cbn [fst snd] in *.
      rewrite obs_of_app, H2. exact IH.
Qed.

(* what receivers of f observe, and what is left queued for f, depend only on the f-events: arrivals of other
   functions, and whether anybody reads them, make no difference *)
Lemma router_independent : forall evs f,
  obs_of f (snd (r_run r_init evs)) = obs_of f (snd (r_run r_init (filter (rel f) evs))) /\
  fst (r_run r_init evs) f = fst (r_run r_init (filter (rel f) evs)) f.
Proof. intros. now apply router_independent_gen. Qed.

(* the router reads on, whatever the receivers do: after k iterations the first k frames are consumed *)
Lemma sys_run_consumes : forall script ps s st, Forall wf_cpx ps -> concat s = concat (map frame ps) ->
  concat (fst (fst (sys_run s st script))) = concat (map frame (skipn (count_pump script) ps)).
Proof.
  induction script as [|[|f] script IH]; intros ps s st Hwf Hc; cbn [sys_run count_pump].
  - cbn. exact Hc.
  - destruct ps as [|p ps].
    + cbn [map concat] in Hc. rewrite (read_packet_end s Hc).
      destruct (r_step st (Arrive (Exc EndOfStream))) as [st1 o1].
      specialize (IH [] [] st1 Hwf eq_refl). destruct (sys_run [] st1 script) as [[s2 st2] o2].
      cbn [fst] in *. rewrite IH. now rewrite !skipn_nil.
    + inversion Hwf as [|? ? Hp Hps]; subst. cbn [map concat] in Hc.
      destruct (read_packet_frame p _ s Hp Hc) as (s1 & H1 & H2). rewrite H1.
      destruct (r_step st (Arrive (Ok p))) as [st1 o1].
      specialize (IH ps s1 st1 Hps H2). destruct (sys_run s1 st1 script) as [[s2 st2] o2].
      cbn [fst skipn] in *. exact IH.
  - destruct (r_step st (Recv f)) as [st1 o1].
    specialize (IH ps s st1 Hwf Hc). destruct (sys_run s st1 script) as [[s2 st2] o2]. cbn [fst] in *. exact IH.
Qed.

Lemma sys_run_consumes_all : forall script ps s st, Forall wf_cpx ps -> concat s = concat (map frame ps) ->
  (length ps <= count_pump script)%nat -> concat (fst (fst (sys_run s st script))) = [].
Proof.
  intros script ps s st Hwf Hc Hn. rewrite (sys_run_consumes script ps s st Hwf Hc).
  rewrite skipn_all2 by assumption. reflexivity.
Qed.

Lemma router_consumes : forall script ps s st, Forall wf_cpx ps -> concat s = concat (map frame ps) ->
  concat (fst (fst (sys_run s st script))) = concat (map frame (skipn (count_pump script) ps)) /\
  ((length ps <= count_pump script)%nat -> concat (fst (fst (sys_run s st script))) = []).
Proof.
  intros script ps s st Hwf Hc. split; [now apply sys_run_consumes|now apply sys_run_consumes_all].
Qed.

(* ================================================================ makeTransaction with other traffic in between *)
Lemma c_pumps_snoc : forall n c, c_pumps (S n) c = c_pump (c_pumps n c).
Proof. induction n as [|n IH]; intros c; [reflexivity|]. cbn [c_pumps] in *. now rewrite <- IH. Qed.

Lemma c_pumps_others : forall f others s st b, Forall wf_cpx others -> Forall (fun o => c_fn o <> f) others ->
  concat s = concat (map frame others) ++ b ->
  exists s1 st1, c_pumps (length others) (mk_cs s st true) = mk_cs s1 st1 true /\ st1 f = st f /\ concat s1 = b.
Proof.
  intros f. induction others as [|o others IH]; intros s st b Hwf Hne Hc; cbn [length c_pumps map concat app] in *.
  - exists s, st. auto.
  - inversion Hwf as [|? ? Ho Hos]; subst. inversion Hne as [|? ? Hno Hnos]; subst. rewrite <- app_assoc in Hc.
    unfold c_pump at 1. cbn [cs_open cs_in cs_rt].
    destruct (read_packet_frame o _ s Ho Hc) as (s1 & H1 & H2). rewrite H1.
    destruct (IH s1 (fst (r_step st (Arrive (Ok o)))) b Hos Hnos H2) as (s2 & st2 & E & Ef & Es).
    exists s2, st2. repeat split; auto. rewrite Ef.
    destruct (r_step_irrelevant f st (Arrive (Ok o))) as [Hi _]; [cbn [rel]; lia|exact Hi].
Qed.

Lemma c_pumps_then_reply : forall f others r b s st0,
  Forall wf_cpx others -> Forall (fun o => c_fn o <> f) others -> wf_cpx r -> c_fn r = f ->
  concat s = concat (map frame others) ++ frame r ++ b -> st0 f = Some [] ->
  exists s2 st2, c_pumps (S (length others)) (mk_cs s st0 true) = mk_cs s2 st2 true /\
    st2 f = Some [r] /\ concat s2 = b.
Proof.
  intros f others r b s st0 Hos Hne Hr Hf Hc H0. rewrite c_pumps_snoc.
  destruct (c_pumps_others f others s st0 (frame r ++ b) Hos Hne Hc) as (s1 & st1 & E1 & Ef1 & Es1).
  rewrite E1. unfold c_pump. cbn [cs_open cs_in cs_rt].
  destruct (read_packet_frame r b s1 Hr Es1) as (s2 & H1 & H2). rewrite H1.
  cbn [r_step]. rewrite Hf, Ef1, H0. cbn [fst app].
  eexists _, _. split; [reflexivity|]. split; [|assumption]. unfold upd. now rewrite Z.eqb_refl.
Qed.

(* the reply may come after any number of packets of OTHER functions: they are routed (or dropped) as usual and
   the call returns the reply *)
Lemma c_transact_reply_after_others : forall takes p others r b s st,
  wf_cpx p -> Forall wf_cpx others -> Forall (fun o => c_fn o <> c_fn p) others -> wf_cpx r -> c_fn r = c_fn p ->
  concat s = concat (map frame others) ++ frame r ++ b ->
  (st (c_fn p) = None \/ st (c_fn p) = Some []) ->
  exists c', c_step takes (mk_cs s st true) (CTransact p (S (length others))) = (c', [OTrans (Ok (frame p)) (Some r)]) /\
    concat (cs_in c') = b /\ cs_rt c' (c_fn p) = Some [] /\ cs_open c' = true.
Proof.
  intros takes p others r b s st Hp Hos Hne Hr Hf Hc Hq.
  cbn [c_step cs_open]. rewrite (tx_packet_wf takes p Hp). cbn [cs_rt cs_in].
  destruct Hq as [E|E]; rewrite E.
  - destruct (c_pumps_then_reply (c_fn p) others r b s (upd st (c_fn p) []) Hos Hne Hr Hf Hc) as (s2 & st2 & E2 & Eq2 & Es2).
    { unfold upd. now rewrite Z.eqb_refl. }
    rewrite E2. cbn [cs_rt cs_in cs_open]. rewrite Eq2.
    eexists. split; [reflexivity|]. cbn [cs_in cs_rt cs_open]. repeat split; auto. unfold upd. now rewrite Z.eqb_refl.
  - destruct (c_pumps_then_reply (c_fn p) others r b s st Hos Hne Hr Hf Hc E) as (s2 & st2 & E2 & Eq2 & Es2).
    rewrite E2. cbn [cs_rt cs_in cs_open]. rewrite Eq2.
    eexists. split; [reflexivity|]. cbn [cs_in cs_rt cs_open]. repeat split; auto. unfold upd. now rewrite Z.eqb_refl.
Qed.

(* ================================================================ one packet object, many encodes *)
Lemma h_run_current : forall ops p,
  Forall2 (fun out q => match out with
                        | Ok b => b = wire_data q \/ b = frame q
                        | Exc _ => 65533 < zlen (c_data q)
                        end) (h_run p ops) (h_states p ops).
Proof.
  induction ops as [|[m| |] ops IH]; intros p; cbn [h_run h_states].
  - constructor.
  - apply IH.
  - constructor; [now left|apply IH].
  - constructor; [|apply IH]. unfold write_packet. destruct (zlen (c_data p) + 2 <=? 65535) eqn:E; [now right|lia].
Qed.

(* every encode carries the attribute values of that moment: decoding the k-th output gives them back *)
Lemma h_run_decodes : forall ops p, Forall wf_attrs (h_states p ops) ->
  Forall2 (fun out q => exists b, out = Ok b /\ (b = wire_data q \/ b = frame q) /\ set_wire (wire_data q) = Ok (refresh q))
          (h_run p ops) (h_states p ops).
Proof.
  induction ops as [|[m| |] ops IH]; intros p H; cbn [h_run h_states] in *.
  - constructor.
  - now apply IH.
  - inversion H as [|? ? Hp Hr]; subst. constructor; [|now apply IH].
    exists (wire_data p). repeat split; auto. exact (set_wire_wire_data _ (refresh_wf p Hp)).
  - inversion H as [|? ? Hp Hr]; subst. constructor; [|now apply IH].
    exists (frame p). repeat split; auto.
    + pose proof (write_packet_wf _ (refresh_wf p Hp)) as W. exact W.
    + exact (set_wire_wire_data _ (refresh_wf p Hp)).
Qed.

(* a cache that is not invalidated by one of the fields sends a stale byte: last chunk of a transfer without its flag *)
Lemma stale_cache_refuted :
  exists p ops, hc_run p None ops <> map (fun q => wire_data q) (h_states p ops).
Proof.
  exists (new_cpx 5 4 T_HOST [1; 2]), [PEnc; PMut (MData [3]); PMut (MLast true); PEnc].
  vm_compute. discriminate.
Qed.

(* ================================================================ transactions do not lose queued packets *)
Lemma c_pump_extends : forall c f q, cs_rt c f = Some q -> exists l, cs_rt (c_pump c) f = Some (q ++ l).
Proof.
  intros [s st op] f q H. cbn [cs_rt] in H. unfold c_pump. cbn [cs_open cs_in cs_rt].
  destruct op; [|exists []; cbn [cs_rt]; now rewrite app_nil_r].
  destruct (read_packet s) as [[p|e] s1]; cbn [r_step cs_rt fst].
  - destruct (st (c_fn p)) as [q'|] eqn:E; cbn [fst].
    + destruct (f =? c_fn p) eqn:Ef.
      * assert (f = c_fn p) by lia. subst f. rewrite E in H. injection H as <-.
        exists [p]. unfold upd. now rewrite Z.eqb_refl.
      * exists []. unfold upd. rewrite Ef, app_nil_r. exact H.
    + exists []. now rewrite app_nil_r.
  - exists []. now rewrite app_nil_r.
Qed.

Lemma c_pumps_extends : forall k c f q, cs_rt c f = Some q -> exists l, cs_rt (c_pumps k c) f = Some (q ++ l).
Proof.
  induction k as [|k IH]; intros c f q H; cbn [c_pumps].
  - exists []. now rewrite app_nil_r.
  - destruct (c_pump_extends c f q H) as (l1 & H1). destruct (IH _ f _ H1) as (l2 & H2).
    exists (l1 ++ l2). now rewrite app_assoc.
Qed.

Lemma c_pumps_open : forall k c, cs_open (c_pumps k c) = cs_open c.
Proof.
  induction k as [|k IH]; intros c; [reflexivity|]. cbn [c_pumps]. rewrite IH.
  unfold c_pump. destruct (cs_open c) eqn:E; [|exact E]. now destruct (read_packet (cs_in c)).
Qed.

(* a transaction is one more receiver of its function: with packets queued it returns the OLDEST one and everything else
   stays queued, in order, followed by what arrives meanwhile — nothing that arrived for f is dropped *)
Lemma c_transact_takes_head : forall takes s st p k x q, wf_cpx p -> st (c_fn p) = Some (x :: q) ->
  exists c' l, c_step takes (mk_cs s st true) (CTransact p k) = (c', [OTrans (Ok (frame p)) (Some x)]) /\
    cs_rt c' (c_fn p) = Some (q ++ l).
Proof.
  intros takes s st p k x q Hp Hq. cbn [c_step cs_open]. rewrite (tx_packet_wf takes p Hp). cbn [cs_rt cs_in]. rewrite Hq.
  destruct (c_pumps_extends k (mk_cs s st true) (c_fn p) (x :: q) Hq) as (l & Hl). rewrite Hl. cbn [app].
  eexists _, l. split; [reflexivity|]. cbn [cs_rt]. unfold upd. now rewrite Z.eqb_refl.
Qed.

(* the flushing variant loses the queued packet: it is neither returned nor left in the queue *)
Lemma flushing_transaction_refuted :
  exists takes c p k x, cs_rt c (c_fn p) = Some [x] /\
    (forall r, In (OTrans (Ok (frame p)) (Some r)) (snd (c_transact_flush takes c p k)) -> r <> x) /\
    ~ In x (pending (c_fn p) (cs_rt (fst (c_transact_flush takes c p k)))) /\
    snd (c_step takes c (CTransact p k)) = [OTrans (Ok (frame p)) (Some x)].
Proof.
  pose (a := new_cpx F_CRTP T_HOST T_STM32 [1]). pose (b := new_cpx F_CRTP T_HOST T_STM32 [2]).
  pose (req := new_cpx F_CRTP T_STM32 T_HOST [9]).
  exists [], (mk_cs [frame b] (upd r_init F_CRTP [a]) true), req, 1%nat, a.
  split; [reflexivity|]. split; [|split].
  - intros r H. vm_compute in H. destruct H as [H|[]]. injection H as <-. discriminate.
  - vm_compute. intros [].
  - reflexivity.
Qed.

(* ================================================================ queues registered at construction *)
Lemma r_reg_spec : forall fs f, r_reg fs f = if zmem f fs then Some [] else None.
Proof.
  induction fs as [|g fs IH]; intros f; cbn [r_reg zmem existsb]; [reflexivity|].
  unfold upd. destruct (f =? g); [reflexivity|]. cbn [orb]. apply IH.
Qed.

(* whatever functions are registered at construction and whatever is registered lazily later, every function has its own
   queue: receivers of f get exactly the f-packets that arrived while f's queue existed (from the start if registered at
   construction), in arrival order; and only packets of function f *)
Lemma router_fifo_registered : forall fs evs f,
  let '(st', os) := r_run (r_reg fs) evs in
  delivered f os ++ pending f st' = accepted f (zmem f fs) evs /\
  (forall g p, In (g, Some p) os -> c_fn p = g).
Proof.
  intros fs evs f. pose proof (router_fifo_gen evs (r_reg fs) f) as H.
  assert (Hp : pure (r_reg fs)).
  { intros g q Hq. rewrite r_reg_spec in Hq. destruct (zmem g fs); [injection Hq as <-; constructor|discriminate]. }
  pose proof (r_run_pure evs (r_reg fs) Hp) as [_ H2].
  destruct (r_run (r_reg fs) evs) as [st' os]. cbn [fst snd] in *.
  unfold pending at 2 in H. unfold opened in H. rewrite r_reg_spec in H.
  split.
  - rewrite H. destruct (zmem f fs); reflexivity.
  - intros g p Hin. rewrite Forall_forall in H2. apply (H2 _ Hin).
Qed.

(* an operation on the queue of one function never changes the queue of another one *)
Lemma r_step_other_function : forall st e f, rel f e = false -> fst (r_step st e) f = st f.
Proof. intros st e f H. exact (proj1 (r_step_irrelevant f st e H)). Qed.

(* one queue object shared by the functions registered at construction hands a packet of one function to a receiver of another *)
Lemma shared_queue_refuted :
  exists members evs g p, In (g, Some p) (sh_run members [] evs) /\ c_fn p <> g.
Proof.
  exists [2; 5], [Arrive (Ok (new_cpx 2 T_HOST T_STM32 [7])); Recv 5], 5, (new_cpx 2 T_HOST T_STM32 [7]).
  split; [vm_compute; auto|vm_compute; discriminate].
Qed.

(* ================================================================ connection histories on one transport object *)
Lemma t_run_app : forall pre s0 s2 evs, t_run s0 (pre ++ TReconnect s2 :: evs) = t_run s0 pre ++ t_run s2 evs.
Proof.
  induction pre as [|[|s] pre IH]; intros s0 s2 evs; cbn [app t_run].
  - reflexivity.
  - destruct (read_packet s0) as [x s1]. cbn [app]. now rewrite IH.
  - apply IH.
Qed.

Lemma t_run_reads : forall n s, t_run s (repeat TRead n) = fst (read_n n s).
Proof.
  induction n as [|n IH]; intros s; cbn [repeat t_run read_n]; [reflexivity|].
  destruct (read_packet s) as [x s1]. rewrite IH. destruct (read_n n s1). reflexivity.
Qed.

(* whatever happened on earlier connections of the same transport object (any reads, any point at which a stream broke off,
   any number of reconnects): the packets read on a new connection are the parse of ITS stream alone *)
Lemma session_independent : forall pre s0 s2 n,
  t_run s0 (pre ++ TReconnect s2 :: repeat TRead n) = t_run s0 pre ++ fst (read_n n s2).
Proof. intros. now rewrite t_run_app, t_run_reads. Qed.

Lemma session_reassembly : forall pre s0 s2 ps, Forall wf_cpx ps -> chunking s2 (concat (map frame ps)) ->
  t_run s0 (pre ++ TReconnect s2 :: repeat TRead (length ps)) = t_run s0 pre ++ map Ok ps.
Proof.
  intros pre s0 s2 ps Hwf Hch. rewrite session_independent.
  destruct (stream_reassembly ps s2 Hwf Hch) as (s' & H & _). now rewrite H.
Qed.

(* carried-over partial state: a stream that broke off inside a frame is spliced onto the next connection's stream *)
Definition cut_p : cpx := new_cpx F_CRTP T_HOST T_STM32 [0x5E; 1; 2].
Definition new_p : cpx := new_cpx 5 T_HOST 4 [9].
Lemma carried_state_refuted :
  exists s1 s2, chunking s2 (frame new_p) /\
    t_run s1 [TRead; TReconnect s2; TRead] = [Exc EndOfStream; Ok new_p] /\
    ts_run (None, []) s1 [TRead; TReconnect s2; TRead] <> [Exc EndOfStream; Ok new_p].
Proof.
  exists [firstn 5 (frame cut_p)], [frame new_p]. split; [split; [reflexivity|repeat constructor; discriminate]|].
  split; [reflexivity|vm_compute; discriminate].
Qed.
