(* C18/Property.v — property C18 (CPX framing and routing under any stream fragmentation), theorems only.
   Vocabulary (C18/Model.v): cpx = CPXPacket attributes (enum members by value); wire_data/set_wire =
   CPXPacket._get_wire_data/_set_wire_data; frame/write_packet = SocketTransport.writePacket;
   sock = the pieces successive recv calls return; read_packet/read_n = SocketTransport.readPacket (n times);
   r_run = CPXRouter (Arrive = one iteration of run(), Recv f = receivePacket(f, timeout));
   sys_run = router on the real transport; tunnel_tx/tunnel_rx = Tcp/SerialDriver.send_packet and
   _CPXReceiveThread.run; chunking s b = s cuts b into consecutive non-empty pieces. *)
From CF Require Import Common.Bytes C18.Model C18.Proofs C18.Uart C18.Driver.
Open Scope Z_scope.

(* Encoding then decoding returns source, destination, function, last-packet flag and payload intact for
   every combination of the 4 targets, 4 targets, 7 functions, both flag values and EVERY payload; up to
   the maximum the 16-bit prefix allows, writePacket emits length prefix + these wire bytes. *)
Theorem C18_packet_roundtrip : forall src dst fn last data,
  In src targets -> In dst targets -> In fn functions ->
  let p := mk_cpx src dst fn last 0 (zlen data) data in
  set_wire (wire_data p) = Ok p /\
  (zlen data <= 65533 -> write_packet p = Ok (le_bytes 2 (zlen data + 2) ++ wire_data p)).
Proof. exact packet_roundtrip. Qed.
Print Assumptions C18_packet_roundtrip.

(* payloads above the maximum are refused by writePacket (struct.error), never truncated *)
Theorem C18_oversize_refused : forall p, 65533 < zlen (c_data p) -> write_packet p = Exc StructError.
Proof. exact write_packet_too_long. Qed.
Print Assumptions C18_oversize_refused.

(* unsupported version: whatever the other attributes, a packet encoded with version bits <> 0 is rejected *)
Theorem C18_unsupported_version_rejected_packet : forall p,
  Z.land (c_ver p) 3 <> 0 -> set_wire (wire_data p) = Exc RuntimeErr.
Proof. exact version_rejected_packet. Qed.
Print Assumptions C18_unsupported_version_rejected_packet.

(* ... and so is any received byte string whose second header byte carries version bits <> 0 *)
Theorem C18_unsupported_version_rejected_bytes : forall tf fv rest,
  64 <= fv < 256 -> set_wire (tf :: fv :: rest) = Exc RuntimeErr.
Proof. exact version_rejected_bytes. Qed.
Print Assumptions C18_unsupported_version_rejected_bytes.

(* in a stream, a frame of unsupported version is rejected and reading resumes right after it *)
Theorem C18_unsupported_version_in_stream : forall p b s,
  Z.land (c_ver p) 3 <> 0 -> zlen (c_data p) <= 65533 ->
  concat s = frame p ++ b ->
  exists s', read_packet s = (Exc RuntimeErr, s') /\ concat s' = b.
Proof. exact read_packet_bad_version. Qed.
Print Assumptions C18_unsupported_version_in_stream.

(* Re-assembly: the byte stream of ANY list of packets, cut into receive pieces in ANY way, is read back
   as exactly that list, with nothing left over. *)
Theorem C18_stream_reassembly : forall ps s,
  Forall wf_cpx ps -> chunking s (concat (map frame ps)) ->
  exists s', read_n (length ps) s = (map Ok ps, s') /\ concat s' = [].
Proof. exact stream_reassembly. Qed.
Print Assumptions C18_stream_reassembly.

(* ... and the next read reports the end of the scripted stream (no packet is invented) *)
Theorem C18_stream_then_end : forall ps s,
  Forall wf_cpx ps -> chunking s (concat (map frame ps)) ->
  forall s', snd (read_n (length ps) s) = s' -> fst (read_packet s') = Exc EndOfStream.
Proof. exact stream_then_end. Qed.
Print Assumptions C18_stream_then_end.

(* Fragmentation invariance for ARBITRARY bytes (malformed frames included): what n reads return, and
   the bytes left, depend only on the byte string, not on how it is cut. *)
Theorem C18_fragmentation_invariance : forall n s1 s2, concat s1 = concat s2 ->
  fst (read_n n s1) = fst (read_n n s2) /\ concat (snd (read_n n s1)) = concat (snd (read_n n s2)).
Proof. exact read_n_invariant. Qed.
Print Assumptions C18_fragmentation_invariance.

(* Router: for every interleaving of arrivals and receive calls and every function f, the packets handed
   to receivers of f followed by those still queued for f are exactly the f-packets that arrived while
   a queue for f existed, in arrival order (packets arriving before the first receivePacket(f) are
   dropped: that is what `accepted` says); and a receiver of g only ever gets packets of function g. *)
Theorem C18_router_per_function_fifo : forall evs f,
  let '(st', os) := r_run r_init evs in
  delivered f os ++ pending f st' = accepted f false evs /\
  (forall g p, In (g, Some p) os -> c_fn p = g).
Proof. exact router_fifo_full. Qed.
Print Assumptions C18_router_per_function_fifo.

(* Router on the real transport: with the stream of packets ps under any fragmentation, and any script of
   router iterations and receive calls, the router behaves as if the packets of ps arrived one per
   iteration (and end-of-stream afterwards). *)
Theorem C18_router_on_stream : forall script ps s st,
  Forall wf_cpx ps -> concat s = concat (map frame ps) ->
  let '(_, st', os) := sys_run s st script in r_run st (script_events script ps) = (st', os).
Proof. exact sys_run_spec. Qed.
Print Assumptions C18_router_on_stream.

(* CRTP through CPX, both directions: the packet (port, channel, data) sent by send_packet is read from
   the stream, however fragmented, as a HOST->STM32 CRTP-function CPX packet whose payload is the CRTP
   header byte followed by the CRTP payload, unchanged; and the receive thread turns such a CPX packet back
   into the CRTP packet with the same header, port, channel and payload. *)
Theorem C18_crtp_tunnel_identity : forall port chan d s, zlen d <= 65532 ->
  chunking s (frame (tunnel_tx (crtp_header port chan) d)) ->
  exists p s', read_packet s = (Ok p, s') /\ concat s' = [] /\
    c_src p = T_HOST /\ c_dst p = T_STM32 /\ c_fn p = F_CRTP /\
    c_data p = crtp_header port chan :: d /\
    tunnel_rx p = Some (mk_crtp (crtp_header port chan) (Z.land port 15) (Z.land chan 3) d).
Proof. exact tunnel_identity. Qed.
Print Assumptions C18_crtp_tunnel_identity.

(* downlink for ANY header byte and any well-formed CPX envelope: header modulo the two reserved bits
   (CRTPPacket forces them to 1), port and channel of that byte, payload exact *)
Theorem C18_crtp_tunnel_downlink : forall p h d b s,
  wf_cpx p -> c_data p = h :: d -> concat s = frame p ++ b ->
  exists p' s', read_packet s = (Ok p', s') /\ concat s' = b /\
    tunnel_rx p' = Some (mk_crtp (Z.lor h 12) (crtp_port h) (crtp_chan h) d).
Proof. exact tunnel_downlink. Qed.
Print Assumptions C18_crtp_tunnel_downlink.

(* a CRTP packet object looped back through both tunnel ends is the same object *)
Theorem C18_crtp_tunnel_loopback : forall h d,
  tunnel_rx (tunnel_tx (k_header (new_crtp h d)) (k_data (new_crtp h d))) = Some (new_crtp h d).
Proof. exact tunnel_loopback. Qed.
Print Assumptions C18_crtp_tunnel_loopback.

(* The same re-assembly statement without committing to a list of pieces: against a socket whose every
   recv(n) may return ANY non-empty prefix of at most n pending bytes (recv_any), any run of
   `length ps` readPacket calls over the stream of ps (followed by arbitrary further bytes b) returns
   exactly ps and leaves exactly b; and such runs exist. *)
Theorem C18_any_recv_behaviour : forall ps b rs b2, Forall wf_cpx ps ->
  read_n_any (concat (map frame ps) ++ b) rs b2 -> length rs = length ps ->
  rs = map Ok ps /\ b2 = b.
Proof. exact any_recv_stream. Qed.
Print Assumptions C18_any_recv_behaviour.

Theorem C18_any_recv_behaviour_inhabited : forall ps b, Forall wf_cpx ps ->
  read_n_any (concat (map frame ps) ++ b) (map Ok ps) b.
Proof. exact any_recv_stream_exists. Qed.
Print Assumptions C18_any_recv_behaviour_inhabited.

(* ---- serial path (UARTTransport framing: 0xFF, size, wire data, XOR checksum; clear-to-send flow control) ---- *)

(* every packet writePacket accepts (at most 98 payload bytes) is read back intact from the port, checksum
   accepted, exactly its bytes consumed; writing takes the lock (next write waits for clear-to-send) *)
Theorem C18_uart_roundtrip : forall p rest lock, wf_cpx p -> zlen (c_data p) <= 98 ->
  exists bytes, uart_write false p = (WOk bytes, true) /\
    uart_read (bytes ++ rest) lock = (UPacket (Ok p) true, rest, lock).
Proof. exact uart_write_read. Qed.
Print Assumptions C18_uart_roundtrip.

(* a sequence of frames is read back as that sequence *)
Theorem C18_uart_stream : forall ps rest lock,
  Forall wf_cpx ps -> Forall (fun p => zlen (c_data p) <= 253) ps ->
  uart_read_n (length ps) (concat (map uart_frame ps) ++ rest) lock =
  (map (fun p => UPacket (Ok p) true) ps, rest, lock).
Proof. exact uart_read_n_frames. Qed.
Print Assumptions C18_uart_stream.

(* line noise (no 0xFF) before a frame is skipped *)
Theorem C18_uart_noise_skipped : forall g b lock, Forall (fun x => x <> 255) g ->
  uart_read (g ++ b) lock = uart_read b lock.
Proof. exact uart_read_skip_noise. Qed.
Print Assumptions C18_uart_noise_skipped.

(* CRTP through the serial transport: header and payload unchanged (payload up to 97 bytes; CRTP allows 30) *)
Theorem C18_uart_crtp_tunnel : forall port chan d rest lock, zlen d <= 97 ->
  exists bytes, uart_write false (tunnel_tx (crtp_header port chan) d) = (WOk bytes, true) /\
    uart_read (bytes ++ rest) lock = (UPacket (Ok (tunnel_tx (crtp_header port chan) d)) true, rest, lock) /\
    tunnel_rx (tunnel_tx (crtp_header port chan) d) =
      Some (mk_crtp (crtp_header port chan) (Z.land port 15) (Z.land chan 3) d).
Proof. exact uart_tunnel. Qed.
Print Assumptions C18_uart_crtp_tunnel.

(* ---- round 2: the sending side, packets filled in after construction, the CPX facade ---- *)

(* Short writes (fix F18a): whatever number of bytes each send call takes, writePacket puts the complete frame
   on the stream, so C18_stream_reassembly applies to what was really transmitted. *)
Theorem C18_short_send_complete : forall takes p, wf_cpx p -> tx_packet takes p = Ok (frame p).
Proof. exact tx_packet_wf. Qed.
Print Assumptions C18_short_send_complete.

(* The code before F18a (one send call, result ignored) lost the tail of the frame whenever send took less. *)
Theorem C18_single_send_loses_bytes : forall t ts buf, 0 <= t < zlen buf ->
  send_once (t :: ts) buf = firstn (Z.to_nat t) buf /\ zlen (send_once (t :: ts) buf) < zlen buf.
Proof. exact send_once_short. Qed.
Print Assumptions C18_single_send_loses_bytes.

(* Data assigned after construction (fix F18b): the `length` attribute plays no role; the packet is framed by
   its data and read back, under any fragmentation, with all attributes intact and `length` refreshed. *)
Theorem C18_stale_length_harmless : forall takes p b s, wf_attrs p ->
  tx_packet takes p = Ok (frame p) /\
  (concat s = frame p ++ b -> exists s', read_packet s = (Ok (refresh p), s') /\ concat s' = b).
Proof. intros takes p b s H. split; [now apply write_packet_attrs|intros Hc; now apply read_packet_frame_attrs]. Qed.
Print Assumptions C18_stale_length_harmless.

(* CPX facade with the router thread: any session of sendPacket / receivePacket / router iterations behaves as
   the router on the transport (C18_router_on_stream applies), and every sendPacket puts exactly the frame of
   its packet on the stream. *)
Theorem C18_cpx_session : forall takes evs s st, forallb c_simple evs = true ->
  let '(c', os) := c_run takes (mk_cs s st true) evs in
  let '(s', st', o) := sys_run s st (c_proj evs) in
  c' = mk_cs s' st' true /\ recv_obs os = o /\ sent_obs os = map (tx_packet takes) (sends evs).
Proof. exact c_run_simple. Qed.
Print Assumptions C18_cpx_session.

(* makeTransaction returns the reply of the same function that is next on the stream, however fragmented *)
Theorem C18_cpx_transaction : forall takes p r b s st,
  wf_cpx p -> wf_cpx r -> c_fn r = c_fn p -> concat s = frame r ++ b ->
  (st (c_fn p) = None \/ st (c_fn p) = Some []) ->
  exists c', c_step takes (mk_cs s st true) (CTransact p 1) = (c', [OTrans (Ok (frame p)) (Some r)]) /\
    concat (cs_in c') = b /\ cs_rt c' (c_fn p) = Some [] /\ cs_open c' = true.
Proof. exact c_transact_reply. Qed.
Print Assumptions C18_cpx_transaction.

(* close(): no further router iteration, sending fails, queued packets stay retrievable (CRecv is unaffected) *)
Theorem C18_cpx_after_close : forall takes s st p,
  c_step takes (mk_cs s st false) CPump = (mk_cs s st false, []) /\
  c_step takes (mk_cs s st false) (CSend p) = (mk_cs s st false, [OSent (Exc AttributeErr)]) /\
  fst (c_step takes (mk_cs s st true) CClose) = mk_cs s st false.
Proof. exact c_after_close. Qed.
Print Assumptions C18_cpx_after_close.

(* UART (fix F18c): an oversize packet is refused with the flow-control lock untouched; the next packet goes out
   and is read back intact.  Before the fix the next write blocked for ever. *)
Theorem C18_uart_oversize_leaves_link_usable : forall big p rest lock,
  98 < zlen (c_data big) -> wf_cpx p -> zlen (c_data p) <= 98 ->
  snd (uart_write false big) = false /\
  exists bytes, uart_write (snd (uart_write false big)) p = (WOk bytes, true) /\
    uart_read (bytes ++ rest) lock = (UPacket (Ok p) true, rest, lock).
Proof. exact uart_oversize_then_send. Qed.
Print Assumptions C18_uart_oversize_leaves_link_usable.

Theorem C18_uart_old_oversize_wedged : forall big p, 98 < zlen (c_data big) ->
  uart_write_old (snd (uart_write_old false big)) p = (WBlocked, true).
Proof. exact uart_old_oversize_wedges. Qed.
Print Assumptions C18_uart_old_oversize_wedged.

(* ---- round 4: several threads sending on one transport ---- *)

(* When every frame reaches the socket as ONE atomic write (writePacket holds its lock around sendall, fix F18d),
   then for any number of writers and ANY interleaving of their writes, the stream re-assembles, under any
   fragmentation, to an interleaving of the writers' packet sequences: nothing lost, torn or reordered within
   a writer. *)
Theorem C18_concurrent_writers : forall pss ws, Forall (Forall wf_cpx) pss ->
  Merge (map (map frame) pss) ws ->
  exists ps, Merge pss ps /\ concat ws = concat (map frame ps) /\
    forall s, chunking s (concat ws) -> exists s', read_n (length ps) s = (map Ok ps, s') /\ concat s' = [].
Proof. exact concurrent_writers. Qed.
Print Assumptions C18_concurrent_writers.

(* The hypothesis is needed: a writePacket that issues two writes per frame (or whose sendall is cut into several
   send calls while another thread may write) is torn apart by a second writer. *)
Theorem C18_split_write_torn :
  exists ws, Merge [split_writes tornA; split_writes tornB] ws /\
    fst (read_n 2 [concat ws]) <> [Ok tornA; Ok tornB] /\ fst (read_n 2 [concat ws]) <> [Ok tornB; Ok tornA].
Proof. exact split_writes_torn. Qed.
Print Assumptions C18_split_write_torn.

(* the executable merge used by the correspondence step only produces interleavings *)
Theorem C18_merge_by_sound : forall order (pss : list (list cpx)) ps, merge_by order pss = Some ps -> Merge pss ps.
Proof. exact (@merge_by_sound cpx). Qed.
Print Assumptions C18_merge_by_sound.

(* ---- round 5: routing is non-blocking per function ---- *)

(* For every sequence of arrivals and receive calls and every function f: what the receivers of f are handed (every
   single receive result, in order) and what is left queued for f are the same as in the run that contains ONLY the
   f-events.  Packets of other functions, however many of them lie unread (there is no bound on a queue), make no
   difference to f: a stalled consumer of one function never delays, drops or reorders another function's packets. *)
Theorem C18_router_function_independent : forall evs f,
  obs_of f (snd (r_run r_init evs)) = obs_of f (snd (r_run r_init (filter (rel f) evs))) /\
  fst (r_run r_init evs) f = fst (r_run r_init (filter (rel f) evs)) f.
Proof. exact router_independent. Qed.
Print Assumptions C18_router_function_independent.

(* The router never stops reading: whatever receive calls are (not) made, after k iterations exactly the first k frames
   of the stream have been taken from the transport; with at least as many iterations as packets nothing is left. *)
Theorem C18_router_consumes_stream : forall script ps s st, Forall wf_cpx ps -> concat s = concat (map frame ps) ->
  concat (fst (fst (sys_run s st script))) = concat (map frame (skipn (count_pump script) ps)) /\
  ((length ps <= count_pump script)%nat -> concat (fst (fst (sys_run s st script))) = []).
Proof. exact router_consumes. Qed.
Print Assumptions C18_router_consumes_stream.

(* ---- growth round: TcpDriver as a whole, transactions under other traffic, UART connect / noise / checksum ---- *)

(* TcpDriver downlink: after connect (the CRTP queue exists before the router reads anything: fix F18e), for every
   list of packets on the stream and every fragmentation, in_queue receives exactly the CRTP-function packets as CRTP
   packets, in order; the stream is consumed. *)
Theorem C18_driver_downlink : forall takes ps s, Forall wf_cpx ps -> concat s = concat (map frame ps) ->
  let d := d_pumps (length ps) (fst (d_connect takes s)) in
  d_inq d = crtp_of ps /\ concat (cs_in (d_c d)) = [] /\ d_inv d.
Proof. exact driver_downlink. Qed.
Print Assumptions C18_driver_downlink.

(* receive_packet(wait) hands them out one at a time, in order, for any wait arguments (0, > 0, < 0) *)
Theorem C18_driver_receive_in_order : forall takes ks d ws, d_inq d = ks -> length ws = length ks ->
  snd (d_run takes d (map DRecv ws)) = map (fun k => DGot (Some k)) ks.
Proof. exact driver_receive_in_order. Qed.
Print Assumptions C18_driver_receive_in_order.

(* connect announces the bridge; send_packet writes exactly the frame of CPX(HOST->STM32, CRTP, header :: data) under any
   short-write pattern; after close it fails *)
Theorem C18_driver_uplink : forall takes s h data d, zlen data <= 65532 ->
  snd (d_connect takes s) = Ok [4; 0; 25; 1; 33; 1] /\
  (d_up d = true -> snd (d_step takes d (DSend h data)) = [DSent (Ok (frame (tunnel_tx h data)))]) /\
  snd (d_step takes (fst (d_step takes d DClose)) (DSend h data)) = [DSent (Exc AttributeErr)].
Proof. exact driver_uplink. Qed.
Print Assumptions C18_driver_uplink.

(* makeTransaction: the reply of the function is returned also when any number of packets of OTHER functions arrive first *)
Theorem C18_cpx_transaction_other_traffic : forall takes p others r b s st,
  wf_cpx p -> Forall wf_cpx others -> Forall (fun o => c_fn o <> c_fn p) others -> wf_cpx r -> c_fn r = c_fn p ->
  concat s = concat (map frame others) ++ frame r ++ b ->
  (st (c_fn p) = None \/ st (c_fn p) = Some []) ->
  exists c', c_step takes (mk_cs s st true) (CTransact p (S (length others))) = (c', [OTrans (Ok (frame p)) (Some r)]) /\
    concat (cs_in c') = b /\ cs_rt c' (c_fn p) = Some [] /\ cs_open c' = true.
Proof. exact c_transact_reply_after_others. Qed.
Print Assumptions C18_cpx_transaction_other_traffic.

(* UART: valid frames with arbitrary line noise (any bytes but the start byte 0xFF) before, between and after them are
   re-assembled into exactly the frames; the noise after the last frame yields nothing *)
Theorem C18_uart_noisy_stream : forall items tail lock,
  Forall (fun gp => Forall (fun x => x <> 255) (fst gp) /\ wf_cpx (snd gp) /\ zlen (c_data (snd gp)) <= 253) items ->
  uart_read_n (length items) (uart_noisy items tail) lock =
  (map (fun gp => UPacket (Ok (snd gp)) true) items, tail, lock).
Proof. exact uart_read_noisy. Qed.
Print Assumptions C18_uart_noisy_stream.

(* UART connect(): synchronises on the first 0xFF 0x00 after noise *)
Theorem C18_uart_connect_sync : forall g b, Forall (fun x => x <> 255) g -> uart_connect (g ++ 255 :: 0 :: b) = Some b.
Proof. exact uart_connect_sync. Qed.
Print Assumptions C18_uart_connect_sync.

(* UART checksum: what the code does with ANY checksum byte — the packet is decoded and handed on, the comparison only
   sets the (printed) flag.  Recorded behaviour, not a preservation claim (see design.d/C18.md). *)
Theorem C18_uart_checksum_only_reported : forall w c rest lock, 0 < zlen w <= 255 ->
  uart_read (255 :: zlen w :: w ++ c :: rest) lock =
  (UPacket (set_wire w) (c =? xor_sum (255 :: zlen w :: w)), rest, lock).
Proof. exact uart_read_any_crc. Qed.
Print Assumptions C18_uart_checksum_only_reported.

(* pyserial's blocking read(n) is independent of how the line delivered the bytes *)
Theorem C18_serial_read_fragmentation_free : forall s n, 0 <= n <= zlen (concat s) ->
  exists s', read_data n [] s = Some (firstn (Z.to_nat n) (concat s), s') /\ concat s' = skipn (Z.to_nat n) (concat s).
Proof. exact serial_read_fragmentation_free. Qed.
Print Assumptions C18_serial_read_fragmentation_free.

(* ---- one CPXPacket object encoded several times ---- *)

(* For EVERY history of attribute assignments (source, destination, function, version, lastPacket, data, or filling the
   object from received bytes) and encodes (wireData, writePacket) on one packet object, the k-th output is the encoding
   of the attribute values at that moment — never of earlier ones. *)
Theorem C18_encode_reflects_current_fields : forall ops p,
  Forall2 (fun out q => match out with
                        | Ok b => b = wire_data q \/ b = frame q
                        | Exc _ => 65533 < zlen (c_data q)
                        end) (h_run p ops) (h_states p ops).
Proof. exact h_run_current. Qed.
Print Assumptions C18_encode_reflects_current_fields.

(* ... and, for attribute values in the enums, decoding the k-th output returns exactly those values (length refreshed) *)
Theorem C18_encode_history_roundtrip : forall ops p, Forall wf_attrs (h_states p ops) ->
  Forall2 (fun out q => exists b, out = Ok b /\ (b = wire_data q \/ b = frame q) /\ set_wire (wire_data q) = Ok (refresh q))
          (h_run p ops) (h_states p ops).
Proof. exact h_run_decodes. Qed.
Print Assumptions C18_encode_history_roundtrip.

(* an encoder whose cached routing bytes survive an assignment of ONE field (lastPacket) violates this *)
Theorem C18_stale_routing_cache_refuted :
  exists p ops, hc_run p None ops <> map (fun q => wire_data q) (h_states p ops).
Proof. exact stale_cache_refuted. Qed.
Print Assumptions C18_stale_routing_cache_refuted.

(* ---- transactions are receivers: nothing queued is lost ---- *)

(* With packets of its function queued, makeTransaction returns the OLDEST one; the others stay queued in order, followed
   by what arrives during the call.  Together with C18_cpx_transaction / C18_cpx_transaction_other_traffic (empty queue) and
   C18_router_per_function_fifo this is "every packet that arrived for f is handed out exactly once, in arrival order, to
   f's receivers" across histories that mix receivePacket and makeTransaction. *)
Theorem C18_cpx_transaction_takes_head : forall takes s st p k x q, wf_cpx p -> st (c_fn p) = Some (x :: q) ->
  exists c' l, c_step takes (mk_cs s st true) (CTransact p k) = (c', [OTrans (Ok (frame p)) (Some x)]) /\
    cs_rt c' (c_fn p) = Some (q ++ l).
Proof. exact c_transact_takes_head. Qed.
Print Assumptions C18_cpx_transaction_takes_head.

(* a transaction that first discards what is queued for its function loses a received packet: it is neither returned nor
   left queued, while the real one returns it *)
Theorem C18_flushing_transaction_refuted :
  exists takes c p k x, cs_rt c (c_fn p) = Some [x] /\
    (forall r, In (OTrans (Ok (frame p)) (Some r)) (snd (c_transact_flush takes c p k)) -> r <> x) /\
    ~ In x (pending (c_fn p) (cs_rt (fst (c_transact_flush takes c p k)))) /\
    snd (c_step takes c (CTransact p k)) = [OTrans (Ok (frame p)) (Some x)].
Proof. exact flushing_transaction_refuted. Qed.
Print Assumptions C18_flushing_transaction_refuted.

(* ---- queues registered at construction: every function has its OWN queue ---- *)

(* For every set of functions registered at construction (CPX(transport, functions)), every later lazy registration and every
   interleaving of arrivals and receive calls: receivers of f get exactly the f-packets that arrived while f's queue existed
   (from the start when registered at construction), in arrival order, and only packets of function f. *)
Theorem C18_router_registered_functions : forall fs evs f,
  let '(st', os) := r_run (r_reg fs) evs in
  delivered f os ++ pending f st' = accepted f (zmem f fs) evs /\
  (forall g p, In (g, Some p) os -> c_fn p = g).
Proof. exact router_fifo_registered. Qed.
Print Assumptions C18_router_registered_functions.

(* distinct functions never share a queue: an arrival or receive for one function leaves every other function's queue as it was *)
Theorem C18_router_queues_distinct : forall st e f, rel f e = false -> fst (r_step st e) f = st f.
Proof. exact r_step_other_function. Qed.
Print Assumptions C18_router_queues_distinct.

(* one queue object shared by the functions registered at construction breaks "handed only to receivers of that function" *)
Theorem C18_shared_queue_refuted :
  exists members evs g p, In (g, Some p) (sh_run members [] evs) /\ c_fn p <> g.
Proof. exact shared_queue_refuted. Qed.
Print Assumptions C18_shared_queue_refuted.

(* ---- Wave 13: connection histories on one transport object ---- *)

(* The reader's state is per connection.  For every history on one SocketTransport object — any reads, streams that broke off
   at any byte of a frame (header or payload), any number of disconnect()/connect() — the reads made on a new connection are
   the parse of THAT connection's stream alone, and if it carries the packets ps under any fragmentation they are exactly ps. *)
Theorem C18_session_independent : forall pre s0 s2 n,
  t_run s0 (pre ++ TReconnect s2 :: repeat TRead n) = t_run s0 pre ++ fst (read_n n s2).
Proof. exact session_independent. Qed.
Print Assumptions C18_session_independent.

Theorem C18_session_reassembly : forall pre s0 s2 ps, Forall wf_cpx ps -> chunking s2 (concat (map frame ps)) ->
  t_run s0 (pre ++ TReconnect s2 :: repeat TRead (length ps)) = t_run s0 pre ++ map Ok ps.
Proof. exact session_reassembly. Qed.
Print Assumptions C18_session_reassembly.

(* a reader that keeps the unfinished frame in the transport object across disconnect()/connect() splices the old bytes onto
   the new stream: the first packet of the new connection is not what the stream carries *)
Theorem C18_carried_rx_state_refuted :
  exists s1 s2, chunking s2 (frame new_p) /\
    t_run s1 [TRead; TReconnect s2; TRead] = [Exc EndOfStream; Ok new_p] /\
    ts_run (None, []) s1 [TRead; TReconnect s2; TRead] <> [Exc EndOfStream; Ok new_p].
Proof. exact carried_state_refuted. Qed.
Print Assumptions C18_carried_rx_state_refuted.
