(* C18/Uart.v — UARTTransport (cflib/cpx/transports.py): the framing the serial driver's CPX packets travel in.
   Model definitions and their proofs (extension of C18: the property's stream clause is about TCP; this file
   covers the serial path of the tunnelling clause).  pyserial read(n) with timeout=None blocks until n bytes
   are there, so the incoming side is a flat byte string (no fragmentation question). *)
From CF Require Import Common.Bytes C18.Model C18.Proofs.
From Coq Require Import ZifyBool.
Open Scope Z_scope.

(* _calcXORchecksum *)
Definition xor_sum (l : list Z) : Z := fold_left Z.lxor l 0.

(* bytes written by writePacket: 0xFF, size, wire data, XOR over all of these *)
Definition uart_frame (p : cpx) : list Z :=
  let buff := 255 :: zlen (wire_data p) :: wire_data p in buff ++ [xor_sum buff].

(* writePacket (after fix F18c): more than 100 wire bytes are refused BEFORE the lock is taken; otherwise
   acquire the lock (held until the peer's clear-to-send 0xFF 0x00 is read) and write the frame.
   uart_write_old is the behaviour before the fix: lock first, then `raise 'Packet too large!'`
   (a TypeError) with the lock left held. *)
Inductive wres := WOk (bytes : list Z) | WBlocked | WTooLarge.
Definition uart_write (lock : bool) (p : cpx) : wres * bool :=
  if 100 <? zlen (wire_data p) then (WTooLarge, lock)
  else if lock then (WBlocked, true)
  else (WOk (uart_frame p), true).
Definition uart_write_old (lock : bool) (p : cpx) : wres * bool :=
  if lock then (WBlocked, true)
  else if 100 <? zlen (wire_data p) then (WTooLarge, true)
  else (WOk (uart_frame p), true).

(* readPacket: skip bytes until 0xFF; size 0 = clear-to-send (release the lock; RuntimeError if it is not
   held) and keep looking; otherwise size bytes + checksum byte (a mismatch is only printed), answer with
   clear-to-send, decode.  UEnd: the scripted port ran out of bytes. *)
Inductive ures := UPacket (r : res cpx) (crc_ok : bool) | UEnd | UReleaseUnlocked.
Fixpoint uart_read (b : list Z) (lock : bool) : ures * list Z * bool :=
  match b with
  | [] => (UEnd, [], lock)
  | start :: b1 =>
      if start =? 255 then
        match b1 with
        | [] => (UEnd, [], lock)
        | size :: b2 =>
            if size =? 0 then (if lock then uart_read b2 false else (UReleaseUnlocked, b2, false))
            else if zlen b2 <? size + 1 then (UEnd, [], lock)
            else let data := firstn (Z.to_nat size) b2 in
                 let crc := nth (Z.to_nat size) b2 0 in
                 (UPacket (set_wire data) (crc =? xor_sum (255 :: size :: data)),
                  skipn (Z.to_nat size + 1) b2, lock)
        end
      else uart_read b1 lock
  end.

Fixpoint uart_read_n (n : nat) (b : list Z) (lock : bool) : list ures * list Z * bool :=
  match n with
  | O => ([], b, lock)
  | S n' => let '(r, b1, l1) := uart_read b lock in
            let '(rs, b2, l2) := uart_read_n n' b1 l1 in (r :: rs, b2, l2)
  end.

(* operations of a session, for the correspondence step: UR = readPacket, UW p = writePacket p.
   Output per op is encoded; `out` collects what was written to the port. *)
Inductive uop := UR | UW (p : cpx).
Definition enc_ures (r : ures) : list Z :=
  match r with
  | UPacket r c => 0 :: (if c then 1 else 0) :: enc_res r
  | UEnd => [1]
  | UReleaseUnlocked => [2]
  end.
Fixpoint uart_run (ops : list uop) (b : list Z) (lock : bool) : list (list Z) * list Z * bool :=
  match ops with
  | [] => ([], b, lock)
  | UR :: ops' =>
      let '(r, b1, l1) := uart_read b lock in
      let w := match r with UPacket _ _ => [255; 0] | _ => [] end in
      let '(os, b2, l2) := uart_run ops' b1 l1 in ((enc_ures r ++ 9 :: w) :: os, b2, l2)
  | UW p :: ops' =>
      let '(r, l1) := uart_write lock p in
      let o := match r with WOk bs => 10 :: bs | WBlocked => [11] | WTooLarge => [12] end in
      let '(os, b2, l2) := uart_run ops' b l1 in (o :: os, b2, l2)
  end.

(* ================================================================ proofs *)
Lemma uart_frame_shape p :
  uart_frame p = 255 :: zlen (wire_data p) :: wire_data p ++ [xor_sum (255 :: zlen (wire_data p) :: wire_data p)].
Proof. reflexivity. Qed.

Lemma nth_app_exact {A} (l1 l2 : list A) x d : nth (length l1) (l1 ++ x :: l2) d = x.
Proof. induction l1 as [|y l1 IH]; [reflexivity|exact IH]. Qed.

Lemma skipn_app_exact1 {A} (l1 l2 : list A) x : skipn (length l1 + 1) (l1 ++ x :: l2) = l2.
Proof. induction l1 as [|y l1 IH]; [reflexivity|exact IH]. Qed.

(* one frame at the head of the incoming bytes: decoded, checksum accepted, exactly it consumed *)
Lemma uart_read_frame_gen : forall p rest lock, zlen (wire_data p) <= 255 ->
  uart_read (uart_frame p ++ rest) lock = (UPacket (set_wire (wire_data p)) true, rest, lock).
Proof.
  intros p rest lock Hmax. rewrite uart_frame_shape.
  set (w := wire_data p) in *. set (c := xor_sum (255 :: zlen w :: w)).
  assert (Hw : 2 <= zlen w) by (unfold w; rewrite zlen_wire_data; pose proof (zlen_nonneg (c_data p)); lia).
  cbn [app uart_read]. rewrite Z.eqb_refl.
  destruct (zlen w =? 0) eqn:E0; [lia|].
  rewrite <- app_assoc. cbn [app].
  rewrite zlen_app, zlen_cons. pose proof (zlen_nonneg rest) as Hr.
  destruct (zlen w + (1 + zlen rest) <? zlen w + 1) eqn:E1; [lia|].
  replace (Z.to_nat (zlen w)) with (length w) by (unfold zlen; lia).
  rewrite firstn_app_exact, nth_app_exact, skipn_app_exact1.
  fold c. rewrite Z.eqb_refl. reflexivity.
Qed.

Lemma uart_read_frame : forall p rest lock, wf_cpx p -> zlen (c_data p) <= 253 ->
  uart_read (uart_frame p ++ rest) lock = (UPacket (Ok p) true, rest, lock).
Proof.
  intros p rest lock Hwf Hmax. rewrite uart_read_frame_gen by (rewrite zlen_wire_data; lia).
  now rewrite set_wire_wire_data.
Qed.

(* what writePacket accepts (at most 98 payload bytes) is read back intact *)
Lemma uart_write_read : forall p rest lock, wf_cpx p -> zlen (c_data p) <= 98 ->
  exists bytes, uart_write false p = (WOk bytes, true) /\
    uart_read (bytes ++ rest) lock = (UPacket (Ok p) true, rest, lock).
Proof.
  intros p rest lock Hwf Hmax. exists (uart_frame p). split.
  - unfold uart_write. rewrite zlen_wire_data. destruct (100 <? zlen (c_data p) + 2) eqn:E; [lia|reflexivity].
  - apply uart_read_frame; [assumption|lia].
Qed.

(* an oversize packet is refused and leaves the flow-control lock as it was: the link stays usable *)
Lemma uart_write_too_large : forall p lock, 98 < zlen (c_data p) -> uart_write lock p = (WTooLarge, lock).
Proof.
  intros p lock H. unfold uart_write. rewrite zlen_wire_data. destruct (100 <? zlen (c_data p) + 2) eqn:E; [reflexivity|lia].
Qed.

Lemma uart_oversize_then_send : forall big p rest lock, 98 < zlen (c_data big) -> wf_cpx p -> zlen (c_data p) <= 98 ->
  snd (uart_write false big) = false /\
  exists bytes, uart_write (snd (uart_write false big)) p = (WOk bytes, true) /\
    uart_read (bytes ++ rest) lock = (UPacket (Ok p) true, rest, lock).
Proof.
  intros big p rest lock Hb Hp Hm. rewrite (uart_write_too_large big false Hb). cbn [snd].
  split; [reflexivity|]. now apply uart_write_read.
Qed.

(* before the fix the same sequence wedged the link: the second write waits for a clear-to-send nobody owes *)
Lemma uart_old_oversize_wedges : forall big p, 98 < zlen (c_data big) ->
  uart_write_old (snd (uart_write_old false big)) p = (WBlocked, true).
Proof.
  intros big p Hb. unfold uart_write_old at 2. rewrite zlen_wire_data.
  destruct (100 <? zlen (c_data big) + 2) eqn:E; [reflexivity|lia].
Qed.

(* line noise before a frame is skipped; a clear-to-send marker releases the held lock and is skipped *)
Lemma uart_read_skip_noise : forall g b lock, Forall (fun x => x <> 255) g ->
  uart_read (g ++ b) lock = uart_read b lock.
Proof.
  induction g as [|x g IH]; intros b lock Hg; [reflexivity|].
  inversion Hg as [|? ? Hx Hg']; subst. cbn [app uart_read].
  destruct (x =? 255) eqn:E; [lia|]. now apply IH.
Qed.

Lemma uart_read_cts : forall b, uart_read (255 :: 0 :: b) true = uart_read b false.
Proof. reflexivity. Qed.

Lemma uart_read_cts_unlocked : forall b, uart_read (255 :: 0 :: b) false = (UReleaseUnlocked, b, false).
Proof. reflexivity. Qed.

Lemma uart_read_n_frames : forall ps rest lock, Forall wf_cpx ps -> Forall (fun p => zlen (c_data p) <= 253) ps ->
  uart_read_n (length ps) (concat (map uart_frame ps) ++ rest) lock =
  (map (fun p => UPacket (Ok p) true) ps, rest, lock).
Proof.
  induction ps as [|p ps IH]; intros rest lock Hwf Hmax; cbn [length map concat uart_read_n app].
  - reflexivity.
  - inversion Hwf; inversion Hmax; subst. rewrite <- app_assoc, uart_read_frame by assumption.
    rewrite IH by assumption. reflexivity.
Qed.

(* CRTP over the serial transport: what SerialDriver.send_packet hands to the port is, on the other side of the
   same framing, the CPX packet HOST->STM32/CRTP with payload header :: data; and a frame carrying header :: data
   becomes the CRTP packet with that header (reserved bits forced), port, channel and payload *)
Lemma uart_tunnel : forall port chan d rest lock, zlen d <= 97 ->
  exists bytes, uart_write false (tunnel_tx (crtp_header port chan) d) = (WOk bytes, true) /\
    uart_read (bytes ++ rest) lock = (UPacket (Ok (tunnel_tx (crtp_header port chan) d)) true, rest, lock) /\
    tunnel_rx (tunnel_tx (crtp_header port chan) d) =
      Some (mk_crtp (crtp_header port chan) (Z.land port 15) (Z.land chan 3) d).
Proof.
  intros port chan d rest lock Hd.
  assert (Hwf : wf_cpx (tunnel_tx (crtp_header port chan) d)) by (apply tunnel_tx_wf; lia).
  destruct (uart_write_read _ rest lock Hwf) as (bytes & H1 & H2).
  { unfold tunnel_tx, new_cpx. cbn [c_data]. rewrite zlen_cons. lia. }
  exists bytes. repeat split; auto.
  unfold tunnel_rx, tunnel_tx, new_cpx, new_crtp. cbn [c_data].
  destruct (crtp_header_fields port chan) as (E1 & E2 & E3). unfold crtp_port, crtp_chan in E2, E3.
  now rewrite E1, E2, E3.
Qed.

(* ================================================================ growth round: connect(), garbage between frames, checksum *)
(* connect(): read bytes until 0xFF followed by 0x00, then answer 0xFF 0x00.  After 0xFF the next byte is taken as the
   size whatever it is (also another 0xFF): 0xFF 0xFF 0x00 does NOT synchronise.  None: the scripted port ran dry. *)
Fixpoint uart_connect (b : list Z) : option (list Z) :=
  match b with
  | [] => None
  | x :: b1 =>
      if x =? 255 then
        match b1 with
        | [] => None
        | y :: b2 => if y =? 0 then Some b2 else uart_connect b2
        end
      else uart_connect b1
  end.
Definition uart_connect_reply : list Z := [255; 0].

Lemma uart_connect_sync : forall g b, Forall (fun x => x <> 255) g -> uart_connect (g ++ 255 :: 0 :: b) = Some b.
Proof.
  induction g as [|x g IH]; intros b Hg; [reflexivity|].
  inversion Hg as [|? ? Hx Hg']; subst. cbn [app uart_connect]. destruct (x =? 255) eqn:E; [lia|]. now apply IH.
Qed.

(* any frame-shaped bytes: the checksum byte is compared, a mismatch is only reported (printed), the packet is decoded
   and handed on all the same *)
Lemma uart_read_any_crc : forall w c rest lock, 0 < zlen w <= 255 ->
  uart_read (255 :: zlen w :: w ++ c :: rest) lock =
  (UPacket (set_wire w) (c =? xor_sum (255 :: zlen w :: w)), rest, lock).
Proof.
  intros w c rest lock Hw. cbn [uart_read]. rewrite Z.eqb_refl.
  destruct (zlen w =? 0) eqn:E0; [lia|].
  rewrite zlen_app, zlen_cons. pose proof (zlen_nonneg rest).
  destruct (zlen w + (1 + zlen rest) <? zlen w + 1) eqn:E1; [lia|].
  replace (Z.to_nat (zlen w)) with (length w) by (unfold zlen; lia).
  rewrite firstn_app_exact, nth_app_exact, skipn_app_exact1. reflexivity.
Qed.

(* a frame cut short by the end of the port's data: nothing is delivered *)
Lemma uart_read_truncated : forall w k lock, (k <= length w)%nat -> 0 < zlen w ->
  fst (fst (uart_read (255 :: zlen w :: firstn k w) lock)) = UEnd.
Proof.
  intros w k lock Hk Hw. cbn [uart_read]. rewrite Z.eqb_refl.
  destruct (zlen w =? 0) eqn:E0; [lia|].
  assert (zlen (firstn k w) <= zlen w) by (unfold zlen; rewrite firstn_length; lia).
  destruct (zlen (firstn k w) <? zlen w + 1) eqn:E1; [reflexivity|lia].
Qed.

(* valid frames with arbitrary line noise (no start byte 0xFF in it) before, between and after them *)
Fixpoint uart_noisy (items : list (list Z * cpx)) (tail : list Z) : list Z :=
  match items with
  | [] => tail
  | (g, p) :: r => g ++ uart_frame p ++ uart_noisy r tail
  end.

Lemma uart_read_noisy : forall items tail lock,
  Forall (fun gp => Forall (fun x => x <> 255) (fst gp) /\ wf_cpx (snd gp) /\ zlen (c_data (snd gp)) <= 253) items ->
  uart_read_n (length items) (uart_noisy items tail) lock =
  (map (fun gp => UPacket (Ok (snd gp)) true) items, tail, lock).
Proof.
  induction items as [|[g p] items IH]; intros tail lock H; cbn [length map uart_noisy uart_read_n].
  - reflexivity.
  - inversion H as [|? ? (Hg & Hp & Hm) Hr]; subst. cbn [fst snd] in *.
    rewrite uart_read_skip_noise by assumption. rewrite uart_read_frame by assumption.
    rewrite IH by assumption. reflexivity.
Qed.

Lemma uart_noise_only_end : forall g lock, Forall (fun x => x <> 255) g -> fst (fst (uart_read g lock)) = UEnd.
Proof.
  intros g lock Hg. rewrite <- (app_nil_r g), uart_read_skip_noise by assumption. reflexivity.
Qed.

(* pyserial read(n) with timeout=None returns exactly the next n bytes however the UART delivered them (it loops like
   _readData): the incoming side of UARTTransport is therefore independent of the fragmentation of the line *)
Lemma serial_read_fragmentation_free : forall s n, 0 <= n <= zlen (concat s) ->
  exists s', read_data n [] s = Some (firstn (Z.to_nat n) (concat s), s') /\ concat s' = skipn (Z.to_nat n) (concat s).
Proof. intros s n H. destruct (read_data_some s n [] ltac:(lia)) as (s' & H1 & H2). exists s'. auto. Qed.
