(* C18/Driver.v — TcpDriver (cflib/crtp/tcpdriver.py) end to end: connect, the receive thread, send_packet,
   receive_packet(wait), close — on top of the CPX facade model (Model.v: cstate, c_pump).  Model and proofs. *)
From CF Require Import Common.Bytes C18.Model C18.Proofs.
From Coq Require Import ZifyBool.
Open Scope Z_scope.

(* connect(): CPX(SocketTransport(host, port)) (router thread started), _CPXReceiveThread started (its first
   receivePacket(CRTP, timeout=0.1) creates the CRTP queue), then this packet is sent: "switch the bridge to CPX" *)
Definition sys_enable : cpx := new_cpx F_SYSTEM T_STM32 T_HOST [33; 1].

Record dstate := mk_ds { d_c : cstate; d_inq : list crtp; d_up : bool }.   (* d_up: self.cpx is not None *)

(* _CPXReceiveThread.run: everything queued for CRTP goes to in_queue as CRTPPacket; empty CPX payloads are skipped *)
Definition drv_rx (q : list cpx) : list crtp :=
  flat_map (fun p => match tunnel_rx p with Some k => [k] | None => [] end) q.
Definition d_drain (d : dstate) : dstate :=
  match cs_rt (d_c d) F_CRTP with
  | Some q => mk_ds (mk_cs (cs_in (d_c d)) (upd (cs_rt (d_c d)) F_CRTP []) (cs_open (d_c d)))
                    (d_inq d ++ drv_rx q) (d_up d)
  | None => d
  end.

(* the state right after connect() on a socket whose incoming pieces are s, and what connect wrote.
   (The router is assumed not to have read a CRTP packet before the receive thread created its queue: the
   constructor order leaves that race open; the harness holds the router until the queue exists.) *)
Definition d_connect (takes : list Z) (s : sock) : dstate * res (list Z) :=
  (mk_ds (mk_cs s (upd r_init F_CRTP []) true) [] true, tx_packet takes sys_enable).

Inductive dev :=
| DPump                          (* router thread: one iteration; then the receive thread empties the CRTP queue *)
| DSend (h : Z) (data : list Z)  (* send_packet(pk): pk.header = h, pk.data = data *)
| DRecv (w : Z)                  (* receive_packet(w): w = 0 no wait, w > 0 timeout, w < 0 block *)
| DClose.
Inductive dobs :=
| DSent (b : res (list Z))
| DGot (r : option crtp)         (* None: nothing there (w >= 0: returns None; w < 0: the call is still blocked) *)
| DClosed.

Definition d_pump (d : dstate) : dstate :=
  if d_up d then d_drain (mk_ds (c_pump (d_c d)) (d_inq d) (d_up d)) else d.

Definition d_step (takes : list Z) (d : dstate) (e : dev) : dstate * list dobs :=
  match e with
  | DPump => (d_pump d, [])
  | DSend h data =>
      (d, [DSent (if d_up d then tx_packet takes (tunnel_tx h data) else Exc AttributeErr)])
  | DRecv _ =>
      match d_inq d with
      | [] => (d, [DGot None])
      | k :: r => (mk_ds (d_c d) r (d_up d), [DGot (Some k)])
      end
  | DClose => (mk_ds (mk_cs (cs_in (d_c d)) (cs_rt (d_c d)) false) (d_inq d) false, [DClosed])
  end.

Fixpoint d_run (takes : list Z) (d : dstate) (evs : list dev) : dstate * list dobs :=
  match evs with
  | [] => (d, [])
  | e :: evs' => let '(d1, o1) := d_step takes d e in
                 let '(d2, o2) := d_run takes d1 evs' in (d2, o1 ++ o2)
  end.

Fixpoint d_pumps (n : nat) (d : dstate) : dstate :=
  match n with O => d | S n' => d_pumps n' (d_pump d) end.

Definition enc_dobs (o : dobs) : list Z :=
  match o with
  | DSent b => 31 :: enc_resb b
  | DGot r => 32 :: enc_crtp r
  | DClosed => [33]
  end.

(* what the application must get: the CRTP-function packets of the stream, as CRTP packets, in order *)
Definition crtp_of (ps : list cpx) : list crtp := drv_rx (filter (fun p => c_fn p =? F_CRTP) ps).

(* ================================================================ proofs *)
Definition d_inv (d : dstate) : Prop :=
  d_up d = true /\ cs_open (d_c d) = true /\ cs_rt (d_c d) F_CRTP = Some [].

Lemma d_pump_frame : forall d p b, d_inv d -> wf_cpx p -> concat (cs_in (d_c d)) = frame p ++ b ->
  d_inv (d_pump d) /\ concat (cs_in (d_c (d_pump d))) = b /\
  d_inq (d_pump d) = d_inq d ++ crtp_of [p].
Proof.
  intros [[s st op] inq up] p b (Hup & Hop & Hq) Hp Hc. cbn [d_up d_c cs_open cs_rt cs_in d_inq] in *. subst up op.
  unfold d_pump. cbn [d_up d_c d_inq]. unfold c_pump. cbn [cs_open cs_in cs_rt].
  destruct (read_packet_frame p b s Hp Hc) as (s1 & H1 & H2). rewrite H1. cbn [r_step].
  unfold crtp_of. cbn [filter].
  destruct (c_fn p =? F_CRTP) eqn:E.
  - assert (Ef : c_fn p = F_CRTP) by lia. rewrite Ef, Hq. cbn [fst app].
    unfold d_drain. cbn [d_c cs_rt cs_in cs_open d_inq d_up]. unfold upd at 1. rewrite Z.eqb_refl.
    unfold d_inv. cbn [d_up d_c cs_open cs_rt cs_in d_inq]. unfold upd. rewrite Z.eqb_refl. auto.
  - assert (Hne : (F_CRTP =? c_fn p) = false) by lia.
    destruct (st (c_fn p)) as [q|] eqn:Eq; cbn [fst]; unfold d_drain; cbn [d_c cs_rt cs_in cs_open d_inq d_up].
    + replace (upd st (c_fn p) (q ++ [p]) F_CRTP) with (Some (@nil cpx)) by (unfold upd; now rewrite Hne).
      unfold d_inv. cbn [d_up d_c cs_open cs_rt cs_in d_inq drv_rx flat_map]. rewrite app_nil_r.
      repeat split; auto; unfold upd; now rewrite Z.eqb_refl.
    + rewrite Hq. unfold d_inv. cbn [d_up d_c cs_open cs_rt cs_in d_inq drv_rx flat_map]. rewrite app_nil_r.
      repeat split; auto; unfold upd; now rewrite Z.eqb_refl.
Qed.

Lemma crtp_of_cons p ps : crtp_of (p :: ps) = crtp_of [p] ++ crtp_of ps.
Proof.
  unfold crtp_of. cbn [filter]. destruct (c_fn p =? F_CRTP); cbn [drv_rx flat_map app]; [|reflexivity].
  now rewrite app_nil_r.
Qed.

Lemma d_pumps_stream : forall ps d b, d_inv d -> Forall wf_cpx ps ->
  concat (cs_in (d_c d)) = concat (map frame ps) ++ b ->
  d_inv (d_pumps (length ps) d) /\ concat (cs_in (d_c (d_pumps (length ps) d))) = b /\
  d_inq (d_pumps (length ps) d) = d_inq d ++ crtp_of ps.
Proof.
  induction ps as [|p ps IH]; intros d b Hi Hwf Hc; cbn [length d_pumps map concat app] in *.
  - unfold crtp_of. cbn. rewrite app_nil_r. auto.
  - inversion Hwf as [|? ? Hp Hps]; subst. rewrite <- app_assoc in Hc.
    destruct (d_pump_frame d p _ Hi Hp Hc) as (Hi1 & Hc1 & Hq1).
    destruct (IH (d_pump d) b Hi1 Hps Hc1) as (Hi2 & Hc2 & Hq2).
    split; [exact Hi2|]. split; [exact Hc2|]. rewrite Hq2, Hq1, <- app_assoc. f_equal. symmetry. apply crtp_of_cons.
Qed.

(* Downlink, whole driver: after connect, when the stream carries the packets ps under any fragmentation, the
   application's in_queue receives exactly the CRTP-function packets of ps as CRTP packets, in order (other functions
   are not for it, an empty CPX payload carries no CRTP packet), and the stream is consumed. *)
Lemma driver_downlink : forall takes ps s, Forall wf_cpx ps -> concat s = concat (map frame ps) ->
  let d := d_pumps (length ps) (fst (d_connect takes s)) in
  d_inq d = crtp_of ps /\ concat (cs_in (d_c d)) = [] /\ d_inv d.
Proof.
  intros takes ps s Hwf Hc. cbn zeta.
  destruct (d_pumps_stream ps (fst (d_connect takes s)) [] ) as (H1 & H2 & H3); auto.
  - unfold d_connect, d_inv. cbn. auto.
  - cbn. now rewrite app_nil_r.
Qed.

(* receive_packet hands the queued packets out one by one, in order, whatever wait argument is used *)
Lemma driver_receive_in_order : forall takes ks d ws, d_inq d = ks -> length ws = length ks ->
  snd (d_run takes d (map DRecv ws)) = map (fun k => DGot (Some k)) ks.
Proof.
  intros takes. induction ks as [|k ks IH]; intros d ws Hq Hl; destruct ws as [|w ws]; try discriminate; [reflexivity|].
  cbn [map d_run d_step]. rewrite Hq.
  specialize (IH (mk_ds (d_c d) ks (d_up d)) ws eq_refl ltac:(cbn in Hl; lia)).
  destruct (d_run takes (mk_ds (d_c d) ks (d_up d)) (map DRecv ws)) as [d2 o2]. cbn [snd app] in *. now rewrite IH.
Qed.

(* Uplink and connect: connect writes the bridge-enable frame, send_packet writes exactly the frame of
   CPX(HOST->STM32, CRTP, header :: data), whatever part of the buffer each send call takes; after close it fails *)
Lemma driver_uplink : forall takes s h data d, zlen data <= 65532 ->
  snd (d_connect takes s) = Ok [4; 0; 25; 1; 33; 1] /\
  (d_up d = true -> snd (d_step takes d (DSend h data)) = [DSent (Ok (frame (tunnel_tx h data)))]) /\
  snd (d_step takes (fst (d_step takes d DClose)) (DSend h data)) = [DSent (Exc AttributeErr)].
Proof.
  intros takes s h data d Hd. repeat split.
  - unfold d_connect. cbn [snd]. rewrite tx_packet_wf; [reflexivity|].
    unfold wf_cpx, sys_enable, new_cpx. cbn. intuition lia.
  - intros Hup. cbn [d_step snd]. rewrite Hup. now rewrite (tx_packet_wf takes _ (tunnel_tx_wf h data Hd)).
Qed.
