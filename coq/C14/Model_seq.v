(* C14/Model_seq.v — the sequencing layer over the lighthouse images:
   LighthouseMemory's one-request-at-a-time guards, LighthouseMemHelper._ObjectReader / _ObjectWriter
   (cflib/crazyflie/mem/lighthouse_memory.py) and LighthouseConfigWriter
   (cflib/localization/lighthouse_config_manager.py), as state machines over the memory-level events
   (write done / write failed / read data / read failed, persist acknowledgement).
   Objects are carried as their memory images (add_mem_data output).  Definitions only. *)
From CF Require Export Common.Bytes.
From CF Require Import C14.Model C14.Model_lh C14.Model_misc.
Open Scope Z_scope.

Inductive kind := KGeo | KCalib.

Fixpoint zseq (a : Z) (n : nat) : list Z := match n with O => [] | S k => a :: zseq (a + 1) k end.

Definition objs := list (Z * list Z).          (* dict: base station id -> image, insertion ordered *)

(* what the library does to the outside *)
Inductive act :=
| AWrite (k : kind) (id : Z) (img : list Z)     (* LighthouseMemory.write_geo_data / write_calib_data -> mem_handler.write *)
| ASetParam (st : Z)                            (* cf.param.set_value('lighthouse.systemType', st) *)
| APersist (gl cl : list Z)                     (* cf.loc.send_lh_persist_data_packet *)
| ACallback (ok : bool)                         (* data_stored_cb(success) *)
| ARaise (code : Z).                            (* an exception escapes to the caller of the event *)
(* codes: 1 'Write already in prgress' (ConfigWriter), 2 'Write operation not finished' (_ObjectWriter),
   3 'Write operation already ongoing.' (LighthouseMemory), 4 '… BS list is not valid' (persist),
   9 an empty dictionary handed to a writer (the helper completes synchronously; outside the model) *)

Record cws := mk_cws {
  c_armed : bool;                 (* _data_stored_cb is not None *)
  c_geos : option objs;           (* _geos_to_write *)
  c_calibs : option objs;         (* _calibs_to_write *)
  c_gp : list Z; c_cp : list Z;   (* _geos_to_persist, _calibs_to_persist *)
  c_failed : bool;                (* _write_failed_for_one_or_more_objects *)
  w_g : option objs; w_gf : bool; (* helper.geo_writer: _objects_to_write (None = idle), its failed flag *)
  w_c : option objs; w_cf : bool; (* helper.calib_writer *)
  m_w : option kind }.            (* LighthouseMemory._write_finished_cb armed, and for which writer *)

Definition cws_idle : cws := mk_cws false None None [] [] false None false None false None.

Definition w_get (k : kind) (s : cws) : option objs := match k with KGeo => w_g s | KCalib => w_c s end.
Definition w_getf (k : kind) (s : cws) : bool := match k with KGeo => w_gf s | KCalib => w_cf s end.

Definition set_writer (k : kind) (todo : option objs) (f : bool) (s : cws) : cws :=
  match k with
  | KGeo => mk_cws (c_armed s) (c_geos s) (c_calibs s) (c_gp s) (c_cp s) (c_failed s) todo f (w_c s) (w_cf s) (m_w s)
  | KCalib => mk_cws (c_armed s) (c_geos s) (c_calibs s) (c_gp s) (c_cp s) (c_failed s) (w_g s) (w_gf s) todo f (m_w s)
  end.
Definition set_mw (m : option kind) (s : cws) : cws :=
  mk_cws (c_armed s) (c_geos s) (c_calibs s) (c_gp s) (c_cp s) (c_failed s) (w_g s) (w_gf s) (w_c s) (w_cf s) m.
Definition set_failed (f : bool) (s : cws) : cws :=
  mk_cws (c_armed s) (c_geos s) (c_calibs s) (c_gp s) (c_cp s) f (w_g s) (w_gf s) (w_c s) (w_cf s) (m_w s).
Definition set_plan (k : kind) (p : option objs) (s : cws) : cws :=
  match k with
  | KGeo => mk_cws (c_armed s) p (c_calibs s) (c_gp s) (c_cp s) (c_failed s) (w_g s) (w_gf s) (w_c s) (w_cf s) (m_w s)
  | KCalib => mk_cws (c_armed s) (c_geos s) p (c_gp s) (c_cp s) (c_failed s) (w_g s) (w_gf s) (w_c s) (w_cf s) (m_w s)
  end.
Definition set_persist (g c : list Z) (s : cws) : cws :=
  mk_cws (c_armed s) (c_geos s) (c_calibs s) g c (c_failed s) (w_g s) (w_gf s) (w_c s) (w_cf s) (m_w s).
Definition set_armed (a : bool) (s : cws) : cws :=
  mk_cws a (c_geos s) (c_calibs s) (c_gp s) (c_cp s) (c_failed s) (w_g s) (w_gf s) (w_c s) (w_cf s) (m_w s).

Definition is_raise (a : list act) : bool := match a with [ARaise _] => true | _ => false end.

(* _ObjectWriter._write_next_object with a non-empty dictionary: pop the first entry, hand it to LighthouseMemory *)
Definition writer_issue (k : kind) (s : cws) : cws * list act :=
  match w_get k s with
  | Some ((id, img) :: rest) =>
    let s1 := set_writer k (Some rest) (w_getf k s) s in
    match m_w s1 with
    | Some _ => (s1, [ARaise 3])
    | None => (set_mw (Some k) s1, [AWrite k id img])
    end
  | _ => (s, [ARaise 9])
  end.

Definition bs_ok (l : list Z) : bool := forallb (fun x => (0 <=? x) && (x <=? 15)) l.

(* LighthouseConfigWriter._next *)
Definition cw_start_writer (k : kind) (o : objs) (s : cws) : cws * list act :=
  match w_get k s with
  | Some _ => (s, [ARaise 2])
  | None =>
    match o with
    | [] => (s, [ARaise 9])
    | _ => let '(s1, a) := writer_issue k (set_writer k (Some o) false s) in
           if is_raise a then (s1, a) else (set_plan k None s1, a)
    end
  end.

Definition cw_next (s : cws) : cws * list act :=
  match c_geos s with
  | Some g => cw_start_writer KGeo g s
  | None =>
    match c_calibs s with
    | Some c => cw_start_writer KCalib c s
    | None =>
      match c_gp s, c_cp s with
      | [], [] => if c_armed s then (set_armed false s, [ACallback (negb (c_failed s))]) else (s, [])
      | gl, cl => if bs_ok gl && bs_ok cl then (set_persist [] [] s, [APersist gl cl]) else (s, [ARaise 4])
      end
    end
  end.

Definition upload_done (ok : bool) (s : cws) : cws * list act :=
  cw_next (set_failed (c_failed s || negb ok) s).

(* _ObjectWriter._write_next_object after the memory answered *)
Definition writer_after (k : kind) (s : cws) : cws * list act :=
  match w_get k s with
  | Some [] => upload_done (negb (w_getf k s)) (set_writer k None false s)
  | Some _ => writer_issue k s
  | None => (s, [ARaise 8])
  end.

(* _prepare_geos / _prepare_calibs: dict(given), then every id below nr_of_base_stations that is missing gets the
   empty (invalid) object *)
Definition has_key (id : Z) (o : objs) : bool := existsb (fun kv => fst kv =? id) o.
Definition prepare (nr : nat) (empty : list Z) (o : objs) : objs :=
  o ++ map (fun id => (id, empty)) (filter (fun id => negb (has_key id o)) (zseq 0 nr)).

Definition empty_geo_img : list Z := repeat 0 49.       (* LighthouseBsGeometry(): zeros, valid = False *)
Definition empty_calib_img : list Z := repeat 0 61.     (* LighthouseBsCalibration(): zeros, uid 0, valid = False *)

Inductive ev :=
| EStart (geos calibs : option objs) (st : option Z) (nr : nat)   (* write_and_store_config *)
| EWriteDone                                                      (* Memory -> LighthouseMemory.write_done *)
| EWriteFailed                                                    (* Memory -> LighthouseMemory.write_failed *)
| EAck (ok : bool).                                               (* LH_PERSIST_DATA packet, data = result flag (ignored by the code) *)

Definition handle (s : cws) (e : ev) : cws * list act :=
  match e with
  | EStart g c st nr =>
    if c_armed s then (s, [ARaise 1]) else
    let s1 := mk_cws true (option_map (prepare nr empty_geo_img) g) (option_map (prepare nr empty_calib_img) c)
                     (match g with Some _ => zseq 0 nr | None => [] end)
                     (match c with Some _ => zseq 0 nr | None => [] end)
                     false (w_g s) (w_gf s) (w_c s) (w_cf s) (m_w s) in
    let '(s2, a) := cw_next s1 in
    (s2, match st with Some v => [ASetParam v] | None => [] end ++ a)
  | EWriteDone =>
    match m_w s with
    | None => (s, [])                                              (* nothing armed: ignored *)
    | Some k => writer_after k (set_mw None s)
    end
  | EWriteFailed =>
    match m_w s with
    | None => (s, [])
    | Some k => let s1 := set_mw None s in writer_after k (set_writer k (w_get k s1) true s1)
    end
  | EAck ok =>
    (* any LH_PERSIST_DATA packet advances; its result flag (packet.data) is not looked at *)
    cw_next s
  end.

(* the whole trace of a list of events *)
Fixpoint cw_trace (s : cws) (es : list ev) : list (list act) :=
  match es with
  | [] => []
  | e :: t => let '(s', a) := handle s e in a :: cw_trace s' t
  end.

(* ---- a device that answers every request exactly once: write of (k, id) succeeds iff wok k id, the persist
        request is acknowledged with pok ---- *)
Definition answer (wok : kind -> Z -> bool) (pok : bool) (a : list act) : option ev :=
  match last a (ARaise 0) with
  | AWrite k id _ => Some (if wok k id then EWriteDone else EWriteFailed)
  | APersist _ _ => Some (EAck pok)
  | _ => None
  end.

Fixpoint drive (fuel : nat) (wok : kind -> Z -> bool) (pok : bool) (s : cws) (a : list act) : cws * list act :=
  match fuel with
  | O => (s, [])
  | S f =>
    match answer wok pok a with
    | None => (s, [])
    | Some e => let '(s1, a1) := handle s e in
                let '(s2, tr) := drive f wok pok s1 a1 in (s2, a1 ++ tr)
    end
  end.

(* the device memory after a trace: page (k, id) holds the image of the last successful write *)
Definition dev := list (kind * Z * list Z).
Definition kind_eqb (a b : kind) : bool := match a, b with KGeo, KGeo | KCalib, KCalib => true | _, _ => false end.
Definition apply_writes (wok : kind -> Z -> bool) (tr : list act) : dev :=
  flat_map (fun a => match a with AWrite k id img => if wok k id then [(k, id, img)] else [] | _ => [] end) tr.

(* ---------------------------------------------------------------- _ObjectReader over LighthouseMemory *)

Inductive ract :=
| RRead (k : kind) (id : Z)
| RCallback (res : list (Z * lh_obj))
| RRaise (code : Z).
(* codes: 5 'Read operation already ongoing' (LighthouseMemory), 6 'Read operation not finished' (_ObjectReader),
   7 struct.error while decoding (data of the wrong length) *)

Record rds := mk_rds {
  r_armed : bool;                  (* _read_done_cb is not None *)
  r_next : Z;
  r_res : list (Z * lh_obj);
  m_r : bool }.                    (* LighthouseMemory._update_finished_cb armed *)

Definition rds_idle : rds := mk_rds false 0 [] false.

Definition page_addr (k : kind) (id : Z) : Z :=
  match k with KGeo => fst (lh_read_geo id) | KCalib => fst (lh_read_calib id) end.

Definition rd_get (k : kind) (s : rds) : rds * list ract :=
  if r_next s <? 16 then
    if m_r s then (s, [RRaise 5]) else (mk_rds (r_armed s) (r_next s) (r_res s) true, [RRead k (r_next s)])
  else (mk_rds false 0 [] (m_r s), [RCallback (r_res s)]).

Inductive revt := RStart | RData (d : list Z) | RFailed.

Definition rhandle (k : kind) (s : rds) (e : revt) : rds * list ract :=
  match e with
  | RStart => if r_armed s then (s, [RRaise 6]) else rd_get k (mk_rds true 0 [] (m_r s))
  | RData d =>
    if m_r s then
      match lh_new_data (page_addr k (r_next s)) d with
      | LStructError => (mk_rds (r_armed s) (r_next s) (r_res s) false, [RRaise 7])
      | o => rd_get k (mk_rds (r_armed s) (r_next s + 1) (r_res s ++ [(r_next s, o)]) false)
      end
    else
      (* nothing armed: new_data still decodes before it looks for the callback *)
      match lh_new_data (page_addr k (r_next s)) d with
      | LStructError => (s, [RRaise 7])
      | _ => (s, [])
      end
  | RFailed =>
    if m_r s then rd_get k (mk_rds (r_armed s) (r_next s + 1) (r_res s) false) else (s, [])
  end.

Fixpoint rd_trace (k : kind) (s : rds) (es : list revt) : list (list ract) :=
  match es with
  | [] => []
  | e :: t => let '(s', a) := rhandle k s e in a :: rd_trace k s' t
  end.

(* a device that answers each of the 16 reads once: Some image, or None = the read fails *)
Fixpoint rdrive (fuel : nat) (k : kind) (devr : Z -> option (list Z)) (s : rds) (a : list ract) : rds * list ract :=
  match fuel with
  | O => (s, [])
  | S f =>
    match last a (RRaise 0) with
    | RRead _ id =>
      let '(s1, a1) := rhandle k s (match devr id with Some d => RData d | None => RFailed end) in
      let '(s2, tr) := rdrive f k devr s1 a1 in (s2, a1 ++ tr)
    | _ => (s, [])
    end
  end.

Definition read_all_expected (k : kind) (devr : Z -> option (list Z)) (ids : list Z) : list (Z * lh_obj) :=
  flat_map (fun id => match devr id with Some d => [(id, lh_new_data (page_addr k id) d)] | None => [] end) ids.
