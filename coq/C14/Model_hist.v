(* C14/Model_hist.v — histories on ONE element object: what persists in I2CElement / OWElement between
   operations (valid, the pending update callback, the elements dictionary, the parsed header) and how
   update() / write_data() / disconnect() move it, against a device image that may change in between.
   Definitions only.  The per-image parsers of Model.v are the special case "fresh object". *)
From CF Require Export Common.Bytes.
From CF Require Import C14.Model.
Open Scope Z_scope.

(* write at address 0 of a byte-array device *)
Definition splice (img mem : list Z) : list Z := img ++ skipn (length img) mem.

(* ---------------------------------------------------------------- I2CElement *)

Record ist := mk_ist {
  is_valid : bool;
  is_pending : bool;                  (* _update_finished_cb is set: a read has not completed *)
  is_elems : option i2c_fields;       (* the elements dict: None = {}, i_addr = None = no 'radio_address' key *)
  is_cbs : Z }.                       (* update callbacks delivered so far *)

Definition ist_init : ist := mk_ist false false None 0.

Definition old_addr (e : option i2c_fields) : option Z :=
  match e with Some f => i_addr f | None => None end.

(* update(cb) followed by the device serving the reads.  Result: new state, number of read requests.
   - a pending earlier update makes update() do nothing at all;
   - otherwise valid is reset to False first, and only a completed read with matching checksum sets it;
   - the five header fields overwrite the dictionary; 'radio_address' is written by a version-1 read, removed by
     a version-0 read (F14e repaired) and left alone by an unknown version (valid is False then);
   - unknown version: valid False, callback delivered (F14c repaired);
   - failed read request (device error): nothing more happens, the callback stays pending *)
Definition i2c_update (st : ist) (mem : list Z) : ist * Z :=
  if is_pending st then (st, 0) else
  match read mem 0 16 with
  | None => (mk_ist false true (is_elems st) (is_cbs st), 1)
  | Some d =>
    if zlist_eqb (firstn 4 d) token then
      let h := i2c_hdr_fields d in
      let f := mk_i2c (i_version h) (i_channel h) (i_speed h) (i_pitch h) (i_roll h) (old_addr (is_elems st)) in
      if i_version h =? 0 then
        (* F14e repaired: a version-0 read removes 'radio_address' *)
        (mk_ist (sum256 (firstn 15 d) =? nthz 15 d) false (Some h) (is_cbs st + 1), 1)
      else if i_version h =? 1 then
        match read mem 16 5 with
        | None => (mk_ist false true (Some f) (is_cbs st), 2)
        | Some d2 =>
          let a := Z.lor (Z.shiftl (nthz 15 d) 32) (le_val (firstn 4 d2)) in
          let all := d ++ d2 in
          (mk_ist (sum256 (firstn 20 all) =? nthz 20 all) false
                  (Some (mk_i2c (i_version h) (i_channel h) (i_speed h) (i_pitch h) (i_roll h) (Some a)))
                  (is_cbs st + 1), 2)
        end
      else (mk_ist false false (Some f) (is_cbs st + 1), 1)   (* F14c repaired: unknown version finishes the update *)
    else (mk_ist false false (is_elems st) (is_cbs st + 1), 1)
  end.

Inductive iop :=
| IUpdate
| IWrite (f : i2c_fields)            (* element.elements = {...}; element.write_data(cb) *)
| ICorrupt (p : nat) (v : Z)         (* the device image changes under the library *)
| ISetMem (m : list Z)
| IDisconnect.

(* one operation: (state, device) -> (state, device, number of reads | 1 write accepted | -1 write raised) *)
Definition i2c_step (s : ist * list Z) (o : iop) : ist * list Z * Z :=
  let '(st, mem) := s in
  match o with
  | IUpdate => let '(st', n) := i2c_update st mem in (st', mem, n)
  | IWrite f =>
    let st' := mk_ist (is_valid st) (is_pending st) (Some f) (is_cbs st) in
    match i2c_write f with
    | Some img => (st', splice img mem, 1)
    | None => (st', mem, -1)
    end
  | ICorrupt p v => (st, upd p v mem, 0)
  | ISetMem m => (st, m, 0)
  | IDisconnect => (mk_ist (is_valid st) false (is_elems st) (is_cbs st), mem, 0)
  end.

Definition i2c_step' (s : ist * list Z) (o : iop) : ist * list Z := fst (i2c_step s o).

Definition i2c_run (ops : list iop) : ist * list Z := fold_left i2c_step' ops (ist_init, []).

(* the observation after every operation, for the correspondence check *)
Fixpoint i2c_trace (s : ist * list Z) (ops : list iop) : list (ist * Z) :=
  match ops with
  | [] => []
  | o :: t => let r := i2c_step s o in (fst (fst r), snd r) :: i2c_trace (fst r) t
  end.

(* ---------------------------------------------------------------- OWElement *)

Record ost := mk_ost {
  os_valid : bool;
  os_pending : bool;
  os_hdr : option (Z * Z * Z);        (* pins, vid, pid: None until a header was parsed or assigned *)
  os_elems : dict;                    (* replaced by every read whose area CRC matches (F14d repaired) *)
  os_cbs : Z }.

Definition ost_init : ost := mk_ost false false None [] 0.

(* _parse_and_check_elements on an object whose dictionary already holds d0 *)
Definition ow_check_from (d0 : dict) (data : list Z) : bool * dict * option pyexc :=
  let body := removelast data in
  if crc8 body =? last data 0 then
    (* F14d repaired: a matching area CRC starts from an empty dictionary *)
    let '(d, e) := ow_elems (length body) (skipn 2 body) [] in
    (match e with None => true | Some _ => false end, d, e)
  else (false, d0, None).

(* update(cb) + the device serving the reads: new state, read requests, exception that escaped new_data *)
Definition ow_update (st : ost) (mem : list Z) : ost * Z * option pyexc :=
  if os_pending st then (st, 0, None) else
  match read mem 0 11 with
  | None => (mk_ost false true (os_hdr st) (os_elems st) (os_cbs st), 1, None)
  | Some d =>
    let hdr := Some (le_val (slice d 1 5), nthz 5 d, nthz 6 d) in
    if (nthz 0 d =? 235) && (nthz 7 d =? crc8 (firstn 7 d)) then
      match read mem 8 (Z.to_nat (nthz 9 d) + 3) with
      | None => (mk_ost false true hdr (os_elems st) (os_cbs st), 2, None)
      | Some d2 =>
        let '(ok, els, e) := ow_check_from (os_elems st) d2 in
        match e with
        | Some x => (mk_ost false true hdr els (os_cbs st), 2, Some x)
        | None => (mk_ost ok false hdr els (os_cbs st + 1), 2, None)
        end
      end
    else (mk_ost false false hdr (os_elems st) (os_cbs st + 1), 1, None)
  end.

Inductive oop :=
| OUpdate
| OWrite (pins vid pid : Z) (els : dict)   (* assign pins/vid/pid/elements, then write_data(cb) *)
| OCorrupt (p : nat) (v : Z)
| OSetMem (m : list Z)
| ODisconnect.

Definition ow_step (s : ost * list Z) (o : oop) : ost * list Z * Z * option pyexc :=
  let '(st, mem) := s in
  match o with
  | OUpdate => let '(st', n, e) := ow_update st mem in (st', mem, n, e)
  | OWrite pins vid pid els =>
    let st' := mk_ost (os_valid st) (os_pending st) (Some (pins, vid, pid)) els (os_cbs st) in
    match ow_write pins vid pid els with
    | Some img => (st', splice img mem, 1, None)
    | None => (st', mem, -1, None)
    end
  | OCorrupt p v => (st, upd p v mem, 0, None)
  | OSetMem m => (st, m, 0, None)
  | ODisconnect => (mk_ost (os_valid st) false (os_hdr st) (os_elems st) (os_cbs st), mem, 0, None)
  end.

Definition ow_step' (s : ost * list Z) (o : oop) : ost * list Z := fst (fst (ow_step s o)).
Definition ow_run (ops : list oop) : ost * list Z := fold_left ow_step' ops (ost_init, []).

Fixpoint ow_trace (s : ost * list Z) (ops : list oop) : list (ost * Z * option pyexc) :=
  match ops with
  | [] => []
  | o :: t => let r := ow_step s o in (fst (fst (fst r)), snd (fst r), snd r) :: ow_trace (fst (fst r)) t
  end.
