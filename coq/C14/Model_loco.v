(* C14/Model_loco.v — histories on ONE LocoMemory2 object (cflib/crazyflie/mem/loco_memory_2.py):
   update_id_list / update_active_id_list / update_data in any order, any number of rounds, the device content
   changing or not in between.  The parsed lists are VALUES: a field is written only by the step that owns it.
   Definitions only. *)
From CF Require Export Common.Bytes.
From CF Require Import C14.Model C14.Model_lh C14.Model_misc.
Open Scope Z_scope.

Record l2dev := mk_l2dev {
  dv_idl : list Z;                     (* 17 bytes at 0x0000: count, ids *)
  dv_act : list Z;                     (* 17 bytes at 0x1000 *)
  dv_pages : list (Z * list Z) }.      (* 13-byte page of anchor id at 0x2000 + 0x100*id *)

Record l2s := mk_l2s {
  l2_ids : list Z; l2_act : list Z; l2_data : list (Z * anchor); l2_nr : Z;
  l2_idsv : bool; l2_actv : bool; l2_datav : bool;
  l2_cbs : Z }.                        (* callbacks delivered so far *)

Definition l2_init : l2s := mk_l2s [] [] [] 0 false false false 0.

Inductive l2op := LIds | LAct | LData | LSetDev (d : l2dev).

(* one step: new state and the read requests it issued; None = outside the model (an id list that is not 17
   bytes, a missing or malformed page).  A count byte above 16 takes the 16 ids read (loco2_ids). *)
Definition l2_step (s : l2s) (d : l2dev) (o : l2op) : option (l2s * l2dev * list (Z * Z)) :=
  match o with
  | LSetDev d' => Some (s, d', [])
  | LIds =>
    (* update_id_list: ids, active ids, anchor data, nr, ids_valid, data_valid are reset (active_ids_valid is not) *)
    match loco2_ids (dv_idl d) with
    | IL_Ok ids => Some (mk_l2s ids [] [] (Z.of_nat (length ids)) true (l2_actv s) false (l2_cbs s + 1), d, [(0, 17)])
    | _ => None
    end
  | LAct =>
    match loco2_ids (dv_act d) with
    | IL_Ok a => Some (mk_l2s (l2_ids s) a (l2_data s) (l2_nr s) (l2_idsv s) true (l2_datav s) (l2_cbs s + 1), d, [(4096, 17)])
    | _ => None
    end
  | LData =>
    if 0 <? l2_nr s then
      match loco2_data (l2_ids s) (dv_pages d) [] [] with
      | Some (rq, dd) => Some (mk_l2s (l2_ids s) (l2_act s) dd (l2_nr s) (l2_idsv s) (l2_actv s) true (l2_cbs s + 1), d, rq)
      | None => None
      end
    else Some (s, d, [])                       (* nr_of_anchors = 0: update_data does nothing *)
  end.

Fixpoint l2_trace (s : l2s) (d : l2dev) (ops : list l2op) : list (option (l2s * list (Z * Z))) :=
  match ops with
  | [] => []
  | o :: t => match l2_step s d o with
              | Some (s', d', rq) => Some (s', rq) :: l2_trace s' d' t
              | None => [None]
              end
  end.

Fixpoint l2_run (s : l2s) (d : l2dev) (ops : list l2op) : option (l2s * l2dev) :=
  match ops with
  | [] => Some (s, d)
  | o :: t => match l2_step s d o with
              | Some (s', d', _) => l2_run s' d' t
              | None => None
              end
  end.

(* the variant of seed C14-g, for the refutation example: the fetch queue is the parsed id list itself, so fetching
   the pages drains anchor_ids *)
Definition l2_step_aliased (s : l2s) (d : l2dev) (o : l2op) : option (l2s * l2dev * list (Z * Z)) :=
  match o, l2_step s d o with
  | LData, Some (s', d', rq) =>
    if 0 <? l2_nr s then Some (mk_l2s [] (l2_act s') (l2_data s') (l2_nr s') (l2_idsv s') (l2_actv s') (l2_datav s') (l2_cbs s'), d', rq)
    else Some (s', d', rq)
  | _, r => r
  end.
