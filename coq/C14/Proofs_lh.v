(* C14/Proofs_lh.v — lighthouse memory layouts, file objects, YAML file managers. *)
From CF Require Import Common.Bytes C14.Model C14.Model_lh C14.Proofs_i2c.
From Coq Require Import ZifyBool.
Open Scope Z_scope.
Ltac Zify.zify_post_hook ::= Z.to_euclidean_division_equations.

(* ---- 32-bit field lists ---- *)

Lemma pack32_length fs : length (pack32 fs) = (4 * length fs)%nat.
Proof.
  unfold pack32. induction fs as [|f fs IH]; [reflexivity|].
  cbn [map concat length]. rewrite app_length, le_bytes_length, IH. lia.
Qed.

Lemma all32b_spec fs : all32b fs = true <-> all32 fs.
Proof.
  unfold all32b, all32. rewrite forallb_forall, Forall_forall.
  split; intros H x Hx; specialize (H x Hx); lia.
Qed.

Lemma firstn4_le f (X : list Z) : firstn 4 (le_bytes 4 f ++ X) = le_bytes 4 f.
Proof. rewrite le_bytes4_explicit. reflexivity. Qed.
Lemma skipn4_le f (X : list Z) : skipn 4 (le_bytes 4 f ++ X) = X.
Proof. rewrite le_bytes4_explicit. reflexivity. Qed.

Lemma unpack32_pack32 fs rest : all32 fs -> unpack32 (length fs) (pack32 fs ++ rest) = fs.
Proof.
  induction 1 as [|f fs Hf _ IH]; [reflexivity|].
  unfold pack32 in *. cbn [map concat length unpack32]. rewrite <- app_assoc.
  rewrite firstn4_le, skipn4_le, IH. rewrite le_val4 by exact Hf. reflexivity.
Qed.

(* field k sits at bytes 4k .. 4k+3 *)
Lemma pack32_slice : forall fs k rest, (k < length fs)%nat ->
  slice (pack32 fs ++ rest) (4 * k) (4 * k + 4) = le_bytes 4 (nth k fs 0).
Proof.
  unfold slice. induction fs as [|f fs IH]; intros k rest Hk; cbn [length] in Hk; [lia|].
  unfold pack32 in *. cbn [map concat]. rewrite <- app_assoc.
  replace (4 * k + 4 - 4 * k)%nat with 4%nat by lia.
  destruct k as [|k].
  - cbn [Nat.mul skipn nth]. apply firstn4_le.
  - replace (4 * S k)%nat with (4 + 4 * k)%nat by lia.
    assert (S : forall n (l : list Z), skipn (4 + n) l = skipn n (skipn 4 l)).
    { intros n l. do 4 (destruct l as [|? l]; [now rewrite !skipn_nil|]). reflexivity. }
    rewrite S, skipn4_le. cbn [nth].
    specialize (IH k rest). replace (4 * k + 4 - 4 * k)%nat with 4%nat in IH by lia. apply IH. lia.
Qed.

Lemma nthz_app_end (A : list Z) x : nthz (length A) (A ++ [x]) = x.
Proof. unfold nthz. rewrite app_nth2 by lia. now rewrite Nat.sub_diag. Qed.

Lemma nthz_app_end' (A : list Z) x n : length A = n -> nthz n (A ++ [x]) = x.
Proof. intros <-. apply nthz_app_end. Qed.

Lemma unpack32_pack32' fs rest n : length fs = n -> all32 fs -> unpack32 n (pack32 fs ++ rest) = fs.
Proof. intros <-. apply unpack32_pack32. Qed.

Lemma negb_b2z v : negb (b2z v =? 0) = v.
Proof. destruct v; reflexivity. Qed.

(* ---- geometry ---- *)

Definition geo_wf (g : lh_geo) : Prop := length (g_floats g) = 12%nat /\ all32 (g_floats g).

Lemma geo_pack_wf g : geo_wf g -> geo_pack g = Some (pack32 (g_floats g) ++ [b2z (g_valid g)]).
Proof.
  intros [L A]. unfold geo_pack. rewrite L. apply all32b_spec in A. rewrite A. reflexivity.
Qed.

Lemma geo_roundtrip : forall g, geo_wf g ->
  exists d, geo_pack g = Some d /\ length d = 49%nat /\ geo_unpack d = Some g.
Proof.
  intros [fs v] Hwf. rewrite (geo_pack_wf _ Hwf). destruct Hwf as [L A]. cbn [g_floats g_valid] in *.
  eexists. split; [reflexivity|].
  assert (Len : length (pack32 fs ++ [b2z v]) = 49%nat).
  { rewrite app_length, pack32_length, L. reflexivity. }
  split; [exact Len|]. unfold geo_unpack. rewrite Len. cbn [Nat.eqb].
  rewrite (unpack32_pack32' fs _ 12 L A).
  rewrite (nthz_app_end' (pack32 fs) _ 48) by (rewrite pack32_length, L; reflexivity).
  rewrite negb_b2z. reflexivity.
Qed.

Lemma geo_layout : forall g d, geo_wf g -> geo_pack g = Some d ->
  length d = 49%nat /\
  (forall k, (k < 12)%nat -> slice d (4 * k) (4 * k + 4) = le_bytes 4 (nth k (g_floats g) 0)) /\
  nthz 48 d = b2z (g_valid g).
Proof.
  intros [fs v] d Hwf P. rewrite (geo_pack_wf _ Hwf) in P. injection P as <-.
  destruct Hwf as [L A]. cbn [g_floats g_valid] in *.
  split; [rewrite app_length, pack32_length, L; reflexivity|]. split.
  - intros k Hk. apply pack32_slice. lia.
  - apply nthz_app_end'. rewrite pack32_length, L. reflexivity.
Qed.

(* ---- calibration ---- *)

Definition calib_wf (c : lh_calib) : Prop :=
  length (c_floats c) = 14%nat /\ all32 (c_floats c) /\ 0 <= c_uid c < 2 ^ 32.

Lemma calib_pack_wf c : calib_wf c ->
  calib_pack c = Some (pack32 (c_floats c) ++ le_bytes 4 (c_uid c) ++ [b2z (c_valid c)]).
Proof.
  intros (L & A & U). unfold calib_pack. rewrite L. apply all32b_spec in A. rewrite A.
  replace ((14 =? 14)%nat && true && (0 <=? c_uid c) && (c_uid c <? 2 ^ 32)) with true by lia. reflexivity.
Qed.

Lemma skipn_len_app (A B : list Z) n : length A = n -> skipn n (A ++ B) = B.
Proof. intros <-. apply skipn_app_exact. Qed.

Lemma calib_roundtrip : forall c, calib_wf c ->
  exists d, calib_pack c = Some d /\ length d = 61%nat /\ calib_unpack d = Some c.
Proof.
  intros [fs uid v] Hwf. rewrite (calib_pack_wf _ Hwf). destruct Hwf as (L & A & U).
  cbn [c_floats c_uid c_valid] in *.
  eexists. split; [reflexivity|].
  assert (LP : length (pack32 fs) = 56%nat) by (rewrite pack32_length, L; reflexivity).
  assert (Len : length (pack32 fs ++ le_bytes 4 uid ++ [b2z v]) = 61%nat).
  { rewrite !app_length, LP, le_bytes_length. reflexivity. }
  split; [exact Len|]. unfold calib_unpack. rewrite Len. cbn [Nat.eqb].
  rewrite (unpack32_pack32' fs _ 14 L A).
  unfold slice. rewrite (skipn_len_app _ _ 56 LP). cbn [Nat.sub].
  rewrite firstn4_le, le_val4 by exact U.
  replace (pack32 fs ++ le_bytes 4 uid ++ [b2z v]) with ((pack32 fs ++ le_bytes 4 uid) ++ [b2z v])
    by now rewrite app_assoc.
  rewrite (nthz_app_end' (pack32 fs ++ le_bytes 4 uid) _ 60)
    by (rewrite app_length, LP, le_bytes_length; reflexivity).
  rewrite negb_b2z. reflexivity.
Qed.

Lemma calib_layout : forall c d, calib_wf c -> calib_pack c = Some d ->
  length d = 61%nat /\
  (forall k, (k < 14)%nat -> slice d (4 * k) (4 * k + 4) = le_bytes 4 (nth k (c_floats c) 0)) /\
  slice d 56 60 = le_bytes 4 (c_uid c) /\ nthz 60 d = b2z (c_valid c).
Proof.
  intros [fs uid v] d Hwf P. rewrite (calib_pack_wf _ Hwf) in P.
  assert (E : d = pack32 (c_floats (mk_calib fs uid v)) ++ le_bytes 4 (c_uid (mk_calib fs uid v))
                  ++ [b2z (c_valid (mk_calib fs uid v))]) by congruence.
  subst d. clear P.
  destruct Hwf as (L & A & U). cbn [c_floats c_uid c_valid] in *.
  assert (LP : length (pack32 fs) = 56%nat) by (rewrite pack32_length, L; reflexivity).
  split; [rewrite !app_length, LP, le_bytes_length; reflexivity|]. split; [|split].
  - intros k Hk. apply pack32_slice. lia.
  - unfold slice. rewrite (skipn_len_app _ _ 56 LP). cbn [Nat.sub].
    apply firstn4_le.
  - replace (pack32 fs ++ le_bytes 4 uid ++ [b2z v]) with ((pack32 fs ++ le_bytes 4 uid) ++ [b2z v])
      by now rewrite app_assoc.
    apply nthz_app_end'. rewrite app_length, LP, le_bytes_length. reflexivity.
Qed.

(* ---- through the memory: what is written at the address of base station bs is what a read of
        base station bs requests and decodes ---- *)

Lemma lh_mem_roundtrip_geo : forall bs g, 0 <= bs < 16 -> geo_wf g ->
  exists d, lh_write_geo bs g = Some (fst (lh_read_geo bs), d) /\
            Z.of_nat (length d) = snd (lh_read_geo bs) /\
            lh_new_data (fst (lh_read_geo bs)) d = LGeo g.
Proof.
  intros bs g Hbs Hwf. destruct (geo_roundtrip g Hwf) as (d & P & L & U).
  exists d. unfold lh_write_geo, lh_read_geo, lh_new_data. rewrite P. cbn [fst snd].
  split; [reflexivity|]. split; [rewrite L; reflexivity|].
  unfold GEO_START, CALIB_START, PAGE. replace (0 + bs * 256 <? 4096) with true by lia.
  rewrite U. reflexivity.
Qed.

Lemma lh_mem_roundtrip_calib : forall bs c, 0 <= bs < 16 -> calib_wf c ->
  exists d, lh_write_calib bs c = Some (fst (lh_read_calib bs), d) /\
            Z.of_nat (length d) = snd (lh_read_calib bs) /\
            lh_new_data (fst (lh_read_calib bs)) d = LCalib c.
Proof.
  intros bs c Hbs Hwf. destruct (calib_roundtrip c Hwf) as (d & P & L & U).
  exists d. unfold lh_write_calib, lh_read_calib, lh_new_data. rewrite P. cbn [fst snd].
  split; [reflexivity|]. split; [rewrite L; reflexivity|].
  unfold CALIB_START, PAGE. replace (4096 + bs * 256 <? 4096) with false by lia.
  rewrite U. reflexivity.
Qed.

(* ---- file objects ---- *)

Lemma geo_file_object_roundtrip g :
  geo_from_file_object (geo_file_object g) = Some (mk_fgeo (fg_origin g) (fg_rot g) true).
Proof. reflexivity. Qed.

Lemma sweep_file_object_roundtrip vals : length vals = 7%nat ->
  sweep_from_file_object (sweep_file_object vals) = Some vals.
Proof.
  intros L. do 7 (destruct vals as [|? vals]; [discriminate|]). destruct vals; [|discriminate].
  reflexivity.
Qed.

Lemma calib_file_object_roundtrip c : length (fc_s0 c) = 7%nat -> length (fc_s1 c) = 7%nat ->
  calib_from_file_object (calib_file_object c) = Some (mk_fcalib (fc_s0 c) (fc_s1 c) (fc_uid c) true).
Proof.
  intros L0 L1. unfold calib_from_file_object, calib_file_object.
  change (ydict_get (YStr "sweeps") _) with (Some (YList [sweep_file_object (fc_s0 c); sweep_file_object (fc_s1 c)])).
  cbv iota. rewrite (sweep_file_object_roundtrip _ L0), (sweep_file_object_roundtrip _ L1). reflexivity.
Qed.

Lemma conv_items_map {A B} (f : yv -> option B) (enc : A -> yv) (dec : A -> B) (l : list (yv * A)) :
  (forall x, In x l -> f (enc (snd x)) = Some (dec (snd x))) ->
  conv_items f (YDict (map (fun kx => (fst kx, enc (snd kx))) l)) = Some (map (fun kx => (fst kx, dec (snd kx))) l).
Proof.
  unfold conv_items. induction l as [|x l IH]; intros H; [reflexivity|].
  cbn [map opt_all fst snd]. rewrite (H x (or_introl eq_refl)).
  rewrite IH; [reflexivity|]. intros y Hy. apply H. right. exact Hy.
Qed.

Definition geo_as_read (g : fgeo) : fgeo := mk_fgeo (fg_origin g) (fg_rot g) true.
Definition calib_as_read (c : fcalib) : fcalib := mk_fcalib (fc_s0 c) (fc_s1 c) (fc_uid c) true.
Definition calibs_wf (calibs : list (yv * fcalib)) : Prop :=
  forall kc, In kc calibs -> length (fc_s0 (snd kc)) = 7%nat /\ length (fc_s1 (snd kc)) = 7%nat.

Lemma lh_file_data_roundtrip geos calibs st : calibs_wf calibs ->
  lh_file_read (lh_file_data geos calibs st) =
  LF_Ok (map (fun kg => (fst kg, geo_as_read (snd kg))) (filter (fun kg => fg_valid (snd kg)) geos))
        (map (fun kc => (fst kc, calib_as_read (snd kc))) (filter (fun kc => fc_valid (snd kc)) calibs))
        st.
Proof.
  intros Hc. unfold lh_file_read, lh_file_data.
  cbn [ydict_get yv_eqb String.eqb Ascii.eqb Bool.eqb LH_TYPE LH_VERSION negb].
  rewrite (conv_items_map geo_from_file_object geo_file_object geo_as_read).
  2:{ intros x _. apply geo_file_object_roundtrip. }
  rewrite (conv_items_map calib_from_file_object calib_file_object calib_as_read).
  2:{ intros x Hx. apply filter_In in Hx as [Hx _]. destruct (Hc x Hx) as [L0 L1].
      apply calib_file_object_roundtrip; assumption. }
  reflexivity.
Qed.

Lemma param_file_data_roundtrip params : param_file_read (param_file_data params) = PF_Ok params.
Proof.
  unfold param_file_read, param_file_data.
  cbn [ydict_get yv_eqb String.eqb Ascii.eqb Bool.eqb PARAM_TYPE LH_VERSION negb].
  rewrite (conv_items_map pstate_from
             (fun p => YDict [(YStr "is_stored", p_is_stored p); (YStr "default_value", p_default p);
                              (YStr "stored_value", p_stored p)]) (fun p => p)).
  - f_equal. induction params as [|[k [a b c]] l IH]; [reflexivity|]. cbn [map fst snd]. now rewrite IH.
  - intros [k [a b c]] _. reflexivity.
Qed.

(* ---- memory object -> file object -> memory object ---- *)

Lemma filter_map_comm {A B} (f : B -> bool) (g : A -> B) (l : list A) :
  filter f (map g l) = map g (filter (fun x => f (g x)) l).
Proof. induction l as [|x l IH]; [reflexivity|]. cbn [map filter]. destruct (f (g x)); cbn [map]; now rewrite IH. Qed.

Lemma geo_cross (w n : Z -> Z) : forall g, length (g_floats g) = 12%nat ->
  Forall (fun b => n (w b) = b) (g_floats g) ->
  geo_mem_of_obj n (geo_as_read (geo_obj_of_mem w g)) = Some (mk_geo (g_floats g) true).
Proof.
  intros [fs v] L F. cbn [g_floats g_valid] in *.
  do 12 (destruct fs as [|? fs]; [discriminate|]). destruct fs; [|discriminate]. clear L.
  repeat match goal with H : Forall _ (_ :: _) |- _ => inversion H; subst; clear H end.
  unfold geo_mem_of_obj, geo_as_read, geo_obj_of_mem, vec3_of, narrow_all, yfl, slice.
  cbn [g_floats g_valid fg_origin fg_rot fg_valid firstn skipn Nat.sub map opt_all app].
  repeat match goal with H : n (w _) = _ |- _ => rewrite H; clear H end.
  reflexivity.
Qed.

Lemma calib_cross (w n : Z -> Z) : forall c, length (c_floats c) = 14%nat ->
  Forall (fun b => n (w b) = b) (c_floats c) ->
  calib_mem_of_obj n (calib_as_read (calib_obj_of_mem w c)) = Some (mk_calib (c_floats c) (c_uid c) true).
Proof.
  intros [fs u v] L F. cbn [c_floats c_uid c_valid] in *.
  do 14 (destruct fs as [|? fs]; [discriminate|]). destruct fs; [|discriminate]. clear L.
  repeat match goal with H : Forall _ (_ :: _) |- _ => inversion H; subst; clear H end.
  unfold calib_mem_of_obj, calib_as_read, calib_obj_of_mem, narrow_all.
  cbn [c_floats c_uid c_valid fc_s0 fc_s1 fc_uid fc_valid firstn skipn map opt_all app length Nat.eqb andb].
  repeat match goal with H : n (w _) = _ |- _ => rewrite H; clear H end.
  reflexivity.
Qed.

Lemma calib_obj_lengths w c : length (c_floats c) = 14%nat ->
  length (fc_s0 (calib_obj_of_mem w c)) = 7%nat /\ length (fc_s1 (calib_obj_of_mem w c)) = 7%nat.
Proof.
  intros L. unfold calib_obj_of_mem. cbn [fc_s0 fc_s1]. rewrite !map_length, firstn_length, skipn_length, L. split; reflexivity.
Qed.

(* ---- with the YAML library as a hypothesis ---- *)

Section YamlFiles.
  Variable file : Type.
  Variable yaml_dump : yv -> file.
  Variable yaml_safe_load : file -> option yv.
  Hypothesis yaml_load_dump : forall d, yv_plain d = true -> yaml_safe_load (yaml_dump d) = Some d.

  Definition lh_cfg_write geos calibs st : file := yaml_dump (lh_file_data geos calibs st).
  Definition lh_cfg_read (f : file) : lh_file_res :=
    match yaml_safe_load f with Some d => lh_file_read d | None => LF_Err ErrShape end.
  Definition param_cfg_write params : file := yaml_dump (param_file_data params).
  Definition param_cfg_read (f : file) : param_file_res :=
    match yaml_safe_load f with Some d => param_file_read d | None => PF_Err ErrShape end.

  Lemma lh_cfg_roundtrip geos calibs st : calibs_wf calibs -> yv_plain (lh_file_data geos calibs st) = true ->
    lh_cfg_read (lh_cfg_write geos calibs st) =
    LF_Ok (map (fun kg => (fst kg, geo_as_read (snd kg))) (filter (fun kg => fg_valid (snd kg)) geos))
          (map (fun kc => (fst kc, calib_as_read (snd kc))) (filter (fun kc => fc_valid (snd kc)) calibs))
          st.
  Proof.
    intros H Pl. unfold lh_cfg_read, lh_cfg_write. rewrite (yaml_load_dump _ Pl). now apply lh_file_data_roundtrip.
  Qed.

  Lemma param_cfg_roundtrip params : yv_plain (param_file_data params) = true ->
    param_cfg_read (param_cfg_write params) = PF_Ok params.
  Proof. intros Pl. unfold param_cfg_read, param_cfg_write. rewrite (yaml_load_dump _ Pl). apply param_file_data_roundtrip. Qed.

  (* memory images -> objects -> configuration file -> objects -> memory images: every base station whose image
     is marked valid comes back with exactly the same 12 (14) float fields (and uid), marked valid; w / n are
     struct's binary32 <-> Python float conversions, exact on the values involved *)
  Variable w n : Z -> Z.

  Lemma lh_geo_mem_file_mem (geos : list (yv * lh_geo)) st :
    (forall kg, In kg geos -> length (g_floats (snd kg)) = 12%nat /\ Forall (fun b => n (w b) = b) (g_floats (snd kg))) ->
    let objs := map (fun kg => (fst kg, geo_obj_of_mem w (snd kg))) geos in
    yv_plain (lh_file_data objs [] st) = true ->
    exists back, lh_cfg_read (lh_cfg_write objs [] st) = LF_Ok back [] st /\
      map (fun ko => (fst ko, geo_mem_of_obj n (snd ko))) back =
      map (fun kg => (fst kg, Some (snd kg))) (filter (fun kg => g_valid (snd kg)) geos).
  Proof.
    intros H objs Pl. eexists. split.
    - apply lh_cfg_roundtrip; [intros kc []|exact Pl].
    - unfold objs. rewrite filter_map_comm, !map_map.
      change (filter (fun x : yv * lh_geo => fg_valid (snd (fst x, geo_obj_of_mem w (snd x)))) geos)
        with (filter (fun kg : yv * lh_geo => g_valid (snd kg)) geos).
      apply map_ext_in. intros [k g] Hin. apply filter_In in Hin as [Hin V]. cbn [fst snd] in *.
      destruct (H (k, g) Hin) as [L F]. cbn [snd] in L, F. rewrite (geo_cross w n g L F).
      destruct g as [fs v]. cbn [g_valid g_floats] in *. subst v. reflexivity.
  Qed.

  Lemma lh_calib_mem_file_mem (calibs : list (yv * lh_calib)) st :
    (forall kc, In kc calibs -> length (c_floats (snd kc)) = 14%nat /\ Forall (fun b => n (w b) = b) (c_floats (snd kc))) ->
    let objs := map (fun kc => (fst kc, calib_obj_of_mem w (snd kc))) calibs in
    yv_plain (lh_file_data [] objs st) = true ->
    exists back, lh_cfg_read (lh_cfg_write [] objs st) = LF_Ok [] back st /\
      map (fun ko => (fst ko, calib_mem_of_obj n (snd ko))) back =
      map (fun kc => (fst kc, Some (snd kc))) (filter (fun kc => c_valid (snd kc)) calibs).
  Proof.
    intros H objs Pl. eexists. split.
    - apply lh_cfg_roundtrip; [|exact Pl]. intros kc Hin. unfold objs in Hin. apply in_map_iff in Hin as (x & <- & Hx).
      cbn [snd]. apply calib_obj_lengths. apply (H x Hx).
    - unfold objs. rewrite filter_map_comm, !map_map.
      change (filter (fun x : yv * lh_calib => fc_valid (snd (fst x, calib_obj_of_mem w (snd x)))) calibs)
        with (filter (fun kc : yv * lh_calib => c_valid (snd kc)) calibs).
      apply map_ext_in. intros [k c] Hin. apply filter_In in Hin as [Hin V]. cbn [fst snd] in *.
      destruct (H (k, c) Hin) as [L F]. cbn [snd] in L, F. rewrite (calib_cross w n c L F).
      destruct c as [fs u v]. cbn [c_valid c_floats c_uid] in *. subst v. reflexivity.
  Qed.
End YamlFiles.
