(* C14/Proofs_misc.v — deck info section, anchor lists, trajectory pieces, LED timing sequence. *)
From CF Require Import Common.Bytes C14.Model C14.Model_lh C14.Model_misc C14.Proofs_i2c C14.Proofs_lh.
From Coq Require Import ZifyBool.
Open Scope Z_scope.
Ltac Zify.zify_post_hook ::= Z.to_euclidean_division_equations.

Lemma firstn_len_app (A B : list Z) n : length A = n -> firstn n (A ++ B) = A.
Proof. intros <-. apply firstn_app_exact. Qed.

(* ---------------------------------------------------------------- deck info section *)

Fixpoint deck_collect (i : Z) (rs : list (list Z)) : list (Z * deck_info) :=
  match rs with
  | [] => []
  | r :: rs' => match deck_parse_one i r with
                | Some x => (i, x) :: deck_collect (i + 1) rs'
                | None => deck_collect (i + 1) rs'
                end
  end.

(* the section is the version byte 3 and eight 32-byte records; record i is decoded on its own *)
Lemma deck_parse_records : forall rs, length rs = 8%nat -> Forall (fun r => length r = 32%nat) rs ->
  deck_parse (3 :: concat rs) = DK_Ok (deck_collect 0 rs).
Proof.
  intros rs L F.
  do 8 (destruct rs as [|? rs]; [discriminate|]). destruct rs; [|discriminate]. clear L.
  repeat match goal with H : Forall _ (_ :: _) |- _ => inversion H; subst; clear H end.
  unfold deck_parse.
  assert (Len : length (3 :: concat [l; l0; l1; l2; l3; l4; l5; l6]) = 257%nat).
  { cbn [length concat]. rewrite !app_length. cbn [length]. lia. }
  rewrite Len. cbn [Nat.eqb negb nthz nth]. change (3 =? 3) with true. cbn [negb skipn concat].
  cbn [deck_parse_all deck_collect].
  repeat (rewrite (firstn_len_app _ _ 32) by assumption; rewrite (skipn_len_app _ _ 32) by assumption).
  rewrite app_nil_r.
  assert (F32 : forall l : list Z, length l = 32%nat -> firstn 32 l = l) by (intros; apply firstn_all2; lia).
  rewrite (F32 l6) by assumption.
  repeat match goal with |- context [deck_parse_one ?i ?r] =>
    destruct (deck_parse_one i r); cbn [Z.add]
  end; reflexivity.
Qed.

Definition deck_wf (d : deck_info) : Prop :=
  byte (d_bf1 d) /\ byte (d_bf2 d) /\ 0 <= d_hash d < 2 ^ 32 /\ 0 <= d_len d < 2 ^ 32 /\
  0 <= d_base d < 2 ^ 32 /\ (length (d_name d) <= 18)%nat /\ Forall (fun b => b <> 0) (d_name d) /\
  utf8_ok (length (d_name d)) (d_name d) = true.

Lemma until_nul_app name k : Forall (fun b => b <> 0) name -> until_nul (name ++ zeros k) = name.
Proof.
  induction 1 as [|b name Hb _ IH]; cbn [app until_nul].
  - destruct k; reflexivity.
  - destruct (b =? 0) eqn:E; [lia|]. now rewrite IH.
Qed.

Lemma deck_encode_one_length d : (length (d_name d) <= 18)%nat -> length (deck_encode_one d) = 32%nat.
Proof.
  intros H. unfold deck_encode_one, zeros. rewrite !app_length, !le_bytes_length, repeat_length. cbn [length]. lia.
Qed.

Definition deck_at (i : Z) (d : deck_info) : deck_info :=
  mk_deck (d_bf1 d) (d_bf2 d) (d_hash d) (d_len d) (d_base d) (d_name d) (4096 + i * 32).

Lemma deck_record_fields : forall i d, deck_wf d ->
  deck_parse_one i (deck_encode_one d) = if dk_is_valid d then Some (deck_at i d) else None.
Proof.
  intros i [bf1 bf2 h ln base name cb] (B1 & B2 & Hh & Hl & Hb & Hn & Hz & Hu).
  cbn [d_bf1 d_bf2 d_hash d_len d_base d_name d_cmd_base] in *.
  unfold deck_parse_one, deck_encode_one, dk_is_valid, bit, deck_at.
  cbn [d_bf1 d_bf2 d_hash d_len d_base d_name d_cmd_base].
  pose proof (le_val4 h Hh) as Eh. pose proof (le_val4 ln Hl) as El. pose proof (le_val4 base Hb) as Eb.
  destruct (le_bytes4_shape h) as (h0 & h1 & h2 & h3 & Sh & _).
  destruct (le_bytes4_shape ln) as (l0 & l1 & l2 & l3 & Sl & _).
  destruct (le_bytes4_shape base) as (a0 & a1 & a2 & a3 & Sa & _).
  rewrite Sh, Sl, Sa in *. cbn [app nthz nth].
  destruct (Z.land bf1 1 =? 0); cbn [negb]; [reflexivity|].
  unfold slice.
  change (6 - 2)%nat with 4%nat; change (10 - 6)%nat with 4%nat; change (14 - 10)%nat with 4%nat;
  change (32 - 14)%nat with 18%nat. cbn [skipn].
  assert (F : firstn 18 (name ++ zeros (18 - length name)) = name ++ zeros (18 - length name)).
  { apply firstn_all2. unfold zeros. rewrite app_length, repeat_length. lia. }
  rewrite F, (until_nul_app name _ Hz), Hu. cbn [firstn].
  rewrite Eh, El, Eb. reflexivity.
Qed.

Fixpoint seqz (a : Z) (n : nat) : list Z := match n with O => [] | S k => a :: seqz (a + 1) k end.

Lemma seqz_In a n z : a <= z < a + Z.of_nat n -> In z (seqz a n).
Proof.
  revert a; induction n as [|n IH]; intros a H; cbn [seqz In]; [lia|].
  destruct (Z.eq_dec a z); [left; assumption|right; apply IH; lia].
Qed.

Definition deck_bits_ok (x : Z) : bool :=
  Bool.eqb (bit x 1) (Z.testbit x 0) && Bool.eqb (bit x 2) (Z.testbit x 1) &&
  Bool.eqb (bit x 4) (Z.testbit x 2) && Bool.eqb (bit x 8) (Z.testbit x 3) &&
  Bool.eqb (bit x 16) (Z.testbit x 4) && Bool.eqb (bit x 32) (Z.testbit x 5) &&
  Bool.eqb (bit x 64) (Z.testbit x 6).

Lemma deck_bits_all : forallb deck_bits_ok (seqz 0 256) = true.
Proof. vm_compute. reflexivity. Qed.

(* every accessor is exactly one bit of the respective bit field, for all 256 x 256 combinations *)
Lemma deck_bit_fields : forall d, byte (d_bf1 d) -> byte (d_bf2 d) ->
  dk_is_valid d = Z.testbit (d_bf1 d) 0 /\ dk_is_started d = Z.testbit (d_bf1 d) 1 /\
  dk_supports_read d = Z.testbit (d_bf1 d) 2 /\ dk_supports_write d = Z.testbit (d_bf1 d) 3 /\
  dk_supports_fw_upgrade d = Z.testbit (d_bf1 d) 4 /\ dk_is_fw_upgrade_required d = Z.testbit (d_bf1 d) 5 /\
  dk_is_bootloader_active d = Z.testbit (d_bf1 d) 6 /\
  dk_supports_reset_to_fw d = Z.testbit (d_bf2 d) 0 /\ dk_supports_reset_to_bootloader d = Z.testbit (d_bf2 d) 1.
Proof.
  intros d B1 B2.
  pose proof (proj1 (forallb_forall _ _) deck_bits_all) as H.
  assert (I1 : In (d_bf1 d) (seqz 0 256)).
  { apply seqz_In. unfold byte in B1. change (Z.of_nat 256) with 256. lia. }
  assert (I2 : In (d_bf2 d) (seqz 0 256)).
  { apply seqz_In. unfold byte in B2. change (Z.of_nat 256) with 256. lia. }
  assert (H1 := H _ I1). assert (H2 := H _ I2).
  unfold deck_bits_ok in H1, H2. rewrite !andb_true_iff in H1, H2.
  repeat match goal with Hx : _ /\ _ |- _ => destruct Hx end.
  repeat match goal with Hx : Bool.eqb _ _ = true |- _ => apply eqb_prop in Hx end.
  unfold dk_is_valid, dk_is_started, dk_supports_read, dk_supports_write, dk_supports_fw_upgrade,
    dk_is_fw_upgrade_required, dk_is_bootloader_active, dk_supports_reset_to_fw, dk_supports_reset_to_bootloader.
  repeat split; assumption.
Qed.

(* ---------------------------------------------------------------- anchors *)

Definition anchor_wf (a : anchor) : Prop :=
  0 <= a_x a < 2 ^ 32 /\ 0 <= a_y a < 2 ^ 32 /\ 0 <= a_z a < 2 ^ 32.

Lemma anchor_roundtrip a : anchor_wf a -> anchor_unpack (anchor_encode a) = Some a.
Proof.
  destruct a as [x y z v]. intros (Hx & Hy & Hz). cbn [a_x a_y a_z a_valid] in *.
  unfold anchor_encode, anchor_unpack. cbn [a_x a_y a_z a_valid].
  pose proof (le_val4 x Hx) as Ex. pose proof (le_val4 y Hy) as Ey. pose proof (le_val4 z Hz) as Ez.
  destruct (le_bytes4_shape x) as (x0 & x1 & x2 & x3 & Sx & _).
  destruct (le_bytes4_shape y) as (y0 & y1 & y2 & y3 & Sy & _).
  destruct (le_bytes4_shape z) as (z0 & z1 & z2 & z3 & Sz & _).
  rewrite Sx, Sy, Sz in *. cbn [app length Nat.eqb]. unfold slice. cbn [skipn firstn Nat.sub nthz nth].
  rewrite Ex, Ey, Ez, negb_b2z. reflexivity.
Qed.

Lemma loco_pages_encoded : forall anchors k, Forall anchor_wf anchors ->
  loco_pages (length anchors) k (map anchor_encode anchors) =
  Some (map (fun j => (4096 + 256 * j, 13)) (seqz k (length anchors)), anchors).
Proof.
  induction anchors as [|a l IH]; intros k F; [reflexivity|].
  inversion F as [|? ? Ha Hl]; subst.
  cbn [length map loco_pages seqz]. rewrite (anchor_roundtrip a Ha), (IH (k + 1) Hl). reflexivity.
Qed.

(* LocoMemory.update(): one info read, then one 13-byte read per anchor at 0x1000 + 0x100*k, in order;
   the anchors decoded are exactly the ones the device holds; valid is set *)
Lemma loco_anchor_list : forall anchors, Forall anchor_wf anchors -> (length anchors <= 255)%nat ->
  loco_update (Z.of_nat (length anchors)) (map anchor_encode anchors) =
  Some ((0, 1) :: map (fun j => (4096 + 256 * j, 13)) (seqz 0 (length anchors)), anchors, true).
Proof.
  intros anchors F _. unfold loco_update. rewrite Nat2Z.id, (loco_pages_encoded anchors 0 F). reflexivity.
Qed.

(* LocoMemory2 id list: count byte followed by the ids, padded to 17 bytes *)
Lemma loco2_id_list : forall ids pad, (length ids <= 16)%nat -> length (ids ++ pad) = 16%nat ->
  loco2_ids (Z.of_nat (length ids) :: ids ++ pad) = IL_Ok ids.
Proof.
  intros ids pad H L. unfold loco2_ids. cbn [length]. rewrite L. cbn [Nat.eqb negb nthz nth skipn].
  rewrite Nat2Z.id. rewrite Nat.min_l by exact H. rewrite firstn_app_exact. reflexivity.
Qed.

(* a count byte above 16: exactly the 16 ids that were read are taken (no exception, nr_of_anchors = 16) *)
Lemma loco2_id_list_overflow : forall n rest, 16 < n -> length rest = 16%nat ->
  loco2_ids (n :: rest) = IL_Ok rest.
Proof.
  intros n rest H L. unfold loco2_ids. cbn [length]. rewrite L. cbn [Nat.eqb negb nthz nth skipn].
  rewrite Nat.min_r by lia. rewrite firstn_all2 by lia. reflexivity.
Qed.

(* ---------------------------------------------------------------- Poly4D *)

Lemma poly4d_layout : forall x y z yaw dur d, poly4d_pack x y z yaw dur = Some d ->
  length d = 132%nat /\
  forall k, (k < 33)%nat -> slice d (4 * k) (4 * k + 4) = le_bytes 4 (nth k (x ++ y ++ z ++ yaw ++ [dur]) 0).
Proof.
  intros x y z yaw dur d P. unfold poly4d_pack in P.
  destruct ((length x =? 8)%nat && (length y =? 8)%nat && (length z =? 8)%nat && (length yaw =? 8)%nat
            && all32b (x ++ y ++ z ++ yaw ++ [dur])) eqn:E; [|discriminate].
  injection P as <-.
  assert (L : length (x ++ y ++ z ++ yaw ++ [dur]) = 33%nat).
  { rewrite !app_length. cbn [length]. lia. }
  split; [rewrite pack32_length, L; reflexivity|].
  intros k Hk. rewrite <- (app_nil_r (pack32 _)). apply pack32_slice. lia.
Qed.

(* ---------------------------------------------------------------- LED timing sequence *)

Lemma split_hi_lo led : led = 256 * Z.shiftr led 8 + Z.land led 255.
Proof.
  rewrite Z.shiftr_div_pow2 by lia. change 255 with (Z.ones 8). rewrite Z.land_ones by lia.
  change (2 ^ 8) with 256. lia.
Qed.

Lemma timing_record_nonzero t : timing_nonzero t = true ->
  exists a b c e, timing_record t = [a; b; c; e] /\ ((a =? 0) && (b =? 0) && (c =? 0) && (e =? 0)) = false.
Proof.
  intros H. unfold timing_record. do 4 eexists. split; [reflexivity|].
  unfold timing_nonzero in H. pose proof (split_hi_lo (timing_565 t)) as S.
  destruct (Z.land (t_time t) 255 =? 0) eqn:E1; [|reflexivity].
  destruct (Z.shiftr (timing_565 t) 8 =? 0) eqn:E2; [|reflexivity].
  destruct (Z.land (timing_565 t) 255 =? 0) eqn:E3; [|reflexivity].
  destruct (timing_extra t =? 0) eqn:E4; [|reflexivity].
  exfalso. assert (timing_565 t = 0) by lia. rewrite H0 in H. cbn in H. lia.
Qed.

Lemma timings_read_records : forall l fuel, (length l < fuel)%nat -> Forall (fun t => timing_nonzero t = true) l ->
  timings_read fuel (concat (map timing_record l) ++ [0; 0; 0; 0]) = map timing_record l.
Proof.
  induction l as [|t l IH]; intros fuel Hf F.
  - destruct fuel; [cbn [length] in Hf; lia|]. reflexivity.
  - inversion F as [|? ? Ht Hl]; subst. cbn [length] in Hf. destruct fuel as [|fuel]; [lia|].
    cbn [map concat]. destruct (timing_record_nonzero t Ht) as (a & b & c & e & R & NZ). rewrite R.
    cbn [app timings_read]. rewrite NZ. f_equal. apply IH; [lia|exact Hl].
Qed.

(* what the firmware reads back from the written sequence (4-byte records up to the all-zero record) is
   exactly the records of the non-empty timings, in order: none is lost, none ends the sequence early *)
Lemma timings_layout : forall ts,
  timings_read (S (length ts)) (timings_write ts) = map timing_record (filter timing_nonzero ts).
Proof.
  intros ts. unfold timings_write. apply timings_read_records.
  - assert (FL : forall l : list timing, (length (filter timing_nonzero l) <= length l)%nat).
    { induction l as [|x l IHl]; cbn [filter length]; [lia|]. destruct (timing_nonzero x); cbn [length]; lia. }
    pose proof (FL ts). lia.
  - apply Forall_forall. intros t Ht. apply filter_In in Ht. tauto.
Qed.

(* ---------------------------------------------------------------- compressed trajectory pieces *)

Lemma le_signed2_shape v : exists a b, le_signed 2 v = [a; b].
Proof. unfold le_signed. cbn [le_bytes]. do 2 eexists. reflexivity. Qed.

Lemma i16b_range v : i16b v = true -> signed_range 2 v.
Proof. unfold i16b, signed_range. change (256 ^ Z.of_nat 2 / 2) with 32768. lia. Qed.

Lemma unpack_pack_i16 : forall l rest, forallb i16b l = true ->
  unpack_i16 (length l) (pack_i16 l ++ rest) = l /\ skipn (2 * length l) (pack_i16 l ++ rest) = rest.
Proof.
  induction l as [|v l IH]; intros rest F; [split; reflexivity|].
  cbn [forallb] in F. apply andb_true_iff in F as [Fv Fl].
  unfold pack_i16 in *. cbn [map concat length unpack_i16]. rewrite <- app_assoc.
  pose proof (le_signed_roundtrip 2 v ltac:(lia) (i16b_range v Fv)) as RT.
  destruct (le_signed2_shape v) as (a & b & Sh2). rewrite Sh2 in *. cbn [app firstn skipn].
  destruct (IH rest Fl) as [U K]. rewrite RT, U. split; [reflexivity|].
  replace (2 * S (length l))%nat with (S (S (2 * length l))) by lia. cbn [skipn]. exact K.
Qed.

Lemma elem_type_len n t : elem_type n = Some t -> type_len t = n /\ (t = 0 \/ t = 1 \/ t = 2 \/ t = 3).
Proof.
  intros E. destruct n as [|[|[|[|[|[|[|[|n]]]]]]]]; cbn [elem_type] in E; try discriminate;
    injection E as <-; (split; [reflexivity|tauto]).
Qed.

Lemma type_byte tx ty tz tw :
  (tx = 0 \/ tx = 1 \/ tx = 2 \/ tx = 3) -> (ty = 0 \/ ty = 1 \/ ty = 2 \/ ty = 3) ->
  (tz = 0 \/ tz = 1 \/ tz = 2 \/ tz = 3) -> (tw = 0 \/ tw = 1 \/ tw = 2 \/ tw = 3) ->
  let T := Z.lor (Z.lor (Z.lor tx (Z.shiftl ty 2)) (Z.shiftl tz 4)) (Z.shiftl tw 6) in
  Z.land T 3 = tx /\ Z.land (Z.shiftr T 2) 3 = ty /\ Z.land (Z.shiftr T 4) 3 = tz /\ Z.land (Z.shiftr T 6) 3 = tw
  /\ 0 <= T < 256.
Proof.
  intros [-> | [-> | [-> | ->]]] [-> | [-> | [-> | ->]]] [-> | [-> | [-> | ->]]] [-> | [-> | [-> | ->]]];
    vm_compute; intuition congruence.
Qed.

(* the firmware-side walk over a written compressed segment recovers the duration and the four
   coefficient lists, and ends exactly at the end of the segment *)
Lemma cseg_layout : forall dms x y z yaw d rest, cseg_pack dms x y z yaw = Some d ->
  cseg_read (d ++ rest) = (dms, x, y, z, yaw, rest).
Proof.
  intros dms x y z yaw d rest P. unfold cseg_pack in P.
  destruct (elem_type (length x)) as [tx|] eqn:Ex; [|discriminate].
  destruct (elem_type (length y)) as [ty|] eqn:Ey; [|discriminate].
  destruct (elem_type (length z)) as [tz|] eqn:Ez; [|discriminate].
  destruct (elem_type (length yaw)) as [tw|] eqn:Ew; [|discriminate].
  destruct ((0 <=? dms) && (dms <? 65536) && forallb i16b (x ++ y ++ z ++ yaw)) eqn:C; [|discriminate].
  apply andb_true_iff in C as [Cd CF]. rewrite !forallb_app in CF.
  apply andb_true_iff in CF as [Fx CF]. apply andb_true_iff in CF as [Fy CF].
  apply andb_true_iff in CF as [Fz Fw].
  destruct (elem_type_len _ _ Ex) as [Lx Rx]. destruct (elem_type_len _ _ Ey) as [Ly Ry].
  destruct (elem_type_len _ _ Ez) as [Lz Rz]. destruct (elem_type_len _ _ Ew) as [Lw Rw].
  destruct (type_byte tx ty tz tw Rx Ry Rz Rw) as (Bx & By & Bz & Bw & _).
  assert (E : d = [Z.lor (Z.lor (Z.lor tx (Z.shiftl ty 2)) (Z.shiftl tz 4)) (Z.shiftl tw 6)]
                  ++ le_bytes 2 dms ++ pack_i16 x ++ pack_i16 y ++ pack_i16 z ++ pack_i16 yaw) by congruence.
  subst d. clear P.
  set (T := Z.lor (Z.lor (Z.lor tx (Z.shiftl ty 2)) (Z.shiftl tz 4)) (Z.shiftl tw 6)) in *.
  assert (Ed : le_val (le_bytes 2 dms) = dms) by (apply le_val_le_bytes_id; change (256 ^ Z.of_nat 2) with 65536; lia).
  assert (Sd : exists d0 d1, le_bytes 2 dms = [d0; d1]) by (cbn [le_bytes]; do 2 eexists; reflexivity).
  destruct Sd as (d0 & d1 & Sd). rewrite Sd in *.
  unfold cseg_read. cbn [app nthz nth]. rewrite Bx, By, Bz, Bw, Lx, Ly, Lz, Lw.
  unfold slice. cbn [skipn Nat.sub firstn]. rewrite Ed.
  rewrite <- !app_assoc.
  destruct (unpack_pack_i16 x (pack_i16 y ++ pack_i16 z ++ pack_i16 yaw ++ rest) Fx) as [Ux Kx]. rewrite Ux, Kx.
  destruct (unpack_pack_i16 y (pack_i16 z ++ pack_i16 yaw ++ rest) Fy) as [Uy Ky]. rewrite Uy, Ky.
  destruct (unpack_pack_i16 z (pack_i16 yaw ++ rest) Fz) as [Uz Kz]. rewrite Uz, Kz.
  destruct (unpack_pack_i16 yaw rest Fw) as [Uw Kw]. rewrite Uw, Kw.
  reflexivity.
Qed.

(* ---------------------------------------------------------------- write histories *)

(* the k-th write of a history is the write of the k-th (address, pieces) alone *)
Lemma traj_history_stateless : forall h1 w h2,
  nth (length h1) (traj_history (h1 ++ w :: h2)) None = traj_write (fst w) (snd w).
Proof.
  intros h1 w h2. unfold traj_history. rewrite map_app. cbn [map].
  rewrite app_nth2 by (rewrite map_length; lia). rewrite map_length, Nat.sub_diag. reflexivity.
Qed.

Lemma traj_write_shape : forall start l a img n, traj_write start l = Some (a, img, n) ->
  a = start /\ n = Z.of_nat (length img) /\ traj_image l = Some img.
Proof.
  intros start l a img n. unfold traj_write. destruct (traj_image l); [|discriminate].
  intros H. injection H as <- <- <-. repeat split.
Qed.

(* a trajectory image of compressed segments is read back piece by piece: every segment of the list, in
   order, with all its coefficients, ending exactly at the end of the image *)
Lemma csegs_layout : forall segs img rest, traj_image (map seg_of segs) = Some img ->
  csegs_read (length segs) (img ++ rest) = (segs, rest).
Proof.
  induction segs as [|[[[[dms x] y] z] yaw] segs IH]; intros img rest H.
  - cbn in H. injection H as <-. reflexivity.
  - cbn [map seg_of traj_image telem_pack] in H.
    destruct (cseg_pack dms x y z yaw) as [a|] eqn:P; [|discriminate].
    destruct (traj_image (map seg_of segs)) as [b|] eqn:T; [|discriminate].
    injection H as <-. cbn [length csegs_read]. rewrite <- app_assoc.
    rewrite (cseg_layout dms x y z yaw a (b ++ rest) P). rewrite (IH b rest eq_refl). reflexivity.
Qed.
