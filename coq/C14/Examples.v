(* C14/Examples.v — non-vacuity: concrete, non-trivial instances meeting the hypotheses of the C14 theorems. *)
From CF Require Import Common.Bytes C14.Model C14.Model_lh C14.Model_misc C14.Proofs_i2c C14.Proofs_ow
  C14.Proofs_lh C14.Proofs_misc.
Open Scope Z_scope.

(* EEPROM: version 0 and version 1 contents with non-zero trims (1.0f, -0.1f) *)
Example ex_i2c_wf0 : i2c_wf (mk_i2c 0 80 2 1065353216 3184315597 None).
Proof. unfold i2c_wf, byte; cbn. repeat split; try lia. left. split; reflexivity. Qed.
Example ex_i2c_wf1 : i2c_wf (mk_i2c 1 125 0 1065353216 3184315597 (Some 996028180455)).
Proof. unfold i2c_wf, byte; cbn. repeat split; try lia. right. split; [reflexivity|]. eexists. split; [reflexivity|lia]. Qed.
Example ex_i2c_roundtrip :
  i2c_parse (match i2c_write (mk_i2c 1 125 0 1065353216 3184315597 (Some 996028180455)) with Some i => i | None => [] end ++ [1; 2; 3])
  = I2C_Res true true (Some (mk_i2c 1 125 0 1065353216 3184315597 (Some 996028180455))).
Proof. vm_compute. reflexivity. Qed.
(* a corrupted byte that is detected: channel byte 125 -> 124 *)
Example ex_i2c_corrupt :
  i2c_valid (i2c_parse (upd 5 124 (match i2c_write (mk_i2c 1 125 0 1065353216 3184315597 (Some 996028180455)) with Some i => i | None => [] end))) = false.
Proof. vm_compute. reflexivity. Qed.

(* 1-wire: a deck with name and revision *)
Definition ex_ow_els : dict := [(1, [98; 99; 65; 73]); (2, [68])].          (* 'bcAI', 'D' *)
Example ex_ow_wf : ow_wf 12 188 18 ex_ow_els.
Proof.
  unfold ow_wf, byte, ex_ow_els. repeat split; try lia.
  - cbn. repeat constructor; cbn; intuition discriminate.
  - destruct H as [<-|[<-|[]]]; cbn; lia.
  - destruct H as [<-|[<-|[]]]; cbn; lia.
  - destruct H as [<-|[<-|[]]]; cbn; lia.
  - destruct H as [<-|[<-|[]]]; cbn; unfold bytes, byte; repeat (apply Forall_cons; [cbv beta; first [split; [apply Z.leb_le; reflexivity|apply Z.ltb_lt; reflexivity] | lia]|]); apply Forall_nil.
  - cbn. lia.
Qed.
Example ex_ow_roundtrip :
  match ow_write 12 188 18 ex_ow_els with
  | Some img => ow_parse (img ++ [255; 255]) = OW_Res (mk_ow true true 12 188 18 (rev ex_ow_els) None)
  | None => False
  end.
Proof. vm_compute. reflexivity. Qed.
(* an element area with an unknown id raises KeyError and is not valid *)
Example ex_ow_keyerror :
  ow_parse ([235; 0; 0; 0; 0; 188; 18; 111; 0; 2; 9; 0] ++ [crc8 [0; 2; 9; 0]])
  = OW_Res (mk_ow false false 0 188 18 [] (Some ExcKey)).
Proof. vm_compute. reflexivity. Qed.

(* lighthouse geometry / calibration *)
Example ex_geo_wf : geo_wf (mk_geo [1065353216; 0; 3212836864; 1065353216; 0; 0; 0; 1065353216; 0; 0; 0; 1065353216] true).
Proof. split; [reflexivity|]. apply all32b_spec. reflexivity. Qed.
Example ex_calib_wf : calib_wf (mk_calib [1;2;3;4;5;6;7;8;9;10;11;12;13;4294967295] 3735928559 true).
Proof. split; [reflexivity|]. split; [apply all32b_spec; reflexivity|cbn; lia]. Qed.

(* deck record: valid, started, read/write, name 'bcAI' *)
Example ex_deck_wf : deck_wf (mk_deck 15 3 305419896 4096 268435456 [98; 99; 65; 73] 0).
Proof. unfold deck_wf, byte; cbn. repeat split; try lia. repeat (apply Forall_cons; [cbv beta; first [split; [apply Z.leb_le; reflexivity|apply Z.ltb_lt; reflexivity] | lia]|]). apply Forall_nil. Qed.
Example ex_deck_valid : dk_is_valid (mk_deck 15 3 305419896 4096 268435456 [98; 99; 65; 73] 0) = true.
Proof. reflexivity. Qed.

(* anchors, compressed segment, LED timings *)
Example ex_anchor_wf : Forall anchor_wf [mk_anchor 1065353216 0 3212836864 true; mk_anchor 5 6 7 false].
Proof. repeat (apply Forall_cons; [unfold anchor_wf; cbn; lia|]). apply Forall_nil. Qed.
Example ex_cseg : exists d, cseg_pack 1500 [100; -200; 300] [] [1] [-1800; 0; 1; 2; 3; 4; 1800] = Some d /\ length d = 25%nat.
Proof. eexists. split; vm_compute; reflexivity. Qed.
Example ex_timings :
  timings_write [mk_timing 4 255 0 0 0 1 0; mk_timing 256 0 0 0 0 0 0; mk_timing 0 0 0 255 3 0 1]
  = [4; 248; 0; 16; 0; 0; 31; 35; 0; 0; 0; 0].
Proof. vm_compute. reflexivity. Qed.
