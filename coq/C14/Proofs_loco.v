(* C14/Proofs_loco.v — LocoMemory2 histories: every field is written only by the step that owns it. *)
From CF Require Import Common.Bytes C14.Model C14.Model_lh C14.Model_misc C14.Model_loco C14.Proofs_i2c C14.Proofs_lh C14.Proofs_misc.
From Coq Require Import ZifyBool.
Open Scope Z_scope.

(* what each step produces, in terms of the device bytes it read *)
Lemma l2_ids_step : forall s d s' d' rq, l2_step s d LIds = Some (s', d', rq) ->
  loco2_ids (dv_idl d) = IL_Ok (l2_ids s') /\ l2_nr s' = Z.of_nat (length (l2_ids s')) /\ l2_idsv s' = true /\
  l2_act s' = [] /\ l2_data s' = [] /\ l2_datav s' = false /\ l2_actv s' = l2_actv s /\ rq = [(0, 17)] /\ d' = d.
Proof.
  intros s d s' d' rq H. cbn [l2_step] in H. destruct (loco2_ids (dv_idl d)) as [ids|]; try discriminate.
  injection H as <- <- <-. cbn. repeat split; reflexivity.
Qed.

Lemma l2_act_step : forall s d s' d' rq, l2_step s d LAct = Some (s', d', rq) ->
  loco2_ids (dv_act d) = IL_Ok (l2_act s') /\ l2_actv s' = true /\
  (* frame: nothing else moves *)
  l2_ids s' = l2_ids s /\ l2_nr s' = l2_nr s /\ l2_idsv s' = l2_idsv s /\ l2_data s' = l2_data s /\ l2_datav s' = l2_datav s.
Proof.
  intros s d s' d' rq H. cbn [l2_step] in H. destruct (loco2_ids (dv_act d)) as [a|]; try discriminate.
  injection H as <- <- <-. cbn. repeat split; reflexivity.
Qed.

Lemma l2_data_step : forall s d s' d' rq, l2_step s d LData = Some (s', d', rq) ->
  (* frame: fetching the pages never changes what the id reads produced *)
  l2_ids s' = l2_ids s /\ l2_act s' = l2_act s /\ l2_nr s' = l2_nr s /\ l2_idsv s' = l2_idsv s /\ l2_actv s' = l2_actv s /\
  (0 < l2_nr s -> loco2_data (l2_ids s) (dv_pages d) [] [] = Some (rq, l2_data s') /\ l2_datav s' = true) /\
  (l2_nr s <= 0 -> s' = s /\ rq = []).
Proof.
  intros s d s' d' rq H. cbn [l2_step] in H. destruct (0 <? l2_nr s) eqn:N.
  - destruct (loco2_data (l2_ids s) (dv_pages d) [] []) as [[rq0 dd]|]; [|discriminate].
    injection H as <- <- <-. cbn. repeat split; try reflexivity; lia.
  - injection H as <- <- <-. repeat split; try reflexivity; lia.
Qed.

(* over whole histories: nr_of_anchors is the length of the parsed id list, always *)
Definition l2_inv (s : l2s) : Prop := l2_nr s = Z.of_nat (length (l2_ids s)).

Lemma l2_step_inv s d o s' d' rq : l2_inv s -> l2_step s d o = Some (s', d', rq) -> l2_inv s'.
Proof.
  unfold l2_inv. intros I H. destruct o.
  - apply l2_ids_step in H. tauto.
  - apply l2_act_step in H. destruct H as (_ & _ & E1 & E2 & _). rewrite E1, E2. exact I.
  - apply l2_data_step in H. destruct H as (E1 & _ & E2 & _). rewrite E1, E2. exact I.
  - cbn in H. injection H as <- _ _. exact I.
Qed.

Lemma l2_run_inv : forall ops s d s' d', l2_inv s -> l2_run s d ops = Some (s', d') -> l2_inv s'.
Proof.
  induction ops as [|o ops IH]; intros s d s' d' I H; cbn [l2_run] in H.
  - injection H as <- _. exact I.
  - destruct (l2_step s d o) as [[[s1 d1] rq]|] eqn:E; [|discriminate].
    apply (IH s1 d1 s' d' (l2_step_inv s d o s1 d1 rq I E) H).
Qed.

(* the id list parsed by update_id_list survives every later update_data / update_active_id_list untouched: after
   any history that continues with steps other than LIds, anchor_ids is still the decode of the bytes that
   update_id_list read *)
Definition not_ids (o : l2op) : bool := match o with LIds => false | _ => true end.

Lemma l2_ids_persist : forall ops s d s' d', forallb not_ids ops = true -> l2_run s d ops = Some (s', d') ->
  l2_ids s' = l2_ids s /\ l2_nr s' = l2_nr s /\ l2_idsv s' = l2_idsv s.
Proof.
  induction ops as [|o ops IH]; intros s d s' d' F H; cbn [l2_run] in H.
  - injection H as <- _. repeat split.
  - cbn [forallb] in F. apply andb_true_iff in F as [Fo F].
    destruct (l2_step s d o) as [[[s1 d1] rq]|] eqn:E; [|discriminate].
    destruct (IH s1 d1 s' d' F H) as (A & B & C). rewrite A, B, C.
    destruct o; [discriminate| | |].
    + apply l2_act_step in E. tauto.
    + apply l2_data_step in E. tauto.
    + cbn in E. injection E as <- _ _. repeat split.
Qed.

(* refutation example for seed C14-g: with the fetch queue aliased to the parsed id list, update_data empties
   anchor_ids (while nr_of_anchors / ids_valid still announce 4 anchors) *)
Definition g_dev : l2dev :=
  mk_l2dev (4 :: [3; 7; 42; 200] ++ repeat 0 12) (repeat 0 17)
           [(3, repeat 0 12 ++ [1]); (7, repeat 0 12 ++ [1]); (42, repeat 0 12 ++ [0]); (200, repeat 0 12 ++ [1])].

Lemma l2_aliased_queue_refuted :
  match l2_step l2_init g_dev LIds with
  | Some (s1, d1, _) =>
    match l2_step s1 d1 LData, l2_step_aliased s1 d1 LData with
    | Some (s2, _, _), Some (s2', _, _) =>
      l2_ids s2 = [3; 7; 42; 200] /\ l2_ids s2' = [] /\ l2_nr s2' = 4 /\ l2_idsv s2' = true /\ l2_data s2' = l2_data s2
    | _, _ => False
    end
  | None => False
  end.
Proof. vm_compute. repeat split; reflexivity. Qed.
