(* C14/Model.v — executable models of the stored configuration images (part 1: byte images with a
   checksum): I2CElement (cflib/crazyflie/mem/i2c_element.py) and OWElement (ow_element.py).
   Hand-written from the source; tied to the code on every run by differential evaluation through a
   byte-array memory handler (harness/props/c14.py).  Floats are opaque 32-bit patterns.
   Definitions only. *)
From CF Require Export Common.Bytes.
Open Scope Z_scope.

(* ---------------------------------------------------------------- generic helpers *)

(* list update l[p] := v (no effect when p is out of range) *)
Fixpoint upd (p : nat) (v : Z) (l : list Z) : list Z :=
  match l, p with
  | [], _ => []
  | _ :: t, O => v :: t
  | x :: t, S p' => x :: upd p' v t
  end.

(* one read request of the memory sub-system: n bytes at address a; None when the memory is
   shorter (the device answers with an error status and the element's new_data is never called) *)
Definition read (mem : list Z) (a n : nat) : option (list Z) :=
  if (a + n <=? length mem)%nat then Some (firstn n (skipn a mem)) else None.

Fixpoint sumz (l : list Z) : Z := match l with [] => 0 | x :: t => x + sumz t end.

(* I2CElement._checksum256: reduce(+) % 256 *)
Definition sum256 (l : list Z) : Z := sumz l mod 256.

Definition nthz (n : nat) (l : list Z) : Z := nth n l 0.

(* ---------------------------------------------------------------- I2C EEPROM image *)

Definition token : list Z := [48; 120; 66; 67].          (* b'0xBC' : the four ASCII characters *)

Record i2c_fields := mk_i2c {
  i_version : Z; i_channel : Z; i_speed : Z;
  i_pitch : Z; i_roll : Z;                               (* binary32 patterns *)
  i_addr : option Z }.                                    (* elements['radio_address'], v1 only *)

(* I2CElement.write_data: None = struct.error.  A version other than 0/1 writes token+checksum. *)
Definition i2c_write (f : i2c_fields) : option (list Z) :=
  let fin body := let img := token ++ body in Some (img ++ [sum256 img]) in
  let f32ok := (0 <=? i_pitch f) && (i_pitch f <? 2 ^ 32) && (0 <=? i_roll f) && (i_roll f <? 2 ^ 32) in
  if i_version f =? 0 then
    if byteb (i_channel f) && byteb (i_speed f) && f32ok then
      fin ([0; i_channel f; i_speed f] ++ le_bytes 4 (i_pitch f) ++ le_bytes 4 (i_roll f))
    else None
  else if i_version f =? 1 then
    match i_addr f with
    | None => None                                       (* KeyError 'radio_address' *)
    | Some a =>
      if byteb (i_channel f) && byteb (i_speed f) && f32ok && byteb (Z.shiftr a 32) then
        fin ([1; i_channel f; i_speed f] ++ le_bytes 4 (i_pitch f) ++ le_bytes 4 (i_roll f)
             ++ [Z.shiftr a 32] ++ le_bytes 4 (Z.land a 4294967295))
      else None
    end
  else fin [].

(* what is observable after update(): valid, whether the update callback was called, elements *)
Inductive i2c_res :=
| I2C_Short                                             (* a read request failed: memory too short *)
| I2C_Res (valid cb : bool) (e : option i2c_fields).

Definition i2c_hdr_fields (d : list Z) : i2c_fields :=
  mk_i2c (nthz 4 d) (nthz 5 d) (nthz 6 d) (le_val (slice d 7 11)) (le_val (slice d 11 15)) None.

(* update() = read(0,16); new_data(addr 0); for version 1 read(16,5); new_data(addr 16) *)
Definition i2c_parse (mem : list Z) : i2c_res :=
  match read mem 0 16 with
  | None => I2C_Short
  | Some d =>
    if zlist_eqb (firstn 4 d) token then
      let f := i2c_hdr_fields d in
      if i_version f =? 0 then
        I2C_Res (sum256 (firstn 15 d) =? nthz 15 d) true (Some f)
      else if i_version f =? 1 then
        match read mem 16 5 with
        | None => I2C_Short
        | Some d2 =>
          let a := Z.lor (Z.shiftl (nthz 15 d) 32) (le_val (firstn 4 d2)) in
          let all := d ++ d2 in
          I2C_Res (sum256 (firstn 20 all) =? nthz 20 all) true
                  (Some (mk_i2c (i_version f) (i_channel f) (i_speed f) (i_pitch f) (i_roll f) (Some a)))
        end
      else I2C_Res false true (Some f)                   (* unknown version (F14c repaired): not valid, update finished *)
    else I2C_Res false true None
  end.

Definition i2c_valid (r : i2c_res) : bool :=
  match r with I2C_Res v _ _ => v | I2C_Short => false end.

(* ---------------------------------------------------------------- CRC-32 (binascii.crc32) *)

Definition crc_step (c : Z) : Z :=
  if Z.odd c then Z.lxor (Z.shiftr c 1) 3988292384 else Z.shiftr c 1.
Definition crc_byte (c b : Z) : Z :=
  let c := Z.lxor c b in
  crc_step (crc_step (crc_step (crc_step (crc_step (crc_step (crc_step (crc_step c))))))).
Definition crc32 (l : list Z) : Z := Z.lxor (fold_left crc_byte l 4294967295) 4294967295.
Definition crc8 (l : list Z) : Z := Z.land (crc32 l) 255.           (* crc32(..) & 0x0ff *)

(* ---------------------------------------------------------------- 1-wire deck identity image *)

(* OWElement.elements: a Python dict (insertion ordered) keyed by element name; ids 1,2,3 stand for
   'Board name', 'Board revision', 'Custom'; values are ISO-8859-1 strings = byte lists *)
Definition dict := list (Z * list Z).

Fixpoint dict_set (k : Z) (v : list Z) (d : dict) : dict :=
  match d with
  | [] => [(k, v)]
  | (k', v') :: d' => if k =? k' then (k, v) :: d' else (k', v') :: dict_set k v d'
  end.

Fixpoint dict_get (k : Z) (d : dict) : option (list Z) :=
  match d with
  | [] => None
  | (k', v') :: d' => if k =? k' then Some v' else dict_get k d'
  end.

Inductive pyexc := ExcStruct | ExcKey | ExcIndex.

Definition ow_idb (i : Z) : bool := (1 <=? i) && (i <=? 3).

(* the while loop of _parse_and_check_elements; fuel = length of the element bytes.
   Returns the dictionary so far and the exception that ended the loop, if any. *)
Fixpoint ow_elems (fuel : nat) (ed : list Z) (d : dict) : dict * option pyexc :=
  match ed with
  | [] => (d, None)
  | [_] => (d, Some ExcStruct)                           (* struct.unpack('BB', one byte) *)
  | eid :: elen :: rest =>
    match fuel with
    | O => (d, None)
    | S k =>
      if ow_idb eid then
        ow_elems k (skipn (Z.to_nat elen) rest) (dict_set eid (firstn (Z.to_nat elen) rest) d)
      else (d, Some ExcKey)                              (* element_mapping[eid] *)
    end
  end.

Record ow_obs := mk_ow {
  ow_valid : bool; ow_cb : bool;
  ow_pins : Z; ow_vid : Z; ow_pid : Z;
  ow_elements : dict;
  ow_exc : option pyexc }.

Inductive ow_res := OW_Short | OW_Res (o : ow_obs).

(* _parse_and_check_elements(data) on a non-empty data: (crc ok, dict, exception) *)
Definition ow_check_elements (data : list Z) : bool * dict * option pyexc :=
  let body := removelast data in
  if crc8 body =? last data 0 then
    let '(d, e) := ow_elems (length body) (skipn 2 body) [] in
    (match e with None => true | Some _ => false end, d, e)
  else (false, [], None).

(* update() on a fresh object, with F14a repaired (no two-byte shortcut):
   read(0,11); header check; read(8, elem_len+3); element check *)
Definition ow_parse (mem : list Z) : ow_res :=
  match read mem 0 11 with
  | None => OW_Short
  | Some d =>
    let pins := le_val (slice d 1 5) in
    let vid := nthz 5 d in
    let pid := nthz 6 d in
    if (nthz 0 d =? 235) && (nthz 7 d =? crc8 (firstn 7 d)) then
      let elen := nthz 9 d in
      match read mem 8 (Z.to_nat elen + 3) with
      | None => OW_Short
      | Some d2 =>
        let '(ok, els, e) := ow_check_elements d2 in
        OW_Res (mk_ow ok (match e with None => true | Some _ => false end) pins vid pid els e)
      end
    else OW_Res (mk_ow false true pins vid pid [] None)
  end.

(* write_data: None = struct.error / KeyError.  Elements are written in reversed dictionary order *)
Definition ow_enc_elem (kv : Z * list Z) : list Z :=
  [fst kv; Z.of_nat (length (snd kv))] ++ snd kv.

Definition ow_elem_ok (kv : Z * list Z) : bool :=
  ow_idb (fst kv) && (length (snd kv) <=? 255)%nat && bytesb (snd kv).

Definition ow_area (els : dict) : list Z := concat (map ow_enc_elem (rev els)).

Definition ow_write (pins vid pid : Z) (els : dict) : option (list Z) :=
  if (0 <=? pins) && (pins <? 2 ^ 32) && byteb vid && byteb pid
     && forallb ow_elem_ok els && (length (ow_area els) <=? 255)%nat then
    let hdr := [235] ++ le_bytes 4 pins ++ [vid; pid] in
    let ed := [0; Z.of_nat (length (ow_area els))] ++ ow_area els in
    Some (hdr ++ [crc8 hdr] ++ ed ++ [crc8 ed])
  else None.

(* the code before the repair of F14a, kept to state what went wrong (C14_ow_shortcut_defect):
   new_data(addr 0) first tried _parse_and_check_elements(data[9:11]) *)
Definition ow_parse_unrepaired (mem : list Z) : ow_res :=
  match read mem 0 11 with
  | None => OW_Short
  | Some d =>
    let pins := le_val (slice d 1 5) in
    let vid := nthz 5 d in
    let pid := nthz 6 d in
    if (nthz 0 d =? 235) && (nthz 7 d =? crc8 (firstn 7 d)) then
      if crc8 [nthz 9 d] =? nthz 10 d then OW_Res (mk_ow true true pins vid pid [] None)
      else
      let elen := nthz 9 d in
      match read mem 8 (Z.to_nat elen + 3) with
      | None => OW_Short
      | Some d2 =>
        let '(ok, els, e) := ow_check_elements d2 in
        OW_Res (mk_ow ok (match e with None => true | Some _ => false end) pins vid pid els e)
      end
    else OW_Res (mk_ow false true pins vid pid [] None)
  end.

(* ---------------------------------------------------------------- well-formed contents (specification side) *)

(* every content the EEPROM format can represent *)
Definition i2c_wf (f : i2c_fields) : Prop :=
  byte (i_channel f) /\ byte (i_speed f) /\ 0 <= i_pitch f < 2 ^ 32 /\ 0 <= i_roll f < 2 ^ 32 /\
  ((i_version f = 0 /\ i_addr f = None) \/
   (i_version f = 1 /\ exists a, i_addr f = Some a /\ 0 <= a < 2 ^ 40)).

Definition dict_keys (d : dict) : list Z := map fst d.

(* every content the 1-wire format can represent: 32-bit pins, 8-bit vid/pid, at most one string
   per element id 1..3, each at most 255 bytes, whole element area at most 255 bytes *)
Definition ow_wf (pins vid pid : Z) (els : dict) : Prop :=
  0 <= pins < 2 ^ 32 /\ byte vid /\ byte pid /\ NoDup (dict_keys els) /\
  (forall kv, In kv els -> 1 <= fst kv <= 3 /\ (length (snd kv) <= 255)%nat /\ bytes (snd kv)) /\
  (length (ow_area els) <= 255)%nat.
