(* C14/Model_misc.v — deck-memory info section (deck_memory.py), loco anchor lists (loco_memory.py,
   loco_memory_2.py), trajectory pieces (trajectory_memory.py), LED timing sequence
   (led_timings_driver_memory.py).  Definitions only. *)
From CF Require Export Common.Bytes.
From CF Require Import C14.Model C14.Model_lh.
Open Scope Z_scope.

(* ---------------------------------------------------------------- strict UTF-8 (bytes.decode()) *)

Definition inr8 (lo hi b : Z) : bool := (lo <=? b) && (b <=? hi).

(* fuel = number of bytes *)
Fixpoint utf8_ok (fuel : nat) (l : list Z) : bool :=
  match fuel with
  | O => match l with [] => true | _ => false end
  | S k =>
    match l with
    | [] => true
    | b0 :: t =>
      if b0 <? 128 then utf8_ok k t
      else if inr8 194 223 b0 then
        match t with b1 :: t' => inr8 128 191 b1 && utf8_ok k t' | _ => false end
      else if inr8 224 239 b0 then
        match t with
        | b1 :: b2 :: t' =>
          (if b0 =? 224 then inr8 160 191 b1 else if b0 =? 237 then inr8 128 159 b1 else inr8 128 191 b1)
          && inr8 128 191 b2 && utf8_ok k t'
        | _ => false
        end
      else if inr8 240 244 b0 then
        match t with
        | b1 :: b2 :: b3 :: t' =>
          (if b0 =? 240 then inr8 144 191 b1 else if b0 =? 244 then inr8 128 143 b1 else inr8 128 191 b1)
          && inr8 128 191 b2 && inr8 128 191 b3 && utf8_ok k t'
        | _ => false
        end
      else false
    end
  end.

(* ---------------------------------------------------------------- deck memory info section *)

(* bytes.split(b'\x00')[0] *)
Fixpoint until_nul (l : list Z) : list Z :=
  match l with
  | [] => []
  | b :: t => if b =? 0 then [] else b :: until_nul t
  end.

Record deck_info := mk_deck {
  d_bf1 : Z; d_bf2 : Z; d_hash : Z; d_len : Z; d_base : Z; d_name : list Z;
  d_cmd_base : Z }.

(* DeckMemory._parse on one 32-byte record; None = not valid (bit 0 clear, or decoding failed and the
   bit fields were reset) *)
Definition deck_parse_one (i : Z) (r : list Z) : option deck_info :=
  let bf1 := nthz 0 r in
  if Z.land bf1 1 =? 0 then None else
  let nm := until_nul (slice r 14 32) in
  if utf8_ok (length nm) nm then
    Some (mk_deck bf1 (nthz 1 r) (le_val (slice r 2 6)) (le_val (slice r 6 10)) (le_val (slice r 10 14)) nm
                  (4096 + i * 32))
  else None.

Inductive deck_res :=
| DK_Len                                               (* not the 257 bytes that query_decks reads *)
| DK_Version (v : Z)                                   (* RuntimeError: version not supported -> failed callback *)
| DK_Ok (decks : list (Z * deck_info)).                (* index -> deck, for the valid ones *)

Fixpoint deck_parse_all (n : nat) (i : Z) (d : list Z) : list (Z * deck_info) :=
  match n with
  | O => []
  | S k => match deck_parse_one i (firstn 32 d) with
           | Some x => (i, x) :: deck_parse_all k (i + 1) (skipn 32 d)
           | None => deck_parse_all k (i + 1) (skipn 32 d)
           end
  end.

Definition deck_parse (data : list Z) : deck_res :=
  if negb (length data =? 257)%nat then DK_Len else
  if negb (nthz 0 data =? 3) then DK_Version (nthz 0 data) else
  DK_Ok (deck_parse_all 8 0 (skipn 1 data)).

(* the properties of DeckMemory *)
Definition bit (x : Z) (mask : Z) : bool := negb (Z.land x mask =? 0).
Definition dk_is_valid d := bit (d_bf1 d) 1.
Definition dk_is_started d := bit (d_bf1 d) 2.
Definition dk_supports_read d := bit (d_bf1 d) 4.
Definition dk_supports_write d := bit (d_bf1 d) 8.
Definition dk_supports_fw_upgrade d := bit (d_bf1 d) 16.
Definition dk_is_fw_upgrade_required d := bit (d_bf1 d) 32.
Definition dk_is_bootloader_active d := bit (d_bf1 d) 64.
Definition dk_supports_reset_to_fw d := bit (d_bf2 d) 1.
Definition dk_supports_reset_to_bootloader d := bit (d_bf2 d) 2.

(* device side (specification): how the firmware lays out one record and the section *)
Definition zeros (n : nat) : list Z := repeat 0 n.
Definition deck_encode_one (d : deck_info) : list Z :=
  [d_bf1 d; d_bf2 d] ++ le_bytes 4 (d_hash d) ++ le_bytes 4 (d_len d) ++ le_bytes 4 (d_base d)
  ++ d_name d ++ zeros (18 - length (d_name d)).
Definition deck_encode (ds : list deck_info) : list Z := 3 :: concat (map deck_encode_one ds).

(* ---------------------------------------------------------------- loco anchors: '<fff?' pages *)

Record anchor := mk_anchor { a_x : Z; a_y : Z; a_z : Z; a_valid : bool }.

Definition anchor_unpack (d : list Z) : option anchor :=
  if (length d =? 13)%nat
  then Some (mk_anchor (le_val (slice d 0 4)) (le_val (slice d 4 8)) (le_val (slice d 8 12)) (negb (nthz 12 d =? 0)))
  else None.
Definition anchor_encode (a : anchor) : list Z :=
  le_bytes 4 (a_x a) ++ le_bytes 4 (a_y a) ++ le_bytes 4 (a_z a) ++ [b2z (a_valid a)].

(* LocoMemory.update(): the device holds the number of anchors at address 0 and page k at
   0x1000 + 0x100*k.  Result: requests issued (address, length), anchors decoded, valid. *)
Fixpoint loco_pages (n : nat) (k : Z) (pages : list (list Z)) : option (list (Z * Z) * list anchor) :=
  match n with
  | O => Some ([], [])
  | S m =>
    match pages with
    | [] => None
    | p :: ps =>
      match anchor_unpack p, loco_pages m (k + 1) ps with
      | Some a, Some (rq, an) => Some ((4096 + 256 * k, 13) :: rq, a :: an)
      | _, _ => None
      end
    end
  end.

(* None = outside the model (a page is missing or is not 13 bytes) *)
Definition loco_update (nr : Z) (pages : list (list Z)) : option (list (Z * Z) * list anchor * bool) :=
  match loco_pages (Z.to_nat nr) 0 pages with
  | Some (rq, an) => Some ((0, 1) :: rq, an, true)
  | None => None
  end.

(* LocoMemory2 id lists: 17 bytes = count, then up to 16 ids.  Never more ids than the bytes read can hold
   (repair F06k in /repo: count = min(count byte, len(data) - 1); before, a count byte above 16 raised IndexError) *)
Inductive idlist_res := IL_Ok (ids : list Z) | IL_Len.

Definition loco2_ids (d : list Z) : idlist_res :=
  if negb (length d =? 17)%nat then IL_Len else
  IL_Ok (firstn (Nat.min (Z.to_nat (nthz 0 d)) 16) (skipn 1 d)).

Fixpoint alist_get (k : Z) (l : list (Z * list Z)) : option (list Z) :=
  match l with
  | [] => None
  | (k', v) :: t => if k =? k' then Some v else alist_get k t
  end.

Fixpoint adict_set (k : Z) (v : anchor) (d : list (Z * anchor)) : list (Z * anchor) :=
  match d with
  | [] => [(k, v)]
  | (k', v') :: d' => if k =? k' then (k, v) :: d' else (k', v') :: adict_set k v d'
  end.

(* update_data(): one page per id of the id list, in list order, at 0x2000 + 0x100*id; the result
   dictionary is keyed by id (a repeated id is fetched again and overwrites) *)
Fixpoint loco2_data (ids : list Z) (pages : list (Z * list Z)) (rq : list (Z * Z)) (acc : list (Z * anchor))
  : option (list (Z * Z) * list (Z * anchor)) :=
  match ids with
  | [] => Some (rq, acc)
  | i :: t =>
    match alist_get i pages with
    | Some p => match anchor_unpack p with
                | Some a => loco2_data t pages (rq ++ [(8192 + 256 * i, 13)]) (adict_set i a acc)
                | None => None
                end
    | None => None
    end
  end.

(* ---------------------------------------------------------------- trajectory pieces *)

(* Poly4D.pack: 4 x 8 coefficients (x, y, z, yaw) and the duration: 33 floats = 132 bytes *)
Definition poly4d_pack (x y z yaw : list Z) (dur : Z) : option (list Z) :=
  if (length x =? 8)%nat && (length y =? 8)%nat && (length z =? 8)%nat && (length yaw =? 8)%nat
     && all32b (x ++ y ++ z ++ yaw ++ [dur])
  then Some (pack32 (x ++ y ++ z ++ yaw ++ [dur])) else None.

Definition i16b (v : Z) : bool := (-32768 <=? v) && (v <? 32768).
Definition pack_i16 (l : list Z) : list Z := concat (map (le_signed 2) l).

(* CompressedStart.pack on the already scaled integers (mm, mm, mm, 1/10 degree) *)
Definition cstart_pack (x y z yaw : Z) : option (list Z) :=
  if i16b x && i16b y && i16b z && i16b yaw then Some (pack_i16 [x; y; z; yaw]) else None.

Definition elem_type (n : nat) : option Z :=
  match n with 0%nat => Some 0 | 1%nat => Some 1 | 3%nat => Some 2 | 7%nat => Some 3 | _ => None end.

(* CompressedSegment: constructor validation + pack, on the already scaled integers *)
Definition cseg_pack (dur_ms : Z) (x y z yaw : list Z) : option (list Z) :=
  match elem_type (length x), elem_type (length y), elem_type (length z), elem_type (length yaw) with
  | Some tx, Some ty, Some tz, Some tw =>
    if (0 <=? dur_ms) && (dur_ms <? 65536) && forallb i16b (x ++ y ++ z ++ yaw) then
      Some ([Z.lor (Z.lor (Z.lor tx (Z.shiftl ty 2)) (Z.shiftl tz 4)) (Z.shiftl tw 6)]
            ++ le_bytes 2 dur_ms ++ pack_i16 x ++ pack_i16 y ++ pack_i16 z ++ pack_i16 yaw)
    else None
  | _, _, _, _ => None
  end.

(* the reader (specification): how the firmware walks one compressed segment *)
Definition type_len (t : Z) : nat :=
  if t =? 0 then 0%nat else if t =? 1 then 1%nat else if t =? 2 then 3%nat else 7%nat.
Fixpoint unpack_i16 (n : nat) (d : list Z) : list Z :=
  match n with
  | O => []
  | S k => le_signed_val (firstn 2 d) :: unpack_i16 k (skipn 2 d)
  end.
Definition cseg_read (d : list Z) : Z * list Z * list Z * list Z * list Z * list Z :=
  let t := nthz 0 d in
  let nx := type_len (Z.land t 3) in
  let ny := type_len (Z.land (Z.shiftr t 2) 3) in
  let nz := type_len (Z.land (Z.shiftr t 4) 3) in
  let nw := type_len (Z.land (Z.shiftr t 6) 3) in
  let d1 := skipn 3 d in
  let d2 := skipn (2 * nx) d1 in
  let d3 := skipn (2 * ny) d2 in
  let d4 := skipn (2 * nz) d3 in
  (le_val (slice d 1 3), unpack_i16 nx d1, unpack_i16 ny d2, unpack_i16 nz d3, unpack_i16 nw d4,
   skipn (2 * nw) d4).

(* ---------------------------------------------------------------- LED timing sequence *)

Record timing := mk_timing { t_time : Z; t_r : Z; t_g : Z; t_b : Z; t_leds : Z; t_fade : Z; t_rotate : Z }.

Definition timing_565 (t : timing) : Z :=
  let r5 := Z.land (Z.shiftr (Z.land (t_r t) 255 * 249 + 1014) 11) 31 in
  let g6 := Z.land (Z.shiftr (Z.land (t_g t) 255 * 253 + 505) 10) 63 in
  let b5 := Z.land (Z.shiftr (Z.land (t_b t) 255 * 249 + 1014) 11) 31 in
  Z.lor (Z.lor (Z.shiftl r5 11) (Z.shiftl g6 5)) b5.

Definition timing_extra (t : timing) : Z :=
  Z.lor (Z.lor (Z.land (t_leds t) 15) (Z.land (Z.shiftl (t_fade t) 4) 16)) (Z.land (Z.shiftl (t_rotate t) 5) 224).

Definition timing_record (t : timing) : list Z :=
  let led := timing_565 t in [Z.land (t_time t) 255; Z.shiftr led 8; Z.land led 255; timing_extra t].

Definition timing_nonzero (t : timing) : bool :=
  negb (Z.land (t_time t) 255 =? 0) || negb (timing_565 t =? 0) || negb (timing_extra t =? 0).

Definition timings_write (ts : list timing) : list Z :=
  concat (map timing_record (filter timing_nonzero ts)) ++ [0; 0; 0; 0].

(* the reader (specification): 4-byte records until the all-zero record *)
Fixpoint timings_read (fuel : nat) (d : list Z) : list (list Z) :=
  match fuel with
  | O => []
  | S k =>
    match d with
    | a :: b :: c :: e :: rest =>
      if (a =? 0) && (b =? 0) && (c =? 0) && (e =? 0) then [] else [a; b; c; e] :: timings_read k rest
    | _ => []
    end
  end.

(* ---------------------------------------------------------------- write histories of the write-only images
   Poly4D / CompressedStart / CompressedSegment objects, the timings list and the LED objects hold nothing but
   their fields: pack() / write_data() is a function of the CURRENT field values only.  A history of writes
   through one memory object is therefore the list of the images of the individual writes. *)

Inductive telem :=
| TPoly (x y z yaw : list Z) (dur : Z)
| TStart (x y z yaw : Z)
| TSeg (dms : Z) (x y z yaw : list Z).

Definition telem_pack (e : telem) : option (list Z) :=
  match e with
  | TPoly x y z yaw dur => poly4d_pack x y z yaw dur
  | TStart x y z yaw => cstart_pack x y z yaw
  | TSeg dms x y z yaw => cseg_pack dms x y z yaw
  end.

(* TrajectoryMemory.write_data: the pieces back to back; None = one of the packs raises (nothing is written) *)
Fixpoint traj_image (l : list telem) : option (list Z) :=
  match l with
  | [] => Some []
  | e :: t => match telem_pack e, traj_image t with
              | Some a, Some b => Some (a ++ b)
              | _, _ => None
              end
  end.

(* one write_data(start_addr): (address, bytes handed to the memory handler, returned byte count) *)
Definition traj_write (start : Z) (l : list telem) : option (Z * list Z * Z) :=
  match traj_image l with
  | Some img => Some (start, img, Z.of_nat (length img))
  | None => None
  end.

Definition traj_history (h : list (Z * list telem)) : list (option (Z * list Z * Z)) :=
  map (fun w => traj_write (fst w) (snd w)) h.

(* reading n compressed segments back to back, as the firmware does *)
Fixpoint csegs_read (n : nat) (d : list Z) : list (Z * list Z * list Z * list Z * list Z) * list Z :=
  match n with
  | O => ([], d)
  | S k => let '(dms, x, y, z, yaw, rest) := cseg_read d in
           let '(l, r) := csegs_read k rest in ((dms, x, y, z, yaw) :: l, r)
  end.

Definition seg_of (s : Z * list Z * list Z * list Z * list Z) : telem :=
  let '(dms, x, y, z, yaw) := s in TSeg dms x y z yaw.

(* LED ring (LEDDriverMemory): 12 LEDs, RGB565 scaled by the intensity (0..100), big endian *)
Record led := mk_led { l_r : Z; l_g : Z; l_b : Z; l_int : Z }.

Definition ring_565 (l : led) : Z :=
  let r5 := Z.land (Z.shiftr (Z.land (l_r l) 255 * 249 + 1014) 11) 31 * l_int l / 100 in
  let g6 := Z.land (Z.shiftr (Z.land (l_g l) 255 * 253 + 505) 10) 63 * l_int l / 100 in
  let b5 := Z.land (Z.shiftr (Z.land (l_b l) 255 * 249 + 1014) 11) 31 * l_int l / 100 in
  Z.lor (Z.lor (Z.shiftl r5 11) (Z.shiftl g6 5)) b5.

Definition ring_write (leds : list led) : list Z :=
  concat (map (fun l => let t := ring_565 l in [Z.shiftr t 8; Z.land t 255]) leds).

(* LED.set(r, g, b, intensity=None): `if intensity:` — None and 0 both leave the intensity as it was *)
Definition led_set (old : led) (r g b : Z) (i : option Z) : led :=
  mk_led r g b (match i with Some v => if v =? 0 then l_int old else v | None => l_int old end).

Definition timings_history (h : list (list timing)) : list (list Z) := map timings_write h.
Definition ring_history (h : list (list led)) : list (list Z) := map ring_write h.
