(* C14/Proofs_i2c.v — EEPROM image: round trip, validity = checksum, single-byte corruption. *)
From CF Require Import Common.Bytes C14.Model.
From Coq Require Import ZifyBool.
Open Scope Z_scope.
Ltac Zify.zify_post_hook ::= Z.to_euclidean_division_equations.

Lemma split32 a : Z.lor (Z.shiftl (Z.shiftr a 32) 32) (Z.land a 4294967295) = a.
Proof.
  change 4294967295 with (Z.ones 32).
  apply Z.bits_inj'. intros n Hn. rewrite Z.lor_spec, Z.land_spec.
  destruct (Z_lt_le_dec n 32) as [L|L].
  - rewrite Z.shiftl_spec_low by lia. rewrite Z.ones_spec_low by lia. cbn. now rewrite andb_true_r.
  - rewrite Z.shiftl_spec by lia. rewrite Z.shiftr_spec by lia. rewrite Z.ones_spec_high by lia.
    replace (n - 32 + 32) with n by lia. now rewrite andb_false_r, orb_false_r.
Qed.

Lemma land_ones32 a : Z.land a 4294967295 = a mod 2 ^ 32.
Proof. change 4294967295 with (Z.ones 32). apply Z.land_ones. lia. Qed.

Lemma shiftr32 a : Z.shiftr a 32 = a / 2 ^ 32.
Proof. apply Z.shiftr_div_pow2. lia. Qed.

Lemma le_val4 p : 0 <= p < 2 ^ 32 -> le_val (le_bytes 4 p) = p.
Proof. intros H. apply le_val_le_bytes_id. exact H. Qed.

Lemma le_bytes4_explicit p :
  le_bytes 4 p = [p mod 256; p / 256 mod 256; p / 256 / 256 mod 256; p / 256 / 256 / 256 mod 256].
Proof. reflexivity. Qed.

(* four bytes standing for a 32-bit field *)
Lemma le_bytes4_shape p : exists a b c d,
  le_bytes 4 p = [a; b; c; d] /\ byte a /\ byte b /\ byte c /\ byte d.
Proof.
  rewrite le_bytes4_explicit. do 4 eexists. split; [reflexivity|]. unfold byte. repeat split; apply Z.mod_pos_bound; lia.
Qed.

Lemma bool_true_intro (b : bool) : b = true -> forall A (x y : A), (if b then x else y) = x.
Proof. intros ->. reflexivity. Qed.

(* ---- the writer on well-formed contents ---- *)

Lemma i2c_write_v0 ch sp p r a :
  byte ch -> byte sp -> 0 <= p < 2 ^ 32 -> 0 <= r < 2 ^ 32 ->
  i2c_write (mk_i2c 0 ch sp p r a) =
  Some ((token ++ [0; ch; sp] ++ le_bytes 4 p ++ le_bytes 4 r) ++
        [sum256 (token ++ [0; ch; sp] ++ le_bytes 4 p ++ le_bytes 4 r)]).
Proof.
  intros Hc Hs Hp Hr. unfold i2c_write. cbn [i_version i_channel i_speed i_pitch i_roll i_addr].
  change (0 =? 0) with true. cbv iota.
  assert (E : byteb ch && byteb sp && ((0 <=? p) && (p <? 2 ^ 32) && (0 <=? r) && (r <? 2 ^ 32)) = true).
  { apply byteb_spec in Hc, Hs. rewrite Hc, Hs. lia. }
  rewrite E. reflexivity.
Qed.

Lemma i2c_write_v1 ch sp p r a :
  byte ch -> byte sp -> 0 <= p < 2 ^ 32 -> 0 <= r < 2 ^ 32 -> 0 <= a < 2 ^ 40 ->
  i2c_write (mk_i2c 1 ch sp p r (Some a)) =
  Some ((token ++ [1; ch; sp] ++ le_bytes 4 p ++ le_bytes 4 r ++ [Z.shiftr a 32]
         ++ le_bytes 4 (Z.land a 4294967295)) ++
        [sum256 (token ++ [1; ch; sp] ++ le_bytes 4 p ++ le_bytes 4 r ++ [Z.shiftr a 32]
                 ++ le_bytes 4 (Z.land a 4294967295))]).
Proof.
  intros Hc Hs Hp Hr Ha. unfold i2c_write. cbn [i_version i_channel i_speed i_pitch i_roll i_addr].
  change (1 =? 0) with false. change (1 =? 1) with true. cbv iota.
  assert (E : byteb ch && byteb sp && ((0 <=? p) && (p <? 2 ^ 32) && (0 <=? r) && (r <? 2 ^ 32))
              && byteb (Z.shiftr a 32) = true).
  { apply byteb_spec in Hc, Hs. rewrite Hc, Hs.
    assert (Hb : byteb (Z.shiftr a 32) = true).
    { apply byteb_spec. rewrite shiftr32. unfold byte.
      change (2 ^ 40) with (2 ^ 32 * 256) in Ha. split.
      - apply Z.div_pos; lia.
      - apply Z.div_lt_upper_bound; lia. }
    rewrite Hb. lia. }
  rewrite E. reflexivity.
Qed.

(* ---- the parser on explicit memories ---- *)

(* version 0: sixteen bytes are read *)
Lemma i2c_parse_v0_explicit b5 b6 b7 b8 b9 b10 b11 b12 b13 b14 b15 tail :
  i2c_parse (48 :: 120 :: 66 :: 67 :: 0 :: b5 :: b6 :: b7 :: b8 :: b9 :: b10 :: b11 :: b12 :: b13 :: b14 :: b15 :: tail) =
  I2C_Res (sum256 [48; 120; 66; 67; 0; b5; b6; b7; b8; b9; b10; b11; b12; b13; b14] =? b15) true
          (Some (mk_i2c 0 b5 b6 (le_val [b7; b8; b9; b10]) (le_val [b11; b12; b13; b14]) None)).
Proof. reflexivity. Qed.

Lemma i2c_parse_v1_explicit b5 b6 b7 b8 b9 b10 b11 b12 b13 b14 b15 b16 b17 b18 b19 b20 tail :
  i2c_parse (48 :: 120 :: 66 :: 67 :: 1 :: b5 :: b6 :: b7 :: b8 :: b9 :: b10 :: b11 :: b12 :: b13 :: b14 :: b15
             :: b16 :: b17 :: b18 :: b19 :: b20 :: tail) =
  I2C_Res (sum256 [48; 120; 66; 67; 1; b5; b6; b7; b8; b9; b10; b11; b12; b13; b14; b15; b16; b17; b18; b19]
           =? b20) true
          (Some (mk_i2c 1 b5 b6 (le_val [b7; b8; b9; b10]) (le_val [b11; b12; b13; b14])
                        (Some (Z.lor (Z.shiftl b15 32) (le_val [b16; b17; b18; b19]))))).
Proof. reflexivity. Qed.

(* ---- round trip ---- *)

Definition i2c_norm (f : i2c_fields) : i2c_fields :=
  if i_version f =? 0 then mk_i2c 0 (i_channel f) (i_speed f) (i_pitch f) (i_roll f) None else f.

Lemma i2c_roundtrip : forall f tail, i2c_wf f ->
  exists img, i2c_write f = Some img /\
              length img = (if i_version f =? 0 then 16%nat else 21%nat) /\
              i2c_parse (img ++ tail) = I2C_Res true true (Some (i2c_norm f)).
Proof.
  intros [ver ch sp p r ad] tail (Hc & Hs & Hp & Hr & Hv).
  cbn [i_version i_channel i_speed i_pitch i_roll i_addr] in *.
  destruct Hv as [[-> ->] | [-> (a & -> & Ha)]].
  - rewrite (i2c_write_v0 ch sp p r None Hc Hs Hp Hr). eexists. split; [reflexivity|]. split.
    + rewrite app_length. cbn. reflexivity.
    + pose proof (le_val4 p Hp) as Ep. pose proof (le_val4 r Hr) as Er.
      destruct (le_bytes4_shape p) as (p0 & p1 & p2 & p3 & Sp & _).
      destruct (le_bytes4_shape r) as (r0 & r1 & r2 & r3 & Sr & _).
      rewrite Sp, Sr in *. unfold token. cbn [app].
      rewrite (i2c_parse_v0_explicit ch sp p0 p1 p2 p3 r0 r1 r2 r3 _ tail).
      rewrite Z.eqb_refl, Ep, Er. reflexivity.
  - rewrite (i2c_write_v1 ch sp p r a Hc Hs Hp Hr Ha). eexists. split; [reflexivity|]. split.
    + rewrite !app_length. cbn. reflexivity.
    + pose proof (le_val4 p Hp) as Ep. pose proof (le_val4 r Hr) as Er.
      assert (Hl : 0 <= Z.land a 4294967295 < 2 ^ 32).
      { rewrite land_ones32. apply Z.mod_pos_bound. lia. }
      pose proof (le_val4 _ Hl) as El.
      destruct (le_bytes4_shape p) as (p0 & p1 & p2 & p3 & Sp & _).
      destruct (le_bytes4_shape r) as (r0 & r1 & r2 & r3 & Sr & _).
      destruct (le_bytes4_shape (Z.land a 4294967295)) as (a0 & a1 & a2 & a3 & Sa & _).
      rewrite Sp, Sr, Sa in *. unfold token. cbn [app].
      rewrite (i2c_parse_v1_explicit ch sp p0 p1 p2 p3 r0 r1 r2 r3 (Z.shiftr a 32) a0 a1 a2 a3 _ tail).
      rewrite Z.eqb_refl, Ep, Er, El, split32. reflexivity.
Qed.

(* ---- validity is exactly "token, known version, stored checksum = recomputed checksum" ---- *)

Ltac explode_list l n :=
  match n with
  | O => idtac
  | S ?k => let b := fresh "b" in
            destruct l as [|b l]; [cbn [length] in *; lia|]; explode_list l k
  end.

Lemma firstn4_token_inv b0 b1 b2 b3 : zlist_eqb [b0; b1; b2; b3] token = true ->
  b0 = 48 /\ b1 = 120 /\ b2 = 66 /\ b3 = 67.
Proof. intros H. apply zlist_eqb_spec in H. unfold token in H. injection H; auto. Qed.

Definition i2c_checksum_ok (mem : list Z) : Prop :=
  firstn 4 mem = token /\
  ((nthz 4 mem = 0 /\ sum256 (firstn 15 mem) = nthz 15 mem) \/
   (nthz 4 mem = 1 /\ sum256 (firstn 20 mem) = nthz 20 mem)).

Lemma i2c_valid_iff : forall mem, (21 <= length mem)%nat ->
  (i2c_valid (i2c_parse mem) = true <-> i2c_checksum_ok mem).
Proof.
  intros mem Hl. explode_list mem 21%nat. clear Hl. unfold i2c_checksum_ok.
  cbn [firstn nthz nth].
  unfold i2c_parse, read. cbn [length Nat.add Nat.leb firstn skipn].
  destruct (zlist_eqb [b; b0; b1; b2] token) eqn:T.
  - apply firstn4_token_inv in T as (-> & -> & -> & ->).
    unfold i2c_hdr_fields. cbn [i_version nthz nth].
    destruct (b3 =? 0) eqn:V0.
    + apply Z.eqb_eq in V0. subst b3. cbn [i2c_valid firstn nthz nth]. rewrite Z.eqb_eq.
      split.
      * intros E. split; [reflexivity|]. left. split; [reflexivity|exact E].
      * intros (_ & [[_ E] | [E _]]); [exact E|discriminate].
    + destruct (b3 =? 1) eqn:V1.
      * apply Z.eqb_eq in V1. subst b3. cbn [i2c_valid app firstn nthz nth]. rewrite Z.eqb_eq.
        split.
        -- intros E. split; [reflexivity|]. right. split; [reflexivity|exact E].
        -- intros (_ & [[E _] | [_ E]]); [discriminate|exact E].
      * cbn [i2c_valid]. split; [discriminate|].
        intros (_ & [[E _] | [E _]]); lia.
  - cbn [i2c_valid]. split; [discriminate|]. intros (E & _).
    unfold token in E. injection E as -> -> -> ->. discriminate.
Qed.

(* ---- single-byte corruption ---- *)

Lemma i2c_image_shape : forall f img, i2c_wf f -> i2c_write f = Some img ->
  exists b5 b6 b7 b8 b9 b10 b11 b12 b13 b14,
    byte b5 /\ byte b6 /\ byte b7 /\ byte b8 /\ byte b9 /\ byte b10 /\ byte b11 /\ byte b12 /\
    byte b13 /\ byte b14 /\
    ((i_version f = 0 /\
      img = [48; 120; 66; 67; 0; b5; b6; b7; b8; b9; b10; b11; b12; b13; b14;
             sum256 [48; 120; 66; 67; 0; b5; b6; b7; b8; b9; b10; b11; b12; b13; b14]]) \/
     (i_version f = 1 /\ exists b15 b16 b17 b18 b19,
      byte b15 /\ byte b16 /\ byte b17 /\ byte b18 /\ byte b19 /\
      (forall a, i_addr f = Some a -> b15 = Z.shiftr a 32) /\
      img = [48; 120; 66; 67; 1; b5; b6; b7; b8; b9; b10; b11; b12; b13; b14; b15; b16; b17; b18; b19;
             sum256 [48; 120; 66; 67; 1; b5; b6; b7; b8; b9; b10; b11; b12; b13; b14; b15; b16; b17; b18; b19]])).
Proof.
  intros [ver ch sp p r ad] img (Hc & Hs & Hp & Hr & Hv) W.
  cbn [i_version i_channel i_speed i_pitch i_roll i_addr] in *.
  destruct (le_bytes4_shape p) as (p0 & p1 & p2 & p3 & Sp & ? & ? & ? & ?).
  destruct (le_bytes4_shape r) as (r0 & r1 & r2 & r3 & Sr & ? & ? & ? & ?).
  exists ch, sp, p0, p1, p2, p3, r0, r1, r2, r3. repeat (split; [assumption|]).
  destruct Hv as [[-> ->] | [-> (a & -> & Ha)]].
  - left. split; [reflexivity|].
    rewrite (i2c_write_v0 ch sp p r None Hc Hs Hp Hr), Sp, Sr in W. injection W as <-. reflexivity.
  - right. split; [reflexivity|].
    destruct (le_bytes4_shape (Z.land a 4294967295)) as (a0 & a1 & a2 & a3 & Sa & ? & ? & ? & ?).
    exists (Z.shiftr a 32), a0, a1, a2, a3.
    assert (Hb : byte (Z.shiftr a 32)).
    { rewrite shiftr32. unfold byte. change (2 ^ 40) with (2 ^ 32 * 256) in Ha. split.
      - apply Z.div_pos; lia.
      - apply Z.div_lt_upper_bound; lia. }
    repeat (split; [assumption|]). split.
    + intros a' E. injection E as <-. reflexivity.
    + rewrite (i2c_write_v1 ch sp p r a Hc Hs Hp Hr Ha), Sp, Sr, Sa in W. injection W as <-. reflexivity.
Qed.

Ltac byte_facts := unfold byte in *; unfold sum256 in *; cbn [sumz] in *.

(* any position other than the version byte *)
Lemma i2c_corruption_detected : forall f img tail p v,
  i2c_wf f -> i2c_write f = Some img -> (p < length img)%nat -> p <> 4%nat ->
  byte v -> v <> nthz p img ->
  i2c_valid (i2c_parse (upd p v img ++ tail)) = false.
Proof.
  intros f img tail p v Hwf W Hp H4 Hv Hne.
  destruct (i2c_image_shape f img Hwf W)
    as (b5 & b6 & b7 & b8 & b9 & b10 & b11 & b12 & b13 & b14 & B5 & B6 & B7 & B8 & B9 & B10 & B11 & B12
        & B13 & B14 & [[_ ->] | [_ (b15 & b16 & b17 & b18 & b19 & B15 & B16 & B17 & B18 & B19 & _ & ->)]]).
  - cbn [length] in Hp.
    do 16 (destruct p as [|p]; [cbn [upd app nthz nth] in *;
      first [ congruence
            | rewrite i2c_parse_v0_explicit; cbn [i2c_valid]; apply Z.eqb_neq; byte_facts; lia
            | unfold i2c_parse, read; cbn [length Nat.add Nat.leb firstn skipn];
              destruct (zlist_eqb _ token) eqn:T;
              [apply firstn4_token_inv in T; destruct T as (? & ? & ? & ?); congruence | reflexivity] ] |]).
    lia.
  - cbn [length] in Hp.
    do 21 (destruct p as [|p]; [cbn [upd app nthz nth] in *;
      first [ congruence
            | rewrite i2c_parse_v1_explicit; cbn [i2c_valid]; apply Z.eqb_neq; byte_facts; lia
            | unfold i2c_parse, read; cbn [length Nat.add Nat.leb firstn skipn];
              destruct (zlist_eqb _ token) eqn:T;
              [apply firstn4_token_inv in T; destruct T as (? & ? & ? & ?); congruence | reflexivity] ] |]).
    lia.
Qed.

(* the version byte of a version-1 image read as 0: the checksum byte position moves to byte 15 *)
Lemma i2c_version_1_to_0 : forall f img tail a,
  i2c_wf f -> i2c_write f = Some img -> i_version f = 1 -> i_addr f = Some a ->
  (i2c_valid (i2c_parse (upd 4 0 img ++ tail)) = true <->
   (sum256 (firstn 15 img) + 255) mod 256 = Z.shiftr a 32).
Proof.
  intros f img tail a Hwf W V A.
  destruct (i2c_image_shape f img Hwf W)
    as (b5 & b6 & b7 & b8 & b9 & b10 & b11 & b12 & b13 & b14 & B5 & B6 & B7 & B8 & B9 & B10 & B11 & B12
        & B13 & B14 & [[V0 _] | [_ (b15 & b16 & b17 & b18 & b19 & B15 & B16 & B17 & B18 & B19 & HA & ->)]]).
  - congruence.
  - rewrite <- (HA a A). cbn [upd app firstn].
    rewrite i2c_parse_v0_explicit. cbn [i2c_valid]. rewrite Z.eqb_eq. byte_facts. lia.
Qed.

(* the version byte of a version-0 image read as 1: five more bytes (whatever follows the image in the
   EEPROM) are read and the checksum position moves to byte 20 *)
Lemma i2c_version_0_to_1 : forall f img t0 t1 t2 t3 t4 tail,
  i2c_wf f -> i2c_write f = Some img -> i_version f = 0 ->
  (i2c_valid (i2c_parse (upd 4 1 img ++ t0 :: t1 :: t2 :: t3 :: t4 :: tail)) = true <->
   (sum256 (firstn 15 img) + 1 + nthz 15 img + t0 + t1 + t2 + t3) mod 256 = t4).
Proof.
  intros f img t0 t1 t2 t3 t4 tail Hwf W V.
  destruct (i2c_image_shape f img Hwf W)
    as (b5 & b6 & b7 & b8 & b9 & b10 & b11 & b12 & b13 & b14 & B5 & B6 & B7 & B8 & B9 & B10 & B11 & B12
        & B13 & B14 & [[_ ->] | [V1 _]]).
  - cbn [upd app firstn nthz nth]. rewrite i2c_parse_v1_explicit. cbn [i2c_valid]. rewrite Z.eqb_eq.
    byte_facts. lia.
  - congruence.
Qed.

(* the version byte changed to anything but 0 or 1: valid is False (and the update completes, F14c repaired) *)
Lemma i2c_version_other : forall f img tail v,
  i2c_wf f -> i2c_write f = Some img -> v <> 0 -> v <> 1 ->
  exists e, i2c_parse (upd 4 v img ++ tail) = I2C_Res false true e.
Proof.
  intros f img tail v Hwf W V0 V1.
  destruct (i2c_image_shape f img Hwf W)
    as (b5 & b6 & b7 & b8 & b9 & b10 & b11 & b12 & b13 & b14 & _ & _ & _ & _ & _ & _ & _ & _
        & _ & _ & [[_ ->] | [_ (b15 & b16 & b17 & b18 & b19 & _ & _ & _ & _ & _ & _ & ->)]]).
  - cbn [upd app]. unfold i2c_parse, read. cbn [length Nat.add Nat.leb firstn skipn].
    change (zlist_eqb [48; 120; 66; 67] token) with true. cbv iota.
    unfold i2c_hdr_fields. cbn [i_version nthz nth].
    destruct (v =? 0) eqn:E0; [lia|]. destruct (v =? 1) eqn:E1; [lia|]. eexists. reflexivity.
  - cbn [upd app]. unfold i2c_parse, read. cbn [length Nat.add Nat.leb firstn skipn].
    change (zlist_eqb [48; 120; 66; 67] token) with true. cbv iota.
    unfold i2c_hdr_fields. cbn [i_version nthz nth].
    destruct (v =? 0) eqn:E0; [lia|]. destruct (v =? 1) eqn:E1; [lia|]. eexists. reflexivity.
Qed.

(* F14b: a version-1 image for channel 184, 2 Mbit/s, zero trims, address 0xE7E7E7E7E7 whose version
   byte is corrupted to 0 is accepted (as a version-0 image, radio address lost) *)
Definition f14b_fields : i2c_fields := mk_i2c 1 184 2 0 0 (Some 996028180455).

Lemma i2c_f14b : exists img, i2c_wf f14b_fields /\ i2c_write f14b_fields = Some img /\
  nthz 4 img = 1 /\
  i2c_parse (upd 4 0 img) = I2C_Res true true (Some (mk_i2c 0 184 2 0 0 None)).
Proof.
  eexists. split; [|split; [vm_compute; reflexivity|split; vm_compute; reflexivity]].
  unfold i2c_wf, f14b_fields, byte. cbn [i_version i_channel i_speed i_pitch i_roll i_addr].
  repeat split; try lia. right. split; [reflexivity|]. exists 996028180455. split; [reflexivity|lia].
Qed.
