(* C14/Property.v — property C14 (stored configuration images), theorems only.
   Each is closed by `exact <lemma>` and followed by Print Assumptions. *)
From CF Require Import Common.Bytes C14.Model C14.Model_lh C14.Model_misc C14.Proofs_i2c C14.Proofs_ow C14.Proofs_lh C14.Proofs_misc C14.Model_hist C14.Proofs_hist C14.Model_seq C14.Proofs_seq C14.Model_loco C14.Proofs_loco.
Open Scope Z_scope.

(* ------------------------------------------------------------------ EEPROM radio configuration *)

(* Every representable content (version 0: channel, speed, two float32 trims; version 1: plus a
   40-bit radio address) is written as an image of 16 resp. 21 bytes which, wherever it sits in front
   of other EEPROM bytes, parses back to exactly the same fields, is reported valid, and completes. *)
Theorem C14_i2c_roundtrip : forall f tail, i2c_wf f ->
  exists img, i2c_write f = Some img /\
              length img = (if i_version f =? 0 then 16%nat else 21%nat) /\
              i2c_parse (img ++ tail) = I2C_Res true true (Some (i2c_norm f)).
Proof. exact i2c_roundtrip. Qed.
Print Assumptions C14_i2c_roundtrip.

(* valid is True exactly when the token is there, the version is 0 or 1 and the stored checksum
   (byte 15 resp. byte 20) equals the modulo-256 sum of all bytes before it *)
Theorem C14_i2c_valid_iff_checksum : forall mem, (21 <= length mem)%nat ->
  (i2c_valid (i2c_parse mem) = true <->
   firstn 4 mem = token /\
   ((nthz 4 mem = 0 /\ sum256 (firstn 15 mem) = nthz 15 mem) \/
    (nthz 4 mem = 1 /\ sum256 (firstn 20 mem) = nthz 20 mem))).
Proof. exact i2c_valid_iff. Qed.
Print Assumptions C14_i2c_valid_iff_checksum.

(* any single byte of a correctly written image, other than the version byte, changed to any other
   value: the image is not reported valid *)
Theorem C14_i2c_single_byte_corruption_detected : forall f img tail p v,
  i2c_wf f -> i2c_write f = Some img -> (p < length img)%nat -> p <> 4%nat ->
  byte v -> v <> nthz p img ->
  i2c_valid (i2c_parse (upd p v img ++ tail)) = false.
Proof. exact i2c_corruption_detected. Qed.
Print Assumptions C14_i2c_single_byte_corruption_detected.

(* the version byte changed to a value other than 0/1: valid is False, and the update completes (callback
   delivered; F14c repaired) *)
Theorem C14_i2c_version_byte_to_unknown_detected : forall f img tail v,
  i2c_wf f -> i2c_write f = Some img -> v <> 0 -> v <> 1 ->
  exists e, i2c_parse (upd 4 v img ++ tail) = I2C_Res false true e.
Proof. exact i2c_version_other. Qed.
Print Assumptions C14_i2c_version_byte_to_unknown_detected.

(* the version byte of a version-1 image changed to 0 is accepted exactly when the byte that then
   sits at the version-0 checksum position (the top byte of the radio address) happens to equal the
   sum of the 15 bytes before it: the format, not the arithmetic, lets 1 image in 256 through *)
Theorem C14_i2c_version_1_to_0_escapes_iff : forall f img tail a,
  i2c_wf f -> i2c_write f = Some img -> i_version f = 1 -> i_addr f = Some a ->
  (i2c_valid (i2c_parse (upd 4 0 img ++ tail)) = true <->
   (sum256 (firstn 15 img) + 255) mod 256 = Z.shiftr a 32).
Proof. exact i2c_version_1_to_0. Qed.
Print Assumptions C14_i2c_version_1_to_0_escapes_iff.

(* the other direction: a version-0 image whose version byte reads 1 is checked against byte 20, i.e.
   against whatever five bytes follow the image in the EEPROM *)
Theorem C14_i2c_version_0_to_1_escapes_iff : forall f img t0 t1 t2 t3 t4 tail,
  i2c_wf f -> i2c_write f = Some img -> i_version f = 0 ->
  (i2c_valid (i2c_parse (upd 4 1 img ++ t0 :: t1 :: t2 :: t3 :: t4 :: tail)) = true <->
   (sum256 (firstn 15 img) + 1 + nthz 15 img + t0 + t1 + t2 + t3) mod 256 = t4).
Proof. exact i2c_version_0_to_1. Qed.
Print Assumptions C14_i2c_version_0_to_1_escapes_iff.

(* finding F14b: the clause "any single corrupted EEPROM byte is detected" is false for the version
   byte.  Witness: channel 184, speed 2, zero trims, address 0xE7E7E7E7E7 *)
Theorem C14_i2c_single_byte_corruption_refuted :
  exists img, i2c_wf f14b_fields /\ i2c_write f14b_fields = Some img /\ nthz 4 img = 1 /\
    i2c_parse (upd 4 0 img) = I2C_Res true true (Some (mk_i2c 0 184 2 0 0 None)).
Proof. exact i2c_f14b. Qed.
Print Assumptions C14_i2c_single_byte_corruption_refuted.

(* ------------------------------------------------------------------ 1-wire deck identity *)

(* Every representable content (32-bit pins, vid, pid, at most one string per element id, strings of
   every length that fits) round-trips: the parsed dictionary holds exactly the written elements (in
   the reverse insertion order, which a Python dict comparison ignores), the image is valid, the
   update completes, nothing raises. *)
Theorem C14_ow_roundtrip : forall pins vid pid els tail, ow_wf pins vid pid els ->
  exists img, ow_write pins vid pid els = Some img /\
    ow_parse (img ++ tail) = OW_Res (mk_ow true true pins vid pid (rev els) None).
Proof. exact ow_roundtrip. Qed.
Print Assumptions C14_ow_roundtrip.

(* valid is True exactly when the start byte is 0xEB, the stored header CRC equals the low byte of
   CRC-32 over the 7 header bytes, the element area (length byte n) lies inside the memory, its stored
   CRC equals the low byte of CRC-32 over version, length and the n element bytes, and the walk over
   the elements does not raise *)
Theorem C14_ow_valid_iff_crcs : forall mem, (11 <= length mem)%nat ->
  (ow_is_valid (ow_parse mem) = true <->
   nthz 0 mem = 235 /\ nthz 7 mem = crc8 (firstn 7 mem) /\
   let n := Z.to_nat (nthz 9 mem) in
   (11 + n <= length mem)%nat /\
   crc8 (slice mem 8 (10 + n)) = nthz (10 + n) mem /\
   snd (ow_elems (2 + n) (slice mem 10 (10 + n)) []) = None).
Proof. exact ow_valid_iff. Qed.
Print Assumptions C14_ow_valid_iff_crcs.

(* finding F14a (repaired by fixes/F14a.patch; ow_parse models the repaired code): the unrepaired
   new_data accepted the image of a deck whose only element is the revision string "1.0" as valid
   with no elements at all, because CRC-32 of the single length byte 05 ends in 02, the id of the
   first element *)
Theorem C14_ow_shortcut_defect :
  exists pins vid pid els img,
    ow_wf pins vid pid els /\ els <> [] /\ ow_write pins vid pid els = Some img /\
    ow_parse_unrepaired img = OW_Res (mk_ow true true pins vid pid [] None) /\
    ow_parse img = OW_Res (mk_ow true true pins vid pid (rev els) None).
Proof. exact ow_shortcut_defect. Qed.
Print Assumptions C14_ow_shortcut_defect.

(* ------------------------------------------------------------------ lighthouse geometry / calibration in memory *)

(* geometry: 12 float32 (origin, rotation matrix row by row) and the valid flag <-> 49 bytes *)
Theorem C14_lh_geo_roundtrip : forall g, geo_wf g ->
  exists d, geo_pack g = Some d /\ length d = 49%nat /\ geo_unpack d = Some g.
Proof. exact geo_roundtrip. Qed.
Print Assumptions C14_lh_geo_roundtrip.

(* field k (origin x,y,z, then m00 m01 m02 m10 ...) at bytes 4k..4k+3, little endian; valid at byte 48 *)
Theorem C14_layout_lh_geo : forall g d, geo_wf g -> geo_pack g = Some d ->
  length d = 49%nat /\
  (forall k, (k < 12)%nat -> slice d (4 * k) (4 * k + 4) = le_bytes 4 (nth k (g_floats g) 0)) /\
  nthz 48 d = b2z (g_valid g).
Proof. exact geo_layout. Qed.
Print Assumptions C14_layout_lh_geo.

Theorem C14_lh_calib_roundtrip : forall c, calib_wf c ->
  exists d, calib_pack c = Some d /\ length d = 61%nat /\ calib_unpack d = Some c.
Proof. exact calib_roundtrip. Qed.
Print Assumptions C14_lh_calib_roundtrip.

(* sweep 0 (phase tilt curve gibmag gibphase ogeemag ogeephase) at 0..27, sweep 1 at 28..55, uid at 56..59,
   valid at 60 *)
Theorem C14_layout_lh_calib : forall c d, calib_wf c -> calib_pack c = Some d ->
  length d = 61%nat /\
  (forall k, (k < 14)%nat -> slice d (4 * k) (4 * k + 4) = le_bytes 4 (nth k (c_floats c) 0)) /\
  slice d 56 60 = le_bytes 4 (c_uid c) /\ nthz 60 d = b2z (c_valid c).
Proof. exact calib_layout. Qed.
Print Assumptions C14_layout_lh_calib.

(* through LighthouseMemory: for each of the 16 base stations the write goes to exactly the address and
   length that the read of the same base station requests, and new_data at that address decodes the
   object that was written (geometry below 0x1000, calibration from 0x1000) *)
Theorem C14_lh_memory_roundtrip_geo : forall bs g, 0 <= bs < 16 -> geo_wf g ->
  exists d, lh_write_geo bs g = Some (fst (lh_read_geo bs), d) /\
            Z.of_nat (length d) = snd (lh_read_geo bs) /\
            lh_new_data (fst (lh_read_geo bs)) d = LGeo g.
Proof. exact lh_mem_roundtrip_geo. Qed.
Print Assumptions C14_lh_memory_roundtrip_geo.

Theorem C14_lh_memory_roundtrip_calib : forall bs c, 0 <= bs < 16 -> calib_wf c ->
  exists d, lh_write_calib bs c = Some (fst (lh_read_calib bs), d) /\
            Z.of_nat (length d) = snd (lh_read_calib bs) /\
            lh_new_data (fst (lh_read_calib bs)) d = LCalib c.
Proof. exact lh_mem_roundtrip_calib. Qed.
Print Assumptions C14_lh_memory_roundtrip_calib.

(* ------------------------------------------------------------------ YAML files
   The YAML library is a parameter: any dump/load pair with load (dump d) = Some d FOR PLAIN DATA d (yv_plain:
   None/bool/int/str, non-NaN floats, lists, dicts with str/int keys; a tuple or any other object is not a yv at
   all).  The harness checks on every run that what the library hands to yaml.dump is inside this domain and that
   the real PyYAML round-trips it through a real file.  Any subset of base stations. *)

(* lighthouse system configuration file: read (write geos calibs system_type) returns exactly the objects
   that were valid, marked valid, and the system type; invalid ones are not written *)
Theorem C14_lh_file_roundtrip :
  forall (file : Type) (yaml_dump : yv -> file) (yaml_safe_load : file -> option yv),
  (forall d, yv_plain d = true -> yaml_safe_load (yaml_dump d) = Some d) ->
  forall geos calibs st, calibs_wf calibs -> yv_plain (lh_file_data geos calibs st) = true ->
    lh_cfg_read file yaml_safe_load (lh_cfg_write file yaml_dump geos calibs st) =
    LF_Ok (map (fun kg => (fst kg, geo_as_read (snd kg))) (filter (fun kg => fg_valid (snd kg)) geos))
          (map (fun kc => (fst kc, calib_as_read (snd kc))) (filter (fun kc => fc_valid (snd kc)) calibs))
          st.
Proof. exact lh_cfg_roundtrip. Qed.
Print Assumptions C14_lh_file_roundtrip.

(* persistent-parameter file: every (is_stored, default_value, stored_value) triple comes back *)
Theorem C14_param_file_roundtrip :
  forall (file : Type) (yaml_dump : yv -> file) (yaml_safe_load : file -> option yv),
  (forall d, yv_plain d = true -> yaml_safe_load (yaml_dump d) = Some d) ->
  forall params, yv_plain (param_file_data params) = true ->
    param_cfg_read file yaml_safe_load (param_cfg_write file yaml_dump params) = PF_Ok params.
Proof. exact param_cfg_roundtrip. Qed.
Print Assumptions C14_param_file_roundtrip.

(* across the representations: memory images -> objects (set_from_mem_data: LISTS of the floats struct returns)
   -> configuration file -> objects -> memory images (add_mem_data).  Every base station whose image is marked
   valid comes back with exactly the fields it had (so add_mem_data writes the same 49 / 61 bytes); w / n are
   struct's binary32 <-> Python-float conversions, required to be exact on the values involved *)
Theorem C14_lh_geo_memory_file_memory :
  forall (file : Type) (yaml_dump : yv -> file) (yaml_safe_load : file -> option yv),
  (forall d, yv_plain d = true -> yaml_safe_load (yaml_dump d) = Some d) ->
  forall (w n : Z -> Z) (geos : list (yv * lh_geo)) st,
    (forall kg, In kg geos -> length (g_floats (snd kg)) = 12%nat /\ Forall (fun b => n (w b) = b) (g_floats (snd kg))) ->
    let objs := map (fun kg => (fst kg, geo_obj_of_mem w (snd kg))) geos in
    yv_plain (lh_file_data objs [] st) = true ->
    exists back, lh_cfg_read file yaml_safe_load (lh_cfg_write file yaml_dump objs [] st) = LF_Ok back [] st /\
      map (fun ko => (fst ko, geo_mem_of_obj n (snd ko))) back =
      map (fun kg => (fst kg, Some (snd kg))) (filter (fun kg => g_valid (snd kg)) geos).
Proof. exact lh_geo_mem_file_mem. Qed.
Print Assumptions C14_lh_geo_memory_file_memory.

Theorem C14_lh_calib_memory_file_memory :
  forall (file : Type) (yaml_dump : yv -> file) (yaml_safe_load : file -> option yv),
  (forall d, yv_plain d = true -> yaml_safe_load (yaml_dump d) = Some d) ->
  forall (w n : Z -> Z) (calibs : list (yv * lh_calib)) st,
    (forall kc, In kc calibs -> length (c_floats (snd kc)) = 14%nat /\ Forall (fun b => n (w b) = b) (c_floats (snd kc))) ->
    let objs := map (fun kc => (fst kc, calib_obj_of_mem w (snd kc))) calibs in
    yv_plain (lh_file_data [] objs st) = true ->
    exists back, lh_cfg_read file yaml_safe_load (lh_cfg_write file yaml_dump [] objs st) = LF_Ok [] back st /\
      map (fun ko => (fst ko, calib_mem_of_obj n (snd ko))) back =
      map (fun kc => (fst kc, Some (snd kc))) (filter (fun kc => c_valid (snd kc)) calibs).
Proof. exact lh_calib_mem_file_mem. Qed.
Print Assumptions C14_lh_calib_memory_file_memory.

(* ------------------------------------------------------------------ deck-memory info section *)

(* version byte 3 and eight 32-byte records: record i is decoded independently of the others; the result
   holds exactly the records whose valid bit is set (and whose name decodes) *)
Theorem C14_deck_info_section : forall rs, length rs = 8%nat -> Forall (fun r => length r = 32%nat) rs ->
  deck_parse (3 :: concat rs) = DK_Ok (deck_collect 0 rs).
Proof. exact deck_parse_records. Qed.
Print Assumptions C14_deck_info_section.

(* a record as the device encodes it (bit fields, hash, length, base address, NUL-padded UTF-8 name of at most
   18 bytes) parses to exactly those fields, with the command address 0x1000 + 0x20*i; a record whose valid
   bit is clear is skipped *)
Theorem C14_deck_info_fields : forall i d, deck_wf d ->
  deck_parse_one i (deck_encode_one d) = if dk_is_valid d then Some (deck_at i d) else None.
Proof. exact deck_record_fields. Qed.
Print Assumptions C14_deck_info_fields.

(* all bit-field combinations: each property of DeckMemory is exactly one bit *)
Theorem C14_deck_info_bit_fields : forall d, byte (d_bf1 d) -> byte (d_bf2 d) ->
  dk_is_valid d = Z.testbit (d_bf1 d) 0 /\ dk_is_started d = Z.testbit (d_bf1 d) 1 /\
  dk_supports_read d = Z.testbit (d_bf1 d) 2 /\ dk_supports_write d = Z.testbit (d_bf1 d) 3 /\
  dk_supports_fw_upgrade d = Z.testbit (d_bf1 d) 4 /\ dk_is_fw_upgrade_required d = Z.testbit (d_bf1 d) 5 /\
  dk_is_bootloader_active d = Z.testbit (d_bf1 d) 6 /\
  dk_supports_reset_to_fw d = Z.testbit (d_bf2 d) 0 /\ dk_supports_reset_to_bootloader d = Z.testbit (d_bf2 d) 1.
Proof. exact deck_bit_fields. Qed.
Print Assumptions C14_deck_info_bit_fields.

(* ------------------------------------------------------------------ anchor lists *)

Theorem C14_anchor_list_loco : forall anchors, Forall anchor_wf anchors -> (length anchors <= 255)%nat ->
  loco_update (Z.of_nat (length anchors)) (map anchor_encode anchors) =
  Some ((0, 1) :: map (fun j => (4096 + 256 * j, 13)) (seqz 0 (length anchors)), anchors, true).
Proof. exact loco_anchor_list. Qed.
Print Assumptions C14_anchor_list_loco.

Theorem C14_anchor_id_list_loco2 : forall ids pad, (length ids <= 16)%nat -> length (ids ++ pad) = 16%nat ->
  loco2_ids (Z.of_nat (length ids) :: ids ++ pad) = IL_Ok ids.
Proof. exact loco2_id_list. Qed.
Print Assumptions C14_anchor_id_list_loco2.

(* a count byte above 16: exactly the 16 ids that were read are taken, nr_of_anchors = 16, no exception
   (repaired behaviour, /repo 5b679e8) *)
Theorem C14_anchor_id_list_loco2_overflow : forall n rest, 16 < n -> length rest = 16%nat ->
  loco2_ids (n :: rest) = IL_Ok rest.
Proof. exact loco2_id_list_overflow. Qed.
Print Assumptions C14_anchor_id_list_loco2_overflow.

(* ------------------------------------------------------------------ write-only images *)

(* Poly4D: 33 float32 = x[8] y[8] z[8] yaw[8] duration, 132 bytes, coefficient k at bytes 4k..4k+3 *)
Theorem C14_layout_poly4d : forall x y z yaw dur d, poly4d_pack x y z yaw dur = Some d ->
  length d = 132%nat /\
  forall k, (k < 33)%nat -> slice d (4 * k) (4 * k + 4) = le_bytes 4 (nth k (x ++ y ++ z ++ yaw ++ [dur]) 0).
Proof. exact poly4d_layout. Qed.
Print Assumptions C14_layout_poly4d.

(* compressed segment: the firmware-side walk (type byte, uint16 duration, then 0/1/3/7 int16 per axis)
   recovers duration and all four coefficient lists and stops exactly at the end of the segment *)
Theorem C14_layout_compressed_segment : forall dms x y z yaw d rest, cseg_pack dms x y z yaw = Some d ->
  cseg_read (d ++ rest) = (dms, x, y, z, yaw, rest).
Proof. exact cseg_layout. Qed.
Print Assumptions C14_layout_compressed_segment.

(* LED timing sequence: reading 4-byte records up to the all-zero record gives exactly the records of the
   non-empty timings in order *)
Theorem C14_layout_led_timings : forall ts,
  timings_read (S (length ts)) (timings_write ts) = map timing_record (filter timing_nonzero ts).
Proof. exact timings_layout. Qed.
Print Assumptions C14_layout_led_timings.

(* ------------------------------------------------------------------ histories on one element object
   Any sequence of update() / write_data() / disconnect() on ONE I2CElement resp. OWElement, with the device
   image changing arbitrarily in between (ICorrupt, ISetMem).  update() resets valid, so: *)

(* after any history, the verdict of the next update() is the verdict of THAT read alone: the checksum verdict a
   fresh object would give for the current device image, or False when the update is not carried out at all
   because an earlier read never completed (unknown version byte / failed read request) *)
Theorem C14_i2c_valid_reflects_last_read : forall ops mem,
  let st := fst (i2c_run ops) in
  is_valid (fst (i2c_update st mem)) = negb (is_pending st) && i2c_valid (i2c_parse mem).
Proof. exact i2c_valid_last_read. Qed.
Print Assumptions C14_i2c_valid_reflects_last_read.

(* no history reaches a state that is both valid and waiting for a read *)
Theorem C14_i2c_pending_implies_not_valid : forall ops,
  is_pending (fst (i2c_run ops)) = true -> is_valid (fst (i2c_run ops)) = false.
Proof. exact i2c_run_inv. Qed.
Print Assumptions C14_i2c_pending_implies_not_valid.

(* F14c repaired: on a device that serves the two read requests every update completes, whatever the image
   holds (unknown version bytes included): callback delivered exactly once, nothing stays pending; so the
   "not pending" factor above can only come from a failed read request (a device error) *)
Theorem C14_i2c_update_completes : forall st mem, is_pending st = false -> (21 <= length mem)%nat ->
  is_pending (fst (i2c_update st mem)) = false /\ is_cbs (fst (i2c_update st mem)) = is_cbs st + 1 /\
  1 <= snd (i2c_update st mem) <= 2.
Proof. exact i2c_update_completes. Qed.
Print Assumptions C14_i2c_update_completes.

(* F14e repaired: a valid read reports exactly the fields of the image read (no radio address left over from an
   earlier version-1 image), whatever the object read or was given before *)
Theorem C14_i2c_fields_reflect_last_read : forall st mem cb f, is_pending st = false ->
  i2c_parse mem = I2C_Res true cb (Some f) -> is_elems (fst (i2c_update st mem)) = Some f.
Proof. exact i2c_fields_last_read. Qed.
Print Assumptions C14_i2c_fields_reflect_last_read.

Theorem C14_ow_valid_reflects_last_read : forall ops mem,
  let st := fst (ow_run ops) in
  os_valid (fst (fst (ow_update st mem))) = negb (os_pending st) && ow_is_valid (ow_parse mem).
Proof. exact ow_valid_last_read. Qed.
Print Assumptions C14_ow_valid_reflects_last_read.

(* F14d repaired: a valid read reports exactly the header and the elements of the image read, whatever the
   dictionary held before (elements of earlier images, or what the caller put there for write_data) *)
Theorem C14_ow_elements_reflect_last_read : forall st mem o, os_pending st = false ->
  ow_parse mem = OW_Res o -> ow_valid o = true ->
  os_elems (fst (fst (ow_update st mem))) = ow_elements o /\
  os_hdr (fst (fst (ow_update st mem))) = Some (ow_pins o, ow_vid o, ow_pid o).
Proof. exact ow_elems_last_read. Qed.
Print Assumptions C14_ow_elements_reflect_last_read.

(* ------------------------------------------------------------------ write histories of the write-only images
   In the model the trajectory pieces, the timing list and the LED objects are their fields and nothing else:
   pack() / write_data() is a function of the CURRENT field values.  Consequently *)

(* the k-th write_data of any history through one TrajectoryMemory (same or other piece objects, any start
   address, any earlier writes) hands over exactly the image of the pieces it is given, at its start address,
   and returns its length *)
Theorem C14_layout_write_history_stateless : forall h1 w h2,
  nth (length h1) (traj_history (h1 ++ w :: h2)) None = traj_write (fst w) (snd w).
Proof. exact traj_history_stateless. Qed.
Print Assumptions C14_layout_write_history_stateless.

Theorem C14_layout_trajectory_write : forall start l a img n, traj_write start l = Some (a, img, n) ->
  a = start /\ n = Z.of_nat (length img) /\ traj_image l = Some img.
Proof. exact traj_write_shape. Qed.
Print Assumptions C14_layout_trajectory_write.

(* a whole compressed trajectory body: the firmware-side walk over the image recovers every segment of the
   list, in order, with all coefficients, and ends exactly at the end of the image *)
Theorem C14_layout_compressed_trajectory : forall segs img rest, traj_image (map seg_of segs) = Some img ->
  csegs_read (length segs) (img ++ rest) = (segs, rest).
Proof. exact csegs_layout. Qed.
Print Assumptions C14_layout_compressed_trajectory.

(* ------------------------------------------------------------------ the sequencing layer over the images
   LighthouseMemory (one request at a time), LighthouseMemHelper (_ObjectReader / _ObjectWriter) and
   LighthouseConfigWriter as state machines over the memory-level events; the device accepts the write of
   (kind, id) iff wok kind id and acknowledges the persist request with the result flag pok.  Objects are their
   memory images (round trip and layout: the C14_lh theorems above). *)

(* write_and_store_config on a writer with nothing armed, for EVERY choice of geos / calibs (None, or any
   dictionary: any ids, any order, sparse), system type, nr_of_base_stations <= 16, every set of failing writes and
   either persist result flag.  The whole conversation is: [system type] ; the geometries of the prepared dictionary
   (given entries in their order, then the empty object for every missing id below nr) one after the other ; the
   calibrations likewise ; one persist request for all ids below nr (also after failed writes) ; then, on ANY
   acknowledgement, data_stored_cb exactly once with success = no WRITE failed (the result flag of the
   acknowledgement does not enter: pok does not occur on the right-hand side).  Afterwards nothing is armed and
   nothing is left to do: a second call starts from the same precondition. *)
Theorem C14_config_writer_sequence : forall wok pok s g c st nr extra,
  c_armed s = false -> quiet s -> (nr <= 16)%nat ->
  let pg := option_map (prepare nr empty_geo_img) g in
  let pc := option_map (prepare nr empty_calib_img) c in
  (match pg with Some l => l <> [] | None => True end) ->
  (match pc with Some l => l <> [] | None => True end) ->
  let '(s1, a1) := handle s (EStart g c st nr) in
  let '(s2, tr) := drive (olen pg + (olen pc + (1 + extra))) wok pok s1 a1 in
  a1 ++ tr =
    match st with Some v => [ASetParam v] | None => [] end ++ opt_writes KGeo pg ++ opt_writes KCalib pc ++
    (if persisted g c nr then [APersist (fst (persist_lists g c nr)) (snd (persist_lists g c nr))] else []) ++
    [ACallback (cw_success wok pg pc)] /\
  c_armed s2 = false /\ quiet s2 /\ c_geos s2 = None /\ c_calibs s2 = None /\ c_gp s2 = [] /\ c_cp s2 = [] /\
  c_failed s2 = negb (cw_success wok pg pc).
Proof. exact config_writer_run. Qed.
Print Assumptions C14_config_writer_sequence.

(* what reaches the device memory during that conversation: exactly the accepted entries of the two prepared
   dictionaries (each entry is the image of C14_layout_lh_geo / C14_layout_lh_calib), in order, and nothing else *)
Theorem C14_config_writer_device_memory : forall wok (st : option Z) (pg pc : option objs) (pers : bool) (plists : list Z * list Z),
  apply_writes wok (setparam st ++ opt_writes KGeo pg ++ opt_writes KCalib pc ++
                    (if pers then [APersist (fst plists) (snd plists)] else []) ++ [ACallback (cw_success wok pg pc)]) =
  match pg with Some l => good wok KGeo l | None => [] end ++ match pc with Some l => good wok KCalib l | None => [] end.
Proof. exact config_writer_device. Qed.
Print Assumptions C14_config_writer_device_memory.

(* success implies that every entry of both prepared dictionaries was accepted by the device: the memory then holds
   exactly the requested objects, padded with the empty object *)
Theorem C14_config_writer_success_means_all_written : forall wok pg pc, cw_success wok pg pc = true ->
  (match pg with Some l => good wok KGeo l = map (fun kv => (KGeo, fst kv, snd kv)) l | None => True end) /\
  (match pc with Some l => good wok KCalib l = map (fun kv => (KCalib, fst kv, snd kv)) l | None => True end).
Proof. exact config_writer_success_all. Qed.
Print Assumptions C14_config_writer_success_means_all_written.

(* observation, outside the property text: one geometry written, the firmware answers the persist request with
   result flag 0, and the completion value is still True *)
Theorem C14_persist_flag_ignored_observation :
  cw_trace cws_idle [EStart (Some [(0, empty_geo_img)]) None None 1%nat; EWriteDone; EAck false] =
  [[AWrite KGeo 0 empty_geo_img]; [APersist [0] []]; [ACallback true]].
Proof. exact persist_flag_ignored. Qed.
Print Assumptions C14_persist_flag_ignored_observation.

(* guards: reports of the memory layer with nothing armed are ignored; a second write_and_store_config while one
   is running raises and changes nothing; a persist acknowledgement on an idle writer does nothing *)
Theorem C14_config_writer_guards :
  (forall s, m_w s = None -> handle s EWriteDone = (s, []) /\ handle s EWriteFailed = (s, [])) /\
  (forall s g c st nr, c_armed s = true -> handle s (EStart g c st nr) = (s, [ARaise 1])) /\
  (forall s ok, c_armed s = false -> c_geos s = None -> c_calibs s = None -> c_gp s = [] -> c_cp s = [] ->
                snd (handle s (EAck ok)) = []).
Proof. exact (conj stray_write_events_ignored (conj start_while_running stray_ack_when_idle)). Qed.
Print Assumptions C14_config_writer_guards.

(* read_all_geos / read_all_calibs on a quiet helper, for every device (any subset of the 16 reads failing, any
   images): the 16 stations are read one after the other, then the callback comes exactly once with exactly the
   stations that answered, each decoded from its image (valid flag included); everything is disarmed afterwards *)
Theorem C14_read_all_sequence : forall k devr,
  (forall id d, devr id = Some d -> lh_new_data (page_addr k id) d <> LStructError) ->
  forall extra,
  let '(s1, a1) := rhandle k rds_idle RStart in
  let '(s2, tr) := rdrive (16 + extra) k devr s1 a1 in
  a1 ++ tr = map (RRead k) (zseq 0 16) ++ [RCallback (read_all_expected k devr (zseq 0 16))] /\ s2 = rds_idle.
Proof. exact read_all_closed_form. Qed.
Print Assumptions C14_read_all_sequence.

(* ------------------------------------------------------------------ anchor-list histories on one LocoMemory2 object
   update_id_list / update_active_id_list / update_data in any order and number, the device changing or not in
   between.  The parsed lists are values: each field is written only by the step that owns it. *)

(* update_id_list: anchor_ids is the decode of the 17 bytes it read, nr_of_anchors its length, ids_valid set; the
   active list and the anchor data are emptied, data_valid cleared *)
Theorem C14_loco2_id_list_step : forall s d s' d' rq, l2_step s d LIds = Some (s', d', rq) ->
  loco2_ids (dv_idl d) = IL_Ok (l2_ids s') /\ l2_nr s' = Z.of_nat (length (l2_ids s')) /\ l2_idsv s' = true /\
  l2_act s' = [] /\ l2_data s' = [] /\ l2_datav s' = false /\ l2_actv s' = l2_actv s /\ rq = [(0, 17)] /\ d' = d.
Proof. exact l2_ids_step. Qed.
Print Assumptions C14_loco2_id_list_step.

(* update_data: the anchors are the decode of the pages of exactly the parsed ids (requests in list order), and the
   fetch changes none of anchor_ids, active_anchor_ids, nr_of_anchors, ids_valid, active_ids_valid *)
Theorem C14_loco2_data_step_frame : forall s d s' d' rq, l2_step s d LData = Some (s', d', rq) ->
  l2_ids s' = l2_ids s /\ l2_act s' = l2_act s /\ l2_nr s' = l2_nr s /\ l2_idsv s' = l2_idsv s /\ l2_actv s' = l2_actv s /\
  (0 < l2_nr s -> loco2_data (l2_ids s) (dv_pages d) [] [] = Some (rq, l2_data s') /\ l2_datav s' = true) /\
  (l2_nr s <= 0 -> s' = s /\ rq = []).
Proof. exact l2_data_step. Qed.
Print Assumptions C14_loco2_data_step_frame.

Theorem C14_loco2_active_list_step_frame : forall s d s' d' rq, l2_step s d LAct = Some (s', d', rq) ->
  loco2_ids (dv_act d) = IL_Ok (l2_act s') /\ l2_actv s' = true /\
  l2_ids s' = l2_ids s /\ l2_nr s' = l2_nr s /\ l2_idsv s' = l2_idsv s /\ l2_data s' = l2_data s /\ l2_datav s' = l2_datav s.
Proof. exact l2_act_step. Qed.
Print Assumptions C14_loco2_active_list_step_frame.

(* for every history: after update_id_list, whatever follows short of another update_id_list (any number of
   update_data / update_active_id_list rounds, any device changes) leaves anchor_ids, nr_of_anchors and ids_valid
   exactly as that read produced them; and nr_of_anchors is the length of anchor_ids after every history *)
Theorem C14_loco2_parsed_ids_are_values : forall ops s d s' d', forallb not_ids ops = true -> l2_run s d ops = Some (s', d') ->
  l2_ids s' = l2_ids s /\ l2_nr s' = l2_nr s /\ l2_idsv s' = l2_idsv s.
Proof. exact l2_ids_persist. Qed.
Print Assumptions C14_loco2_parsed_ids_are_values.

Theorem C14_loco2_nr_is_length : forall ops s d s' d', l2_inv s -> l2_run s d ops = Some (s', d') -> l2_inv s'.
Proof. exact l2_run_inv. Qed.
Print Assumptions C14_loco2_nr_is_length.

(* refutation example (seed C14-g): a fetch queue aliased to the parsed id list drains anchor_ids during update_data
   while nr_of_anchors / ids_valid still announce the anchors *)
Theorem C14_loco2_aliased_fetch_queue_refuted :
  match l2_step l2_init g_dev LIds with
  | Some (s1, d1, _) =>
    match l2_step s1 d1 LData, l2_step_aliased s1 d1 LData with
    | Some (s2, _, _), Some (s2', _, _) =>
      l2_ids s2 = [3; 7; 42; 200] /\ l2_ids s2' = [] /\ l2_nr s2' = 4 /\ l2_idsv s2' = true /\ l2_data s2' = l2_data s2
    | _, _ => False
    end
  | None => False
  end.
Proof. exact l2_aliased_queue_refuted. Qed.
Print Assumptions C14_loco2_aliased_fetch_queue_refuted.
