(* C14/Proofs_ow.v — 1-wire deck identity image: round trip, validity = both CRCs, and the
   two-byte shortcut of the unrepaired code (F14a). *)
From CF Require Import Common.Bytes C14.Model C14.Proofs_i2c.
From Coq Require Import ZifyBool.
Open Scope Z_scope.
Ltac Zify.zify_post_hook ::= Z.to_euclidean_division_equations.

(* ---- dictionaries ---- *)

Lemma dict_set_fresh k v d : ~ In k (dict_keys d) -> dict_set k v d = d ++ [(k, v)].
Proof.
  induction d as [|[k' v'] d IH]; intros H; cbn [dict_set app]; [reflexivity|].
  cbn [dict_keys map fst In] in H.
  destruct (k =? k') eqn:E.
  - apply Z.eqb_eq in E. exfalso. apply H. left. symmetry. exact E.
  - rewrite IH; [reflexivity|]. intros Hin. apply H. right. exact Hin.
Qed.

Lemma dict_keys_app d1 d2 : dict_keys (d1 ++ d2) = dict_keys d1 ++ dict_keys d2.
Proof. unfold dict_keys. apply map_app. Qed.

(* ---- the TLV walk over an encoded element list ---- *)

Lemma ow_area_length_cons kv l :
  length (concat (map ow_enc_elem (kv :: l))) = (2 + length (snd kv) + length (concat (map ow_enc_elem l)))%nat.
Proof. cbn [map concat]. unfold ow_enc_elem. rewrite !app_length. cbn [length]. lia. Qed.

Lemma ow_elems_encoded : forall l d fuel,
  (forall kv, In kv l -> ow_idb (fst kv) = true /\ (length (snd kv) <= 255)%nat) ->
  NoDup (dict_keys d ++ dict_keys l) ->
  (length (concat (map ow_enc_elem l)) <= fuel)%nat ->
  ow_elems fuel (concat (map ow_enc_elem l)) d = (d ++ l, None).
Proof.
  induction l as [|[k v] l IH]; intros d fuel Hok Hnd Hf.
  - cbn [map concat]. destruct fuel; cbn [ow_elems]; now rewrite app_nil_r.
  - rewrite ow_area_length_cons in Hf. cbn [snd] in Hf.
    destruct fuel as [|fuel]; [lia|].
    cbn [map concat]. unfold ow_enc_elem at 1. cbn [fst snd app].
    cbn [ow_elems].
    destruct (Hok (k, v) (or_introl eq_refl)) as [Hid Hlen]. cbn [fst snd] in Hid, Hlen.
    rewrite Hid. rewrite Nat2Z.id.
    rewrite firstn_app_exact, skipn_app_exact.
    assert (Hfresh : ~ In k (dict_keys d)).
    { intros Hin. cbn [dict_keys map fst] in Hnd.
      apply NoDup_remove_2 in Hnd. apply Hnd. apply in_or_app. left. exact Hin. }
    rewrite (dict_set_fresh k v d Hfresh).
    rewrite IH.
    + rewrite <- app_assoc. reflexivity.
    + intros kv Hin. apply Hok. right. exact Hin.
    + rewrite dict_keys_app. cbn [dict_keys map fst app] in *. rewrite <- app_assoc. exact Hnd.
    + lia.
Qed.

(* ---- generic list facts ---- *)

Lemma read_middle (a b c : list Z) : read (a ++ b ++ c) (length a) (length b) = Some b.
Proof.
  unfold read. rewrite !app_length.
  replace (length a + length b <=? length a + (length b + length c))%nat with true
    by (symmetry; apply Nat.leb_le; lia).
  rewrite skipn_app_exact, firstn_app_exact. reflexivity.
Qed.

Lemma last_firstn (l : list Z) : forall n, (n < length l)%nat -> last (firstn (S n) l) 0 = nth n l 0.
Proof.
  induction l as [|x l IH]; intros n H; cbn [length] in H; [lia|].
  destruct n as [|n].
  - reflexivity.
  - cbn [nth]. rewrite <- IH by lia. cbn [firstn].
    destruct l as [|y l]; [cbn [length] in H; lia|]. reflexivity.
Qed.

(* ---- round trip ---- *)

Lemma ow_write_wf pins vid pid els : ow_wf pins vid pid els ->
  ow_write pins vid pid els =
  Some (([235] ++ le_bytes 4 pins ++ [vid; pid]) ++ [crc8 ([235] ++ le_bytes 4 pins ++ [vid; pid])]
        ++ ([0; Z.of_nat (length (ow_area els))] ++ ow_area els)
        ++ [crc8 ([0; Z.of_nat (length (ow_area els))] ++ ow_area els)]).
Proof.
  intros (Hp & Hv & Hpi & _ & Hel & Hlen). unfold ow_write.
  assert (E : (0 <=? pins) && (pins <? 2 ^ 32) && byteb vid && byteb pid && forallb ow_elem_ok els
              && (length (ow_area els) <=? 255)%nat = true).
  { apply byteb_spec in Hv, Hpi. rewrite Hv, Hpi.
    assert (F : forallb ow_elem_ok els = true).
    { apply forallb_forall. intros kv Hin. destruct (Hel kv Hin) as (Hid & Hl & Hb).
      unfold ow_elem_ok, ow_idb. apply bytesb_spec in Hb. rewrite Hb.
      apply Nat.leb_le in Hl. rewrite Hl. lia. }
    rewrite F. apply Nat.leb_le in Hlen. rewrite Hlen. lia. }
  rewrite E. reflexivity.
Qed.

Lemma ow_roundtrip : forall pins vid pid els tail, ow_wf pins vid pid els ->
  exists img, ow_write pins vid pid els = Some img /\
    ow_parse (img ++ tail) = OW_Res (mk_ow true true pins vid pid (rev els) None).
Proof.
  intros pins vid pid els tail Hwf. rewrite (ow_write_wf _ _ _ _ Hwf). eexists. split; [reflexivity|].
  destruct Hwf as (Hp & Hv & Hpi & Hnd & Hel & Hlen).
  pose proof (le_val4 pins Hp) as Ep.
  destruct (le_bytes4_shape pins) as (q0 & q1 & q2 & q3 & Sq & _). rewrite Sq in *.
  set (area := ow_area els) in *.
  set (n := Z.of_nat (length area)).
  set (c2 := crc8 ([0; n] ++ area)).
  set (c1 := crc8 ([235] ++ [q0; q1; q2; q3] ++ [vid; pid])).
  cbn [app]. rewrite <- !app_assoc. cbn [app].
  (* first read: the eleven bytes at address 0 *)
  unfold ow_parse.
  assert (R1 : exists x, read (235 :: q0 :: q1 :: q2 :: q3 :: vid :: pid :: c1 :: 0 :: n :: area ++ c2 :: tail) 0 11
                         = Some [235; q0; q1; q2; q3; vid; pid; c1; 0; n; x]).
  { unfold read. cbn [length Nat.add]. rewrite app_length. cbn [length].
    replace (11 <=? S (S (S (S (S (S (S (S (S (S (length area + S (length tail))))))))))))%nat with true
      by (symmetry; apply Nat.leb_le; lia).
    cbn [skipn firstn]. destruct area as [|a0 area']; cbn [app firstn]; eexists; reflexivity. }
  destruct R1 as (x & ->).
  cbn [nthz nth firstn slice skipn Nat.sub].
  change (235 =? 235) with true. fold c1. rewrite Z.eqb_refl. cbn [andb].
  rewrite Ep.
  (* second read: the element area *)
  replace (Z.to_nat n) with (length area) by (unfold n; now rewrite Nat2Z.id).
  assert (R2 : read (235 :: q0 :: q1 :: q2 :: q3 :: vid :: pid :: c1 :: 0 :: n :: area ++ c2 :: tail) 8
                    (length area + 3) = Some (([0; n] ++ area) ++ [c2])).
  { change (235 :: q0 :: q1 :: q2 :: q3 :: vid :: pid :: c1 :: 0 :: n :: area ++ c2 :: tail)
      with ([235; q0; q1; q2; q3; vid; pid; c1] ++ ((0 :: n :: area) ++ [c2]) ++ tail)
      || (replace (235 :: q0 :: q1 :: q2 :: q3 :: vid :: pid :: c1 :: 0 :: n :: area ++ c2 :: tail)
            with ([235; q0; q1; q2; q3; vid; pid; c1] ++ (([0; n] ++ area) ++ [c2]) ++ tail)
            by (cbn [app]; rewrite <- app_assoc; reflexivity)).
    replace (length area + 3)%nat with (length (([0; n] ++ area) ++ [c2]))
      by (rewrite !app_length; cbn [length]; lia).
    apply (read_middle [235; q0; q1; q2; q3; vid; pid; c1]). }
  rewrite R2.
  unfold ow_check_elements. rewrite removelast_last, last_last. fold c2. rewrite Z.eqb_refl.
  cbn [app skipn].
  unfold area at 2, ow_area.
  rewrite ow_elems_encoded.
  - cbn [app]. reflexivity.
  - intros kv Hin. apply in_rev in Hin. destruct (Hel kv Hin) as (Hid & Hl & _).
    split; [unfold ow_idb; lia|exact Hl].
  - cbn [dict_keys map app]. unfold dict_keys. rewrite map_rev. apply NoDup_rev. exact Hnd.
  - cbn [length]. unfold area, ow_area. lia.
Qed.

(* ---- validity = header CRC and element-area CRC (and a TLV walk that does not raise) ---- *)

Definition ow_is_valid (r : ow_res) : bool :=
  match r with OW_Res o => ow_valid o | OW_Short => false end.

Definition ow_crcs_ok (mem : list Z) : Prop :=
  nthz 0 mem = 235 /\ nthz 7 mem = crc8 (firstn 7 mem) /\
  let n := Z.to_nat (nthz 9 mem) in
  (11 + n <= length mem)%nat /\
  crc8 (slice mem 8 (10 + n)) = nthz (10 + n) mem /\
  snd (ow_elems (2 + n) (slice mem 10 (10 + n)) []) = None.

Lemma ow_valid_iff : forall mem, (11 <= length mem)%nat ->
  (ow_is_valid (ow_parse mem) = true <-> ow_crcs_ok mem).
Proof.
  intros mem Hl. explode_list mem 11%nat. clear Hl.
  rename b into m0, b0 into m1, b1 into m2, b2 into m3, b3 into m4, b4 into m5, b5 into m6,
         b6 into m7, b7 into m8, b8 into m9, b9 into m10.
  unfold ow_crcs_ok. cbn [nthz nth firstn].
  set (n := Z.to_nat m9).
  unfold slice.
  replace (10 + n - 8)%nat with (S (S n)) by lia. replace (10 + n - 10)%nat with n by lia.
  change (nth (10 + n) _ 0) with (nth n (m10 :: mem) 0).
  set (NT := nth n (m10 :: mem) 0).
  cbn [skipn].
  unfold ow_parse. unfold read at 1. cbn [length Nat.add Nat.leb skipn firstn].
  cbn [nthz nth firstn]. fold n.
  destruct (m0 =? 235) eqn:E0; cbn [andb].
  2:{ cbn [ow_is_valid ow_valid]. split; [discriminate|]. intros (H & _). lia. }
  destruct (m7 =? crc8 [m0; m1; m2; m3; m4; m5; m6]) eqn:E7.
  2:{ cbn [ow_is_valid ow_valid]. split; [discriminate|]. intros (_ & H & _). lia. }
  apply Z.eqb_eq in E0, E7.
  unfold read. cbn [skipn].
  replace (n + 3)%nat with (S (S (S n))) by lia.
  set (X := m8 :: m9 :: m10 :: mem).
  destruct (Nat.leb _ _) eqn:L.
  2:{ cbn [ow_is_valid]. split; [discriminate|]. intros (_ & _ & H & _).
      apply Nat.leb_gt in L. unfold X in *. cbn [length] in *. lia. }
  apply Nat.leb_le in L. unfold X in L. cbn [length] in L.
  assert (LX : (S (S n) < length X)%nat) by (unfold X; cbn [length]; lia).
  unfold ow_check_elements.
  rewrite (@removelast_firstn Z (S (S n)) X LX), (last_firstn X (S (S n)) LX).
  assert (FL : length (firstn (S (S n)) X) = S (S n)) by (apply firstn_length_le; lia).
  rewrite FL.
  change (nth (S (S n)) X 0) with NT.
  unfold X. cbn [firstn skipn].
  destruct (crc8 (m8 :: m9 :: firstn n (m10 :: mem)) =? NT) eqn:EC.
  - apply Z.eqb_eq in EC.
    destruct (ow_elems (S (S n)) (firstn n (m10 :: mem)) []) as [dd ee] eqn:EE.
    cbv beta iota. cbn [ow_is_valid ow_valid snd]. destruct ee as [ex|].
    + split; [discriminate|]. intros (_ & _ & _ & _ & H). discriminate.
    + split; [|reflexivity]. intros _. repeat split; try assumption; cbn [length]; lia.
  - apply Z.eqb_neq in EC. cbn [ow_is_valid ow_valid]. split; [discriminate|].
    intros (_ & _ & _ & H & _). contradiction.
Qed.

(* ---- F14a: what the unrepaired code did ---- *)

(* a deck whose only element is the three-character board revision "1.0": the element area is
   5 bytes long, CRC32 of the single byte 05 ends in 0x02 = the id of the first element, and the
   image was reported valid with no elements at all *)
Lemma ow_shortcut_defect :
  exists pins vid pid els img,
    ow_wf pins vid pid els /\ els <> [] /\ ow_write pins vid pid els = Some img /\
    ow_parse_unrepaired img = OW_Res (mk_ow true true pins vid pid [] None) /\
    ow_parse img = OW_Res (mk_ow true true pins vid pid (rev els) None).
Proof.
  exists 0, 188, 18, [(2, [49; 46; 48])]. eexists.
  split; [|split; [discriminate|split; [vm_compute; reflexivity|split; vm_compute; reflexivity]]].
  unfold ow_wf, byte. repeat split; try lia.
  - cbn. repeat constructor; intros []; discriminate.
  - destruct H as [<-|[]]. cbn. lia.
  - destruct H as [<-|[]]. cbn. lia.
  - destruct H as [<-|[]]. cbn. lia.
  - destruct H as [<-|[]]. cbn. unfold bytes, byte. repeat constructor; lia.
  - cbn. lia.
Qed.
