(* C14/Proofs_seq.v — the sequencing layer: closed forms for every station set, every failure subset. *)
From CF Require Import Common.Bytes C14.Model C14.Model_lh C14.Model_misc C14.Model_seq.
From Coq Require Import ZifyBool.
Open Scope Z_scope.

Section Device.
Variable wok : kind -> Z -> bool.     (* which writes the device accepts *)
Variable pok : bool.                  (* result flag of the persist acknowledgement *)

(* _next followed by the device answering every request until nothing is outstanding *)
Definition run (n : nat) (s : cws) : cws * list act :=
  let '(s1, a1) := cw_next s in let '(s2, tr) := drive n wok pok s1 a1 in (s2, a1 ++ tr).

Definition any_failed (k : kind) (o : objs) : bool := existsb (fun kv => negb (wok k (fst kv))) o.
Definition writes (k : kind) (o : objs) : list act := map (fun kv => AWrite k (fst kv) (snd kv)) o.

(* a state in which neither helper writer nor the memory has anything armed *)
Definition quiet (s : cws) : Prop := w_g s = None /\ w_c s = None /\ m_w s = None.

(* ---- one writer working through its dictionary ---- *)
Lemma writer_loop : forall k rest s id img f n,
  m_w s = Some k -> w_get k s = Some rest -> w_getf k s = f ->
  drive (S (length rest) + n) wok pok s [AWrite k id img] =
  let fl := f || negb (wok k id) || any_failed k rest in
  let '(sd, ad) := upload_done (negb fl) (set_writer k None false (set_mw None s)) in
  let '(s2, tr) := drive n wok pok sd ad in
  (s2, writes k rest ++ ad ++ tr).
Proof.
  intros k rest. induction rest as [|[id' img'] rest IH]; intros s id img f n Hm Hw Hf.
  - cbn [length Nat.add drive answer last]. unfold any_failed. cbn [existsb writes map app orb].
    rewrite orb_false_r.
    destruct (wok k id) eqn:W; cbn [negb orb handle]; rewrite Hm.
    + unfold writer_after.
      replace (w_get k (set_mw None s)) with (Some (@nil (Z * list Z))) by (destruct k, s; cbn in *; subst; reflexivity).
      replace (w_getf k (set_mw None s)) with f by (destruct k, s; cbn in *; subst; reflexivity).
      rewrite orb_false_r.
      destruct (upload_done (negb f) (set_writer k None false (set_mw None s))) as [sd ad].
      destruct (drive n wok pok sd ad) as [s2 tr]. reflexivity.
    + unfold writer_after.
      replace (w_get k (set_writer k (w_get k (set_mw None s)) true (set_mw None s))) with (Some (@nil (Z * list Z)))
        by (destruct k, s; cbn in *; subst; reflexivity).
      replace (w_getf k (set_writer k (w_get k (set_mw None s)) true (set_mw None s))) with true
        by (destruct k, s; reflexivity).
      rewrite orb_true_r. cbn [negb].
      replace (set_writer k None false (set_writer k (w_get k (set_mw None s)) true (set_mw None s)))
        with (set_writer k None false (set_mw None s)) by (destruct k, s; reflexivity).
      destruct (upload_done false (set_writer k None false (set_mw None s))) as [sd ad].
      destruct (drive n wok pok sd ad) as [s2 tr]. reflexivity.
  - change (S (length ((id', img') :: rest)) + n)%nat with (S (S (length rest) + n)).
    cbn [drive answer last].
    set (f1 := f || negb (wok k id)).
    (* the state after the answer for id: the next entry is popped and written *)
    assert (STEP : exists s1, handle s (if wok k id then EWriteDone else EWriteFailed) = (s1, [AWrite k id' img']) /\
                              m_w s1 = Some k /\ w_get k s1 = Some rest /\ w_getf k s1 = f1 /\
                              set_writer k None false (set_mw None s1) = set_writer k None false (set_mw None s)).
    { destruct (wok k id) eqn:W; cbn [handle]; rewrite Hm; unfold writer_after, writer_issue, f1; cbn [negb].
      - rewrite orb_false_r. destruct k, s; cbn in *; subst; eexists; repeat split; reflexivity.
      - rewrite orb_true_r. destruct k, s; cbn in *; subst; eexists; repeat split; reflexivity. }
    destruct STEP as (s1 & HS & Hm1 & Hw1 & Hf1 & Heq). rewrite HS. cbv beta iota.
    rewrite (IH s1 id' img' f1 n Hm1 Hw1 Hf1). rewrite Heq.
    unfold any_failed. cbn [existsb fst]. fold (any_failed k rest).
    replace (f1 || negb (wok k id') || any_failed k rest) with (f || negb (wok k id) || (negb (wok k id') || any_failed k rest))
      by (unfold f1; now rewrite !orb_assoc).
    destruct (upload_done _ _) as [sd ad]. destruct (drive n wok pok sd ad) as [s2 tr].
    cbn [writes map fst snd app]. reflexivity.
Qed.

(* ---- a whole phase: _next starts the writer for the first pending dictionary ---- *)
Lemma phase : forall k o s n, o <> [] -> quiet s ->
  (match k with KGeo => c_geos s = Some o | KCalib => c_geos s = None /\ c_calibs s = Some o end) ->
  run (length o + n) s =
  let '(s2, tr) := run n (set_writer k None false (set_failed (c_failed s || any_failed k o) (set_plan k None s))) in
  (s2, writes k o ++ tr).
Proof.
  intros k o s n Hne (Hg & Hc & Hm) Hplan. destruct o as [|[id img] rest]; [congruence|]. clear Hne.
  unfold run at 1.
  assert (N : cw_next s = (set_plan k None (set_mw (Some k) (set_writer k (Some rest) false s)), [AWrite k id img])).
  { unfold cw_next, cw_start_writer, writer_issue. destruct k, s; cbn in *.
    - subst. reflexivity.
    - destruct Hplan as [-> ->]. subst. reflexivity. }
  rewrite N. cbn [length Nat.add].
  rewrite (writer_loop k rest _ id img false n).
  2:{ destruct k, s; reflexivity. }
  2:{ destruct k, s; reflexivity. }
  2:{ destruct k, s; reflexivity. }
  cbn [orb]. unfold upload_done, run.
  replace (set_failed (c_failed (set_writer k None false (set_mw None (set_plan k None (set_mw (Some k) (set_writer k (Some rest) false s))))) ||
                       negb (negb (negb (wok k id) || any_failed k rest)))
                      (set_writer k None false (set_mw None (set_plan k None (set_mw (Some k) (set_writer k (Some rest) false s))))))
    with (set_writer k None false (set_failed (c_failed s || any_failed k ((id, img) :: rest)) (set_plan k None s))).
  2:{ unfold any_failed. cbn [existsb fst]. rewrite negb_involutive. destruct k, s; cbn in *; subst; reflexivity. }
  clear N. destruct (cw_next _) as [s1 a1]. destruct (drive n wok pok s1 a1) as [s2 tr].
  cbn [writes map fst snd app]. reflexivity.
Qed.

Lemma phase_quiet k s f : quiet s -> quiet (set_writer k None false (set_failed f (set_plan k None s))).
Proof. unfold quiet. destruct k, s; cbn; tauto. Qed.

(* ---- persist request and final callback ---- *)
Lemma persist_phase : forall s n, c_geos s = None -> c_calibs s = None ->
  (c_gp s <> [] \/ c_cp s <> []) -> bs_ok (c_gp s) && bs_ok (c_cp s) = true ->
  run (S n) s =
  let '(s2, tr) := run n (set_persist [] [] s) in
  (s2, APersist (c_gp s) (c_cp s) :: tr).
Proof.
  intros s n Hg Hc Hne Hok.
  assert (N : cw_next s = (set_persist [] [] s, [APersist (c_gp s) (c_cp s)])).
  { unfold cw_next. rewrite Hg, Hc.
    destruct (c_gp s) as [|g0 gl] eqn:E1; destruct (c_cp s) as [|c0 cl] eqn:E2;
      [destruct Hne; congruence| | |]; rewrite Hok; reflexivity. }
  unfold run at 1. rewrite N. cbn [drive answer last handle app].
  unfold run. clear N. destruct (cw_next _) as [s1 a1]. destruct (drive n wok pok s1 a1) as [s2 tr]. reflexivity.
Qed.

Lemma final_phase : forall s n, c_geos s = None -> c_calibs s = None -> c_gp s = [] -> c_cp s = [] -> c_armed s = true ->
  run n s = (set_armed false s, [ACallback (negb (c_failed s))]).
Proof.
  intros s n Hg Hc Hp1 Hp2 Ha. unfold run, cw_next. rewrite Hg, Hc, Hp1, Hp2, Ha.
  destruct n; cbn [drive answer last]; rewrite ?app_nil_r; reflexivity.
Qed.


(* ---- the whole of write_and_store_config ---- *)

Lemma drive_setparam : forall n s st a,
  drive n wok pok s (match st with Some v => [ASetParam v] | None => [] end ++ a) = drive n wok pok s a.
Proof.
  intros n s st a. assert (E : answer wok pok (match st with Some v => [ASetParam v] | None => [] end ++ a) = answer wok pok a).
  { destruct st; [|reflexivity]. destruct a; reflexivity. }
  destruct n; cbn [drive]; [reflexivity|]. rewrite E. reflexivity.
Qed.


Definition olen (o : option objs) : nat := match o with Some l => length l | None => O end.
Definition opt_writes (k : kind) (o : option objs) : list act := match o with Some l => writes k l | None => [] end.
Definition opt_failed (k : kind) (o : option objs) : bool := match o with Some l => any_failed k l | None => false end.
Definition after (k : kind) (o : option objs) (s : cws) : cws :=
  match o with
  | Some l => set_writer k None false (set_failed (c_failed s || any_failed k l) (set_plan k None s))
  | None => s
  end.

Lemma opt_phase : forall k o s n, (match o with Some l => l <> [] | None => True end) -> quiet s ->
  (match k with KGeo => c_geos s = o | KCalib => c_geos s = None /\ c_calibs s = o end) ->
  run (olen o + n) s = let '(s2, tr) := run n (after k o s) in (s2, opt_writes k o ++ tr).
Proof.
  intros k [l|] s n Hne Q Hp; cbn [olen after opt_writes app Nat.add].
  - apply phase; assumption.
  - destruct (run n s). reflexivity.
Qed.

Lemma zseq_In : forall n a x, In x (zseq a n) -> a <= x < a + Z.of_nat n.
Proof.
  induction n as [|n IH]; intros a x H; cbn [zseq In] in H; [contradiction|].
  destruct H as [<-|H]; [lia|]. apply IH in H. lia.
Qed.

Lemma bs_ok_zseq nr : (nr <= 16)%nat -> bs_ok (zseq 0 nr) = true.
Proof.
  intros H. unfold bs_ok. apply forallb_forall. intros x Hx. apply zseq_In in Hx. lia.
Qed.

Definition persist_lists (g c : option objs) (nr : nat) : list Z * list Z :=
  (match g with Some _ => zseq 0 nr | None => [] end, match c with Some _ => zseq 0 nr | None => [] end).

Definition persisted (g c : option objs) (nr : nat) : bool :=
  match persist_lists g c nr with ([], []) => false | _ => true end.

(* the result value handed to data_stored_cb: no WRITE failed (the persist result flag does not enter) *)
Definition cw_success (pg pc : option objs) : bool :=
  negb (opt_failed KGeo pg || opt_failed KCalib pc).

Lemma config_writer_run : forall s g c st nr extra,
  c_armed s = false -> quiet s -> (nr <= 16)%nat ->
  let pg := option_map (prepare nr empty_geo_img) g in
  let pc := option_map (prepare nr empty_calib_img) c in
  (match pg with Some l => l <> [] | None => True end) ->
  (match pc with Some l => l <> [] | None => True end) ->
  let '(s1, a1) := handle s (EStart g c st nr) in
  let '(s2, tr) := drive (olen pg + (olen pc + (1 + extra))) wok pok s1 a1 in
  a1 ++ tr =
    match st with Some v => [ASetParam v] | None => [] end ++ opt_writes KGeo pg ++ opt_writes KCalib pc ++
    (if persisted g c nr then [APersist (fst (persist_lists g c nr)) (snd (persist_lists g c nr))] else []) ++
    [ACallback (cw_success pg pc)] /\
  c_armed s2 = false /\ quiet s2 /\ c_geos s2 = None /\ c_calibs s2 = None /\ c_gp s2 = [] /\ c_cp s2 = [] /\
  c_failed s2 = negb (cw_success pg pc).
Proof.
  intros s g c st nr extra Ha Q Hnr pg pc Hg Hc.
  cbn [handle]. rewrite Ha.
  set (s0 := mk_cws true pg pc (fst (persist_lists g c nr)) (snd (persist_lists g c nr)) false (w_g s) (w_gf s) (w_c s) (w_cf s) (m_w s)).
  change (mk_cws true (option_map (prepare nr empty_geo_img) g) (option_map (prepare nr empty_calib_img) c)
                 match g with Some _ => zseq 0 nr | None => [] end match c with Some _ => zseq 0 nr | None => [] end
                 false (w_g s) (w_gf s) (w_c s) (w_cf s) (m_w s)) with s0.
  assert (Q0 : quiet s0) by (destruct Q as (A & B & C); unfold quiet, s0; cbn; auto).
  (* the run from s0 *)
  assert (R : run (olen pg + (olen pc + (1 + extra))) s0 =
              let okf := cw_success pg pc in
              let sF := set_armed false (set_failed (negb okf)
                          (set_persist [] [] (after KCalib pc (after KGeo pg s0)))) in
              (sF, opt_writes KGeo pg ++ opt_writes KCalib pc ++
                   (if persisted g c nr then [APersist (fst (persist_lists g c nr)) (snd (persist_lists g c nr))] else []) ++
                   [ACallback okf])).
  { rewrite (opt_phase KGeo pg s0 _ Hg Q0 eq_refl).
    set (sA := after KGeo pg s0).
    assert (QA : quiet sA) by (unfold sA, after; destruct pg; [apply phase_quiet|]; exact Q0).
    assert (PA : c_geos sA = None /\ c_calibs sA = pc).
    { unfold sA, after, s0. destruct pg; cbn; auto. }
    rewrite (opt_phase KCalib pc sA _ Hc QA PA).
    set (sB := after KCalib pc sA).
    assert (QB : quiet sB) by (unfold sB, after; destruct pc; [apply phase_quiet|]; exact QA).
    assert (FB : c_geos sB = None /\ c_calibs sB = None /\ c_gp sB = fst (persist_lists g c nr) /\
                 c_cp sB = snd (persist_lists g c nr) /\ c_armed sB = true /\
                 c_failed sB = opt_failed KGeo pg || opt_failed KCalib pc).
    { unfold sB, sA, after, s0. destruct pg, pc; cbn; rewrite ?orb_false_r; auto 10. }
    destruct FB as (B1 & B2 & B3 & B4 & B5 & B6).
    unfold persisted. destruct (persist_lists g c nr) as [gl cl] eqn:PL. cbn [fst snd] in *.
    assert (OK : bs_ok gl && bs_ok cl = true).
    { unfold persist_lists in PL. injection PL as <- <-.
      destruct g, c; cbn [bs_ok forallb andb]; rewrite ?bs_ok_zseq by exact Hnr; reflexivity. }
    destruct gl as [|g0 gl]; [destruct cl as [|c0 cl]|].
    - (* nothing to persist *)
      change (1 + extra)%nat with (S extra).
      rewrite (final_phase sB (S extra) B1 B2 B3 B4 B5).
      unfold cw_success. cbn [app]. rewrite B6.
      f_equal. destruct sB; cbn in *; subst. rewrite negb_involutive. reflexivity.
    - change (1 + extra)%nat with (S extra).
      rewrite (persist_phase sB extra B1 B2).
      2:{ right. rewrite B4. discriminate. }
      2:{ rewrite B3, B4. exact OK. }
      rewrite (final_phase _ extra).
      2-6: destruct sB; cbn in *; subst; reflexivity.
      rewrite B3, B4. unfold cw_success. cbn [app].
      f_equal.
      + destruct sB; cbn in *; subst. rewrite !negb_involutive. reflexivity.
      + destruct sB; cbn in *; subst. reflexivity.
    - change (1 + extra)%nat with (S extra).
      rewrite (persist_phase sB extra B1 B2).
      2:{ left. rewrite B3. discriminate. }
      2:{ rewrite B3, B4. exact OK. }
      rewrite (final_phase _ extra).
      2-6: destruct sB; cbn in *; subst; reflexivity.
      rewrite B3, B4. unfold cw_success. cbn [app].
      f_equal.
      + destruct sB; cbn in *; subst. rewrite !negb_involutive. reflexivity.
      + destruct sB; cbn in *; subst. reflexivity. }
  unfold run in R. destruct (cw_next s0) as [s1 a1]. rewrite drive_setparam.
  destruct (drive (olen pg + (olen pc + (1 + extra))) wok pok s1 a1) as [s2 tr].
  cbv zeta in R. injection R as -> R2. rewrite <- app_assoc, R2.
  split; [reflexivity|].
  assert (QF : quiet (after KCalib pc (after KGeo pg s0))).
  { unfold after. destruct pc; [apply phase_quiet|]; destruct pg; [apply phase_quiet| |apply phase_quiet|]; exact Q0. }
  destruct QF as (F1 & F2 & F3).
  assert (FG : c_geos (after KCalib pc (after KGeo pg s0)) = None /\ c_calibs (after KCalib pc (after KGeo pg s0)) = None).
  { unfold after, s0. destruct pg, pc; cbn; auto. }
  destruct FG as (F4 & F5).
  destruct (after KCalib pc (after KGeo pg s0)); cbn in *. unfold quiet. cbn. auto 10.
Qed.

End Device.

(* ---- what reaches the device ---- *)

Definition good (wok : kind -> Z -> bool) (k : kind) (o : objs) : dev :=
  flat_map (fun kv => if wok k (fst kv) then [(k, fst kv, snd kv)] else []) o.

Lemma apply_writes_app wok a b : apply_writes wok (a ++ b) = apply_writes wok a ++ apply_writes wok b.
Proof. unfold apply_writes. apply flat_map_app. Qed.

Lemma apply_writes_writes wok k o : apply_writes wok (writes k o) = good wok k o.
Proof.
  unfold apply_writes, writes, good. induction o as [|[id img] o IH]; [reflexivity|].
  cbn [map flat_map fst snd]. rewrite IH. reflexivity.
Qed.

Lemma any_failed_false wok k o : any_failed wok k o = false -> good wok k o = map (fun kv => (k, fst kv, snd kv)) o.
Proof.
  unfold any_failed, good. induction o as [|[id img] o IH]; [reflexivity|].
  cbn [existsb flat_map map fst snd]. intros H. apply orb_false_iff in H as [H1 H2].
  apply negb_false_iff in H1. rewrite H1, (IH H2). reflexivity.
Qed.

(* the device memory after a complete run: exactly the accepted writes of the prepared dictionaries, in order;
   when the completion callback reports success these are ALL prepared entries and nothing else *)
Definition setparam (st : option Z) : list act := match st with Some v => [ASetParam v] | None => [] end.

Lemma config_writer_device : forall wok (st : option Z) (pg pc : option objs) (pers : bool) (plists : list Z * list Z),
  apply_writes wok (setparam st ++ opt_writes KGeo pg ++ opt_writes KCalib pc ++
                    (if pers then [APersist (fst plists) (snd plists)] else []) ++ [ACallback (cw_success wok pg pc)]) =
  match pg with Some l => good wok KGeo l | None => [] end ++ match pc with Some l => good wok KCalib l | None => [] end.
Proof.
  intros. rewrite !apply_writes_app.
  replace (apply_writes wok (setparam st)) with (@nil (kind * Z * list Z))
    by (destruct st; reflexivity).
  replace (apply_writes wok (if pers then [APersist (fst plists) (snd plists)] else [])) with (@nil (kind * Z * list Z))
    by (destruct pers; reflexivity).
  cbn [app]. rewrite app_nil_r.
  destruct pg, pc; cbn [opt_writes]; rewrite ?apply_writes_writes; reflexivity.
Qed.

Lemma config_writer_success_all : forall wok pg pc, cw_success wok pg pc = true ->
  (match pg with Some l => good wok KGeo l = map (fun kv => (KGeo, fst kv, snd kv)) l | None => True end) /\
  (match pc with Some l => good wok KCalib l = map (fun kv => (KCalib, fst kv, snd kv)) l | None => True end).
Proof.
  intros wok pg pc H. unfold cw_success in H. apply negb_true_iff in H.
  apply orb_false_iff in H as [H1 H2].
  split.
  - destruct pg; [apply any_failed_false; exact H1|exact I].
  - destruct pc; [apply any_failed_false; exact H2|exact I].
Qed.

(* observation (outside the property text): the result flag of the persist acknowledgement is not looked at *)
Lemma persist_flag_ignored :
  cw_trace cws_idle [EStart (Some [(0, empty_geo_img)]) None None 1%nat; EWriteDone; EAck false] =
  [[AWrite KGeo 0 empty_geo_img]; [APersist [0] []]; [ACallback true]].
Proof. vm_compute. reflexivity. Qed.

(* ---- guards and stray events ---- *)

Lemma stray_write_events_ignored : forall s, m_w s = None ->
  handle s EWriteDone = (s, []) /\ handle s EWriteFailed = (s, []).
Proof. intros s H. cbn [handle]. rewrite H. split; reflexivity. Qed.

Lemma start_while_running : forall s g c st nr, c_armed s = true -> handle s (EStart g c st nr) = (s, [ARaise 1]).
Proof. intros s g c st nr H. cbn [handle]. rewrite H. reflexivity. Qed.

Lemma stray_ack_when_idle : forall s ok, c_armed s = false -> c_geos s = None -> c_calibs s = None ->
  c_gp s = [] -> c_cp s = [] -> snd (handle s (EAck ok)) = [].
Proof.
  intros s ok A G C P1 P2. cbn [handle]. unfold cw_next; destruct s; cbn in *; subst; reflexivity.
Qed.

(* ---------------------------------------------------------------- the reader *)

Section Reader.
Variable k : kind.
Variable devr : Z -> option (list Z).
Hypothesis decodes : forall id d, devr id = Some d -> lh_new_data (page_addr k id) d <> LStructError.

Lemma reader_loop : forall m s extra, r_armed s = true -> m_r s = false -> r_next s = 16 - Z.of_nat m -> (m <= 16)%nat ->
  let '(s1, a1) := rd_get k s in
  let '(s2, tr) := rdrive (m + extra) k devr s1 a1 in
  a1 ++ tr = map (RRead k) (zseq (r_next s) m) ++ [RCallback (r_res s ++ read_all_expected k devr (zseq (r_next s) m))] /\
  s2 = rds_idle.
Proof.
  induction m as [|m IH]; intros s extra Ha Hm Hn Hle.
  - unfold rd_get. replace (r_next s <? 16) with false by lia.
    destruct extra; cbn [Nat.add rdrive last zseq map read_all_expected flat_map app]; rewrite app_nil_r;
      (split; [reflexivity|]); unfold rds_idle; rewrite Hm; reflexivity.
  - unfold rd_get at 1. replace (r_next s <? 16) with true by lia. rewrite Hm.
    cbn [Nat.add rdrive last].
    set (id := r_next s).
    assert (STEP : exists o, rhandle k (mk_rds (r_armed s) id (r_res s) true)
                               (match devr id with Some d => RData d | None => RFailed end)
                             = rd_get k (mk_rds true (id + 1) (r_res s ++ o) false) /\
                             o = read_all_expected k devr [id]).
    { unfold read_all_expected. cbn [flat_map]. destruct (devr id) as [d|] eqn:D; cbn [rhandle m_r r_next r_res r_armed].
      - pose proof (decodes id d D) as ND. rewrite Ha.
        destruct (lh_new_data (page_addr k id) d) eqn:E; [| |congruence]; eexists; split; try reflexivity; rewrite app_nil_r; reflexivity.
      - rewrite Ha. exists []. rewrite !app_nil_r. split; reflexivity. }
    destruct STEP as (o & HS & Ho). rewrite HS.
    specialize (IH (mk_rds true (id + 1) (r_res s ++ o) false) extra eq_refl eq_refl).
    cbn [r_next r_res] in IH.
    destruct (rd_get k (mk_rds true (id + 1) (r_res s ++ o) false)) as [s1 a1].
    destruct (rdrive (m + extra) k devr s1 a1) as [s2 tr].
    destruct IH as [IH1 IH2]; [unfold id; lia|lia|].
    split; [|exact IH2].
    cbn [app zseq map]. rewrite IH1. fold id. subst o. unfold read_all_expected. cbn [flat_map].
    rewrite <- !app_assoc. reflexivity.
Qed.

(* read_all_geos / read_all_calibs on a quiet helper: 16 reads in order, then exactly one callback with exactly
   the stations whose read was answered, decoded; everything disarmed afterwards *)
Lemma read_all_closed_form : forall extra,
  let '(s1, a1) := rhandle k rds_idle RStart in
  let '(s2, tr) := rdrive (16 + extra) k devr s1 a1 in
  a1 ++ tr = map (RRead k) (zseq 0 16) ++ [RCallback (read_all_expected k devr (zseq 0 16))] /\ s2 = rds_idle.
Proof.
  intros extra. cbn [rhandle rds_idle r_armed m_r].
  exact (reader_loop 16 (mk_rds true 0 [] false) extra eq_refl eq_refl eq_refl (le_n 16)).
Qed.
End Reader.
