(* C14/Model_lh.v — lighthouse geometry/calibration: memory layout (lighthouse_memory.py), file objects
   and the YAML configuration file (lighthouse_config_manager.py), and the persistent-parameter file
   (param_io.py).  Floats are opaque bit patterns (32-bit in memory, 64-bit in files).  Definitions only. *)
From Coq Require Export String.
From CF Require Export Common.Bytes.
From CF Require Import C14.Model.
Export List. Export ListNotations.
Open Scope Z_scope.

(* ---------------------------------------------------------------- little-endian 32-bit fields *)

Definition pack32 (fs : list Z) : list Z := concat (map (le_bytes 4) fs).

(* n fields of 4 bytes from the front of d *)
Fixpoint unpack32 (n : nat) (d : list Z) : list Z :=
  match n with
  | O => []
  | S k => le_val (firstn 4 d) :: unpack32 k (skipn 4 d)
  end.

Definition all32 (fs : list Z) : Prop := Forall (fun z => 0 <= z < 2 ^ 32) fs.
Definition all32b (fs : list Z) : bool := forallb (fun z => (0 <=? z) && (z <? 2 ^ 32)) fs.
Definition b2z (b : bool) : Z := if b then 1 else 0.

(* ---------------------------------------------------------------- geometry: 12 floats + bool = 49 bytes *)

Record lh_geo := mk_geo { g_floats : list Z;      (* origin x y z, then the rotation matrix row by row *)
                          g_valid : bool }.

(* LighthouseBsGeometry.add_mem_data *)
Definition geo_pack (g : lh_geo) : option (list Z) :=
  if (length (g_floats g) =? 12)%nat && all32b (g_floats g)
  then Some (pack32 (g_floats g) ++ [b2z (g_valid g)]) else None.

(* set_from_mem_data: None = struct.error (the data is not exactly 49 bytes) *)
Definition geo_unpack (d : list Z) : option lh_geo :=
  if (length d =? 49)%nat then Some (mk_geo (unpack32 12 d) (negb (nthz 48 d =? 0))) else None.

(* ---------------------------------------------------------------- calibration: 2 x 7 floats, uid, bool = 61 bytes *)

Record lh_calib := mk_calib { c_floats : list Z;  (* sweep 0: phase tilt curve gibmag gibphase ogeemag ogeephase; sweep 1 *)
                              c_uid : Z; c_valid : bool }.

Definition calib_pack (c : lh_calib) : option (list Z) :=
  if (length (c_floats c) =? 14)%nat && all32b (c_floats c) && (0 <=? c_uid c) && (c_uid c <? 2 ^ 32)
  then Some (pack32 (c_floats c) ++ le_bytes 4 (c_uid c) ++ [b2z (c_valid c)]) else None.

Definition calib_unpack (d : list Z) : option lh_calib :=
  if (length d =? 61)%nat
  then Some (mk_calib (unpack32 14 d) (le_val (slice d 56 60)) (negb (nthz 60 d =? 0))) else None.

(* ---------------------------------------------------------------- LighthouseMemory addressing *)

Definition GEO_START : Z := 0.
Definition CALIB_START : Z := 4096.
Definition PAGE : Z := 256.

(* write_geo_data / write_calib_data: (address, bytes) handed to the memory handler *)
Definition lh_write_geo (bs : Z) (g : lh_geo) : option (Z * list Z) :=
  match geo_pack g with Some d => Some (GEO_START + bs * PAGE, d) | None => None end.
Definition lh_write_calib (bs : Z) (c : lh_calib) : option (Z * list Z) :=
  match calib_pack c with Some d => Some (CALIB_START + bs * PAGE, d) | None => None end.
(* read_geo_data / read_calib_data: (address, length) requested *)
Definition lh_read_geo (bs : Z) : Z * Z := (GEO_START + bs * PAGE, 49).
Definition lh_read_calib (bs : Z) : Z * Z := (CALIB_START + bs * PAGE, 61).

Inductive lh_obj := LGeo (g : lh_geo) | LCalib (c : lh_calib) | LStructError.

(* new_data: the address decides which object is decoded *)
Definition lh_new_data (addr : Z) (d : list Z) : lh_obj :=
  if addr <? CALIB_START
  then match geo_unpack d with Some g => LGeo g | None => LStructError end
  else match calib_unpack d with Some c => LCalib c | None => LStructError end.

(* ---------------------------------------------------------------- plain data as YAML carries it *)

Inductive yv :=
| YNone
| YBool (b : bool)
| YInt (z : Z)
| YFloat (bits : Z)                                   (* binary64 pattern *)
| YStr (s : string)
| YList (l : list yv)
| YDict (d : list (yv * yv)).                         (* insertion-ordered *)

Definition yv_eqb (a b : yv) : bool :=
  match a, b with
  | YNone, YNone => true
  | YBool x, YBool y => Bool.eqb x y
  | YInt x, YInt y => x =? y
  | YFloat x, YFloat y => x =? y
  | YStr x, YStr y => String.eqb x y
  | _, _ => false                                      (* containers are never used as keys *)
  end.

Fixpoint ydict_get (k : yv) (d : list (yv * yv)) : option yv :=
  match d with
  | [] => None
  | (k', v) :: d' => if yv_eqb k k' then Some v else ydict_get k d'
  end.

Definition ymap {A} (f : yv -> option A) (l : list yv) : option (list A) :=
  fold_right (fun x acc => match f x, acc with Some y, Some ys => Some (y :: ys) | _, _ => None end) (Some []) l.

(* ---------------------------------------------------------------- file objects *)

(* The file-object converters do not look at the values at all (no shape or type check): whatever sits
   under the key is stored.  So the objects hold arbitrary plain data here; when they come from the
   memory they are lists of floats. *)
Record fgeo := mk_fgeo { fg_origin : yv; fg_rot : yv; fg_valid : bool }.
Record fcalib := mk_fcalib { fc_s0 : list yv; fc_s1 : list yv;   (* 7 values each, in sweep_names order *)
                             fc_uid : yv; fc_valid : bool }.

Definition sweep_names : list string :=
  ["phase"; "tilt"; "curve"; "gibmag"; "gibphase"; "ogeemag"; "ogeephase"]%string.

Definition geo_file_object (g : fgeo) : yv :=
  YDict [(YStr "origin", fg_origin g); (YStr "rotation", fg_rot g)].

Definition sweep_file_object (vals : list yv) : yv := YDict (combine (map YStr sweep_names) vals).

Definition calib_file_object (c : fcalib) : yv :=
  YDict [(YStr "sweeps", YList [sweep_file_object (fc_s0 c); sweep_file_object (fc_s1 c)]);
         (YStr "uid", fc_uid c)].

Fixpoint opt_all {A} (l : list (option A)) : option (list A) :=
  match l with
  | [] => Some []
  | None :: _ => None
  | Some x :: t => match opt_all t with Some xs => Some (x :: xs) | None => None end
  end.

(* from_file_object: None = KeyError / TypeError / IndexError *)
Definition geo_from_file_object (v : yv) : option fgeo :=
  match v with
  | YDict d =>
    match ydict_get (YStr "origin") d, ydict_get (YStr "rotation") d with
    | Some o, Some r => Some (mk_fgeo o r true)
    | _, _ => None
    end
  | _ => None
  end.

Definition sweep_from_file_object (v : yv) : option (list yv) :=
  match v with
  | YDict d => opt_all (map (fun n => ydict_get (YStr n) d) sweep_names)
  | _ => None
  end.

Definition calib_from_file_object (v : yv) : option fcalib :=
  match v with
  | YDict d =>
    match ydict_get (YStr "sweeps") d with
    | Some (YList (s0 :: s1 :: _)) =>
      match sweep_from_file_object s0, sweep_from_file_object s1, ydict_get (YStr "uid") d with
      | Some a, Some b, Some u => Some (mk_fcalib a b u true)
      | _, _, _ => None
      end
    | _ => None
    end
  | _ => None
  end.

(* ---------------------------------------------------------------- LighthouseConfigFileManager *)

Definition LH_TYPE : yv := YStr "lighthouse_system_configuration".
Definition LH_VERSION : yv := YStr "1".

(* write: the data handed to yaml.dump; only valid objects are written *)
Definition lh_file_data (geos : list (yv * fgeo)) (calibs : list (yv * fcalib)) (st : yv) : yv :=
  YDict [(YStr "type", LH_TYPE); (YStr "version", LH_VERSION); (YStr "systemType", st);
         (YStr "geos", YDict (map (fun kg => (fst kg, geo_file_object (snd kg)))
                                  (filter (fun kg => fg_valid (snd kg)) geos)));
         (YStr "calibs", YDict (map (fun kc => (fst kc, calib_file_object (snd kc)))
                                    (filter (fun kc => fc_valid (snd kc)) calibs)))].

Inductive file_err := ErrTypeMissing | ErrType | ErrVersionMissing | ErrVersion | ErrShape.

Inductive lh_file_res :=
| LF_Ok (geos : list (yv * fgeo)) (calibs : list (yv * fcalib)) (st : yv)
| LF_Err (e : file_err).

Definition conv_items {A} (f : yv -> option A) (v : yv) : option (list (yv * A)) :=
  match v with
  | YDict d => opt_all (map (fun kv => match f (snd kv) with Some x => Some (fst kv, x) | None => None end) d)
  | _ => None
  end.

(* read, applied to what yaml.safe_load returned (a mapping) *)
Definition lh_file_read (data : yv) : lh_file_res :=
  match data with
  | YDict d =>
    match ydict_get (YStr "type") d with
    | None => LF_Err ErrTypeMissing
    | Some t =>
      if negb (yv_eqb t LH_TYPE) then LF_Err ErrType else
      match ydict_get (YStr "version") d with
      | None => LF_Err ErrVersionMissing
      | Some v =>
        if negb (yv_eqb v LH_VERSION) then LF_Err ErrVersion else
        let st := match ydict_get (YStr "systemType") d with Some s => s | None => YInt 2 end in
        let geos := match ydict_get (YStr "geos") d with
                    | Some g => conv_items geo_from_file_object g | None => Some [] end in
        let calibs := match ydict_get (YStr "calibs") d with
                      | Some c => conv_items calib_from_file_object c | None => Some [] end in
        match geos, calibs with
        | Some g, Some c => LF_Ok g c st
        | _, _ => LF_Err ErrShape
        end
      end
    end
  | _ => LF_Err ErrShape
  end.

(* ---------------------------------------------------------------- ParamFileManager *)

Record pstate := mk_pstate { p_is_stored : yv; p_default : yv; p_stored : yv }.

Definition PARAM_TYPE : yv := YStr "persistent_param_state".

Definition param_file_data (params : list (yv * pstate)) : yv :=
  YDict [(YStr "type", PARAM_TYPE); (YStr "version", LH_VERSION);
         (YStr "params", YDict (map (fun kp => (fst kp,
             YDict [(YStr "is_stored", p_is_stored (snd kp)); (YStr "default_value", p_default (snd kp));
                    (YStr "stored_value", p_stored (snd kp))])) params))].

Inductive param_file_res := PF_Ok (params : list (yv * pstate)) | PF_Err (e : file_err).

Definition pstate_from (v : yv) : option pstate :=
  match v with
  | YDict d =>
    match ydict_get (YStr "is_stored") d, ydict_get (YStr "default_value") d, ydict_get (YStr "stored_value") d with
    | Some a, Some b, Some c => Some (mk_pstate a b c)
    | _, _, _ => None
    end
  | _ => None
  end.

Definition param_file_read (data : yv) : param_file_res :=
  match data with
  | YDict d =>
    match ydict_get (YStr "type") d with
    | None => PF_Err ErrTypeMissing
    | Some t =>
      if negb (yv_eqb t PARAM_TYPE) then PF_Err ErrType else
      match ydict_get (YStr "version") d with
      | None => PF_Err ErrVersionMissing
      | Some v =>
        if negb (yv_eqb v LH_VERSION) then PF_Err ErrVersion else
        match ydict_get (YStr "params") d with
        | None => PF_Ok []
        | Some p => match conv_items pstate_from p with Some l => PF_Ok l | None => PF_Err ErrShape end
        end
      end
    end
  | _ => PF_Err ErrShape
  end.

(* ---------------------------------------------------------------- the data domain of the YAML hypothesis *)

Definition is_nan64 (b : Z) : bool := ((b / 2 ^ 52) mod 2048 =? 2047) && negb (b mod 2 ^ 52 =? 0).

Definition yv_key (k : yv) : bool := match k with YStr _ | YInt _ => true | _ => false end.

(* "plain data": None, bool, int, str, non-NaN binary64 floats, lists of plain data, dicts with str/int keys and
   plain values.  Nothing else can be written down as a yv (no tuples, no objects); NaN is excluded because
   PyYAML writes every NaN as `.nan` and does not give the payload back. *)
Fixpoint yv_plain (v : yv) : bool :=
  match v with
  | YFloat b => (0 <=? b) && (b <? 2 ^ 64) && negb (is_nan64 b)
  | YList l => forallb yv_plain l
  | YDict d => forallb (fun kv => match kv with (k, x) => yv_key k && yv_plain x end) d
  | _ => true
  end.

(* ---------------------------------------------------------------- memory objects <-> file objects
   The same Python objects carry the values between the two representations: set_from_mem_data stores the
   floats struct.unpack returns (binary64 values of the binary32 fields) in LISTS, as_file_object hands these
   lists to yaml; from_file_object stores what yaml loaded, add_mem_data packs it with struct 'f'.
   w : binary32 pattern -> binary64 pattern of the same value;  n : the way back (exact for such values). *)

Definition yfl (w : Z -> Z) (l : list Z) : yv := YList (map (fun b => YFloat (w b)) l).

Definition geo_obj_of_mem (w : Z -> Z) (g : lh_geo) : fgeo :=
  let fs := g_floats g in
  mk_fgeo (yfl w (firstn 3 fs)) (YList [yfl w (slice fs 3 6); yfl w (slice fs 6 9); yfl w (slice fs 9 12)]) (g_valid g).

Definition calib_obj_of_mem (w : Z -> Z) (c : lh_calib) : fcalib :=
  mk_fcalib (map (fun b => YFloat (w b)) (firstn 7 (c_floats c))) (map (fun b => YFloat (w b)) (skipn 7 (c_floats c)))
            (YInt (c_uid c)) (c_valid c).

Definition narrow_all (n : Z -> Z) (l : list yv) : option (list Z) :=
  opt_all (map (fun x => match x with YFloat b => Some (n b) | _ => None end) l).

Definition vec3_of (n : Z -> Z) (v : yv) : option (list Z) :=
  match v with
  | YList [a; b; c] => narrow_all n [a; b; c]
  | _ => None
  end.

(* what add_mem_data packs for an object that came from a file; None = outside the model (not three floats) *)
Definition geo_mem_of_obj (n : Z -> Z) (f : fgeo) : option lh_geo :=
  match vec3_of n (fg_origin f), fg_rot f with
  | Some o, YList [r0; r1; r2] =>
    match vec3_of n r0, vec3_of n r1, vec3_of n r2 with
    | Some a, Some b, Some c => Some (mk_geo (o ++ a ++ b ++ c) (fg_valid f))
    | _, _, _ => None
    end
  | _, _ => None
  end.

Definition calib_mem_of_obj (n : Z -> Z) (f : fcalib) : option lh_calib :=
  match narrow_all n (fc_s0 f), narrow_all n (fc_s1 f), fc_uid f with
  | Some a, Some b, YInt u =>
    if (length a =? 7)%nat && (length b =? 7)%nat then Some (mk_calib (a ++ b) u (fc_valid f)) else None
  | _, _, _ => None
  end.

(* concrete conversions, used to run the model next to the code (struct 'f' unpack / pack of exact values) *)
Definition widen32 (b : Z) : Z :=
  let s := b / 2 ^ 31 in
  let e := (b / 2 ^ 23) mod 256 in
  let m := b mod 2 ^ 23 in
  if e =? 255 then s * 2 ^ 63 + 2047 * 2 ^ 52 + m * 2 ^ 29
  else if e =? 0 then
    if m =? 0 then s * 2 ^ 63
    else let k := Z.log2 m in s * 2 ^ 63 + (k - 149 + 1023) * 2 ^ 52 + (m - 2 ^ k) * 2 ^ (52 - k)
  else s * 2 ^ 63 + (e - 127 + 1023) * 2 ^ 52 + m * 2 ^ 29.

Definition narrow32 (b : Z) : Z :=
  let s := b / 2 ^ 63 in
  let e := (b / 2 ^ 52) mod 2048 in
  let m := b mod 2 ^ 52 in
  if e =? 2047 then s * 2 ^ 31 + 255 * 2 ^ 23 + m / 2 ^ 29
  else if (e =? 0) && (m =? 0) then s * 2 ^ 31
  else let E := e - 1023 + 127 in
       if 1 <=? E then s * 2 ^ 31 + E * 2 ^ 23 + m / 2 ^ 29
       else s * 2 ^ 31 + (2 ^ 52 + m) / 2 ^ (30 - E).
