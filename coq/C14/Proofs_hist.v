(* C14/Proofs_hist.v — after any history on one element, valid reflects the last read only. *)
From CF Require Import Common.Bytes C14.Model C14.Model_hist C14.Proofs_i2c C14.Proofs_ow.
From Coq Require Import ZifyBool.
Open Scope Z_scope.

(* ---------------------------------------------------------------- I2CElement *)

(* an accepted update() decides valid exactly as a fresh object reading the same device would *)
Lemma i2c_update_valid_fresh : forall st mem, is_pending st = false ->
  is_valid (fst (i2c_update st mem)) = i2c_valid (i2c_parse mem).
Proof.
  intros st mem P. unfold i2c_update, i2c_parse. rewrite P.
  destruct (read mem 0 16) as [d|]; [|reflexivity].
  destruct (zlist_eqb (firstn 4 d) token); [|reflexivity].
  destruct (i_version (i2c_hdr_fields d) =? 0); [reflexivity|].
  destruct (i_version (i2c_hdr_fields d) =? 1); [|reflexivity].
  destruct (read mem 16 5); reflexivity.
Qed.

(* a pending update can only coexist with valid = False *)
Definition i2c_inv (st : ist) : Prop := is_pending st = true -> is_valid st = false.

Lemma i2c_update_inv st mem : i2c_inv st -> i2c_inv (fst (i2c_update st mem)).
Proof.
  intros I. unfold i2c_update. destruct (is_pending st) eqn:P; [exact I|].
  destruct (read mem 0 16) as [d|]; [|intros _; reflexivity].
  destruct (zlist_eqb (firstn 4 d) token); [|intros H; discriminate H].
  destruct (i_version (i2c_hdr_fields d) =? 0); [intros H; discriminate H|].
  destruct (i_version (i2c_hdr_fields d) =? 1); [|intros _; reflexivity].
  destruct (read mem 16 5); [intros H; discriminate H|intros _; reflexivity].
Qed.

Lemma i2c_step_inv s o : i2c_inv (fst s) -> i2c_inv (fst (i2c_step' s o)).
Proof.
  destruct s as [st mem]. cbn [fst]. intros I. unfold i2c_step', i2c_step.
  destruct o as [|f|p v|m|].
  - pose proof (i2c_update_inv st mem I) as H. destruct (i2c_update st mem) as [st' n]. exact H.
  - destruct (i2c_write f); exact I.
  - exact I.
  - exact I.
  - intros H. discriminate H.
Qed.

Lemma i2c_run_inv_from : forall ops s, i2c_inv (fst s) -> i2c_inv (fst (fold_left i2c_step' ops s)).
Proof.
  induction ops as [|o ops IH]; intros s I; [exact I|]. cbn [fold_left]. apply IH, i2c_step_inv, I.
Qed.

Lemma i2c_run_inv ops : i2c_inv (fst (i2c_run ops)).
Proof. apply i2c_run_inv_from. intros H. discriminate H. Qed.

Lemma i2c_valid_last_read : forall ops mem,
  let st := fst (i2c_run ops) in
  is_valid (fst (i2c_update st mem)) = negb (is_pending st) && i2c_valid (i2c_parse mem).
Proof.
  intros ops mem st. destruct (is_pending st) eqn:P.
  - cbn [negb andb]. unfold i2c_update. rewrite P. cbn [fst]. apply (i2c_run_inv ops). exact P.
  - cbn [negb andb]. apply i2c_update_valid_fresh. exact P.
Qed.

(* F14c: a read that never completes (unknown version byte) leaves the callback pending; every later
   update() is then ignored: a correct image written afterwards through the same object is never read *)
Definition f14c_ops : list iop :=
  [ISetMem [48; 120; 66; 67; 7; 0; 0; 0; 0; 0; 0; 0; 0; 0; 0; 0; 0; 0; 0; 0; 0];
   IUpdate;
   IWrite (mk_i2c 0 80 2 0 0 None);
   IUpdate].

Lemma i2c_f14c :
  let '(st, mem) := i2c_run f14c_ops in
  i2c_valid (i2c_parse mem) = true /\ is_valid st = false /\ is_pending st = true /\ is_cbs st = 0.
Proof. vm_compute. repeat split; reflexivity. Qed.

(* F14e: after a version-1 image, a valid version-0 image read through the same object still shows the
   radio address of the earlier image *)
Definition f14e_ops : list iop :=
  [IWrite (mk_i2c 1 80 2 0 0 (Some 996028180225)); IUpdate;
   ISetMem [48; 120; 66; 67; 0; 80; 2; 0; 0; 0; 0; 0; 0; 0; 0; 127; 255; 255; 255; 255; 255];
   IUpdate].

Lemma i2c_f14e :
  let '(st, mem) := i2c_run f14e_ops in
  i2c_parse mem = I2C_Res true true (Some (mk_i2c 0 80 2 0 0 None)) /\
  is_valid st = true /\ is_elems st = Some (mk_i2c 0 80 2 0 0 (Some 996028180225)).
Proof. vm_compute. repeat split; reflexivity. Qed.

(* ---------------------------------------------------------------- OWElement *)

Lemma ow_elems_exc_indep : forall fuel ed d d', snd (ow_elems fuel ed d) = snd (ow_elems fuel ed d').
Proof.
  induction fuel as [|k IH]; intros ed d d'.
  - destruct ed as [|a [|b r]]; reflexivity.
  - destruct ed as [|a [|b r]]; [reflexivity|reflexivity|]. cbn [ow_elems].
    destruct (ow_idb a); [apply IH|reflexivity].
Qed.

Lemma ow_check_from_indep d0 data :
  fst (fst (ow_check_from d0 data)) = fst (fst (ow_check_elements data)) /\
  snd (ow_check_from d0 data) = snd (ow_check_elements data).
Proof.
  unfold ow_check_from, ow_check_elements. destruct (crc8 (removelast data) =? last data 0); [|split; reflexivity].
  pose proof (ow_elems_exc_indep (length (removelast data)) (skipn 2 (removelast data)) d0 []) as E.
  destruct (ow_elems _ _ d0) as [d1 e1]. destruct (ow_elems _ _ []) as [d2 e2]. cbn [snd] in E. subst e2.
  split; reflexivity.
Qed.

Lemma ow_check_from_exc d0 data x :
  snd (ow_check_from d0 data) = Some x -> fst (fst (ow_check_from d0 data)) = false.
Proof.
  unfold ow_check_from. destruct (crc8 (removelast data) =? last data 0); [|discriminate].
  destruct (ow_elems _ _ d0) as [d1 e1]. cbn [fst snd]. intros ->. reflexivity.
Qed.

Lemma ow_update_valid_fresh : forall st mem, os_pending st = false ->
  os_valid (fst (fst (ow_update st mem))) = ow_is_valid (ow_parse mem).
Proof.
  intros st mem P. unfold ow_update, ow_parse. rewrite P.
  destruct (read mem 0 11) as [d|]; [|reflexivity].
  destruct ((nthz 0 d =? 235) && (nthz 7 d =? crc8 (firstn 7 d))); [|reflexivity].
  destruct (read mem 8 (Z.to_nat (nthz 9 d) + 3)) as [d2|]; [|reflexivity].
  destruct (ow_check_from_indep (os_elems st) d2) as [E1 E2].
  pose proof (ow_check_from_exc (os_elems st) d2) as EX.
  destruct (ow_check_from (os_elems st) d2) as [[ok els] e].
  destruct (ow_check_elements d2) as [[ok' els'] e']. cbn [fst snd] in E1, E2. subst ok' e'.
  destruct e as [x|]; cbn [fst os_valid ow_is_valid ow_valid]; [|reflexivity].
  (* an exception: ok is false in both *)
  cbn [fst snd] in EX. symmetry. apply (EX x). reflexivity.
Qed.

Definition ow_inv (st : ost) : Prop := os_pending st = true -> os_valid st = false.

Lemma ow_update_inv st mem : ow_inv st -> ow_inv (fst (fst (ow_update st mem))).
Proof.
  intros I. unfold ow_update. destruct (os_pending st) eqn:P; [exact I|].
  destruct (read mem 0 11) as [d|]; [|intros _; reflexivity].
  destruct ((nthz 0 d =? 235) && (nthz 7 d =? crc8 (firstn 7 d))); [|intros H; discriminate H].
  destruct (read mem 8 (Z.to_nat (nthz 9 d) + 3)) as [d2|]; [|intros _; reflexivity].
  destruct (ow_check_from (os_elems st) d2) as [[ok els] e].
  destruct e; [intros _; reflexivity|intros H; discriminate H].
Qed.

Lemma ow_step_inv s o : ow_inv (fst s) -> ow_inv (fst (ow_step' s o)).
Proof.
  destruct s as [st mem]. cbn [fst]. intros I. unfold ow_step', ow_step.
  destruct o as [|pins vid pid els|p v|m|].
  - pose proof (ow_update_inv st mem I) as H. destruct (ow_update st mem) as [[st' n] e]. exact H.
  - destruct (ow_write pins vid pid els); exact I.
  - exact I.
  - exact I.
  - intros H. discriminate H.
Qed.

Lemma ow_run_inv_from : forall ops s, ow_inv (fst s) -> ow_inv (fst (fold_left ow_step' ops s)).
Proof.
  induction ops as [|o ops IH]; intros s I; [exact I|]. cbn [fold_left]. apply IH, ow_step_inv, I.
Qed.

Lemma ow_run_inv ops : ow_inv (fst (ow_run ops)).
Proof. apply ow_run_inv_from. intros H. discriminate H. Qed.

Lemma ow_valid_last_read : forall ops mem,
  let st := fst (ow_run ops) in
  os_valid (fst (fst (ow_update st mem))) = negb (os_pending st) && ow_is_valid (ow_parse mem).
Proof.
  intros ops mem st. destruct (os_pending st) eqn:P.
  - cbn [negb andb]. unfold ow_update. rewrite P. cbn [fst]. apply (ow_run_inv ops). exact P.
  - cbn [negb andb]. apply ow_update_valid_fresh. exact P.
Qed.

(* on an object whose dictionary is empty, the elements after an accepted update are the fresh parse's *)
Lemma ow_update_elems_fresh : forall st mem o, os_pending st = false -> os_elems st = [] ->
  ow_parse mem = OW_Res o -> os_elems (fst (fst (ow_update st mem))) = ow_elements o.
Proof.
  intros st mem o P E. unfold ow_update, ow_parse. rewrite P, E.
  destruct (read mem 0 11) as [d|]; [|discriminate].
  destruct ((nthz 0 d =? 235) && (nthz 7 d =? crc8 (firstn 7 d))).
  2:{ intros H. injection H as <-. reflexivity. }
  destruct (read mem 8 (Z.to_nat (nthz 9 d) + 3)) as [d2|]; [|discriminate].
  change (ow_check_from [] d2) with (ow_check_elements d2).
  destruct (ow_check_elements d2) as [[ok els] e]. intros H. injection H as <-.
  destruct e; reflexivity.
Qed.

(* F14d: the dictionary is never cleared: elements of an earlier image survive a later valid read of an
   image that no longer has them *)
Definition f14d_img : list Z := match ow_write 0 188 18 [(1, [90])] with Some i => i | None => [] end.
Definition f14d_ops : list oop :=
  [OWrite 0 188 18 [(1, [65; 66]); (2, [67])]; OUpdate; OSetMem f14d_img; OUpdate].

Lemma ow_f14d :
  let '(st, mem) := ow_run f14d_ops in
  ow_parse mem = OW_Res (mk_ow true true 0 188 18 [(1, [90])] None) /\
  os_valid st = true /\ os_elems st = [(1, [90]); (2, [67])].
Proof. vm_compute. repeat split; reflexivity. Qed.
