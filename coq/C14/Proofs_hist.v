(* C14/Proofs_hist.v — after any history on one element, valid reflects the last read only. *)
From CF Require Import Common.Bytes C14.Model C14.Model_hist C14.Proofs_i2c C14.Proofs_ow.
From Coq Require Import ZifyBool.
Open Scope Z_scope.

(* ---------------------------------------------------------------- I2CElement *)

(* an accepted update() decides valid exactly as a fresh object reading the same device would *)
Lemma i2c_update_valid_fresh : forall st mem, is_pending st = false ->
  is_valid (fst (i2c_update st mem)) = i2c_valid (i2c_parse mem).
Proof.
  intros st mem P. unfold i2c_update, i2c_parse. rewrite P.
  destruct (read mem 0 16) as [d|]; [|reflexivity].
  destruct (zlist_eqb (firstn 4 d) token); [|reflexivity].
  destruct (i_version (i2c_hdr_fields d) =? 0); [reflexivity|].
  destruct (i_version (i2c_hdr_fields d) =? 1); [|reflexivity].
  destruct (read mem 16 5); reflexivity.
Qed.

(* a pending update can only coexist with valid = False *)
Definition i2c_inv (st : ist) : Prop := is_pending st = true -> is_valid st = false.

Lemma i2c_update_inv st mem : i2c_inv st -> i2c_inv (fst (i2c_update st mem)).
Proof.
  intros I. unfold i2c_update. destruct (is_pending st) eqn:P; [exact I|].
  destruct (read mem 0 16) as [d|]; [|intros _; reflexivity].
  destruct (zlist_eqb (firstn 4 d) token); [|intros H; discriminate H].
  destruct (i_version (i2c_hdr_fields d) =? 0); [intros H; discriminate H|].
  destruct (i_version (i2c_hdr_fields d) =? 1); [|intros H; discriminate H].
  destruct (read mem 16 5); [intros H; discriminate H|intros _; reflexivity].
Qed.

Lemma i2c_step_inv s o : i2c_inv (fst s) -> i2c_inv (fst (i2c_step' s o)).
Proof.
  destruct s as [st mem]. cbn [fst]. intros I. unfold i2c_step', i2c_step.
  destruct o as [|f|p v|m|].
  - pose proof (i2c_update_inv st mem I) as H. destruct (i2c_update st mem) as [st' n]. exact H.
  - destruct (i2c_write f); exact I.
  - exact I.
  - exact I.
  - intros H. discriminate H.
Qed.

Lemma i2c_run_inv_from : forall ops s, i2c_inv (fst s) -> i2c_inv (fst (fold_left i2c_step' ops s)).
Proof.
  induction ops as [|o ops IH]; intros s I; [exact I|]. cbn [fold_left]. apply IH, i2c_step_inv, I.
Qed.

Lemma i2c_run_inv ops : i2c_inv (fst (i2c_run ops)).
Proof. apply i2c_run_inv_from. intros H. discriminate H. Qed.

Lemma i2c_valid_last_read : forall ops mem,
  let st := fst (i2c_run ops) in
  is_valid (fst (i2c_update st mem)) = negb (is_pending st) && i2c_valid (i2c_parse mem).
Proof.
  intros ops mem st. destruct (is_pending st) eqn:P.
  - cbn [negb andb]. unfold i2c_update. rewrite P. cbn [fst]. apply (i2c_run_inv ops). exact P.
  - cbn [negb andb]. apply i2c_update_valid_fresh. exact P.
Qed.

(* F14c repaired: on a device that can serve the two read requests every update completes: the callback is
   delivered exactly once and nothing stays pending, whatever the image holds *)
Lemma i2c_update_completes : forall st mem, is_pending st = false -> (21 <= length mem)%nat ->
  is_pending (fst (i2c_update st mem)) = false /\ is_cbs (fst (i2c_update st mem)) = is_cbs st + 1 /\
  1 <= snd (i2c_update st mem) <= 2.
Proof.
  intros st mem P L. unfold i2c_update, read. rewrite P.
  replace (0 + 16 <=? length mem)%nat with true by (symmetry; apply Nat.leb_le; lia).
  replace (16 + 5 <=? length mem)%nat with true by (symmetry; apply Nat.leb_le; lia).
  destruct (zlist_eqb _ token); [|cbn [fst snd is_pending is_cbs]; lia].
  destruct (i_version _ =? 0); [cbn [fst snd is_pending is_cbs]; lia|].
  destruct (i_version _ =? 1); cbn [fst snd is_pending is_cbs]; lia.
Qed.

(* F14e repaired: a valid read reports exactly the fields of the image read, whatever was read before *)
Lemma i2c_fields_last_read : forall st mem cb f, is_pending st = false ->
  i2c_parse mem = I2C_Res true cb (Some f) -> is_elems (fst (i2c_update st mem)) = Some f.
Proof.
  intros st mem cb f P. unfold i2c_update, i2c_parse. rewrite P.
  destruct (read mem 0 16) as [d|]; [|discriminate].
  destruct (zlist_eqb (firstn 4 d) token); [|discriminate].
  destruct (i_version (i2c_hdr_fields d) =? 0) eqn:V0.
  - intros H. injection H as _ _ <-. reflexivity.
  - destruct (i_version (i2c_hdr_fields d) =? 1); [|discriminate].
    destruct (read mem 16 5); [|discriminate]. intros H. injection H as _ _ <-. reflexivity.
Qed.

(* ---------------------------------------------------------------- OWElement *)

Lemma ow_check_from_indep d0 data :
  fst (fst (ow_check_from d0 data)) = fst (fst (ow_check_elements data)) /\
  snd (ow_check_from d0 data) = snd (ow_check_elements data).
Proof.
  unfold ow_check_from, ow_check_elements. destruct (crc8 (removelast data) =? last data 0); [|split; reflexivity].
  destruct (ow_elems _ _ []) as [d2 e2]. split; reflexivity.
Qed.

Lemma ow_check_from_exc d0 data x :
  snd (ow_check_from d0 data) = Some x -> fst (fst (ow_check_from d0 data)) = false.
Proof.
  unfold ow_check_from. destruct (crc8 (removelast data) =? last data 0); [|discriminate].
  destruct (ow_elems _ _ []) as [d1 e1]. cbn [fst snd]. intros ->. reflexivity.
Qed.

Lemma ow_update_valid_fresh : forall st mem, os_pending st = false ->
  os_valid (fst (fst (ow_update st mem))) = ow_is_valid (ow_parse mem).
Proof.
  intros st mem P. unfold ow_update, ow_parse. rewrite P.
  destruct (read mem 0 11) as [d|]; [|reflexivity].
  destruct ((nthz 0 d =? 235) && (nthz 7 d =? crc8 (firstn 7 d))); [|reflexivity].
  destruct (read mem 8 (Z.to_nat (nthz 9 d) + 3)) as [d2|]; [|reflexivity].
  destruct (ow_check_from_indep (os_elems st) d2) as [E1 E2].
  pose proof (ow_check_from_exc (os_elems st) d2) as EX.
  destruct (ow_check_from (os_elems st) d2) as [[ok els] e].
  destruct (ow_check_elements d2) as [[ok' els'] e']. cbn [fst snd] in E1, E2. subst ok' e'.
  destruct e as [x|]; cbn [fst os_valid ow_is_valid ow_valid]; [|reflexivity].
  (* an exception: ok is false in both *)
  cbn [fst snd] in EX. symmetry. apply (EX x). reflexivity.
Qed.

Definition ow_inv (st : ost) : Prop := os_pending st = true -> os_valid st = false.

Lemma ow_update_inv st mem : ow_inv st -> ow_inv (fst (fst (ow_update st mem))).
Proof.
  intros I. unfold ow_update. destruct (os_pending st) eqn:P; [exact I|].
  destruct (read mem 0 11) as [d|]; [|intros _; reflexivity].
  destruct ((nthz 0 d =? 235) && (nthz 7 d =? crc8 (firstn 7 d))); [|intros H; discriminate H].
  destruct (read mem 8 (Z.to_nat (nthz 9 d) + 3)) as [d2|]; [|intros _; reflexivity].
  destruct (ow_check_from (os_elems st) d2) as [[ok els] e].
  destruct e; [intros _; reflexivity|intros H; discriminate H].
Qed.

Lemma ow_step_inv s o : ow_inv (fst s) -> ow_inv (fst (ow_step' s o)).
Proof.
  destruct s as [st mem]. cbn [fst]. intros I. unfold ow_step', ow_step.
  destruct o as [|pins vid pid els|p v|m|].
  - pose proof (ow_update_inv st mem I) as H. destruct (ow_update st mem) as [[st' n] e]. exact H.
  - destruct (ow_write pins vid pid els); exact I.
  - exact I.
  - exact I.
  - intros H. discriminate H.
Qed.

Lemma ow_run_inv_from : forall ops s, ow_inv (fst s) -> ow_inv (fst (fold_left ow_step' ops s)).
Proof.
  induction ops as [|o ops IH]; intros s I; [exact I|]. cbn [fold_left]. apply IH, ow_step_inv, I.
Qed.

Lemma ow_run_inv ops : ow_inv (fst (ow_run ops)).
Proof. apply ow_run_inv_from. intros H. discriminate H. Qed.

Lemma ow_valid_last_read : forall ops mem,
  let st := fst (ow_run ops) in
  os_valid (fst (fst (ow_update st mem))) = negb (os_pending st) && ow_is_valid (ow_parse mem).
Proof.
  intros ops mem st. destruct (os_pending st) eqn:P.
  - cbn [negb andb]. unfold ow_update. rewrite P. cbn [fst]. apply (ow_run_inv ops). exact P.
  - cbn [negb andb]. apply ow_update_valid_fresh. exact P.
Qed.

(* F14d repaired: a valid read reports exactly the header and the elements of the image read, whatever the
   dictionary held before (elements read earlier, or put there by the caller for write_data) *)
Lemma ow_elems_last_read : forall st mem o, os_pending st = false ->
  ow_parse mem = OW_Res o -> ow_valid o = true ->
  os_elems (fst (fst (ow_update st mem))) = ow_elements o /\
  os_hdr (fst (fst (ow_update st mem))) = Some (ow_pins o, ow_vid o, ow_pid o).
Proof.
  intros st mem o P. unfold ow_update, ow_parse. rewrite P.
  destruct (read mem 0 11) as [d|]; [|discriminate].
  destruct ((nthz 0 d =? 235) && (nthz 7 d =? crc8 (firstn 7 d))).
  2:{ intros H. injection H as <-. discriminate. }
  destruct (read mem 8 (Z.to_nat (nthz 9 d) + 3)) as [d2|]; [|discriminate].
  unfold ow_check_from, ow_check_elements.
  destruct (crc8 (removelast d2) =? last d2 0).
  - destruct (ow_elems _ _ []) as [dd e]. intros H. injection H as <-. destruct e; [discriminate|].
    intros _. split; reflexivity.
  - intros H. injection H as <-. discriminate.
Qed.
