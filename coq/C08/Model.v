(* C08/Model.v — what a command-emitting method of cflib does, as data (an [action] tree whose
   leaves are packet layouts) plus an interpreter that runs it on the caller's arguments.
   The trees for the current /repo are GENERATED into Gen_Layout.v by harness/trans/c08_layouts.py
   on every run; the firmware-side specification (FwLayout.v) is hand-written in the same vocabulary.
   Executable definitions only. *)
From CF Require Export Common.Bytes.
From CF Require Export Common.Struct.
From CF Require Export C08.PyVal.
From Coq Require Import Floats.SpecFloat.
Open Scope Z_scope.

(* ---------------------------------------------------------------- the commands *)
Inductive cmd :=
(* cflib.crazyflie.commander.Commander *)
| CSetpoint | CNotifyStop | CStopSetpoint | CVelocityWorld | CZDistance | CHover | CFullState | CPosition
(* cflib.crazyflie.high_level_commander.HighLevelCommander *)
| CHlGroupMask | CHlTakeoff | CHlLand | CHlStop | CHlGoTo | CHlSpiral | CHlStartTraj | CHlDefineTraj
(* cflib.crazyflie.localization.Localization *)
| CLocExtPos | CLocExtPose | CLocShortLpp | CLocEmergencyStop | CLocEmergencyWatchdog | CLocLhPersist
(* cflib.crazyflie.extpos.Extpos (delegates to Localization) *)
| CExtposPos | CExtposPose
(* cflib.crazyflie.platformservice.PlatformService *)
| CPlatContWave | CPlatArming | CPlatCrashRecovery
(* lpslib.lopoanchor.LoPoAnchor (short LPP packets through Localization) *)
| CLpsSetPosition | CLpsReboot | CLpsSetMode.

Definition all_cmds : list cmd :=
  [CSetpoint; CNotifyStop; CStopSetpoint; CVelocityWorld; CZDistance; CHover; CFullState; CPosition;
   CHlGroupMask; CHlTakeoff; CHlLand; CHlStop; CHlGoTo; CHlSpiral; CHlStartTraj; CHlDefineTraj;
   CLocExtPos; CLocExtPose; CLocShortLpp; CLocEmergencyStop; CLocEmergencyWatchdog; CLocLhPersist;
   CExtposPos; CExtposPose; CPlatContWave; CPlatArming; CPlatCrashRecovery;
   CLpsSetPosition; CLpsReboot; CLpsSetMode].

(* ---------------------------------------------------------------- expressions and conditions *)
Inductive expr :=
| EArg (i : nat)                  (* i-th scalar argument slot (vector parameters are flattened) *)
| EInt (z : Z)
| EBoolC (b : bool)
| EFloat (bits : Z)               (* a float literal/constant, by its binary64 pattern *)
| ENeg (e : expr)
| EBin (op : binop) (a b : expr)
| EIntOf (e : expr)               (* int(e) *)
| ECodec (k : nat)                (* result of an opaque codec (compress_quaternion: property C13) *)
| EMaskSum (l : nat)              (* m = 0; for b in L: m += 1 << b *)
| EMaskOr (l : nat).              (* m = 0; for b in L: m |= 1 << b *)

Inductive cond :=
| CXMode                          (* Commander._x_mode *)
| CVerLe (n : Z)                  (* platform.get_protocol_version() <= n *)
| CVerLt (n : Z)
| CIsNone (e : expr)
| CGt (a b : expr)
| CLt (a b : expr)
| COr (a b : cond)                (* short-circuit *)
| CListOutside (l : nat) (lo hi : Z).   (* sorted list L non-empty and (L[0] < lo or L[-1] > hi) *)

Inductive action :=
| ARaise (e : exn)
| ASkip                                                   (* returns without sending anything *)
| AEmit (port chan : Z) (fields : list (conv * expr)) (tail : bool)   (* tail: raw bytes appended *)
| ACheck (e : expr) (k : action)                          (* e is evaluated (it may raise), then k *)
| APack (fs : list (conv * expr)) (k : action)            (* a struct.pack whose result is used later: may raise *)
| AIf (c : cond) (a b : action).

(* ---------------------------------------------------------------- environment *)
Record env := {
  e_args : list pyval;            (* scalar argument slots *)
  e_lists : list (list Z);        (* list-of-int parameters *)
  e_codecs : list (res Z);        (* what each opaque codec returned (or raised) on its arguments *)
  e_tail : list Z                 (* bytes parameter appended to the payload *)
}.

Record config := { c_ver : Z; c_xmode : bool }.

Definition mask_sum (l : list Z) : Z := fold_left (fun m b => m + Z.shiftl 1 b) l 0.
Definition mask_or (l : list Z) : Z := fold_left (fun m b => Z.lor m (Z.shiftl 1 b)) l 0.

Definition list_min (l : list Z) : Z := fold_right Z.min (hd 0 l) l.
Definition list_max (l : list Z) : Z := fold_right Z.max (hd 0 l) l.

Fixpoint eval (en : env) (e : expr) : res pyval :=
  match e with
  | EArg i => match nth_error (e_args en) i with Some v => Ok v | None => Raise EOther end
  | EInt z => Ok (PInt z)
  | EBoolC b => Ok (PBool b)
  | EFloat b => Ok (PFloat (sf64_of_bits b))
  | ENeg a => bind (eval en a) py_neg
  | EBin op a b => bind (eval en a) (fun x => bind (eval en b) (fun y => py_arith op x y))
  | EIntOf a => bind (eval en a) py_int
  | ECodec k => match nth_error (e_codecs en) k with
                | Some (Ok z) => Ok (PInt z) | Some (Raise x) => Raise x | None => Raise EOther end
  | EMaskSum l => match nth_error (e_lists en) l with
                  | Some L => if forallb (fun b => 0 <=? b) L then Ok (PInt (mask_sum L)) else Raise EValue
                  | None => Raise EOther end
  | EMaskOr l => match nth_error (e_lists en) l with
                 | Some L => if forallb (fun b => 0 <=? b) L then Ok (PInt (mask_or L)) else Raise EValue
                 | None => Raise EOther end
  end.

Fixpoint eval_cond (cf : config) (en : env) (c : cond) : res bool :=
  match c with
  | CXMode => Ok (c_xmode cf)
  | CVerLe n => Ok (c_ver cf <=? n)
  | CVerLt n => Ok (c_ver cf <? n)
  | CIsNone e => bind (eval en e) (fun v => Ok (match v with PNone => true | _ => false end))
  | CGt a b => bind (eval en a) (fun x => bind (eval en b) (fun y => py_gt x y))
  | CLt a b => bind (eval en a) (fun x => bind (eval en b) (fun y => py_lt x y))
  | COr a b => bind (eval_cond cf en a) (fun x => if x then Ok true else eval_cond cf en b)
  | CListOutside l lo hi =>
      match nth_error (e_lists en) l with
      | Some [] => Ok false
      | Some L => Ok ((list_min L <? lo) || (hi <? list_max L))
      | None => Raise EOther
      end
  end.

(* all field expressions are evaluated first (left to right), then struct.pack / bytearray converts
   them left to right *)
Fixpoint eval_fields (en : env) (fs : list (conv * expr)) : res (list (conv * pyval)) :=
  match fs with
  | [] => Ok []
  | (k, e) :: fs' => bind (eval en e) (fun v => bind (eval_fields en fs') (fun vs => Ok ((k, v) :: vs)))
  end.

Fixpoint convert_fields (vs : list (conv * pyval)) : res (list (fld * Z)) :=
  match vs with
  | [] => Ok []
  | (k, v) :: vs' => bind (to_wire k v) (fun w => bind (convert_fields vs') (fun ws => Ok ((conv_fld k, w) :: ws)))
  end.

(* bytes of in-range wire values *)
Definition enc1 (f : fld) (w : Z) : list Z := le_bytes (fld_size f) (to_unsigned (fld_size f) w).
Definition encode_wire (ws : list (fld * Z)) : list Z := flat_map (fun fw => enc1 (fst fw) (snd fw)) ws.

Inductive outcome :=
| Sent (port chan : Z) (payload : list Z)
| Raised (e : exn)
| Nothing.

Definition max_payload : Z := 30.   (* CRTPPacket.MAX_DATA_SIZE, checked by Crazyflie.send_packet *)

Definition emit (en : env) (port chan : Z) (fs : list (conv * expr)) (tail : bool) : outcome :=
  match bind (eval_fields en fs) convert_fields with
  | Raise x => Raised x
  | Ok ws =>
      let b := encode_wire ws ++ (if tail then e_tail en else []) in
      if Z.of_nat (length b) <=? max_payload then Sent port chan b else Raised EOther
  end.

Fixpoint run (a : action) (cf : config) (en : env) : outcome :=
  match a with
  | ARaise x => Raised x
  | ASkip => Nothing
  | AEmit p c fs t => emit en p c fs t
  | ACheck e k => match eval en e with Ok _ => run k cf en | Raise x => Raised x end
  | APack fs k => match bind (eval_fields en fs) convert_fields with Ok _ => run k cf en | Raise x => Raised x end
  | AIf c a1 a2 =>
      match eval_cond cf en c with
      | Ok true => run a1 cf en
      | Ok false => run a2 cf en
      | Raise x => Raised x
      end
  end.

(* the specification compares trees modulo the evaluate-for-effect nodes *)
Fixpoint strip (a : action) : action :=
  match a with
  | ACheck _ k => strip k
  | APack _ k => strip k
  | AIf c a1 a2 => AIf c (strip a1) (strip a2)
  | _ => a
  end.

(* ---------------------------------------------------------------- test plumbing (correspondence) *)
Definition exn_code (x : exn) : Z :=
  match x with EValue => 1 | EStruct => 2 | EOverflow => 3 | EType => 4 | EOther => 5 end.

Definition outcome_code (o : outcome) : list Z :=
  match o with
  | Sent p c b => 0 :: p :: c :: b
  | Raised x => [1; exn_code x]
  | Nothing => [2]
  end.

(* argument values as the harness writes them: floats by their binary64 pattern *)
Definition F (bits : Z) : pyval := PFloat (sf64_of_bits bits).

(* ---------------------------------------------------------------- sessions
   Every emitting method is a function of (its arguments, the protocol version PlatformService reports at
   the moment of the call, the client x-mode flag) and of nothing else: [run] has no other input.  The
   translator certifies this structurally on every run (harness/trans/c08_layouts.py, state_audit: the
   methods and the methods of their class they call read no instance attribute besides _cf / crazyflie /
   _x_mode and class constants, and write none).  A session history on one set of objects is therefore the
   list of its calls, each with the configuration in force when it is made, and its packets are the
   pointwise runs. *)
Definition step : Type := config * cmd * env.
Definition run_session (layout : cmd -> action) (h : list step) : list outcome :=
  map (fun st : step => let '(cf, c, en) := st in run (layout c) cf en) h.
