(* C08/Check.v — a checker that compares an action tree (what the code does) with the documented
   meaning (FwLayout.api_action) through the firmware's struct table, and its soundness proof:
   if the checker accepts, then for ALL arguments, protocol versions and X-mode settings every packet
   the tree sends is decoded by the firmware side to the documented values.
   The checker is run (vm_compute) on the tree generated from the current source in Proofs.v. *)
From CF Require Import Common.Bytes.
From CF Require Import Common.Struct.
From CF Require Import C08.PyVal.
From CF Require Import C08.Model.
From CF Require Import C08.FwLayout.
From CF Require Import C08.Proofs_a.
From Coq Require Import ZifyBool.
Ltac Zify.zify_post_hook ::= Z.to_euclidean_division_equations.
Open Scope Z_scope.

(* ---------------------------------------------------------------- decidable equalities *)
Definition fld_eq_dec (a b : fld) : {a = b} + {a <> b}.
Proof. decide equality. Defined.
Definition conv_eq_dec (a b : conv) : {a = b} + {a <> b}.
Proof. decide equality. apply fld_eq_dec. Defined.
Definition binop_eq_dec (a b : binop) : {a = b} + {a <> b}.
Proof. decide equality. Defined.
Definition expr_eq_dec (a b : expr) : {a = b} + {a <> b}.
Proof. decide equality; try apply Z.eq_dec; try apply Nat.eq_dec; try apply Bool.bool_dec; apply binop_eq_dec. Defined.
Definition cond_eq_dec (a b : cond) : {a = b} + {a <> b}.
Proof. decide equality; try apply Z.eq_dec; try apply Nat.eq_dec; apply expr_eq_dec. Defined.
Definition cmd_eq_dec (a b : cmd) : {a = b} + {a <> b}.
Proof. decide equality. Defined.

(* ---------------------------------------------------------------- the checker *)
Definition wire_const_ok (k : conv) (z : Z) : bool :=
  match to_wire k (PInt z) with Ok w => w =? z | Raise _ => false end.

Fixpoint fields_ok (fs : list (conv * expr)) (d : desc) (afs : list (conv * expr)) : bool :=
  match fs, d with
  | [], [] => match afs with [] => true | _ => false end
  | (k, e) :: fs', (f, src) :: d' =>
      (if fld_eq_dec (conv_fld k) f then true else false) &&
      match src with
      | SConst z =>
          match e with
          | EInt z' => (z' =? z) && wire_const_ok k z && fields_ok fs' d' afs
          | _ => false
          end
      | SVal =>
          match afs with
          | (k', e') :: afs' =>
              (if conv_eq_dec k k' then true else false) && (if expr_eq_dec e e' then true else false)
              && fields_ok fs' d' afs'
          | [] => false
          end
      | SNeg =>
          match afs, e with
          | (k', e') :: afs', ENeg e0 =>
              (if conv_eq_dec k (KS F32) then true else false) && (if conv_eq_dec k' (KS F32) then true else false)
              && (if expr_eq_dec e0 e' then true else false) && fields_ok fs' d' afs'
          | _, _ => false
          end
      end
  | _, _ => false
  end.

(* the i-th payload byte is the constant t: fields 0..i are one byte wide and field i is the literal t *)
Fixpoint const_tag (i : nat) (fs : list (conv * expr)) : option Z :=
  match fs with
  | [] => None
  | (k, e) :: fs' =>
      if Nat.eqb (fld_size (conv_fld k)) 1 then
        match i with
        | O => match e with
               | EInt z => if wire_const_ok k z && (0 <=? z) && (z <? 256) then Some z else None
               | _ => None
               end
        | S j => const_tag j fs'
        end
      else None
  end.

(* what is known about the protocol version on the current path: a lower bound *)
Definition lb_ok (lb : option Z) (mv : option Z) : bool :=
  match mv with
  | None => true
  | Some m => match lb with Some l => m <=? l | None => false end
  end.
Definition lb_holds (lb : option Z) (ver : Z) : Prop := match lb with None => True | Some l => l <= ver end.
Definition lb_max (lb : option Z) (n : Z) : option Z :=
  match lb with None => Some n | Some l => Some (Z.max l n) end.

Definition leaf_ok (cexp : cmd) (lb : option Z) (p ch : Z) (fs afs : list (conv * expr)) : bool :=
  match (if untagged p ch then Some 0 else const_tag 0 fs) with
  | Some t0 =>
      match (if needs_t2 p ch t0 then const_tag 2 fs else Some 0) with
      | Some t2 =>
          match fw_table p ch t0 t2 with
          | Some (c', d, mv) =>
              (if cmd_eq_dec c' cexp then true else false) && lb_ok lb mv && fields_ok fs d afs
          | None => false
          end
      | None => false
      end
  | None => false
  end.

Fixpoint tree_ok (cexp : cmd) (lb : option Z) (fw api : action) : bool :=
  match fw with
  | ARaise _ | ASkip => true
  | ACheck _ k | APack _ k => tree_ok cexp lb k api
  | AEmit p ch fs tail =>
      negb tail && match api with AEmit _ _ afs _ => leaf_ok cexp lb p ch fs afs | _ => false end
  | AIf c a b =>
      let lbb := match c with CVerLe n => lb_max lb (n + 1) | CVerLt n => lb_max lb n | _ => lb end in
      let same := match api with
                  | AIf c' a' b' => if cond_eq_dec c c' then Some (a', b') else None
                  | _ => None
                  end in
      match same with
      | Some (a', b') => tree_ok cexp lb a a' && tree_ok cexp lbb b b'
      | None =>
          match c with
          | CVerLe _ | CVerLt _ => tree_ok cexp lb a api && tree_ok cexp lbb b api
          | _ => match a with ARaise _ => tree_ok cexp lb b api | _ => false end
          end
      end
  end.

(* ---------------------------------------------------------------- field-wise view of an emission *)
Definition vals (en : env) (fs : list (conv * expr)) : res (list (fld * Z)) :=
  bind (eval_fields en fs) convert_fields.

Definition field_rel (en : env) (ke : conv * expr) (fw : fld * Z) : Prop :=
  exists v, eval en (snd ke) = Ok v /\ to_wire (fst ke) v = Ok (snd fw) /\ fst fw = conv_fld (fst ke).

Lemma vals_cons_inv en k e fs ws :
  vals en ((k, e) :: fs) = Ok ws ->
  exists v w ws', eval en e = Ok v /\ to_wire k v = Ok w /\ vals en fs = Ok ws' /\ ws = (conv_fld k, w) :: ws'.
Proof.
  unfold vals. cbn [eval_fields bind].
  destruct (eval en e) as [v|x] eqn:Ee; cbn [bind]; [|discriminate].
  destruct (eval_fields en fs) as [vs|x] eqn:Ef; cbn [bind]; [|discriminate].
  cbn [convert_fields]. destruct (to_wire k v) as [w|x] eqn:Ew; cbn [bind]; [|discriminate].
  destruct (convert_fields vs) as [ws'|x] eqn:Ec; cbn [bind]; [|discriminate].
  intros [= <-]. exists v, w, ws'. repeat split; assumption || reflexivity.
Qed.

Lemma vals_cons_intro en k e fs v w ws' :
  eval en e = Ok v -> to_wire k v = Ok w -> vals en fs = Ok ws' ->
  vals en ((k, e) :: fs) = Ok ((conv_fld k, w) :: ws').
Proof.
  unfold vals. intros He Hw. cbn [eval_fields bind]. rewrite He. cbn [bind].
  destruct (eval_fields en fs) as [vs|x]; cbn [bind]; [|discriminate].
  intros Hc. cbn [convert_fields]. rewrite Hw. cbn [bind]. rewrite Hc. reflexivity.
Qed.

Lemma vals_Forall2 en fs : forall ws, vals en fs = Ok ws <-> Forall2 (field_rel en) fs ws.
Proof.
  induction fs as [|[k e] fs IH]; intros ws.
  - unfold vals. cbn. split.
    + intros [= <-]. constructor.
    + intros H. inversion H. reflexivity.
  - split.
    + intros H. destruct (vals_cons_inv _ _ _ _ _ H) as (v & w & ws' & He & Hw & Hv & ->).
      constructor; [|apply IH, Hv]. exists v. cbn. repeat split; assumption.
    + intros H. inversion H as [|? [f w] ? ws' Hr HF]; subst.
      destruct Hr as (v & He & Hw & Hf). cbn in He, Hw, Hf. subst f.
      apply vals_cons_intro with (v := v); [assumption|assumption|apply IH, HF].
Qed.

Lemma vals_in_range en fs ws : vals en fs = Ok ws -> Forall (fun fw => fld_ok (fst fw) (snd fw) = true) ws.
Proof.
  intros H. apply vals_Forall2 in H. induction H as [|[k e] [f w] fs ws Hr _ IH]; constructor; [|exact IH].
  destruct Hr as (v & _ & Hw & Hf). cbn in Hw, Hf |- *. subst f. eapply to_wire_ok, Hw.
Qed.

Lemma encode_wire_pack ws :
  Forall (fun fw => fld_ok (fst fw) (snd fw) = true) ws ->
  pack (map fst ws) (map snd ws) = Some (encode_wire ws).
Proof.
  induction 1 as [|[f w] ws Hok _ IH]; [reflexivity|].
  cbn [map fst snd pack]. unfold pack1. cbn [fst snd] in Hok. rewrite Hok, IH. reflexivity.
Qed.

Lemma encode_wire_bytes ws : bytes (encode_wire ws).
Proof.
  induction ws as [|[f w] ws IH]; [constructor|].
  unfold encode_wire. cbn [flat_map fst snd]. apply Forall_app. split; [apply le_bytes_bytes|exact IH].
Qed.

Lemma emit_sent_inv en p c fs p' c' b :
  emit en p c fs false = Sent p' c' b ->
  exists ws, vals en fs = Ok ws /\ b = encode_wire ws /\ p' = p /\ c' = c /\ Z.of_nat (length b) <= max_payload.
Proof.
  unfold emit. fold (vals en fs). destruct (vals en fs) as [ws|x]; [|discriminate].
  rewrite app_nil_r. destruct (Z.of_nat (length (encode_wire ws)) <=? max_payload) eqn:E; [|discriminate].
  intros [= <- <- <-]. exists ws. repeat split; try reflexivity. lia.
Qed.

(* ---------------------------------------------------------------- soundness: fields *)
Lemma wire_const_ok_spec k z w : wire_const_ok k z = true -> to_wire k (PInt z) = Ok w -> w = z.
Proof.
  unfold wire_const_ok. intros H E. rewrite E in H. lia.
Qed.

Lemma fields_ok_sound en : forall fs d afs ws,
  fields_ok fs d afs = true -> Forall2 (field_rel en) fs ws ->
  map fst ws = map fst d /\
  exists aws dws, Forall2 (field_rel en) afs aws /\ collect d (map snd ws) = Some dws /\
                  map canon_val dws = map canon_val aws.
Proof.
  induction fs as [|[k e] fs IH]; intros d afs ws Hok HF.
  - destruct d; [|discriminate]. destruct afs; [|discriminate]. inversion HF; subst.
    split; [reflexivity|]. exists [], []. repeat split; constructor.
  - destruct d as [|[f src] d]; [discriminate|].
    inversion HF as [|? [f' w] ? ws' Hr HF']; subst.
    destruct Hr as (v0 & He & Hw & Hf). cbn [fst snd] in He, Hw, Hf. subst f'.
    cbn [fields_ok] in Hok. apply andb_true_iff in Hok as [Hfe Hok].
    destruct (fld_eq_dec (conv_fld k) f) as [Ef|]; [|discriminate]. subst f.
    destruct src as [z| |].
    + (* constant *)
      destruct e; try discriminate.
      apply andb_true_iff in Hok as [Hok Hrest]. apply andb_true_iff in Hok as [Hz Hc].
      apply Z.eqb_eq in Hz. subst z0. cbn [eval] in He. injection He as <-.
      pose proof (wire_const_ok_spec _ _ _ Hc Hw) as ->.
      destruct (IH d afs ws' Hrest HF') as (Hm & aws & dws & HA & HC & HE).
      split; [cbn [map fst]; now rewrite Hm|].
      exists aws, dws. repeat split; try assumption.
      cbn [map snd collect]. rewrite Z.eqb_refl. exact HC.
    + (* value copied as is *)
      destruct afs as [|[k' e'] afs]; [discriminate|].
      apply andb_true_iff in Hok as [Hok Hrest]. apply andb_true_iff in Hok as [Hk Hx].
      destruct (conv_eq_dec k k') as [<-|]; [|discriminate].
      destruct (expr_eq_dec e e') as [<-|]; [|discriminate].
      destruct (IH d afs ws' Hrest HF') as (Hm & aws & dws & HA & HC & HE).
      split; [cbn [map fst]; now rewrite Hm|].
      exists ((conv_fld k, w) :: aws), ((conv_fld k, w) :: dws). repeat split.
      * constructor; [|exact HA]. exists v0. cbn. repeat split; assumption.
      * cbn [map snd collect]. rewrite HC. reflexivity.
      * cbn [map]. now rewrite HE.
    + (* value negated by the decoder *)
      destruct afs as [|[k' e'] afs]; [discriminate|].
      destruct e; try discriminate.
      apply andb_true_iff in Hok as [Hok Hrest]. apply andb_true_iff in Hok as [Hok Hx].
      apply andb_true_iff in Hok as [Hk Hk'].
      destruct (conv_eq_dec k (KS F32)) as [->|]; [|discriminate].
      destruct (conv_eq_dec k' (KS F32)) as [->|]; [|discriminate].
      destruct (expr_eq_dec e e') as [<-|]; [|discriminate].
      cbn [eval] in He. destruct (eval en e) as [v1|x] eqn:Ev; cbn [bind] in He; [|discriminate].
      cbn [to_wire] in Hw.
      destruct (wire_f32_neg _ _ _ He Hw) as (w1 & Hw1 & Hcan).
      destruct (IH d afs ws' Hrest HF') as (Hm & aws & dws & HA & HC & HE).
      split; [cbn [map fst conv_fld]; now rewrite Hm|].
      exists ((F32, w1) :: aws), ((F32, flip32 w) :: dws). repeat split.
      * constructor; [|exact HA]. exists v1. cbn. repeat split; assumption.
      * cbn [map snd collect conv_fld]. rewrite HC. reflexivity.
      * cbn [map canon_val]. rewrite Hcan, HE. reflexivity.
Qed.

(* ---------------------------------------------------------------- soundness: tags *)
Lemma enc1_size1 f w : fld_size f = 1%nat -> enc1 f w = [to_unsigned 1 w mod 256].
Proof. intros H. unfold enc1. rewrite H. reflexivity. Qed.

Lemma const_tag_sound en : forall i fs ws t,
  const_tag i fs = Some t -> Forall2 (field_rel en) fs ws -> nth i (encode_wire ws) 0 = t.
Proof.
  induction i as [|i IH]; intros fs ws t Ht HF.
  - destruct fs as [|[k e] fs]; [discriminate|]. cbn [const_tag] in Ht.
    destruct (Nat.eqb (fld_size (conv_fld k)) 1) eqn:Es; [|discriminate]. apply Nat.eqb_eq in Es.
    destruct e; try discriminate.
    destruct (wire_const_ok k z && (0 <=? z) && (z <? 256)) eqn:Ec; [|discriminate]. injection Ht as <-.
    inversion HF as [|? [f w] ? ws' Hr HF']; subst.
    destruct Hr as (v0 & He & Hw & Hf). cbn [fst snd] in He, Hw, Hf. subst f.
    cbn [eval] in He. injection He as <-.
    apply andb_true_iff in Ec as [Ec Hhi]. apply andb_true_iff in Ec as [Hc Hlo].
    pose proof (wire_const_ok_spec _ _ _ Hc Hw) as ->.
    unfold encode_wire. cbn [flat_map fst snd]. rewrite (enc1_size1 _ _ Es). cbn [app nth].
    unfold to_unsigned. change (256 ^ Z.of_nat 1) with 256. lia.
  - destruct fs as [|[k e] fs]; [discriminate|]. cbn [const_tag] in Ht.
    destruct (Nat.eqb (fld_size (conv_fld k)) 1) eqn:Es; [|discriminate]. apply Nat.eqb_eq in Es.
    inversion HF as [|? [f w] ? ws' Hr HF']; subst.
    destruct Hr as (v0 & He & Hw & Hf). cbn [fst snd] in Hf. subst f.
    unfold encode_wire. cbn [flat_map fst snd]. rewrite (enc1_size1 _ _ Es). cbn [app nth].
    apply (IH fs ws' t Ht HF').
Qed.

(* ---------------------------------------------------------------- soundness: one packet *)
Lemma lb_ok_knows lb mv ver : lb_ok lb mv = true -> lb_holds lb ver -> ver_knows ver mv = true.
Proof.
  unfold lb_ok, lb_holds, ver_knows. destruct mv as [m|]; [|reflexivity].
  destruct lb as [l|]; [|discriminate]. lia.
Qed.

Lemma leaf_ok_sound cexp lb ver en p ch fs afs p' ch' b :
  leaf_ok cexp lb p ch fs afs = true -> lb_holds lb ver ->
  emit en p ch fs false = Sent p' ch' b ->
  exists aws dws, vals en afs = Ok aws /\ fw_decode ver p' ch' b = Some (cexp, dws) /\
                  map canon_val dws = map canon_val aws /\ Z.of_nat (length b) <= max_payload /\ bytes b.
Proof.
  intros Hok Hlb Hem.
  destruct (emit_sent_inv _ _ _ _ _ _ _ Hem) as (ws & Hv & -> & -> & -> & Hlen).
  pose proof (proj1 (vals_Forall2 en fs ws) Hv) as HF.
  unfold leaf_ok in Hok.
  destruct (if untagged p ch then Some 0 else const_tag 0 fs) as [t0|] eqn:E0; [|discriminate].
  destruct (if needs_t2 p ch t0 then const_tag 2 fs else Some 0) as [t2|] eqn:E2; [|discriminate].
  destruct (fw_table p ch t0 t2) as [[[c' d] mv]|] eqn:Et; [|discriminate].
  apply andb_true_iff in Hok as [Hok Hfs]. apply andb_true_iff in Hok as [Hc Hmv].
  destruct (cmd_eq_dec c' cexp) as [->|]; [|discriminate].
  destruct (fields_ok_sound en fs d afs ws Hfs HF) as (Hm & aws & dws & HA & HC & HE).
  exists aws, dws. split; [apply vals_Forall2, HA|]. split; [|repeat split; [exact HE|exact Hlen|apply encode_wire_bytes]].
  unfold fw_decode.
  assert (T0 : (if untagged p ch then 0 else nth 0 (encode_wire ws) 0) = t0).
  { destruct (untagged p ch); [congruence|]. apply (const_tag_sound en 0 fs ws t0 E0 HF). }
  rewrite T0.
  assert (T2 : (if needs_t2 p ch t0 then nth 2 (encode_wire ws) 0 else 0) = t2).
  { destruct (needs_t2 p ch t0); [|congruence]. apply (const_tag_sound en 2 fs ws t2 E2 HF). }
  rewrite T2, Et. rewrite (lb_ok_knows _ _ _ Hmv Hlb).
  unfold decode_by. rewrite <- Hm.
  rewrite (unpack_pack _ _ _ (encode_wire_pack ws (vals_in_range _ _ _ Hv))), HC. reflexivity.
Qed.

(* ---------------------------------------------------------------- soundness: whole tree *)
Lemma lb_max_holds lb n ver : lb_holds lb ver -> n <= ver -> lb_holds (lb_max lb n) ver.
Proof. unfold lb_holds, lb_max. destruct lb; lia. Qed.

Lemma lbb_holds c lb cf en :
  lb_holds lb (c_ver cf) -> eval_cond cf en c = Ok false ->
  lb_holds (match c with CVerLe n => lb_max lb (n + 1) | CVerLt n => lb_max lb n | _ => lb end) (c_ver cf).
Proof.
  intros Hlb Hc. destruct c; try exact Hlb; cbn [eval_cond] in Hc; injection Hc as Hc;
    apply lb_max_holds; try exact Hlb; lia.
Qed.

Theorem tree_ok_sound cexp : forall fw api lb cf en p ch b,
  tree_ok cexp lb fw api = true -> lb_holds lb (c_ver cf) ->
  run fw cf en = Sent p ch b ->
  exists aws dws, run_api api cf en = Some aws /\ fw_decode (c_ver cf) p ch b = Some (cexp, dws) /\
                  map canon_val dws = map canon_val aws /\ Z.of_nat (length b) <= max_payload /\ bytes b.
Proof.
  induction fw as [x| |p0 c0 fs tail|e k IH|fs k IH|c a IHa b0 IHb]; intros api lb cf en p ch b Hok Hlb Hrun;
    cbn [run] in Hrun; try discriminate.
  - (* AEmit *)
    cbn [tree_ok] in Hok. apply andb_true_iff in Hok as [Ht Hok].
    destruct tail; [discriminate|].
    destruct api as [| |pa ca afs ta| | |]; try discriminate.
    destruct (leaf_ok_sound cexp lb (c_ver cf) en p0 c0 fs afs p ch b Hok Hlb Hrun) as (aws & dws & Hv & Hd & HE & Hl & Hb).
    exists aws, dws. repeat split; try assumption.
    cbn [run_api]. unfold vals in Hv. rewrite Hv. reflexivity.
  - (* ACheck *)
    destruct (eval en e); [|discriminate]. exact (IH api lb cf en p ch b Hok Hlb Hrun).
  - (* APack *)
    destruct (bind (eval_fields en fs) convert_fields); [|discriminate]. exact (IH api lb cf en p ch b Hok Hlb Hrun).
  - (* AIf *)
    cbn [tree_ok] in Hok.
    destruct (eval_cond cf en c) as [[|]|x] eqn:Ec; try discriminate.
    + (* condition true *)
      destruct (match api with AIf c' a' b' => if cond_eq_dec c c' then Some (a', b') else None | _ => None end)
        as [[a' b']|] eqn:Es.
      * destruct api as [| | | | |c' a'' b'']; try discriminate.
        destruct (cond_eq_dec c c') as [<-|]; [|discriminate]. injection Es as <- <-.
        apply andb_true_iff in Hok as [Ha _].
        destruct (IHa a'' lb cf en p ch b Ha Hlb Hrun) as (aws & dws & Hv & R).
        exists aws, dws. split; [|exact R]. cbn [run_api]. rewrite Ec. exact Hv.
      * destruct c; try (destruct a; try discriminate; cbn [run] in Hrun; discriminate);
          apply andb_true_iff in Hok as [Ha _]; exact (IHa api lb cf en p ch b Ha Hlb Hrun).
    + (* condition false *)
      pose proof (lbb_holds c lb cf en Hlb Ec) as Hlbb.
      destruct (match api with AIf c' a' b' => if cond_eq_dec c c' then Some (a', b') else None | _ => None end)
        as [[a' b']|] eqn:Es.
      * destruct api as [| | | | |c' a'' b'']; try discriminate.
        destruct (cond_eq_dec c c') as [<-|]; [|discriminate]. injection Es as <- <-.
        apply andb_true_iff in Hok as [_ Hb].
        destruct (IHb b'' _ cf en p ch b Hb Hlbb Hrun) as (aws & dws & Hv & R).
        exists aws, dws. split; [|exact R]. cbn [run_api]. rewrite Ec. exact Hv.
      * destruct c;
          try (destruct a; try discriminate; exact (IHb api lb cf en p ch b Hok Hlb Hrun));
          apply andb_true_iff in Hok as [_ Hb]; exact (IHb api _ cf en p ch b Hb Hlbb Hrun).
Qed.

(* ---------------------------------------------------------------- strip only removes raises *)
Lemma strip_sent a cf en p ch b : run a cf en = Sent p ch b -> run (strip a) cf en = Sent p ch b.
Proof.
  induction a as [x| |p0 c0 fs tail|e k IH|fs k IH|c a1 IH1 a2 IH2]; cbn [run strip]; try (intros H; exact H).
  - destruct (eval en e); [exact IH|discriminate].
  - destruct (bind (eval_fields en fs) convert_fields); [exact IH|discriminate].
  - destruct (eval_cond cf en c) as [[|]|x]; [exact IH1|exact IH2|discriminate].
Qed.

Lemma strip_raised a cf en x : run (strip a) cf en = Raised x -> exists y, run a cf en = Raised y.
Proof.
  induction a as [x0| |p0 c0 fs tail|e k IH|fs k IH|c a1 IH1 a2 IH2]; cbn [run strip]; try (intros H; eexists; exact H).
  - destruct (eval en e) as [v|y]; [exact IH|intros _; eexists; reflexivity].
  - destruct (bind (eval_fields en fs) convert_fields) as [v|y]; [exact IH|intros _; eexists; reflexivity].
  - destruct (eval_cond cf en c) as [[|]|y]; [exact IH1|exact IH2|intros H; eexists; exact H].
Qed.

Lemma strip_nothing a cf en : run a cf en = Nothing -> run (strip a) cf en = Nothing.
Proof.
  induction a as [x0| |p0 c0 fs tail|e k IH|fs k IH|c a1 IH1 a2 IH2]; cbn [run strip]; try (intros H; exact H).
  - destruct (eval en e); [exact IH|discriminate].
  - destruct (bind (eval_fields en fs) convert_fields); [exact IH|discriminate].
  - destruct (eval_cond cf en c) as [[|]|x]; [exact IH1|exact IH2|discriminate].
Qed.
