(* C08/HeaderProperty.v — property C08, "the header byte encodes port and channel losslessly for every port and
   channel", for a packet object that is re-addressed.  Theorems only; closed; independent of the generated layout. *)
From CF Require Import Common.Bytes.
From CF Require Import C08.Header.
Open Scope Z_scope.

(* Over ALL mutation histories (set_header, port=, channel=, get_header, data=, in any order and number) of a packet
   constructed from any header byte: the header the drivers read is crtp_header of the CURRENT port and channel, and for
   port < 16, channel < 4 the current port and channel are the decoding of that header. *)
Theorem C08_header_is_function_of_current_fields : forall h ms, 0 <= h < 256 ->
  let s := mrun ms (construct h) in
  p_header s = crtp_header (p_port s) (p_chan s) /\
  (0 <= p_port s < 16 -> 0 <= p_chan s < 4 -> crtp_port (p_header s) = p_port s /\ crtp_chan (p_header s) = p_chan s).
Proof. exact header_pure. Qed.
Print Assumptions C08_header_is_function_of_current_fields.

(* A header cache that set_header does not invalidate when the channel is unchanged is refuted:
   set_header(3, 0); read; set_header(8, 0) -> port 8, header still that of port 3. *)
Theorem C08_header_cache_refuted :
  let s0 := {| c_port := 0; c_chan := 0; c_cache := None |} in
  let s1 := snd (cread (cset_header s0 3 0)) in
  let s2 := cset_header s1 8 0 in
  c_port s2 = 8 /\ fst (cread s2) = crtp_header 3 0 /\ fst (cread s2) <> crtp_header (c_port s2) (c_chan s2).
Proof. exact cache_refuted. Qed.
Print Assumptions C08_header_cache_refuted.
