(* C08/Proofs.v — proofs about the command-packet model.  Statements about the generated layout
   (Gen_Layout.v) are re-checked on every run. *)
From CF Require Import Common.Bytes.
From CF Require Import Common.Struct.
From CF Require Import C08.PyVal.
From CF Require Import C08.Model.
From CF Require Import C08.FwLayout.
From CF Require Import C08.Gen_Layout.
From CF Require Import C08.Proofs_a.
From CF Require Import C08.Check.
From CF Require Import C08.Proofs_core.
From Coq Require Import ZifyBool.
Ltac Zify.zify_post_hook ::= Z.to_euclidean_division_equations.
Open Scope Z_scope.

(* ---------------------------------------------------------------- layout extracted from the code = specification *)
Lemma layout_matches_fw : forall c, strip (impl_action c) = fw_action c /\ impl_sig c = fw_sig c.
Proof. intros c. destruct c; split; reflexivity. Qed.

(* ---------------------------------------------------------------- header byte *)





(* ================================================================ decode (encode args) = intended args *)
From CF Require Import C08.Proofs_a.
From CF Require Import C08.Check.
From Coq Require Import Floats.SpecFloat.

(* the checker accepts the tree generated from the current source, for every command whose payload is
   a fixed struct (everything but the raw short-LPP pass-through) *)
Lemma impl_checked : forall c, c <> CLocShortLpp ->
  tree_ok (canon_cmd c) None (impl_action c) (api_action c) = true.
Proof. intros c H. destruct c; try (vm_compute; reflexivity). contradiction. Qed.

Lemma decode_encode : forall c cf en p ch b, c <> CLocShortLpp ->
  run (impl_action c) cf en = Sent p ch b ->
  exists aws dws, intended c cf en = Some aws /\
                  fw_decode (c_ver cf) p ch b = Some (canon_cmd c, dws) /\
                  map canon_val dws = map canon_val aws.
Proof.
  intros c cf en p ch b Hc Hrun.
  destruct (tree_ok_sound (canon_cmd c) (impl_action c) (api_action c) None cf en p ch b
              (impl_checked c Hc) I Hrun) as (aws & dws & H1 & H2 & H3 & _).
  exists aws, dws. repeat split; assumption.
Qed.

(* an argument that has no representation in its field: nothing is sent *)
Lemma unrepresentable_not_sent : forall c cf en, c <> CLocShortLpp ->
  intended c cf en = None -> forall p ch b, run (impl_action c) cf en <> Sent p ch b.
Proof.
  intros c cf en Hc Hn p ch b Hrun.
  destruct (decode_encode c cf en p ch b Hc Hrun) as (aws & dws & H1 & _). congruence.
Qed.

(* ---------------------------------------------------------------- size and byte-ness of every payload *)
Lemma emit_sent_any en p c fs tail p' c' b :
  emit en p c fs tail = Sent p' c' b ->
  Z.of_nat (length b) <= 30 /\ (bytes (e_tail en) -> bytes b) /\ p' = p /\ c' = c.
Proof.
  unfold emit. destruct (bind (eval_fields en fs) convert_fields) as [ws|x]; [|discriminate].
  destruct (Z.of_nat (length (encode_wire ws ++ (if tail then e_tail en else []))) <=? max_payload) eqn:E; [|discriminate].
  intros [= <- <- <-]. unfold max_payload in E. repeat split; try lia.
  intros Ht. apply Forall_app. split; [apply encode_wire_bytes|]. destruct tail; [exact Ht|constructor].
Qed.

Fixpoint ports_of (a : action) : list (Z * Z) :=
  match a with
  | AEmit p c _ _ => [(p, c)]
  | ACheck _ k | APack _ k => ports_of k
  | AIf _ a1 a2 => ports_of a1 ++ ports_of a2
  | _ => []
  end.

Lemma run_sent_general a cf en p ch b : run a cf en = Sent p ch b ->
  Z.of_nat (length b) <= 30 /\ (bytes (e_tail en) -> bytes b) /\ In (p, ch) (ports_of a).
Proof.
  induction a as [x| |p0 c0 fs tail|e k IH|fs k IH|c a1 IH1 a2 IH2]; cbn [run ports_of]; try discriminate.
  - intros H. destruct (emit_sent_any _ _ _ _ _ _ _ _ H) as (H1 & H2 & -> & ->). repeat split; try assumption. now left.
  - destruct (eval en e); [exact IH|discriminate].
  - destruct (bind (eval_fields en fs) convert_fields); [exact IH|discriminate].
  - destruct (eval_cond cf en c) as [[|]|x]; try discriminate; intros H.
    + destruct (IH1 H) as (A & B & C). repeat split; try assumption. apply in_or_app. now left.
    + destruct (IH2 H) as (A & B & C). repeat split; try assumption. apply in_or_app. now right.
Qed.

(* the documented port and channel of each command *)
Definition doc_port (c : cmd) : Z * Z :=
  match c with
  | CSetpoint => (3, 0)
  | CNotifyStop => (7, 1)
  | CStopSetpoint | CVelocityWorld | CZDistance | CHover | CFullState | CPosition => (7, 0)
  | CHlGroupMask | CHlTakeoff | CHlLand | CHlStop | CHlGoTo | CHlSpiral | CHlStartTraj | CHlDefineTraj => (8, 0)
  | CLocExtPos | CExtposPos => (6, 0)
  | CLocExtPose | CExtposPose | CLocShortLpp | CLocEmergencyStop | CLocEmergencyWatchdog | CLocLhPersist
  | CLpsSetPosition | CLpsReboot | CLpsSetMode => (6, 1)
  | CPlatContWave | CPlatArming | CPlatCrashRecovery => (13, 0)
  end.

Lemma impl_ports : forall c, forallb (fun pc => (fst pc =? fst (doc_port c)) && (snd pc =? snd (doc_port c)))
                                     (ports_of (impl_action c)) = true.
Proof. intros c. destruct c; vm_compute; reflexivity. Qed.

Lemma payload_ok : forall c cf en p ch b, run (impl_action c) cf en = Sent p ch b ->
  Z.of_nat (length b) <= 30 /\ (bytes (e_tail en) -> bytes b) /\ (p, ch) = doc_port c /\ 0 <= p < 16 /\ 0 <= ch < 4.
Proof.
  intros c cf en p ch b H. destruct (run_sent_general _ _ _ _ _ _ H) as (A & B & C).
  pose proof (impl_ports c) as P. rewrite forallb_forall in P. specialize (P _ C). cbn [fst snd] in P.
  assert (E : (p, ch) = doc_port c) by (destruct (doc_port c); cbn [fst snd] in P; f_equal; lia).
  assert (R : 0 <= fst (doc_port c) < 16 /\ 0 <= snd (doc_port c) < 4) by (destruct c; cbn; lia).
  rewrite <- E in R. cbn [fst snd] in R. repeat split; try assumption; lia.
Qed.

(* ---------------------------------------------------------------- thrust *)

Lemma setpoint_thrust_raises cf en t :
  nth_error (e_args en) 3 = Some (PInt t) -> (t < 0 \/ 65535 < t) ->
  exists x, run (impl_action CSetpoint) cf en = Raised x.
Proof.
  intros Ha Ht. apply (strip_raised _ _ _ EValue).
  rewrite (proj1 (layout_matches_fw CSetpoint)). exact (setpoint_spec_thrust_raises cf en t Ha Ht).
Qed.

(* a thrust that is not an int (a float, None) is never sent either *)
Lemma setpoint_thrust_nonint cf en v p ch b :
  nth_error (e_args en) 3 = Some v -> (forall z, v <> PInt z) -> (forall z, v <> PBool z) ->
  run (impl_action CSetpoint) cf en <> Sent p ch b.
Proof.
  intros Ha Hi Hb Hrun. apply strip_sent in Hrun. rewrite (proj1 (layout_matches_fw CSetpoint)) in Hrun.
  cbn [fw_action run] in Hrun.
  destruct (eval_cond cf en _) as [[|]|x]; try discriminate.
  destruct (eval_cond cf en CXMode) as [[|]|x]; try discriminate;
    apply emit_sent_inv in Hrun; destruct Hrun as (ws & Hv & _);
    apply vals_Forall2 in Hv;
    inversion Hv as [|? ? ? ? _ Hv1]; subst; inversion Hv1 as [|? ? ? ? _ Hv2]; subst;
    inversion Hv2 as [|? ? ? ? _ Hv3]; subst; inversion Hv3 as [|? [f w] ? ? Hr _]; subst;
    destruct Hr as (v0 & He & Hw & _); cbn [fst snd eval] in He, Hw; rewrite Ha in He; injection He as <-;
    cbn [to_wire wire_int] in Hw;
    (destruct v as [z|z|d|]; [eapply Hi; reflexivity|eapply Hb; reflexivity|discriminate|discriminate]).
Qed.

(* ---------------------------------------------------------------- short LPP pass-through *)
Lemma short_lpp : forall cf en p ch b, run (impl_action CLocShortLpp) cf en = Sent p ch b ->
  p = 6 /\ ch = 1 /\ exists v dest, nth_error (e_args en) 0 = Some v /\ to_wire (KS U8) v = Ok dest /\
                                   0 <= dest < 256 /\ b = [2; dest] ++ e_tail en.
Proof.
  intros cf en p ch b Hrun. apply strip_sent in Hrun. rewrite (proj1 (layout_matches_fw CLocShortLpp)) in Hrun.
  cbn [fw_action run] in Hrun. unfold emit in Hrun.
  destruct (bind (eval_fields en [k8 2; a8 0]) convert_fields) as [ws|x] eqn:Ev; [|discriminate].
  destruct (_ <=? max_payload); [|discriminate]. injection Hrun as <- <- <-.
  fold (vals en [k8 2; a8 0]) in Ev. apply vals_Forall2 in Ev.
  inversion Ev as [|? [f0 w0] ? ? Hr0 Ev1]; subst. inversion Ev1 as [|? [f1 w1] ? ? Hr1 Ev2]; subst.
  inversion Ev2; subst.
  destruct Hr0 as (v0 & He0 & Hw0 & Hf0). destruct Hr1 as (v1 & He1 & Hw1 & Hf1).
  cbn [fst snd k8 a8 eval conv_fld] in *. injection He0 as <-. cbn in Hw0. injection Hw0 as <-. subst f0 f1.
  destruct (nth_error (e_args en) 0) as [v|] eqn:Ea; [|discriminate]. injection He1 as <-.
  pose proof (to_wire_ok _ _ _ Hw1) as Hok. unfold fld_ok in Hok. cbn in Hok.
  repeat split; try reflexivity. exists v, w1. repeat split; try assumption; try lia.
  unfold encode_wire. cbn [flat_map fst snd app]. rewrite !(enc1_size1 U8) by reflexivity.
  unfold to_unsigned. change (256 ^ Z.of_nat 1) with 256. cbn [app].
  repeat f_equal. lia.
Qed.

(* ---------------------------------------------------------------- lighthouse persist masks *)







(* lists with an entry outside 0..15 are rejected *)
Lemma persist_outside_raises cf en G C :
  e_lists en = [G; C] ->
  ~ (Forall (fun b => 0 <= b <= 15) G /\ Forall (fun b => 0 <= b <= 15) C) ->
  run (fw_action CLocLhPersist) cf en = Raised EOther /\ exists x, run (impl_action CLocLhPersist) cf en = Raised x.
Proof.
  intros He Hbad.
  assert (S : run (fw_action CLocLhPersist) cf en = Raised EOther).
  { cbn [fw_action run].
    rewrite (list_outside_eval cf en 0%nat G) by (rewrite He; reflexivity).
    destruct (in_range_dec G) as [YG|NG]; [|reflexivity].
    rewrite (list_outside_eval cf en 1%nat C) by (rewrite He; reflexivity).
    destruct (in_range_dec C) as [YC|NC]; [|reflexivity].
    exfalso. apply Hbad. split; assumption. }
  split; [exact S|]. apply (strip_raised _ _ _ EOther). rewrite (proj1 (layout_matches_fw CLocLhPersist)). exact S.
Qed.



(* ---------------------------------------------------------------- small explicit facts for Property.v *)




Lemma thrust_range_raises : forall cf en t,
  nth_error (e_args en) 3 = Some (PInt t) -> (t < 0 \/ 65535 < t) ->
  run (fw_action CSetpoint) cf en = Raised EValue /\ exists x, run (impl_action CSetpoint) cf en = Raised x.
Proof.
  intros cf en t Ha Ht.
  split; [exact (setpoint_spec_thrust_raises cf en t Ha Ht)|exact (setpoint_thrust_raises cf en t Ha Ht)].
Qed.





(* ---------------------------------------------------------------- sessions *)
Lemma session_decodes : forall h : list step,
  Forall2 (fun (st : step) (o : outcome) =>
             let '(cf, c, en) := st in
             o = run (impl_action c) cf en /\
             (c <> CLocShortLpp -> forall p ch b, o = Sent p ch b ->
                exists aws dws, intended c cf en = Some aws /\
                                fw_decode (c_ver cf) p ch b = Some (canon_cmd c, dws) /\
                                map canon_val dws = map canon_val aws))
          h (run_session impl_action h).
Proof.
  induction h as [|[[cf c] en] h IH]; cbn [run_session map]; constructor; [|exact IH].
  split; [reflexivity|]. intros Hc p ch b Hs. exact (decode_encode c cf en p ch b Hc Hs).
Qed.
