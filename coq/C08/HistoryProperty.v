(* C08/HistoryProperty.v — property C08 over call histories on one commander object: every packet decodes to the
   arguments of ITS OWN call.  Theorems only; closed; independent of the generated layout (stated for any layout). *)
From CF Require Import Common.Bytes.
From CF Require Import C08.PyVal.
From CF Require Import C08.Model.
From CF Require Import C08.History.
Open Scope Z_scope.

(* For any layout L (in particular the generated impl_action, whose statelessness the translator certifies) and any
   history, the packet of the call at position |h1| is the encoding of that call alone: earlier and later calls
   (define_trajectory with any type, take-off, go-to, ...) have no influence. *)
Theorem C08_packet_depends_only_on_own_call : forall (L : cmd -> action) h1 h2 cf c en,
  nth (length h1) (run_session L (h1 ++ (cf, c, en) :: h2)) Nothing = run (L c) cf en.
Proof. exact run_session_nth. Qed.
Print Assumptions C08_packet_depends_only_on_own_call.

Theorem C08_history_is_map_of_encode : forall (L : cmd -> action) h1 h2,
  run_session L (h1 ++ h2) = run_session L h1 ++ run_session L h2.
Proof. exact run_session_app. Qed.
Print Assumptions C08_history_is_map_of_encode.

(* A commander that remembers the trajectory type per id is refuted: define_trajectory(3, type = compressed) followed by
   start_trajectory(3, time_scale = 2.0, reversed = True) sends reversed = 0, time_scale = 1.0. *)
Theorem C08_remembered_trajectory_type_refuted :
  exists h, trun_remember [] h <> map tenc h /\ h = [TDefine 3 0 2 1; TStart 3 1073741824 false true 0].
Proof. exact remember_refuted. Qed.
Print Assumptions C08_remembered_trajectory_type_refuted.
