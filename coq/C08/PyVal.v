(* C08/PyVal.v — the fragment of Python's value semantics that the command encoders use:
   ints (unbounded), bools, floats (IEEE-754 binary64, via the standard library's executable
   specification Floats.SpecFloat), None; unary minus, + - *, int(), comparisons, truthiness; and the
   conversion of a Python value to a wire field by struct.pack (codes B H I h f ?) or by
   bytearray(tuple), with the exception class CPython raises.
   Executable definitions only.  Hand-written; tied to CPython by the differential check of
   harness/props/c08.py on every run. *)
From CF Require Export Common.Bytes.
From CF Require Export Common.Struct.
From Coq Require Import Floats.SpecFloat.
Open Scope Z_scope.

(* exception classes that can come out of an encoder *)
Inductive exn := EValue | EStruct | EOverflow | EType | EOther.

Inductive res (A : Type) := Ok (a : A) | Raise (e : exn).
Arguments Ok {A} a.
Arguments Raise {A} e.

Definition bind {A B} (r : res A) (f : A -> res B) : res B :=
  match r with Ok a => f a | Raise e => Raise e end.

Inductive pyval :=
| PInt (z : Z)
| PBool (b : bool)
| PFloat (d : spec_float)      (* a binary64 value *)
| PNone.

(* ---------------------------------------------------------------- binary64 / binary32 patterns *)

Definition sf64_of_bits (b : Z) : spec_float :=
  let s := Z.testbit b 63 in
  let E := Z.land (Z.shiftr b 52) 2047 in
  let f := Z.land b (2 ^ 52 - 1) in
  if E =? 2047 then (if f =? 0 then S754_infinity s else S754_nan)
  else if E =? 0 then (match f with Zpos p => S754_finite s p (-1074) | _ => S754_zero s end)
  else match 2 ^ 52 + f with Zpos p => S754_finite s p (E - 1075) | _ => S754_nan end.

Definition sign32 (s : bool) : Z := if s then 2147483648 else 0.

Definition nan32 : Z := 2143289344.   (* 0x7FC00000, the canonical quiet NaN *)
Definition inf32 : Z := 2139095040.   (* 0x7F800000 *)

(* pattern of a value that is already a canonical binary32 (as produced by binary_round 24 128).
   The reduction modulo 2^31 is the identity on canonical values (exponent field < 255, 24-bit
   mantissa); it is there so that the result is a 32-bit pattern by construction. *)
Definition mag32 (m : positive) (e : Z) : Z :=
  (if Zpos m <? 8388608 then Zpos m else (e + 150) * 8388608 + (Zpos m - 8388608)) mod 2147483648.

Definition bits32_of_sf (x : spec_float) : Z :=
  match x with
  | S754_zero s => sign32 s
  | S754_infinity s => sign32 s + inf32
  | S754_nan => nan32
  | S754_finite s m e => sign32 s + mag32 m e
  end.

(* the inverse direction, used by the specification side (decoding a float32 field to its value) *)
Definition sf32_of_bits (b : Z) : spec_float :=
  let s := Z.testbit b 31 in
  let E := Z.land (Z.shiftr b 23) 255 in
  let f := Z.land b 8388607 in
  if E =? 255 then (if f =? 0 then S754_infinity s else S754_nan)
  else if E =? 0 then (match f with Zpos p => S754_finite s p (-149) | _ => S754_zero s end)
  else match 8388608 + f with Zpos p => S754_finite s p (E - 150) | _ => S754_nan end.

(* (float)x of C for a binary64 x, as struct.pack('f') does it: OverflowError when a finite value
   rounds to infinity *)
Definition f32_of_sf64 (d : spec_float) : res Z :=
  match d with
  | S754_finite s m e =>
      match binary_round 24 128 s m e with
      | S754_infinity _ => Raise EOverflow
      | r => Ok (bits32_of_sf r)
      end
  | _ => Ok (bits32_of_sf d)
  end.

(* float(z) for a Python int: correctly rounded; None when the result would be infinite *)
Definition sf64_of_Z (z : Z) : option spec_float :=
  match binary_normalize 53 1024 z 0 false with
  | S754_infinity _ => None
  | r => Some r
  end.

(* ---------------------------------------------------------------- numeric tower *)

Inductive num := NZ (z : Z) | NF (d : spec_float).

Definition num_of (v : pyval) : res num :=
  match v with
  | PInt z => Ok (NZ z)
  | PBool b => Ok (NZ (if b then 1 else 0))
  | PFloat d => Ok (NF d)
  | PNone => Raise EType
  end.

(* int -> float coercion inside a mixed arithmetic operation: OverflowError when too large *)
Definition as_float (n : num) : res spec_float :=
  match n with
  | NF d => Ok d
  | NZ z => match sf64_of_Z z with Some d => Ok d | None => Raise EOverflow end
  end.

Inductive binop := OAdd | OSub | OMul.

Definition py_arith (op : binop) (a b : pyval) : res pyval :=
  bind (num_of a) (fun na => bind (num_of b) (fun nb =>
    match na, nb with
    | NZ x, NZ y => Ok (PInt (match op with OAdd => x + y | OSub => x - y | OMul => x * y end))
    | _, _ =>
        bind (as_float na) (fun x => bind (as_float nb) (fun y =>
          Ok (PFloat (match op with
                      | OAdd => SFadd 53 1024 x y
                      | OSub => SFsub 53 1024 x y
                      | OMul => SFmul 53 1024 x y
                      end))))
    end)).

Definition py_neg (a : pyval) : res pyval :=
  bind (num_of a) (fun n => match n with NZ z => Ok (PInt (- z)) | NF d => Ok (PFloat (SFopp d)) end).

(* int(x): truncation toward zero *)
Definition trunc_sf (s : bool) (m : positive) (e : Z) : Z :=
  let v := if 0 <=? e then Zpos m * 2 ^ e else Zpos m / 2 ^ (- e) in
  if s then - v else v.

Definition py_int (a : pyval) : res pyval :=
  bind (num_of a) (fun n =>
    match n with
    | NZ z => Ok (PInt z)
    | NF S754_nan => Raise EValue
    | NF (S754_infinity _) => Raise EOverflow
    | NF (S754_zero _) => Ok (PInt 0)
    | NF (S754_finite s m e) => Ok (PInt (trunc_sf s m e))
    end).

(* exact comparison of a float with an int (Python compares the mathematical values) *)
Definition cmp_sf_Z (d : spec_float) (z : Z) : option comparison :=
  match d with
  | S754_nan => None
  | S754_infinity s => Some (if s then Lt else Gt)
  | S754_zero _ => Some (0 ?= z)
  | S754_finite s m e =>
      let M := if s then Zneg m else Zpos m in
      Some (if 0 <=? e then (M * 2 ^ e ?= z) else (M ?= z * 2 ^ (- e)))
  end.

(* None = unordered (a NaN is involved) *)
Definition py_cmp (a b : pyval) : res (option comparison) :=
  bind (num_of a) (fun na => bind (num_of b) (fun nb =>
    Ok (match na, nb with
        | NZ x, NZ y => Some (x ?= y)
        | NF x, NZ y => cmp_sf_Z x y
        | NZ x, NF y => option_map CompOpp (cmp_sf_Z y x)
        | NF x, NF y => SFcompare x y
        end))).

Definition py_gt (a b : pyval) : res bool :=
  bind (py_cmp a b) (fun c => Ok (match c with Some Gt => true | _ => false end)).
Definition py_lt (a b : pyval) : res bool :=
  bind (py_cmp a b) (fun c => Ok (match c with Some Lt => true | _ => false end)).

Definition py_truth (a : pyval) : bool :=
  match a with
  | PInt z => negb (z =? 0)
  | PBool b => b
  | PFloat (S754_zero _) => false
  | PFloat _ => true
  | PNone => false
  end.

(* ---------------------------------------------------------------- conversion to a wire field *)

(* how a Python value becomes a field: a struct format code, or an element of bytearray(tuple) *)
Inductive conv := KS (f : fld) | KT.

Definition conv_fld (k : conv) : fld := match k with KS f => f | KT => U8 end.

Definition is_float_fld (f : fld) : bool := match f with F16 | F32 | F64 => true | _ => false end.

(* struct.pack integer codes: the argument must be an int (bool is an int); range checked *)
Definition wire_int (f : fld) (v : pyval) : res Z :=
  match v with
  | PInt z => if fld_ok f z then Ok z else Raise EStruct
  | PBool b => Ok (if b then 1 else 0)
  | _ => Raise EStruct
  end.

(* struct.pack 'f': float, or int/bool through float(); a double too large for binary32 gives
   OverflowError, but for an int argument every overflow is turned into struct.error by s_pack *)
Definition wire_f32 (v : pyval) : res Z :=
  match v with
  | PFloat d => f32_of_sf64 d
  | PInt z => match sf64_of_Z z with
              | Some d => match f32_of_sf64 d with Ok w => Ok w | Raise _ => Raise EStruct end
              | None => Raise EStruct
              end
  | PBool b => Ok (if b then 1065353216 else 0)
  | PNone => Raise EStruct
  end.

(* bytearray((a, b, ...)): ints in range(256), else ValueError; non-ints TypeError *)
Definition wire_tuple (v : pyval) : res Z :=
  match v with
  | PInt z => if (0 <=? z) && (z <? 256) then Ok z else Raise EValue
  | PBool b => Ok (if b then 1 else 0)
  | _ => Raise EType
  end.

Definition to_wire (k : conv) (v : pyval) : res Z :=
  match k with
  | KT => wire_tuple v
  | KS Bool8 => Ok (if py_truth v then 1 else 0)
  | KS F32 => wire_f32 v
  | KS F16 | KS F64 => Raise EOther          (* not used by any command encoder *)
  | KS f => wire_int f v
  end.
