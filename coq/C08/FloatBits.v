(* C08/FloatBits.v — the 32-bit pattern the model puts on the wire for a finite binary32 value is the
   IEEE-754 binary32 interchange encoding as formalised by Flocq (IEEE754.Bits): decoding it with
   Flocq's b32_of_bits gives back exactly that value.  Together with FloatProofs.f32_rounds this
   says: the firmware, reading the four bytes as a float, obtains round-to-nearest-even of the
   caller's argument. *)
From Coq Require Import ZArith Reals Lia Floats.SpecFloat.
From Flocq Require Import Core.Core IEEE754.BinarySingleNaN IEEE754.Binary IEEE754.Bits.
From CF Require Import C08.PyVal.
From CF Require Import C08.Proofs_a.
Open Scope Z_scope.

Lemma bounded32_facts m e : SpecFloat.bounded 24 128 m e = true ->
  Zpos m < 16777216 /\ (8388608 <= Zpos m -> -149 <= e) /\ e <= 104.
Proof.
  unfold SpecFloat.bounded, canonical_mantissa, SpecFloat.fexp, SpecFloat.emin. intros H.
  apply andb_true_iff in H as [Hc He]. apply Zeq_bool_eq in Hc. apply Zle_bool_imp_le in He.
  pose proof (digits2_bounds m) as B. set (d := Z.pos (digits2_pos m)) in *.
  assert (Hd : d <= 24) by lia.
  assert (U : 2 ^ d <= 2 ^ 24) by (apply Z.pow_le_mono_r; lia).
  change (2 ^ 24) with 16777216 in U.
  repeat split; lia.
Qed.

Lemma bits32_is_ieee s m e (H : SpecFloat.bounded 24 128 m e = true) :
  bits32_of_sf (S754_finite s m e) = bits_of_b32 (Binary.B754_finite 24 128 s m e H).
Proof.
  destruct (bounded32_facts m e H) as (Hm & Hn & He).
  unfold bits_of_b32, bits_of_binary_float, join_bits. cbn [bits32_of_sf]. unfold mag32.
  rewrite !Z.shiftl_mul_pow2 by lia. change (2 ^ 23) with 8388608. change (2 ^ 8) with 256.
  change (emin (23 + 1) (2 ^ (8 - 1))) with (-149).
  destruct (Zle_bool 0 (Z.pos m - 8388608)) eqn:C.
  - apply Zle_bool_imp_le in C. replace (Z.pos m <? 8388608) with false by lia.
    rewrite Z.mod_small by lia. destruct s; cbn [sign32]; lia.
  - assert (Z.pos m < 8388608) by (destruct (Z.leb_spec 0 (Z.pos m - 8388608)); [discriminate|lia]).
    replace (Z.pos m <? 8388608) with true by lia.
    rewrite Z.mod_small by lia. destruct s; cbn [sign32]; lia.
Qed.

(* decoding the transmitted pattern with Flocq's binary32 decoder yields the value *)
Lemma decode_bits32 s m e (H : SpecFloat.bounded 24 128 m e = true) :
  Binary.B2R 24 128 (b32_of_bits (bits32_of_sf (S754_finite s m e))) =
  SF2R radix2 (S754_finite s m e).
Proof.
  rewrite (bits32_is_ieee s m e H). unfold b32_of_bits, bits_of_b32.
  rewrite binary_float_of_bits_of_binary_float. reflexivity.
Qed.

Lemma decode_bits32_zero s :
  Binary.B2R 24 128 (b32_of_bits (bits32_of_sf (S754_zero s))) = 0%R.
Proof. destruct s; reflexivity. Qed.

From CF Require Import C08.FloatProofs.
From Flocq Require Import Relative.

Lemma decode_valid_finite (z : spec_float) :
  SpecFloat.valid_binary 24 128 z = true -> BinarySingleNaN.is_finite_SF z = true ->
  Binary.B2R 24 128 (b32_of_bits (bits32_of_sf z)) = BinarySingleNaN.SF2R radix2 z.
Proof.
  destruct z as [s|s| |s m e]; cbn [BinarySingleNaN.is_finite_SF SpecFloat.valid_binary]; intros Hv Hf; try discriminate.
  - apply decode_bits32_zero.
  - apply (decode_bits32 s m e Hv).
Qed.

(* what the firmware reads from the four bytes, for every argument in the normal binary32 range *)
Lemma wire_decodes_to_rounding s m e :
  let x := rval s m e in
  (bpow radix2 (-126) <= Rabs x <= max32)%R ->
  exists w, f32_of_sf64 (S754_finite s m e) = Ok w /\ 0 <= w < 4294967296 /\
            Binary.B2R 24 128 (b32_of_bits w) = round radix2 (FLT_exp (-149) 24) ZnearestE x /\
            (Rabs (Binary.B2R 24 128 (b32_of_bits w) - x) <= bpow radix2 (-24) * Rabs x)%R.
Proof.
  cbv zeta. intros Hx.
  destruct (f32_resolution s m e Hx) as (z & Hw & Hv & Hf & _ & Hr & He).
  exists (bits32_of_sf z). rewrite (decode_valid_finite z Hv Hf).
  repeat split; try assumption; apply bits32_range.
Qed.
