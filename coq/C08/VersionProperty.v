(* C08/VersionProperty.v — property C08, "under the firmware's wire layout for the NEGOTIATED protocol version":
   the version the emitting methods use (Model.c_ver) is the one the device reported.  Theorems only; closed. *)
From CF Require Import Common.Bytes.
From CF Require Import C08.Version.
Open Scope Z_scope.

(* For every history of packets received on the platform port, the version in use afterwards is the one of the
   last genuine protocol-version reply (channel 1, command 0, with a version byte) - the initial one if there is none. *)
Theorem C08_version_is_last_genuine_reply : forall h ver, vrun h ver = last_genuine h ver.
Proof. exact vrun_last_genuine. Qed.
Print Assumptions C08_version_is_last_genuine_reply.

(* No other port-13 packet changes it: command echoes on channel 0 (set_continous_wave's echo starts with the same
   code 0), app-channel data, other version-channel commands, short packets. *)
Theorem C08_other_platform_traffic_keeps_version : forall h ver,
  Forall (fun pk => genuine pk = None) h -> vrun h ver = ver.
Proof. exact noise_invisible. Qed.
Print Assumptions C08_other_platform_traffic_keeps_version.

(* A callback that only filters the app channel out is refuted: handshake with version 10, then the echo [0, 1] of
   set_continous_wave(True) on channel 0 leaves it believing version 1. *)
Theorem C08_app_channel_filter_refuted :
  exists h, fold_left vstep_app_filter h (-1) <> last_genuine h (-1) /\ h = [(1, [0; 10]); (0, [0; 1])].
Proof. exact app_filter_refuted. Qed.
Print Assumptions C08_app_channel_filter_refuted.
