(* C08/SnapshotProperty.v — property C08, clause "every command the library emits is a single packet whose
   fields decode to the caller's arguments", judged on what is TRANSMITTED by a link that keeps packet
   references (Snapshot.v).  Theorems only; closed under the global context; independent of the generated layout. *)
From CF Require Import Common.Bytes.
From CF Require Import C08.Snapshot.
Open Scope Z_scope.

(* When every send allocates a fresh packet object, then for EVERY interleaving of sends and (late) transmissions
   - every transmit-delay schedule - the stream on the wire is the stream of commanded packets. *)
Theorem C08_fresh_packet_is_snapshot : forall evs, NoDup (addrs evs) -> transmitted evs = commanded evs.
Proof. exact fresh_snapshot. Qed.
Print Assumptions C08_fresh_packet_is_snapshot.

(* Two sends through one shared object with the radio one packet behind: the first command never reaches the
   wire, the second is transmitted twice. *)
Theorem C08_shared_packet_overwrites : forall a d1 d2,
  transmitted [LSend a d1; LSend a d2] = [d2; d2] /\ commanded [LSend a d1; LSend a d2] = [d1; d2].
Proof. exact shared_overwrites. Qed.
Print Assumptions C08_shared_packet_overwrites.

Theorem C08_shared_packet_refuted :
  exists evs, (forall a, In a (addrs evs) -> a = O) /\ transmitted evs <> commanded evs.
Proof. exact shared_refuted. Qed.
Print Assumptions C08_shared_packet_refuted.
