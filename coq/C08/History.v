(* C08/History.v — call histories on ONE commander object.
   The encoders are pure functions of the arguments of the call (plus protocol version and x-mode, which are part of
   the step's configuration): Model.run_session is a map.  Hence the packet of the k-th call of ANY history is the
   encoding of the k-th call alone, whatever was called before or after.
   Refuted variant: a high-level commander that remembers the `type` given to define_trajectory per trajectory id and
   lets start_trajectory of an id defined as compressed (1) send reversed = 0, time_scale = 1.0 instead of its arguments. *)
From CF Require Import Common.Bytes.
From CF Require Import Common.Struct.
From CF Require Import C08.PyVal.
From CF Require Import C08.Model.
Open Scope Z_scope.

Lemma run_session_nth (L : cmd -> action) (h1 h2 : list step) (cf : config) (c : cmd) (en : env) :
  nth (length h1) (run_session L (h1 ++ (cf, c, en) :: h2)) Nothing = run (L c) cf en.
Proof.
  unfold run_session. rewrite map_app. rewrite app_nth2 by (rewrite map_length; lia).
  rewrite map_length, Nat.sub_diag. reflexivity.
Qed.

Lemma run_session_app (L : cmd -> action) (h1 h2 : list step) :
  run_session L (h1 ++ h2) = run_session L h1 ++ run_session L h2.
Proof. unfold run_session. apply map_app. Qed.

(* ---- trajectory calls at the wire level: payload fields as integers (time scale = its binary32 pattern) *)
Inductive tcall :=
| TDefine (id offset pieces type : Z)
| TStart (id ts_bits : Z) (relative reversed : bool) (group : Z).

Definition b2z (b : bool) : Z := if b then 1 else 0.

(* firmware structs: define {6; id; location 1; type; offset; pieces}, start {5; group; relative; reversed; id; timescale} *)
Definition tenc (c : tcall) : list Z :=
  match c with
  | TDefine id off n ty => [6; id; 1; ty; off; n]
  | TStart id ts rel rev g => [5; g; b2z rel; b2z rev; id; ts]
  end.

Definition one_f32 : Z := 1065353216.     (* 1.0 *)

(* the variant with a remembered type per id *)
Fixpoint lookup (m : list (Z * Z)) (id : Z) : option Z :=
  match m with [] => None | (k, v) :: r => if k =? id then Some v else lookup r id end.

Definition tstep_remember (m : list (Z * Z)) (c : tcall) : list (Z * Z) * list Z :=
  match c with
  | TDefine id off n ty => ((id, ty) :: m, tenc c)
  | TStart id ts rel rev g =>
      match lookup m id with
      | Some 1 => (m, tenc (TStart id one_f32 rel false g))
      | _ => (m, tenc c)
      end
  end.

Fixpoint trun_remember (m : list (Z * Z)) (h : list tcall) : list (list Z) :=
  match h with
  | [] => []
  | c :: r => let '(m', p) := tstep_remember m c in p :: trun_remember m' r
  end.

Lemma remember_refuted :
  exists h, trun_remember [] h <> map tenc h /\
            h = [TDefine 3 0 2 1; TStart 3 1073741824 false true 0].
Proof. eexists. split; [|reflexivity]. vm_compute. discriminate. Qed.

(* the remembered type only matters after a define with type 1 for the same id: histories without one agree *)
Lemma remember_agrees_without_compressed : forall h m,
  (forall id, lookup m id <> Some 1) ->
  Forall (fun c => match c with TDefine _ _ _ ty => ty <> 1 | _ => True end) h ->
  trun_remember m h = map tenc h.
Proof.
  induction h as [|c r IH]; intros m Hm HF; [reflexivity|]. inversion HF as [|? ? Hc HF']; subst.
  cbn [trun_remember map]. destruct c as [id off n ty|id ts rel rev g]; cbn [tstep_remember].
  - f_equal. apply IH; [|exact HF']. intros id'. cbn [lookup]. destruct (id =? id'); [|apply Hm].
    intros E. injection E as E. contradiction.
  - destruct (lookup m id) as [[| [| | ] | ]|] eqn:E; try (f_equal; apply IH; assumption).
    exfalso. apply (Hm id). exact E.
Qed.
