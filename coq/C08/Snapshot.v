(* C08/Snapshot.v — the value contract between an emitting method and the link.
   Real link drivers (RadioDriver, UsbDriver, ...) put a REFERENCE to the CRTPPacket object into their output
   queue and read header and data only when the radio thread transmits, any number of packets later.
   Model: packet objects live in a store (address -> contents); the library's send writes the contents of an
   object and enqueues its address (LSend); the radio dequeues the oldest address and transmits what the object
   contains AT THAT MOMENT (LTx).  An event list is one interleaving = one transmit-delay schedule.
   - If every send uses a fresh object (what each emitting method does: pk = CRTPPacket() inside the call; the
     translator only accepts a packet built in the same call), the transmitted stream is the commanded stream for
     EVERY schedule: a sent packet is an immutable snapshot.
   - If two sends share one object, the earlier command is lost and the later one transmitted twice as soon as
     the radio is one packet behind.
   Self-contained (same idea as the LSend/LTx store model of C17). *)
From CF Require Import Common.Bytes.
Open Scope Z_scope.

Inductive lev := LSend (a : nat) (d : list Z) | LTx.

Record lstate := { heap : nat -> list Z; queue : list nat; wire : list (list Z) }.

Definition upd (h : nat -> list Z) (a : nat) (d : list Z) : nat -> list Z :=
  fun x => if Nat.eqb x a then d else h x.

Definition lstep (s : lstate) (e : lev) : lstate :=
  match e with
  | LSend a d => {| heap := upd (heap s) a d; queue := queue s ++ [a]; wire := wire s |}
  | LTx => match queue s with
           | [] => s
           | a :: q => {| heap := heap s; queue := q; wire := wire s ++ [heap s a] |}
           end
  end.

Definition lrun (evs : list lev) (s : lstate) : lstate := fold_left lstep evs s.
Definition linit : lstate := {| heap := fun _ => []; queue := []; wire := [] |}.

(* everything transmitted once the radio has drained its queue *)
Definition flush (s : lstate) : list (list Z) := wire s ++ map (heap s) (queue s).
Definition transmitted (evs : list lev) : list (list Z) := flush (lrun evs linit).

Fixpoint commanded (evs : list lev) : list (list Z) :=
  match evs with [] => [] | LSend _ d :: r => d :: commanded r | LTx :: r => commanded r end.
Fixpoint addrs (evs : list lev) : list nat :=
  match evs with [] => [] | LSend a _ :: r => a :: addrs r | LTx :: r => addrs r end.

(* ---------------------------------------------------------------- proofs *)
Lemma map_upd_notin h a d q : ~ In a q -> map (upd h a d) q = map h q.
Proof.
  intros H. apply map_ext_in. intros x Hx. unfold upd.
  destruct (Nat.eqb x a) eqn:E; [|reflexivity]. apply Nat.eqb_eq in E. subst. contradiction.
Qed.

Lemma tx_queue_incl s a : In a (queue (lstep s LTx)) -> In a (queue s).
Proof.
  unfold lstep. destruct (queue s) as [|a0 q] eqn:E; cbn [queue]; intros H.
  - rewrite E in H. exact H.
  - now right.
Qed.

Lemma tx_flush s : flush (lstep s LTx) = flush s.
Proof.
  unfold flush, lstep. destruct (queue s) as [|a q] eqn:E.
  - now rewrite E.
  - cbn [heap queue wire map]. now rewrite <- app_assoc.
Qed.

Lemma fresh_general : forall evs s,
  (forall a, In a (addrs evs) -> ~ In a (queue s)) -> NoDup (addrs evs) ->
  flush (lrun evs s) = flush s ++ commanded evs.
Proof.
  induction evs as [|[a d|] r IH]; intros s Hq Hn; cbn [lrun fold_left commanded addrs] in *.
  - now rewrite app_nil_r.
  - inversion Hn as [|? ? Ha Hn']; subst.
    change (fold_left lstep r (lstep s (LSend a d))) with (lrun r (lstep s (LSend a d))).
    rewrite IH; [| |exact Hn'].
    + unfold flush. cbn [lstep heap queue wire]. rewrite map_app, map_upd_notin by (apply Hq; now left).
      cbn [map]. unfold upd at 1. rewrite Nat.eqb_refl. now rewrite <- !app_assoc.
    + intros a' Ha' Hin. cbn [lstep queue] in Hin. apply in_app_or in Hin as [Hin|[->|[]]].
      * apply (Hq a'); [now right|exact Hin].
      * contradiction.
  - change (fold_left lstep r (lstep s LTx)) with (lrun r (lstep s LTx)).
    rewrite IH; [| |exact Hn].
    + now rewrite tx_flush.
    + intros a' Ha' Hin. apply (Hq a' Ha'). now apply tx_queue_incl.
Qed.

Lemma fresh_snapshot evs : NoDup (addrs evs) -> transmitted evs = commanded evs.
Proof. intros H. unfold transmitted. rewrite fresh_general; [reflexivity| |exact H]. intros a _ []. Qed.

Lemma shared_overwrites a d1 d2 :
  transmitted [LSend a d1; LSend a d2] = [d2; d2] /\ commanded [LSend a d1; LSend a d2] = [d1; d2].
Proof.
  unfold transmitted, flush. cbn. unfold upd. rewrite !Nat.eqb_refl. split; reflexivity.
Qed.

Lemma shared_refuted : exists evs, (forall a, In a (addrs evs) -> a = O) /\ transmitted evs <> commanded evs.
Proof.
  exists [LSend O [1]; LSend O [2]; LTx; LTx]. split.
  - cbn. intros a [<-|[<-|[]]]; reflexivity.
  - vm_compute. discriminate.
Qed.

(* the radio may even keep up most of the time: one late transmission is enough *)
Lemma shared_one_behind a d1 d2 d3 : d2 <> d3 ->
  transmitted [LSend a d1; LTx; LSend a d2; LSend a d3; LTx; LTx] <> commanded [LSend a d1; LTx; LSend a d2; LSend a d3; LTx; LTx].
Proof.
  intros H. unfold transmitted, flush. cbn. unfold upd. rewrite !Nat.eqb_refl. cbn.
  intros E. injection E as E. congruence.
Qed.
