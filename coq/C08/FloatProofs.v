(* C08/FloatProofs.v — the float32 field of the model (PyVal.f32_of_sf64 = what struct.pack('<f', x)
   does to a Python float) related to the real numbers through Flocq:
     - SpecFloat.binary_round 24 128 (executable, used by the model) is Flocq's binary_round mode_NE;
     - hence the transmitted binary32 is round-to-nearest-even of the argument in the format
       FLT_exp (-149) 24, a finite valid binary32, whenever that rounding is below 2^128;
     - relative error <= 2^-24 for every argument of magnitude >= 2^-126 (normal binary32 range);
     - OverflowError exactly when the rounding reaches 2^128; never for |x| <= max float32,
       always for |x| >= 2^128.
   Depends on the standard library's real-number axioms (through Flocq); kept apart from the integer
   development, which stays closed under the global context. *)
From Coq Require Import ZArith Reals Lia Lra Floats.SpecFloat.
From Flocq Require Import Core.Core Relative IEEE754.BinarySingleNaN.
From CF Require Import C08.PyVal.
Open Scope Z_scope.

Local Instance prec24_gt_0 : Prec_gt_0 24 := eq_refl.
Local Instance prec24_lt_emax : Prec_lt_emax 24 128 := eq_refl.

Local Notation fexp32 := (FLT_exp (-149) 24).
Local Notation rnd32 := (round radix2 fexp32 ZnearestE).

(* ---- the executable SpecFloat rounding is Flocq's round-to-nearest-even (any precision) *)
Lemma round_nearest_even_equiv s m l :
  round_nearest_even m l = choice_mode mode_NE s m l.
Proof.
  destruct l as [|c]; [reflexivity|]. destruct c; try reflexivity.
  cbn. unfold Round.cond_incr. destruct (Z.even m); reflexivity.
Qed.

Lemma binary_round_aux_equiv prec emax sx mx ex lx :
  SpecFloat.binary_round_aux prec emax sx mx ex lx = binary_round_aux prec emax mode_NE sx mx ex lx.
Proof.
  unfold SpecFloat.binary_round_aux, binary_round_aux.
  destruct (shr_fexp prec emax mx ex lx) as [mrs' e']. cbn.
  rewrite (round_nearest_even_equiv sx). reflexivity.
Qed.

Lemma binary_round_equiv prec emax s m e :
  SpecFloat.binary_round prec emax s m e = binary_round prec emax mode_NE s m e.
Proof.
  unfold SpecFloat.binary_round, binary_round, shl_align_fexp.
  destruct (shl_align m e (fexp prec emax (Z.pos (digits2_pos m) + e))) as [mz ez].
  apply binary_round_aux_equiv.
Qed.

(* the real value of a finite float (-1)^s * m * 2^e *)
Definition rval (s : bool) (m : positive) (e : Z) : R := F2R (Float radix2 (cond_Zopp s (Zpos m)) e).

Lemma round_fexp_eq x : round radix2 (SpecFloat.fexp 24 128) ZnearestE x = rnd32 x.
Proof. reflexivity. Qed.

(* ---- what the conversion does, in terms of the reals *)
Lemma f32_rounds s m e :
  (Rabs (rnd32 (rval s m e)) < bpow radix2 128)%R ->
  exists z, f32_of_sf64 (S754_finite s m e) = Ok (bits32_of_sf z) /\
            valid_binary 24 128 z = true /\ is_finite_SF z = true /\ sign_SF z = s /\
            SF2R radix2 z = rnd32 (rval s m e).
Proof.
  intros Hlt. pose proof (binary_round_correct 24 128 _ _ mode_NE s m e) as C. cbv zeta in C.
  destruct C as [Hv C]. fold (rval s m e) in C. cbn [round_mode] in C. rewrite round_fexp_eq in C.
  rewrite (Rlt_bool_true _ _ Hlt) in C. destruct C as (HR & Hf & Hs).
  exists (binary_round 24 128 mode_NE s m e). repeat split; try assumption.
  unfold f32_of_sf64. rewrite binary_round_equiv.
  destruct (binary_round 24 128 mode_NE s m e); try reflexivity. discriminate Hf.
Qed.

Lemma f32_overflows s m e :
  (bpow radix2 128 <= Rabs (rnd32 (rval s m e)))%R ->
  f32_of_sf64 (S754_finite s m e) = Raise EOverflow.
Proof.
  intros Hge. pose proof (binary_round_correct 24 128 _ _ mode_NE s m e) as C. cbv zeta in C.
  destruct C as [Hv C]. fold (rval s m e) in C. cbn [round_mode] in C. rewrite round_fexp_eq in C.
  rewrite (Rlt_bool_false _ _ Hge) in C.
  unfold f32_of_sf64. rewrite binary_round_equiv, C. reflexivity.
Qed.

(* relative error in the normal range *)
Lemma f32_relative_error x :
  (bpow radix2 (-126) <= Rabs x)%R -> (Rabs (rnd32 x - x) <= bpow radix2 (-24) * Rabs x)%R.
Proof.
  intros H. pose proof (relative_error_N_FLT radix2 (-149) 24 prec24_gt_0 (fun n => negb (Z.even n)) x H) as E.
  replace (bpow radix2 (-24)) with (/ 2 * bpow radix2 (-24 + 1))%R; [exact E|].
  change (-24 + 1) with (-23). rewrite <- (bpow_plus_1 radix2 (-24)) || idtac.
  change (bpow radix2 (-23)) with (bpow radix2 (-24 + 1)). rewrite bpow_plus_1. change (IZR radix2) with 2%R. field.
Qed.

(* the largest finite binary32 and the overflow threshold *)
Definition max32 : R := F2R (Float radix2 16777215 104).

Lemma max32_format : generic_format radix2 fexp32 max32.
Proof. apply generic_format_F2R. intros _. unfold cexp. rewrite mag_F2R_Zdigits by discriminate. cbn. lia. Qed.

Lemma max32_lt : (max32 < bpow radix2 128)%R.
Proof.
  unfold max32, F2R. cbn [Fnum Fexp]. rewrite <- !IZR_Zpower by lia. rewrite <- mult_IZR.
  apply IZR_lt. vm_compute. reflexivity.
Qed.

Lemma no_overflow_le_max x : (Rabs x <= max32)%R -> (Rabs (rnd32 x) < bpow radix2 128)%R.
Proof.
  intros H. apply Rle_lt_trans with max32; [|exact max32_lt].
  apply abs_round_le_generic; [apply FLT_exp_valid; reflexivity|apply valid_rnd_N|exact max32_format|exact H].
Qed.

Lemma overflow_ge_2p128 x : (bpow radix2 128 <= Rabs x)%R -> (bpow radix2 128 <= Rabs (rnd32 x))%R.
Proof.
  intros H. apply abs_round_ge_generic; [apply FLT_exp_valid; reflexivity|apply valid_rnd_N| |exact H].
  apply generic_format_bpow. cbn. lia.
Qed.

(* ---- the statements used by FloatProperty.v *)
Lemma f32_resolution s m e :
  let x := rval s m e in
  (bpow radix2 (-126) <= Rabs x <= max32)%R ->
  exists z, f32_of_sf64 (S754_finite s m e) = Ok (bits32_of_sf z) /\
            valid_binary 24 128 z = true /\ is_finite_SF z = true /\ sign_SF z = s /\
            SF2R radix2 z = rnd32 x /\
            (Rabs (SF2R radix2 z - x) <= bpow radix2 (-24) * Rabs x)%R.
Proof.
  cbv zeta. intros [Hlo Hhi].
  destruct (f32_rounds s m e (no_overflow_le_max _ Hhi)) as (z & H1 & H2 & H3 & H4 & H5).
  exists z. repeat split; try assumption. rewrite H5. apply f32_relative_error, Hlo.
Qed.

Lemma f32_overflow_behaviour s m e :
  let x := rval s m e in
  ((bpow radix2 128 <= Rabs (rnd32 x))%R -> f32_of_sf64 (S754_finite s m e) = Raise EOverflow) /\
  ((bpow radix2 128 <= Rabs x)%R -> f32_of_sf64 (S754_finite s m e) = Raise EOverflow) /\
  ((Rabs x <= max32)%R -> exists w, f32_of_sf64 (S754_finite s m e) = Ok w).
Proof.
  cbv zeta. repeat split.
  - apply f32_overflows.
  - intros H. apply f32_overflows, overflow_ge_2p128, H.
  - intros H. destruct (f32_rounds s m e (no_overflow_le_max _ H)) as (z & H1 & _). eexists. exact H1.
Qed.

(* the binary64 patterns the harness hands to the model denote finite values (-1)^s m 2^e with the
   mantissa/exponent of IEEE-754 binary64 *)
Lemma sf64_of_bits_finite b s m e : sf64_of_bits b = S754_finite s m e ->
  wire_f32 (PFloat (sf64_of_bits b)) = f32_of_sf64 (S754_finite s m e).
Proof. intros ->. reflexivity. Qed.

(* ================================================================ fixed-point fields: int(x * 1000) -> 'h'
   The abstract rounding lemmas (a monotone rounding that fixes the integers up to 2^53 keeps int() of the
   product between floor and ceiling of the exact product) and their instantiation for binary64
   round-to-nearest-even are those of C13/TrajFlocq.v (property C13, trajectory encoding); here they are
   applied to the SpecFloat operations this model executes. *)
From CF Require Import Common.Struct.
From CF Require C13.TrajFlocq.

Local Instance prec53_gt_0 : Prec_gt_0 53 := eq_refl.
Local Instance prec53_lt_emax : Prec_lt_emax 53 1024 := eq_refl.
Local Notation rnd64 := (round radix2 (SpecFloat.fexp 53 1024) ZnearestE).
Local Notation B64 := (binary_float 53 1024).

Lemma B2SF_Bmult (x y : B64) :
  B2SF (@Bmult 53 1024 prec53_gt_0 prec53_lt_emax mode_NE x y) = SFmul 53 1024 (B2SF x) (B2SF y).
Proof.
  destruct x as [sx|sx| |sx mx ex Hx], y as [sy|sy| |sy my ey Hy]; try reflexivity.
  cbn [Bmult B2SF SFmul]. rewrite B2SF_SF2B. symmetry. apply binary_round_aux_equiv.
Qed.

Definition sf1000 : spec_float := S754_finite false 8796093022208000 (-43).
Lemma sf1000_valid : valid_binary 53 1024 sf1000 = true.
Proof. reflexivity. Qed.
Definition b1000 : B64 := @SF2B 53 1024 sf1000 sf1000_valid.

Lemma b1000_value : B2R b1000 = 1000%R.
Proof.
  unfold b1000. rewrite (B2R_SF2B 53 1024). unfold sf1000, SF2R, F2R. cbn [cond_Zopp Fnum Fexp bpow].
  change (Z.pow_pos radix2 43) with 8796093022208. lra.
Qed.

Lemma mul1000 d : py_arith OMul (PFloat d) (PInt 1000) = Ok (PFloat (SFmul 53 1024 d sf1000)).
Proof. reflexivity. Qed.

(* int(x * 1000) as the model computes it *)
Definition mm_of (d : spec_float) : res pyval := bind (py_arith OMul (PFloat d) (PInt 1000)) py_int.
(* ... packed with struct code 'h' *)
Definition mm_wire (d : spec_float) : res Z := bind (mm_of d) (to_wire (KS I16)).

Lemma py_int_B (b : B64) :
  py_int (PFloat (B2SF b)) =
  if is_finite b then Ok (PInt (Ztrunc (B2R b)))
  else match B2SF b with S754_nan => Raise EValue | _ => Raise EOverflow end.
Proof.
  destruct b as [s|s| |s m e H]; cbn [B2SF is_finite py_int num_of bind]; try reflexivity.
  - do 2 f_equal. symmetry. apply (Ztrunc_IZR 0).
  - pose proof (C13.TrajFlocq.float_trunc_B (B754_finite s m e H)) as T.
    cbn [B2SF is_finite] in T. cbv zeta in T. injection T as T.
    unfold trunc_sf. do 2 f_equal. exact T.
Qed.

Section FixedPoint.
  Variables (s : bool) (m : positive) (e : Z).
  Hypothesis Hb : valid_binary 53 1024 (S754_finite s m e) = true.   (* the argument is a binary64 *)
  Let d := S754_finite s m e.
  Let bx : B64 := @SF2B 53 1024 d Hb.
  Let v : R := (rval s m e * 1000)%R.                               (* exact product *)

  Lemma bx_value : B2R bx = rval s m e.
  Proof. unfold bx. rewrite (B2R_SF2B 53 1024). reflexivity. Qed.

  Lemma mm_cases :
    let r := rnd64 v in
    ((Rabs r < bpow radix2 1024)%R -> mm_of d = Ok (PInt (Ztrunc r))) /\
    ((bpow radix2 1024 <= Rabs r)%R -> mm_of d = Raise EOverflow).
  Proof.
    cbv zeta. unfold mm_of. rewrite mul1000. cbn [bind].
    replace d with (B2SF bx) by (unfold bx; apply B2SF_SF2B).
    replace sf1000 with (B2SF b1000) by (unfold b1000; apply B2SF_SF2B).
    rewrite <- B2SF_Bmult, py_int_B.
    pose proof (Bmult_correct 53 1024 prec53_gt_0 prec53_lt_emax mode_NE bx b1000) as M. cbn [round_mode] in M.
    rewrite bx_value, b1000_value in M. fold v in M.
    destruct (Rlt_bool_spec (Rabs (rnd64 v)) (bpow radix2 1024)) as [Hlt|Hge].
    - destruct M as (Mv & Mf & _).
      split; [intros _|intros H; exfalso; lra].
      rewrite Mf, Mv.
      replace (is_finite bx) with true by (unfold bx; rewrite is_finite_SF2B; reflexivity).
      reflexivity.
    - split; [intros H; exfalso; lra|intros _].
      unfold binary_overflow in M. cbn [overflow_to_inf] in M.
      destruct (@Bmult 53 1024 prec53_gt_0 prec53_lt_emax mode_NE bx b1000); try discriminate M. reflexivity.
  Qed.
End FixedPoint.

Lemma rnd64_mono a b : (a <= b)%R -> (rnd64 a <= rnd64 b)%R.
Proof. exact (C13.TrajFlocq.rnd64_monotone a b). Qed.
Lemma rnd64_ints n : - 2 ^ 53 <= n <= 2 ^ 53 -> rnd64 (IZR n) = IZR n.
Proof. exact (C13.TrajFlocq.rnd64_integers n). Qed.

Lemma two53_lt : (IZR (2 ^ 53) < bpow radix2 1024)%R.
Proof. exact C13.TrajFlocq.bpow53_lt_emax. Qed.

(* resolution: less than one unit from the exact product 1000 x, between its floor and its ceiling *)
Lemma mm_resolution s m e (Hb : valid_binary 53 1024 (S754_finite s m e) = true) :
  let v := (rval s m e * 1000)%R in
  (IZR (- 2 ^ 53) <= v <= IZR (2 ^ 53))%R ->
  exists t, mm_of (S754_finite s m e) = Ok (PInt t) /\ (Rabs (IZR t - v) < 1)%R /\ Zfloor v <= t <= Zceil v.
Proof.
  cbv zeta. intros Hv. destruct (mm_cases s m e Hb) as [Hs _]. cbv zeta in Hs.
  eexists. split; [|split].
  - apply Hs. eapply Rle_lt_trans; [|exact two53_lt].
    apply (C13.TrajFlocq.rnd_abs_le rnd64 (2 ^ 53) rnd64_mono rnd64_ints); [lia|exact Hv].
  - apply (C13.TrajFlocq.trunc_rnd_resolution rnd64 (2 ^ 53) rnd64_mono rnd64_ints), Hv.
  - apply (C13.TrajFlocq.trunc_rnd_between rnd64 (2 ^ 53) rnd64_mono rnd64_ints), Hv.
Qed.

(* inside the int16 span the field is sent, one unit accurate *)
Lemma mm_in_range s m e (Hb : valid_binary 53 1024 (S754_finite s m e) = true) :
  let v := (rval s m e * 1000)%R in
  (-32768 <= v <= 32767)%R ->
  exists t, mm_wire (S754_finite s m e) = Ok t /\ -32768 <= t <= 32767 /\ (Rabs (IZR t - v) < 1)%R /\
            Zfloor v <= t <= Zceil v.
Proof.
  cbv zeta. intros Hv.
  destruct (mm_resolution s m e Hb) as (t & Ht & Hr & Hfc).
  { change (IZR (- 2 ^ 53)) with (-9007199254740992)%R. change (IZR (2 ^ 53)) with 9007199254740992%R. lra. }
  assert (R : -32768 <= t <= 32767).
  { destruct Hfc as [F C]. split.
    - apply Z.le_trans with (Zfloor (rval s m e * 1000)); [|exact F].
      rewrite <- (Zfloor_IZR (-32768)). apply Zfloor_le. lra.
    - apply Z.le_trans with (Zceil (rval s m e * 1000)); [exact C|].
      rewrite <- (Zceil_IZR 32767). apply Zceil_le. lra. }
  exists t. repeat split; try assumption; try lia.
  unfold mm_wire. rewrite Ht. cbn [bind to_wire wire_int]. unfold fld_ok, fld_lo, fld_hi. cbn.
  replace ((-32768 <=? t) && (t <? 32768)) with true by lia. reflexivity.
Qed.

(* at or beyond the span nothing is sent: struct.error (value outside 'h') or OverflowError (product infinite) *)
Lemma mm_overflow s m e (Hb : valid_binary 53 1024 (S754_finite s m e) = true) :
  let v := (rval s m e * 1000)%R in
  (32768 <= v \/ v <= -32769)%R -> exists x, mm_wire (S754_finite s m e) = Raise x.
Proof.
  cbv zeta. intros Hv. destruct (mm_cases s m e Hb) as [Hs Hn]. cbv zeta in Hs, Hn.
  destruct (Rlt_le_dec (Rabs (rnd64 (rval s m e * 1000))) (bpow radix2 1024)) as [L|G].
  - unfold mm_wire. rewrite (Hs L). cbn [bind to_wire wire_int].
    set (t := Ztrunc (rnd64 (rval s m e * 1000))).
    assert (R : 32768 <= t \/ t <= -32769).
    { destruct Hv as [H|H].
      - left. apply (C13.TrajFlocq.trunc_rnd_ge rnd64 (2 ^ 53) rnd64_mono rnd64_ints 32768); [lia|exact H].
      - right. apply (C13.TrajFlocq.trunc_rnd_le rnd64 (2 ^ 53) rnd64_mono rnd64_ints (-32769)); [lia|exact H]. }
    unfold fld_ok, fld_lo, fld_hi. cbn.
    replace ((-32768 <=? t) && (t <? 32768)) with false by lia. eexists. reflexivity.
  - unfold mm_wire. rewrite (Hn G). eexists. reflexivity.
Qed.

(* NaN and infinities have no fixed-point value: ValueError / OverflowError *)
Lemma mm_not_finite :
  mm_wire S754_nan = Raise EValue /\ (forall s, mm_wire (S754_infinity s) = Raise EOverflow).
Proof. split; [reflexivity|intros s; destruct s; reflexivity]. Qed.

(* mm_wire is what the model does for each thousandths field (FwLayout.mm i) of the full-state setpoint *)
From CF Require Import C08.Model.
From CF Require Import C08.FwLayout.
Lemma mm_field en i d : nth_error (e_args en) i = Some (PFloat d) ->
  bind (eval en (snd (mm i))) (to_wire (fst (mm i))) = mm_wire d.
Proof.
  intros H. unfold mm, mm_wire, mm_of. cbn [fst snd eval]. rewrite H. cbn [bind]. reflexivity.
Qed.
