(* C08/Examples.v — non-vacuity: concrete calls that satisfy the hypotheses of the theorems of
   Property.v (packets really are sent, on both sides of the version switches, with X-mode, with
   yaw=None, with fixed-point fields), and concrete rejected calls. *)
From CF Require Import Common.Bytes.
From CF Require Import Common.Struct.
From CF Require Import C08.PyVal.
From CF Require Import C08.Model.
From CF Require Import C08.FwLayout.
From CF Require Import C08.Gen_Layout.
From Coq Require Import Floats.SpecFloat.
Open Scope Z_scope.

Definition mkenv (args : list pyval) : env := {| e_args := args; e_lists := []; e_codecs := []; e_tail := [] |}.
Definition f1 := F 4607182418800017408.   (* 1.0 *)
Definition f2 := F 4611686018427387904.   (* 2.0 *)
Definition f3 := F 4613937818241073152.   (* 3.0 *)
Definition f4 := F 4616189618054758400.   (* 4.0 *)

(* send_velocity_world_setpoint(1.0, 2.0, 3.0, 4.0): legacy type 1 with -yawrate up to protocol version 8,
   type 8 with +yawrate from version 9; the firmware side reads (1, 2, 3, 4) in both cases *)
Example velocity_v8 :
  run (impl_action CVelocityWorld) {| c_ver := 8; c_xmode := false |} (mkenv [f1; f2; f3; f4])
  = Sent 7 0 [1; 0;0;128;63; 0;0;0;64; 0;0;64;64; 0;0;128;192].
Proof. vm_compute. reflexivity. Qed.
Example velocity_v9 :
  run (impl_action CVelocityWorld) {| c_ver := 9; c_xmode := false |} (mkenv [f1; f2; f3; f4])
  = Sent 7 0 [8; 0;0;128;63; 0;0;0;64; 0;0;64;64; 0;0;128;64].
Proof. vm_compute. reflexivity. Qed.
Example velocity_decodes_same :
  fw_decode 8 7 0 [1; 0;0;128;63; 0;0;0;64; 0;0;64;64; 0;0;128;192]
  = Some (CVelocityWorld, [(F32, 1065353216); (F32, 1073741824); (F32, 1077936128); (F32, 1082130432)]) /\
  fw_decode 9 7 0 [8; 0;0;128;63; 0;0;0;64; 0;0;64;64; 0;0;128;64]
  = Some (CVelocityWorld, [(F32, 1065353216); (F32, 1073741824); (F32, 1077936128); (F32, 1082130432)]) /\
  intended CVelocityWorld {| c_ver := 8; c_xmode := false |} (mkenv [f1; f2; f3; f4])
  = Some [(F32, 1065353216); (F32, 1073741824); (F32, 1077936128); (F32, 1082130432)].
Proof. vm_compute. repeat split. Qed.

(* send_setpoint(1.0, 2.0, 3.0, 1000) with X-mode: roll' = 0.707*(1-2), pitch' = 0.707*(1+2) *)
Example setpoint_xmode :
  run (impl_action CSetpoint) {| c_ver := 9; c_xmode := true |} (mkenv [f1; f2; f3; PInt 1000])
  = Sent 3 0 [244;253;52;191; 119;190;7;192; 0;0;64;64; 232;3].
Proof. vm_compute. reflexivity. Qed.

(* thrust 70000 raises ValueError; thrust 65535.0 (a float) raises struct.error *)
Example setpoint_thrust_high :
  run (impl_action CSetpoint) {| c_ver := 9; c_xmode := false |} (mkenv [f1; f2; f3; PInt 70000]) = Raised EValue.
Proof. vm_compute. reflexivity. Qed.
Example setpoint_thrust_float :
  run (impl_action CSetpoint) {| c_ver := 9; c_xmode := false |} (mkenv [f1; f2; f3; F 4679239875398991872]) = Raised EStruct.
Proof. vm_compute. reflexivity. Qed.

(* takeoff(1.0, 2.0, group_mask=0, yaw=None): useCurrentYaw = 1, yaw field 0.0 *)
Example takeoff_none :
  run (impl_action CHlTakeoff) {| c_ver := 9; c_xmode := false |} (mkenv [f1; f2; PInt 0; PNone])
  = Sent 8 0 [7; 0; 0;0;128;63; 0;0;0;0; 1; 0;0;0;64].
Proof. vm_compute. reflexivity. Qed.

(* full state: 0.009 m is sent as 9 mm (the binary64 product 0.009*1000 is exactly 9.0), 32.768 raises *)
Definition fs_env (x : pyval) : env :=
  {| e_args := [x; f1; f2; f1; f1; f1; f1; f1; f1; f1; f1; f1]; e_lists := []; e_codecs := [Ok 511]; e_tail := [] |}.
Example full_state_9mm :
  match run (impl_action CFullState) {| c_ver := 9; c_xmode := false |} (fs_env (F 4576341768551784251)) with
  | Sent 7 0 (6 :: 9 :: 0 :: _) => True | _ => False end.
Proof. vm_compute. exact I. Qed.
Example full_state_overflow :
  run (impl_action CFullState) {| c_ver := 9; c_xmode := false |} (fs_env (F 4629808503327926780)) = Raised EStruct.
Proof. vm_compute. reflexivity. Qed.

(* spiral is not sent before protocol version 8 *)
Example spiral_v7 :
  run (impl_action CHlSpiral) {| c_ver := 7; c_xmode := false |}
      (mkenv [f1; f1; f2; f1; f3; PBool false; PBool true; PInt 0]) = Nothing.
Proof. vm_compute. reflexivity. Qed.

(* lighthouse persist with a duplicated entry: bit 1 and bit 3, not bit 2 *)
Example persist_dup :
  mask_or [1; 1; 3] = 10 /\ mask_sum [1; 1; 3] = 12.
Proof. vm_compute. split; reflexivity. Qed.

(* every command can actually send: the hypothesis of C08_decode_encode / C08_payload_le_30 is satisfiable
   for each of the 30 commands (protocol version 9 and also version 7 where the layout differs) *)
Definition example_env (c : cmd) : env :=
  match c with
  | CSetpoint => mkenv [f1; f2; f3; PInt 1000]
  | CNotifyStop => mkenv [PInt 5]
  | CVelocityWorld | CZDistance | CHover | CPosition => mkenv [f1; f2; f3; f4]
  | CFullState => fs_env f2
  | CHlGroupMask | CHlStop => mkenv [PInt 1]
  | CHlTakeoff | CHlLand => mkenv [f1; f2; PInt 0; f3]
  | CHlGoTo | CHlSpiral => mkenv [f1; f2; f3; f4; f1; PBool true; PBool false; PInt 0]
  | CHlStartTraj => mkenv [PInt 1; f1; PBool false; PBool true; PInt 0]
  | CHlDefineTraj => mkenv [PInt 1; PInt 0; PInt 3; PInt 0]
  | CLocExtPos | CExtposPos => mkenv [f1; f2; f3]
  | CLocExtPose | CExtposPose => mkenv [f1; f2; f3; f4; f1; f2; f3]
  | CLocShortLpp => {| e_args := [PInt 7]; e_lists := []; e_codecs := []; e_tail := [1; 2; 3] |}
  | CLocLhPersist => {| e_args := []; e_lists := [[1; 2]; [3]]; e_codecs := []; e_tail := [] |}
  | CPlatContWave | CPlatArming => mkenv [PBool true]
  | CLpsSetPosition => mkenv [PInt 1; f1; f2; f3]
  | CLpsReboot | CLpsSetMode => mkenv [PInt 1; PInt 2]
  | _ => mkenv []
  end.

Definition sends (ver : Z) (c : cmd) : bool :=
  match run (impl_action c) {| c_ver := ver; c_xmode := true |} (example_env c) with
  | Sent _ _ _ => true | _ => false end.

Example every_command_sends_v9 : forallb (sends 9) all_cmds = true.
Proof. vm_compute. reflexivity. Qed.
Example every_command_but_spiral_sends_v7 :
  forallb (fun c => match c with CHlSpiral => negb (sends 7 c) | _ => sends 7 c end) all_cmds = true.
Proof. vm_compute. reflexivity. Qed.

(* the shape of C08_float32_values_exact's hypothesis: the binary64 1.0 is (widen 2^23) * 2^(-23 - 29),
   and 0.5 * (1 + 2^-23) (the float32 successor of 0.5) likewise *)
From CF Require Import C08.Proofs_a.
Example one_is_widened :
  sf64_of_bits 4607182418800017408 = S754_finite false (widen 8388608) (-23 - 29) /\
  sf64_of_bits 4602678819709517824 = S754_finite false (widen 8388609) (-24 - 29).
Proof. vm_compute. split; reflexivity. Qed.
